/-
  The EDIF reader on s-expressions: a transcription of spydrnet/parsers/edif/parser.py
  (recursive-descent constructs, element stack, metadata prefixes) into a total function
  `ofSExp : SExp → Except Err CNetlist`.  The Python parser is streaming; on balanced input the
  two are meant to agree and the correspondence check compares them.

  The model follows the code AS REPAIRED by docs/fixes/edif_*.diff:
    * parse_design consumes its own parentheses, resolves (cellRef c (libraryRef l)) by
      case-insensitive lookup and rejects undeclared targets;
    * separate_name_and_index('_') has no `&_` special case; the '[' branch uses endswith;
    * multibit_add_cable looks the cable up by exact name / case-insensitive identifier (no glob);
      a bit whose index EQUALS the cable's lower index is merged into wire 0 (`>=`, not `>`).
  Outcome `Err.unsupported` marks inputs outside the modelled subset (no claim is made there).
  No Mathlib.
-/
import Spydr.Edif.ModelNet
namespace Spydr.Edif

inductive Err where
  | syntax (what : String)        -- RuntimeError: `expect`, token validity, multiple occurrences
  | notImpl (what : String)       -- NotImplementedError
  | assert (what : String)        -- AssertionError: unresolved reference, pin joined twice
  | value (what : String)         -- ValueError: naming conflict / illegal EDIF identifier
  | index (what : String)         -- IndexError / KeyError / AttributeError family
  | unsupported (what : String)   -- outside the modelled subset
  deriving Repr, Inhabited

abbrev R := Except Err

/-! ### characters and tokens -/

def lower (s : Str) : Str := s.map Char.toLower

def S (s : String) : Str := s.toList

def isAsciiAlpha (c : Char) : Bool := ('a' ≤ c && c ≤ 'z') || ('A' ≤ c && c ≤ 'Z')
def isAsciiDigit (c : Char) : Bool := c.isDigit
def isIdChar (c : Char) : Bool := isAsciiAlpha c || isAsciiDigit c || c == '_'

/-- `EdifTokenizer.is_valid_identifier` : `re.match(r"[a-zA-Z]|&\a*", tok) and len(tok) <= 256` -/
def validIdentTok (s : Str) : Bool :=
  match s with
  | [] => false
  | c :: _ => (isAsciiAlpha c || c == '&') && s.length ≤ 256

/-- `EdifNamespace._check_EDIF_identifier` -/
def checkEdifIdentifier (s : Str) : Bool :=
  match s with
  | [] => false
  | '&' :: r => 2 ≤ s.length && s.length ≤ 256 && r.all isIdChar
  | c :: _ => s.length ≤ 255 && isAsciiAlpha c && s.all isIdChar

/-- characters a stringToken may contain between its quotes: anything but the double quote (as
    repaired: docs/fixes/edif_string_token_any_char.diff; the pinned commit accepted printable ASCII
    and TAB only).  Line breaks never reach a token (the tokenizer drops them inside quotes). -/
def isStringChar (c : Char) : Bool := c != '"' && c != '\n' && c != '\r'

/-- `parse_stringToken`: the token must be `"…"`; returns the text between the quotes -/
def stringTok (s : Str) : Option Str :=
  match s with
  | '"' :: r =>
    match r.reverse with
    | '"' :: m => if m.all isStringChar then some m.reverse else none
    | _ => none
  | _ => none

/-- value of a digit string, most significant first -/
def ofDigits (ds : Str) : Nat := Nat.ofDigitChars 10 ds 0

inductive IntTok where
  | ok (i : Int)
  | bad          -- not `[-+]?\d+…` : RuntimeError
  | weird        -- digits followed by other characters: Python's int() decides; not modelled

def intBody (neg : Bool) (body : Str) : IntTok :=
  match body with
  | [] => .bad
  | c :: _ =>
    if !isAsciiDigit c then .bad
    else if body.all isAsciiDigit then
      .ok (if neg then - (Int.ofNat (ofDigits body)) else Int.ofNat (ofDigits body))
    else .weird

/-- `parse_integerToken`: `[-+]?\d+` -/
def intTok (s : Str) : IntTok :=
  match s with
  | '-' :: r => intBody true r
  | '+' :: r => intBody false r
  | _ => intBody false s

def joinDot : List Str → Str
  | [] => []
  | [a] => a
  | a :: r => a ++ '.' :: joinDot r

/-! ### elements under construction -/

structure Meta where
  data : Data
  pfx : List Str            -- metadata_prefix
  deriving Repr, Inhabited

def Meta.new : Meta := { data := [], pfx := [S "EDIF"] }
def Meta.push (m : Meta) (s : String) : Meta := { m with pfx := m.pfx ++ [S s] }
def Meta.pop (m : Meta) : Meta := { m with pfx := m.pfx.dropLast }
def Meta.key (m : Meta) : Str := joinDot m.pfx

/-- `set_attribute` (with the EDIF policy's identifier check of the namespace manager) -/
def setAttr (m : Meta) (v : Val) : R Meta :=
  let key := m.key
  if key = S "EDIF.original_identifier" then
    pure { m with data := m.data.set kNAME v }
  else if key = kIDENT then
    match v with
    | .str s =>
      if checkEdifIdentifier s then
        let d := if m.data.has kNAME then m.data else m.data.set kNAME v
        pure { m with data := d.set kIDENT v }
      else throw (.value "illegal EDIF identifier")
    | _ => throw (.unsupported "identifier value")
  else pure { m with data := m.data.set key v }

/-- `append_attribute` -/
def appendAttr (m : Meta) (v : Val) : Meta :=
  let key := m.key
  match m.data.get? key with
  | some (.list xs) => { m with data := m.data.set key (.list (xs ++ [v])) }
  | _ => { m with data := m.data.set key (.list [v]) }

def isKw (x : SExp) (k : String) : Bool :=
  match x with
  | .atom s => lower s == S k
  | .list _ => false

def headIs (xs : List SExp) (k : String) : Bool :=
  match xs with
  | x :: _ => isKw x k
  | [] => false

def headAny (xs : List SExp) (ks : List String) : Bool := ks.any (headIs xs)

/-- `expect_end_construct`: nothing may be left in the current list -/
def endC (what : String) (rest : List SExp) : R Unit :=
  match rest with
  | [] => pure ()
  | _ => throw (.syntax ("expecting ) after " ++ what))

def identOfS (x : SExp) : R Str :=
  match x with
  | .atom s => if validIdentTok s then pure s else throw (.syntax "expecting identifier")
  | .list _ => throw (.syntax "expecting identifier")

def stringOfS (x : SExp) : R Str :=
  match x with
  | .atom s => match stringTok s with
    | some t => pure t
    | none => throw (.syntax "expecting stringToken")
  | .list _ => throw (.syntax "expecting stringToken")

def intOfS (x : SExp) : R Int :=
  match x with
  | .atom s => match intTok s with
    | .ok i => pure i
    | .bad => throw (.syntax "expecting integerToken")
    | .weird => throw (.unsupported "integer token with trailing characters")
  | .list _ => throw (.syntax "expecting integerToken")

/-- `parse_rename` on the content of `(rename id "orig")` (exactly three items) -/
def parseRename (m : Meta) (ys : List SExp) : R Meta :=
  match ys with
  | [kw, i, o] =>
    if isKw kw "rename" then do
      let ident ← identOfS i
      let m ← setAttr (m.push "identifier") (.str ident)
      let m := m.pop
      let orig ← stringOfS o
      let m ← setAttr (m.push "original_identifier") (.str orig)
      pure m.pop
    else throw (.syntax "expecting rename")
  | _ => throw (.syntax "rename: expecting (rename identifier string)")

/-- `parse_nameDef`; returns the remaining items -/
def nameDef (m : Meta) (xs : List SExp) : R (Meta × List SExp) :=
  match xs with
  | .list ys :: rest => do
      let m ← parseRename m ys
      pure (m, rest)
  | x :: rest => do
      let ident ← identOfS x
      let m ← setAttr (m.push "identifier") (.str ident)
      pure (m.pop, rest)
  | [] => throw (.syntax "expecting name")

/-- `parse_nameRef` -/
def nameRef (m : Meta) (xs : List SExp) : R (Meta × List SExp) :=
  match xs with
  | x :: rest => do
      let ident ← identOfS x
      let m ← setAttr (m.push "identifier") (.str ident)
      pure (m.pop, rest)
  | [] => throw (.syntax "expecting name")

/-- loop `while self.begin_construct(): …; self.expect_end_construct()` : the handler gets the
    content of each list item and must consume it; the loop stops at the first atom -/
def loopC {σ : Type} (h : σ → List SExp → R σ) : σ → List SExp → R (σ × List SExp)
  | s, .list ys :: rest => do
      let s ← h s ys
      loopC h s rest
  | s, rest => pure (s, rest)

/-! ### comments, properties, status -/

/-- `parse_comment` on the content `comment "…" …` -/
def parseComment (m : Meta) (ys : List SExp) : R Meta := do
  let m := m.push "comments"
  let strs ← ys.tail.mapM stringOfS
  pure (appendAttr m (.list (strs.map .str))).pop

/-- `parse_typedValue` on the content of the value construct -/
def typedValue (ys : List SExp) : R Val :=
  if headIs ys "boolean" then
    match ys with
    | [_, .list [.atom t]] =>
      if lower t == S "true" then pure (.bool true)
      else if lower t == S "false" then pure (.bool false)
      else throw (.syntax "expecting true|false")
    | _ => throw (.syntax "boolean: expecting (boolean (true|false))")
  else if headIs ys "integer" then
    match ys with
    | [_, x] => do let i ← intOfS x; pure (.int i)
    | _ => throw (.syntax "integer: expecting one integerToken")
  else if headIs ys "minomax" then throw (.notImpl "miNoMax")
  else if headIs ys "number" then
    match ys with
    | [_, .list _] => throw (.unsupported "number with exponent (float)")
    | [_, x] => do let i ← intOfS x; pure (.int i)
    | _ => throw (.syntax "number")
  else if headIs ys "point" then throw (.notImpl "point")
  else if headIs ys "string" then
    match ys with
    | [_, x] => do let s ← stringOfS x; pure (.str s)
    | _ => throw (.syntax "string: expecting one stringToken")
  else throw (.syntax "expecting boolean|integer|number|string")

/-- the trailing `owner`/`unit`/… loop of parse_property_like_element; state = has_owner -/
def propTail (hasOwner : Bool) (ys : List SExp) : R Bool :=
  if headIs ys "owner" then
    if hasOwner then throw (.syntax "multiple owner")
    else match ys with
      | [_, x] => do let _ ← stringOfS x; pure true
      | _ => throw (.syntax "owner")
  else if headIs ys "unit" then throw (.notImpl "unit")
  else if headIs ys "property" then throw (.notImpl "nested property")
  else if headIs ys "comment" then throw (.notImpl "comment in property")
  else match ys with
    | [] => pure hasOwner
    | _ => throw (.syntax "property: expecting )")

/-- `parse_property_like_element` after the keyword; the prefix has been pushed by the caller -/
def propLike (m : Meta) (rest : List SExp) : R Meta := do
  let (m, rest) ← nameDef m rest
  let idKey := joinDot (m.pfx ++ [S "identifier"])
  let origKey := joinDot (m.pfx ++ [S "original_identifier"])
  let ident ← match m.data.get? idKey with
    | some v => pure v
    | none => throw (.index "property identifier")
  let p : List (Str × Val) := [(S "identifier", ident)]
  let (p, d) := match m.data.get? origKey with
    | some o => (p ++ [(S "original_identifier", o)], (m.data.erase idKey).erase origKey)
    | none => (p, m.data.erase idKey)
  let m := { m with data := d }
  match rest with
  | .list vs :: rest => do
      let v ← typedValue vs
      let m := appendAttr m (.obj (p ++ [(S "value", v)]))
      let (_, rest) ← loopC propTail false rest
      endC "property" rest
      pure m.pop
  | _ => throw (.syntax "property: expecting typed value")

def parseProperty (m : Meta) (ys : List SExp) : R Meta := propLike (m.push "properties") ys.tail
def parseMetax (m : Meta) (ys : List SExp) : R Meta := propLike (m.push "metaxes") ys.tail

def intsOf (xs : List SExp) : R (List Int) := xs.mapM intOfS

structure WrittenSt where
  m : Meta
  author : Bool := false
  program : Bool := false

def writtenItem (s : WrittenSt) (ys : List SExp) : R WrittenSt :=
  if headIs ys "author" then
    if s.author then throw (.syntax "multiple author") else
    match ys with
    | [_, x] => do
        let a ← stringOfS x
        let m ← setAttr (s.m.push "author") (.str a)
        pure { s with m := m.pop, author := true }
    | _ => throw (.syntax "author")
  else if headIs ys "program" then
    if s.program then throw (.syntax "multiple program") else
    match ys with
    | [_, x] => do
        let a ← stringOfS x
        let m ← setAttr (s.m.push "program") (.str a)
        pure { s with m := m.pop, program := true }
    | [_, x, .list [kw, v]] =>
        if isKw kw "version" then do
          let a ← stringOfS x
          let m ← setAttr (s.m.push "program") (.str a)
          let ver ← stringOfS v
          let m ← setAttr (m.push "version") (.str ver)
          pure { s with m := m.pop.pop, program := true }
        else throw (.syntax "expecting version")
    | _ => throw (.syntax "program")
  else if headIs ys "dataorigin" then throw (.notImpl "dataOrigin")
  else if headIs ys "property" then do let m ← parseProperty s.m ys; pure { s with m := m }
  else if headIs ys "metax" then do let m ← parseMetax s.m ys; pure { s with m := m }
  else if headIs ys "comment" then do let m ← parseComment s.m ys; pure { s with m := m }
  else if headIs ys "userdata" then throw (.notImpl "userData")
  else throw (.syntax "written: unexpected construct")

/-- `parse_written` -/
def parseWritten (m : Meta) (ys : List SExp) : R Meta :=
  let m := m.push "written"
  match ys.tail with
  | .list ts :: rest =>
    if headIs ts "timestamp" then do
      let is ← intsOf ts.tail
      if is.length ≠ 6 then throw (.syntax "timeStamp: six integers") else
      let m ← setAttr (m.push "timeStamp") (.list (is.map .int))
      let (s, rest) ← loopC writtenItem { m := m.pop } rest
      endC "written" rest
      pure s.m.pop
    else throw (.syntax "expecting timeStamp")
  | _ => throw (.syntax "written: expecting (timeStamp …)")

def statusItem (m : Meta) (ys : List SExp) : R Meta :=
  if headIs ys "written" then parseWritten m ys
  else if headIs ys "comment" then parseComment m ys
  else if headIs ys "userdata" then throw (.notImpl "userData")
  else throw (.syntax "status: unexpected construct")

/-- `parse_status` -/
def parseStatus (m : Meta) (ys : List SExp) : R Meta := do
  let (m, rest) ← loopC statusItem (m.push "status") ys.tail
  endC "status" rest
  pure m.pop

/-- `parse_edifLevel` / `parse_keywordLevel` body: `kw int` -/
def levelOf (m : Meta) (ys : List SExp) (kw : String) (pfx : String) : R Meta :=
  match ys with
  | [k, x] =>
    if isKw k kw then do
      let lvl ← intOfS x
      if lvl ≠ 0 then do
        let m ← setAttr (m.push pfx) (.int lvl)
        pure m.pop
      else pure m
    else throw (.syntax ("expecting " ++ kw))
  | _ => throw (.syntax (kw ++ ": expecting one integer"))

/-! ### name spaces (EDIF policy): conflicts and lookups -/

/-- `NamespaceManager.add` under the EDIF policy: a sibling of the same kind with the same
    identifier ignoring case, or with the same name -/
def conflicts (sibs : List Data) (d : Data) : Bool :=
  sibs.any fun s =>
    (match identOf s, identOf d with
     | some a, some b => lower a == lower b
     | _, _ => false) ||
    (match nameOf s, nameOf d with
     | some a, some b => a == b
     | _, _ => false)

/-- position of the sibling whose EDIF identifier equals `ident` ignoring case -/
def findIdent (sibs : List Data) (ident : Str) : Option Nat :=
  sibs.findIdx? fun s => match identOf s with
    | some a => lower a == lower ident
    | none => false

/-- position of the sibling whose name equals `n` exactly -/
def findName (sibs : List Data) (n : Str) : Option Nat :=
  sibs.findIdx? fun s => match nameOf s with
    | some a => a == n
    | none => false

/-- add with the parser's retry "name := identifier" (definitions and instances) -/
def addRetry (sibs : List Data) (d : Data) : R Data :=
  if !conflicts sibs d then pure d
  else match nameOf d, identOf d with
    | some n, some i =>
      if n ≠ i then
        let d' := d.set kNAME (.str i)
        if !conflicts sibs d' then pure d' else throw (.value "naming conflict")
      else throw (.value "naming conflict")
    | _, _ => throw (.value "naming conflict")

/-! ### ports -/

structure PortSt where
  m : Meta
  dir : Dir := .undefined
  hasDir : Bool := false

def parseDirection (ys : List SExp) : R Dir :=
  match ys with
  | [_, t] =>
    if isKw t "inout" then pure .inout
    else if isKw t "input" then pure .inp
    else if isKw t "output" then pure .out
    else throw (.syntax "expecting inout|input|output")
  | _ => throw (.syntax "direction")

def portItem (s : PortSt) (ys : List SExp) : R PortSt :=
  if headIs ys "direction" then
    if s.hasDir then throw (.syntax "multiple direction") else do
      let d ← parseDirection ys
      pure { s with dir := d, hasDir := true }
  else if headAny ys ["unused", "designator", "dc_fanin_load", "dc_fanout_load", "dc_max_fanout",
                      "dc_max_fanin", "ac_load", "port_delay"] then throw (.notImpl "port attribute")
  else if headIs ys "property" then do let m ← parseProperty s.m ys; pure { s with m := m }
  else if headIs ys "comment" then do let m ← parseComment s.m ys; pure { s with m := m }
  else if headIs ys "userdata" then throw (.notImpl "userData")
  else throw (.syntax "port: unexpected construct")

/-- `parse_port` on the content `port …` -/
def parsePort (ys : List SExp) : R CPort := do
  let m := Meta.new
  let (m, width, isArr, rest) ← (match ys.tail with
    | .list zs :: rest =>
      if headIs zs "rename" then do
        let m ← parseRename m zs
        pure (m, 1, false, rest)
      else if headIs zs "array" then
        match zs.tail with
        | [] => throw (.syntax "array: expecting name")
        | zs1 => do
          let (m, r2) ← nameDef m zs1
          match r2 with
          | [n] => do
              let k ← intOfS n
              pure (m, k.toNat, true, rest)
          | _ => throw (.syntax "array: expecting one dimension")
      else throw (.syntax "expecting rename|array")
    | xs => do
      let (m, rest) ← nameDef m xs
      pure (m, 1, false, rest) : R (Meta × Nat × Bool × List SExp))
  let (s, rest) ← loopC portItem { m := m } rest
  endC "port" rest
  pure { data := s.m.data.set (S "metadata_prefix") (.list [.str (S "EDIF")]),
         dir := s.dir, width := width, scalarFlag := !isArr, lower := 0 }

/-! ### instances and reference resolution -/

/-- what the reference resolver can see: libraries already added to the netlist, the library being
    read (its data and the cells already added), the cell being read -/
structure Scope where
  libs : List CLib
  curLib : Data
  curDefs : List CDef

def viewIdentOf (d : Data) : Option Str := d.getStr? (S "EDIF.view.identifier")

/-- `parse_libraryRef` on the content; result = library index (the current library has index
    `libs.length`) -/
def parseLibraryRef (sc : Scope) (m : Meta) (ys : List SExp) : R Nat :=
  match ys with
  | [_, x] => do
      let (m', _) ← nameRef (m.push "libraryRef") [x]
      let _ := m'
      let ident ← identOfS x
      match identOf sc.curLib with
      | none => throw (.index "library without identifier")
      | some cur =>
        if lower cur == lower ident then pure sc.libs.length
        else match findIdent (sc.libs.map (·.data)) ident with
          | some i => pure i
          | none => throw (.assert "library not found by EDIF identifier")
  | _ => throw (.syntax "libraryRef: expecting one identifier")

def defsOfLib (sc : Scope) (li : Nat) : List CDef :=
  if li = sc.libs.length then sc.curDefs else
  match sc.libs[li]? with
  | some l => l.defs
  | none => []

/-- `parse_cellRef` on the content; result = (library index, definition index) -/
def parseCellRef (sc : Scope) (m : Meta) (ys : List SExp) : R (Nat × Nat) :=
  if !headIs ys "cellref" then throw (.syntax "expecting cellRef") else
  match ys.tail with
  | x :: rest => do
      let ident ← identOfS x
      let li ← (match rest with
        | [] => pure sc.libs.length
        | [.list zs] =>
          if headIs zs "libraryref" then parseLibraryRef sc (m.push "cellRef") zs
          else throw (.syntax "expecting libraryRef")
        | _ => throw (.syntax "cellRef: expecting (libraryRef …)") : R Nat)
      match findIdent ((defsOfLib sc li).map (·.data)) ident with
      | some di => pure (li, di)
      | none => throw (.assert "definition not found by EDIF identifier")
  | [] => throw (.syntax "cellRef: expecting name")

/-- `parse_viewRef` on the content (as repaired, edif_viewref_requires_cellref.diff: a viewRef without
    `cellRef` — it would name the cell being read — is rejected) -/
def parseViewRef (sc : Scope) (m : Meta) (ys : List SExp) : R (Nat × Nat) :=
  match ys.tail with
  | [v, .list zs] => do
      let vid ← identOfS v
      let r ← parseCellRef sc (m.push "viewRef") zs
      match (defsOfLib sc r.1)[r.2]? with
      | none => throw (.index "definition")
      | some d =>
        match viewIdentOf d.data with
        | none => throw (.index "referenced cell has no view")
        | some dv =>
          if lower dv == lower vid then pure r
          else throw (.syntax "non-existent view referenced")
  | [_] => throw (.syntax "expecting cellRef")
  | _ => throw (.syntax "viewRef")

def instItem (m : Meta) (ys : List SExp) : R Meta :=
  if headIs ys "property" then parseProperty m ys
  else if headIs ys "comment" then parseComment m ys
  else if headIs ys "userdata" then throw (.notImpl "userData")
  else throw (.syntax "instance: unexpected construct")

/-- `parse_instance` on the content `instance …` (as repaired, edif_instance_requires_viewref.diff: an
    instance without `(viewRef …)` | `(viewList …)` is rejected) -/
def parseInstance (sc : Scope) (ys : List SExp) : R CInst := do
  let (m, rest) ← nameDef Meta.new ys.tail
  let (ref, rest) ← (match rest with
    | .list zs :: rest' =>
      if headIs zs "viewref" then do
        let r ← parseViewRef sc m zs
        pure (some r, rest')
      else if headIs zs "viewlist" then throw (.notImpl "viewList")
      else throw (.syntax "expecting viewRef")
    | _ => throw (.syntax "expecting viewRef") : R (Option (Nat × Nat) × List SExp))
  let (m, rest) ← loopC instItem m rest
  endC "instance" rest
  pure { data := m.data, ref := ref }

/-! ### nets -/

/-- Python list indexing `l[i]` for a possibly negative `i` -/
def pyIndex (len : Nat) (i : Int) : Option Nat :=
  if 0 ≤ i then (if i.toNat < len then some i.toNat else none)
  else if (-i).toNat ≤ len then some (len - (-i).toNat) else none

/-- the cell being read, as the net parser sees it -/
structure DefCtx where
  sc : Scope
  ports : List CPort
  insts : List CInst

def instanceRefOf (cx : DefCtx) (ys : List SExp) : R Nat :=
  match ys with
  | [_, .list _] => throw (.notImpl "instanceRef (member …)")
  | [_, x] => do
      let ident ← identOfS x
      match findIdent (cx.insts.map (·.data)) ident with
      | some i => pure i
      | none => throw (.assert "instance not found by EDIF identifier")
  | _ => throw (.syntax "instanceRef")

/-- the `while begin_construct` loop of parse_portRef: the last instanceRef wins; `()` is skipped -/
def portRefTail (cx : DefCtx) (cur : Option Nat) (ys : List SExp) : R (Option Nat) :=
  if headIs ys "portref" then throw (.notImpl "nested portRef")
  else if headIs ys "instanceref" then do
    let i ← instanceRefOf cx ys
    pure (some i)
  else if headIs ys "viewref" then throw (.notImpl "viewRef in portRef")
  else match ys with
    | [] => pure cur
    | _ => throw (.syntax "portRef: expecting )")

/-- `(member name idx)` content → (identifier, index); a rename inside member is not modelled -/
def parseMember (ys : List SExp) : R (Str × Int) :=
  if !headIs ys "member" then throw (.syntax "expecting member") else
  match ys.tail with
  | [.list _, _] => throw (.unsupported "rename inside member")
  | [x, n] => do
      let ident ← identOfS x
      let i ← intOfS n
      pure (ident, i)
  | _ => throw (.assert "member: exactly one index")

/-- `parse_portRef` on the content `portRef …` -/
def parsePortRef (cx : DefCtx) (ys : List SExp) : R CPin :=
  match ys.tail with
  | [] => throw (.syntax "portRef: expecting name")
  | first :: rest => do
      let (ident, idx) ← (match first with
        | .list zs => parseMember zs
        | x => do let i ← identOfS x; pure (i, 0) : R (Str × Int))
      let (target, rest) ← loopC (portRefTail cx) none rest
      endC "portRef" rest
      match target with
      | none =>
        match findIdent (cx.ports.map (·.data)) ident with
        | none => throw (.assert "port not found in definition by EDIF identifier")
        | some pi =>
          match cx.ports[pi]? with
          | none => throw (.index "port")
          | some p =>
            match pyIndex p.width idx with
            | some b => pure (.port pi b)
            | none => throw (.index "pin index out of range")
      | some ii =>
        match cx.insts[ii]? with
        | none => throw (.index "instance")
        | some inst =>
          match inst.ref with
          | none => throw (.index "instance without reference")
          | some (li, di) =>
            match (defsOfLib cx.sc li)[di]? with
            | none => throw (.index "definition")
            | some d =>
              match findIdent (d.ports.map (·.data)) ident with
              | none => throw (.assert "port not found in referenced definition by EDIF identifier")
              | some pi =>
                match d.ports[pi]? with
                | none => throw (.index "port")
                | some p =>
                  match pyIndex p.width idx with
                  | some b => pure (.inst ii pi b)
                  | none => throw (.index "pin index out of range")

def joinedItem (cx : DefCtx) (pins : List CPin) (ys : List SExp) : R (List CPin) :=
  if headIs ys "portref" then do
    let p ← parsePortRef cx ys
    pure (pins ++ [p])
  else if headIs ys "portlist" then throw (.notImpl "portList")
  else if headIs ys "globalportref" then throw (.notImpl "globalPortRef")
  else throw (.syntax "joined: expecting portRef")

def netItem (m : Meta) (ys : List SExp) : R Meta :=
  if headIs ys "property" then parseProperty m ys
  else if headIs ys "comment" then parseComment m ys
  else if headIs ys "userdata" then throw (.notImpl "userData")
  else throw (.syntax "net: unexpected construct")

/-- `parse_net` on the content `net …`: a one-wire scalar cable (data, pins of its wire) -/
def parseNet (cx : DefCtx) (ys : List SExp) : R (Data × List CPin) := do
  let (m, rest) ← nameDef Meta.new ys.tail
  match rest with
  | .list js :: rest =>
    if headIs js "joined" then do
      let (pins, jr) ← loopC (joinedItem cx) [] js.tail
      endC "joined" jr
      let (m, rest) ← loopC netItem m rest
      endC "net" rest
      pure (m.data, pins)
    else throw (.syntax "expecting joined")
  | _ => throw (.syntax "net: expecting (joined …)")

/-! ### bit nets → multi-wire cables -/

/-- strip a suffix `o digits c` (digits non-empty): `separate_name_and_index` finds exactly this, for
    (o,c) = ('[',']') on names and ('_','_') on identifiers -/
def splitIdx (o c : Char) (s : Str) : Option (Nat × Str) :=
  match s.reverse with
  | c' :: rest =>
    if c' = c then
      let ds := rest.takeWhile isAsciiDigit
      match rest.dropWhile isAsciiDigit with
      | o' :: pre => if o' = o ∧ ds ≠ [] then some (ofDigits ds.reverse, pre.reverse) else none
      | [] => none
    else none
  | [] => none

/-- names starting with a backslash are escaped identifiers; only `\name [i]` (exactly one blank,
    not at the end) is read as indexed -/
def bracketAllowed (name : Str) : Bool :=
  match name with
  | [] => false
  | c :: _ =>
    c != '\\' ||
      ((name.filter (· == ' ')).length == 1 && name.getLast? != some ' ')

/-- `separate_name_and_index(name, "[")` (as repaired) -/
def sepName (name : Str) : Option Nat × Str :=
  if bracketAllowed name then
    match splitIdx '[' ']' name with
    | some (i, short) => (some i, short)
    | none => (none, name)
  else (none, name)

/-- `separate_name_and_index(identifier, "_")` (as repaired) -/
def sepIdent (ident : Str) : Option Nat × Str :=
  match splitIdx '_' '_' ident with
  | some (i, short) => (some i, short)
  | none => (none, ident)

/-- merge a bit net (index `idx`, pins) into an existing array cable: the three branches of
    multibit_add_cable -/
def mergeInto (ex : CCable) (idx : Nat) (pins : List CPin) : CCable :=
  if idx ≥ ex.lower then
    if idx < ex.lower + ex.wires.length then
      { ex with wires := ex.wires.set (idx - ex.lower) (ex.wires.getD (idx - ex.lower) [] ++ pins) }
    else
      { ex with wires := ex.wires ++ List.replicate (idx - ex.lower - ex.wires.length) [] ++ [pins] }
  else
    { ex with lower := idx, wires := [pins] ++ List.replicate (ex.lower - idx - 1) [] ++ ex.wires }

/-- `multibit_add_cable` (as repaired) + the ValueError fallback of parse_contents (duplicate net
    declarations: not modelled) -/
def multibitAdd (cables : List CCable) (d : Data) (pins : List CPin) : R (List CCable) :=
  match identOf d, nameOf d with
  | some ident, some name =>
    if name = [] then throw (.index "empty net name") else
    let e := sepIdent ident
    let n := sepName name
    let index : Option Nat := if e.1.isNone then none else n.1
    let cd := cables.map (·.data)
    let existing := match findName cd n.2 with
      | some i => some i
      | none => findIdent cd e.2
    let plain : R (List CCable) :=
      if conflicts cd d then throw (.unsupported "net declared twice (ValueError fallback)")
      else pure (cables ++ [{ data := d, scalarFlag := true, lower := 0, wires := [pins] }])
    match existing with
    | none =>
      match index with
      | none => plain
      | some i =>
        let d' := (d.set kIDENT (.str e.2)).set kNAME (.str n.2)
        if !checkEdifIdentifier e.2 then throw (.value "illegal EDIF identifier") else
        if conflicts cd d' then throw (.unsupported "net declared twice (ValueError fallback)")
        else pure (cables ++ [{ data := d', scalarFlag := false, lower := i, wires := [pins] }])
    | some k =>
      match cables[k]? with
      | none => throw (.index "cable")
      | some ex =>
        match index with
        | none => plain
        | some i =>
          if !ex.isArray then plain
          else pure (cables.set k (mergeInto ex i pins))
  | _, _ => throw (.index "net without name")

/-! ### cells -/

def encodePin : CPin → Nat × Nat × Nat × Nat
  | .port p b => (0, 0, p, b)
  | .inst i p b => (1, i, p, b)

def pinLe (a b : CPin) : Bool :=
  let x := encodePin a
  let y := encodePin b
  x.1 < y.1 || (x.1 == y.1 && (x.2.1 < y.2.1 || (x.2.1 == y.2.1 &&
    (x.2.2.1 < y.2.2.1 || (x.2.2.1 == y.2.2.1 && x.2.2.2 ≤ y.2.2.2)))))

def adjDup : List CPin → Bool
  | a :: b :: r => a == b || adjDup (b :: r)
  | _ => false

/-- some pin joined twice (Wire.connect_pin asserts): checked once per cell on the sorted pins -/
def hasDupPin (cables : List CCable) : Bool :=
  adjDup ((cables.flatMap (fun c => c.wires.flatten)).mergeSort pinLe)

structure CellSt where
  m : Meta                        -- the definition's dictionary / prefix
  ports : List CPort := []
  insts : List CInst := []
  cables : List CCable := []
  hasStatus : Bool := false
  hasViewMap : Bool := false

def ifaceItem (s : CellSt × Bool) (ys : List SExp) : R (CellSt × Bool) :=
  let (st, hasDes) := s
  if headIs ys "port" then do
    let p ← parsePort ys
    if conflicts (st.ports.map (·.data)) p.data then throw (.value "port naming conflict")
    else pure ({ st with ports := st.ports ++ [p] }, hasDes)
  else if headAny ys ["portbundle", "symbol", "protectionframe", "arrayrelatedinfo", "parameter",
                      "joined", "mustjoin", "weakjoined", "permutable", "timing", "simulate"] then
    throw (.notImpl "interface construct")
  else if headIs ys "designator" then
    if hasDes then throw (.syntax "multiple designator") else pure (st, true)
  else if headIs ys "property" then do let m ← parseProperty st.m ys; pure ({ st with m := m }, hasDes)
  else if headIs ys "comment" then do let m ← parseComment st.m ys; pure ({ st with m := m }, hasDes)
  else if headIs ys "userdata" then throw (.notImpl "userData")
  else throw (.syntax "interface: unexpected construct")

def contentsItem (sc : Scope) (st : CellSt) (ys : List SExp) : R CellSt :=
  if headIs ys "instance" then do
    let i ← parseInstance sc ys
    let d ← addRetry (st.insts.map (·.data)) i.data
    pure { st with insts := st.insts ++ [{ i with data := d }] }
  else if headIs ys "net" then do
    let (d, pins) ← parseNet { sc := sc, ports := st.ports, insts := st.insts } ys
    let cs ← multibitAdd st.cables d pins
    pure { st with cables := cs }
  else if headAny ys ["offpageconnector", "figure", "section", "netbundle", "page", "commentgraphics",
                      "portimplementation", "timing", "simulate", "when", "follow", "logicport",
                      "boundingbox"] then throw (.notImpl "contents construct")
  else if headIs ys "comment" then do let m ← parseComment st.m ys; pure { st with m := m }
  else if headIs ys "userdata" then throw (.notImpl "userData")
  else throw (.syntax "contents: unexpected construct")

def viewItem (sc : Scope) (s : CellSt × Bool × Bool) (ys : List SExp) : R (CellSt × Bool × Bool) :=
  let (st, hasStatus, hasContents) := s
  if headIs ys "status" then
    if hasStatus then throw (.syntax "multiple status") else do
      let m ← parseStatus st.m ys
      pure ({ st with m := m }, true, hasContents)
  else if headIs ys "contents" then
    if hasContents then throw (.syntax "multiple contents") else do
      let (st, rest) ← loopC (contentsItem sc) st ys.tail
      endC "contents" rest
      if hasDupPin st.cables then throw (.assert "pin joined twice") else
      pure (st, hasStatus, true)
  else if headIs ys "comment" then do let m ← parseComment st.m ys; pure ({ st with m := m }, hasStatus, hasContents)
  else if headIs ys "property" then do let m ← parseProperty st.m ys; pure ({ st with m := m }, hasStatus, hasContents)
  else if headIs ys "userdata" then throw (.notImpl "userData")
  else throw (.syntax "view: unexpected construct")

def viewTypes : List String :=
  ["behavior", "document", "graphic", "logicmodel", "masklayout", "netlist", "schematic", "stranger", "symbolic"]

def atomText : SExp → Str
  | .atom s => s
  | .list _ => []

/-- `parse_view` on the content `view …` -/
def parseView (sc : Scope) (st : CellSt) (ys : List SExp) : R CellSt := do
  let (m, rest) ← nameDef (st.m.push "view") ys.tail
  match rest with
  | .list vt :: .list ifc :: rest =>
    match vt with
    | [k, t] =>
      if !isKw k "viewtype" then throw (.syntax "expecting viewType")
      else if !(viewTypes.any (isKw t)) then throw (.syntax "unknown viewType") else do
      -- quirk of the code: the token compared with NETLIST is the keyword itself, so the spelling
      -- of the `viewType` keyword is what gets stored
      let m ← setAttr ((m.push "viewType")) (.str (atomText k))
      let m := m.pop
      if !headIs ifc "interface" then throw (.syntax "expecting interface") else
      let ((st, _), ir) ← loopC ifaceItem ({ st with m := m }, false) ifc.tail
      endC "interface" ir
      let ((st, _, _), rest) ← loopC (viewItem sc) (st, false, false) rest
      endC "view" rest
      pure { st with m := st.m.pop }
    | _ => throw (.syntax "viewType")
  | _ => throw (.syntax "view: expecting (viewType …) (interface …)")

def cellItem (sc : Scope) (st : CellSt) (ys : List SExp) : R CellSt :=
  if headIs ys "status" then
    if st.hasStatus then throw (.syntax "multiple status") else do
      let m ← parseStatus st.m ys
      pure { st with m := m, hasStatus := true }
  else if headIs ys "view" then parseView sc st ys
  else if headIs ys "viewmap" then
    if st.hasViewMap then throw (.syntax "multiple viewMap") else throw (.notImpl "viewMap")
  else if headIs ys "property" then do let m ← parseProperty st.m ys; pure { st with m := m }
  else if headIs ys "comment" then do let m ← parseComment st.m ys; pure { st with m := m }
  else if headIs ys "userdata" then throw (.notImpl "userData")
  else throw (.syntax "cell: unexpected construct")

/-- `parse_cell` on the content `cell …` -/
def parseCell (sc : Scope) (ys : List SExp) : R CDef := do
  let (m, rest) ← nameDef Meta.new ys.tail
  match rest with
  | .list [k, t] :: rest =>
    if !isKw k "celltype" then throw (.syntax "expecting cellType")
    else if !(["generic", "tie", "ripper"].any (isKw t)) then throw (.syntax "expecting generic|tie|ripper") else do
    let m ← setAttr (m.push "cellType") (.str (atomText k))   -- same quirk as viewType
    let (st, rest) ← loopC (cellItem sc) { m := m.pop } rest
    endC "cell" rest
    pure { data := st.m.data, ports := st.ports, cables := st.cables, insts := st.insts }
  | _ => throw (.syntax "cell: expecting (cellType …)")

/-! ### libraries, design, the file -/

structure LibSt where
  m : Meta
  defs : List CDef := []
  hasStatus : Bool := false

def libItem (libs : List CLib) (st : LibSt) (ys : List SExp) : R LibSt :=
  if headIs ys "status" then
    if st.hasStatus then throw (.syntax "multiple status") else do
      let m ← parseStatus st.m ys
      pure { st with m := m, hasStatus := true }
  else if headIs ys "cell" then do
    let c ← parseCell { libs := libs, curLib := st.m.data, curDefs := st.defs } ys
    let d ← addRetry (st.defs.map (·.data)) c.data
    pure { st with defs := st.defs ++ [{ c with data := d }] }
  else if headIs ys "comment" then do let m ← parseComment st.m ys; pure { st with m := m }
  else if headIs ys "userdata" then throw (.notImpl "userData")
  else throw (.syntax "library: unexpected construct")

/-- `parse_library_like_element` on the content `library|external …` -/
def parseLibrary (libs : List CLib) (ext : Bool) (ys : List SExp) : R CLib := do
  let m0 : Meta := if ext then { Meta.new with data := [(S "EDIF.external", .bool true)] } else Meta.new
  let (m, rest) ← nameDef m0 ys.tail
  match rest with
  | .list lv :: .list [tk, .list nd] :: rest => do
      let m ← levelOf m lv "ediflevel" "edifLevel"
      if !isKw tk "technology" then throw (.syntax "expecting technology") else
      if !headIs nd "numberdefinition" then throw (.syntax "expecting numberDefinition") else
      let (st, rest) ← loopC (libItem libs) { m := m } rest
      endC "library" rest
      pure { data := st.m.data, defs := st.defs }
  | _ => throw (.syntax "library: expecting (edifLevel …) (technology (numberDefinition …))")

/-- `parse_design` (as repaired: io_edif_design_undeclared.diff + edif_design_tail.diff) on the content
    `design …`.  The code reads `( kw name ( kw name ) )` positionally without looking at the two
    keywords; shapes other than that are outside the modelled subset. What follows the cellRef
    inside the design (properties, comments) is skipped. -/
def parseDesign (libs : List CLib) (ys : List SExp) : R CInst :=
  match ys.tail with
  | nm :: .list cr :: _ => do
      let m ← (match nm with
        | .list zs => parseRename Meta.new zs
        | x => do
            let ident ← identOfS x
            let m ← setAttr (Meta.new.push "identifier") (.str ident)
            pure m.pop : R Meta)
      match cr with
      | [.atom _, .atom cid, .list [.atom _, .atom lid]] =>
        if !(validIdentTok cid && validIdentTok lid) then throw (.unsupported "design: reference is not an identifier") else
        match findIdent (libs.map (·.data)) lid with
        | none => throw (.assert "design: library not found by EDIF identifier")
        | some li =>
          match libs[li]? with
          | none => throw (.index "library")
          | some l =>
            match findIdent (l.defs.map (·.data)) cid with
            | none => throw (.assert "design: definition not found by EDIF identifier")
            | some di =>
              pure { data := m.data.set (S "metadata_prefix") (.list []), ref := some (li, di) }
      | _ => throw (.unsupported "design: expecting (cellRef c (libraryRef l))")
  | _ => throw (.unsupported "design: expecting name and cellRef")

structure BodySt where
  m : Meta
  libs : List CLib := []
  top : Option CInst := none
  hasStatus : Bool := false

def bodyItem (st : BodySt) (ys : List SExp) : R BodySt :=
  if headIs ys "status" then
    if st.hasStatus then throw (.syntax "multiple status") else do
      let m ← parseStatus st.m ys
      pure { st with m := m, hasStatus := true }
  else if headIs ys "library" || headIs ys "external" then do
    let l ← parseLibrary st.libs (headIs ys "external") ys
    if conflicts (st.libs.map (·.data)) l.data then throw (.value "library naming conflict")
    else pure { st with libs := st.libs ++ [l] }
  else if headIs ys "design" then do
    let t ← parseDesign st.libs ys
    pure { st with top := some t }
  else if headIs ys "comment" then do let m ← parseComment st.m ys; pure { st with m := m }
  else if headIs ys "userdata" then throw (.notImpl "userData")
  else throw (.syntax "edif: unexpected construct")

/-- `parse_edif`: the whole file -/
def ofSExp (e : SExp) : R CNetlist :=
  match e with
  | .atom _ => throw (.syntax "expecting (")
  | .list ys =>
    if !headIs ys "edif" then throw (.syntax "expecting edif") else do
    let (m, rest) ← nameDef Meta.new ys.tail
    match rest with
    | .list ver :: .list lvl :: .list km :: rest => do
        if !headIs ver "edifversion" then throw (.syntax "expecting edifVersion") else
        let vs ← intsOf ver.tail
        if vs.length ≠ 3 then throw (.syntax "edifVersion: three integers") else
        let m ← setAttr (m.push "edifVersion") (.list (vs.map .int))
        let m ← levelOf m.pop lvl "ediflevel" "edifLevel"
        match km with
        | [kk, .list kl] =>
          if !isKw kk "keywordmap" then throw (.syntax "expecting keywordMap") else do
          let m ← levelOf (m.push "keywordMap") kl "keywordlevel" "keywordLevel"
          let (st, rest) ← loopC bodyItem { m := m.pop } rest
          endC "edif" rest
          pure { data := st.m.data, libs := st.libs, top := st.top }
        | _ :: .list _ :: _ => throw (.unsupported "comments inside keywordMap")
        | _ => throw (.syntax "keywordMap")
    | _ => throw (.syntax "edif: expecting edifVersion edifLevel keywordMap")

/-- characters → netlist -/
def readEdif (text : List Char) : R CNetlist :=
  match readS (lexE text) with
  | some (e, _) => ofSExp e
  | none => throw (.syntax "unbalanced parentheses / unexpected end of file")

end Spydr.Edif
