/-
  The EDIF writer: what spydrnet/composers/edif/composer.py emits for a netlist that has been
  through `_edifify_netlist` (libraries/cells in the order chosen there, every object carrying its
  EDIF.identifier / EDIF.rename), as an s-expression `toSExp`, and a layout `layoutE` to characters.
  Follows the code AS REPAIRED by docs/fixes/edif_writer_*.diff (array-ness decides `(array …)`,
  an UNDEFINED direction is not written).  No Mathlib.
-/
import Spydr.Edif.ModelRead
namespace Spydr.Edif

def A (s : String) : SExp := .atom s.toList

/-- a quoted string token -/
def qtok (s : Str) : SExp := .atom ('"' :: s ++ ['"'])

def natStr (n : Nat) : Str := Nat.toDigits 10 n

def intStr (i : Int) : Str :=
  match i with
  | .ofNat n => natStr n
  | .negSucc n => '-' :: natStr (n + 1)

abbrev W := Except String

def needIdent (d : Data) (what : String) : W Str :=
  match identOf d with
  | some i => pure i
  | none => throw (what ++ ": no EDIF.identifier")

/-- `obj.get("EDIF.rename", False) is False` negated -/
def renameFlagOf (d : Data) : Bool :=
  match d.get? (S "EDIF.rename") with
  | some (.bool false) => false
  | some _ => true
  | none => false

/-- `_get_name_string_` / `_output_name_of_object_` -/
def nameSExp (d : Data) (what : String) : W SExp := do
  let ident ← needIdent d what
  match d.get? kNAME with
  | none => pure (.atom ident)
  | some (.str n) =>
    if n = ident ∧ renameFlagOf d = false then pure (.atom ident)
    else pure (.list [A "rename", .atom ident, qtok n])
  | some _ => throw (what ++ ": name is not a string")

def dirAtom : Dir → Option SExp
  | .undefined => none
  | .inout => some (A "INOUT")
  | .inp => some (A "INPUT")
  | .out => some (A "OUTPUT")

/-- `_output_port_` (as repaired) -/
def portSExp (p : CPort) : W SExp := do
  let nm ← nameSExp p.data "port"
  let dir := match dirAtom p.dir with
    | some a => [SExp.list [A "direction", a]]
    | none => []
  if p.isArray then
    pure (.list ([A "port", .list [A "array", nm, .atom (natStr p.width)]] ++ dir))
  else
    pure (.list ([A "port", nm] ++ dir))

/-- the typed value of `_output_property_`: str → string, bool → boolean, anything else → integer -/
def valSExp (value : Val) : W SExp :=
  match value with
  | .str s => pure (.list [A "string", qtok s])
  | .bool b => pure (.list [A "boolean", .list [A (if b then "True" else "False")]])
  | .int i => pure (.list [A "integer", .atom (intStr i)])
  | _ => throw "property value type"

/-- `_output_property_` -/
def propSExp (v : Val) : W SExp :=
  match v with
  | .obj kv =>
    match Data.get? kv (S "identifier"), Data.get? kv (S "value") with
    | some (.str ident), some value =>
      let nm : SExp := match Data.get? kv (S "original_identifier") with
        | some (.str o) => .list [A "rename", .atom ident, qtok o]
        | _ => .atom ident
      do let t ← valSExp value; pure (.list [A "property", nm, t])
    | _, _ => throw "property without identifier/value"
  | _ => throw "property is not a dictionary"

def propsOf (d : Data) : W (List SExp) :=
  match d.get? (S "EDIF.properties") with
  | some (.list ps) => ps.mapM propSExp
  | some _ => throw "EDIF.properties is not a list"
  | none => pure []

/-- `_output_instance_` -/
def instSExp (libs : List CLib) (i : CInst) : W SExp := do
  let nm ← nameSExp i.data "instance"
  match i.ref with
  | none => throw "instance without reference"
  | some (li, di) =>
    match libs[li]? with
    | none => throw "instance reference out of range"
    | some l =>
      match l.defs[di]? with
      | none => throw "instance reference out of range"
      | some d => do
        let did ← needIdent d.data "definition"
        let lid ← needIdent l.data "library"
        let props ← propsOf i.data
        pure (.list ([A "instance", nm,
          .list [A "viewref", A "netlist", .list [A "cellref", .atom did, .list [A "libraryref", .atom lid]]]]
          ++ props))

/-- `_output_port_ref_` / `_output_inner_pin_`: one joined pin -/
def pinSExp (libs : List CLib) (d : CDef) (pin : CPin) : W SExp :=
  match pin with
  | .port pi bi =>
    match d.ports[pi]? with
    | none => throw "pin: port out of range"
    | some p => do
      let pid ← needIdent p.data "port"
      if p.isArray then pure (.list [A "portref", .list [A "member", .atom pid, .atom (natStr bi)]])
      else pure (.list [A "portref", .atom pid])
  | .inst ii pi bi =>
    match d.insts[ii]? with
    | none => throw "pin: instance out of range"
    | some inst =>
      match inst.ref with
      | none => throw "pin: instance without reference"
      | some (li, di) =>
        match (libs[li]?).bind (fun l => l.defs[di]?) with
        | none => throw "pin: reference out of range"
        | some rd =>
          match rd.ports[pi]? with
          | none => throw "pin: port out of range"
          | some p => do
            let pid ← needIdent p.data "port"
            let iid ← needIdent inst.data "instance"
            let ref : SExp := if p.isArray then .list [A "member", .atom pid, .atom (natStr bi)] else .atom pid
            pure (.list [A "portref", ref, .list [A "instanceref", .atom iid]])

/-- identifier and original name the writer gives bit `idx` of a cable -/
def bitIdent (ident : Str) (idx : Nat) : Str := ident ++ '_' :: natStr idx ++ ['_']
def bitName (name : Str) (idx : Nat) : Str := name ++ '[' :: natStr idx ++ [']']

/-- one `(net …)`: wire `k` of cable `c` (`single` = scalar one-wire cable, written under its own name) -/
def netSExp (libs : List CLib) (d : CDef) (c : CCable) (ident : Str) (single : Bool) (w : List CPin) (k : Nat) :
    W SExp := do
  let nm ← (if single then nameSExp c.data "cable" else
    let idx := k + c.lower
    let bi := bitIdent ident idx
    let base := match nameOf c.data with
      | some n => n
      | none => bi
    pure (.list [A "rename", .atom bi, qtok (bitName base idx)]) : W SExp)
  let pins ← w.mapM (pinSExp libs d)
  pure (.list [A "net", nm, .list (A "joined" :: pins)])

/-- `_output_cable_`: one `(net …)` per wire -/
def cableSExps (libs : List CLib) (d : CDef) (c : CCable) : W (List SExp) := do
  let ident ← needIdent c.data "cable"
  let single := decide (c.wires.length = 1) && !c.isArray
  (c.wires.zipIdx).mapM fun (w, k) => netSExp libs d c ident single w k

/-- `_output_definition_` -/
def defSExp (libs : List CLib) (d : CDef) : W SExp := do
  let nm ← nameSExp d.data "definition"
  let ports ← d.ports.mapM portSExp
  let insts ← d.insts.mapM (instSExp libs)
  let nets ← d.cables.mapM (cableSExps libs d)
  let contents := if d.insts.length + d.cables.length > 0
    then [SExp.list (A "contents" :: (insts ++ nets.flatten))] else []
  pure (.list [A "Cell", nm, .list [A "celltype", A "GENERIC"],
    .list ([A "view", A "netlist", .list [A "viewtype", A "NETLIST"], .list (A "interface" :: ports)] ++ contents)])

/-- `_output_library_` -/
def libSExp (libs : List CLib) (l : CLib) : W SExp := do
  let nm ← nameSExp l.data "library"
  let cells ← l.defs.mapM (defSExp libs)
  pure (.list ([A "Library", nm, .list [A "edifLevel", A "0"],
    .list [A "technology", .list [A "numberDefinition"]]] ++ cells))

def pad2 (n : Nat) : Str := if n < 10 then '0' :: natStr n else natStr n

/-- `_output_status_` with the six time-stamp numbers given -/
def statusSExp (ts : List Nat) (d : Data) : W SExp := do
  let prog ← (match d.get? (S "EDIF.status.written.program") with
    | some (.str p) =>
      match d.get? (S "EDIF.status.written.program.version") with
      | some (.str v) => pure [SExp.list [A "program", qtok p, .list [A "version", qtok v]]]
      | some _ => throw "program version is not a string"
      | none => pure [SExp.list [A "program", qtok p]]
    | some _ => throw "program is not a string"
    | none => pure [] : W (List SExp))
  let tsa := match ts with
    | y :: rest => SExp.atom (natStr y) :: rest.map (fun n => SExp.atom (pad2 n))
    | [] => []
  pure (.list [A "status", .list ([A "written", .list (A "timeStamp" :: tsa)] ++ prog ++
    [.list [A "comment", qtok "Built by 'BYU spydrnet tool'".toList]])])

/-- `_output_environment_` -/
def toSExp (ts : List Nat) (n : CNetlist) : W SExp := do
  let nm ← nameSExp n.data "netlist"
  let st ← statusSExp ts n.data
  let libs ← n.libs.mapM (libSExp n.libs)
  match n.top with
  | none => throw "netlist.top_instance undefined"
  | some t =>
    let tn ← nameSExp t.data "top instance"
    match t.ref with
    | none => throw "netlist.reference undefined"
    | some (li, di) =>
      match n.libs[li]? with
      | none => throw "top reference out of range"
      | some l =>
        match l.defs[di]? with
        | none => throw "top reference out of range"
        | some d => do
          let did ← needIdent d.data "definition"
          let lid ← needIdent l.data "library"
          pure (.list ([A "edif", nm, .list [A "edifversion", A "2", A "0", A "0"], .list [A "edifLevel", A "0"],
            .list [A "keywordmap", .list [A "keywordlevel", A "0"]], st] ++ libs ++
            [.list [A "design", tn, .list [A "cellref", .atom did, .list [A "libraryref", .atom lid]]]]))

/-! layout: one blank between neighbours, parentheses tight -/
mutual
def layoutS : SExp → List Char
  | .atom s => s
  | .list xs => '(' :: (layoutL xs ++ [')'])
def layoutL : List SExp → List Char
  | [] => []
  | [x] => layoutS x
  | x :: y :: r => layoutS x ++ ' ' :: layoutL (y :: r)
end

def layoutE (e : SExp) : List Char := layoutS e ++ ['\n']

/-! decidable cleanliness of what the writer emits (hypothesis of `lex_layout`; reported by the driver) -/

/-- characters that may occur in an unquoted atom -/
def plainChar (c : Char) : Bool := !(c == '"' || c == '(' || c == ')' || isWs c)

/-- an atom is a non-empty unquoted word, or a quoted string without `"`, `\n`, `\r` inside -/
def cleanAtomB (s : Str) : Bool :=
  (!s.isEmpty && s.all plainChar) ||
  (match s with
   | '"' :: r =>
     (match r.reverse with
      | '"' :: m => m.all (fun c => c != '"' && c != '\n' && c != '\r')
      | _ => false)
   | _ => false)

mutual
def SExp.cleanB : SExp → Bool
  | .atom s => cleanAtomB s
  | .list xs => cleanLB xs
def cleanLB : List SExp → Bool
  | [] => true
  | x :: xs => x.cleanB && cleanLB xs
end


/-- the text the model writes -/
def composeE (ts : List Nat) (n : CNetlist) : W (List Char) := do
  let e ← toSExp ts n
  pure (layoutE e)

end Spydr.Edif
