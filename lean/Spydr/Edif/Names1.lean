/-
  Element dictionaries keep their EDIF identifier and their name: everything the reader stores after the
  name of an element (properties, comments, status blocks, levels, view data) goes under keys other than
  `EDIF.identifier`, `EDIF.original_identifier`, `.NAME`.  On arbitrary input.
-/
import Spydr.Edif.Struct3
namespace Spydr.Edif

def kORIG : Str := S "EDIF.original_identifier"

/-- a metadata prefix whose key is not one of the three name keys -/
def Plain (p : List Str) : Prop := joinDot p ≠ kIDENT ∧ joinDot p ≠ kORIG ∧ joinDot p ≠ kNAME

/-- … and stays so whatever is pushed on it -/
def NoSpecial (p : List Str) : Prop := ∀ ext, Plain (p ++ ext)

theorem NoSpecial.plain {p : List Str} (h : NoSpecial p) : Plain p := by simpa using h []

theorem NoSpecial.push {p : List Str} (h : NoSpecial p) (s : Str) : NoSpecial (p ++ [s]) := by
  intro ext; rw [List.append_assoc]; exact h _

/-- a literal that is pushed on an element-level prefix: non-empty, not starting with `i` or `o` -/
def GoodLit (x : Str) : Prop := ∃ c xs, x = c :: xs ∧ c ≠ 'i' ∧ c ≠ 'o'

theorem joinDot_cons_cons (a b : Str) (r : List Str) : joinDot (a :: b :: r) = a ++ '.' :: joinDot (b :: r) := rfl

theorem joinDot_head (c : Char) (xs : Str) (ext : List Str) : ∃ t, joinDot ((c :: xs) :: ext) = c :: t := by
  cases ext with
  | nil => exact ⟨xs, rfl⟩
  | cons b r => exact ⟨_, by rw [joinDot_cons_cons]; rfl⟩

theorem noSpecial_lit (x : Str) (hx : GoodLit x) : NoSpecial [S "EDIF", x] := by
  obtain ⟨c, xs, rfl, hi, ho⟩ := hx
  intro ext
  obtain ⟨t, ht⟩ := joinDot_head c xs ext
  have e : joinDot ([S "EDIF", c :: xs] ++ ext) = 'E' :: 'D' :: 'I' :: 'F' :: '.' :: c :: t := by
    show joinDot (S "EDIF" :: (c :: xs) :: ext) = _
    rw [joinDot_cons_cons, ht]; rfl
  have k1 : kIDENT = 'E' :: 'D' :: 'I' :: 'F' :: '.' :: 'i' :: "dentifier".toList := by decide
  have k2 : kORIG = 'E' :: 'D' :: 'I' :: 'F' :: '.' :: 'o' :: "riginal_identifier".toList := by decide
  have k3 : kNAME = '.' :: "NAME".toList := by decide
  refine ⟨?_, ?_, ?_⟩ <;> rw [e]
  · rw [k1]; intro h; simp only [List.cons.injEq] at h; exact hi h.2.2.2.2.2.1
  · rw [k2]; intro h; simp only [List.cons.injEq] at h; exact ho h.2.2.2.2.2.1
  · rw [k3]; intro h; simp only [List.cons.injEq] at h; exact absurd h.1 (by decide)

/-- an element-level prefix: pushing a good literal gives a prefix that never reaches a name key -/
def Elem (p : List Str) : Prop := ∀ x : Str, GoodLit x → NoSpecial (p ++ [x])

theorem elem_edif : Elem [S "EDIF"] := fun x hx => noSpecial_lit x hx

theorem goodLit (s : String) (h : (match s.toList with | c :: _ => c != 'i' && c != 'o' | [] => false) = true) :
    GoodLit (S s) := by
  unfold S
  cases hs : s.toList with
  | nil => rw [hs] at h; cases h
  | cons c xs =>
    rw [hs] at h
    simp only [Bool.and_eq_true, bne_iff_ne, ne_eq] at h
    exact ⟨c, xs, rfl, h.1, h.2⟩

theorem elem_view : Elem [S "EDIF", S "view"] := by
  intro x _
  have := noSpecial_lit (S "view") (goodLit "view" (by decide))
  intro ext
  have := this ([x] ++ ext)
  simpa using this

/-! ### the dictionary keeps its names -/

def SameNames (d d' : Data) : Prop := d'.get? kIDENT = d.get? kIDENT ∧ d'.get? kNAME = d.get? kNAME

theorem SameNames.refl (d : Data) : SameNames d d := ⟨rfl, rfl⟩
theorem SameNames.trans {a b c : Data} (h1 : SameNames a b) (h2 : SameNames b c) : SameNames a c :=
  ⟨h2.1.trans h1.1, h2.2.trans h1.2⟩

theorem sameNames_set (d : Data) (k : Str) (v : Val) (h1 : k ≠ kIDENT) (h2 : k ≠ kNAME) : SameNames d (d.set k v) :=
  ⟨Data.get?_set_other _ _ _ _ (Ne.symm h1), Data.get?_set_other _ _ _ _ (Ne.symm h2)⟩

theorem Data.get?_erase_other (d : Data) (k k2 : Str) (h : k2 ≠ k) : (d.erase k).get? k2 = d.get? k2 := by
  induction d with
  | nil => rfl
  | cons a r ih =>
    obtain ⟨k', v'⟩ := a
    by_cases h1 : k' = k
    · subst h1
      have : Data.erase ((k', v') :: r) k' = Data.erase r k' := by simp [Data.erase]
      rw [this, ih]
      simp [Data.get?, Ne.symm h]
    · have : Data.erase ((k', v') :: r) k = (k', v') :: Data.erase r k := by simp [Data.erase, h1]
      rw [this]
      by_cases h2 : k' = k2
      · simp [Data.get?, h2]
      · simp only [Data.get?, h2, if_false]; exact ih

theorem sameNames_erase (d : Data) (k : Str) (h1 : k ≠ kIDENT) (h2 : k ≠ kNAME) : SameNames d (d.erase k) :=
  ⟨Data.get?_erase_other _ _ _ (Ne.symm h1), Data.get?_erase_other _ _ _ (Ne.symm h2)⟩

theorem setAttr_same (m m' : Meta) (v : Val) (hp : Plain m.pfx) (h : setAttr m v = .ok m') :
    m'.pfx = m.pfx ∧ SameNames m.data m'.data := by
  obtain ⟨p1, p2, p3⟩ := hp
  unfold setAttr at h
  simp only [Meta.key] at h
  rw [if_neg (by exact p2), if_neg p1] at h
  simp only [pure, Except.pure, Except.ok.injEq] at h
  subst h
  exact ⟨rfl, sameNames_set _ _ _ p1 p3⟩

theorem appendAttr_same (m : Meta) (v : Val) (hp : Plain m.pfx) :
    (appendAttr m v).pfx = m.pfx ∧ SameNames m.data (appendAttr m v).data := by
  obtain ⟨p1, _, p3⟩ := hp
  unfold appendAttr
  simp only [Meta.key]
  split <;> exact ⟨rfl, sameNames_set _ _ _ p1 p3⟩

theorem push_pop (m : Meta) (s : String) : (m.push s).pop = m := by
  cases m; simp [Meta.push, Meta.pop]

theorem pop_pfx (m m' : Meta) (s : String) (h : m'.pfx = (m.push s).pfx) : m'.pop.pfx = m.pfx := by
  simp [Meta.pop, h, Meta.push]

theorem parseRename_same (m m' : Meta) (ys : List SExp) (hp : NoSpecial m.pfx) (h : parseRename m ys = .ok m') :
    m'.pfx = m.pfx ∧ SameNames m.data m'.data := by
  unfold parseRename at h
  split at h
  · split at h
    · simp only [bind, Except.bind] at h
      split at h
      · cases h
      · split at h
        · cases h
        · rename_i m1 hm1
          split at h
          · cases h
          · split at h
            · cases h
            · rename_i m2 hm2
              simp only [pure, Except.pure, Except.ok.injEq] at h
              subst h
              obtain ⟨e1, s1⟩ := setAttr_same _ _ _ (by simpa [Meta.push] using hp [S "identifier"]) hm1
              have e1' : m1.pop.pfx = m.pfx := pop_pfx m m1 "identifier" e1
              obtain ⟨e2, s2⟩ := setAttr_same _ _ _
                (by simpa [Meta.push, e1'] using hp [S "original_identifier"]) hm2
              refine ⟨?_, ?_⟩
              · exact (pop_pfx m1.pop m2 "original_identifier" e2).trans e1'
              · exact (show SameNames m.data m1.data from s1).trans s2
    · cases h
  · cases h

theorem nameDef_same (m m' : Meta) (xs rest : List SExp) (hp : NoSpecial m.pfx) (h : nameDef m xs = .ok (m', rest)) :
    m'.pfx = m.pfx ∧ SameNames m.data m'.data := by
  unfold nameDef at h
  split at h
  · simp only [bind, Except.bind] at h
    split at h
    · cases h
    · rename_i m1 hm1
      simp only [pure, Except.pure, Except.ok.injEq, Prod.mk.injEq] at h
      rw [← h.1]
      exact parseRename_same m m1 _ hp hm1
  · simp only [bind, Except.bind] at h
    split at h
    · cases h
    · split at h
      · cases h
      · rename_i m1 hm1
        simp only [pure, Except.pure, Except.ok.injEq, Prod.mk.injEq] at h
        rw [← h.1]
        obtain ⟨e1, s1⟩ := setAttr_same _ _ _ (by simpa [Meta.push] using hp [S "identifier"]) hm1
        exact ⟨pop_pfx m m1 "identifier" e1, s1⟩
  · cases h

theorem parseComment_same (m m' : Meta) (ys : List SExp) (hp : Plain (m.pfx ++ [S "comments"]))
    (h : parseComment m ys = .ok m') : m'.pfx = m.pfx ∧ SameNames m.data m'.data := by
  unfold parseComment at h
  simp only [bind, Except.bind] at h
  split at h
  · cases h
  · simp only [pure, Except.pure, Except.ok.injEq] at h
    subst h
    obtain ⟨e1, s1⟩ := appendAttr_same (m.push "comments") (.list (List.map Val.str _)) (by simpa [Meta.push] using hp)
    exact ⟨pop_pfx m _ "comments" e1, s1⟩

theorem dropLast_push (m : Meta) (s : String) : (m.push s).pfx.dropLast = m.pfx := by
  simp [Meta.push]

/-- unwind a `do` block in a hypothesis `h : … = .ok _` : split every match, close the error branches -/
macro "peel " h:ident : tactic =>
  `(tactic| repeat' (first
      | (cases $h:ident; done)
      | split at $h:ident
      | (simp only [pure, Except.pure, throw, throwThe, MonadExceptOf.throw, bind, Except.bind] at $h:ident)))

theorem propLike_same (m m' : Meta) (rest : List SExp) (hp : NoSpecial m.pfx) (h : propLike m rest = .ok m') :
    m'.pfx = m.pfx.dropLast ∧ SameNames m.data m'.data := by
  unfold propLike at h
  simp only [bind, Except.bind] at h
  split at h
  · cases h
  · rename_i v hv
    obtain ⟨m1, rest1⟩ := v
    obtain ⟨e1, s1⟩ := nameDef_same m m1 _ _ hp hv
    have hid : Plain (m1.pfx ++ [S "identifier"]) := by rw [e1]; exact hp _
    have hor : Plain (m1.pfx ++ [S "original_identifier"]) := by rw [e1]; exact hp _
    have hpl : Plain m1.pfx := by rw [e1]; exact hp.plain
    simp only at h
    peel h
    all_goals
      simp only [Except.ok.injEq] at h
      subst h
      first
      | exact ⟨by simp only [Meta.pop, e1]; exact congrArg List.dropLast (appendAttr_same _ _ (by simpa using hp.plain)).1,
          s1.trans (SameNames.trans ((sameNames_erase _ _ hid.1 hid.2.2).trans (sameNames_erase _ _ hor.1 hor.2.2))
            (appendAttr_same { m1 with data := _ } _ (by simpa using hpl)).2)⟩
      | exact ⟨by simp only [Meta.pop, e1]; exact congrArg List.dropLast (appendAttr_same _ _ (by simpa using hp.plain)).1,
          s1.trans (SameNames.trans (sameNames_erase _ _ hid.1 hid.2.2)
            (appendAttr_same { m1 with data := _ } _ (by simpa using hpl)).2)⟩

theorem parseProperty_same (m m' : Meta) (ys : List SExp) (hp : NoSpecial (m.pfx ++ [S "properties"]))
    (h : parseProperty m ys = .ok m') : m'.pfx = m.pfx ∧ SameNames m.data m'.data := by
  have := propLike_same (m.push "properties") m' ys.tail (by simpa [Meta.push] using hp) h
  exact ⟨by rw [this.1, dropLast_push], this.2⟩

theorem parseMetax_same (m m' : Meta) (ys : List SExp) (hp : NoSpecial (m.pfx ++ [S "metaxes"]))
    (h : parseMetax m ys = .ok m') : m'.pfx = m.pfx ∧ SameNames m.data m'.data := by
  have := propLike_same (m.push "metaxes") m' ys.tail (by simpa [Meta.push] using hp) h
  exact ⟨by rw [this.1, dropLast_push], this.2⟩

theorem levelOf_same (m m' : Meta) (ys : List SExp) (kw pfx : String) (hp : Plain (m.pfx ++ [S pfx]))
    (h : levelOf m ys kw pfx = .ok m') : m'.pfx = m.pfx ∧ SameNames m.data m'.data := by
  unfold levelOf at h
  peel h
  · rename_i m1 hm1
    simp only [Except.ok.injEq] at h
    subst h
    obtain ⟨e1, s1⟩ := setAttr_same _ _ _ (by simpa [Meta.push] using hp) hm1
    exact ⟨pop_pfx m m1 pfx e1, s1⟩
  · simp only [Except.ok.injEq] at h
    subst h
    exact ⟨rfl, SameNames.refl _⟩

/-- the state of a loop over a dictionary: prefix unchanged, names unchanged -/
def Kept (p : List Str) (d0 : Data) (m : Meta) : Prop := m.pfx = p ∧ SameNames d0 m.data

theorem Kept.step {p : List Str} {d0 : Data} {m m' : Meta} (h : Kept p d0 m)
    (h' : m'.pfx = m.pfx ∧ SameNames m.data m'.data) : Kept p d0 m' :=
  ⟨h'.1.trans h.1, h.2.trans h'.2⟩

theorem writtenItem_same (p : List Str) (d0 : Data) (s s' : WrittenSt) (ys : List SExp) (hp : NoSpecial p)
    (hk : Kept p d0 s.m) (h : writtenItem s ys = .ok s') : Kept p d0 s'.m := by
  have hpp : ∀ ext, Plain (s.m.pfx ++ ext) := by rw [hk.1]; exact hp
  have hns : ∀ x : Str, NoSpecial (s.m.pfx ++ [x]) := by rw [hk.1]; exact fun x => hp.push x
  unfold writtenItem at h
  peel h
  all_goals (simp only [Except.ok.injEq] at h; subst h)
  · rename_i m1 hm1
    obtain ⟨e1, s1⟩ := setAttr_same _ _ _ (by simpa [Meta.push] using hpp [S "author"]) hm1
    exact hk.step ⟨pop_pfx s.m m1 "author" e1, s1⟩
  · rename_i m1 hm1
    obtain ⟨e1, s1⟩ := setAttr_same _ _ _ (by simpa [Meta.push] using hpp [S "program"]) hm1
    exact hk.step ⟨pop_pfx s.m m1 "program" e1, s1⟩
  · rename_i _ _ _ _ m1 hm1 _ _ _ _ m2 hm2
    obtain ⟨e1, s1⟩ := setAttr_same _ _ _ (by simpa [Meta.push] using hpp [S "program"]) hm1
    obtain ⟨e2, s2⟩ := setAttr_same _ _ _ (by simpa [Meta.push, e1] using hpp [S "program", S "version"]) hm2
    refine hk.step ⟨?_, (show SameNames s.m.data m1.data from s1).trans s2⟩
    simp [Meta.pop, e2, Meta.push, e1]
  · exact hk.step (parseProperty_same _ _ _ (hns _) (by assumption))
  · exact hk.step (parseMetax_same _ _ _ (hns _) (by assumption))
  · exact hk.step (parseComment_same _ _ _ (hpp _) (by assumption))

theorem parseWritten_same (m m' : Meta) (ys : List SExp) (hp : NoSpecial (m.pfx ++ [S "written"]))
    (h : parseWritten m ys = .ok m') : m'.pfx = m.pfx ∧ SameNames m.data m'.data := by
  unfold parseWritten at h
  simp only at h
  peel h
  rename_i m1 hm1 _ v hv _ _ _
  simp only [Except.ok.injEq] at h
  subst h
  obtain ⟨e1, s1⟩ := setAttr_same _ _ _ (by simpa [Meta.push] using hp [S "timeStamp"]) hm1
  have hk0 : Kept (m.pfx ++ [S "written"]) m.data m1.pop := by
    refine ⟨?_, s1⟩
    simp [Meta.pop, e1, Meta.push]
  have := loopC_inv writtenItem (fun s => Kept (m.pfx ++ [S "written"]) m.data s.m)
    (fun a ys b ha hb => writtenItem_same _ _ a b ys hp ha hb) _ { m := m1.pop } v.1 v.2 hk0 hv
  exact ⟨by simp [Meta.pop, this.1], this.2⟩

theorem statusItem_same (m m' : Meta) (ys : List SExp) (hp : NoSpecial m.pfx)
    (h : statusItem m ys = .ok m') : m'.pfx = m.pfx ∧ SameNames m.data m'.data := by
  unfold statusItem at h
  peel h
  · exact parseWritten_same m m' ys (hp.push _) h
  · exact parseComment_same m m' ys (hp _) h

theorem parseStatus_same (m m' : Meta) (ys : List SExp) (hp : NoSpecial (m.pfx ++ [S "status"]))
    (h : parseStatus m ys = .ok m') : m'.pfx = m.pfx ∧ SameNames m.data m'.data := by
  unfold parseStatus at h
  peel h
  rename_i v hv _ _ _
  simp only [Except.ok.injEq] at h
  subst h
  have hk0 : Kept (m.pfx ++ [S "status"]) m.data (m.push "status") := ⟨by simp [Meta.push], SameNames.refl _⟩
  have := loopC_inv statusItem (fun s => Kept (m.pfx ++ [S "status"]) m.data s)
    (fun a ys b ha hb => ha.step (statusItem_same a b ys (by rw [ha.1]; exact hp) hb)) _ _ v.1 v.2 hk0 hv
  exact ⟨by simp [Meta.pop, this.1], this.2⟩

end Spydr.Edif
