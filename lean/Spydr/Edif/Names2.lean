/-
  Every element the reader builds carries an EDIF identifier and a name — on arbitrary input.
-/
import Spydr.Edif.Names1
namespace Spydr.Edif

/-- an element dictionary with an identifier and a name (both strings) -/
def Named (d : Data) : Prop := (identOf d).isSome = true ∧ (nameOf d).isSome = true

instance (d : Data) : Decidable (Named d) := by unfold Named; infer_instance

theorem named_of_same (d d' : Data) (h : SameNames d d') (hn : Named d) : Named d' := by
  unfold Named identOf nameOf Data.getStr? at *
  rw [h.1, h.2]; exact hn

theorem named_set (d : Data) (k : Str) (v : Val) (h1 : k ≠ kIDENT) (h2 : k ≠ kNAME) (hn : Named d) : Named (d.set k v) :=
  named_of_same d _ (sameNames_set d k v h1 h2) hn

theorem get?_str_of_getStr? (d : Data) (k s : Str) (h : d.getStr? k = some s) : d.get? k = some (.str s) := by
  unfold Data.getStr? at h
  split at h
  · rename_i s' hs
    cases h
    exact hs
  · cases h

theorem named_of_get (d : Data) (i n : Str) (hi : d.get? kIDENT = some (.str i)) (hn : d.get? kNAME = some (.str n)) :
    Named d := by
  simp [Named, identOf, nameOf, Data.getStr?, hi, hn]

/-- setting the identifier of an element with the element-level prefix -/
theorem setAttr_ident_inv (m m1 : Meta) (v : Val) (hp : m.pfx = [S "EDIF"])
    (h : setAttr (m.push "identifier") v = .ok m1) :
    m1.pfx = [S "EDIF", S "identifier"] ∧ ∃ s, m1.data.get? kIDENT = some (.str s) ∧
      (m.data.has kNAME = false → m1.data.get? kNAME = some (.str s)) := by
  unfold setAttr at h
  have hk : (m.push "identifier").key = kIDENT := by simp [Meta.key, Meta.push, hp]; decide
  simp only [hk] at h
  peel h
  · rename_i hf
    exact absurd hf (by decide)
  · rename_i hn
    simp only [Except.ok.injEq] at h
    subst h
    refine ⟨by simp [Meta.push, hp], _, Data.get?_set_self _ _ _, ?_⟩
    intro hn'
    simp [Meta.push, hn'] at hn
  · simp only [Except.ok.injEq] at h
    subst h
    refine ⟨by simp [Meta.push, hp], _, Data.get?_set_self _ _ _, ?_⟩
    intro _
    simp only [Meta.push]
    rw [Data.get?_set_other _ _ _ _ kNAME_ne_kIDENT, Data.get?_set_self]
  · rename_i hf
    exact absurd trivial hf

theorem setAttr_orig_inv (m m1 : Meta) (v : Str) (hp : m.pfx = [S "EDIF"])
    (h : setAttr (m.push "original_identifier") (.str v) = .ok m1) :
    m1.pfx = [S "EDIF", S "original_identifier"] ∧ m1.data.get? kNAME = some (.str v) ∧
      m1.data.get? kIDENT = m.data.get? kIDENT := by
  unfold setAttr at h
  have hk : (m.push "original_identifier").key = S "EDIF.original_identifier" := by
    simp [Meta.key, Meta.push, hp]; decide
  simp only [hk, if_true, pure, Except.pure, Except.ok.injEq] at h
  subst h
  exact ⟨by simp [Meta.push, hp], Data.get?_set_self _ _ _, Data.get?_set_other _ _ _ _ kNAME_ne_kIDENT.symm⟩

theorem parseRename_named (m m' : Meta) (ys : List SExp) (hp : m.pfx = [S "EDIF"])
    (h : parseRename m ys = .ok m') : m'.pfx = [S "EDIF"] ∧ Named m'.data := by
  unfold parseRename at h
  peel h
  rename_i _ _ _ m1 hm1 _ _ _ _ m2 hm2
  simp only [Except.ok.injEq] at h
  subst h
  obtain ⟨e1, s, hs, _⟩ := setAttr_ident_inv m m1 _ hp hm1
  have e1' : m1.pop.pfx = [S "EDIF"] := by simp [Meta.pop, e1]
  obtain ⟨e2, hn, hi⟩ := setAttr_orig_inv m1.pop m2 _ e1' hm2
  exact ⟨by simp [Meta.pop, e2], named_of_get _ s _ (by simpa [Meta.pop] using hi.trans hs) (by simpa [Meta.pop] using hn)⟩

theorem nameDef_named (m m' : Meta) (xs rest : List SExp) (hp : m.pfx = [S "EDIF"]) (hn : m.data.has kNAME = false)
    (h : nameDef m xs = .ok (m', rest)) : m'.pfx = [S "EDIF"] ∧ Named m'.data := by
  unfold nameDef at h
  peel h
  · rename_i m1 hm1
    simp only [Except.ok.injEq, Prod.mk.injEq] at h
    rw [← h.1]
    exact parseRename_named m m1 _ hp hm1
  · rename_i _ _ _ m1 hm1
    simp only [Except.ok.injEq, Prod.mk.injEq] at h
    rw [← h.1]
    obtain ⟨e1, s, hs, hnm⟩ := setAttr_ident_inv m m1 _ hp hm1
    exact ⟨by simp [Meta.pop, e1], named_of_get _ s s (by simpa [Meta.pop] using hs) (by simpa [Meta.pop] using hnm hn)⟩

/-- the state of an element-level loop: the element-level prefix and a named dictionary -/
def MetaOK (p : List Str) (m : Meta) : Prop := m.pfx = p ∧ Named m.data

theorem MetaOK.step {p : List Str} {m m' : Meta} (h : MetaOK p m) (h' : m'.pfx = m.pfx ∧ SameNames m.data m'.data) :
    MetaOK p m' := ⟨h'.1.trans h.1, named_of_same _ _ h'.2 h.2⟩

theorem lit_comments : GoodLit (S "comments") := goodLit "comments" (by decide)
theorem lit_properties : GoodLit (S "properties") := goodLit "properties" (by decide)
theorem lit_status : GoodLit (S "status") := goodLit "status" (by decide)

theorem comment_ok (p : List Str) (he : Elem p) (m m' : Meta) (ys : List SExp) (hm : MetaOK p m)
    (h : parseComment m ys = .ok m') : MetaOK p m' :=
  hm.step (parseComment_same m m' ys (by rw [hm.1]; exact (he _ lit_comments).plain) h)

theorem property_ok (p : List Str) (he : Elem p) (m m' : Meta) (ys : List SExp) (hm : MetaOK p m)
    (h : parseProperty m ys = .ok m') : MetaOK p m' :=
  hm.step (parseProperty_same m m' ys (by rw [hm.1]; exact he _ lit_properties) h)

theorem status_ok (p : List Str) (he : Elem p) (m m' : Meta) (ys : List SExp) (hm : MetaOK p m)
    (h : parseStatus m ys = .ok m') : MetaOK p m' :=
  hm.step (parseStatus_same m m' ys (by rw [hm.1]; exact he _ lit_status) h)

/-! ### ports, instances, the top instance -/

theorem metaNew_ok : Meta.new.pfx = [S "EDIF"] ∧ Meta.new.data.has kNAME = false := ⟨rfl, rfl⟩

theorem portItem_ok (s s' : PortSt) (ys : List SExp) (hm : MetaOK [S "EDIF"] s.m) (h : portItem s ys = .ok s') :
    MetaOK [S "EDIF"] s'.m := by
  unfold portItem at h
  peel h
  all_goals (simp only [Except.ok.injEq] at h; subst h)
  · exact hm
  · exact property_ok _ elem_edif _ _ _ hm (by assumption)
  · exact comment_ok _ elem_edif _ _ _ hm (by assumption)

theorem parsePort_named (ys : List SExp) (p : CPort) (h : parsePort ys = .ok p) : Named p.data := by
  unfold parsePort at h
  simp only [bind, Except.bind] at h
  split at h
  · cases h
  · rename_i v hv
    obtain ⟨m, width, isArr, rest⟩ := v
    have hm : MetaOK [S "EDIF"] m := by
      peel hv
      all_goals (simp only [Except.ok.injEq, Prod.mk.injEq] at hv)
      all_goals first
        | (rw [← hv.1]; exact parseRename_named _ _ _ rfl (by assumption))
        | (rw [← hv.1]; exact nameDef_named _ _ _ _ rfl rfl (by assumption))
    peel h
    rename_i v2 hv2 _ _ _
    simp only [Except.ok.injEq] at h
    subst h
    have := loopC_inv portItem (fun s => MetaOK [S "EDIF"] s.m) (fun a ys b ha hb => portItem_ok a b ys ha hb)
      _ { m := m } v2.1 v2.2 hm hv2
    exact named_set _ _ _ (by decide) (by decide) this.2

theorem instItem_ok (m m' : Meta) (ys : List SExp) (hm : MetaOK [S "EDIF"] m) (h : instItem m ys = .ok m') :
    MetaOK [S "EDIF"] m' := by
  unfold instItem at h
  peel h
  · exact property_ok _ elem_edif _ _ _ hm h
  · exact comment_ok _ elem_edif _ _ _ hm h

theorem parseInstance_named (sc : Scope) (ys : List SExp) (i : CInst) (h : parseInstance sc ys = .ok i) : Named i.data := by
  unfold parseInstance at h
  simp only [bind, Except.bind] at h
  split at h
  · cases h
  · rename_i v hv
    obtain ⟨m, rest⟩ := v
    have hm : MetaOK [S "EDIF"] m := nameDef_named _ _ _ _ rfl rfl hv
    split at h
    · cases h
    · rename_i v2 hv2
      split at h
      · cases h
      · rename_i v3 hv3
        split at h
        · cases h
        · simp only [pure, Except.pure, Except.ok.injEq] at h
          subst h
          exact (loopC_inv instItem (MetaOK [S "EDIF"]) (fun a ys b ha hb => instItem_ok a b ys ha hb) _ m v3.1 v3.2 hm hv3).2

theorem addRetry_named (sibs : List Data) (d d' : Data) (hn : Named d) (h : addRetry sibs d = .ok d') : Named d' := by
  unfold addRetry at h
  peel h
  · simp only [Except.ok.injEq] at h; subst h; exact hn
  · simp only [Except.ok.injEq] at h
    subst h
    rename_i a b ha hb _ _
    refine named_of_get _ b b ?_ (Data.get?_set_self _ _ _)
    rw [Data.get?_set_other _ _ _ _ kNAME_ne_kIDENT.symm]
    exact get?_str_of_getStr? _ _ _ hb

theorem parseDesign_named (libs : List CLib) (ys : List SExp) (t : CInst) (h : parseDesign libs ys = .ok t) : Named t.data := by
  unfold parseDesign at h
  split at h
  · simp only [bind, Except.bind] at h
    split at h
    · cases h
    · rename_i m hm
      have hmo : MetaOK [S "EDIF"] m := by
        peel hm
        · exact parseRename_named _ _ _ rfl hm
        · rename_i _ _ _ m1 hm1
          simp only [Except.ok.injEq] at hm
          subst hm
          obtain ⟨e1, s, hs, hnm⟩ := setAttr_ident_inv Meta.new m1 _ rfl hm1
          exact ⟨by simp [Meta.pop, e1], named_of_get _ s s (by simpa [Meta.pop] using hs) (by simpa [Meta.pop] using hnm rfl)⟩
      peel h
      simp only [Except.ok.injEq] at h
      subst h
      exact named_set _ _ _ (by decide) (by decide) hmo.2
  · cases h

/-! ### cables -/

theorem multibitAdd_named (cs cs' : List CCable) (d : Data) (ps : List CPin) (hc : ∀ c ∈ cs, Named c.data)
    (h : multibitAdd cs d ps = .ok cs') : ∀ c ∈ cs', Named c.data := by
  unfold multibitAdd at h
  split at h
  · rename_i ident name hi hn
    have hd : Named d := by simp [Named, hi, hn]
    have hsnoc : ∀ (c : CCable), Named c.data → ∀ x ∈ cs ++ [c], Named x.data := by
      intro c hcn x hx
      rcases List.mem_append.mp hx with h1 | h1
      · exact hc x h1
      · simp only [List.mem_singleton] at h1; subst h1; exact hcn
    peel h
    all_goals (simp only [Except.ok.injEq] at h; subst h)
    all_goals first
      | exact hsnoc _ hd
      | exact hsnoc _ (named_of_get _ _ _ (by rw [Data.get?_set_other _ _ _ _ kNAME_ne_kIDENT.symm]; exact Data.get?_set_self _ _ _)
          (Data.get?_set_self _ _ _))
      | (intro c hcm
         rcases List.mem_or_eq_of_mem_set hcm with h1 | h1
         · exact hc c h1
         · subst h1
           rw [(mergeInto_eq _ _ _).2.2.1]
           exact hc _ (List.mem_of_getElem? (by assumption)))
  · cases h

end Spydr.Edif
