/-
  Every element of a netlist the reader returns — the netlist, the top instance, libraries, definitions,
  ports, instances, cables — carries an EDIF identifier and a name.  Folds on arbitrary input.
-/
import Spydr.Edif.Names2
namespace Spydr.Edif

theorem lit_view : GoodLit (S "view") := goodLit "view" (by decide)

/-- the element lists of a cell under construction are named -/
structure ElemsNamed (ports : List CPort) (insts : List CInst) (cables : List CCable) : Prop where
  hp : ∀ p ∈ ports, Named p.data
  hi : ∀ i ∈ insts, Named i.data
  hc : ∀ c ∈ cables, Named c.data

def CellNames (p : List Str) (st : CellSt) : Prop := MetaOK p st.m ∧ ElemsNamed st.ports st.insts st.cables

theorem mem_snoc_all {α : Type} (P : α → Prop) (xs : List α) (x : α) (h : ∀ a ∈ xs, P a) (hx : P x) :
    ∀ a ∈ xs ++ [x], P a := by
  intro a ha
  rcases List.mem_append.mp ha with h1 | h1
  · exact h a h1
  · simp only [List.mem_singleton] at h1; subst h1; exact hx

theorem contentsItem_names (p : List Str) (he : Elem p) (sc : Scope) (st st' : CellSt) (ys : List SExp)
    (h : CellNames p st) (hs : contentsItem sc st ys = .ok st') : CellNames p st' := by
  unfold contentsItem at hs
  peel hs
  all_goals (simp only [Except.ok.injEq] at hs; subst hs)
  · rename_i i hi _ d hd
    exact ⟨h.1, h.2.hp, mem_snoc_all _ _ _ h.2.hi (addRetry_named _ _ _ (parseInstance_named sc ys i hi) hd), h.2.hc⟩
  · rename_i v hv _ cs hcs
    exact ⟨h.1, h.2.hp, h.2.hi, multibitAdd_named _ _ _ _ h.2.hc hcs⟩
  · exact ⟨comment_ok p he _ _ _ h.1 (by assumption), h.2⟩

theorem ifaceItem_names (p : List Str) (he : Elem p) (s s' : CellSt × Bool) (ys : List SExp) (h : CellNames p s.1)
    (hs : ifaceItem s ys = .ok s') : CellNames p s'.1 := by
  obtain ⟨st, hd⟩ := s
  unfold ifaceItem at hs
  simp only at hs
  peel hs
  all_goals (simp only [Except.ok.injEq] at hs; subst hs)
  · rename_i q hq _
    exact ⟨h.1, mem_snoc_all _ _ _ h.2.hp (parsePort_named ys q hq), h.2.hi, h.2.hc⟩
  · exact h
  · exact ⟨property_ok p he _ _ _ h.1 (by assumption), h.2⟩
  · exact ⟨comment_ok p he _ _ _ h.1 (by assumption), h.2⟩

theorem viewItem_names (p : List Str) (he : Elem p) (sc : Scope) (s s' : CellSt × Bool × Bool) (ys : List SExp)
    (h : CellNames p s.1) (hs : viewItem sc s ys = .ok s') : CellNames p s'.1 := by
  obtain ⟨st, b1, b2⟩ := s
  unfold viewItem at hs
  simp only at hs
  peel hs
  all_goals (simp only [Except.ok.injEq] at hs; subst hs)
  · exact ⟨status_ok p he _ _ _ h.1 (by assumption), h.2⟩
  · rename_i v hv _ _ _ _
    exact loopC_inv (contentsItem sc) (CellNames p) (fun a ys b ha hb => contentsItem_names p he sc a b ys ha hb)
      _ st v.1 v.2 h hv
  · exact ⟨comment_ok p he _ _ _ h.1 (by assumption), h.2⟩
  · exact ⟨property_ok p he _ _ _ h.1 (by assumption), h.2⟩

theorem parseView_names (sc : Scope) (st st' : CellSt) (ys : List SExp) (h : CellNames [S "EDIF"] st)
    (hs : parseView sc st ys = .ok st') : CellNames [S "EDIF"] st' := by
  unfold parseView at hs
  simp only [bind, Except.bind] at hs
  split at hs
  · cases hs
  · rename_i v hv
    obtain ⟨m, rest⟩ := v
    have hnsv : NoSpecial [S "EDIF", S "view"] := noSpecial_lit _ lit_view
    obtain ⟨e1, s1⟩ := nameDef_same (st.m.push "view") m _ _ (by simpa [Meta.push, h.1.1] using hnsv) hv
    have hm : MetaOK [S "EDIF", S "view"] m := ⟨by simp [e1, Meta.push, h.1.1], named_of_same _ _ s1 h.1.2⟩
    peel hs
    rename_i m2 hm2 _ _ v1 hv1 _ _ _ _ v2 hv2 _ _ _
    simp only [Except.ok.injEq] at hs
    subst hs
    obtain ⟨e2, s2⟩ := setAttr_same _ _ _ (by simpa [Meta.push, hm.1] using hnsv [S "viewType"]) hm2
    have hm2' : MetaOK [S "EDIF", S "view"] m2.pop :=
      ⟨by simp [Meta.pop, e2, Meta.push, hm.1], named_of_same _ _ s2 hm.2⟩
    have h1 := loopC_inv ifaceItem (fun s => CellNames [S "EDIF", S "view"] s.1)
      (fun a ys b ha hb => ifaceItem_names _ elem_view a b ys ha hb) _ ({ st with m := m2.pop }, false) v1.1 v1.2
      ⟨hm2', h.2⟩ hv1
    have h2 := loopC_inv (viewItem sc) (fun s => CellNames [S "EDIF", S "view"] s.1)
      (fun a ys b ha hb => viewItem_names _ elem_view sc a b ys ha hb) _ (v1.1.1, false, false) v2.1 v2.2 h1 hv2
    exact ⟨⟨by simp [Meta.pop, h2.1.1], h2.1.2⟩, h2.2⟩

theorem cellItem_names (sc : Scope) (st st' : CellSt) (ys : List SExp) (h : CellNames [S "EDIF"] st)
    (hs : cellItem sc st ys = .ok st') : CellNames [S "EDIF"] st' := by
  unfold cellItem at hs
  peel hs
  · simp only [Except.ok.injEq] at hs; subst hs
    exact ⟨status_ok _ elem_edif _ _ _ h.1 (by assumption), h.2⟩
  · exact parseView_names sc st st' ys h hs
  · simp only [Except.ok.injEq] at hs; subst hs
    exact ⟨property_ok _ elem_edif _ _ _ h.1 (by assumption), h.2⟩
  · simp only [Except.ok.injEq] at hs; subst hs
    exact ⟨comment_ok _ elem_edif _ _ _ h.1 (by assumption), h.2⟩

/-- a definition whose own dictionary and whose ports, instances and cables are named -/
def DefNames (d : CDef) : Prop := Named d.data ∧ ElemsNamed d.ports d.insts d.cables

theorem parseCell_names (sc : Scope) (ys : List SExp) (d : CDef) (h : parseCell sc ys = .ok d) : DefNames d := by
  unfold parseCell at h
  simp only [bind, Except.bind] at h
  split at h
  · cases h
  · rename_i v hv
    obtain ⟨m, rest⟩ := v
    have hm : MetaOK [S "EDIF"] m := nameDef_named _ _ _ _ rfl rfl hv
    peel h
    rename_i m2 hm2 _ v1 hv1 _ _ _
    simp only [Except.ok.injEq] at h
    subst h
    obtain ⟨e2, s2⟩ := setAttr_same _ _ _
      (by simpa [Meta.push, hm.1] using (noSpecial_lit _ (goodLit "cellType" (by decide))).plain) hm2
    have hm2' : MetaOK [S "EDIF"] m2.pop := ⟨by simp [Meta.pop, e2, Meta.push, hm.1], named_of_same _ _ s2 hm.2⟩
    have := loopC_inv (cellItem sc) (CellNames [S "EDIF"]) (fun a ys b ha hb => cellItem_names sc a b ys ha hb)
      _ { m := m2.pop } v1.1 v1.2
      ⟨hm2', ⟨(by intro p hp; cases hp), (by intro p hp; cases hp), (by intro p hp; cases hp)⟩⟩ hv1
    exact ⟨this.1.2, this.2⟩

/-! ### libraries and the file -/

def LibNames (st : LibSt) : Prop := MetaOK [S "EDIF"] st.m ∧ ∀ d ∈ st.defs, DefNames d

theorem libItem_names (libs : List CLib) (st st' : LibSt) (ys : List SExp) (h : LibNames st)
    (hs : libItem libs st ys = .ok st') : LibNames st' := by
  unfold libItem at hs
  peel hs
  all_goals (simp only [Except.ok.injEq] at hs; subst hs)
  · exact ⟨status_ok _ elem_edif _ _ _ h.1 (by assumption), h.2⟩
  · rename_i c hc _ d hd
    have hcn := parseCell_names _ ys c hc
    exact ⟨h.1, mem_snoc_all _ _ _ h.2 ⟨addRetry_named _ _ _ hcn.1 hd, hcn.2⟩⟩
  · exact ⟨comment_ok _ elem_edif _ _ _ h.1 (by assumption), h.2⟩

def LibFinal (l : CLib) : Prop := Named l.data ∧ ∀ d ∈ l.defs, DefNames d

theorem parseLibrary_names (libs : List CLib) (ext : Bool) (ys : List SExp) (l : CLib)
    (h : parseLibrary libs ext ys = .ok l) : LibFinal l := by
  unfold parseLibrary at h
  simp only [bind, Except.bind] at h
  split at h
  · cases h
  · rename_i v hv
    obtain ⟨m, rest⟩ := v
    have hm : MetaOK [S "EDIF"] m := by
      cases ext
      · exact nameDef_named _ _ _ _ rfl rfl hv
      · exact nameDef_named _ _ _ _ rfl rfl hv
    peel h
    rename_i m2 hm2 _ _ _ v1 hv1 _ _ _
    simp only [Except.ok.injEq] at h
    subst h
    have hm2' : MetaOK [S "EDIF"] m2 :=
      hm.step (levelOf_same _ _ _ _ _ (by simpa [hm.1] using (noSpecial_lit _ (goodLit "edifLevel" (by decide))).plain) hm2)
    have := loopC_inv (libItem libs) LibNames (fun a ys b ha hb => libItem_names libs a b ys ha hb)
      _ { m := m2 } v1.1 v1.2 ⟨hm2', by intro d hd; cases hd⟩ hv1
    exact ⟨this.1.2, this.2⟩

structure BodyNames (st : BodySt) : Prop where
  hm : MetaOK [S "EDIF"] st.m
  hl : ∀ l ∈ st.libs, LibFinal l
  ht : ∀ t, st.top = some t → Named t.data

theorem bodyItem_names (st st' : BodySt) (ys : List SExp) (h : BodyNames st) (hs : bodyItem st ys = .ok st') :
    BodyNames st' := by
  unfold bodyItem at hs
  peel hs
  all_goals (simp only [Except.ok.injEq] at hs; subst hs)
  · exact ⟨status_ok _ elem_edif _ _ _ h.hm (by assumption), h.hl, h.ht⟩
  · rename_i l hl _
    exact ⟨h.hm, mem_snoc_all _ _ _ h.hl (parseLibrary_names _ _ _ l hl), h.ht⟩
  · rename_i t ht
    exact ⟨h.hm, h.hl, by intro t' ht'; simp only [Option.some.injEq] at ht'; subst ht'; exact parseDesign_named _ ys _ ht⟩
  · exact ⟨comment_ok _ elem_edif _ _ _ h.hm (by assumption), h.hl, h.ht⟩

/-- **every element is named** (decidable) -/
def AllNamed (n : CNetlist) : Prop :=
  Named n.data ∧ (∀ t ∈ n.top, Named t.data) ∧
  ∀ l ∈ n.libs, Named l.data ∧ ∀ d ∈ l.defs, Named d.data ∧ (∀ p ∈ d.ports, Named p.data) ∧
    (∀ i ∈ d.insts, Named i.data) ∧ (∀ c ∈ d.cables, Named c.data)

instance (n : CNetlist) : Decidable (AllNamed n) := by unfold AllNamed; infer_instance

theorem ofSExp_names (e : SExp) (n : CNetlist) (h : ofSExp e = .ok n) : AllNamed n := by
  unfold ofSExp at h
  split at h
  · cases h
  · split at h
    · cases h
    · simp only [bind, Except.bind] at h
      split at h
      · cases h
      · rename_i v hv
        obtain ⟨m, rest⟩ := v
        have hm : MetaOK [S "EDIF"] m := nameDef_named _ _ _ _ rfl rfl hv
        peel h
        rename_i m2 hm2 _ m3 hm3 _ _ _ _ _ _ m4 hm4 _ v1 hv1 _ _ _
        simp only [Except.ok.injEq] at h
        subst h
        obtain ⟨e2, s2⟩ := setAttr_same _ _ _
          (by simpa [Meta.push, hm.1] using (noSpecial_lit _ (goodLit "edifVersion" (by decide))).plain) hm2
        have h2 : MetaOK [S "EDIF"] m2.pop := ⟨by simp [Meta.pop, e2, Meta.push, hm.1], named_of_same _ _ s2 hm.2⟩
        have h3 : MetaOK [S "EDIF"] m3 :=
          h2.step (levelOf_same _ _ _ _ _ (by simpa [h2.1] using (noSpecial_lit _ (goodLit "edifLevel" (by decide))).plain) hm3)
        have hkm := noSpecial_lit _ (goodLit "keywordMap" (by decide))
        obtain ⟨e4, s4⟩ := levelOf_same (m3.push "keywordMap") m4 _ _ _
          (by simpa [Meta.push, h3.1] using hkm [S "keywordLevel"]) hm4
        have h4 : MetaOK [S "EDIF"] m4.pop := ⟨by simp [Meta.pop, e4, Meta.push, h3.1], named_of_same _ _ s4 h3.2⟩
        have := loopC_inv bodyItem BodyNames (fun a ys b ha hb => bodyItem_names a b ys ha hb) _ { m := m4.pop } v1.1 v1.2
          ⟨h4, (by intro l hl; cases hl), (by intro t ht; cases ht)⟩ hv1
        refine ⟨this.hm.2, (fun t ht => this.ht t (by simpa using ht)), ?_⟩
        intro l hl
        obtain ⟨h1, h2'⟩ := this.hl l hl
        exact ⟨h1, fun d hd => ⟨(h2' d hd).1, (h2' d hd).2.hp, (h2' d hd).2.hi, (h2' d hd).2.hc⟩⟩

theorem allNamed_readEdif (text : List Char) (n : CNetlist) (h : readEdif text = .ok n) : AllNamed n := by
  unfold readEdif at h
  split at h
  · exact ofSExp_names _ n h
  · cases h

end Spydr.Edif
