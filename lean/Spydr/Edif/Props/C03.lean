import Spydr.Edif.LemmasLex
namespace Spydr.Edif
end Spydr.Edif
