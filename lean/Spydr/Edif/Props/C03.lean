/-
  C03 — EDIF write-then-read returns the same netlist.
  Only the property theorems and their non-vacuity examples; proofs are in ../Lemmas*.lean,
  definitions in ../Model*.lean.
-/
import Spydr.Edif.LemmasLex
import Spydr.Edif.LemmasNames
import Spydr.Edif.LemmasPins
import Spydr.Edif.LemmasCell
import Spydr.Edif.LemmasNet
import Spydr.Edif.LemmasView
import Spydr.Edif.LemmasClean
namespace Spydr.Edif.C03
open Spydr.Edif

/-- **lex_layout**: the tokenizer applied to the writer's layout of any expression whose atoms are
    plain words or quoted strings without double quote / line break (the hypothesis C03's
    quantifier names) returns exactly the expression's tokens. -/
theorem lex_layout (e : SExp) (he : e.clean) : lexE (layoutE e) = flattenS e :=
  Spydr.Edif.lex_layout e he

/-- **readS_flatten**: the token reader inverts flattening, whatever follows. -/
theorem readS_flatten (e : SExp) (r : List Tok) : readS (flattenS e ++ r) = some (e, r) :=
  Spydr.Edif.readS_flatten e r

/-- characters → tokens → tree is the identity on what the writer lays out: the file written is
    read back as the very s-expression that was written. -/
theorem read_lex_layout (e : SExp) (he : e.clean) : readS (lexE (layoutE e)) = some (e, []) :=
  Spydr.Edif.read_lex_layout e he

example : (SExp.list [A "net", .list [A "rename", A "a_0_", qtok "a b(0)".toList], .list [A "joined"]]).clean := by
  refine ⟨Or.inl ⟨by decide, by decide⟩, ⟨Or.inl ⟨by decide, by decide⟩, Or.inl ⟨by decide, by decide⟩,
    Or.inr ⟨"a b(0)".toList, rfl, by decide⟩, trivial⟩, ⟨Or.inl ⟨by decide, by decide⟩, trivial⟩, trivial⟩

/-- **name_index_roundtrip**: the reader's `separate_name_and_index` inverts the writer's bit naming
    `id_i_` (every identifier) and `name[i]` (every name that is not a backslash-escaped name). -/
theorem name_index_roundtrip (ident name : Str) (i : Nat) (c : Char) (r : Str) (hn : name = c :: r) (hc : c ≠ '\\') :
    sepIdent (bitIdent ident i) = (some i, ident) ∧ sepName (bitName name i) = (some i, name) :=
  ⟨sepIdent_bitIdent ident i, sepName_bitName name i (bracketAllowed_of_head name i c r hn hc)⟩

/-- a name that does not end in `[digits]` is returned unchanged, with no index: only scalar nets
    named like a bus bit (the pinned finding's sub-domain) can be mistaken for one -/
theorem name_index_plain (name : Str) (h : splitIdx '[' ']' name = none) : sepName name = (none, name) :=
  sepName_plain name h

example : sepIdent (bitIdent "&_x".toList 31) = (some 31, "&_x".toList) ∧
    sepName (bitName "data[7:0]".toList 3) = (some 3, "data[7:0]".toList) ∧
    sepName "clk".toList = (none, "clk".toList) := by decide +kernel

/-- decimal numerals written by the writer (array sizes, member indices) are read back exactly -/
theorem numeral_roundtrip (n : Nat) : intTok (natStr n) = IntTok.ok (Int.ofNat n) := intTok_natStr n

/-- **member_index** on the writer's own output: a pin reference `(portref (member P k) (instanceref I))`
    written for bit `k` of port `pi` of child `ii` is read back as exactly that pin -/
theorem member_index_roundtrip (cx : DefCtx) (P I : Str) (k pi ii li di : Nat) (inst : CInst) (d : CDef) (p : CPort)
    (hP : validIdentTok P = true) (hI : validIdentTok I = true)
    (hfi : findIdent (cx.insts.map (·.data)) I = some ii) (hi : cx.insts[ii]? = some inst)
    (hr : inst.ref = some (li, di)) (hd : (defsOfLib cx.sc li)[di]? = some d)
    (hf : findIdent (d.ports.map (·.data)) P = some pi) (hp : d.ports[pi]? = some p) (hk : k < p.width) :
    parsePortRef cx [A "portref", .list [A "member", .atom P, .atom (natStr k)], .list [A "instanceref", .atom I]]
      = .ok (.inst ii pi k) :=
  member_index_inst cx P I k pi ii li di inst d p hP hI hfi hi hr hd hf hp hk

/-!
### edif_roundtrip

`n` is the netlist after `_edifify_netlist` (libraries / cells in the writer's order, every object with
its EDIF.identifier — both are read back from the implementation by the harness; C16 / C17 own them).
`WFNet n` is C03's quantifier as a predicate on that netlist only (see `LemmasWF.lean`):
every element carries a legal EDIF identifier and a printable name (no double quote / line break),
sibling names pairwise different and sibling identifiers pairwise different ignoring case, ports of
width ≥ 1 (non-array ⇒ width 1), cables non-empty, a scalar cable's name is not read as
`<name>[<digits>]` (the pinned finding's sub-domain), per-bit identifiers `id_i_` legal, every instance
references a cell that precedes its own cell in the file (acyclic dependencies, writer's order), every
pin in range and on at most one wire, `EDIF.properties` canonical with legal identifiers and
string / integer / boolean values, status strings printable, a named top instance referencing a cell of the netlist.
`ScalarLower0 n`: scalar cables start at index 0.
-/

/-- **edif_roundtrip** (FULL, on the model): for every netlist inside the property's quantifier and
    every time stamp, the s-expression the writer emits is accepted by the reader and the netlist
    read back has the same C03 view — the same libraries, cells, ports (order, direction, width,
    array-ness), instances (name, referenced cell and library, properties), nets (name, width, base
    index, each wire joined to the same port bits and instance pin bits in the same order), the same
    top design and the same original names.
    NOT in `view03` (Spec.lean): the EDIF identifiers, the properties of anything but instances, the view
    name, `cellType` and the other metadata.  (Identifiers and the view name do come back: the closed form
    `edif_roundtrip_closed_form` / `readNetlist` and `view05` of Props/C05Denote.lean carry them.) -/
theorem edif_roundtrip (n : CNetlist) (prog ver : Option Str) (t : CInst) (li di : Nat) (y mo d h mi s : Nat)
    (hwf : WFNet n prog ver t li di) (h0 : ScalarLower0 n) :
    ∃ e n', toSExp [y, mo, d, h, mi, s] n = .ok e ∧ ofSExp e = .ok n' ∧ view03 n' = view03 n :=
  edif_roundtrip_view n prog ver t li di y mo d h mi s hwf h0

/-- **edif_roundtrip_text** (FULL, from characters): for every netlist inside the quantifier the TEXT the model writer
    lays out is accepted by the model reader — tokenizer `lexE`, s-expression reader `readS`, `ofSExp` —
    and the netlist read back has the same C03 view.  "The file written is always accepted by the
    reader." -/
theorem edif_roundtrip_text (n : CNetlist) (prog ver : Option Str) (t : CInst) (li di : Nat)
    (y mo d h mi s : Nat) (hwf : WFNet n prog ver t li di) (h0 : ScalarLower0 n) :
    ∃ text n', composeE [y, mo, d, h, mi, s] n = .ok text ∧ readEdif text = .ok n' ∧ view03 n' = view03 n := by
  obtain ⟨e, n', hw, hr, hv⟩ := edif_roundtrip n prog ver t li di y mo d h mi s hwf h0
  have hc := toSExp_clean n prog ver t li di y mo d h mi s hwf e hw
  refine ⟨layoutE e, n', by simp [composeE, hw, bind, Except.bind, pure, Except.pure], ?_, hv⟩
  simp [readEdif, Spydr.Edif.read_lex_layout e hc, hr]

/-- the decidable form of the cleanliness hypothesis the driver reports (`cleanB`) is sound -/
theorem cleanB_sound (e : SExp) (h : e.cleanB = true) : e.clean := Spydr.Edif.cleanB_sound e h

/-- the closed form behind it: the netlist read back, under the explicit chain of resolution
    hypotheses `NetOK` (which `WFNet` implies, `netOK_of_wf`) -/
theorem edif_roundtrip_closed_form (n : CNetlist) (nident nname : Str) (prog ver : Option Str) (lws : List LW) (t : CInst)
    (tident tname : Str) (li di : Nat) (y mo d h mi s : Nat)
    (hok : NetOK n nident nname prog ver lws t tident tname li di) :
    ∃ e, toSExp [y, mo, d, h, mi, s] n = .ok e ∧
      ofSExp e = .ok (readNetlist n nident nname
        [Int.ofNat y, Int.ofNat mo, Int.ofNat d, Int.ofNat h, Int.ofNat mi, Int.ofNat s] prog ver lws tident tname li di) :=
  netlist_roundtrip n nident nname prog ver lws t tident tname li di y mo d h mi s hok

/-!
Scope of `WFNet` (the hypothesis of `edif_roundtrip` / `edif_roundtrip_text`) against C03's quantifier
"every netlist the composer accepts":

* names, original identifiers, string property values, program / version strings: ANY characters except
  the double quote and CR / LF (`isStringChar`; the model's string token follows
  docs/fixes/edif_string_token_any_char.diff — the unrepaired reader accepts printable ASCII + TAB
  only, finding `edif.reader.string_token_charset`);
* a multi-wire / array cable whose name starts with a backslash is outside (`bracketAllowed`; pinned
  finding `edif.reader.backslash_bus_cable`), as is a scalar cable named like a bus bit (pinned
  `edif.convention.scalar_net_named_like_bus_bit`);
* property values are str / bool / int (float / None: pinned `edif.writer.non_integer_property_value`);
  the legacy data key `oldName` is absent (`edif.writer.oldname_raw_rename`);
* identifiers are the ones `_edifify_netlist` assigns (legal EDIF identifiers, distinct ignoring case
  among siblings), read back from the implementation.

`parse_compose_parse` is proved in `Props/C03Closure.lean` for `f = compose(n)` (`reader_image_closed`: the
reader's output is again inside `WFNet`; `reader_image_fixed_point` / `parse_compose_parse`: reading what
is written from it gives it back, equality of netlists when the time stamp is the same;
`edifify_names_identity`, `edifify_order_identity`: `_edifify_netlist` leaves the reader's output
unchanged) and in `Props/C03Fragment.lean` for every text of the C05 fragment (`parse_compose_parse_accepted`:
texts the writer did not produce — references in any letter case, bit nets in any order).  For accepted
texts outside that fragment it is evaluated on the implementation (every generated text, every bundled
file).
-/

/-- **edif_roundtrip_cell / cell_roundtrip** — the statement for ONE cell in the reader's scope: the
    reader applied to the s-expression the writer emits for the cell returns a cell with the same
    name and identifier, the same ports (order, name, identifier, direction, width, array-ness), the
    same instances (name, identifier, referenced cell and library, properties with their types)
    and the same cables (name, identifier, array-ness, base index, every wire joined to the same
    port bits and instance pin bits in the same order). -/
theorem edif_roundtrip_cell (libs : List CLib) (sc : Scope) (d : CDef) (ident name : Str) (iws : List IW)
    (h : CellOK libs sc d ident name iws) :
    ∃ r, defSExp libs d = .ok (.list (A "Cell" :: r)) ∧
      parseCell sc (A "Cell" :: r) = .ok (readCell d ident name iws) :=
  cell_roundtrip libs sc d ident name iws h

/-- what `readCell` says about the parts named in the property: ports … -/
theorem readCell_ports (d : CDef) (ident name : Str) (iws : List IW) (k : Nat) (p : CPort) (hp : d.ports[k]? = some p) :
    ∃ p', (readCell d ident name iws).ports[k]? = some p' ∧ p'.dir = p.dir ∧ p'.width = p.width ∧
      p'.isArray = p.isArray ∧ identOf p'.data = some (idOf p.data) ∧ nameOf p'.data = some (nmOf p.data) := by
  refine ⟨readPort1 p, by simp [readCell, hp], rfl, rfl, ?_, identOf_readPort _ _ _, nameOf_readPort _ _ _⟩
  simp only [readPort1, readPort, CPort.isArray, CPort.isScalar]
  by_cases h : p.width > 1 <;> simp [h]

/-- … and cables (wires, base index of array cables, name) -/
theorem readCell_cables (d : CDef) (ident name : Str) (iws : List IW) (k : Nat) (c : CCable) (hc : d.cables[k]? = some c) :
    ∃ c', (readCell d ident name iws).cables[k]? = some c' ∧ c'.wires = c.wires ∧
      nameOf c'.data = some (nmOf c.data) ∧ identOf c'.data = some (idOf c.data) ∧
      (¬ (c.wires.length = 1 ∧ c.isArray = false) → c'.lower = c.lower ∧ c'.isArray = true) := by
  refine ⟨readCable1 c, by simp [readCell, hc], readCable_wires _ _ _, nameOf_readCable _ _ _, identOf_readCable _ _ _, ?_⟩
  intro h
  simp only [readCable1, readCable, h, if_false]
  exact ⟨rfl, busCable_isArray _ _ _ _⟩

/-! non-vacuity: a two-cell library; `top` (renamed, `top$`) instantiates `leaf`, joins a scalar net to
    its own port and the instance's scalar pin, and a two-bit bus based at 4 to the instance's array
    port.  It satisfies `CellOK` in the scope the reader has after reading `leaf`. -/
namespace Example

def nd (s : String) : Data := [(kNAME, .str s.toList), (kIDENT, .str s.toList)]

/-- leaf cell: scalar input `A`, two-bit output `B` -/
def leaf : CDef :=
  { data := nd "leaf",
    ports := [{ data := nd "A", dir := .inp, width := 1 }, { data := nd "B", dir := .out, width := 2, scalarFlag := false }] }

/-- top cell: port `x`, one instance of `leaf`, a scalar net and a two-bit bus based at 4 -/
def top : CDef :=
  { data := [(kNAME, .str "top$".toList), (kIDENT, .str "top_".toList)],
    ports := [{ data := nd "x", dir := .inp, width := 1 }],
    insts := [{ data := nd "u1", ref := some (0, 0) }],
    cables := [{ data := nd "n1", wires := [[.port 0 0, .inst 0 0 0]] },
               { data := nd "bus", scalarFlag := false, lower := 4, wires := [[.inst 0 1 0], [.inst 0 1 1]] }] }

def lib0 : CLib := { data := nd "work", defs := [leaf, top] }

/-- the reader's scope when it reaches `top`: no earlier library, `leaf` already read -/
def sc : Scope :=
  { libs := [], curLib := withName [] "work".toList "work".toList,
    curDefs := [readCell leaf "leaf".toList "leaf".toList []] }

def iw : IW := ⟨"u1".toList, "u1".toList, [], 0, 0⟩

theorem named (s : String) (hc : checkEdifIdentifier s.toList = true) (hs : s.toList.all isStringChar = true) :
    NamedOK (nd s) s.toList s.toList := ⟨rfl, hc, rfl, hs⟩

theorem fresh_nil (i n : Str) : FreshIn [] i n := by intro p hp; cases hp

theorem top_CellOK : CellOK [lib0] sc top "top_".toList "top$".toList [iw] := by
  refine ⟨⟨rfl, by decide, rfl, by decide⟩, ?_, ?_, ?_, by decide⟩
  · show _ ∧ _ ∧ _ ∧ _ ∧ _
    exact ⟨named "x" (by decide) (by decide), by decide, fun _ => rfl, fresh_nil _ _, trivial⟩
  · show _ ∧ _ ∧ _
    refine ⟨⟨named "u1" (by decide) (by decide), rfl, ?_, ⟨Or.inr ⟨rfl, rfl⟩, by intro t ht; cases ht⟩⟩, fresh_nil _ _, trivial⟩
    refine ⟨lib0, leaf, "leaf".toList, "work".toList, readCell leaf "leaf".toList "leaf".toList [], "netlist".toList,
      rfl, rfl, rfl, rfl, by decide, by decide, ⟨"work".toList, by decide +kernel, by decide +kernel⟩, by decide +kernel, rfl,
      by decide +kernel, by decide⟩
  · -- cables
    have hpx : PinOK [lib0] top { sc := sc, ports := top.ports.map readPort1, insts := [iw].map IW.read } (.port 0 0) :=
      ⟨⟨_, _, "x".toList, rfl, rfl, by decide, fun _ => rfl, by decide +kernel, rfl, by decide⟩⟩
    have hpi : ∀ pi bi, (pi = 0 ∧ bi = 0) ∨ (pi = 1 ∧ bi < 2) →
        PinOK [lib0] top { sc := sc, ports := top.ports.map readPort1, insts := [iw].map IW.read } (.inst 0 pi bi) := by
      intro pi bi h
      rcases h with ⟨rfl, rfl⟩ | ⟨rfl, hb⟩
      · exact ⟨⟨_, 0, 0, leaf, _, _, "A".toList, "u1".toList, iw.read, readCell leaf "leaf".toList "leaf".toList [],
          rfl, rfl, rfl, rfl, rfl, by decide, rfl, by decide, fun _ => rfl, by decide +kernel, rfl, rfl, rfl,
          by decide +kernel, rfl, by decide⟩⟩
      · exact ⟨⟨_, 0, 0, leaf, _, _, "B".toList, "u1".toList, iw.read, readCell leaf "leaf".toList "leaf".toList [],
          rfl, rfl, rfl, rfl, rfl, by decide, rfl, by decide, fun h => by simp [CPort.isArray, CPort.isScalar] at h,
          by decide +kernel, rfl, rfl, rfl, by decide +kernel, rfl, hb⟩⟩
    show _ ∧ _ ∧ _ ∧ _ ∧ _
    refine ⟨⟨named "n1" (by decide) (by decide), by decide, ?_, fun _ _ => ⟨by decide +kernel, by decide⟩,
      fun h => absurd ⟨rfl, rfl⟩ h⟩, fresh_nil _ _, ⟨named "bus" (by decide) (by decide), by decide, ?_, ?_, ?_⟩, ?_, trivial⟩
    · intro w hw pin hp
      simp only [top, List.mem_singleton] at hw
      subst hw
      simp only [List.mem_cons, List.not_mem_nil, or_false] at hp
      rcases hp with rfl | rfl
      · exact hpx
      · exact hpi 0 0 (Or.inl ⟨rfl, rfl⟩)
    · intro w hw pin hp
      simp only [top, List.mem_cons, List.not_mem_nil, or_false] at hw
      rcases hw with rfl | rfl <;> (simp only [List.mem_singleton] at hp; subst hp)
      · exact hpi 1 0 (Or.inr ⟨rfl, by decide⟩)
      · exact hpi 1 1 (Or.inr ⟨rfl, by decide⟩)
    · intro h; exact absurd h (by decide)
    · intro _ k hk
      have : k = 0 ∨ k = 1 := by
        have : k < 2 := hk
        omega
      rcases this with rfl | rfl <;> exact ⟨by decide +kernel, by decide +kernel, by decide +kernel⟩
    · intro p hp
      simp only [List.mem_singleton] at hp
      subst hp
      exact ⟨by decide, by decide⟩

/-- hence the conclusion holds for it: the reader rebuilds `top` from the writer's text -/
example : ∃ r, defSExp [lib0] top = .ok (.list (A "Cell" :: r)) ∧
    parseCell sc (A "Cell" :: r) = .ok (readCell top "top_".toList "top$".toList [iw]) :=
  edif_roundtrip_cell _ _ _ _ _ _ top_CellOK

example : (readCell top "top_".toList "top$".toList [iw]).cables.map (fun c => (c.lower, c.wires)) =
    [(0, [[CPin.port 0 0, CPin.inst 0 0 0]]), (4, [[CPin.inst 0 1 0], [CPin.inst 0 1 1]])] := by decide +kernel

/-- the whole netlist: library `work` = [leaf, top], design `top` -/
def n0 : CNetlist :=
  { data := nd "design1", libs := [lib0],
    top := some { data := nd "top", ref := some (0, 1) } }

def lw0 : LW := ⟨"work".toList, "work".toList, [⟨"leaf".toList, "leaf".toList, []⟩, ⟨"top_".toList, "top$".toList, [iw]⟩]⟩

theorem leaf_CellOK : CellOK [lib0] { libs := [], curLib := withName [] "work".toList "work".toList, curDefs := [] }
    leaf "leaf".toList "leaf".toList [] := by
  refine ⟨named "leaf" (by decide) (by decide), ?_, trivial, trivial, by decide⟩
  show _ ∧ _ ∧ _ ∧ _ ∧ _ ∧ _ ∧ _ ∧ _ ∧ _
  refine ⟨named "A" (by decide) (by decide), by decide, fun _ => rfl, fresh_nil _ _,
    named "B" (by decide) (by decide), by decide, fun h => by simp [CPort.isArray, CPort.isScalar] at h, ?_, trivial⟩
  intro p hp
  simp only [List.mem_singleton] at hp
  subst hp
  exact ⟨by decide, by decide⟩

theorem n0_NetOK : NetOK n0 "design1".toList "design1".toList none none [lw0] { data := nd "top", ref := some (0, 1) }
    "top".toList "top".toList 0 1 := by
  refine ⟨named "design1" (by decide) (by decide), ⟨rfl, fun h => (by simp at h), fun p hp => (by cases hp),
    fun v hv => (by cases hv)⟩, ?_, rfl, named "top" (by decide) (by decide), rfl, ?_⟩
  · show _ ∧ _ ∧ _
    refine ⟨⟨named "work" (by decide) (by decide), ?_⟩, fresh_nil _ _, trivial⟩
    show _ ∧ _ ∧ _ ∧ _ ∧ _
    refine ⟨leaf_CellOK, fresh_nil _ _, top_CellOK, ?_, trivial⟩
    intro p hp
    simp only [List.mem_singleton] at hp
    subst hp
    exact ⟨by decide, by decide⟩
  · exact ⟨lib0, top, "top_".toList, "work".toList, LW.read lib0 lw0, rfl, rfl, rfl, rfl, by decide, by decide,
      by decide +kernel, rfl, by decide +kernel⟩

/-- hence: the reader rebuilds the whole netlist from the text the writer lays out for it -/
example : ∃ e, toSExp [2026, 9, 27, 8, 5, 3] n0 = .ok e ∧
    ofSExp e = .ok (readNetlist n0 "design1".toList "design1".toList [2026, 9, 27, 8, 5, 3] none none [lw0]
      "top".toList "top".toList 0 1) :=
  edif_roundtrip_closed_form n0 _ _ _ _ _ _ _ _ _ _ 2026 9 27 8 5 3 n0_NetOK

/-! and the same netlist satisfies the hypotheses of the FULL theorem, stated on the netlist alone -/

theorem named' (s : String) (hc : checkEdifIdentifier s.toList = true) (hs : s.toList.all isStringChar = true) :
    NamedOK (nd s) (idOf (nd s)) (nmOf (nd s)) := ⟨rfl, hc, rfl, hs⟩

theorem mem_lib0 {l : CLib} (h : l ∈ [lib0]) : l = lib0 := by simpa using h

theorem n0_names : NetNames [lib0] := by
  have hdefs : ∀ d ∈ lib0.defs, d = leaf ∨ d = top := by intro d hd; simpa [lib0] using hd
  refine ⟨?_, by simp [Distinct], ?_, ?_, ?_, ?_⟩
  · intro l hl; rw [mem_lib0 hl]; exact named' "work" (by decide) (by decide)
  · intro l hl d hd; rw [mem_lib0 hl] at hd
    rcases hdefs d hd with rfl | rfl
    · exact named' "leaf" (by decide) (by decide)
    · exact ⟨rfl, by decide, rfl, by decide⟩
  · intro l hl; rw [mem_lib0 hl]; show Distinct [leaf.data, top.data]
    simp only [Distinct, List.pairwise_cons, List.mem_singleton, forall_eq, List.not_mem_nil, false_implies, implies_true,
      List.Pairwise.nil, and_true]
    decide
  · intro l hl d hd p hp; rw [mem_lib0 hl] at hd
    rcases hdefs d hd with rfl | rfl
    · simp only [leaf, List.mem_cons, List.not_mem_nil, or_false] at hp
      rcases hp with rfl | rfl
      · exact ⟨named' "A" (by decide) (by decide), by decide, fun _ => rfl⟩
      · exact ⟨named' "B" (by decide) (by decide), by decide, fun h => by simp [CPort.isArray, CPort.isScalar] at h⟩
    · simp only [top, List.mem_singleton] at hp
      subst hp
      exact ⟨named' "x" (by decide) (by decide), by decide, fun _ => rfl⟩
  · intro l hl d hd; rw [mem_lib0 hl] at hd
    rcases hdefs d hd with rfl | rfl
    · show Distinct [(nd "A"), (nd "B")]
      simp only [Distinct, List.pairwise_cons, List.mem_singleton, forall_eq, List.not_mem_nil, false_implies, implies_true,
        List.Pairwise.nil, and_true]
      decide
    · simp [Distinct, top]

theorem n0_WFNet : WFNet n0 none none { data := nd "top", ref := some (0, 1) } 0 1 := by
  refine ⟨n0_names, ?_, named' "design1" (by decide) (by decide), ⟨rfl, fun h => (by simp at h), fun p hp => (by cases hp),
    fun v hv => (by cases hv)⟩, rfl, named' "top" (by decide) (by decide), rfl, ⟨lib0, top, rfl, rfl⟩⟩
  intro L l hl D d hd
  have hL : L = 0 ∧ l = lib0 := by
    cases L with
    | zero => exact ⟨rfl, by simpa [n0] using hl.symm⟩
    | succ k => simp [n0] at hl
  obtain ⟨rfl, rfl⟩ := hL
  have hD : (D = 0 ∧ d = leaf) ∨ (D = 1 ∧ d = top) := by
    cases D with
    | zero => left; exact ⟨rfl, by simpa [lib0] using hd.symm⟩
    | succ k => cases k with
      | zero => right; exact ⟨rfl, by simpa [lib0] using hd.symm⟩
      | succ j => simp [lib0] at hd
  rcases hD with ⟨rfl, rfl⟩ | ⟨rfl, rfl⟩
  · exact ⟨fun i hi => (by cases hi), (by simp [Distinct, leaf]), fun c hc => (by cases hc), (by simp [Distinct, leaf]), (by decide)⟩
  · refine ⟨?_, by simp [Distinct, top], ?_, ?_, by decide⟩
    · intro i hi
      simp only [top, List.mem_singleton] at hi
      subst hi
      exact ⟨named' "u1" (by decide) (by decide), ⟨0, 0, lib0, leaf, rfl, rfl, rfl, Or.inr ⟨rfl, by decide⟩⟩, Or.inl rfl⟩
    · intro c hc
      simp only [top, List.mem_cons, List.not_mem_nil, or_false] at hc
      have hpx : PinWF [lib0] top (.port 0 0) := ⟨_, rfl, by decide, fun _ => rfl⟩
      have hpA : PinWF [lib0] top (.inst 0 0 0) := ⟨_, 0, 0, lib0, leaf, _, rfl, rfl, rfl, rfl, rfl, by decide, fun _ => rfl⟩
      have hpB : ∀ b, b < 2 → PinWF [lib0] top (.inst 0 1 b) := fun b hb =>
        ⟨_, 0, 0, lib0, leaf, _, rfl, rfl, rfl, rfl, rfl, hb, fun h => by simp [CPort.isArray, CPort.isScalar] at h⟩
      rcases hc with rfl | rfl
      · refine ⟨named' "n1" (by decide) (by decide), by decide, ?_, fun _ _ => ⟨by decide +kernel, by decide⟩,
          fun h => absurd ⟨rfl, rfl⟩ h⟩
        intro w hw pin hp
        simp only [List.mem_singleton] at hw
        subst hw
        simp only [List.mem_cons, List.not_mem_nil, or_false] at hp
        rcases hp with rfl | rfl
        · exact hpx
        · exact hpA
      · refine ⟨named' "bus" (by decide) (by decide), by decide, ?_, fun h => absurd h (by decide), ?_⟩
        · intro w hw pin hp
          simp only [List.mem_cons, List.not_mem_nil, or_false] at hw
          rcases hw with rfl | rfl <;> (simp only [List.mem_singleton] at hp; subst hp)
          · exact hpB 0 (by decide)
          · exact hpB 1 (by decide)
        · intro _ k hk
          have : k = 0 ∨ k = 1 := by
            have : k < 2 := hk
            omega
          rcases this with rfl | rfl <;> exact ⟨by decide +kernel, by decide +kernel, by decide +kernel⟩
    · show Distinct [(nd "n1"), (nd "bus")]
      simp only [Distinct, List.pairwise_cons, List.mem_singleton, forall_eq, List.not_mem_nil, false_implies, implies_true,
        List.Pairwise.nil, and_true]
      decide

theorem n0_scalar : ScalarLower0 n0 := by
  intro l hl d hd c hc _ _
  have : l = lib0 := by simpa [n0] using hl
  subst this
  have hd' : d = leaf ∨ d = top := by simpa [lib0] using hd
  rcases hd' with rfl | rfl
  · cases hc
  · simp only [top, List.mem_cons, List.not_mem_nil, or_false] at hc
    rcases hc with rfl | rfl
    · rfl
    · rename_i h1 _; simp at h1

/-- hence, for this netlist: written, read back, same C03 view -/
example : ∃ e n', toSExp [2026, 9, 27, 8, 5, 3] n0 = .ok e ∧ ofSExp e = .ok n' ∧ view03 n' = view03 n0 :=
  edif_roundtrip n0 none none _ 0 1 2026 9 27 8 5 3 n0_WFNet n0_scalar

/-- … and from characters -/
example : ∃ text n', composeE [2026, 9, 27, 8, 5, 3] n0 = .ok text ∧ readEdif text = .ok n' ∧ view03 n' = view03 n0 :=
  edif_roundtrip_text n0 none none _ 0 1 2026 9 27 8 5 3 n0_WFNet n0_scalar

end Example

end Spydr.Edif.C03
