/-
  C03 — EDIF write-then-read returns the same netlist.
  Only the property theorems and their non-vacuity examples; proofs are in ../Lemmas*.lean,
  definitions in ../Model*.lean.
-/
import Spydr.Edif.LemmasLex
import Spydr.Edif.LemmasNames
import Spydr.Edif.LemmasPins
namespace Spydr.Edif.C03
open Spydr.Edif

/-- **lex_layout**: the tokenizer applied to the writer's layout of any expression whose atoms are
    plain words or quoted strings without double quote / line break (the hypothesis C03's
    quantifier names) returns exactly the expression's tokens. -/
theorem lex_layout (e : SExp) (he : e.clean) : lexE (layoutE e) = flattenS e :=
  Spydr.Edif.lex_layout e he

/-- **readS_flatten**: the token reader inverts flattening, whatever follows. -/
theorem readS_flatten (e : SExp) (r : List Tok) : readS (flattenS e ++ r) = some (e, r) :=
  Spydr.Edif.readS_flatten e r

/-- characters → tokens → tree is the identity on what the writer lays out: the file written is
    read back as the very s-expression that was written. -/
theorem read_lex_layout (e : SExp) (he : e.clean) : readS (lexE (layoutE e)) = some (e, []) :=
  Spydr.Edif.read_lex_layout e he

example : (SExp.list [A "net", .list [A "rename", A "a_0_", qtok "a b(0)".toList], .list [A "joined"]]).clean := by
  refine ⟨Or.inl ⟨by decide, by decide⟩, ⟨Or.inl ⟨by decide, by decide⟩, Or.inl ⟨by decide, by decide⟩,
    Or.inr ⟨"a b(0)".toList, rfl, by decide⟩, trivial⟩, ⟨Or.inl ⟨by decide, by decide⟩, trivial⟩, trivial⟩

/-- **name_index_roundtrip**: the reader's `separate_name_and_index` inverts the writer's bit naming
    `id_i_` (every identifier) and `name[i]` (every name that is not a backslash-escaped name). -/
theorem name_index_roundtrip (ident name : Str) (i : Nat) (c : Char) (r : Str) (hn : name = c :: r) (hc : c ≠ '\\') :
    sepIdent (bitIdent ident i) = (some i, ident) ∧ sepName (bitName name i) = (some i, name) :=
  ⟨sepIdent_bitIdent ident i, sepName_bitName name i (bracketAllowed_of_head name i c r hn hc)⟩

/-- a name that does not end in `[digits]` is returned unchanged, with no index: only scalar nets
    named like a bus bit (the pinned finding's sub-domain) can be mistaken for one -/
theorem name_index_plain (name : Str) (h : splitIdx '[' ']' name = none) : sepName name = (none, name) :=
  sepName_plain name h

example : sepIdent (bitIdent "&_x".toList 31) = (some 31, "&_x".toList) ∧
    sepName (bitName "data[7:0]".toList 3) = (some 3, "data[7:0]".toList) ∧
    sepName "clk".toList = (none, "clk".toList) := by decide +kernel

/-- decimal numerals written by the writer (array sizes, member indices) are read back exactly -/
theorem numeral_roundtrip (n : Nat) : intTok (natStr n) = IntTok.ok (Int.ofNat n) := intTok_natStr n

/-- **member_index** on the writer's own output: a pin reference `(portref (member P k) (instanceref I))`
    written for bit `k` of port `pi` of child `ii` is read back as exactly that pin -/
theorem member_index_roundtrip (cx : DefCtx) (P I : Str) (k pi ii li di : Nat) (inst : CInst) (d : CDef) (p : CPort)
    (hP : validIdentTok P = true) (hI : validIdentTok I = true)
    (hfi : findIdent (cx.insts.map (·.data)) I = some ii) (hi : cx.insts[ii]? = some inst)
    (hr : inst.ref = some (li, di)) (hd : (defsOfLib cx.sc li)[di]? = some d)
    (hf : findIdent (d.ports.map (·.data)) P = some pi) (hp : d.ports[pi]? = some p) (hk : k < p.width) :
    parsePortRef cx [A "portref", .list [A "member", .atom P, .atom (natStr k)], .list [A "instanceref", .atom I]]
      = .ok (.inst ii pi k) :=
  member_index_inst cx P I k pi ii li di inst d p hP hI hfi hi hr hd hf hp hk

end Spydr.Edif.C03
