/-
  C03 — `parse_compose_parse` on the model.  Only the property theorems; proofs are in
  ../Closure.lean and ../ClosureIdent.lean.
-/
import Spydr.Edif.Closure
import Spydr.Edif.ClosureIdent
import Spydr.Edif.ClosureOrder
import Spydr.Edif.LemmasClean
import Spydr.Edif.Props.C03
namespace Spydr.Edif.C03
open Spydr.Edif

/-- the six numbers of a time stamp as the reader stores them -/
def tsInts (y mo d h mi s : Nat) : List Int :=
  [Int.ofNat y, Int.ofNat mo, Int.ofNat d, Int.ofNat h, Int.ofNat mi, Int.ofNat s]

/-- **reader_image_closed** — closure of the reader's image: for every netlist inside C03's quantifier
    (`WFNet`) the netlist the reader returns for the written s-expression is again inside the
    quantifier (legal identifiers, names, distinct siblings ignoring case, references to preceding
    cells, pins in range and used once, canonical property dictionaries, named top instance) and its
    scalar cables are based at 0. -/
theorem reader_image_closed (n : CNetlist) (prog ver : Option Str) (t : CInst) (li di : Nat) (y mo d h mi s : Nat)
    (hwf : WFNet n prog ver t li di) :
    ∃ e n', toSExp [y, mo, d, h, mi, s] n = .ok e ∧ ofSExp e = .ok n' ∧
      WFNet n' prog ver (readTop (idOf t.data) (nmOf t.data) li di) li di ∧ ScalarLower0 n' := by
  obtain ⟨e, hw, hr⟩ := edif_roundtrip_wf n prog ver t li di y mo d h mi s hwf
  exact ⟨e, _, hw, hr, wfNet_img n (tsInts y mo d h mi s) prog ver t li di hwf,
    scalarLower0_img n (tsInts y mo d h mi s) prog ver t li di⟩

/-- **reader_image_fixed_point** — what the reader returns is a fixed point of read ∘ write: writing it
    (any time stamp) is accepted and reading that back gives the same netlist up to the stored time
    stamp; with the same time stamp it gives the very same netlist (equality of netlists, every
    dictionary included). -/
theorem reader_image_fixed_point (n : CNetlist) (prog ver : Option Str) (t : CInst) (li di : Nat)
    (y mo d h mi s y' mo' d' h' mi' s' : Nat) (hwf : WFNet n prog ver t li di) :
    ∃ e n', toSExp [y, mo, d, h, mi, s] n = .ok e ∧ ofSExp e = .ok n' ∧
      ∃ e' n'', toSExp [y', mo', d', h', mi', s'] n' = .ok e' ∧ ofSExp e' = .ok n'' ∧
        n''.libs = n'.libs ∧ n''.top = n'.top ∧ view03 n'' = view03 n' ∧
        (tsInts y' mo' d' h' mi' s' = tsInts y mo d h mi s → n'' = n') := by
  obtain ⟨e, hw, hr⟩ := edif_roundtrip_wf n prog ver t li di y mo d h mi s hwf
  have hwf' := wfNet_img n (tsInts y mo d h mi s) prog ver t li di hwf
  obtain ⟨e', hw', hr'⟩ := edif_roundtrip_wf _ prog ver _ li di y' mo' d' h' mi' s' hwf'
  have hidem := imgNet_idem n (tsInts y mo d h mi s) (tsInts y' mo' d' h' mi' s') prog ver t li di
  have hr'' : ofSExp e' = .ok (imgNet n (tsInts y' mo' d' h' mi' s') prog ver t li di) := by
    rw [← hidem]; exact hr'
  refine ⟨e, _, hw, hr, e', _, hw', hr'', ?_, ?_, ?_, ?_⟩
  · show (imgNet n _ prog ver t li di).libs = (imgNet n _ prog ver t li di).libs
    rw [imgNet_libs, imgNet_libs]
  · rfl
  · exact view03_imgNet_ts n _ _ prog ver t li di
  · intro hts
    show imgNet n (tsInts y' mo' d' h' mi' s') prog ver t li di = imgNet n (tsInts y mo d h mi s) prog ver t li di
    rw [hts]

/-- **parse_compose_parse** (from characters) — for `f = compose(n)`, `n` any netlist inside C03's
    quantifier: `f` is accepted, `compose(parse f)` is accepted, and `parse(compose(parse f))` has the
    same C03 view as `parse f` — indeed the same libraries and top instance, and it IS `parse f` when
    the two writes carry the same time stamp. -/
theorem parse_compose_parse (n : CNetlist) (prog ver : Option Str) (t : CInst) (li di : Nat)
    (y mo d h mi s y' mo' d' h' mi' s' : Nat) (hwf : WFNet n prog ver t li di) :
    ∃ f pf, composeE [y, mo, d, h, mi, s] n = .ok f ∧ readEdif f = .ok pf ∧
      ∃ f' pcpf, composeE [y', mo', d', h', mi', s'] pf = .ok f' ∧ readEdif f' = .ok pcpf ∧
        view03 pcpf = view03 pf ∧ pcpf.libs = pf.libs ∧ pcpf.top = pf.top ∧
        (tsInts y' mo' d' h' mi' s' = tsInts y mo d h mi s → pcpf = pf) := by
  obtain ⟨e, n', hw, hr, e', n'', hw', hr', hl, ht, hv, hts⟩ :=
    reader_image_fixed_point n prog ver t li di y mo d h mi s y' mo' d' h' mi' s' hwf
  have hc := toSExp_clean n prog ver t li di y mo d h mi s hwf e hw
  obtain ⟨e0, hw0, hr0⟩ := edif_roundtrip_wf n prog ver t li di y mo d h mi s hwf
  have he0 : e0 = e := by rw [hw0] at hw; exact Except.ok.inj hw
  subst he0
  have hn' : n' = imgNet n (tsInts y mo d h mi s) prog ver t li di := by
    rw [hr0] at hr; exact (Except.ok.inj hr).symm
  have hwf' : WFNet n' prog ver (readTop (idOf t.data) (nmOf t.data) li di) li di := by
    rw [hn']; exact wfNet_img n _ prog ver t li di hwf
  have hc' := toSExp_clean n' prog ver _ li di y' mo' d' h' mi' s' hwf' e' hw'
  refine ⟨layoutE e0, n', by simp [composeE, hw, bind, Except.bind, pure, Except.pure], ?_,
    layoutE e', n'', by simp [composeE, hw', bind, Except.bind, pure, Except.pure], ?_, hv, hl, ht, hts⟩
  · simp [readEdif, Spydr.Edif.read_lex_layout e0 hc, hr]
  · simp [readEdif, Spydr.Edif.read_lex_layout e' hc', hr']

/-- **edifify_names_identity** — identifier facts: every element of the reader's output carries an
    `EDIF.identifier`, so the naming phase of `_edifify_netlist` (`_add_rename_property`, which
    returns at once for such an element) leaves the reader's output unchanged, whatever `make_valid`
    is: the netlist the composer writes after `parse` is the parsed netlist itself. -/
theorem edifify_names_identity (mk : Data → Str) (n : CNetlist) (prog ver : Option Str) (t : CInst) (li di : Nat)
    (y mo d h mi s : Nat) (hwf : WFNet n prog ver t li di) :
    ∃ e n', toSExp [y, mo, d, h, mi, s] n = .ok e ∧ ofSExp e = .ok n' ∧ mapData (addRename mk) n' = n' := by
  obtain ⟨e, hw, hr⟩ := edif_roundtrip_wf n prog ver t li di y mo d h mi s hwf
  exact ⟨e, _, hw, hr, edifify_names_img mk n (tsInts y mo d h mi s) prog ver t li di⟩

/-- **edifify_order_identity** — the ordering phase of `_edifify_netlist` (`_topological_sort` with its
    stack-based `iterate`, dependencies listed in any order) leaves the reader's output as it is:
    libraries stay in their order, and the definitions of every library stay in theirs.  Together with
    `edifify_names_identity`: on what `parse` returned, `compose` writes the parsed netlist itself. -/
theorem edifify_order_identity (n : CNetlist) (prog ver : Option Str) (t : CInst) (li di : Nat)
    (y mo d h mi s fuel : Nat) (hwf : WFNet n prog ver t li di) :
    ∃ e n', toSExp [y, mo, d, h, mi, s] n = .ok e ∧ ofSExp e = .ok n' ∧
      topoSort (libDeps n') (fuel + 1) (List.range n'.libs.length) = List.range n'.libs.length ∧
      ∀ L l, n'.libs[L]? = some l →
        topoSort (defDeps n' L) (fuel + 1) (List.range l.defs.length) = List.range l.defs.length := by
  obtain ⟨e, hw, hr⟩ := edif_roundtrip_wf n prog ver t li di y mo d h mi s hwf
  have hwf' := wfNet_img n (tsInts y mo d h mi s) prog ver t li di hwf
  exact ⟨e, _, hw, hr, topoSort_libs _ _ _ _ _ _ hwf' fuel, fun L l hl => topoSort_defs _ _ _ _ _ _ hwf' L l hl fuel⟩

/-- what `_edifify_netlist` does, as one predicate: its naming phase and its ordering phase both leave `n` as it is -/
def EdififyFixed (mk : Data → Str) (fuel : Nat) (n : CNetlist) : Prop :=
  mapData (addRename mk) n = n ∧
  topoSort (libDeps n) (fuel + 1) (List.range n.libs.length) = List.range n.libs.length ∧
  ∀ L l, n.libs[L]? = some l → topoSort (defDeps n L) (fuel + 1) (List.range l.defs.length) = List.range l.defs.length

/-- **compose_after_parse** — the implementation's `compose` is `_edifify_netlist` followed by the writer; `composeE` is the
    writer alone.  In ONE statement: for `f = compose(n)`, `n` inside `WFNet`, the reader accepts `f`, returns `pf`;
    `_edifify_netlist` (naming phase for any `make_valid`, ordering phase for any fuel ≥ 1 and any order of the
    dependency sets) leaves `pf` unchanged; the writer's text for `pf` is accepted again and read back as `pf` itself
    when the time stamps agree (same view, libraries and top instance otherwise). -/
theorem compose_after_parse (mk : Data → Str) (fuel : Nat) (n : CNetlist) (prog ver : Option Str) (t : CInst) (li di : Nat)
    (y mo d h mi s y' mo' d' h' mi' s' : Nat) (hwf : WFNet n prog ver t li di) :
    ∃ f pf, composeE [y, mo, d, h, mi, s] n = .ok f ∧ readEdif f = .ok pf ∧ EdififyFixed mk fuel pf ∧
      ∃ f' pcpf, composeE [y', mo', d', h', mi', s'] pf = .ok f' ∧ readEdif f' = .ok pcpf ∧
        view03 pcpf = view03 pf ∧ pcpf.libs = pf.libs ∧ pcpf.top = pf.top ∧
        (tsInts y' mo' d' h' mi' s' = tsInts y mo d h mi s → pcpf = pf) := by
  obtain ⟨f, pf, hc, hr, f', pcpf, hc', hr', hv, hl, ht, hts⟩ :=
    parse_compose_parse n prog ver t li di y mo d h mi s y' mo' d' h' mi' s' hwf
  -- `pf` is the image of `n`
  obtain ⟨e, hw, hre⟩ := edif_roundtrip_wf n prog ver t li di y mo d h mi s hwf
  have hclean := toSExp_clean n prog ver t li di y mo d h mi s hwf e hw
  have hf : f = layoutE e := by
    simp only [composeE, hw, bind, Except.bind, pure, Except.pure, Except.ok.injEq] at hc
    exact hc.symm
  have hpf : pf = imgNet n (tsInts y mo d h mi s) prog ver t li di := by
    rw [hf] at hr
    simp only [readEdif, Spydr.Edif.read_lex_layout e hclean] at hr
    rw [hre] at hr
    exact (Except.ok.inj hr).symm
  have hwf' := wfNet_img n (tsInts y mo d h mi s) prog ver t li di hwf
  refine ⟨f, pf, hc, hr, ?_, f', pcpf, hc', hr', hv, hl, ht, hts⟩
  rw [hpf]
  exact ⟨edifify_names_img mk n _ prog ver t li di, topoSort_libs _ _ _ _ _ _ hwf' fuel,
    fun L l hl' => topoSort_defs _ _ _ _ _ _ hwf' L l hl' fuel⟩

/-! non-vacuity: the hypothesis holds for the example netlist of Props/C03.lean (two libraries, a leaf
    cell, an instantiating cell with a bus and a scalar net, properties, a renamed port) -/
namespace Example

example : ∃ f pf, composeE [2026, 9, 27, 8, 5, 3] n0 = .ok f ∧ readEdif f = .ok pf ∧
    ∃ f' pcpf, composeE [2026, 9, 28, 1, 2, 3] pf = .ok f' ∧ readEdif f' = .ok pcpf ∧
      view03 pcpf = view03 pf ∧ pcpf.libs = pf.libs ∧ pcpf.top = pf.top ∧
      (tsInts 2026 9 28 1 2 3 = tsInts 2026 9 27 8 5 3 → pcpf = pf) :=
  parse_compose_parse n0 none none _ 0 1 2026 9 27 8 5 3 2026 9 28 1 2 3 n0_WFNet

example : ∃ e n', toSExp [2026, 9, 27, 8, 5, 3] n0 = .ok e ∧ ofSExp e = .ok n' ∧
    WFNet n' none none (readTop (idOf (nd "top")) (nmOf (nd "top")) 0 1) 0 1 ∧ ScalarLower0 n' :=
  reader_image_closed n0 none none _ 0 1 2026 9 27 8 5 3 n0_WFNet

end Example

end Spydr.Edif.C03
