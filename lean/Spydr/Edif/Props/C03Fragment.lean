/-
  C03 ∧ C05 — `parse_compose_parse` for texts the WRITER DID NOT PRODUCE: every text of the C05 fragment
  (`renderText d`, `d` a well-formed abstract design: references in any letter case, bit nets in any
  order, renames) is accepted, what the reader returns is inside C03's quantifier, the composer's text
  for it is accepted again and the second reading has the same C03 view as the first.
-/
import Spydr.Edif.DenoteClosure2
import Spydr.Edif.DenoteClean
import Spydr.Edif.Props.C03
import Spydr.Edif.Props.C05Denote
namespace Spydr.Edif.C03
open Spydr.Edif

/-- **reader_output_in_quantifier** — closure of the reader's image on the C05 fragment: the netlist the
    reader builds for the text of any well-formed abstract design satisfies `WFNet` (legal identifiers,
    names, distinct siblings ignoring case, references to preceding cells, pins in range and used once,
    scalar cables not named like a bus bit, every bit identifier of every bus legal — gaps included —,
    canonical property dictionaries) and its scalar cables are based at 0. -/
theorem reader_output_in_quantifier (d : ADesign) (h : d.wf = true) :
    ∃ pf, readEdif (renderText d) = .ok pf ∧
      WFNet pf none none (readTop d.top.ident d.top.name d.topLi d.topDi) d.topLi d.topDi ∧ ScalarLower0 pf := by
  refine ⟨d.elab, ?_, wfNet_elab d h, scalarLower0_elab d h⟩
  simp [readEdif, renderText, Spydr.Edif.read_lex_layout (render d) (render_clean d h), ofSExp_render d (design_ok d h)]

/-- **parse_compose_parse_accepted** — `parse(compose(parse f))` has the same C03 view as `parse f` for
    every text `f` of the C05 fragment (not only for `f = compose(n)`): `f` is accepted, `compose(parse f)`
    succeeds and is accepted, and libraries, cells, ports, instances with their references and
    properties, nets with width, base index and every wire's pins, the top design and all original
    names are the same in both readings — whatever the time stamp of the write. -/
theorem parse_compose_parse_accepted (d : ADesign) (h : d.wf = true) (y mo dd hh mi s : Nat) :
    ∃ pf, readEdif (renderText d) = .ok pf ∧
      ∃ f' pcpf, composeE [y, mo, dd, hh, mi, s] pf = .ok f' ∧ readEdif f' = .ok pcpf ∧ view03 pcpf = view03 pf := by
  obtain ⟨pf, hr, hwf, h0⟩ := reader_output_in_quantifier d h
  obtain ⟨f', pcpf, hc, hr', hv⟩ := edif_roundtrip_text pf none none _ d.topLi d.topDi y mo dd hh mi s hwf h0
  exact ⟨pf, hr, f', pcpf, hc, hr', hv⟩

/-- non-vacuity: the example design of Props/C05Denote.lean (references in other letter cases, bus bits
    out of order around a scalar net, a missing bit, renames, typed properties) -/
example : ∃ pf, readEdif (renderText C05.Example.exD) = .ok pf ∧
    ∃ f' pcpf, composeE [2026, 9, 28, 1, 2, 3] pf = .ok f' ∧ readEdif f' = .ok pcpf ∧ view03 pcpf = view03 pf :=
  parse_compose_parse_accepted C05.Example.exD C05.Example.exD_wf 2026 9 28 1 2 3

end Spydr.Edif.C03
