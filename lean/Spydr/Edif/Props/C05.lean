/-
  C05 — the EDIF reader builds exactly the design the file describes.
  Only the property theorems and their non-vacuity examples; proofs are in ../Lemmas*.lean,
  definitions in ../Model*.lean.
-/
import Spydr.Edif.LemmasLex
import Spydr.Edif.LemmasBits
import Spydr.Edif.LemmasPins
namespace Spydr.Edif.C05
open Spydr.Edif

/-- Reading the tokens of any expression followed by any further tokens returns exactly that
    expression and leaves the rest untouched (so the streaming reader and the tree model see the
    same structure on balanced input; what follows `(edif …)` is never looked at). -/
theorem readS_flatten (e : SExp) (r : List Tok) : readS (flattenS e ++ r) = some (e, r) :=
  Spydr.Edif.readS_flatten e r

example : (match readS (lexE "(edif n (net (rename a_3_ \"a[3]\") (joined)))) trailing".toList) with
    | some (e, rest) => e.beq (.list [.atom "edif".toList, .atom "n".toList,
        .list [.atom "net".toList, .list [.atom "rename".toList, .atom "a_3_".toList, .atom "\"a[3]\"".toList],
          .list [.atom "joined".toList]]]) && rest == [Tok.rp, Tok.atom "trailing".toList]
    | none => false) = true := by decide

/-- **multibit_merge** — C05's central sentence.  Any cable (base index, wires); any sub-list of
    its bit nets; any order of them: folding multibit_add_cable's merge step yields ONE bus in
    which every bit present sits at position `index − lower` with exactly its pins, every other
    position is empty, the lower index is the least index present and the last wire the greatest. -/
theorem multibit_merge {P : Type} (base : Nat) (ws : List (List P)) (sub bits : List (Nat × List P))
    (hsub : sub.Sublist (bitNetsOf base ws)) (hperm : bits.Perm sub) (hne : bits ≠ []) :
    ∃ c, foldBits bits = some c ∧
      (∀ b ∈ sub, c.lo ≤ b.1 ∧ c.ws.getD (b.1 - c.lo) [] = b.2) ∧
      (∀ j, j < c.ws.length → (∀ b ∈ sub, b.1 ≠ c.lo + j) → c.ws.getD j [] = []) ∧
      (∃ b ∈ sub, b.1 = c.lo) ∧ (∃ b ∈ sub, b.1 + 1 = c.lo + c.ws.length) :=
  multibit_merge_perm base ws sub bits hsub hperm hne

/-- the same for an arbitrary list of bit nets with pairwise distinct indices -/
theorem multibit_merge_general {P : Type} (bits : List (Nat × List P)) (hne : bits ≠ [])
    (hnd : (bits.map (·.1)).Nodup) :
    ∃ c, foldBits bits = some c ∧ c.ws ≠ [] ∧
      (∀ k, c.bit k = pinsAt bits k) ∧
      (∀ j, j < c.ws.length → c.ws.getD j [] = pinsAt bits (c.lo + j)) ∧
      c.lo ∈ bits.map (·.1) ∧ (∀ i ∈ bits.map (·.1), c.lo ≤ i ∧ i < c.lo + c.ws.length) ∧
      (∃ i ∈ bits.map (·.1), c.lo + c.ws.length = i + 1) :=
  Spydr.Edif.multibit_merge bits hne hnd

/-- the merge step the theorem folds is the one inside the model's `multibit_add_cable` -/
theorem mergeInto_is_mergeBus (ex : CCable) (i : Nat) (ps : List CPin) :
    (mergeInto ex i ps).lower = (mergeBus ⟨ex.lower, ex.wires⟩ i ps).lo ∧
    (mergeInto ex i ps).wires = (mergeBus ⟨ex.lower, ex.wires⟩ i ps).ws ∧
    (mergeInto ex i ps).data = ex.data ∧ (mergeInto ex i ps).scalarFlag = ex.scalarFlag :=
  mergeInto_eq ex i ps

/-- non-vacuity: a four-bit bus based at 4 arriving as bits 6, 4, 7 (bit 5 missing) -/
example : (foldBits [(6, [CPin.port 0 2]), (4, [CPin.port 0 0]), (7, [CPin.port 0 3])]).map
    (fun c => (c.lo, c.ws)) = some (4, [[CPin.port 0 0], [], [CPin.port 0 2], [CPin.port 0 3]]) := by decide

example : [(6, [CPin.port 0 2]), (4, [CPin.port 0 0]), (7, [CPin.port 0 3])].Perm
    [(4, [CPin.port 0 0]), (6, [CPin.port 0 2]), (7, [CPin.port 0 3])] ∧
    [(4, [CPin.port 0 0]), (6, [CPin.port 0 2]), (7, [CPin.port 0 3])].Sublist
      (bitNetsOf 4 [[CPin.port 0 0], [CPin.port 0 1], [CPin.port 0 2], [CPin.port 0 3]]) := by
  constructor
  · decide
  · decide

/-- **name_index_roundtrip** (reader side of the bit-net naming): -/
theorem name_index_ident (ident : Str) (i : Nat) : sepIdent (bitIdent ident i) = (some i, ident) :=
  sepIdent_bitIdent ident i

theorem name_index_name (name : Str) (i : Nat) (c : Char) (r : Str) (hn : name = c :: r) (hc : c ≠ '\\') :
    sepName (bitName name i) = (some i, name) :=
  sepName_bitName name i (bracketAllowed_of_head name i c r hn hc)

example : sepIdent "&_x_12_".toList = (some 12, "&_x".toList) ∧ sepName "_x[12]".toList = (some 12, "_x".toList) ∧
    sepName "q[".toList = (none, "q[".toList) ∧ sepIdent "a_sdn_1_".toList = (some 1, "a_sdn".toList) := by decide

/-- **member_index**: `(portRef (member P k))` ↔ pin `k` of the port that `P` resolves to -/
theorem member_index (cx : DefCtx) (P : Str) (k pi : Nat) (p : CPort)
    (hid : validIdentTok P = true)
    (hf : findIdent (cx.ports.map (·.data)) P = some pi) (hp : cx.ports[pi]? = some p) (hk : k < p.width) :
    parsePortRef cx [A "portref", .list [A "member", .atom P, .atom (natStr k)]] = .ok (.port pi k) :=
  member_index_port cx P k pi p hid hf hp hk

/-- … and with an instanceRef: pin `k` of port `P` of the cell instance `I` references -/
theorem member_index_instance (cx : DefCtx) (P I : Str) (k pi ii li di : Nat) (inst : CInst) (d : CDef) (p : CPort)
    (hP : validIdentTok P = true) (hI : validIdentTok I = true)
    (hfi : findIdent (cx.insts.map (·.data)) I = some ii) (hi : cx.insts[ii]? = some inst)
    (hr : inst.ref = some (li, di)) (hd : (defsOfLib cx.sc li)[di]? = some d)
    (hf : findIdent (d.ports.map (·.data)) P = some pi) (hp : d.ports[pi]? = some p) (hk : k < p.width) :
    parsePortRef cx [A "portref", .list [A "member", .atom P, .atom (natStr k)], .list [A "instanceref", .atom I]]
      = .ok (.inst ii pi k) :=
  member_index_inst cx P I k pi ii li di inst d p hP hI hfi hi hr hd hf hp hk

/-- **resolve_ci**: resolution by EDIF identifier is a case-insensitive lookup — total on declared
    names (any spelling of a declared identifier finds its first carrier) … -/
theorem resolve_ci_declared (sibs : List Data) (i : Nat) (a spelling : Str) (hi : i < sibs.length)
    (ha : identOf sibs[i] = some a) (hs : lower spelling = lower a)
    (hfirst : ∀ j, (hj : j < i) → ∀ b, identOf (sibs[j]'(by omega)) = some b → lower b ≠ lower a) :
    findIdent sibs spelling = some i :=
  findIdent_declared sibs i a spelling hi ha hs hfirst

/-- … nothing is found for an undeclared identifier (all callers — cellRef, libraryRef, portRef,
    instanceRef, design — then reject with `Err.assert`) … -/
theorem resolve_ci_undeclared (sibs : List Data) (spelling : Str)
    (h : ∀ s ∈ sibs, ∀ b, identOf s = some b → lower b ≠ lower spelling) :
    findIdent sibs spelling = none :=
  findIdent_undeclared sibs spelling h

/-- … and whatever is found carries the identifier asked for, ignoring case. -/
theorem resolve_ci_sound (sibs : List Data) (spelling : Str) (i : Nat) (h : findIdent sibs spelling = some i) :
    ∃ (hi : i < sibs.length) (b : Str), identOf sibs[i] = some b ∧ lower b = lower spelling :=
  findIdent_sound sibs spelling i h

example : findIdent [[(kIDENT, .str "Work".toList)], [(kIDENT, .str "LIB2".toList)]] "lib2".toList = some 1 ∧
    findIdent [[(kIDENT, .str "Work".toList)]] "other".toList = none := by decide

end Spydr.Edif.C05
