/-
  C05 — the EDIF reader builds exactly the design the file describes.
  Only the property theorems and their non-vacuity examples; proofs are in ../Lemmas*.lean,
  definitions in ../Model*.lean.
-/
import Spydr.Edif.LemmasLex
import Spydr.Edif.LemmasBits
import Spydr.Edif.LemmasPins
import Spydr.Edif.LemmasNets
import Spydr.Edif.LemmasNet
namespace Spydr.Edif.C05
open Spydr.Edif

/-- Reading the tokens of any expression followed by any further tokens returns exactly that
    expression and leaves the rest untouched (so the streaming reader and the tree model see the
    same structure on balanced input; what follows `(edif …)` is never looked at). -/
theorem readS_flatten (e : SExp) (r : List Tok) : readS (flattenS e ++ r) = some (e, r) :=
  Spydr.Edif.readS_flatten e r

example : (match readS (lexE "(edif n (net (rename a_3_ \"a[3]\") (joined)))) trailing".toList) with
    | some (e, rest) => e.beq (.list [.atom "edif".toList, .atom "n".toList,
        .list [.atom "net".toList, .list [.atom "rename".toList, .atom "a_3_".toList, .atom "\"a[3]\"".toList],
          .list [.atom "joined".toList]]]) && rest == [Tok.rp, Tok.atom "trailing".toList]
    | none => false) = true := by decide +kernel

/-- **multibit_merge** — C05's central sentence.  Any cable (base index, wires); any sub-list of
    its bit nets; any order of them: folding multibit_add_cable's merge step yields ONE bus in
    which every bit present sits at position `index − lower` with exactly its pins, every other
    position is empty, the lower index is the least index present and the last wire the greatest. -/
theorem multibit_merge {P : Type} (base : Nat) (ws : List (List P)) (sub bits : List (Nat × List P))
    (hsub : sub.Sublist (bitNetsOf base ws)) (hperm : bits.Perm sub) (hne : bits ≠ []) :
    ∃ c, foldBits bits = some c ∧
      (∀ b ∈ sub, c.lo ≤ b.1 ∧ b.1 < c.lo + c.ws.length ∧ c.ws.getD (b.1 - c.lo) [] = b.2) ∧
      (∀ j, j < c.ws.length → (∀ b ∈ sub, b.1 ≠ c.lo + j) → c.ws.getD j [] = []) ∧
      (∃ b ∈ sub, b.1 = c.lo) ∧ (∃ b ∈ sub, b.1 + 1 = c.lo + c.ws.length) :=
  multibit_merge_perm base ws sub bits hsub hperm hne

/-- the same for an arbitrary list of bit nets with pairwise distinct indices -/
theorem multibit_merge_general {P : Type} (bits : List (Nat × List P)) (hne : bits ≠ [])
    (hnd : (bits.map (·.1)).Nodup) :
    ∃ c, foldBits bits = some c ∧ c.ws ≠ [] ∧
      (∀ k, c.bit k = pinsAt bits k) ∧
      (∀ j, j < c.ws.length → c.ws.getD j [] = pinsAt bits (c.lo + j)) ∧
      c.lo ∈ bits.map (·.1) ∧ (∀ i ∈ bits.map (·.1), c.lo ≤ i ∧ i < c.lo + c.ws.length) ∧
      (∃ i ∈ bits.map (·.1), c.lo + c.ws.length = i + 1) :=
  Spydr.Edif.multibit_merge bits hne hnd

/-- the merge step the theorem folds is the one inside the model's `multibit_add_cable` -/
theorem mergeInto_is_mergeBus (ex : CCable) (i : Nat) (ps : List CPin) :
    (mergeInto ex i ps).lower = (mergeBus ⟨ex.lower, ex.wires⟩ i ps).lo ∧
    (mergeInto ex i ps).wires = (mergeBus ⟨ex.lower, ex.wires⟩ i ps).ws ∧
    (mergeInto ex i ps).data = ex.data ∧ (mergeInto ex i ps).scalarFlag = ex.scalarFlag :=
  mergeInto_eq ex i ps

/-- non-vacuity: a four-bit bus based at 4 arriving as bits 6, 4, 7 (bit 5 missing) -/
example : (foldBits [(6, [CPin.port 0 2]), (4, [CPin.port 0 0]), (7, [CPin.port 0 3])]).map
    (fun c => (c.lo, c.ws)) = some (4, [[CPin.port 0 0], [], [CPin.port 0 2], [CPin.port 0 3]]) := by decide

example : [(6, [CPin.port 0 2]), (4, [CPin.port 0 0]), (7, [CPin.port 0 3])].Perm
    [(4, [CPin.port 0 0]), (6, [CPin.port 0 2]), (7, [CPin.port 0 3])] ∧
    [(4, [CPin.port 0 0]), (6, [CPin.port 0 2]), (7, [CPin.port 0 3])].Sublist
      (bitNetsOf 4 [[CPin.port 0 0], [CPin.port 0 1], [CPin.port 0 2], [CPin.port 0 3]]) := by
  constructor
  · decide
  · decide

/-- **name_index_roundtrip** (reader side of the bit-net naming): -/
theorem name_index_ident (ident : Str) (i : Nat) : sepIdent (bitIdent ident i) = (some i, ident) :=
  sepIdent_bitIdent ident i

theorem name_index_name (name : Str) (i : Nat) (c : Char) (r : Str) (hn : name = c :: r) (hc : c ≠ '\\') :
    sepName (bitName name i) = (some i, name) :=
  sepName_bitName name i (bracketAllowed_of_head name i c r hn hc)

example : sepIdent "&_x_12_".toList = (some 12, "&_x".toList) ∧ sepName "_x[12]".toList = (some 12, "_x".toList) ∧
    sepName "q[".toList = (none, "q[".toList) ∧ sepIdent "a_sdn_1_".toList = (some 1, "a_sdn".toList) := by decide

/-- **member_index**: `(portRef (member P k))` ↔ pin `k` of the port that `P` resolves to -/
theorem member_index (cx : DefCtx) (P : Str) (k pi : Nat) (p : CPort)
    (hid : validIdentTok P = true)
    (hf : findIdent (cx.ports.map (·.data)) P = some pi) (hp : cx.ports[pi]? = some p) (hk : k < p.width) :
    parsePortRef cx [A "portref", .list [A "member", .atom P, .atom (natStr k)]] = .ok (.port pi k) :=
  member_index_port cx P k pi p hid hf hp hk

/-- … and with an instanceRef: pin `k` of port `P` of the cell instance `I` references -/
theorem member_index_instance (cx : DefCtx) (P I : Str) (k pi ii li di : Nat) (inst : CInst) (d : CDef) (p : CPort)
    (hP : validIdentTok P = true) (hI : validIdentTok I = true)
    (hfi : findIdent (cx.insts.map (·.data)) I = some ii) (hi : cx.insts[ii]? = some inst)
    (hr : inst.ref = some (li, di)) (hd : (defsOfLib cx.sc li)[di]? = some d)
    (hf : findIdent (d.ports.map (·.data)) P = some pi) (hp : d.ports[pi]? = some p) (hk : k < p.width) :
    parsePortRef cx [A "portref", .list [A "member", .atom P, .atom (natStr k)], .list [A "instanceref", .atom I]]
      = .ok (.inst ii pi k) :=
  member_index_inst cx P I k pi ii li di inst d p hP hI hfi hi hr hd hf hp hk

/-- **resolve_ci**: resolution by EDIF identifier is a case-insensitive lookup — total on declared
    names (any spelling of a declared identifier finds its first carrier) … -/
theorem resolve_ci_declared (sibs : List Data) (i : Nat) (a spelling : Str) (hi : i < sibs.length)
    (ha : identOf sibs[i] = some a) (hs : lower spelling = lower a)
    (hfirst : ∀ j, (hj : j < i) → ∀ b, identOf (sibs[j]'(by omega)) = some b → lower b ≠ lower a) :
    findIdent sibs spelling = some i :=
  findIdent_declared sibs i a spelling hi ha hs hfirst

/-- … nothing is found for an undeclared identifier (all callers — cellRef, libraryRef, portRef,
    instanceRef, design — then reject with `Err.assert`) … -/
theorem resolve_ci_undeclared (sibs : List Data) (spelling : Str)
    (h : ∀ s ∈ sibs, ∀ b, identOf s = some b → lower b ≠ lower spelling) :
    findIdent sibs spelling = none :=
  findIdent_undeclared sibs spelling h

/-- … and whatever is found carries the identifier asked for, ignoring case. -/
theorem resolve_ci_sound (sibs : List Data) (spelling : Str) (i : Nat) (h : findIdent sibs spelling = some i) :
    ∃ (hi : i < sibs.length) (b : Str), identOf sibs[i] = some b ∧ lower b = lower spelling :=
  findIdent_sound sibs spelling i h

example : findIdent [[(kIDENT, .str "Work".toList)], [(kIDENT, .str "LIB2".toList)]] "lib2".toList = some 1 ∧
    findIdent [[(kIDENT, .str "Work".toList)]] "other".toList = none := by decide

/-- the `design` construct selects the top cell: `(design name (cellRef C (libraryRef L)))`, `C`/`L` any
    spellings that resolve (case-insensitively) to cell `di` of library `li`, yields a top instance
    carrying both identifier and original name and referencing exactly that cell (as repaired) -/
theorem design_selects_top (rlibs : List CLib) (tdata : Data) (ident name did lid : Str) (li di : Nat) (l' : CLib)
    (hn : NamedOK tdata ident name) (hvd : validIdentTok did = true) (hvl : validIdentTok lid = true)
    (hfl : findIdent (rlibs.map (·.data)) lid = some li) (hl : rlibs[li]? = some l')
    (hfd : findIdent (l'.defs.map (·.data)) did = some di) :
    ∃ nm, nameSExp tdata "top instance" = .ok nm ∧
      parseDesign rlibs [A "design", nm, .list [A "cellref", .atom did, .list [A "libraryref", .atom lid]]] =
        .ok (readTop ident name li di) :=
  design_roundtrip rlibs tdata ident name did lid li di l' hn hvd hvl hfl hl hfd

/-- cellRef / libraryRef / viewRef of an instance, in any spelling that resolves, select cell `(li, di)` -/
theorem viewRef_resolves (sc : Scope) (D : Data) (did lid : Str) (li di : Nat) (d' : CDef) (dv : Str)
    (hvd : validIdentTok did = true) (hvl : validIdentTok lid = true) (hres : LibResolves sc lid li)
    (hf : findIdent ((defsOfLib sc li).map (·.data)) did = some di)
    (hd : (defsOfLib sc li)[di]? = some d') (hview : viewIdentOf d'.data = some dv) (hdv : lower dv = S "netlist") :
    parseViewRef sc { data := D, pfx := [S "EDIF"] }
      [A "viewref", A "netlist", .list [A "cellref", .atom did, .list [A "libraryref", .atom lid]]] = .ok (li, di) :=
  parseViewRef_ok sc D did lid li di d' dv hvd hvl hres hf hd hview hdv

/-- renamed objects carry both identifier and original name: `(rename id "orig")` on a fresh element -/
theorem rename_carries_both (d0 : Data) (ident name : Str) (hc : checkEdifIdentifier ident = true)
    (hs : name.all isStringChar = true) (hd0 : d0.has kNAME = false) :
    ∃ m, parseRename { data := d0, pfx := [S "EDIF"] } [A "rename", .atom ident, qtok name] = .ok m ∧
      nameOf m.data = some name ∧ identOf m.data = some ident :=
  ⟨_, parseRename_ok d0 ident name hc hs hd0, nameOf_withName _ _ _, identOf_withName _ _ _⟩

/-!
### edif_reader_spec

Full statement (C05, stretch goal of DESIGN §6):

    theorem edif_reader_spec (d : ADesign) (h : d.wf = true) :
        ∃ n, readEdif (renderText d) = .ok n ∧ view05 n = denote d

It is PROVED for a first fragment in `Props/C05Denote.lean` (definitions in `Abstract.lean`): libraries,
cells, ports (direction, array size, rename), instances whose viewRef / cellRef / libraryRef are
spelled in any letter case with typed properties, scalar nets and bus-bit nets in any order with any
bits missing, pin references in any letter case, the design construct.  Outside the fragment (covered
by the correspondence check and by P on the implementation): keyword spellings, comments, status
blocks, external libraries, properties on objects other than instances, instances after nets, a bit
net whose identifier index differs from its name index, repeated bit nets.

The theorems of this file are the construct-level statements it is assembled from: the NET part on the
reader's own `multibit_add_cable` (`nets_any_order`), references construct by construct
(`member_index`, `member_index_instance`, `resolve_ci_*`), tokens (`readS_flatten`, C03.`lex_layout`).
-/

/-- **edif_reader_spec_partial / nets_any_order** — for every well-formed list of nets of a cell
    (scalar nets and bit nets `name[i]`/`id_i_` of any number of buses, interleaved in any order,
    any bits missing) the reader's net loop (`parse_net` results fed to `multibit_add_cable`) succeeds
    and every bus whose bit indices are pairwise distinct ends up as ONE cable with bit `k` at
    position `k − lower` carrying exactly the pins the text gives for index `k`, gaps empty. -/
theorem edif_reader_spec_partial (items : List NetItem) (hwf : NetsWF items) :
    ∃ cs, items.foldlM (fun cs it => multibitAdd cs it.data it.pins) [] = .ok cs ∧
      ∀ it ∈ items, ∀ i, it.idx = some i → ((bitsOf it.name items).map (·.1)).Nodup →
        ∃ c, busOf it.name cs = some c ∧ c.ws ≠ [] ∧
          (∀ k, c.bit k = pinsAt (bitsOf it.name items) k) ∧
          (∀ j, j < c.ws.length → c.ws.getD j [] = pinsAt (bitsOf it.name items) (c.lo + j)) ∧
          c.lo ∈ (bitsOf it.name items).map (·.1) ∧
          (∀ x ∈ (bitsOf it.name items).map (·.1), c.lo ≤ x ∧ x < c.lo + c.ws.length) ∧
          (∃ x ∈ (bitsOf it.name items).map (·.1), c.lo + c.ws.length = x + 1) :=
  nets_any_order items hwf

/-- … every SCALAR net of the list survives as the one-wire cable of its name with exactly its pins,
    wherever it stands among the bit nets … -/
theorem edif_reader_spec_scalars (items : List NetItem) (hwf : NetsWF items) (it : NetItem) (hit : it ∈ items)
    (hidx : it.idx = none) : busOf it.name (items.foldl netStep []) = some ⟨0, [it.pins]⟩ :=
  scalar_survives items hwf it hit hidx

/-- … and there is exactly one cable per declared (cable-level) name: the resulting names are pairwise
    different and are exactly the names the nets declare (so the number of cables is the number of
    distinct names).  `items.foldl netStep []` is the value the reader's loop returns
    (`reader_loop_is_netStep`). -/
theorem edif_reader_spec_names (items : List NetItem) (hwf : NetsWF items) :
    (cableNames (items.foldl netStep [])).Nodup ∧
    (∀ x ∈ items, some x.name ∈ cableNames (items.foldl netStep [])) ∧
    (∀ o ∈ cableNames (items.foldl netStep []), ∃ x ∈ items, o = some x.name) :=
  one_cable_per_name items hwf

theorem reader_loop_is_netStep (items : List NetItem) (hwf : NetsWF items) :
    items.foldlM (fun cs it => multibitAdd cs it.data it.pins) [] = .ok (items.foldl netStep []) :=
  foldlM_multibitAdd items hwf [] items [] rfl (by intro c hc; cases hc)

/-!
Scope of `NetsWF` (and so of the three theorems above): nets with the same cable-level name are bits
of one bus with one identifier stem, different names have identifiers that differ ignoring case, a
scalar net is declared once and is not named like a bus bit.  Outside it — a scalar net carrying the
name of a bus assembled from bit nets, two buses sharing an identifier stem (`foo_0_ "x[0]"`,
`foo_1_ "y[1]"`), a net declared twice under one name — the reader's result depends on the order of
the nets (pinned findings `edif.reader.scalar_net_shorted_to_bus`, `edif.reader.bus_identity_by_identifier_stem`)
and the model's `multibitAdd` answers `Err.unsupported` on the ValueError fallback.
`multibit_merge` states positions with `getD … []` together with `lower ≤ index < lower + length`.
-/

/-- non-vacuity: bus `a` arrives as bits 2, 0, 3 (bit 1 missing), interleaved with a scalar net `clk`
    and a bit of another bus; the reader's loop yields cable `a` based at 0 with four wires -/
def exItems : List NetItem :=
  [⟨"a".toList, "a".toList, some 2, [.port 0 2], 2⟩, ⟨"clk".toList, "clk".toList, none, [.port 1 0], 0⟩,
   ⟨"a".toList, "a".toList, some 0, [.port 0 0], 9⟩, ⟨"&_b".toList, "_b".toList, some 5, [], 5⟩,
   ⟨"a".toList, "a".toList, some 3, [.port 0 3], 3⟩]

example : (match exItems.foldlM (fun cs it => multibitAdd cs it.data it.pins) [] with
    | .ok cs => (busOf "a".toList cs).map (fun c => (c.lo, c.ws)) ==
        some (0, [[CPin.port 0 0], [], [CPin.port 0 2], [CPin.port 0 3]]) && cs.length == 3
    | .error _ => false) = true := by decide +kernel

example : NetsWF exItems := by
  refine ⟨?_, ?_, ?_, ?_⟩
  · intro it hit
    simp only [exItems, List.mem_cons, List.not_mem_nil, or_false] at hit
    rcases hit with rfl | rfl | rfl | rfl | rfl <;> refine ⟨by decide, by decide, by decide +kernel⟩
  · intro a ha b hb
    simp only [exItems, List.mem_cons, List.not_mem_nil, or_false] at ha hb
    rcases ha with rfl | rfl | rfl | rfl | rfl <;> rcases hb with rfl | rfl | rfl | rfl | rfl <;> decide
  · intro a ha b hb
    simp only [exItems, List.mem_cons, List.not_mem_nil, or_false] at ha hb
    rcases ha with rfl | rfl | rfl | rfl | rfl <;> rcases hb with rfl | rfl | rfl | rfl | rfl <;> decide
  · decide

end Spydr.Edif.C05
