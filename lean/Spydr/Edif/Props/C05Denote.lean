/-
  C05 — `edif_reader_spec` for a first fragment: the reader applied to the text of an abstract design
  builds exactly the design the text describes.  Only the property theorems and a non-vacuity example;
  definitions (`ADesign`, `render`, `denote`, `view05`, `wf`) are in ../Abstract.lean, proofs in
  ../Denote*.lean.
-/
import Spydr.Edif.DenoteView
import Spydr.Edif.DenoteClean
namespace Spydr.Edif.C05
open Spydr.Edif

/-- **edif_reader_spec** (fragment, from characters): for every abstract design satisfying the decidable
    well-formedness predicate `wf` — libraries, cells with ports (direction, array size, rename),
    instances whose viewRef / cellRef / libraryRef are spelled in ANY letter case and carry typed
    properties, scalar nets and bus-bit nets in ANY order with any bits missing, pin references
    `(portRef p)`, `(portRef (member p k))`, with or without `(instanceRef i)`, spelled in any letter
    case, a design construct selecting the top cell — the model reader (tokenizer `lexE`, s-expression
    reader `readS`, `ofSExp`) accepts the text `renderText d` and the netlist it builds has exactly
    the view the design denotes: every library, cell, port (name, identifier, direction, width,
    array-ness), instance (name, identifier, referenced (library, cell), property dictionaries), cable
    (name, identifier, array-ness, base index, every wire's pins in order; one cable per bus, bit `k`
    at `k − lower`, gaps unconnected, in order of first occurrence) and the top instance. -/
theorem edif_reader_spec (d : ADesign) (h : d.wf = true) :
    ∃ n, readEdif (renderText d) = .ok n ∧ view05 n = denote d := by
  refine ⟨d.elab, ?_, view05_elab d h⟩
  simp [readEdif, renderText, read_lex_layout (render d) (render_clean d h), ofSExp_render d (design_ok d h)]

/-- the same on the s-expression, with the netlist in closed form (`ADesign.elab`: every dictionary) -/
theorem edif_reader_spec_closed_form (d : ADesign) (h : d.wf = true) :
    ofSExp (render d) = .ok d.elab ∧ view05 d.elab = denote d :=
  ⟨ofSExp_render d (design_ok d h), view05_elab d h⟩

/-- what `wf` is used for, made explicit: the statement under the per-cell resolution hypotheses
    `ADesign.OK` (every reference of every cell resolves, in the scope the reader has when it reaches
    the cell, to the position the abstract design names) -/
theorem edif_reader_spec_of_resolution (d : ADesign) (h : d.OK) : ofSExp (render d) = .ok d.elab :=
  ofSExp_render d h

/-- `wf` implies those hypotheses -/
theorem wf_resolves (d : ADesign) (h : d.wf = true) : d.OK := design_ok d h

/-- **edif_reader_spec_contents** — `edif_reader_spec_partial` stated on the reader's contents loop, pins
    going through `parse_portRef`: for any cell state `st` without cables (its ports and instances are
    what the pin references are resolved against) and any well-formed list of `(net …)` constructs
    whose pin references resolve in that state, the loop `contentsItem` over the rendered nets — each
    one through `parse_net`, every `(portRef …)` through `parse_portRef`, `multibit_add_cable` for the
    result — succeeds, consumes everything, touches nothing but the cables, and ends with exactly the
    cables the text declares (`cablesDen`): one per cable name in order of first occurrence, a scalar
    net as a one-wire cable at 0, the bit nets of a bus — in any order, anything in between, any bits
    missing — as one array cable based at the least index with bit `k` at `k − lower`. -/
theorem edif_reader_spec_contents (sc : Scope) (st : CellSt) (nets : List ANet) (hst : st.cables = [])
    (hnets : netsOKB nets = true)
    (hp : ∀ n ∈ nets, ∀ pin ∈ n.pins, pin.Resolves { sc := sc, ports := st.ports, insts := st.insts }) :
    ∃ cs, loopC (contentsItem sc) st (nets.map ANet.sexp) = .ok ({ st with cables := cs }, []) ∧
      cs.map view05Cable = cablesDen nets := by
  have hkinds : ∀ n ∈ nets, n.kind.okB = true := by
    have := hnets
    simp only [netsOKB, Bool.and_eq_true, List.all_eq_true] at this
    exact this.1.1.1
  obtain ⟨yss, hy, hf⟩ := foldlM_contents_ANets sc nets st hkinds hp
  have hwf := netsWF_of_okB nets hnets
  have hfold := foldlM_multibitAdd (nets.map ANet.item) hwf [] (nets.map ANet.item) [] rfl (by intro x hx; cases hx)
  refine ⟨(nets.map ANet.item).foldl netStep [], ?_, cables_view nets hnets⟩
  rw [hy, loopC_lists_nil, hf, hst, hfold]
  rfl

/-- one pin reference through `parse_portRef` -/
theorem portRef_resolves (cx : DefCtx) (pin : APin) (h : pin.Resolves cx) :
    ∃ r, pin.sexp = .list (A "portref" :: r) ∧ parsePortRef cx (A "portref" :: r) = .ok pin.pin :=
  parsePortRef_APin cx pin h

/-! ### non-vacuity: a design with two libraries, a leaf cell with an array port, a renamed scalar port,
    a top cell instantiating the leaf twice through references in other letter cases, a bus whose
    bits come out of order around a scalar net with a missing bit, typed properties, a renamed top -/
namespace Example

def S' (s : String) : Str := s.toList

def leaf : ACell :=
  { name := ⟨S' "BUF", none⟩, view := S' "netlist",
    ports := [⟨⟨S' "i", none⟩, .inp, none⟩, ⟨⟨S' "o_2_", some (S' "o[2]")⟩, .out, none⟩, ⟨⟨S' "d", none⟩, .inout, some 2⟩] }

def top : ACell :=
  { name := ⟨S' "top", some (S' "Top Cell")⟩, view := S' "netlist",
    ports := [⟨⟨S' "a", none⟩, .inp, some 3⟩, ⟨⟨S' "y", none⟩, .out, none⟩],
    insts := [⟨⟨S' "u1", none⟩, 0, 0, S' "NETLIST", S' "buf", S' "PRIMS",
                [⟨⟨S' "INIT", none⟩, .str (S' "8'h00")⟩, ⟨⟨S' "w", some (S' "W x")⟩, .int (-3)⟩], false⟩,
              ⟨⟨S' "u2", some (S' "u[2]")⟩, 0, 0, S' "netlist", S' "Buf", S' "prims", [⟨⟨S' "keep", none⟩, .bool true⟩], false⟩],
    nets := [⟨.bit (S' "n") (S' "n") 3 3, [.port 0 (some 2) (S' "A"), .inst 0 2 (some 1) (S' "D") (S' "U1")]⟩,
             ⟨.scalar ⟨S' "s", some (S' "s net")⟩, [.port 1 none (S' "Y"), .inst 1 1 none (S' "O_2_") (S' "U2")]⟩,
             ⟨.bit (S' "n") (S' "n") 1 7, [.port 0 (some 0) (S' "a"), .inst 0 0 none (S' "I") (S' "u1")]⟩,
             ⟨.bit (S' "m") (S' "m") 0 0, [.inst 1 0 none (S' "i") (S' "u2")]⟩] }

/-- a second cell of library `work`: instantiates `top` of the same library without `(libraryRef …)` -/
def top2 : ACell :=
  { name := ⟨S' "wrap", none⟩, view := S' "netlist",
    insts := [⟨⟨S' "t", none⟩, 1, 0, S' "netlist", S' "TOP", S' "work", [], true⟩] }

def exD : ADesign :=
  { name := ⟨S' "demo", none⟩,
    libs := [⟨⟨S' "prims", none⟩, [leaf], true⟩, ⟨⟨S' "work", some (S' "work lib")⟩, [top, top2], false⟩],
    top := ⟨S' "top_i", some (S' "the top")⟩, topLi := 1, topDi := 0, topCellSp := S' "TOP", topLibSp := S' "Work" }

theorem exD_wf : exD.wf = true := by decide +kernel

/-- the reader accepts the text of the example and builds what it denotes -/
example : ∃ n, readEdif (renderText exD) = .ok n ∧ view05 n = denote exD := edif_reader_spec exD exD_wf

/-- what it denotes for bus `n`: bits 1 and 3 declared (3 first), so one array cable based at 1 of
    three wires, the middle one unconnected; it is the first cable of the cell -/
example : ((denote exD).libs.getD 1 ⟨none, none, [], false⟩).cells.head?.map (fun c => c.cables.head?) =
    some (some ⟨some (S' "n"), some (S' "n"), true, 1,
      [[.port 0 0, .inst 0 0 0], [], [.port 0 2, .inst 0 2 1]]⟩) := by rfl

end Example

end Spydr.Edif.C05
