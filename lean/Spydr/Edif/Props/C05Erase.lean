/-
  C05 — the ERASURE theorem: comments, status blocks and the properties of everything but instances are
  invisible in the view C05 speaks about (`view05`).

  `strip e` removes from the s-expression of a file
    * every `(comment …)` item of the file, of a library, a cell, a view, an interface, a contents block,
      a port, an instance, a net;
    * every `(status …)` block of the file, of a library, a cell, a view;
    * every `(property …)` of a cell, a view, an interface, a port, a net, and whatever follows the
      `cellRef` inside `(design …)` (the design's properties and comments — the reader skips them);
    * the `(owner …)` of an instance property (the reader checks it and stores nothing) and the original
      name of a renamed view (`(view (rename v "o") …)` → `(view v …)`: stored under a key nothing reads);
    * a `(contents …)` block holding nothing but comments;
  and it writes in one spelling what the reader reads in several and does not keep: `(cellType X)` → `(celltype GENERIC)`,
  `(viewType X)` → `(viewtype NETLIST)` (the keyword's spelling is stored under `EDIF.cellType` / `EDIF.view.viewType`, which
  `view05` does not show; the value is only checked), `(direction input)` → `(direction INPUT)`;
  it keeps the properties of instances (they are part of `view05`).

  DIRECTION PROVED: whatever the reader makes of `e`, it makes of `strip e` a netlist with the same
  view.  Acceptance of `e` is a hypothesis (a malformed comment or status block makes the reader reject
  a file whose stripped form it accepts; the converse direction would need a well-formedness predicate
  on the erased items and is not proved).

  What `view05` does not show (so the theorem is silent about it): the dictionary entries the erased
  constructs leave behind (`EDIF.comments`, `EDIF.status.…`, `EDIF.properties` of ports / cables / cells /
  libraries / the netlist, `EDIF.view.comments|properties|status.…`), `cellType`, `viewType`, `edifVersion`,
  `edifLevel`, `keywordMap`, `metadata_prefix`.
  No Mathlib.
-/
import Spydr.Edif.Erase7
import Spydr.Edif.Props.C05Kw
import Spydr.Edif.Props.Fragment
import Spydr.Edif.Unrender
namespace Spydr.Edif.C05

/-- **edif_erasure** — for EVERY s-expression `e` the reader accepts, it accepts `strip e` too and the two
    netlists have the same view (names, identifiers, directions, widths, array flags, instance references
    and properties, cables with their wires and pins, view identifiers, the top instance). -/
theorem edif_erasure (e : SExp) (n : CNetlist) (h : ofSExp e = .ok n) :
    ∃ n', ofSExp (strip e) = .ok n' ∧ view05 n = view05 n' := by
  obtain ⟨n', h1, h2⟩ := ofSExp_strip e n h
  exact ⟨n', h1, view05_rel h2⟩

/-- … stated on the two netlists key by key: every dictionary agrees on the keys `view05` reads (`KO`: name,
    identifier, view identifier; `KI` for instances: those plus the property keys), every other field
    is equal -/
theorem edif_erasure_rel (e : SExp) (n : CNetlist) (h : ofSExp e = .ok n) :
    ∃ n', ofSExp (strip e) = .ok n' ∧ RelNet n n' := ofSExp_strip e n h

/-- … from characters -/
theorem edif_erasure_text (text : List Char) (n : CNetlist) (h : readEdif text = .ok n) :
    ∃ e r n', readS (lexE text) = some (e, r) ∧ ofSExp (strip e) = .ok n' ∧ view05 n = view05 n' := by
  unfold readEdif at h
  split at h
  · rename_i e r he
    obtain ⟨n', h1, h2⟩ := edif_erasure e n h
    exact ⟨e, r, n', he, h1, h2⟩
  · cases h

/-- **edif_reader_spec_erased** — `edif_reader_spec` for files WITH comments, status blocks and erased
    properties, keywords in any letter case: if the reader accepts `e`, and `strip e` agrees with the
    rendering of a well-formed abstract design `d` up to the letter case of keywords, then the view of
    what the reader built is the denotation of `d`. -/
theorem edif_reader_spec_erased (d : ADesign) (hwf : d.wf = true) (e : SExp) (n : CNetlist)
    (hacc : ofSExp e = .ok n) (he : norm (strip e) = norm (render d)) : view05 n = denote d := by
  obtain ⟨n', h1, h2⟩ := edif_erasure e n hacc
  obtain ⟨h3, h4⟩ := edif_reader_spec_kwcase d hwf (strip e) he
  rw [h1] at h3
  cases h3
  exact h2.trans h4

/-- … from characters -/
theorem edif_reader_spec_erased_text (d : ADesign) (hwf : d.wf = true) (text : List Char) (n : CNetlist)
    (hacc : readEdif text = .ok n) (e : SExp) (r : List Tok) (hp : readS (lexE text) = some (e, r))
    (he : norm (strip e) = norm (render d)) : view05 n = denote d := by
  unfold readEdif at hacc
  rw [hp] at hacc
  exact edif_reader_spec_erased d hwf e n hacc he

/-- **the evidence counter is sound**: when the driver's check `insideClause e` answers `none` ("inside"), the reader
    accepts `e` and the view of what it builds is the denotation of an abstract design — whatever the untrusted
    `unrender` guessed, the check has established the hypotheses of `edif_reader_spec_erased` -/
theorem inside_check_sound (e : SExp) (h : Unr.insideClause e = none) :
    ∃ n d, ofSExp e = .ok n ∧ d.wf = true ∧ norm (strip e) = norm (render d) ∧ view05 n = denote d := by
  unfold Unr.insideClause at h
  split at h
  · cases h
  · rename_i n hn
    split at h
    · cases h
    · rename_i d hd
      split at h
      · cases h
      · rename_i hb
        split at h
        · cases h
        · rename_i hwf
          have hb' : (norm (strip e)).beq (norm (render d)) = true := by
            cases hx : (norm (strip e)).beq (norm (render d)) with
            | true => rfl
            | false => rw [hx] at hb; exact absurd rfl hb
          have he := Unr.beq_sound _ _ hb'
          have hw := wfClause_sound d hwf
          exact ⟨n, d, hn, hw, he, edif_reader_spec_erased d hw e n hn he⟩

namespace ErasureExample

def isOk {α : Type} : R α → Bool
  | .ok _ => true
  | .error _ => false

abbrev L (xs : List SExp) : SExp := .list xs

/-- a file with a status block, comments and properties in every place `strip` visits (no net: the
    duplicate-pin check sorts with `mergeSort`, which the kernel does not evaluate):
```
    (edif demo (edifVersion 2 0 0) (edifLevel 0) (keywordMap (keywordLevel 0))
     (status (written (timeStamp 2020 1 1 0 0 0) (program "p" (version "1")) (comment "w")))
     (comment "top" "two")
     (library prims (edifLevel 0) (technology (numberDefinition))
      (status (written (timeStamp 1 2 3 4 5 6))) (comment "lib")
      (cell BUF (cellType GENERIC)
       (status (written (timeStamp 1 2 3 4 5 6))) (comment "cell") (property cp (integer 3) (owner "me"))
       (view (rename netlist "the view") (viewType NETLIST)
        (interface (port i (direction INPUT) (property pp (string "x")) (comment "port"))
         (comment "iface") (property ip (boolean (true))))
        (status (written (timeStamp 1 2 3 4 5 6))) (comment "view") (property vp (integer 1))
        (contents (comment "in contents")))))
     (library work (edifLevel 0) (technology (numberDefinition))
      (cell top (cellType GENERIC)
       (view netlist (viewType NETLIST)
        (interface (port a (direction input)))
        (contents (comment "before")
         (instance u1 (viewRef netlist (cellRef BUF (libraryRef prims)))
          (comment "inst") (property INIT (string "8'h00") (owner "o")))))))
     (design top_i (cellRef top (libraryRef work)) (property dp (string "d")) (comment "design")))
``` -/
def noisy : SExp :=
  L [A "edif",
    A "demo",
    L [A "edifVersion", A "2", A "0", A "0"],
    L [A "edifLevel", A "0"],
    L [A "keywordMap", L [A "keywordLevel", A "0"]],
    L [A "status",
      L [A "written",
        L [A "timeStamp", A "2020", A "1", A "1", A "0", A "0", A "0"],
        L [A "program", A "\"p\"", L [A "version", A "\"1\""]],
        L [A "comment", A "\"w\""]]],
    L [A "comment", A "\"top\"", A "\"two\""],
    L [A "library",
      A "prims",
      L [A "edifLevel", A "0"],
      L [A "technology", L [A "numberDefinition"]],
      L [A "status", L [A "written", L [A "timeStamp", A "1", A "2", A "3", A "4", A "5", A "6"]]],
      L [A "comment", A "\"lib\""],
      L [A "cell",
        A "BUF",
        L [A "cellType", A "GENERIC"],
        L [A "status", L [A "written", L [A "timeStamp", A "1", A "2", A "3", A "4", A "5", A "6"]]],
        L [A "comment", A "\"cell\""],
        L [A "property", A "cp", L [A "integer", A "3"], L [A "owner", A "\"me\""]],
        L [A "view",
          L [A "rename", A "netlist", A "\"the view\""],
          L [A "viewType", A "NETLIST"],
          L [A "interface",
            L [A "port",
              A "i",
              L [A "direction", A "INPUT"],
              L [A "property", A "pp", L [A "string", A "\"x\""]],
              L [A "comment", A "\"port\""]],
            L [A "comment", A "\"iface\""],
            L [A "property", A "ip", L [A "boolean", L [A "true"]]]],
          L [A "status", L [A "written", L [A "timeStamp", A "1", A "2", A "3", A "4", A "5", A "6"]]],
          L [A "comment", A "\"view\""],
          L [A "property", A "vp", L [A "integer", A "1"]],
          L [A "contents", L [A "comment", A "\"in contents\""]]]]],
    L [A "library",
      A "work",
      L [A "edifLevel", A "0"],
      L [A "technology", L [A "numberDefinition"]],
      L [A "cell",
        A "top",
        L [A "cellType", A "GENERIC"],
        L [A "view",
          A "netlist",
          L [A "viewType", A "NETLIST"],
          L [A "interface", L [A "port", A "a", L [A "direction", A "input"]]],
          L [A "contents",
            L [A "comment", A "\"before\""],
            L [A "instance",
              A "u1",
              L [A "viewRef", A "netlist", L [A "cellRef", A "BUF", L [A "libraryRef", A "prims"]]],
              L [A "comment", A "\"inst\""],
              L [A "property", A "INIT", L [A "string", A "\"8'h00\""], L [A "owner", A "\"o\""]]]]]]],
    L [A "design",
      A "top_i",
      L [A "cellRef", A "top", L [A "libraryRef", A "work"]],
      L [A "property", A "dp", L [A "string", A "\"d\""]],
      L [A "comment", A "\"design\""]]]

/-- the same file without them -/
def core : SExp :=
  L [A "edif",
    A "demo",
    L [A "edifVersion", A "2", A "0", A "0"],
    L [A "edifLevel", A "0"],
    L [A "keywordMap", L [A "keywordLevel", A "0"]],
    L [A "library",
      A "prims",
      L [A "edifLevel", A "0"],
      L [A "technology", L [A "numberDefinition"]],
      L [A "cell",
        A "BUF",
        L [A "celltype", A "GENERIC"],
        L [A "view",
          A "netlist",
          L [A "viewtype", A "NETLIST"],
          L [A "interface", L [A "port", A "i", L [A "direction", A "INPUT"]]]]]],
    L [A "library",
      A "work",
      L [A "edifLevel", A "0"],
      L [A "technology", L [A "numberDefinition"]],
      L [A "cell",
        A "top",
        L [A "celltype", A "GENERIC"],
        L [A "view",
          A "netlist",
          L [A "viewtype", A "NETLIST"],
          L [A "interface", L [A "port", A "a", L [A "direction", A "INPUT"]]],
          L [A "contents",
            L [A "instance",
              A "u1",
              L [A "viewRef", A "netlist", L [A "cellRef", A "BUF", L [A "libraryRef", A "prims"]]],
              L [A "property", A "INIT", L [A "string", A "\"8'h00\""]]]]]]],
    L [A "design", A "top_i", L [A "cellRef", A "top", L [A "libraryRef", A "work"]]]]

/-- non-vacuity: the reader accepts the noisy file … -/
theorem noisy_accepted : isOk (ofSExp noisy) = true := by decide +kernel

/-- … `strip` of it is the core file (and `strip` does remove something) … -/
theorem strip_noisy : strip noisy = core := by rfl

theorem noisy_ne_core : noisy.beq core = false := by decide +kernel

/-- … and the theorem applies: same view with and without the noise -/
example : ∀ n, ofSExp noisy = .ok n → ∃ n', ofSExp core = .ok n' ∧ view05 n = view05 n' :=
  fun n h => strip_noisy ▸ edif_erasure noisy n h

end ErasureExample

end Spydr.Edif.C05
