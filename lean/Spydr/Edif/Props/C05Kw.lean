/-
  C05 — keyword letter case: the reader does not see it (for ANY s-expression), hence `edif_reader_spec`
  holds for the fragment with every construct keyword in ANY letter case, each occurrence on its own.
-/
import Spydr.Edif.Kw5
import Spydr.Edif.Props.C05Denote
namespace Spydr.Edif.C05
open Spydr.Edif

/-- **keyword_case_invisible** — for EVERY s-expression `e`: `ofSExp (norm e) = ofSExp e`, where `norm` lowercases
    the keyword (head atom) of every construct of `e`, at any depth, except the two keywords whose
    spelling the reader stores in the netlist (`cellType`, `viewType`).  Proved function by function on
    arbitrary input (`Kw1–4.lean`: 40 reader functions). -/
theorem keyword_case_invisible (e : SExp) : ofSExp (norm e) = ofSExp e := ofSExp_norm e

/-- two s-expressions that agree up to the letter case of construct keywords get the same result — the same
    netlist or the same error -/
theorem keyword_case_congr (e e' : SExp) (h : norm e' = norm e) : ofSExp e' = ofSExp e := ofSExp_of_norm_eq e e' h

/-- any re-spelling `f` of the keywords that only changes letter case (`lower (f a) = lower a`) and leaves
    `cellType` / `viewType` alone is invisible -/
theorem keyword_respelling_invisible (f : Str → Str) (hf : CaseOnly f) (e : SExp) : ofSExp (recase f e) = ofSExp e :=
  ofSExp_recase f hf e

/-- **edif_reader_spec_kwcase** — `edif_reader_spec` with keywords in any letter case: for every well-formed abstract
    design `d` and EVERY s-expression `e'` that agrees with `render d` up to the letter case of construct
    keywords (each occurrence independently; `cellType` / `viewType` as `render` spells them), the reader
    accepts `e'` and builds exactly the netlist `d.elab`, whose view is the design's denotation. -/
theorem edif_reader_spec_kwcase (d : ADesign) (h : d.wf = true) (e' : SExp) (he : norm e' = norm (render d)) :
    ofSExp e' = .ok d.elab ∧ view05 d.elab = denote d := by
  obtain ⟨h1, h2⟩ := edif_reader_spec_closed_form d h
  exact ⟨(keyword_case_congr (render d) e' he).trans h1, h2⟩

/-- … from characters, for the layout of any such `e'` whose atoms are clean (decidable flag `cleanB`) -/
theorem edif_reader_spec_kwcase_text (d : ADesign) (h : d.wf = true) (e' : SExp) (he : norm e' = norm (render d))
    (hc : e'.cleanB = true) : ∃ n, readEdif (layoutE e') = .ok n ∧ view05 n = denote d := by
  obtain ⟨h1, h2⟩ := edif_reader_spec_kwcase d h e' he
  refine ⟨d.elab, ?_, h2⟩
  simp [readEdif, read_lex_layout e' (cleanB_sound e' hc), h1]

/-- non-vacuity: the example design with every keyword in upper case (`EDIF`, `LIBRARY`, `CELL`, `VIEW`, `INTERFACE`,
    `PORT`, `ARRAY`, `RENAME`, `CONTENTS`, `INSTANCE`, `VIEWREF`, `CELLREF`, `LIBRARYREF`, `PROPERTY`, `NET`, `JOINED`,
    `PORTREF`, `MEMBER`, `INSTANCEREF`, `DESIGN`, …) -/
example : ∃ n, readEdif (layoutE (recase upperKw (render Example.exD))) = .ok n ∧ view05 n = denote Example.exD :=
  edif_reader_spec_kwcase_text Example.exD Example.exD_wf _ (norm_recase upperKw caseOnly_upperKw _) (by decide +kernel)

end Spydr.Edif.C05
