/-
  C05 / C15 — whatever the reader accepts is structurally well-formed, for ANY text.
  Only the property theorems, the witnesses for the clauses that do NOT hold, and non-vacuity examples;
  `StructWF` is in ../StructWF.lean, proofs in ../Struct1.lean … ../Struct3.lean.
-/
import Spydr.Edif.Struct3
import Spydr.Edif.Names3
import Spydr.Edif.LemmasWF
import Spydr.Edif.Props.C05Denote
namespace Spydr.Edif.C05
open Spydr.Edif

/-- **reader_accepts_wellformed** — for EVERY text on which the MODEL reader answers with a netlist (no other
    hypothesis; inputs on which the model answers `Err.unsupported` — e.g. a net declared twice, which the real
    reader accepts through its `ValueError` fallback — are outside the statement): if the model reader — tokenizer
    `lexE`, s-expression reader `readS`, `ofSExp` — returns a netlist, that netlist satisfies the decidable
    predicate `StructWF`:
      * libraries, the definitions of each library, and the ports, instances and cables of each
        definition carry pairwise different EDIF identifiers ignoring letter case and pairwise
        different names;
      * EVERY instance has a reference, to a cell declared in the netlist BEFORE the cell it stands in
        (no instance without reference, no dangling or forward reference, no cell instantiating itself);
      * every cable has at least one wire, and every pin on a wire is an existing bit of a port of the
        enclosing cell or of a port of the cell referenced by an instance of the enclosing cell (bit 0
        when the port is not an array);
      * no port bit / instance pin sits on two wires;
      * a non-array port has exactly one pin;
      * the top instance, when the file has a design construct, references a declared cell.
    Proved by invariants over the reader's own folds (`bodyItem` / `parseLibrary` / `libItem` /
    `parseCell` / `parseView` / `ifaceItem` / `viewItem` / `contentsItem` / `parseNet` / `parsePortRef` /
    `multibitAdd`), each analysed on arbitrary input.  Outcomes `Err.unsupported` of the model (inputs
    outside the modelled subset: duplicate net declarations, `(number (e …))`,
    …) are errors, so nothing is claimed for them. -/
theorem reader_accepts_wellformed (text : List Char) (n : CNetlist) (h : readEdif text = .ok n) : StructWF n :=
  structWF_readEdif text n h

/-- the same on s-expressions -/
theorem reader_accepts_wellformed_sexp (e : SExp) (n : CNetlist) (h : ofSExp e = .ok n) : StructWF n :=
  structWF_ofSExp e n h

/-- one cell: whatever `parse_cell` returns, in any scope, has clash-free ports / instances / cables,
    resolved references, pins in range and every pin joined once -/
theorem parseCell_wellformed (sc : Scope) (ys : List SExp) (d : CDef) (h : parseCell sc ys = .ok d) :
    DefInv (defsOfLib sc) d := parseCell_inv sc ys d h

/-- the net loop: `multibit_add_cable` keeps the cable names clash-free, every cable non-empty and every
    pin a pin of the cell, whatever it is given -/
theorem multibitAdd_wellformed (look : Nat → List CDef) (ports : List CPort) (insts : List CInst)
    (cs cs' : List CCable) (d : Data) (ps : List CPin) (h : CabsInv look ports insts cs)
    (hp : ∀ p ∈ ps, PinIn look ports insts p) (ha : multibitAdd cs d ps = .ok cs') : CabsInv look ports insts cs' :=
  multibitAdd_inv look ports insts cs cs' d ps h hp ha

/-- the reader's pin check is exact: `hasDupPin` is false exactly when no pin occurs twice -/
theorem hasDupPin_iff (cables : List CCable) :
    hasDupPin cables = false ↔ (cables.flatMap fun c => c.wires.flatten).Nodup :=
  ⟨nodup_of_hasDupPin cables, hasDupPin_false cables⟩

/-- **reader_names_everything** — for EVERY text: every element of the netlist the reader returns — the netlist
    itself, the top instance, every library, definition, port, instance and cable — carries an EDIF
    identifier and a name (`AllNamed`, decidable).  Whatever follows the name of an element in the text
    (properties, comments, status blocks, levels, view data — `Names1.lean`: all of it is stored under keys
    other than `EDIF.identifier` / `EDIF.original_identifier` / `.NAME`) leaves both in place. -/
theorem reader_names_everything (text : List Char) (n : CNetlist) (h : readEdif text = .ok n) : AllNamed n :=
  allNamed_readEdif text n h

/-- with names everywhere, "no clash" is literally: pairwise different names and pairwise different
    identifiers ignoring case (`Distinct` of LemmasWF.lean, the clause of C03's quantifier) -/
theorem distinct_of_noClash (ds : List Data) (hc : NoClash ds) (hn : ∀ d ∈ ds, Named d) : Distinct ds := by
  unfold NoClash at hc
  unfold Distinct
  rw [List.pairwise_iff_getElem] at hc ⊢
  intro i j hi hj hij
  have h := hc i j hi hj hij
  obtain ⟨a1, a2⟩ := hn _ (List.getElem_mem hi)
  obtain ⟨b1, b2⟩ := hn _ (List.getElem_mem hj)
  cases hia : identOf ds[i] with
  | none => simp [hia] at a1
  | some ia =>
    cases hna : nameOf ds[i] with
    | none => simp [hna] at a2
    | some na =>
      cases hib : identOf ds[j] with
      | none => simp [hib] at b1
      | some ib =>
        cases hnb : nameOf ds[j] with
        | none => simp [hnb] at b2
        | some nb =>
          simp only [clash, hia, hib, hna, hnb, Bool.or_eq_false_iff, beq_eq_false_iff_ne, ne_eq] at h
          simp only [nmOf, idOf, hia, hib, hna, hnb, Option.getD_some]
          exact ⟨h.2, h.1⟩

/-- **reader_siblings_distinct** — for every accepted text, the libraries of the netlist carry pairwise
    different names and pairwise different identifiers ignoring case; likewise the definitions of every
    library and the ports, instances and cables of every definition -/
theorem reader_siblings_distinct (text : List Char) (n : CNetlist) (h : readEdif text = .ok n) :
    Distinct (n.libs.map (·.data)) ∧
    ∀ l ∈ n.libs, Distinct (l.defs.map (·.data)) ∧
      ∀ d ∈ l.defs, Distinct (d.ports.map (·.data)) ∧ Distinct (d.insts.map (·.data)) ∧ Distinct (d.cables.map (·.data)) := by
  have hs := reader_accepts_wellformed text n h
  obtain ⟨_, _, hl⟩ := reader_names_everything text n h
  have hmap : ∀ {α : Type} (f : α → Data) (xs : List α), (∀ x ∈ xs, Named (f x)) → ∀ d ∈ xs.map f, Named d := by
    intro α f xs hx d hd
    obtain ⟨x, hxm, rfl⟩ := List.mem_map.mp hd
    exact hx x hxm
  refine ⟨distinct_of_noClash _ hs.libs (hmap _ _ (fun l hlm => (hl l hlm).1)), ?_⟩
  intro l hlm
  obtain ⟨L, hL, rfl⟩ := List.getElem_of_mem hlm
  have hzl : (n.libs[L], L) ∈ n.libs.zipIdx := List.mem_zipIdx_iff_getElem?.mpr (List.getElem?_eq_getElem hL)
  refine ⟨distinct_of_noClash _ (hs.defs _ hzl) (hmap _ _ (fun d hd => ((hl _ hlm).2 d hd).1)), ?_⟩
  intro d hdm
  obtain ⟨D, hD, rfl⟩ := List.getElem_of_mem hdm
  have hzd : (n.libs[L].defs[D], D) ∈ n.libs[L].defs.zipIdx := List.mem_zipIdx_iff_getElem?.mpr (List.getElem?_eq_getElem hD)
  have hw := hs.cells _ hzl _ hzd
  obtain ⟨_, hp, hi, hc⟩ := (hl _ hlm).2 _ hdm
  exact ⟨distinct_of_noClash _ hw.ports (hmap _ _ hp), distinct_of_noClash _ hw.insts (hmap _ _ hi),
    distinct_of_noClash _ hw.cables (hmap _ _ hc)⟩

/-- **all_instances_referenced** — for EVERY text: every instance of the netlist the reader returns HAS a reference
    (and, by `StructWF`, it is a cell declared before the cell the instance stands in).  True of the reader as
    repaired (e720278, 84106d8); on the unrepaired reader the clause was false — `(instance u1)` without
    `viewRef` was accepted — which is how finding `edif.reader.instance_without_reference` was found. -/
theorem all_instances_referenced (text : List Char) (n : CNetlist) (h : readEdif text = .ok n) :
    AllInstancesReferenced n := by
  have hs := reader_accepts_wellformed text n h
  intro l hl d hd i hi
  obtain ⟨L, hL, rfl⟩ := List.getElem_of_mem hl
  obtain ⟨D, hD, rfl⟩ := List.getElem_of_mem hd
  have hzl : (n.libs[L], L) ∈ n.libs.zipIdx := List.mem_zipIdx_iff_getElem?.mpr (List.getElem?_eq_getElem hL)
  have hzd : (n.libs[L].defs[D], D) ∈ n.libs[L].defs.zipIdx := List.mem_zipIdx_iff_getElem?.mpr (List.getElem?_eq_getElem hD)
  have hr := List.all_eq_true.mp (hs.cells _ hzl _ hzd).refs i hi
  unfold InstRefOK at hr
  cases hir : i.ref with
  | none => rw [hir] at hr; cases hr
  | some r => rfl

/-! ### non-vacuity -/

/-- an accepted text (the example design of Props/C05Denote.lean) … -/
example : ∃ n, readEdif (renderText Example.exD) = .ok n ∧ StructWF n := by
  obtain ⟨n, hn, _⟩ := edif_reader_spec Example.exD Example.exD_wf
  exact ⟨n, hn, reader_accepts_wellformed _ n hn⟩

/-- a netlist with one library holding one definition -/
def oneCell (d : CDef) : CNetlist := { data := [], libs := [{ data := [], defs := [d] }] }

def nm (s : String) : Data := [(kNAME, .str s.toList)]

def pt (s : String) : CPort := { data := nm s, width := 1 }
def cb (s : String) (w : List (List CPin)) : CCable := { data := nm s, wires := w }

/-- … and `StructWF` is not trivially true: two ports called `a` … -/
example : ¬ StructWF (oneCell ⟨[], [pt "a", pt "a"], [], []⟩) := by decide

/-- … a pin beyond the width of its port … -/
example : ¬ StructWF (oneCell ⟨[], [pt "a"], [cb "x" [[.port 0 1]]], []⟩) := by decide

/-- … a port bit on two cables -/
example : ¬ StructWF (oneCell ⟨[], [pt "a"], [cb "x" [[.port 0 0]], cb "y" [[.port 0 0]]], []⟩) := by decide

/-- … while a cell with two differently named ports and a net on one of them is fine -/
example : StructWF (oneCell ⟨[], [pt "a", pt "b"], [cb "x" [[.port 1 0]]], []⟩) := by decide

/-! ### clauses that do NOT hold for every accepted text -/

namespace Witness

/-- a file whose only instance has no `viewRef` -/
def noViewRef : List Char :=
  "(edif n (edifVersion 2 0 0) (edifLevel 0) (keywordMap (keywordLevel 0)) (library work (edifLevel 0) (technology (numberDefinition)) (cell top (cellType GENERIC) (view netlist (viewType NETLIST) (interface (port a (direction INPUT))) (contents (instance u1))))) (design top (cellRef top (libraryRef work))))".toList

/-- `(instance u1)` without `(viewRef …)` is REJECTED (as repaired, e720278; finding
    `edif.reader.instance_without_reference`): no instance is left without a reference -/
theorem instance_without_viewref_rejected :
    (match readEdif noViewRef with
     | .ok _ => false
     | .error _ => true) = true := by decide +kernel

/-- a file whose only instance has a `viewRef` without `cellRef` (it would name the cell being read) -/
def noCellRef : List Char :=
  "(edif n (edifVersion 2 0 0) (edifLevel 0) (keywordMap (keywordLevel 0)) (library work (edifLevel 0) (technology (numberDefinition)) (cell top (cellType GENERIC) (view netlist (viewType NETLIST) (interface (port a (direction INPUT))) (contents (instance u1 (viewRef netlist)))))) (design top (cellRef top (libraryRef work))))".toList

/-- `(instance u1 (viewRef netlist))` without `(cellRef …)` is REJECTED (as repaired, 84106d8; finding
    `edif.reader.instance_of_enclosing_cell`): no cell instantiates itself -/
theorem viewref_without_cellref_rejected :
    (match readEdif noCellRef with
     | .ok _ => false
     | .error _ => true) = true := by decide +kernel

/-- a file without a design construct -/
def noDesign : List Char :=
  "(edif n (edifVersion 2 0 0) (edifLevel 0) (keywordMap (keywordLevel 0)) (library work (edifLevel 0) (technology (numberDefinition)) (cell top (cellType GENERIC) (view netlist (viewType NETLIST) (interface (port a))))))".toList

theorem noDesign_eval :
    (match readEdif noDesign with
     | .ok n => n.top.isNone
     | .error _ => false) = true := by decide +kernel

/-- **FALSE: "the netlist has a top instance"** — a file without `(design …)` is accepted and the netlist
    has no top instance -/
theorem not_always_top : ∃ n, readEdif noDesign = .ok n ∧ n.top = none := by
  have h := noDesign_eval
  cases hr : readEdif noDesign with
  | error e => rw [hr] at h; cases h
  | ok n =>
    rw [hr] at h
    exact ⟨n, rfl, by simpa using h⟩

/-- the two bit nets `(rename foo_0_ "x[0]")` and `(rename foo_1_ "y[1]")` as `parse_net` hands them to
    `multibit_add_cable` -/
def stemNets : R (List CCable) := do
  let cs ← multibitAdd [] (withName [] "foo_0_".toList "x[0]".toList) [.port 0 0]
  multibitAdd cs (withName [] "foo_1_".toList "y[1]".toList) [.port 1 0]

/-- **FALSE: "one cable per net name"** (pinned finding `edif.reader.bus_identity_by_identifier_stem`) — two bit
    nets with DIFFERENT names `x[0]`, `y[1]` that share the identifier stem `foo` end in ONE cable, named `x`,
    of two wires; no cable is called `y`.  (The result is still `StructWF`; what is lost is the net's name.) -/
theorem stem_merges_two_names :
    (match stemNets with
     | .ok cs => cs.length == 1 && cs.all (fun c => nameOf c.data == some "x".toList && c.wires.length == 2)
     | .error _ => false) = true := by decide +kernel

/-- the bit nets `x[0]`, `x[1]` followed by a scalar net called `x` -/
def scalarAfterBus : R (List CCable) := do
  let cs ← multibitAdd [] (withName [] "x_0_".toList "x[0]".toList) [.port 0 0]
  let cs ← multibitAdd cs (withName [] "x_1_".toList "x[1]".toList) [.port 0 1]
  multibitAdd cs (withName [] "x".toList "x".toList) [.port 1 0]

/-- a scalar net carrying the name of an assembled bus is REJECTED by the model (as by the
    implementation since 758603e): never shorted into the bus -/
theorem scalar_after_bus_rejected :
    (match scalarAfterBus with
     | .ok _ => false
     | .error _ => true) = true := by decide +kernel

end Witness

end Spydr.Edif.C05
