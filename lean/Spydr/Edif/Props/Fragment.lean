/-
  The decidable hypotheses the driver evaluates for the evidence (`theorem_fragment:…` in the input
  distribution) are sound: "in" means the file-level theorem applies to the case.
-/
import Spydr.Edif.Fragment
namespace Spydr.Edif

/-- C03: `wfNetClause n = none` (driver request `wf03`) implies the hypotheses of `edif_roundtrip`,
    `edif_roundtrip_text`, `parse_compose_parse` -/
theorem C03.fragment_check_sound (n : CNetlist) (h : wfNetClause n = none) :
    ∃ prog ver t li di, WFNet n prog ver t li di ∧ ScalarLower0 n := wfNetClause_sound n h

/-- C05: `wfClause d = none` (driver request `wf05`) implies the hypothesis `d.wf` of `edif_reader_spec`,
    `edif_reader_spec_kwcase` -/
theorem C05.fragment_check_sound (d : ADesign) (h : wfClause d = none) : d.wf = true := wfClause_sound d h

end Spydr.Edif
