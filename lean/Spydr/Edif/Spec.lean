/-
  Specification side of C03: the view of a netlist the property speaks about (decision 4: exactly the
  attributes the statement lists — libraries, cells, ports in order with direction / width /
  array-ness, instances with name, referenced cell and library, properties, nets with name, width,
  base index and every wire's pins in order, the top design, the original names).  Positional:
  the reader keeps the file order, so equality of this view implies equality of the name-keyed view
  the harness compares.  Written on the value type only (no model function is used).  No Mathlib.
-/
import Spydr.Edif.ModelNet
namespace Spydr.Edif

def specName (d : Data) : Option Str := d.getStr? kNAME

/-- the `EDIF.properties` list of an element (absent = empty) -/
def specProps (d : Data) : List Val :=
  match d.get? ("EDIF.properties".toList) with
  | some (.list ps) => ps
  | _ => []

structure V03Port where
  name : Option Str
  dir : Dir
  width : Nat
  isArray : Bool

structure V03Inst where
  name : Option Str
  ref : Option (Nat × Nat)
  props : List Val

structure V03Net where
  name : Option Str
  width : Nat
  lower : Nat
  wires : List (List CPin)

structure V03Cell where
  name : Option Str
  ports : List V03Port
  insts : List V03Inst
  nets : List V03Net

structure V03Lib where
  name : Option Str
  cells : List V03Cell

structure V03 where
  name : Option Str
  libs : List V03Lib
  top : Option (Option Str × Option (Nat × Nat))

def view03Port (p : CPort) : V03Port := ⟨specName p.data, p.dir, p.width, p.isArray⟩
def view03Inst (i : CInst) : V03Inst := ⟨specName i.data, i.ref, specProps i.data⟩
def view03Net (c : CCable) : V03Net := ⟨specName c.data, c.wires.length, c.lower, c.wires⟩
def view03Cell (d : CDef) : V03Cell :=
  ⟨specName d.data, d.ports.map view03Port, d.insts.map view03Inst, d.cables.map view03Net⟩
def view03Lib (l : CLib) : V03Lib := ⟨specName l.data, l.defs.map view03Cell⟩
def view03 (n : CNetlist) : V03 :=
  ⟨specName n.data, n.libs.map view03Lib, n.top.map fun t => (specName t.data, t.ref)⟩

end Spydr.Edif
