import Spydr.Edif.StructWF
import Spydr.Edif.DenoteCables
namespace Spydr.Edif

/-! ### generic -/

theorem loopC_inv {σ : Type} (h : σ → List SExp → R σ) (P : σ → Prop)
    (hstep : ∀ s ys s', P s → h s ys = .ok s' → P s') :
    ∀ (xs : List SExp) (s s' : σ) (rest : List SExp), P s → loopC h s xs = .ok (s', rest) → P s' := by
  intro xs
  induction xs with
  | nil => intro s s' rest hp hl; simp only [loopC, pure, Except.pure, Except.ok.injEq, Prod.mk.injEq] at hl; rw [← hl.1]; exact hp
  | cons x r ih =>
    intro s s' rest hp hl
    cases x with
    | atom a => simp only [loopC, pure, Except.pure, Except.ok.injEq, Prod.mk.injEq] at hl; rw [← hl.1]; exact hp
    | list ys =>
      simp only [loopC, bind, Except.bind] at hl
      split at hl
      · cases hl
      · rename_i s1 hs1
        exact ih s1 s' rest (hstep s ys s1 hp hs1) hl

theorem pyIndex_lt (len : Nat) (i : Int) (b : Nat) (h : pyIndex len i = some b) : b < len := by
  unfold pyIndex at h
  split at h
  · split at h
    · cases h; assumption
    · cases h
  · split at h
    · rename_i h1 h2
      cases h
      have : 0 < (-i).toNat := by omega
      omega
    · cases h

/-! ### pin references -/

/-- a pin is an existing port bit in the reader's view of the cell -/
def PinIn (look : Nat → List CDef) (ports : List CPort) (insts : List CInst) : CPin → Prop
  | .port pi bi => ∃ p, ports[pi]? = some p ∧ bi < p.width
  | .inst ii pi bi => ∃ i li di d p, insts[ii]? = some i ∧ i.ref = some (li, di) ∧
      (look li)[di]? = some d ∧ d.ports[pi]? = some p ∧ bi < p.width

/-- the pins of the reader's view `cx` of a cell -/
abbrev PinCx (cx : DefCtx) : CPin → Prop := PinIn (defsOfLib cx.sc) cx.ports cx.insts

theorem parsePortRef_in (cx : DefCtx) (ys : List SExp) (pin : CPin) (h : parsePortRef cx ys = .ok pin) : PinCx cx pin := by
  unfold parsePortRef at h
  split at h
  · cases h
  · simp only [bind, Except.bind] at h
    split at h
    · cases h
    · split at h
      · cases h
      · split at h
        · cases h
        · split at h
          · split at h
            · cases h
            · split at h
              · cases h
              · split at h
                · simp only [pure, Except.pure, Except.ok.injEq] at h
                  subst h
                  exact ⟨_, by assumption, pyIndex_lt _ _ _ (by assumption)⟩
                · cases h
          · split at h
            · cases h
            · split at h
              · cases h
              · split at h
                · cases h
                · split at h
                  · cases h
                  · split at h
                    · cases h
                    · split at h
                      · simp only [pure, Except.pure, Except.ok.injEq] at h
                        subst h
                        exact ⟨_, _, _, _, _, by assumption, by assumption, by assumption, by assumption,
                          pyIndex_lt _ _ _ (by assumption)⟩
                      · cases h

theorem joinedItem_in (cx : DefCtx) (pins pins' : List CPin) (ys : List SExp)
    (hp : ∀ p ∈ pins, PinCx cx p) (h : joinedItem cx pins ys = .ok pins') : ∀ p ∈ pins', PinCx cx p := by
  unfold joinedItem at h
  split at h
  · simp only [bind, Except.bind] at h
    split at h
    · cases h
    · rename_i pin hpin
      simp only [pure, Except.pure, Except.ok.injEq] at h
      subst h
      intro p hm
      rcases List.mem_append.mp hm with h1 | h1
      · exact hp p h1
      · simp only [List.mem_singleton] at h1
        subst h1
        exact parsePortRef_in cx ys _ hpin
  · split at h
    · cases h
    · split at h <;> cases h

theorem parseNet_in (cx : DefCtx) (ys : List SExp) (d : Data) (pins : List CPin)
    (h : parseNet cx ys = .ok (d, pins)) : ∀ p ∈ pins, PinCx cx p := by
  unfold parseNet at h
  simp only [bind, Except.bind] at h
  split at h
  · cases h
  · split at h
    · split at h
      · split at h
        · cases h
        · rename_i v hv
          split at h
          · cases h
          · split at h
            · cases h
            · split at h
              · cases h
              · simp only [pure, Except.pure, Except.ok.injEq, Prod.mk.injEq] at h
                obtain ⟨pl, jr⟩ := v
                have := loopC_inv (joinedItem cx) (fun ps => ∀ p ∈ ps, PinCx cx p)
                  (fun s ys s' hs hstep => joinedItem_in cx s s' ys hs hstep) _ [] pl jr (by intro p hp; cases hp) hv
                rw [← h.2]
                exact this
      · cases h
    · cases h

/-! ### sibling dictionaries -/

theorem conflicts_eq_any (sibs : List Data) (d : Data) : conflicts sibs d = sibs.any fun s => clash s d := rfl

theorem noClash_snoc (ds : List Data) (d : Data) (h : NoClash ds) (hc : conflicts ds d = false) : NoClash (ds ++ [d]) := by
  unfold NoClash at *
  rw [List.pairwise_append]
  refine ⟨h, by simp, ?_⟩
  intro a ha b hb
  simp only [List.mem_singleton] at hb
  subst hb
  rw [conflicts_eq_any, List.any_eq_false] at hc
  simpa using hc a ha

theorem addRetry_noClash (sibs : List Data) (d d' : Data) (h : NoClash sibs) (ha : addRetry sibs d = .ok d') :
    NoClash (sibs ++ [d']) := by
  unfold addRetry at ha
  split at ha
  · rename_i hc
    simp only [pure, Except.pure, Except.ok.injEq] at ha
    subst ha
    exact noClash_snoc sibs d h (by simpa using hc)
  · split at ha
    · split at ha
      · simp only at ha
        split at ha
        · rename_i hc
          simp only [pure, Except.pure, Except.ok.injEq] at ha
          subst ha
          exact noClash_snoc sibs _ h (by simpa using hc)
        · cases ha
      · cases ha
    · cases ha

/-! ### `multibit_add_cable` -/

/-- what the net loop maintains about the cables of the cell being read -/
structure CabsInv (look : Nat → List CDef) (ports : List CPort) (insts : List CInst) (cs : List CCable) : Prop where
  names : NoClash (cs.map (·.data))
  wires : ∀ c ∈ cs, c.wires ≠ []
  pins : ∀ c ∈ cs, ∀ p ∈ c.wires.flatten, PinIn look ports insts p

theorem cabsInv_snoc (look : Nat → List CDef) (ports : List CPort) (insts : List CInst) (cs : List CCable) (c : CCable) (h : CabsInv look ports insts cs)
    (hc : conflicts (cs.map (·.data)) c.data = false) (hw : c.wires ≠ []) (hp : ∀ p ∈ c.wires.flatten, PinIn look ports insts p) :
    CabsInv look ports insts (cs ++ [c]) := by
  refine ⟨by simpa using noClash_snoc _ _ h.names hc, ?_, ?_⟩
  · intro x hx
    rcases List.mem_append.mp hx with h1 | h1
    · exact h.wires x h1
    · simp only [List.mem_singleton] at h1; subst h1; exact hw
  · intro x hx
    rcases List.mem_append.mp hx with h1 | h1
    · exact h.pins x h1
    · simp only [List.mem_singleton] at h1; subst h1; exact hp

theorem mergeInto_wires_ne (ex : CCable) (i : Nat) (ps : List CPin) : (mergeInto ex i ps).wires ≠ [] := by
  unfold mergeInto
  by_cases h1 : i ≥ ex.lower
  · by_cases h2 : i < ex.lower + ex.wires.length
    · simp only [h1, h2, if_true]
      intro e
      have hl := congrArg List.length e
      simp only [List.length_set, List.length_nil] at hl
      omega
    · simp [h1, h2]
  · simp [h1]

theorem map_data_set (cs : List CCable) (k : Nat) (c' ex : CCable) (hk : cs[k]? = some ex) (hd : c'.data = ex.data) :
    (cs.set k c').map (·.data) = cs.map (·.data) := by
  apply List.ext_getElem?
  intro j
  simp only [List.getElem?_map, List.getElem?_set]
  by_cases hj : k = j
  · subst hj
    have hlt : k < cs.length := by
      rcases Nat.lt_or_ge k cs.length with h | h
      · exact h
      · rw [List.getElem?_eq_none h] at hk; cases hk
    have hex : cs[k] = ex := by
      have := List.getElem?_eq_getElem hlt
      rw [this] at hk; exact Option.some.inj hk
    simp [hlt, hd, hex]
  · simp [hj]

theorem cabsInv_merge (look : Nat → List CDef) (ports : List CPort) (insts : List CInst) (cs : List CCable) (k : Nat) (ex : CCable) (i : Nat) (ps : List CPin)
    (h : CabsInv look ports insts cs) (hk : cs[k]? = some ex) (hp : ∀ p ∈ ps, PinIn look ports insts p) :
    CabsInv look ports insts (cs.set k (mergeInto ex i ps)) := by
  have hm := mergeInto_eq ex i ps
  have hex : ex ∈ cs := List.mem_of_getElem? hk
  refine ⟨by rw [map_data_set cs k _ ex hk hm.2.2.1]; exact h.names, ?_, ?_⟩
  · intro c hc
    rcases List.mem_or_eq_of_mem_set hc with h1 | h1
    · exact h.wires c h1
    · subst h1; exact mergeInto_wires_ne ex i ps
  · intro c hc p hpm
    rcases List.mem_or_eq_of_mem_set hc with h1 | h1
    · exact h.pins c h1 p hpm
    · subst h1
      rw [hm.2.1] at hpm
      have := (flatten_mergeBus_perm ⟨ex.lower, ex.wires⟩ i ps).mem_iff.mp hpm
      rcases List.mem_append.mp this with h2 | h2
      · exact h.pins ex hex p h2
      · exact hp p h2

theorem multibitAdd_inv (look : Nat → List CDef) (ports : List CPort) (insts : List CInst) (cs cs' : List CCable) (d : Data) (ps : List CPin) (h : CabsInv look ports insts cs)
    (hp : ∀ p ∈ ps, PinIn look ports insts p) (ha : multibitAdd cs d ps = .ok cs') : CabsInv look ports insts cs' := by
  have hplain : ∀ cs'', (if conflicts (cs.map (·.data)) d = true then
        (throw (Err.unsupported "net declared twice (ValueError fallback)") : R (List CCable))
      else pure (cs ++ [{ data := d, scalarFlag := true, lower := 0, wires := [ps] }])) = .ok cs'' → CabsInv look ports insts cs'' := by
    intro cs'' hh
    split at hh
    · cases hh
    · rename_i hc
      simp only [pure, Except.pure, Except.ok.injEq] at hh
      subst hh
      exact cabsInv_snoc look ports insts cs _ h (by simpa using hc) (by simp) (by simpa using hp)
  unfold multibitAdd at ha
  split at ha
  · split at ha
    · cases ha
    · simp only at ha
      split at ha
      · split at ha
        · exact hplain _ ha
        · split at ha
          · cases ha
          · split at ha
            · cases ha
            · rename_i hc
              simp only [pure, Except.pure, Except.ok.injEq] at ha
              subst ha
              exact cabsInv_snoc look ports insts cs _ h (by simpa using hc) (by simp) (by simpa using hp)
      · split at ha
        · cases ha
        · split at ha
          · exact hplain _ ha
          · split at ha
            · exact hplain _ ha
            · simp only [pure, Except.pure, Except.ok.injEq] at ha
              subst ha
              exact cabsInv_merge look ports insts cs _ _ _ ps h (by assumption) hp
  · cases ha

/-! ### `hasDupPin = false` means every pin is joined once -/

theorem pinLe_iff (a b : CPin) : pinLe a b = true ↔
    (encodePin a).1 < (encodePin b).1 ∨ ((encodePin a).1 = (encodePin b).1 ∧
      ((encodePin a).2.1 < (encodePin b).2.1 ∨ ((encodePin a).2.1 = (encodePin b).2.1 ∧
        ((encodePin a).2.2.1 < (encodePin b).2.2.1 ∨ ((encodePin a).2.2.1 = (encodePin b).2.2.1 ∧
          (encodePin a).2.2.2 ≤ (encodePin b).2.2.2))))) := by
  simp [pinLe]

theorem encodePin_inj (a b : CPin) (h : encodePin a = encodePin b) : a = b := by
  cases a <;> cases b <;> simp [encodePin] at h ⊢ <;> omega

theorem pinLe_antisymm (a b : CPin) (h1 : pinLe a b = true) (h2 : pinLe b a = true) : a = b := by
  rw [pinLe_iff] at h1 h2
  apply encodePin_inj
  generalize encodePin a = ea at *
  generalize encodePin b = eb at *
  obtain ⟨a1, a2, a3, a4⟩ := ea
  obtain ⟨b1, b2, b3, b4⟩ := eb
  simp only at h1 h2
  have : a1 = b1 ∧ a2 = b2 ∧ a3 = b3 ∧ a4 = b4 := by omega
  obtain ⟨rfl, rfl, rfl, rfl⟩ := this
  rfl

theorem pinLe_trans (a b c : CPin) (h1 : pinLe a b = true) (h2 : pinLe b c = true) : pinLe a c = true := by
  rw [pinLe_iff] at *
  generalize encodePin a = ea at *
  generalize encodePin b = eb at *
  generalize encodePin c = ec at *
  obtain ⟨a1, a2, a3, a4⟩ := ea
  obtain ⟨b1, b2, b3, b4⟩ := eb
  obtain ⟨c1, c2, c3, c4⟩ := ec
  simp only at *
  omega

theorem pinLe_total (a b : CPin) : (pinLe a b || pinLe b a) = true := by
  rw [Bool.or_eq_true, pinLe_iff, pinLe_iff]
  generalize encodePin a = ea
  generalize encodePin b = eb
  obtain ⟨a1, a2, a3, a4⟩ := ea
  obtain ⟨b1, b2, b3, b4⟩ := eb
  simp only
  omega

theorem nodup_of_sorted_adjDup (l : List CPin) (hs : l.Pairwise fun a b => pinLe a b = true) (h : adjDup l = false) :
    l.Nodup := by
  induction l with
  | nil => exact List.nodup_nil
  | cons a r ih =>
    cases r with
    | nil => simp
    | cons b t =>
      simp only [adjDup, Bool.or_eq_false_iff, beq_eq_false_iff_ne, ne_eq] at h
      have hs' := List.pairwise_cons.mp hs
      have ihr := ih hs'.2 h.2
      rw [List.nodup_cons]
      refine ⟨?_, ihr⟩
      intro hm
      rcases List.mem_cons.mp hm with rfl | hm
      · exact h.1 rfl
      · -- a ≤ b ≤ a
        have hab := hs'.1 b (by simp)
        have hba := (List.pairwise_cons.mp hs'.2).1 a hm
        exact h.1 (pinLe_antisymm a b hab hba)

theorem nodup_of_hasDupPin (cables : List CCable) (h : hasDupPin cables = false) :
    (cables.flatMap fun c => c.wires.flatten).Nodup := by
  unfold hasDupPin at h
  have hp := List.mergeSort_perm (cables.flatMap fun c => c.wires.flatten) pinLe
  have hs := List.pairwise_mergeSort pinLe_trans pinLe_total (cables.flatMap fun c => c.wires.flatten)
  rw [← hp.nodup_iff]
  exact nodup_of_sorted_adjDup _ hs h

end Spydr.Edif
