/-
  Invariants of the reader's cell-level folds on ARBITRARY input: ports, instances, nets, views.
-/
import Spydr.Edif.Struct1
namespace Spydr.Edif

/-! ### monotonicity: appending ports / instances keeps pins valid -/

theorem pinIn_mono (look : Nat → List CDef) (ports ports' : List CPort) (insts insts' : List CInst) (pin : CPin)
    (h : PinIn look ports insts pin) : PinIn look (ports ++ ports') (insts ++ insts') pin := by
  cases pin with
  | port pi bi =>
    obtain ⟨p, hp, hb⟩ := h
    exact ⟨p, by rw [List.getElem?_append_left (getElem?_lt _ _ _ hp)]; exact hp, hb⟩
  | inst ii pi bi =>
    obtain ⟨i, li, di, d, p, hi, hr, hd, hp, hb⟩ := h
    exact ⟨i, li, di, d, p, by rw [List.getElem?_append_left (getElem?_lt _ _ _ hi)]; exact hi, hr, hd, hp, hb⟩

theorem cabsInv_mono (look : Nat → List CDef) (ports ports' : List CPort) (insts insts' : List CInst) (cs : List CCable)
    (h : CabsInv look ports insts cs) : CabsInv look (ports ++ ports') (insts ++ insts') cs :=
  ⟨h.names, h.wires, fun c hc p hp => pinIn_mono look ports ports' insts insts' p (h.pins c hc p hp)⟩

/-! ### the invariant of a cell under construction -/

/-- a reference the reader resolved: the target is in scope -/
def RefIn (look : Nat → List CDef) (r : Nat × Nat) : Prop := ∃ d, (look r.1)[r.2]? = some d

structure TripInv (look : Nat → List CDef) (ports : List CPort) (insts : List CInst) (cables : List CCable) : Prop where
  hports : NoClash (ports.map (·.data))
  hshape : ∀ p ∈ ports, PortShapeB p = true
  hinsts : NoClash (insts.map (·.data))
  hrefs : ∀ i ∈ insts, ∃ r, i.ref = some r ∧ RefIn look r
  hcabs : CabsInv look ports insts cables

def CellInv (sc : Scope) (st : CellSt) : Prop := TripInv (defsOfLib sc) st.ports st.insts st.cables

/-- … and, between `contents` blocks, every pin joined once -/
def ViewInv (sc : Scope) (st : CellSt) : Prop :=
  CellInv sc st ∧ (st.cables.flatMap fun c => c.wires.flatten).Nodup

/-! ### instances -/

theorem parseViewRef_ref (sc : Scope) (m : Meta) (ys : List SExp) (r : Nat × Nat) (h : parseViewRef sc m ys = .ok r) :
    RefIn (defsOfLib sc) r := by
  unfold parseViewRef at h
  split at h
  · simp only [bind, Except.bind] at h
    split at h
    · cases h
    · split at h
      · cases h
      · split at h
        · cases h
        · split at h
          · cases h
          · split at h
            · simp only [pure, Except.pure, Except.ok.injEq] at h
              subst h
              exact ⟨_, by assumption⟩
            · cases h
  · cases h
  · cases h

theorem parseInstance_ref (sc : Scope) (ys : List SExp) (i : CInst) (h : parseInstance sc ys = .ok i) :
    ∃ r, i.ref = some r ∧ RefIn (defsOfLib sc) r := by
  unfold parseInstance at h
  simp only [bind, Except.bind] at h
  split at h
  · cases h
  · split at h
    · cases h
    · rename_i v hv
      split at h
      · cases h
      · split at h
        · cases h
        · simp only [pure, Except.pure, Except.ok.injEq] at h
          subst h
          -- where the reference came from: an instance without viewRef is rejected
          split at hv
          · split at hv
            · try simp only [bind, Except.bind] at hv
              split at hv
              · cases hv
              · rename_i r0 hr0
                simp only [pure, Except.pure, Except.ok.injEq] at hv
                subst hv
                exact ⟨r0, rfl, parseViewRef_ref sc _ _ _ hr0⟩
            · split at hv <;> cases hv
          · cases hv

/-! ### one item of `contents` -/

theorem contentsItem_inv (sc : Scope) (st st' : CellSt) (ys : List SExp) (h : CellInv sc st)
    (hs : contentsItem sc st ys = .ok st') : CellInv sc st' := by
  unfold contentsItem at hs
  split at hs
  · -- instance
    simp only [bind, Except.bind] at hs
    split at hs
    · cases hs
    · rename_i i hi
      split at hs
      · cases hs
      · rename_i d hd
        simp only [pure, Except.pure, Except.ok.injEq] at hs
        subst hs
        refine ⟨h.hports, h.hshape, ?_, ?_, ?_⟩
        · simpa using addRetry_noClash _ _ _ h.hinsts hd
        · intro j hj
          rcases List.mem_append.mp hj with h1 | h1
          · exact h.hrefs j h1
          · simp only [List.mem_singleton] at h1
            subst h1
            exact parseInstance_ref sc ys i hi
        · have := cabsInv_mono (defsOfLib sc) st.ports [] st.insts [{ i with data := d }] st.cables h.hcabs
          simpa using this
  · split at hs
    · -- net
      simp only [bind, Except.bind] at hs
      split at hs
      · cases hs
      · rename_i v hv
        obtain ⟨d, pins⟩ := v
        split at hs
        · cases hs
        · rename_i cs hcs
          simp only [pure, Except.pure, Except.ok.injEq] at hs
          subst hs
          have hp := parseNet_in { sc := sc, ports := st.ports, insts := st.insts } ys d pins hv
          exact ⟨h.hports, h.hshape, h.hinsts, h.hrefs, multibitAdd_inv _ _ _ _ _ d pins h.hcabs hp hcs⟩
    · split at hs
      · cases hs
      · split at hs
        · simp only [bind, Except.bind] at hs
          split at hs
          · cases hs
          · simp only [pure, Except.pure, Except.ok.injEq] at hs
            subst hs
            exact h
        · split at hs <;> cases hs

/-! ### ports -/

theorem parsePort_shape (ys : List SExp) (p : CPort) (h : parsePort ys = .ok p) : PortShapeB p = true := by
  unfold parsePort at h
  simp only [bind, Except.bind] at h
  split at h
  · cases h
  · rename_i v hv
    obtain ⟨m, width, isArr, rest⟩ := v
    split at h
    · cases h
    · split at h
      · cases h
      · simp only [pure, Except.pure, Except.ok.injEq] at h
        subst h
        -- (width, isArr) is (1, false) or (k, true)
        have hw : isArr = true ∨ width = 1 := by
          split at hv
          · split at hv
            · try simp only [bind, Except.bind] at hv
              split at hv
              · cases hv
              · simp only [pure, Except.pure, Except.ok.injEq, Prod.mk.injEq] at hv
                exact Or.inr hv.2.1.symm
            · split at hv
              · split at hv
                · cases hv
                · try simp only [bind, Except.bind] at hv
                  split at hv
                  · cases hv
                  · split at hv
                    · split at hv
                      · cases hv
                      · simp only [pure, Except.pure, Except.ok.injEq, Prod.mk.injEq] at hv
                        exact Or.inl hv.2.2.1.symm
                    · cases hv
              · cases hv
          · try simp only [bind, Except.bind] at hv
            split at hv
            · cases hv
            · simp only [pure, Except.pure, Except.ok.injEq, Prod.mk.injEq] at hv
              exact Or.inr hv.2.1.symm
        rcases hw with rfl | rfl
        · simp [PortShapeB, CPort.isArray, CPort.isScalar]
        · simp [PortShapeB]

theorem ifaceItem_inv (sc : Scope) (s s' : CellSt × Bool) (ys : List SExp) (h : ViewInv sc s.1)
    (hs : ifaceItem s ys = .ok s') : ViewInv sc s'.1 := by
  obtain ⟨st, hd⟩ := s
  unfold ifaceItem at hs
  simp only at hs
  split at hs
  · simp only [bind, Except.bind] at hs
    split at hs
    · cases hs
    · rename_i p hp
      split at hs
      · cases hs
      · rename_i hc
        simp only [pure, Except.pure, Except.ok.injEq] at hs
        subst hs
        refine ⟨⟨?_, ?_, h.1.hinsts, h.1.hrefs, ?_⟩, h.2⟩
        · simpa using noClash_snoc _ _ h.1.hports (by simpa using hc)
        · intro q hq
          rcases List.mem_append.mp hq with h1 | h1
          · exact h.1.hshape q h1
          · simp only [List.mem_singleton] at h1
            subst h1
            exact parsePort_shape ys _ hp
        · have := cabsInv_mono (defsOfLib sc) st.ports [p] st.insts [] st.cables h.1.hcabs
          simpa using this
  · split at hs
    · cases hs
    · split at hs
      · split at hs
        · cases hs
        · simp only [pure, Except.pure, Except.ok.injEq] at hs; subst hs; exact h
      · split at hs
        · simp only [bind, Except.bind] at hs
          split at hs
          · cases hs
          · simp only [pure, Except.pure, Except.ok.injEq] at hs; subst hs; exact h
        · split at hs
          · simp only [bind, Except.bind] at hs
            split at hs
            · cases hs
            · simp only [pure, Except.pure, Except.ok.injEq] at hs; subst hs; exact h
          · split at hs <;> cases hs

/-! ### views and the cell -/

theorem viewItem_inv (sc : Scope) (s s' : CellSt × Bool × Bool) (ys : List SExp) (h : ViewInv sc s.1)
    (hs : viewItem sc s ys = .ok s') : ViewInv sc s'.1 := by
  obtain ⟨st, hst, hco⟩ := s
  unfold viewItem at hs
  simp only at hs
  split at hs
  · split at hs
    · cases hs
    · simp only [bind, Except.bind] at hs
      split at hs
      · cases hs
      · simp only [pure, Except.pure, Except.ok.injEq] at hs; subst hs; exact h
  · split at hs
    · split at hs
      · cases hs
      · simp only [bind, Except.bind] at hs
        split at hs
        · cases hs
        · rename_i v hv
          obtain ⟨st1, rest⟩ := v
          split at hs
          · cases hs
          · split at hs
            · cases hs
            · rename_i hdup
              simp only [pure, Except.pure, Except.ok.injEq] at hs
              subst hs
              have hinv := loopC_inv (contentsItem sc) (CellInv sc) (fun a ys b ha hb => contentsItem_inv sc a b ys ha hb)
                _ st st1 rest h.1 hv
              exact ⟨hinv, nodup_of_hasDupPin _ (by simpa using hdup)⟩
    · split at hs
      · simp only [bind, Except.bind] at hs
        split at hs
        · cases hs
        · simp only [pure, Except.pure, Except.ok.injEq] at hs; subst hs; exact h
      · split at hs
        · simp only [bind, Except.bind] at hs
          split at hs
          · cases hs
          · simp only [pure, Except.pure, Except.ok.injEq] at hs; subst hs; exact h
        · split at hs <;> cases hs

theorem parseView_inv (sc : Scope) (st st' : CellSt) (ys : List SExp) (h : ViewInv sc st)
    (hs : parseView sc st ys = .ok st') : ViewInv sc st' := by
  unfold parseView at hs
  simp only [bind, Except.bind] at hs
  split at hs
  · cases hs
  · split at hs
    · split at hs
      · split at hs
        · cases hs
        · split at hs
          · cases hs
          · split at hs
            · cases hs
            · split at hs
              · cases hs
              · split at hs
                · cases hs
                · rename_i v1 hv1
                  obtain ⟨⟨st1, b1⟩, ir⟩ := v1
                  split at hs
                  · cases hs
                  · split at hs
                    · cases hs
                    · rename_i v2 hv2
                      obtain ⟨⟨st2, b2, b3⟩, rest2⟩ := v2
                      split at hs
                      · cases hs
                      · simp only [pure, Except.pure, Except.ok.injEq] at hs
                        subst hs
                        have h1 := loopC_inv ifaceItem (fun s => ViewInv sc s.1)
                          (fun a ys b ha hb => ifaceItem_inv sc a b ys ha hb) _ _ (st1, b1) ir h hv1
                        have h2 := loopC_inv (viewItem sc) (fun s => ViewInv sc s.1)
                          (fun a ys b ha hb => viewItem_inv sc a b ys ha hb) _ _ (st2, b2, b3) rest2 h1 hv2
                        exact h2
      · cases hs
    · cases hs

theorem cellItem_inv (sc : Scope) (st st' : CellSt) (ys : List SExp) (h : ViewInv sc st)
    (hs : cellItem sc st ys = .ok st') : ViewInv sc st' := by
  unfold cellItem at hs
  split at hs
  · split at hs
    · cases hs
    · simp only [bind, Except.bind] at hs
      split at hs
      · cases hs
      · simp only [pure, Except.pure, Except.ok.injEq] at hs; subst hs; exact h
  · split at hs
    · exact parseView_inv sc st st' ys h hs
    · split at hs
      · split at hs <;> cases hs
      · split at hs
        · simp only [bind, Except.bind] at hs
          split at hs
          · cases hs
          · simp only [pure, Except.pure, Except.ok.injEq] at hs; subst hs; exact h
        · split at hs
          · simp only [bind, Except.bind] at hs
            split at hs
            · cases hs
            · simp only [pure, Except.pure, Except.ok.injEq] at hs; subst hs; exact h
          · split at hs <;> cases hs

/-- what `parse_cell` returns, on any input -/
def DefInv (look : Nat → List CDef) (d : CDef) : Prop :=
  TripInv look d.ports d.insts d.cables ∧ (d.cables.flatMap fun c => c.wires.flatten).Nodup

theorem viewInv_empty (sc : Scope) (m : Meta) : ViewInv sc { m := m } := by
  exact ⟨⟨List.Pairwise.nil, (by intro p hp; cases hp), List.Pairwise.nil, (by intro i hi; cases hi),
    ⟨List.Pairwise.nil, (by intro c hc; cases hc), (by intro c hc; cases hc)⟩⟩, List.nodup_nil⟩

theorem parseCell_inv (sc : Scope) (ys : List SExp) (d : CDef) (h : parseCell sc ys = .ok d) : DefInv (defsOfLib sc) d := by
  unfold parseCell at h
  simp only [bind, Except.bind] at h
  split at h
  · cases h
  · split at h
    · split at h
      · cases h
      · split at h
        · cases h
        · split at h
          · cases h
          · split at h
            · cases h
            · rename_i v hv
              obtain ⟨st, rest⟩ := v
              split at h
              · cases h
              · simp only [pure, Except.pure, Except.ok.injEq] at h
                subst h
                exact loopC_inv (cellItem sc) (ViewInv sc) (fun a ys b ha hb => cellItem_inv sc a b ys ha hb) _ _ st rest
                  (viewInv_empty sc _) hv
    · cases h

end Spydr.Edif
