/-
  Invariants of the library / file level folds on arbitrary input, and the conclusion: whatever the
  reader accepts satisfies `StructWF`.
-/
import Spydr.Edif.Struct2
namespace Spydr.Edif

/-- what the reference resolver sees: the libraries read so far and the cells read so far of the
    library being read (`defsOfLib` without the scope record) -/
def lookAt (libs : List CLib) (cur : List CDef) (li : Nat) : List CDef :=
  if li = libs.length then cur else
  match libs[li]? with
  | some l => l.defs
  | none => []

theorem defsOfLib_eq (libs : List CLib) (cl : Data) (cur : List CDef) :
    defsOfLib { libs := libs, curLib := cl, curDefs := cur } = lookAt libs cur := by
  funext li; rfl

/-! ### libraries -/

structure LibInv (libs : List CLib) (defs : List CDef) : Prop where
  names : NoClash (defs.map (·.data))
  cells : ∀ k d, defs[k]? = some d → DefInv (lookAt libs (defs.take k)) d

theorem libInv_nil (libs : List CLib) : LibInv libs [] :=
  ⟨List.Pairwise.nil, by intro k d h; simp at h⟩

theorem libInv_snoc (libs : List CLib) (defs : List CDef) (c : CDef) (h : LibInv libs defs)
    (hn : NoClash ((defs ++ [c]).map (·.data))) (hc : DefInv (lookAt libs defs) c) : LibInv libs (defs ++ [c]) := by
  refine ⟨hn, ?_⟩
  intro k d hk
  by_cases hlt : k < defs.length
  · rw [List.getElem?_append_left hlt] at hk
    have : (defs ++ [c]).take k = defs.take k := by
      rw [List.take_append_of_le_length (by omega)]
    rw [this]
    exact h.cells k d hk
  · have hk2 : k = defs.length := by
      have := getElem?_lt _ _ _ hk
      simp at this; omega
    subst hk2
    simp at hk
    subst hk
    simpa using hc

theorem libItem_inv (libs : List CLib) (st st' : LibSt) (ys : List SExp) (h : LibInv libs st.defs)
    (hs : libItem libs st ys = .ok st') : LibInv libs st'.defs := by
  unfold libItem at hs
  split at hs
  · split at hs
    · cases hs
    · simp only [bind, Except.bind] at hs
      split at hs
      · cases hs
      · simp only [pure, Except.pure, Except.ok.injEq] at hs; subst hs; exact h
  · split at hs
    · simp only [bind, Except.bind] at hs
      split at hs
      · cases hs
      · rename_i c hc
        split at hs
        · cases hs
        · rename_i d hd
          simp only [pure, Except.pure, Except.ok.injEq] at hs
          subst hs
          have hinv := parseCell_inv _ ys c hc
          rw [defsOfLib_eq] at hinv
          apply libInv_snoc libs st.defs _ h
          · simpa using addRetry_noClash _ _ _ h.names hd
          · exact hinv
    · split at hs
      · simp only [bind, Except.bind] at hs
        split at hs
        · cases hs
        · simp only [pure, Except.pure, Except.ok.injEq] at hs; subst hs; exact h
      · split at hs <;> cases hs

theorem parseLibrary_inv (libs : List CLib) (ext : Bool) (ys : List SExp) (l : CLib)
    (h : parseLibrary libs ext ys = .ok l) : LibInv libs l.defs := by
  unfold parseLibrary at h
  simp only [bind, Except.bind] at h
  split at h
  · cases h
  · split at h
    · split at h
      · cases h
      · split at h
        · cases h
        · split at h
          · cases h
          · split at h
            · cases h
            · rename_i v hv
              obtain ⟨st, rest⟩ := v
              split at h
              · cases h
              · simp only [pure, Except.pure, Except.ok.injEq] at h
                subst h
                exact loopC_inv (libItem libs) (fun s => LibInv libs s.defs)
                  (fun a ys b ha hb => libItem_inv libs a b ys ha hb) _ _ st rest (libInv_nil libs) hv
    · cases h

/-! ### the design construct -/

theorem defAt_append (libs : List CLib) (l : CLib) (r : Nat × Nat) (h : (defAt libs r).isSome = true) :
    (defAt (libs ++ [l]) r).isSome = true := by
  unfold defAt at *
  cases hl : libs[r.1]? with
  | none => simp [hl] at h
  | some l0 =>
    rw [List.getElem?_append_left (getElem?_lt _ _ _ hl), hl]
    simpa [hl] using h

theorem parseDesign_top (libs : List CLib) (ys : List SExp) (t : CInst) (h : parseDesign libs ys = .ok t) :
    ∃ r, t.ref = some r ∧ (defAt libs r).isSome = true := by
  unfold parseDesign at h
  split at h
  · simp only [bind, Except.bind] at h
    split at h
    · cases h
    · split at h
      · split at h
        · cases h
        · split at h
          · cases h
          · split at h
            · cases h
            · split at h
              · cases h
              · rename_i li0 _ _ l0 hl0 _ di0 hdi
                simp only [pure, Except.pure, Except.ok.injEq] at h
                subst h
                refine ⟨(li0, di0), rfl, ?_⟩
                have := findIdent_lt _ _ _ hdi
                simp only [List.length_map] at this
                simp [defAt, hl0, this]
      · cases h
  · cases h

/-! ### the body of the file -/

structure BodyInv (libs : List CLib) (top : Option CInst) : Prop where
  names : NoClash (libs.map (·.data))
  hlibs : ∀ L l, libs[L]? = some l → LibInv (libs.take L) l.defs
  htop : ∀ t, top = some t → ∃ r, t.ref = some r ∧ (defAt libs r).isSome = true

theorem bodyItem_inv (st st' : BodySt) (ys : List SExp) (h : BodyInv st.libs st.top)
    (hs : bodyItem st ys = .ok st') : BodyInv st'.libs st'.top := by
  unfold bodyItem at hs
  split at hs
  · split at hs
    · cases hs
    · simp only [bind, Except.bind] at hs
      split at hs
      · cases hs
      · simp only [pure, Except.pure, Except.ok.injEq] at hs; subst hs; exact h
  · split at hs
    · simp only [bind, Except.bind] at hs
      split at hs
      · cases hs
      · rename_i l hl
        split at hs
        · cases hs
        · rename_i hc
          simp only [pure, Except.pure, Except.ok.injEq] at hs
          subst hs
          have hli := parseLibrary_inv _ _ _ l hl
          refine ⟨by simpa using noClash_snoc _ _ h.names (by simpa using hc), ?_, ?_⟩
          · intro L l' hL
            simp only at hL
            by_cases hlt : L < st.libs.length
            · rw [List.getElem?_append_left hlt] at hL
              have : (st.libs ++ [l]).take L = st.libs.take L := by
                rw [List.take_append_of_le_length (by omega)]
              simp only [this]
              exact h.hlibs L l' hL
            · have hk2 : L = st.libs.length := by
                have := getElem?_lt _ _ _ hL
                simp at this; omega
              subst hk2
              simp at hL
              subst hL
              simpa using hli
          · intro t ht
            obtain ⟨r, hr, hd⟩ := h.htop t ht
            exact ⟨r, hr, defAt_append _ _ _ hd⟩
    · split at hs
      · simp only [bind, Except.bind] at hs
        split at hs
        · cases hs
        · rename_i t ht
          simp only [pure, Except.pure, Except.ok.injEq] at hs
          subst hs
          refine ⟨h.names, h.hlibs, ?_⟩
          intro t' ht'
          simp only [Option.some.injEq] at ht'
          subst ht'
          exact parseDesign_top _ ys _ ht
      · split at hs
        · simp only [bind, Except.bind] at hs
          split at hs
          · cases hs
          · simp only [pure, Except.pure, Except.ok.injEq] at hs; subst hs; exact h
        · split at hs <;> cases hs

theorem ofSExp_inv (e : SExp) (n : CNetlist) (h : ofSExp e = .ok n) : BodyInv n.libs n.top := by
  unfold ofSExp at h
  split at h
  · cases h
  · split at h
    · cases h
    · simp only [bind, Except.bind] at h
      split at h
      · cases h
      · split at h
        · split at h
          · cases h
          · split at h
            · cases h
            · split at h
              · cases h
              · split at h
                · cases h
                · split at h
                  · cases h
                  · split at h
                    · split at h
                      · cases h
                      · split at h
                        · cases h
                        · split at h
                          · cases h
                          · rename_i v hv
                            obtain ⟨st, rest⟩ := v
                            split at h
                            · cases h
                            · simp only [pure, Except.pure, Except.ok.injEq] at h
                              subst h
                              have h0 : BodyInv ([] : List CLib) none :=
                                ⟨List.Pairwise.nil, (by intro L l hl; simp at hl), (by intro t ht; cases ht)⟩
                              exact loopC_inv bodyItem (fun s => BodyInv s.libs s.top)
                                (fun a ys b ha hb => bodyItem_inv a b ys ha hb) _ _ st rest h0 hv
                    · cases h
                    · cases h
        · cases h

/-! ### from the invariants to `StructWF` -/

theorem lookAt_defAt (libs : List CLib) (L D : Nat) (l : CLib) (hl : libs[L]? = some l) (r : Nat × Nat) (d' : CDef)
    (h : (lookAt (libs.take L) (l.defs.take D) r.1)[r.2]? = some d') :
    PrecedesB L D r = true ∧ defAt libs r = some d' := by
  have hL : L < libs.length := getElem?_lt _ _ _ hl
  have hlen : (libs.take L).length = L := by simp; omega
  unfold lookAt at h
  rw [hlen] at h
  by_cases he : r.1 = L
  · rw [if_pos he, List.getElem?_take] at h
    split at h
    · rename_i hlt
      refine ⟨by simp [PrecedesB, he, hlt], ?_⟩
      simp [defAt, he, hl, h]
    · cases h
  · rw [if_neg he, List.getElem?_take] at h
    by_cases hlt : r.1 < L
    · rw [if_pos hlt] at h
      cases hl2 : libs[r.1]? with
      | none => rw [hl2] at h; simp at h
      | some l2 =>
        rw [hl2] at h
        simp only at h
        exact ⟨by simp [PrecedesB, hlt], by simp [defAt, hl2, h]⟩
    · rw [if_neg hlt] at h
      simp at h

theorem defAt_some (libs : List CLib) (r : Nat × Nat) (d : CDef) (h : defAt libs r = some d) :
    ∃ l, libs[r.1]? = some l ∧ l.defs[r.2]? = some d := by
  unfold defAt at h
  cases hl : libs[r.1]? with
  | none => simp [hl] at h
  | some l => exact ⟨l, rfl, by simpa [hl] using h⟩

theorem portBitOK_of (ports : List CPort) (hs : ∀ p ∈ ports, PortShapeB p = true) (pi bi : Nat) (p : CPort)
    (hp : ports[pi]? = some p) (hb : bi < p.width) : PortBitOK ports pi bi = true := by
  have := hs p (List.mem_of_getElem? hp)
  simp only [PortShapeB, Bool.or_eq_true, decide_eq_true_eq] at this
  simp only [PortBitOK, hp, Bool.and_eq_true, decide_eq_true_eq, Bool.or_eq_true]
  refine ⟨hb, ?_⟩
  rcases this with h1 | h1
  · exact Or.inl h1
  · exact Or.inr (by omega)

/-- **whatever satisfies the reader's invariants is structurally well-formed** -/
theorem structWF_of_inv (n : CNetlist) (h : BodyInv n.libs n.top) : StructWF n := by
  have hall : ∀ L l, n.libs[L]? = some l → ∀ D d, l.defs[D]? = some d →
      DefInv (lookAt (n.libs.take L) (l.defs.take D)) d :=
    fun L l hl D d hd => (h.hlibs L l hl).cells D d hd
  refine ⟨h.names, ?_, ?_, ?_⟩
  · intro p hp
    have hl := List.mem_zipIdx_iff_getElem?.mp hp
    exact (h.hlibs p.2 p.1 hl).names
  · intro p hp q hq
    have hl := List.mem_zipIdx_iff_getElem?.mp hp
    have hd := List.mem_zipIdx_iff_getElem?.mp hq
    obtain ⟨l, L⟩ := p
    obtain ⟨d, D⟩ := q
    simp only at hl hd ⊢
    obtain ⟨ht, hnd⟩ := hall L l hl D d hd
    refine ⟨ht.hports, List.all_eq_true.mpr ht.hshape, ht.hinsts, ?_, ht.hcabs.names, ?_, hnd⟩
    · rw [List.all_eq_true]
      intro i hi
      unfold InstRefOK
      obtain ⟨r, hr, d', hd'⟩ := ht.hrefs i hi
      obtain ⟨h1, h2⟩ := lookAt_defAt n.libs L D l hl r d' hd'
      simp [hr, h1, h2]
    · rw [List.all_eq_true]
      intro c hc
      simp only [CableOKB, Bool.and_eq_true, Bool.not_eq_true', List.isEmpty_eq_false_iff, List.all_eq_true]
      refine ⟨ht.hcabs.wires c hc, ?_⟩
      intro w hw pin hp
      have hpin := ht.hcabs.pins c hc pin (List.mem_flatten.mpr ⟨w, hw, hp⟩)
      cases pin with
      | port pi bi =>
        obtain ⟨p, hpp, hb⟩ := hpin
        exact portBitOK_of d.ports ht.hshape pi bi p hpp hb
      | inst ii pi bi =>
        obtain ⟨i, li, di, rd, p, hi, hr, hrd, hpp, hb⟩ := hpin
        obtain ⟨_, h2⟩ := lookAt_defAt n.libs L D l hl (li, di) rd hrd
        obtain ⟨l2, hl2, hrd2⟩ := defAt_some n.libs (li, di) rd h2
        have hshape2 := (hall li l2 hl2 di rd hrd2).1.hshape
        simp only [PinOKB, hi, hr, h2]
        exact portBitOK_of rd.ports hshape2 pi bi p hpp hb
  · unfold TopOKB
    cases ht : n.top with
    | none => rfl
    | some t =>
      obtain ⟨r, hr, hd⟩ := h.htop t ht
      simp [hr, hd]

/-- **reader_accepts_wellformed** (s-expression level) -/
theorem structWF_ofSExp (e : SExp) (n : CNetlist) (h : ofSExp e = .ok n) : StructWF n :=
  structWF_of_inv n (ofSExp_inv e n h)

/-- … from characters -/
theorem structWF_readEdif (text : List Char) (n : CNetlist) (h : readEdif text = .ok n) : StructWF n := by
  unfold readEdif at h
  split at h
  · exact structWF_ofSExp _ n h
  · cases h

end Spydr.Edif
