/-
  C05 / C15, specification side: `StructWF` — the structural well-formedness of a netlist value the
  properties demand of everything the reader returns ("well-formed, self-contained", "never
  half-built").  A decidable predicate on the model netlist alone; no reader function is used.

    * siblings (libraries; definitions of a library; ports, instances, cables of a definition) carry
      pairwise different EDIF identifiers ignoring letter case and pairwise different names;
    * EVERY instance has a reference, and it references a cell declared in the netlist BEFORE the cell
      it stands in (no instance without reference, no forward reference, no cell instantiating itself);
    * every cable has at least one wire; every pin on a wire is an existing bit of a port of the
      enclosing cell, or an existing bit of a port of the cell referenced by an instance of the
      enclosing cell (bit 0 for a non-array port);
    * no port bit / instance pin sits on two wires (or twice on one);
    * a non-array port has exactly one pin;
    * the top instance, if there is one, references a cell declared in the netlist.
  No Mathlib.
-/
import Spydr.Edif.ModelRead
namespace Spydr.Edif

/-- two sibling dictionaries collide: same EDIF identifier ignoring case, or same name -/
def clash (a b : Data) : Bool :=
  (match identOf a, identOf b with
   | some x, some y => lower x == lower y
   | _, _ => false) ||
  (match nameOf a, nameOf b with
   | some x, some y => x == y
   | _, _ => false)

def NoClash (ds : List Data) : Prop := ds.Pairwise fun a b => clash a b = false

instance (ds : List Data) : Decidable (NoClash ds) := by unfold NoClash; infer_instance

/-- the definition at (library index, definition index) -/
def defAt (libs : List CLib) (r : Nat × Nat) : Option CDef := (libs[r.1]?).bind fun l => l.defs[r.2]?

/-- position `r` precedes the cell at (L, D) in the file -/
def PrecedesB (L D : Nat) (r : Nat × Nat) : Bool := decide (r.1 < L) || (decide (r.1 = L) && decide (r.2 < D))

/-- an instance of the cell at (L, D): it has a reference, to a declared cell that precedes -/
def InstRefOK (libs : List CLib) (L D : Nat) (i : CInst) : Bool :=
  match i.ref with
  | none => false
  | some r => PrecedesB L D r && (defAt libs r).isSome

def PortBitOK (ps : List CPort) (pi bi : Nat) : Bool :=
  match ps[pi]? with
  | some p => decide (bi < p.width) && (p.isArray || decide (bi = 0))
  | none => false

/-- a pin on a wire of cell `d` -/
def PinOKB (libs : List CLib) (d : CDef) : CPin → Bool
  | .port pi bi => PortBitOK d.ports pi bi
  | .inst ii pi bi =>
    match d.insts[ii]? with
    | none => false
    | some i =>
      match i.ref with
      | none => false
      | some r =>
        match defAt libs r with
        | none => false
        | some rd => PortBitOK rd.ports pi bi

def CableOKB (libs : List CLib) (d : CDef) (c : CCable) : Bool :=
  !c.wires.isEmpty && c.wires.all fun w => w.all (PinOKB libs d)

def PortShapeB (p : CPort) : Bool := p.isArray || decide (p.width = 1)

/-- everything about the cell at (L, D) -/
structure DefWF (libs : List CLib) (L D : Nat) (d : CDef) : Prop where
  ports : NoClash (d.ports.map (·.data))
  shape : d.ports.all PortShapeB = true
  insts : NoClash (d.insts.map (·.data))
  refs : d.insts.all (InstRefOK libs L D) = true
  cables : NoClash (d.cables.map (·.data))
  wires : d.cables.all (CableOKB libs d) = true
  once : (d.cables.flatMap fun c => c.wires.flatten).Nodup

instance (libs : List CLib) (L D : Nat) (d : CDef) : Decidable (DefWF libs L D d) :=
  decidable_of_iff (NoClash (d.ports.map (·.data)) ∧ d.ports.all PortShapeB = true ∧ NoClash (d.insts.map (·.data)) ∧
      d.insts.all (InstRefOK libs L D) = true ∧ NoClash (d.cables.map (·.data)) ∧ d.cables.all (CableOKB libs d) = true ∧
      (d.cables.flatMap fun c => c.wires.flatten).Nodup)
    ⟨fun ⟨a, b, c, e, f, g, h⟩ => ⟨a, b, c, e, f, g, h⟩, fun h => ⟨h.ports, h.shape, h.insts, h.refs, h.cables, h.wires, h.once⟩⟩

def TopOKB (n : CNetlist) : Bool :=
  match n.top with
  | none => true
  | some t =>
    match t.ref with
    | none => false
    | some r => (defAt n.libs r).isSome

/-- **structural well-formedness of a netlist** -/
structure StructWF (n : CNetlist) : Prop where
  libs : NoClash (n.libs.map (·.data))
  defs : ∀ p ∈ n.libs.zipIdx, NoClash (p.1.defs.map (·.data))
  cells : ∀ p ∈ n.libs.zipIdx, ∀ q ∈ p.1.defs.zipIdx, DefWF n.libs p.2 q.2 q.1
  top : TopOKB n = true

instance (n : CNetlist) : Decidable (StructWF n) :=
  decidable_of_iff (NoClash (n.libs.map (·.data)) ∧ (∀ p ∈ n.libs.zipIdx, NoClash (p.1.defs.map (·.data))) ∧
      (∀ p ∈ n.libs.zipIdx, ∀ q ∈ p.1.defs.zipIdx, DefWF n.libs p.2 q.2 q.1) ∧ TopOKB n = true)
    ⟨fun ⟨a, b, c, e⟩ => ⟨a, b, c, e⟩, fun h => ⟨h.libs, h.defs, h.cells, h.top⟩⟩

/-- the stricter reading "EVERY instance references a declared cell" -/
def AllInstancesReferenced (n : CNetlist) : Prop :=
  ∀ l ∈ n.libs, ∀ d ∈ l.defs, ∀ i ∈ d.insts, i.ref.isSome = true

instance (n : CNetlist) : Decidable (AllInstancesReferenced n) := by unfold AllInstancesReferenced; infer_instance

end Spydr.Edif
