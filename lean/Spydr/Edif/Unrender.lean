/-
  `unrender`: from the s-expression of a (stripped) EDIF file back to an abstract design.

  UNTRUSTED helper of the evidence counters: nothing is proved about it and nothing needs to be. The driver
  uses it to decide whether a given text lies inside `C05.edif_reader_spec_erased`: it parses the text to `e`,
  computes `d := unrender (strip e)` and then CHECKS the hypotheses of the theorem themselves —
  `d.wf = true` and `norm (strip e) = norm (render d)` (`insideClause` below; both decidable). A wrong guess
  here can only make the check fail.
  No Mathlib.
-/
import Spydr.Edif.Erase7
import Spydr.Edif.Fragment
import Spydr.Edif.Kw5
namespace Spydr.Edif.Unr

abbrev U := Except String

def atomOf (what : String) : SExp → U Str
  | .atom s => pure s
  | .list _ => throw (what ++ ": atom expected")

def unq (s : Str) : U Str :=
  match stringTok s with
  | some t => pure t
  | none => throw "string token expected"

def natOf (s : Str) : U Nat :=
  match intTok s with
  | .ok i => if 0 ≤ i then pure i.toNat else throw "negative number"
  | _ => throw "number expected"

def nameOfS (x : SExp) : U AName :=
  match x with
  | .atom s => pure ⟨s, none⟩
  | .list [k, .atom i, .atom o] => if isKw k "rename" then do pure ⟨i, some (← unq o)⟩ else throw "name: rename expected"
  | _ => throw "name"

def valOfS (x : SExp) : U AVal :=
  match x with
  | .list [k, .atom v] =>
    if isKw k "string" then do pure (.str (← unq v))
    else if isKw k "integer" then
      match intTok v with
      | .ok i => pure (.int i)
      | _ => throw "property: integer"
    else throw "property_type"
  | .list [k, .list [.atom b]] =>
    if isKw k "boolean" then
      if lower b == S "true" then pure (.bool true)
      else if lower b == S "false" then pure (.bool false)
      else throw "property: boolean"
    else throw "property_type"
  | _ => throw "property_type"

def propOfS (ys : List SExp) : U AProp :=
  match ys with
  | [_, nm, v] => do pure ⟨← nameOfS nm, ← valOfS v⟩
  | _ => throw "property: shape"

def dirOfS (items : List SExp) : U Dir :=
  match items with
  | [] => pure .undefined
  | [.list [k, t]] =>
    if !isKw k "direction" then throw "port: unexpected item"
    else if isKw t "inout" then pure .inout
    else if isKw t "input" then pure .inp
    else if isKw t "output" then pure .out
    else throw "port: direction"
  | _ => throw "port: unexpected items"

def portOfS (ys : List SExp) : U APort :=
  match ys with
  | _ :: .list [k, nm, .atom n] :: items =>
    if isKw k "array" then do pure { name := ← nameOfS nm, dir := ← dirOfS items, array := some (← natOf n) }
    else do pure { name := ← nameOfS (.list [k, nm, .atom n]), dir := ← dirOfS items }
  | _ :: nm :: items => do pure { name := ← nameOfS nm, dir := ← dirOfS items }
  | _ => throw "port: shape"

/-- position of the first element whose identifier equals `s` ignoring case -/
def findCI {α : Type} (f : α → Str) (xs : List α) (s : Str) : Option Nat := xs.findIdx? fun x => lower (f x) == lower s

/-- what has been read when a cell is reached: the libraries before, the library being read (its
    name and the cells so far) -/
structure Ctx where
  libs : List ALib
  cur : AName
  cells : List ACell

def Ctx.cellsOf (cx : Ctx) (li : Nat) : List ACell :=
  if li = cx.libs.length then cx.cells else
  match cx.libs[li]? with
  | some l => l.cells
  | none => []

def instOfS (cx : Ctx) (ys : List SExp) : U AInst :=
  match ys with
  | _ :: nm :: .list [_, .atom v, .list (_ :: .atom c :: lr)] :: props => do
    let (li, lsp, om) ← (match lr with
      | [] => pure (cx.libs.length, cx.cur.ident, true)
      | [.list [_, .atom l]] =>
        if lower cx.cur.ident == lower l then pure (cx.libs.length, l, false)
        else match findCI (fun (x : ALib) => x.name.ident) cx.libs l with
          | some i => pure (i, l, false)
          | none => throw "instance: library not found"
      | _ => throw "instance: cellRef shape" : U (Nat × Str × Bool))
    match findCI (fun (x : ACell) => x.name.ident) (cx.cellsOf li) c with
    | none => throw "instance: cell not found"
    | some di =>
      let ps ← props.mapM fun p => match p with
        | .list zs => if headIs zs "property" then propOfS zs else throw "instance: unexpected item"
        | _ => throw "instance: unexpected atom"
      pure { name := ← nameOfS nm, li := li, di := di, viewSp := v, cellSp := c, libSp := lsp, props := ps, libOmit := om }
  | _ => throw "instance_without_complete_reference"

def pinOfS (cx : Ctx) (ports : List APort) (insts : List AInst) (ys : List SExp) : U APin :=
  match ys with
  | _ :: first :: rest => do
    let (sp, bit) ← (match first with
      | .atom s => pure (s, none)
      | .list [_, .atom s, .atom k] => do pure (s, some (← natOf k))
      | _ => throw "portRef: shape" : U (Str × Option Nat))
    match rest with
    | [] =>
      match findCI (fun (p : APort) => p.name.ident) ports sp with
      | some pi => pure (.port pi bit sp)
      | none => throw "portRef: port not found"
    | [.list [_, .atom isp]] =>
      match findCI (fun (i : AInst) => i.name.ident) insts isp with
      | none => throw "portRef: instance not found"
      | some ii =>
        match insts[ii]? with
        | none => throw "portRef: instance"
        | some i =>
          match (cx.cellsOf i.li)[i.di]? with
          | none => throw "portRef: referenced cell"
          | some rc =>
            match findCI (fun (p : APort) => p.name.ident) rc.ports sp with
            | some pi => pure (.inst ii pi bit sp isp)
            | none => throw "portRef: port of the referenced cell not found"
    | _ => throw "portRef: shape"
  | _ => throw "portRef: shape"

def kindOfS (nm : SExp) : U ANetKind := do
  let a ← nameOfS nm
  match a.orig with
  | none => pure (.scalar a)
  | some o =>
    match sepIdent a.ident, sepName o with
    | (some j, bi), (some i, bn) => pure (.bit bi bn i j)
    | _, _ => pure (.scalar a)

def netOfS (cx : Ctx) (ports : List APort) (insts : List AInst) (ys : List SExp) : U ANet :=
  match ys with
  | [_, nm, .list (_ :: pins)] => do
    let ps ← pins.mapM fun p => match p with
      | .list zs => pinOfS cx ports insts zs
      | _ => throw "joined: atom"
    pure ⟨← kindOfS nm, ps⟩
  | _ => throw "net: shape"

def cellOfS (cx : Ctx) (ys : List SExp) : U ACell :=
  match ys with
  | [_, nm, _, .list (_ :: .atom v :: _ :: .list (_ :: ports) :: more)] => do
    let ps ← ports.mapM fun p => match p with
      | .list zs => if headIs zs "port" then portOfS zs else throw "interface: unexpected item"
      | _ => throw "interface: atom"
    let items ← (match more with
      | [] => pure []
      | [.list (_ :: items)] => pure items
      | _ => throw "view: unexpected items" : U (List SExp))
    let is := items.filter fun x => match x with | .list zs => headIs zs "instance" | _ => false
    let ns := items.filter fun x => match x with | .list zs => !headIs zs "instance" | _ => true
    let insts ← is.mapM fun x => match x with
      | .list zs => instOfS cx zs
      | _ => throw "contents: atom"
    let nets ← ns.mapM fun x => match x with
      | .list zs => if headIs zs "net" then netOfS cx ps insts zs else throw "contents: unexpected item"
      | _ => throw "contents: atom"
    pure { name := ← nameOfS nm, view := v, ports := ps, insts := insts, nets := nets }
  | _ => throw "cell: shape"

def libOfS (libs : List ALib) (ys : List SExp) : U ALib :=
  match ys with
  | kw :: nm :: _ :: _ :: cells => do
    let a ← nameOfS nm
    let cs ← cells.foldlM (fun (acc : List ACell) x => match x with
      | .list zs => do
          let c ← cellOfS { libs := libs, cur := a, cells := acc } zs
          pure (acc ++ [c])
      | _ => throw "library: atom") []
    pure { name := a, cells := cs, external := isKw kw "external" }
  | _ => throw "library: shape"

/-- the abstract design a stripped file would be the rendering of, if it is one -/
def unrender (e : SExp) : U ADesign :=
  match e with
  | .list (_ :: nm :: _ :: _ :: _ :: items) => do
    let name ← nameOfS nm
    let libItems := items.filter fun x => match x with | .list zs => !headIs zs "design" | _ => true
    let desItems := items.filter fun x => match x with | .list zs => headIs zs "design" | _ => false
    let libs ← libItems.foldlM (fun (acc : List ALib) x => match x with
      | .list zs => do
          let l ← libOfS acc zs
          pure (acc ++ [l])
      | _ => throw "edif: atom") []
    match desItems with
    | [.list [_, top, .list [_, .atom c, .list [_, .atom l]]]] =>
      match findCI (fun (x : ALib) => x.name.ident) libs l with
      | none => throw "design: library not found"
      | some li =>
        match findCI (fun (x : ACell) => x.name.ident) ((libs[li]?.map (·.cells)).getD []) c with
        | none => throw "design: cell not found"
        | some di => pure { name := name, libs := libs, top := ← nameOfS top, topLi := li, topDi := di, topCellSp := c, topLibSp := l }
    | [] => throw "no_design"
    | _ => throw "design: shape"
  | _ => throw "edif: shape"

/-- is the file `e` inside `C05.edif_reader_spec_erased`?  `none`: yes — the model accepts `e`, `strip e` is
    (up to keyword case) the rendering of `d := unrender (strip e)` and `d.wf`; `some reason`: the first
    hypothesis that fails -/
def insideClause (e : SExp) : Option String :=
  match ofSExp e with
  | .error _ => some "rejected_by_the_model"
  | .ok _ =>
    match unrender (strip e) with
    | .error why => some ("unrender." ++ why)
    | .ok d =>
      if !(norm (strip e)).beq (norm (render d)) then some "strip_is_not_a_rendering"
      else match wfClause d with
        | some c => some ("wf." ++ c)
        | none => none

mutual
theorem beq_sound : ∀ (a b : SExp), a.beq b = true → a = b
  | .atom x, .atom y, h => by simp only [SExp.beq, beq_iff_eq] at h; rw [h]
  | .list xs, .list ys, h => by simp only [SExp.beq] at h; rw [beqL_sound xs ys h]
  | .atom _, .list _, h => by simp [SExp.beq] at h
  | .list _, .atom _, h => by simp [SExp.beq] at h
theorem beqL_sound : ∀ (xs ys : List SExp), SExp.beqL xs ys = true → xs = ys
  | [], [], _ => rfl
  | x :: xs, y :: ys, h => by
      simp only [SExp.beqL, Bool.and_eq_true] at h
      rw [beq_sound x y h.1, beqL_sound xs ys h.2]
  | [], _ :: _, h => by simp [SExp.beqL] at h
  | _ :: _, [], h => by simp [SExp.beqL] at h
end

end Spydr.Edif.Unr
