/-
  A concrete three-level design used by the non-vacuity examples:
    leaf(port I[pin 2])            mid(port I[pin 4]; child l:leaf; wire 7 = {I, l.I})
    top(children a:mid, b:mid; wire 11 = {a.I, b.I}  -- touches only instance pins)
  `mid` is shared (reached through `a` and through `b`).
-/
import Spydr.Hier.Spec

namespace Spydr.Hier

def exD : Design :=
  { defs :=
      [ { ports := [⟨1, "I", false, 0, [2]⟩], cables := [], children := [], inNl := true },
        { ports := [⟨3, "I", false, 0, [4]⟩],
          cables := [⟨6, "n", false, 0, [⟨7, [.inner 4, .outer 5 2]⟩]⟩],
          children := [⟨5, "l", some 0⟩], inNl := true },
        { ports := [⟨13, "B", true, 2, [14, 15]⟩],
          cables := [⟨10, "t", true, 3, [⟨11, [.outer 8 4, .outer 9 4]⟩, ⟨16, [.inner 14]⟩]⟩],
          children := [⟨8, "a", some 1⟩, ⟨9, "b", some 1⟩], inNl := true } ],
    top := some ⟨12, "top", some 2⟩ }

end Spydr.Hier
