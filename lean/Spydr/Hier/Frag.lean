/-
  Reach of the headline theorems: for one generated case (loaded design + one query) decide whether
  the case lies inside the fragment a theorem speaks about, i.e. evaluate the theorem's decidable
  hypotheses on that very case.  Returns, per applicable theorem, "in" or the name of the first
  hypothesis that fails.  Bookkeeping only: no verdict depends on it.  No Mathlib.
-/
import Spydr.Hier.Spec

namespace Spydr.Hier

/-- design-level hypotheses, evaluated once when the design is loaded -/
structure Flags where
  wf : Bool
  wfnet : Bool
  sorted : Bool
  deriving Repr, Inhabited

def Flags.of (d : Design) : Flags := ⟨wfCheck d, wfNetCheck d, sortedCheck d⟩

/-- first failing hypothesis among `(name, holds)` pairs, or "in" -/
def firstFailing (hyps : List (String × Bool)) : String :=
  match hyps.find? (fun h => !h.2) with
  | some h => "out:" ++ h.1
  | none => "in"

def kindName (d : Design) (h : HRef) : String :=
  match resolve d h with
  | some (.inst _) => "inst"
  | some (.port _) => "port"
  | some (.pin _ _) => "pin"
  | some (.cable _) => "cable"
  | some (.wire _ _) => "wire"
  | none => "invalid"

def fnSpec (f : String) : String :=
  match f with
  | "hinst" => "hinstances"
  | "hport" => "hports"
  | "hpin" => "hpins"
  | "hcable" => "hcables"
  | _ => "hwires"

/-- theorems that speak about the query `f(root, rec, sel)` on design `d`, each with its verdict -/
def fragOfQuery (d : Design) (fl : Flags) (f : String) (root : Root) (sel : Sel) : List (String × String) :=
  let wf := ("WF", fl.wf)
  let srt := ("Acyclic", fl.sorted)
  let net := ("WFNet", fl.wfnet)
  let top := ("topInst=some", d.topInst.isSome)
  let narrowOrAll := f == "hwire" || f == "hcable"
  match root with
  | .href h =>
    let k := kindName d h
    if k == "invalid" then [("queries_on_invalid", firstFailing [wf])]
    else if k == "inst" then
      (if sel == .inside then [(fnSpec f ++ "_spec", firstFailing [wf, srt])]
       else [("no-theorem/non-INSIDE-selection-on-instance", "out:not-modelled")])
    else if f == "hinst" then [("queries_on_h" ++ k, firstFailing [wf])]
    else if f == "hpin" || f == "hport" then
      (if k == "wire" then
         (if f == "hpin" then [("hpins_of_hwire_spec", firstFailing [wf])]
          else [("no-theorem/get_hports-of-wire", "out:no-theorem")])
       else if k == "cable" then [("no-theorem/get_hpins-or-get_hports-of-cable", "out:no-theorem")]
       else [("queries_on_h" ++ k, firstFailing [wf])])
    else if narrowOrAll then
      let img := if f == "hcable" then
          (if k == "cable" && sel == .inside then [("queries_on_hcable", firstFailing [wf])]
           else [("hcables_image", firstFailing [wf])])
        else []
      let base :=
        match sel with
        | .all =>
          if k == "wire" || k == "pin" then [("trace_all_spec_total", firstFailing [wf, net, srt])]
          else [("trace_all_of_bundle", firstFailing [wf, net]), ("trace_all_total", firstFailing [wf, net, srt])]
        | .inside =>
          if k == "pin" then [("inside_outside_spec", firstFailing [wf, net])]
          else if k == "wire" then [("queries_on_hwire", firstFailing [wf])]
          else if k == "port" then [("narrow_of_port_spec", firstFailing [wf]), ("inside_outside_spec", firstFailing [wf, net])]
          else [("queries_on_hcable", firstFailing [wf])]
        | .outside =>
          if k == "pin" then [("inside_outside_spec", firstFailing [wf, net])]
          else if k == "wire" then [("outside_of_wire_spec", firstFailing [wf, net])]
          else if k == "port" then [("narrow_of_port_spec", firstFailing [wf]), ("inside_outside_spec", firstFailing [wf, net])]
          else [("narrow_of_cable_spec", firstFailing [wf]), ("outside_of_wire_spec", firstFailing [wf, net])]
        | .both =>
          if k == "pin" then [("both_of_pin_spec", firstFailing [wf, net])]
          else if k == "wire" then [("both_of_wire_spec", firstFailing [wf, net])]
          else if k == "port" then [("narrow_of_port_spec", firstFailing [wf]), ("both_of_pin_spec", firstFailing [wf, net])]
          else [("narrow_of_cable_spec", firstFailing [wf]), ("both_of_wire_spec", firstFailing [wf, net])]
      img ++ base
    else []
  | .netlist =>
    if sel == .inside then [(fnSpec f ++ "_netlist_spec", firstFailing [wf, srt, top])]
    else [("no-theorem/non-INSIDE-selection-on-netlist", "out:not-modelled")]
  | .definition _ =>
    [((if f == "hinst" then "hinstances_of_definition_spec" else "hrefs_of_definition_spec"), firstFailing [wf, srt, top])]
  | .library _ =>
    [((if f == "hinst" then "hinstances_of_library_spec" else "hrefs_of_library_spec"), firstFailing [wf, srt, top])]
  | .outerPin _ _ =>
    [((if f == "hinst" then "hinstances_of_outerPin_spec" else "hrefs_of_outerPin_spec"), firstFailing [wf, srt, top])]
  | _ => [("hrefs_of_item_spec", firstFailing [wf, srt, top])]

/-- the per-reference theorems -/
def fragOfRef (d : Design) (fl : Flags) (h : HRef) : List (String × String) :=
  [("isValid_iff", firstFailing [("WF", fl.wf)]),
   ("isUnique_iff", firstFailing [("WF", fl.wf), ("Acyclic", fl.sorted)]),
   ("hrefName_slash_joined", firstFailing [("WF", fl.wf), ("ValidPath", isValid d h)])]

end Spydr.Hier
