/-
  Basic lemmas: list lookups under `Nodup`, what `WF` gives per definition, and the equivalence
  between the executable `resolve` and the inductive `Occ`.
-/
import Mathlib.Tactic.Cases
import Mathlib.Tactic.Tauto
import Mathlib.Data.List.Basic
import Mathlib.Data.List.Nodup
import Spydr.Hier.Spec

namespace Spydr.Hier

/-! ## generic list facts -/

theorem find?_key_of_mem {α : Type} (f : α → Nat) (l : List α) (a : α)
    (hnd : (l.map f).Nodup) (ha : a ∈ l) : l.find? (fun c => f c == f a) = some a := by
  induction l with
  | nil => cases ha
  | cons b l ih =>
    simp only [List.map_cons, List.nodup_cons] at hnd
    rcases List.mem_cons.mp ha with rfl | h
    · simp
    · have hne : f b ≠ f a := by
        intro he
        exact hnd.1 (he ▸ List.mem_map_of_mem h)
      simp [List.find?_cons, hne, ih hnd.2 h]

theorem find?_key_some {α : Type} (f : α → Nat) (l : List α) (x : Nat) (a : α)
    (h : l.find? (fun c => f c == x) = some a) : a ∈ l ∧ f a = x := by
  have h1 := List.mem_of_find?_eq_some h
  have h2 := List.find?_some h
  exact ⟨h1, by simpa using h2⟩

theorem find?_key_none {α : Type} (f : α → Nat) (l : List α) (x : Nat)
    (h : l.find? (fun c => f c == x) = none) : ∀ a ∈ l, f a ≠ x := by
  intro a ha he
  have := List.find?_eq_none.mp h a ha
  simp [he] at this


theorem mem_defs_of_get {d : Design} {r : Nat} {D : Defn} (h : d.defs[r]? = some D) : D ∈ d.defs :=
  List.mem_of_getElem? h

theorem WF.localWF {d : Design} (h : WF d) {D : Defn} (hD : D ∈ d.defs) : D.LocalWF := h.1 D hD

theorem Defn.LocalWF.child_lookup {D : Defn} (h : D.LocalWF) {c : Inst} (hc : c ∈ D.children) :
    D.child? c.id = some c := by
  have h1 := h.1
  rw [List.nodup_append] at h1
  exact find?_key_of_mem (fun c => c.id) D.children c h1.1 hc

theorem Defn.LocalWF.child_none_of_port {D : Defn} (h : D.LocalWF) {P : Port} (hP : P ∈ D.ports) :
    D.child? P.id = none := by
  have h1 := h.1
  rw [List.nodup_append] at h1
  unfold Defn.child?
  rw [List.find?_eq_none]
  intro c hc
  have := h1.2.2 c.id (List.mem_map_of_mem hc) P.id (List.mem_append_left _ (List.mem_map_of_mem hP))
  simpa using this

theorem Defn.LocalWF.child_none_of_cable {D : Defn} (h : D.LocalWF) {C : Cable} (hC : C ∈ D.cables) :
    D.child? C.id = none := by
  have h1 := h.1
  rw [List.nodup_append] at h1
  unfold Defn.child?
  rw [List.find?_eq_none]
  intro c hc
  have := h1.2.2 c.id (List.mem_map_of_mem hc) C.id (List.mem_append_right _ (List.mem_map_of_mem hC))
  simpa using this

theorem Defn.LocalWF.port_lookup {D : Defn} (h : D.LocalWF) {P : Port} (hP : P ∈ D.ports) :
    D.port? P.id = some P := by
  have h1 := h.1
  rw [List.nodup_append] at h1
  have h2 := h1.2.1
  rw [List.nodup_append] at h2
  exact find?_key_of_mem (fun c => c.id) D.ports P h2.1 hP

theorem Defn.LocalWF.port_none_of_cable {D : Defn} (h : D.LocalWF) {C : Cable} (hC : C ∈ D.cables) :
    D.port? C.id = none := by
  have h1 := h.1
  rw [List.nodup_append] at h1
  have h2 := h1.2.1
  rw [List.nodup_append] at h2
  unfold Defn.port?
  rw [List.find?_eq_none]
  intro c hc
  have := h2.2.2 c.id (List.mem_map_of_mem hc) C.id (List.mem_map_of_mem hC)
  simpa using this

theorem Defn.LocalWF.cable_lookup {D : Defn} (h : D.LocalWF) {C : Cable} (hC : C ∈ D.cables) :
    D.cable? C.id = some C := by
  have h1 := h.1
  rw [List.nodup_append] at h1
  have h2 := h1.2.1
  rw [List.nodup_append] at h2
  exact find?_key_of_mem (fun c => c.id) D.cables C h2.2.1 hC

theorem Defn.LocalWF.wire_lookup {D : Defn} (h : D.LocalWF) {C : Cable} (hC : C ∈ D.cables) {w : Wire}
    (hw : w ∈ C.wires) : C.wire? w.id = some w := by
  have h3 := h.2.2
  rw [List.nodup_flatMap] at h3
  exact find?_key_of_mem (fun c => c.id) C.wires w (h3.1 C hC) hw


theorem Defn.child?_some {D : Defn} {x : Nat} {c : Inst} (h : D.child? x = some c) : c ∈ D.children ∧ c.id = x :=
  find?_key_some (fun (c : Inst) => c.id) D.children x c h
theorem Defn.port?_some {D : Defn} {x : Nat} {c : Port} (h : D.port? x = some c) : c ∈ D.ports ∧ c.id = x :=
  find?_key_some (fun (c : Port) => c.id) D.ports x c h
theorem Defn.cable?_some {D : Defn} {x : Nat} {c : Cable} (h : D.cable? x = some c) : c ∈ D.cables ∧ c.id = x :=
  find?_key_some (fun (c : Cable) => c.id) D.cables x c h
theorem Cable.wire?_some {C : Cable} {x : Nat} {c : Wire} (h : C.wire? x = some c) : c ∈ C.wires ∧ c.id = x :=
  find?_key_some (fun (c : Wire) => c.id) C.wires x c h

theorem topInst_eq_some {d : Design} {t : Inst} :
    d.topInst = some t ↔ d.top = some t ∧ ∃ r D, t.ref = some r ∧ d.defs[r]? = some D ∧ D.inNl = true := by
  unfold Design.topInst Design.defOf
  constructor
  · intro h
    split at h
    · rename_i t' ht
      split at h
      · rename_i D hD
        split at h
        · rename_i hin
          cases h
          split at hD
          · rename_i r hr
            exact ⟨ht, r, D, hr, hD, hin⟩
          · cases hD
        · cases h
      · cases h
    · cases h
  · rintro ⟨ht, r, D, hr, hD, hin⟩
    simp [ht, hr, hD, hin]

theorem defOf_eq_some {d : Design} {i : Inst} {D : Defn} :
    d.defOf i = some D ↔ ∃ r, i.ref = some r ∧ d.defs[r]? = some D := by
  unfold Design.defOf
  constructor
  · intro h
    split at h
    · rename_i r hr
      exact ⟨r, hr, h⟩
    · cases h
  · rintro ⟨r, hr, hD⟩
    simp [hr, hD]

theorem resolve_sound (d : Design) : ∀ (h : HRef) (e : Elem), resolve d h = some e → Occ d h e
  | [], e, h => by simp [resolve] at h
  | [x], e, h => by
    simp only [resolve] at h
    split at h
    · rename_i t ht
      split at h
      · rename_i hx
        cases h
        obtain ⟨h1, r, D, h2, h3, h4⟩ := topInst_eq_some.mp ht
        subst hx
        exact Occ.top h1 h2 h3 h4
      · cases h
    · cases h
  | x :: y :: p, e, h => by
    have ih := resolve_sound d (y :: p)
    simp only [resolve] at h
    split at h
    · rename_i i hi
      have hoi := ih _ hi
      split at h
      · rename_i D hD
        obtain ⟨r, hr, hD'⟩ := defOf_eq_some.mp hD
        split at h
        · rename_i c hc
          cases h
          obtain ⟨hm, hid⟩ := Defn.child?_some hc
          subst hid
          exact Occ.child hoi hr hD' hm
        · split at h
          · rename_i P hP
            cases h
            obtain ⟨hm, hid⟩ := Defn.port?_some hP
            subst hid
            exact Occ.port hoi hr hD' hm
          · split at h
            · rename_i C hC
              cases h
              obtain ⟨hm, hid⟩ := Defn.cable?_some hC
              subst hid
              exact Occ.cable hoi hr hD' hm
            · cases h
      · cases h
    · rename_i P hP
      split at h
      · rename_i hx
        cases h
        exact Occ.pin (ih _ hP) hx
      · cases h
    · rename_i C hC
      split at h
      · rename_i w hw
        cases h
        obtain ⟨hm, hid⟩ := Cable.wire?_some hw
        subst hid
        exact Occ.wire (ih _ hC) hm
      · cases h
    · cases h

theorem Occ.ne_nil {d : Design} {h : HRef} {e : Elem} (ho : Occ d h e) : h ≠ [] := by
  cases ho <;> simp

theorem resolve_complete {d : Design} (hwf : WF d) {h : HRef} {e : Elem} (ho : Occ d h e) :
    resolve d h = some e := by
  induction ho with
  | top h1 h2 h3 h4 =>
    have := topInst_eq_some.mpr ⟨h1, _, _, h2, h3, h4⟩
    simp [resolve, this]
  | @child p i c r D hp hr hD hc ih =>
    obtain ⟨y, p', rfl⟩ := List.exists_cons_of_ne_nil hp.ne_nil
    have hl : D.LocalWF := hwf.localWF (mem_defs_of_get hD)
    simp only [resolve, ih, defOf_eq_some.mpr ⟨r, hr, hD⟩, hl.child_lookup hc]
  | @port p i r D P hp hr hD hP ih =>
    obtain ⟨y, p', rfl⟩ := List.exists_cons_of_ne_nil hp.ne_nil
    have hl : D.LocalWF := hwf.localWF (mem_defs_of_get hD)
    simp only [resolve, ih, defOf_eq_some.mpr ⟨r, hr, hD⟩, hl.child_none_of_port hP, hl.port_lookup hP]
  | @pin h P q hp hq ih =>
    obtain ⟨y, p', rfl⟩ := List.exists_cons_of_ne_nil hp.ne_nil
    simp only [resolve, ih, hq, if_true]
  | @cable p i r D C hp hr hD hC ih =>
    obtain ⟨y, p', rfl⟩ := List.exists_cons_of_ne_nil hp.ne_nil
    have hl : D.LocalWF := hwf.localWF (mem_defs_of_get hD)
    simp only [resolve, ih, defOf_eq_some.mpr ⟨r, hr, hD⟩, hl.child_none_of_cable hC, hl.port_none_of_cable hC,
      hl.cable_lookup hC]
  | @wire h C w hp hw ih =>
    obtain ⟨y, p', rfl⟩ := List.exists_cons_of_ne_nil hp.ne_nil
    have hD : ∃ D ∈ d.defs, C ∈ D.cables := by
      cases hp with
      | cable _ _ hD hC => exact ⟨_, mem_defs_of_get hD, hC⟩
    obtain ⟨D, hDm, hC⟩ := hD
    simp only [resolve, ih, Defn.LocalWF.wire_lookup (hwf.localWF hDm) hC hw]

theorem resolve_iff {d : Design} (hwf : WF d) (h : HRef) (e : Elem) : resolve d h = some e ↔ Occ d h e :=
  ⟨resolve_sound d h e, resolve_complete hwf⟩

theorem Occ.unique {d : Design} (hwf : WF d) {h : HRef} {e e' : Elem} (h1 : Occ d h e) (h2 : Occ d h e') : e = e' := by
  have a := resolve_complete hwf h1
  have b := resolve_complete hwf h2
  rw [a] at b
  exact Option.some.inj b

theorem isValid_iff' {d : Design} (hwf : WF d) (h : HRef) : isValid d h = true ↔ ValidPath d h := by
  unfold isValid ValidPath
  rw [Option.isSome_iff_exists]
  exact exists_congr (fun e => resolve_iff hwf h e)

end Spydr.Hier
