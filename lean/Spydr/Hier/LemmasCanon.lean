/-
  Canonicity (`__eq__`, flyweight interning) and names (`HRef.name`).
-/
import Spydr.Hier.LemmasEnum

namespace Spydr.Hier

/-! ## canonicity -/

theorem hrefEq_iff : ∀ (a b : HRef), hrefEq a b = true ↔ a = b
  | [], [] => by simp [hrefEq]
  | [], _ :: _ => by simp [hrefEq]
  | _ :: _, [] => by simp [hrefEq]
  | x :: p, y :: q => by
    simp only [hrefEq, Bool.and_eq_true, beq_iff_eq, List.cons.injEq, hrefEq_iff p q]

/-- table invariant: identities are below `next`, and no value / identity is listed twice -/
def Fly.Inv (t : Fly) : Prop :=
  (∀ e ∈ t.table, e.2 < t.next) ∧ t.table.Pairwise (fun e1 e2 => e1.1 ≠ e2.1 ∧ e1.2 ≠ e2.2)

theorem Fly.inv_empty : Fly.empty.Inv := by
  simp [Fly.Inv, Fly.empty]

theorem Fly.find_iff (t : Fly) (h : HRef) (e : HRef × Nat) :
    t.table.find? (fun e => hrefEq e.1 h) = some e → e ∈ t.table ∧ e.1 = h := by
  intro hf
  have h2 := List.find?_some hf
  exact ⟨List.mem_of_find?_eq_some hf, (hrefEq_iff _ _).mp h2⟩

theorem Fly.intern_inv (t : Fly) (h : HRef) (hi : t.Inv) : (t.intern h).1.Inv := by
  unfold Fly.intern
  split
  · exact hi
  · rename_i hnone
    refine ⟨?_, ?_⟩
    · intro e he
      rcases List.mem_cons.mp he with rfl | he
      · exact Nat.lt_succ_self _
      · exact Nat.lt_succ_of_lt (hi.1 e he)
    · refine List.pairwise_cons.mpr ⟨?_, hi.2⟩
      intro e he
      refine ⟨?_, ?_⟩
      · intro heq
        have := List.find?_eq_none.mp hnone e he
        simp only [Bool.not_eq_true] at this
        have h2 := (hrefEq_iff e.1 h).mpr heq.symm
        rw [h2] at this
        cases this
      · exact Nat.ne_of_gt (hi.1 e he)

/-- what `intern` answers is listed in the resulting table -/
theorem Fly.intern_mem (t : Fly) (h : HRef) : (h, (t.intern h).2) ∈ (t.intern h).1.table := by
  unfold Fly.intern
  split
  · rename_i e he
    obtain ⟨h1, h2⟩ := t.find_iff h e he
    rw [← h2]
    exact h1
  · exact List.mem_cons_self

theorem pairwise_fst_unique {l : List (HRef × Nat)}
    (hp : l.Pairwise (fun e1 e2 => e1.1 ≠ e2.1 ∧ e1.2 ≠ e2.2)) {a b : HRef × Nat}
    (ha : a ∈ l) (hb : b ∈ l) (he : a.1 = b.1) : a = b := by
  induction l with
  | nil => cases ha
  | cons c l ih =>
    rw [List.pairwise_cons] at hp
    rcases List.mem_cons.mp ha with rfl | ha' <;> rcases List.mem_cons.mp hb with rfl | hb'
    · rfl
    · exact absurd he (hp.1 b hb').1
    · exact absurd he.symm (hp.1 a ha').1
    · exact ih hp.2 ha' hb'

theorem Fly.lookup_of_mem (t : Fly) (hi : t.Inv) (h : HRef) (n : Nat) (hm : (h, n) ∈ t.table) :
    t.intern h = (t, n) := by
  unfold Fly.intern
  cases hf : t.table.find? (fun e => hrefEq e.1 h) with
  | none =>
    have := List.find?_eq_none.mp hf (h, n) hm
    simp [(hrefEq_iff h h).mpr rfl] at this
  | some e =>
    obtain ⟨h1, h2⟩ := t.find_iff h e hf
    have : e = (h, n) := pairwise_fst_unique hi.2 h1 hm h2
    rw [this]

/-- **the same path interned twice is the same object** (and nothing is allocated the second time) -/
theorem Fly.intern_same (t : Fly) (hi : t.Inv) (h : HRef) :
    ((t.intern h).1.intern h) = ((t.intern h).1, (t.intern h).2) :=
  Fly.lookup_of_mem _ (t.intern_inv h hi) h _ (t.intern_mem h)

theorem pairwise_snd_unique {l : List (HRef × Nat)}
    (hp : l.Pairwise (fun e1 e2 => e1.1 ≠ e2.1 ∧ e1.2 ≠ e2.2)) {a b : HRef × Nat}
    (ha : a ∈ l) (hb : b ∈ l) (he : a.2 = b.2) : a = b := by
  induction l with
  | nil => cases ha
  | cons c l ih =>
    rw [List.pairwise_cons] at hp
    rcases List.mem_cons.mp ha with rfl | ha' <;> rcases List.mem_cons.mp hb with rfl | hb'
    · rfl
    · exact absurd he (hp.1 b hb').2
    · exact absurd he.symm (hp.1 a ha').2
    · exact ih hp.2 ha' hb'

theorem Fly.intern_mono (t : Fly) (h : HRef) (e : HRef × Nat) (he : e ∈ t.table) : e ∈ (t.intern h).1.table := by
  unfold Fly.intern
  split
  · exact he
  · exact List.mem_cons_of_mem _ he

/-- **different paths are different objects** -/
theorem Fly.intern_distinct (t : Fly) (hi : t.Inv) (a b : HRef) (hne : a ≠ b) :
    (t.intern a).2 ≠ ((t.intern a).1.intern b).2 := by
  intro he
  have hi1 := t.intern_inv a hi
  have hi2 := (t.intern a).1.intern_inv b hi1
  have m1 : (a, (t.intern a).2) ∈ ((t.intern a).1.intern b).1.table :=
    Fly.intern_mono _ b _ (t.intern_mem a)
  have m2 := (t.intern a).1.intern_mem b
  have := pairwise_snd_unique hi2.2 m1 m2 he
  exact hne (congrArg Prod.fst this)

/-! ## names -/

theorem Occ.top_inv {d : Design} (hwf : WF d) {x : Nat} {t : Inst} (ho : Occ d [x] (.inst t)) :
    d.topInst = some t := by
  have h := resolve_complete hwf ho
  simp only [resolve] at h
  split at h
  · rename_i t' ht'
    split at h
    · cases h
      exact ht'
    · cases h
  · cases h

theorem pathNames_inst {d : Design} (hwf : WF d) {p : HRef} {ns : List String} (hn : InstNames d p ns) :
    ∃ t, d.topInst = some t ∧ pathNames d p = ns.reverse ++ [t.name] := by
  induction hn with
  | @top t ho =>
    refine ⟨t, ho.top_inv hwf, ?_⟩
    simp [pathNames, resolve_complete hwf ho, Elem.name]
  | @child p c ns _ ho ih =>
    obtain ⟨t, h1, h2⟩ := ih
    refine ⟨t, h1, ?_⟩
    simp [pathNames, resolve_complete hwf ho, Elem.name, h2]

theorem dropLast_reverse_snoc (l : List String) (x : String) : (l.reverse ++ [x]).dropLast.reverse = l := by
  simp

/-- **`HRef.name`**: slash-joined instance names below the top, then the bundle name, then
    `[lower + position]` for members of array bundles. -/
theorem hrefName_spec {d : Design} (hwf : WF d) {p : HRef} {ns : List String} (hn : InstNames d p ns) :
    hrefName d p = slashJoin ns ∧
    (∀ P, Occ d (P.id :: p) (.port P) → hrefName d (P.id :: p) = slashJoin (ns ++ [P.name])) ∧
    (∀ P q, Occ d (q :: P.id :: p) (.pin P q) →
      hrefName d (q :: P.id :: p) = slashJoin (ns ++ [P.name]) ++ busIndex P.isArray P.lower (P.pins.idxOf q)) ∧
    (∀ C, Occ d (C.id :: p) (.cable C) → hrefName d (C.id :: p) = slashJoin (ns ++ [C.name])) ∧
    (∀ C w, Occ d (w.id :: C.id :: p) (.wire C w) →
      hrefName d (w.id :: C.id :: p) = slashJoin (ns ++ [C.name]) ++ busIndex C.isArray C.lower (C.wires.idxOf w)) := by
  obtain ⟨t, _, hpn⟩ := pathNames_inst hwf hn
  have hinst : ∃ c, Occ d p (.inst c) := by
    cases hn with
    | top ho => exact ⟨_, ho⟩
    | child _ ho => exact ⟨_, ho⟩
  obtain ⟨c, hc⟩ := hinst
  refine ⟨?_, ?_, ?_, ?_, ?_⟩
  · simp only [hrefName, resolve_complete hwf hc, hpn, dropLast_reverse_snoc]
  · intro P ho
    simp only [hrefName, resolve_complete hwf ho, pathNames, Elem.name, hpn]
    rw [← List.cons_append, List.dropLast_concat, List.reverse_cons, List.reverse_reverse]
  · intro P q ho
    obtain ⟨y, hy, hport, _⟩ := ho.pin_inv
    cases hy
    simp only [hrefName, resolve_complete hwf ho, List.tail_cons, pathNames, resolve_complete hwf hport, Elem.name, hpn]
    rw [← List.cons_append, List.dropLast_concat, List.reverse_cons, List.reverse_reverse]
  · intro C ho
    simp only [hrefName, resolve_complete hwf ho, pathNames, Elem.name, hpn]
    rw [← List.cons_append, List.dropLast_concat, List.reverse_cons, List.reverse_reverse]
  · intro C w ho
    obtain ⟨y, hy, hcab, _⟩ := ho.wire_inv
    cases hy
    simp only [hrefName, resolve_complete hwf ho, List.tail_cons, pathNames, resolve_complete hwf hcab, Elem.name, hpn]
    rw [← List.cons_append, List.dropLast_concat, List.reverse_cons, List.reverse_reverse]

end Spydr.Hier
