/-
  Enumeration lemmas: `Sorted` gives enough fuel; `descs` / `kids` / `under` enumerate exactly the
  hierarchical instances below a hierarchical instance; `portsAt` … `wiresAt` the items directly inside
  one; `dedup`.
-/
import Spydr.Hier.LemmasBasic

namespace Spydr.Hier

theorem Sorted.lt {d : Design} (hs : Sorted d) {k r : Nat} {D : Defn} {c : Inst}
    (hD : d.defs[k]? = some D) (hc : c ∈ D.children) (hr : c.ref = some r) : r < k := by
  unfold Sorted sortedCheck at hs
  rw [List.all_eq_true] at hs
  have h1 := hs (D, k) (List.mk_mem_zipIdx_iff_getElem?.mpr hD)
  rw [List.all_eq_true] at h1
  have h2 := h1 c hc
  simp only [hr] at h2
  simpa using h2

/-- the hierarchical instance that directly contains an item, per kind of item -/
theorem suffix_cons_of_ne {α : Type} {p l : List α} {a : α} (h : p <:+ a :: l) (hne : a :: l ≠ p) : p <:+ l := by
  rcases List.suffix_cons_iff.mp h with h | h
  · exact absurd h.symm hne
  · exact h

theorem ne_of_cons_suffix {α : Type} {p h : List α} {a : α} (hs : (a :: p) <:+ h) : h ≠ p := by
  intro he
  subst he
  have := hs.length_le
  simp at this
  omega

theorem descs_sound (d : Design) : ∀ (f : Nat) (p : HRef) (i : Inst), Occ d p (.inst i) →
    ∀ h c, (h, c) ∈ descs d f p i → Occ d h (.inst c) ∧ p <:+ h ∧ h ≠ p
  | 0, _, _, _, _, _, hm => by simp [descs] at hm
  | f+1, p, i, hp, h, c, hm => by
    simp only [descs] at hm
    split at hm
    · rename_i D hD
      obtain ⟨r, hr, hD'⟩ := defOf_eq_some.mp hD
      rw [List.mem_flatMap] at hm
      obtain ⟨c1, hc1, hm⟩ := hm
      have ho1 : Occ d (c1.id :: p) (.inst c1) := Occ.child hp hr hD' hc1
      rcases List.mem_cons.mp hm with he | hm
      · cases he
        exact ⟨ho1, List.suffix_cons _ _, by simp⟩
      · obtain ⟨h1, h2, _⟩ := descs_sound d f (c1.id :: p) c1 ho1 h c hm
        exact ⟨h1, (List.suffix_cons _ _).trans h2, ne_of_cons_suffix h2⟩
    · cases hm

/-- the first step below `p` on the way to a proper descendant -/
theorem exists_first_child {d : Design} (hwf : WF d) {p : HRef} {i : Inst} (hp : Occ d p (.inst i))
    {h : HRef} {e : Elem} (ho : Occ d h e) : ∀ c, e = .inst c → p <:+ h → h ≠ p →
    ∃ r D c1, i.ref = some r ∧ d.defs[r]? = some D ∧ c1 ∈ D.children ∧ (c1.id :: p) <:+ h := by
  induction ho with
  | top h1 h2 h3 h4 =>
    intro c _ hs hne
    exfalso
    have hl := hs.length_le
    have : p ≠ [] := hp.ne_nil
    cases p with
    | nil => exact this rfl
    | cons a p' =>
      cases p' with
      | nil =>
        rcases List.suffix_cons_iff.mp hs with h | h
        · exact hne h.symm
        · simp at h
      | cons b p'' => simp at hl
  | @child p' i' c' r D hp' hr hD hc ih =>
    intro c _ hs hne
    by_cases he : p' = p
    · subst he
      have := Occ.unique hwf hp hp'
      cases this
      exact ⟨r, D, c', hr, hD, hc, List.suffix_refl _⟩
    · have hs' := suffix_cons_of_ne hs hne
      obtain ⟨r1, D1, c1, a1, a2, a3, a4⟩ := ih i' rfl hs' he
      exact ⟨r1, D1, c1, a1, a2, a3, a4.trans (List.suffix_cons _ _)⟩
  | port _ _ _ _ _ => intro c hc; cases hc
  | pin _ _ _ => intro c hc; cases hc
  | cable _ _ _ _ _ => intro c hc; cases hc
  | wire _ _ _ => intro c hc; cases hc

theorem descs_complete {d : Design} (hwf : WF d) (hs : Sorted d) : ∀ (f : Nat) (p : HRef) (i : Inst),
    Occ d p (.inst i) → (∀ r D, i.ref = some r → d.defs[r]? = some D → r < f) →
    ∀ h c, Occ d h (.inst c) → p <:+ h → h ≠ p → (h, c) ∈ descs d f p i
  | 0, p, i, hp, hf, h, c, ho, hsuf, hne => by
    obtain ⟨r, D, c1, a1, a2, _, _⟩ := exists_first_child hwf hp ho c rfl hsuf hne
    exact absurd (hf r D a1 a2) (Nat.not_lt_zero _)
  | f+1, p, i, hp, hf, h, c, ho, hsuf, hne => by
    obtain ⟨r, D, c1, a1, a2, a3, a4⟩ := exists_first_child hwf hp ho c rfl hsuf hne
    simp only [descs, defOf_eq_some.mpr ⟨r, a1, a2⟩]
    rw [List.mem_flatMap]
    refine ⟨c1, a3, ?_⟩
    have ho1 : Occ d (c1.id :: p) (.inst c1) := Occ.child hp a1 a2 a3
    by_cases he : h = c1.id :: p
    · subst he
      have := Occ.unique hwf ho ho1
      cases this
      exact List.mem_cons_self
    · apply List.mem_cons_of_mem
      apply descs_complete hwf hs f (c1.id :: p) c1 ho1 _ h c ho a4 he
      intro r' D' hr' _
      have := hs.lt a2 a3 hr'
      have := hf r D a1 a2
      omega

/-! ## inversion of `Occ` -/

theorem Occ.port_inv {d : Design} {x : HRef} {P : Port} (h : Occ d x (.port P)) :
    ∃ p i r D, x = P.id :: p ∧ Occ d p (.inst i) ∧ i.ref = some r ∧ d.defs[r]? = some D ∧ P ∈ D.ports := by
  cases h with
  | port hp hr hD hP => exact ⟨_, _, _, _, rfl, hp, hr, hD, hP⟩

theorem Occ.cable_inv {d : Design} {x : HRef} {C : Cable} (h : Occ d x (.cable C)) :
    ∃ p i r D, x = C.id :: p ∧ Occ d p (.inst i) ∧ i.ref = some r ∧ d.defs[r]? = some D ∧ C ∈ D.cables := by
  cases h with
  | cable hp hr hD hC => exact ⟨_, _, _, _, rfl, hp, hr, hD, hC⟩

theorem Occ.pin_inv {d : Design} {x : HRef} {P : Port} {q : Nat} (h : Occ d x (.pin P q)) :
    ∃ y, x = q :: y ∧ Occ d y (.port P) ∧ q ∈ P.pins := by
  cases h with
  | pin hp hq => exact ⟨_, rfl, hp, hq⟩

theorem Occ.wire_inv {d : Design} {x : HRef} {C : Cable} {w : Wire} (h : Occ d x (.wire C w)) :
    ∃ y, x = w.id :: y ∧ Occ d y (.cable C) ∧ w ∈ C.wires := by
  cases h with
  | wire hp hw => exact ⟨_, rfl, hp, hw⟩

theorem Occ.inst_cons_inv {d : Design} {a b : Nat} {p : HRef} {c : Inst} (h : Occ d (a :: b :: p) (.inst c)) :
    ∃ i r D, a = c.id ∧ Occ d (b :: p) (.inst i) ∧ i.ref = some r ∧ d.defs[r]? = some D ∧ c ∈ D.children := by
  cases h with
  | child hp hr hD hc => exact ⟨_, _, _, rfl, hp, hr, hD, hc⟩

/-! ## `under`, `kids` -/

theorem mem_under {d : Design} (hwf : WF d) (hs : Sorted d) {p : HRef} {i : Inst} (hp : Occ d p (.inst i))
    (rec : Bool) (h : HRef) (c : Inst) :
    (h, c) ∈ under d rec p i ↔ Occ d h (.inst c) ∧ Within p rec h := by
  unfold under Within
  constructor
  · intro hm
    rcases List.mem_cons.mp hm with he | hm
    · cases he
      exact ⟨hp, Or.inl rfl⟩
    · split at hm
      · rename_i hrec
        obtain ⟨a, b, _⟩ := descs_sound d _ p i hp h c hm
        exact ⟨a, Or.inr ⟨hrec, b⟩⟩
      · cases hm
  · rintro ⟨ho, hw⟩
    by_cases he : h = p
    · subst he
      have := Occ.unique hwf hp ho
      cases this
      exact List.mem_cons_self
    · rcases hw with hw | ⟨hrec, hsuf⟩
      · exact absurd hw he
      · apply List.mem_cons_of_mem
        rw [if_pos hrec]
        apply descs_complete hwf hs _ p i hp _ h c ho hsuf he
        intro r D _ hD
        exact (List.getElem?_eq_some_iff.mp hD).1

theorem mem_kids {d : Design} (hwf : WF d) {p : HRef} {i : Inst} (hp : Occ d p (.inst i)) (h : HRef) (c : Inst) :
    (h, c) ∈ kids d p i ↔ Occ d h (.inst c) ∧ h.tail = p := by
  unfold kids
  constructor
  · intro hm
    split at hm
    · rename_i D hD
      obtain ⟨r, hr, hD'⟩ := defOf_eq_some.mp hD
      rw [List.mem_map] at hm
      obtain ⟨c1, hc1, he⟩ := hm
      cases he
      exact ⟨Occ.child hp hr hD' hc1, rfl⟩
    · cases hm
  · rintro ⟨ho, ht⟩
    obtain ⟨b, p', rfl⟩ := List.exists_cons_of_ne_nil hp.ne_nil
    cases h with
    | nil => simp at ht
    | cons a t =>
      simp only [List.tail_cons] at ht
      subst ht
      obtain ⟨i', r, D, ha, hp', hr, hD, hc⟩ := ho.inst_cons_inv
      have := Occ.unique hwf hp hp'
      cases this
      rw [defOf_eq_some.mpr ⟨r, hr, hD⟩, List.mem_map]
      exact ⟨c, hc, by rw [ha]⟩

/-! ## items directly inside one hierarchical instance -/

theorem mem_portsAt {d : Design} (hwf : WF d) {p : HRef} {i : Inst} (hp : Occ d p (.inst i)) (x : HRef) :
    x ∈ portsAt d (p, i) ↔ (∃ P, Occ d x (.port P)) ∧ x.tail = p := by
  unfold portsAt
  constructor
  · intro hm
    split at hm
    · rename_i D hD
      obtain ⟨r, hr, hD'⟩ := defOf_eq_some.mp hD
      rw [List.mem_map] at hm
      obtain ⟨P, hP, he⟩ := hm
      subst he
      exact ⟨⟨P, Occ.port hp hr hD' hP⟩, rfl⟩
    · cases hm
  · rintro ⟨⟨P, ho⟩, ht⟩
    obtain ⟨p', i', r, D, rfl, hp', hr, hD, hP⟩ := ho.port_inv
    simp only [List.tail_cons] at ht
    subst ht
    have := Occ.unique hwf hp hp'
    cases this
    simp only [defOf_eq_some.mpr ⟨r, hr, hD⟩, List.mem_map]
    exact ⟨P, hP, rfl⟩

theorem mem_cablesAt {d : Design} (hwf : WF d) {p : HRef} {i : Inst} (hp : Occ d p (.inst i)) (x : HRef) :
    x ∈ cablesAt d (p, i) ↔ (∃ C, Occ d x (.cable C)) ∧ x.tail = p := by
  unfold cablesAt
  constructor
  · intro hm
    split at hm
    · rename_i D hD
      obtain ⟨r, hr, hD'⟩ := defOf_eq_some.mp hD
      rw [List.mem_map] at hm
      obtain ⟨P, hP, he⟩ := hm
      subst he
      exact ⟨⟨P, Occ.cable hp hr hD' hP⟩, rfl⟩
    · cases hm
  · rintro ⟨⟨P, ho⟩, ht⟩
    obtain ⟨p', i', r, D, rfl, hp', hr, hD, hP⟩ := ho.cable_inv
    simp only [List.tail_cons] at ht
    subst ht
    have := Occ.unique hwf hp hp'
    cases this
    simp only [defOf_eq_some.mpr ⟨r, hr, hD⟩, List.mem_map]
    exact ⟨P, hP, rfl⟩

theorem mem_pinsAt {d : Design} (hwf : WF d) {p : HRef} {i : Inst} (hp : Occ d p (.inst i)) (x : HRef) :
    x ∈ pinsAt d (p, i) ↔ (∃ P q, Occ d x (.pin P q)) ∧ x.tail.tail = p := by
  unfold pinsAt
  constructor
  · intro hm
    split at hm
    · rename_i D hD
      obtain ⟨r, hr, hD'⟩ := defOf_eq_some.mp hD
      rw [List.mem_flatMap] at hm
      obtain ⟨P, hP, hm⟩ := hm
      rw [List.mem_map] at hm
      obtain ⟨q, hq, he⟩ := hm
      subst he
      exact ⟨⟨P, q, Occ.pin (Occ.port hp hr hD' hP) hq⟩, rfl⟩
    · cases hm
  · rintro ⟨⟨P, q, ho⟩, ht⟩
    obtain ⟨y, rfl, hy, hq⟩ := ho.pin_inv
    obtain ⟨p', i', r, D, rfl, hp', hr, hD, hP⟩ := hy.port_inv
    simp only [List.tail_cons] at ht
    subst ht
    have := Occ.unique hwf hp hp'
    cases this
    simp only [defOf_eq_some.mpr ⟨r, hr, hD⟩, List.mem_flatMap, List.mem_map]
    exact ⟨P, hP, q, hq, rfl⟩

theorem mem_wiresAt {d : Design} (hwf : WF d) {p : HRef} {i : Inst} (hp : Occ d p (.inst i)) (x : HRef) :
    x ∈ wiresAt d (p, i) ↔ (∃ C w, Occ d x (.wire C w)) ∧ x.tail.tail = p := by
  unfold wiresAt
  constructor
  · intro hm
    split at hm
    · rename_i D hD
      obtain ⟨r, hr, hD'⟩ := defOf_eq_some.mp hD
      rw [List.mem_flatMap] at hm
      obtain ⟨P, hP, hm⟩ := hm
      rw [List.mem_map] at hm
      obtain ⟨q, hq, he⟩ := hm
      subst he
      exact ⟨⟨P, q, Occ.wire (Occ.cable hp hr hD' hP) hq⟩, rfl⟩
    · cases hm
  · rintro ⟨⟨P, q, ho⟩, ht⟩
    obtain ⟨y, rfl, hy, hq⟩ := ho.wire_inv
    obtain ⟨p', i', r, D, rfl, hp', hr, hD, hP⟩ := hy.cable_inv
    simp only [List.tail_cons] at ht
    subst ht
    have := Occ.unique hwf hp hp'
    cases this
    simp only [defOf_eq_some.mpr ⟨r, hr, hD⟩, List.mem_flatMap, List.mem_map]
    exact ⟨P, hP, q, hq, rfl⟩

/-! ## `dedup` -/

theorem mem_dedup {α : Type} [DecidableEq α] (x : α) : ∀ l : List α, x ∈ dedup l ↔ x ∈ l
  | [] => by simp [dedup]
  | y :: l => by
    simp only [dedup]
    split
    · rename_i hy
      rw [mem_dedup x l, List.mem_cons]
      constructor
      · exact Or.inr
      · rintro (rfl | h)
        · exact hy
        · exact h
    · rw [List.mem_cons, List.mem_cons, mem_dedup x l]

theorem nodup_dedup {α : Type} [DecidableEq α] : ∀ l : List α, (dedup l).Nodup
  | [] => by simp [dedup]
  | y :: l => by
    simp only [dedup]
    split
    · exact nodup_dedup l
    · rename_i hy
      exact List.nodup_cons.mpr ⟨fun h => hy ((mem_dedup y l).mp h), nodup_dedup l⟩

/-! ## everything of one kind inside / below a hierarchical instance -/

theorem mem_under_flatMap {d : Design} (hwf : WF d) (hs : Sorted d) {p : HRef} {i : Inst}
    (hp : Occ d p (.inst i)) (rec : Bool) (at_ : HRef × Inst → List HRef) (Q : HRef → Prop) (cont : HRef → HRef)
    (hat : ∀ h c, Occ d h (.inst c) → ∀ x, x ∈ at_ (h, c) ↔ Q x ∧ cont x = h)
    (hQ : ∀ x, Q x → ∃ c, Occ d (cont x) (.inst c)) (x : HRef) :
    x ∈ (under d rec p i).flatMap at_ ↔ Q x ∧ Within p rec (cont x) := by
  rw [List.mem_flatMap]
  constructor
  · rintro ⟨⟨h, c⟩, hm, hx⟩
    obtain ⟨ho, hw⟩ := (mem_under hwf hs hp rec h c).mp hm
    obtain ⟨hq, hc⟩ := (hat h c ho x).mp hx
    exact ⟨hq, hc ▸ hw⟩
  · rintro ⟨hq, hw⟩
    obtain ⟨c, hc⟩ := hQ x hq
    exact ⟨(cont x, c), (mem_under hwf hs hp rec _ c).mpr ⟨hc, hw⟩, (hat _ c hc x).mpr ⟨hq, rfl⟩⟩

theorem IsHPort.cont {d : Design} {x : HRef} (h : IsHPort d x) : ∃ c, Occ d x.tail (.inst c) := by
  obtain ⟨P, ho⟩ := h
  obtain ⟨p', i', r, D, rfl, hp', _⟩ := ho.port_inv
  exact ⟨i', hp'⟩

theorem IsHCable.cont {d : Design} {x : HRef} (h : IsHCable d x) : ∃ c, Occ d x.tail (.inst c) := by
  obtain ⟨P, ho⟩ := h
  obtain ⟨p', i', r, D, rfl, hp', _⟩ := ho.cable_inv
  exact ⟨i', hp'⟩

theorem IsHPin.cont {d : Design} {x : HRef} (h : IsHPin d x) : ∃ c, Occ d x.tail.tail (.inst c) := by
  obtain ⟨P, q, ho⟩ := h
  obtain ⟨y, rfl, hy, _⟩ := ho.pin_inv
  obtain ⟨p', i', r, D, rfl, hp', _⟩ := hy.port_inv
  exact ⟨i', hp'⟩

theorem IsHWire.cont {d : Design} {x : HRef} (h : IsHWire d x) : ∃ c, Occ d x.tail.tail (.inst c) := by
  obtain ⟨P, q, ho⟩ := h
  obtain ⟨y, rfl, hy, _⟩ := ho.wire_inv
  obtain ⟨p', i', r, D, rfl, hp', _⟩ := hy.cable_inv
  exact ⟨i', hp'⟩

theorem mem_ports_under {d : Design} (hwf : WF d) (hs : Sorted d) {p : HRef} {i : Inst}
    (hp : Occ d p (.inst i)) (rec : Bool) (x : HRef) :
    x ∈ (under d rec p i).flatMap (portsAt d) ↔ IsHPort d x ∧ Within p rec x.tail :=
  mem_under_flatMap hwf hs hp rec (portsAt d) (IsHPort d) List.tail
    (fun _ _ ho x => mem_portsAt hwf ho x) (fun _ h => h.cont) x

theorem mem_cables_under {d : Design} (hwf : WF d) (hs : Sorted d) {p : HRef} {i : Inst}
    (hp : Occ d p (.inst i)) (rec : Bool) (x : HRef) :
    x ∈ (under d rec p i).flatMap (cablesAt d) ↔ IsHCable d x ∧ Within p rec x.tail :=
  mem_under_flatMap hwf hs hp rec (cablesAt d) (IsHCable d) List.tail
    (fun _ _ ho x => mem_cablesAt hwf ho x) (fun _ h => h.cont) x

theorem mem_pins_under {d : Design} (hwf : WF d) (hs : Sorted d) {p : HRef} {i : Inst}
    (hp : Occ d p (.inst i)) (rec : Bool) (x : HRef) :
    x ∈ (under d rec p i).flatMap (pinsAt d) ↔ IsHPin d x ∧ Within p rec x.tail.tail :=
  mem_under_flatMap hwf hs hp rec (pinsAt d) (IsHPin d) (fun x => x.tail.tail)
    (fun _ _ ho x => mem_pinsAt hwf ho x) (fun _ h => h.cont) x

theorem mem_wires_under {d : Design} (hwf : WF d) (hs : Sorted d) {p : HRef} {i : Inst}
    (hp : Occ d p (.inst i)) (rec : Bool) (x : HRef) :
    x ∈ (under d rec p i).flatMap (wiresAt d) ↔ IsHWire d x ∧ Within p rec x.tail.tail :=
  mem_under_flatMap hwf hs hp rec (wiresAt d) (IsHWire d) (fun x => x.tail.tail)
    (fun _ _ ho x => mem_wiresAt hwf ho x) (fun _ h => h.cont) x

/-- instances strictly below `p`: directly (`rec = false`) or at any depth -/
theorem mem_insts_below {d : Design} (hwf : WF d) (hs : Sorted d) {p : HRef} {i : Inst}
    (hp : Occ d p (.inst i)) (rec : Bool) (x : HRef) :
    x ∈ ((if rec then descs d d.defs.length p i else kids d p i)).map (·.1) ↔
      IsHInst d x ∧ Within p rec x.tail := by
  rw [List.mem_map]
  constructor
  · rintro ⟨⟨h, c⟩, hm, rfl⟩
    cases rec with
    | false =>
      simp only [Bool.false_eq_true, if_false] at hm
      obtain ⟨ho, ht⟩ := (mem_kids hwf hp h c).mp hm
      exact ⟨⟨c, ho⟩, Or.inl ht⟩
    | true =>
      simp only [if_true] at hm
      obtain ⟨ho, hsuf, hne⟩ := descs_sound d _ p i hp h c hm
      refine ⟨⟨c, ho⟩, Or.inr ⟨rfl, ?_⟩⟩
      cases h with
      | nil => exact absurd rfl ho.ne_nil
      | cons a t => exact suffix_cons_of_ne hsuf hne
  · rintro ⟨⟨c, ho⟩, hw⟩
    refine ⟨(x, c), ?_, rfl⟩
    cases x with
    | nil => exact absurd rfl ho.ne_nil
    | cons a t =>
      simp only [List.tail_cons] at hw
      rcases hw with hw | ⟨hrec, hw⟩
      · subst hw
        cases rec with
        | false =>
          simp only [Bool.false_eq_true, if_false]
          exact (mem_kids hwf hp _ c).mpr ⟨ho, rfl⟩
        | true =>
          simp only [if_true]
          apply descs_complete hwf hs _ t i hp _ _ c ho (List.suffix_cons _ _) (by simp)
          intro r D _ hD
          exact (List.getElem?_eq_some_iff.mp hD).1
      · subst hrec
        simp only [if_true]
        have hne : a :: t ≠ p := by
          intro he
          subst he
          have := hw.length_le
          simp at this
          omega
        apply descs_complete hwf hs _ p i hp _ _ c ho (hw.trans (List.suffix_cons _ _)) hne
        intro r D _ hD
        exact (List.getElem?_eq_some_iff.mp hD).1

/-! ## the top instance -/

theorem Occ.has_top {d : Design} {h : HRef} {e : Elem} (ho : Occ d h e) :
    ∃ t, d.topInst = some t ∧ Occ d [t.id] (.inst t) ∧ [t.id] <:+ h := by
  induction ho with
  | top h1 h2 h3 h4 =>
    exact ⟨_, topInst_eq_some.mpr ⟨h1, _, _, h2, h3, h4⟩, Occ.top h1 h2 h3 h4, List.suffix_refl _⟩
  | child _ _ _ _ ih => obtain ⟨t, a, b, c⟩ := ih; exact ⟨t, a, b, c.trans (List.suffix_cons _ _)⟩
  | port _ _ _ _ ih => obtain ⟨t, a, b, c⟩ := ih; exact ⟨t, a, b, c.trans (List.suffix_cons _ _)⟩
  | pin _ _ ih => obtain ⟨t, a, b, c⟩ := ih; exact ⟨t, a, b, c.trans (List.suffix_cons _ _)⟩
  | cable _ _ _ _ ih => obtain ⟨t, a, b, c⟩ := ih; exact ⟨t, a, b, c.trans (List.suffix_cons _ _)⟩
  | wire _ _ ih => obtain ⟨t, a, b, c⟩ := ih; exact ⟨t, a, b, c.trans (List.suffix_cons _ _)⟩

theorem topInst_top {d : Design} {t : Inst} (h : d.topInst = some t) : d.top = some t :=
  (topInst_eq_some.mp h).1

theorem within_top {d : Design} {t : Inst} (ht : d.topInst = some t) {ip : HRef} {c : Inst}
    (hc : Occ d ip (.inst c)) (rec : Bool) : Within [t.id] rec ip ↔ (rec = true ∨ ip = [t.id]) := by
  obtain ⟨t', h1, _, h3⟩ := hc.has_top
  rw [ht] at h1
  cases h1
  unfold Within
  constructor
  · rintro (h | ⟨h, _⟩)
    · exact Or.inr h
    · exact Or.inl h
  · rintro (h | h)
    · exact Or.inr ⟨h, h3⟩
    · exact Or.inl h

theorem top_isHInst {d : Design} {t : Inst} (ht : d.topInst = some t) : IsHInst d [t.id] := by
  obtain ⟨h1, r, D, h2, h3, h4⟩ := topInst_eq_some.mp ht
  exact ⟨t, Occ.top h1 h2 h3 h4⟩

end Spydr.Hier
