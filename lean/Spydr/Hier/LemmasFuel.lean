/-
  Fuel sufficiency: the work-list searches of the model always finish within the fuel the model
  gives them (so the `finished` flags reported by the driver are provably `true` under `WF`).
-/
import Spydr.Hier.LemmasUnique

namespace Spydr.Hier

/-- all instance identities of the design -/
def instIds (d : Design) : List Nat := topIds d ++ d.childTable.map (fun cp => cp.1.id)

theorem WF.instIds_nodup {d : Design} (hwf : WF d) : (instIds d).Nodup := by
  have h := hwf.2.1
  have : d.childTable.map (fun cp => cp.1.id) = (allChildren d).map (·.id) := by
    rw [← childTable_map_fst, List.map_map]
    rfl
  unfold instIds
  rw [this]
  exact h

theorem instRec_mem_instIds {d : Design} {i : Inst} (hi : InstRec d i) : i.id ∈ instIds d := by
  unfold instIds
  rcases (instRec_iff i).mp hi with h | ⟨k, hk⟩
  · exact List.mem_append_left _ (by simp [topIds, h])
  · exact List.mem_append_right _ (List.mem_map.mpr ⟨(i, k), hk, rfl⟩)

theorem upSucc_mem_instIds {d : Design} (x y : Nat) (hy : y ∈ upSucc d x) : y ∈ instIds d := by
  unfold upSucc at hy
  split at hy
  · obtain ⟨i, hi, rfl, _⟩ := (mem_refsOf y _).mp hy
    exact instRec_mem_instIds hi
  · cases hy

theorem refsOf_length_le (d : Design) (k : Nat) : (d.refsOf k).length ≤ d.childTable.length + 1 := by
  unfold Design.refsOf
  rw [List.length_append, List.length_map]
  have h1 : (d.childTable.filter (fun cp => cp.1.ref == some k)).length ≤ d.childTable.length :=
    List.length_filter_le _ _
  cases d.top with
  | none => simp; omega
  | some t =>
    by_cases ht : t.ref = some k
    · simp [ht]; omega
    · simp [ht]; omega

theorem upSucc_length_le (d : Design) (x : Nat) : (upSucc d x).length ≤ d.childTable.length + 1 := by
  unfold upSucc
  split
  · exact refsOf_length_le d _
  · simp

theorem instIds_length_le (d : Design) : (instIds d).length ≤ d.childTable.length + 1 := by
  unfold instIds topIds
  rw [List.length_append, List.length_map]
  split
  · simp; omega
  · simp

/-- **the upward searches always finish** within `upFuel` -/
theorem upSearch_finished {d : Design} (hwf : WF d) (l : List Nat) :
    (Reach.go (upSucc d) (upFuel d (l.flatMap (upSucc d))) (l.flatMap (upSucc d)) []).2 = true := by
  apply Reach.go_finished (upSucc d) (instIds d) hwf.instIds_nodup
    (fun x _ y hy => upSucc_mem_instIds x y hy)
  · intro x hx
    obtain ⟨b, _, hb⟩ := List.mem_flatMap.mp hx
    exact upSucc_mem_instIds b x hb
  · have h1 := Reach.pot_le (upSucc d) (instIds d) (l.flatMap (upSucc d)) [] (d.childTable.length + 1)
      (fun x _ => upSucc_length_le d x)
    have h2 := instIds_length_le d
    have h3 : (instIds d).length * (1 + (d.childTable.length + 1)) ≤
        (d.childTable.length + 1) * (1 + (d.childTable.length + 1)) := Nat.mul_le_mul_right _ h2
    unfold upFuel
    have h4 : (d.childTable.length + 1) * (1 + (d.childTable.length + 1)) ≤
        (d.childTable.length + 2) * (d.childTable.length + 2) := by
      have : 1 + (d.childTable.length + 1) = d.childTable.length + 2 := by omega
      rw [this]
      exact Nat.mul_le_mul_right _ (by omega)
    omega

theorem allHrefs_finished {d : Design} (hwf : WF d) (insts : List Nat) : (allHrefs d insts).2 = true := by
  unfold allHrefs
  split
  · simp only
    split <;> exact upSearch_finished hwf insts
  · rfl

theorem isUnique_finished {d : Design} (hwf : WF d) (h : HRef) : (isUnique d h).2 = true := by
  unfold isUnique
  split
  · exact upSearch_finished hwf _
  · rfl

theorem hrefsOfItem_finished {d : Design} (hwf : WF d) (root : Root) : (hrefsOfItem d root).2 = true := by
  cases root with
  | netlist => simp only [hrefsOfItem]; split <;> rfl
  | library ds =>
    simp only [hrefsOfItem, List.all_eq_true, List.mem_map]
    rintro b ⟨k, _, rfl⟩
    exact allHrefs_finished hwf _
  | definition k => exact allHrefs_finished hwf _
  | «instance» x => exact allHrefs_finished hwf _
  | port x => simp only [hrefsOfItem]; split <;> first | exact allHrefs_finished hwf _ | rfl
  | cable x => simp only [hrefsOfItem]; split <;> first | exact allHrefs_finished hwf _ | rfl
  | innerPin q =>
    simp only [hrefsOfItem]
    split
    · split <;> first | exact allHrefs_finished hwf _ | rfl
    · rfl
  | outerPin c q =>
    simp only [hrefsOfItem]
    split
    · split <;> first | exact allHrefs_finished hwf _ | rfl
    · rfl
  | wire x =>
    simp only [hrefsOfItem]
    split
    · split <;> first | exact allHrefs_finished hwf _ | rfl
    · rfl
  | href h => rfl

/-! ## the tracing closure -/

theorem length_le_flatMap {α β : Type} (f : α → List β) : ∀ (l : List α) (a : α), a ∈ l → (f a).length ≤ (l.flatMap f).length
  | [], _, h => by cases h
  | b :: l, a, h => by
    rw [List.flatMap_cons, List.length_append]
    rcases List.mem_cons.mp h with rfl | h
    · omega
    · have := length_le_flatMap f l a h
      omega

theorem dedup_length_le {α : Type} [DecidableEq α] : ∀ l : List α, (dedup l).length ≤ l.length
  | [] => by simp [dedup]
  | a :: l => by
    simp only [dedup]
    have := dedup_length_le l
    split <;> simp <;> omega

theorem traceSucc_length_le {d : Design} (hwf : WF d) (x : HRef) : (traceSucc d x).length ≤ totalPinRefs d + 2 := by
  unfold traceSucc
  cases hres : resolve d x with
  | none => simp
  | some e =>
    cases e with
    | pin P q =>
      simp only [List.length_append]
      have h1 : (innerWire d x).toList.length ≤ 1 := by cases innerWire d x <;> simp
      have h2 : (outerWire d x).toList.length ≤ 1 := by cases outerWire d x <;> simp
      omega
    | wire C w =>
      simp only
      have ho := resolve_sound d x _ hres
      obtain ⟨y, rfl, hy, hw⟩ := ho.wire_inv
      obtain ⟨p, i, r, D, rfl, hp, hr, hD, hC⟩ := hy.cable_inv
      have h1 : (pinsOfWire d (w.id :: C.id :: p)).length ≤ w.pins.length := by
        simp only [pinsOfWire, pinsOfWireT, hres, List.tail_cons, resolve_complete hwf hp,
          defOf_eq_some.mpr ⟨r, hr, hD⟩, List.length_map]
        exact List.length_filterMap_le _ _
      have h2 := length_le_flatMap (fun (w : Wire) => w.pins) C.wires w hw
      have h3 := length_le_flatMap (fun (C : Cable) => C.wires.flatMap (·.pins)) D.cables C hC
      have h4 := length_le_flatMap (fun (D : Defn) => D.cables.flatMap (fun C => C.wires.flatMap (·.pins))) d.defs D
        (mem_defs_of_get hD)
      unfold totalPinRefs
      omega
    | inst i => simp
    | port P => simp
    | cable C => simp

/-- **the closure always finishes** from valid start nodes -/
theorem traceAll_finished {d : Design} (hwf : WF d) (hnn : WFNet d) (hs : Sorted d) (init : List HRef)
    (hinit : ∀ x ∈ init, IsHPin d x ∨ IsHWire d x) : (traceAll d init).2 = true := by
  unfold traceAll
  simp only
  cases init with
  | nil =>
    generalize traceFuel d + ([] : List HRef).length = f
    cases f <;> simp [Reach.go]
  | cons x0 rest =>
    have hx0 := hinit x0 List.mem_cons_self
    have htop : ∃ t, d.topInst = some t := by
      rcases hx0 with ⟨P, q, ho⟩ | ⟨C, w, ho⟩
      · obtain ⟨t, ht, _⟩ := ho.has_top; exact ⟨t, ht⟩
      · obtain ⟨t, ht, _⟩ := ho.has_top; exact ⟨t, ht⟩
    obtain ⟨t, ht⟩ := htop
    obtain ⟨h1, r, D, h2, h3, h4⟩ := topInst_eq_some.mp ht
    have hot : Occ d [t.id] (.inst t) := Occ.top h1 h2 h3 h4
    let P := (under d true [t.id] t).flatMap (pinsAt d)
    let W := (under d true [t.id] t).flatMap (wiresAt d)
    have hP : ∀ x, x ∈ P ↔ IsHPin d x := by
      intro x
      rw [mem_pins_under hwf hs hot true x]
      constructor
      · exact fun h => h.1
      · intro h
        obtain ⟨c, hc⟩ := h.cont
        exact ⟨h, (within_top ht hc true).mpr (Or.inl rfl)⟩
    have hW : ∀ x, x ∈ W ↔ IsHWire d x := by
      intro x
      rw [mem_wires_under hwf hs hot true x]
      constructor
      · exact fun h => h.1
      · intro h
        obtain ⟨c, hc⟩ := h.cont
        exact ⟨h, (within_top ht hc true).mpr (Or.inl rfl)⟩
    have hU : ∀ x, x ∈ dedup (P ++ W) ↔ IsHPin d x ∨ IsHWire d x := by
      intro x
      rw [mem_dedup, List.mem_append, hP, hW]
    apply Reach.go_finished (traceSucc d) (dedup (P ++ W)) (nodup_dedup _)
    · intro x _ y hy
      rw [hU]
      rcases (mem_traceSucc hwf hnn x y).mp hy with h | h
      · exact Or.inr h.kinds.2
      · exact Or.inl h.kinds.1
    · intro x hx
      exact (hU x).mpr (hinit x hx)
    · have hp := Reach.pot_le (traceSucc d) (dedup (P ++ W)) (x0 :: rest) [] (totalPinRefs d + 2)
        (fun x _ => traceSucc_length_le hwf x)
      have hl : (dedup (P ++ W)).length ≤ P.length + W.length := by
        have := dedup_length_le (P ++ W)
        rw [List.length_append] at this
        exact this
      have hm : (dedup (P ++ W)).length * (1 + (totalPinRefs d + 2)) ≤
          (P.length + W.length) * (totalPinRefs d + 3) := by
        have : 1 + (totalPinRefs d + 2) = totalPinRefs d + 3 := by omega
        rw [this]
        exact Nat.mul_le_mul_right _ hl
      have hf : traceFuel d = (P.length + W.length) * (totalPinRefs d + 3) := by
        simp only [traceFuel, h1]
        rfl
      omega


end Spydr.Hier
