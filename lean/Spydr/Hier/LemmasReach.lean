/-
  Lemmas about the generic work-list reachability `Reach.go` (ModelReach.lean):
  soundness for every fuel, completeness and closedness when `finished`, `Nodup`, and the
  specification `reach_spec`.
-/
import Mathlib.Logic.Relation
import Spydr.Hier.ModelReach

namespace Spydr.Hier.Reach
variable {α : Type} [DecidableEq α]

def Step (succ : α → List α) (a b : α) : Prop := b ∈ succ a
abbrev R (succ : α → List α) := Relation.ReflTransGen (Step succ)

/-- soundness: everything visited is either initially visited or reachable from the initial stack -/
theorem go_sound (succ : α → List α) (f : Nat) (stack vis : List α) (init : List α)
    (hs : ∀ x ∈ stack, ∃ i ∈ init, R succ i x)
    (hv : ∀ x ∈ vis, ∃ i ∈ init, R succ i x) :
    ∀ x ∈ (go succ f stack vis).1, ∃ i ∈ init, R succ i x := by
  induction f generalizing stack vis with
  | zero => simpa [go] using hv
  | succ f ih =>
    cases stack with
    | nil => simpa [go] using hv
    | cons y st =>
      simp only [go]
      split
      · exact ih st vis (fun x hx => hs x (List.mem_cons_of_mem _ hx)) hv
      · apply ih
        · intro x hx
          rcases List.mem_append.mp hx with hx | hx
          · obtain ⟨i, hi, hr⟩ := hs y (List.mem_cons_self)
            exact ⟨i, hi, hr.tail hx⟩
          · exact hs x (List.mem_cons_of_mem _ hx)
        · intro x hx
          rcases List.mem_cons.mp hx with rfl | hx
          · exact hs _ (List.mem_cons_self)
          · exact hv x hx

/-- DFS invariant: every successor of a visited node is visited or on the stack -/
def Closed (succ : α → List α) (stack vis : List α) : Prop :=
  ∀ x ∈ vis, ∀ y ∈ succ x, y ∈ vis ∨ y ∈ stack

theorem go_mono (succ : α → List α) (f : Nat) (stack vis : List α) :
    ∀ x ∈ vis, x ∈ (go succ f stack vis).1 := by
  induction f generalizing stack vis with
  | zero => intro x hx; simpa [go] using hx
  | succ f ih =>
    cases stack with
    | nil => intro x hx; simpa [go] using hx
    | cons y st =>
      intro x hx
      simp only [go]
      split
      · exact ih st vis x hx
      · exact ih _ _ x (List.mem_cons_of_mem _ hx)

/-- when finished, the result is closed under succ and contains the stack -/
theorem go_closed (succ : α → List α) (f : Nat) (stack vis : List α)
    (hc : Closed succ stack vis) (hfin : (go succ f stack vis).2 = true) :
    (∀ x ∈ stack, x ∈ (go succ f stack vis).1) ∧
    (∀ x ∈ (go succ f stack vis).1, ∀ y ∈ succ x, y ∈ (go succ f stack vis).1) := by
  induction f generalizing stack vis with
  | zero =>
    simp only [go] at hfin ⊢
    have : stack = [] := by simpa using hfin
    subst this
    refine ⟨by simp, ?_⟩
    intro x hx y hy
    rcases hc x hx y hy with h | h
    · exact h
    · simp at h
  | succ f ih =>
    cases stack with
    | nil =>
      simp only [go]
      refine ⟨by simp, ?_⟩
      intro x hx y hy
      rcases hc x hx y hy with h | h
      · exact h
      · simp at h
    | cons z st =>
      simp only [go] at hfin ⊢
      split at hfin
      · rename_i hz
        rw [if_pos hz]
        have hc' : Closed succ st vis := by
          intro x hx y hy
          rcases hc x hx y hy with h | h
          · exact Or.inl h
          · rcases List.mem_cons.mp h with rfl | h
            · exact Or.inl hz
            · exact Or.inr h
        obtain ⟨h1, h2⟩ := ih st vis hc' hfin
        refine ⟨?_, h2⟩
        intro x hx
        rcases List.mem_cons.mp hx with rfl | hx
        · exact go_mono succ f st vis _ hz
        · exact h1 x hx
      · rename_i hz
        rw [if_neg hz]
        have hc' : Closed succ (succ z ++ st) (z :: vis) := by
          intro x hx y hy
          rcases List.mem_cons.mp hx with rfl | hx
          · exact Or.inr (List.mem_append_left _ hy)
          · rcases hc x hx y hy with h | h
            · exact Or.inl (List.mem_cons_of_mem _ h)
            · rcases List.mem_cons.mp h with rfl | h
              · exact Or.inl (List.mem_cons_self)
              · exact Or.inr (List.mem_append_right _ h)
        obtain ⟨h1, h2⟩ := ih _ _ hc' hfin
        refine ⟨?_, h2⟩
        intro x hx
        rcases List.mem_cons.mp hx with rfl | hx
        · exact go_mono succ f _ _ _ (List.mem_cons_self)
        · exact h1 x (List.mem_append_right _ hx)

/-- completeness: if finished, everything reachable from the initial stack is in the result -/
theorem go_complete (succ : α → List α) (f : Nat) (init : List α)
    (hfin : (go succ f init []).2 = true) :
    ∀ i ∈ init, ∀ x, R succ i x → x ∈ (go succ f init []).1 := by
  have hc : Closed succ init [] := by intro x hx; simp at hx
  obtain ⟨h1, h2⟩ := go_closed succ f init [] hc hfin
  intro i hi x hr
  induction hr with
  | refl => exact h1 i hi
  | tail _ hstep ih => exact h2 _ ih _ hstep

theorem go_nodup (succ : α → List α) (f : Nat) (stack vis : List α) (h : vis.Nodup) :
    (go succ f stack vis).1.Nodup := by
  induction f generalizing stack vis with
  | zero => simpa [go] using h
  | succ f ih =>
    cases stack with
    | nil => simpa [go] using h
    | cons y st =>
      simp only [go]
      split
      · exact ih st vis h
      · rename_i hy
        exact ih _ _ (List.nodup_cons.mpr ⟨hy, h⟩)

/-- the specification theorem -/
theorem reach_spec (succ : α → List α) (f : Nat) (init : List α)
    (hfin : (go succ f init []).2 = true) (x : α) :
    x ∈ (go succ f init []).1 ↔ ∃ i ∈ init, R succ i x := by
  constructor
  · intro hx
    exact go_sound succ f init [] init (fun y hy => ⟨y, hy, Relation.ReflTransGen.refl⟩) (by simp) x hx
  · rintro ⟨i, hi, hr⟩
    exact go_complete succ f init hfin i hi x hr

end Spydr.Hier.Reach
