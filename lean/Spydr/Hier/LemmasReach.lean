/-
  Lemmas about the generic work-list reachability `Reach.go` (ModelReach.lean):
  soundness for every fuel, completeness and closedness when `finished`, `Nodup`, and the
  specification `reach_spec`.
-/
import Mathlib.Logic.Relation
import Mathlib.Tactic.Ring
import Spydr.Hier.ModelReach

namespace Spydr.Hier.Reach
variable {α : Type} [DecidableEq α]

def Step (succ : α → List α) (a b : α) : Prop := b ∈ succ a
abbrev R (succ : α → List α) := Relation.ReflTransGen (Step succ)

/-- soundness: everything visited is either initially visited or reachable from the initial stack -/
theorem go_sound (succ : α → List α) (f : Nat) (stack vis : List α) (init : List α)
    (hs : ∀ x ∈ stack, ∃ i ∈ init, R succ i x)
    (hv : ∀ x ∈ vis, ∃ i ∈ init, R succ i x) :
    ∀ x ∈ (go succ f stack vis).1, ∃ i ∈ init, R succ i x := by
  induction f generalizing stack vis with
  | zero => simpa [go] using hv
  | succ f ih =>
    cases stack with
    | nil => simpa [go] using hv
    | cons y st =>
      simp only [go]
      split
      · exact ih st vis (fun x hx => hs x (List.mem_cons_of_mem _ hx)) hv
      · apply ih
        · intro x hx
          rcases List.mem_append.mp hx with hx | hx
          · obtain ⟨i, hi, hr⟩ := hs y (List.mem_cons_self)
            exact ⟨i, hi, hr.tail hx⟩
          · exact hs x (List.mem_cons_of_mem _ hx)
        · intro x hx
          rcases List.mem_cons.mp hx with rfl | hx
          · exact hs _ (List.mem_cons_self)
          · exact hv x hx

/-- DFS invariant: every successor of a visited node is visited or on the stack -/
def Closed (succ : α → List α) (stack vis : List α) : Prop :=
  ∀ x ∈ vis, ∀ y ∈ succ x, y ∈ vis ∨ y ∈ stack

theorem go_mono (succ : α → List α) (f : Nat) (stack vis : List α) :
    ∀ x ∈ vis, x ∈ (go succ f stack vis).1 := by
  induction f generalizing stack vis with
  | zero => intro x hx; simpa [go] using hx
  | succ f ih =>
    cases stack with
    | nil => intro x hx; simpa [go] using hx
    | cons y st =>
      intro x hx
      simp only [go]
      split
      · exact ih st vis x hx
      · exact ih _ _ x (List.mem_cons_of_mem _ hx)

/-- when finished, the result is closed under succ and contains the stack -/
theorem go_closed (succ : α → List α) (f : Nat) (stack vis : List α)
    (hc : Closed succ stack vis) (hfin : (go succ f stack vis).2 = true) :
    (∀ x ∈ stack, x ∈ (go succ f stack vis).1) ∧
    (∀ x ∈ (go succ f stack vis).1, ∀ y ∈ succ x, y ∈ (go succ f stack vis).1) := by
  induction f generalizing stack vis with
  | zero =>
    simp only [go] at hfin ⊢
    have : stack = [] := by simpa using hfin
    subst this
    refine ⟨by simp, ?_⟩
    intro x hx y hy
    rcases hc x hx y hy with h | h
    · exact h
    · simp at h
  | succ f ih =>
    cases stack with
    | nil =>
      simp only [go]
      refine ⟨by simp, ?_⟩
      intro x hx y hy
      rcases hc x hx y hy with h | h
      · exact h
      · simp at h
    | cons z st =>
      simp only [go] at hfin ⊢
      split at hfin
      · rename_i hz
        rw [if_pos hz]
        have hc' : Closed succ st vis := by
          intro x hx y hy
          rcases hc x hx y hy with h | h
          · exact Or.inl h
          · rcases List.mem_cons.mp h with rfl | h
            · exact Or.inl hz
            · exact Or.inr h
        obtain ⟨h1, h2⟩ := ih st vis hc' hfin
        refine ⟨?_, h2⟩
        intro x hx
        rcases List.mem_cons.mp hx with rfl | hx
        · exact go_mono succ f st vis _ hz
        · exact h1 x hx
      · rename_i hz
        rw [if_neg hz]
        have hc' : Closed succ (succ z ++ st) (z :: vis) := by
          intro x hx y hy
          rcases List.mem_cons.mp hx with rfl | hx
          · exact Or.inr (List.mem_append_left _ hy)
          · rcases hc x hx y hy with h | h
            · exact Or.inl (List.mem_cons_of_mem _ h)
            · rcases List.mem_cons.mp h with rfl | h
              · exact Or.inl (List.mem_cons_self)
              · exact Or.inr (List.mem_append_right _ h)
        obtain ⟨h1, h2⟩ := ih _ _ hc' hfin
        refine ⟨?_, h2⟩
        intro x hx
        rcases List.mem_cons.mp hx with rfl | hx
        · exact go_mono succ f _ _ _ (List.mem_cons_self)
        · exact h1 x (List.mem_append_right _ hx)

/-- completeness: if finished, everything reachable from the initial stack is in the result -/
theorem go_complete (succ : α → List α) (f : Nat) (init : List α)
    (hfin : (go succ f init []).2 = true) :
    ∀ i ∈ init, ∀ x, R succ i x → x ∈ (go succ f init []).1 := by
  have hc : Closed succ init [] := by intro x hx; simp at hx
  obtain ⟨h1, h2⟩ := go_closed succ f init [] hc hfin
  intro i hi x hr
  induction hr with
  | refl => exact h1 i hi
  | tail _ hstep ih => exact h2 _ ih _ hstep

theorem go_nodup (succ : α → List α) (f : Nat) (stack vis : List α) (h : vis.Nodup) :
    (go succ f stack vis).1.Nodup := by
  induction f generalizing stack vis with
  | zero => simpa [go] using h
  | succ f ih =>
    cases stack with
    | nil => simpa [go] using h
    | cons y st =>
      simp only [go]
      split
      · exact ih st vis h
      · rename_i hy
        exact ih _ _ (List.nodup_cons.mpr ⟨hy, h⟩)

/-- the specification theorem -/
theorem reach_spec (succ : α → List α) (f : Nat) (init : List α)
    (hfin : (go succ f init []).2 = true) (x : α) :
    x ∈ (go succ f init []).1 ↔ ∃ i ∈ init, R succ i x := by
  constructor
  · intro hx
    exact go_sound succ f init [] init (fun y hy => ⟨y, hy, Relation.ReflTransGen.refl⟩) (by simp) x hx
  · rintro ⟨i, hi, hr⟩
    exact go_complete succ f init hfin i hi x hr

/-! ## fuel sufficiency -/

/-- work still to do: one unit per stacked node, `1 + deg` per node of the universe not yet visited -/
def pot (succ : α → List α) (U : List α) (stack vis : List α) : Nat :=
  stack.length + ((U.filter (fun x => decide (x ∉ vis))).map (fun x => 1 + (succ x).length)).sum

theorem sum_filter_split' (g : α → Nat) (x : α) (p q : α → Bool) (hpx : p x = true) (hqx : q x = false)
    (hpq : ∀ y, y ≠ x → q y = p y) :
    ∀ (U : List α), U.Nodup → x ∈ U → ((U.filter p).map g).sum = g x + ((U.filter q).map g).sum
  | [], _, hm => by cases hm
  | a :: U, hnd, hm => by
    rw [List.nodup_cons] at hnd
    rcases List.mem_cons.mp hm with rfl | hm'
    · have h1 : U.filter q = U.filter p := by
        apply List.filter_congr
        intro y hy
        exact hpq y (fun h => hnd.1 (h ▸ hy))
      rw [List.filter_cons, List.filter_cons, hpx, hqx, h1]
      simp
    · have hax : a ≠ x := fun h => hnd.1 (h ▸ hm')
      have ih := sum_filter_split' g x p q hpx hqx hpq U hnd.2 hm'
      rw [List.filter_cons, List.filter_cons, hpq a hax]
      cases hp : p a
      · simpa using ih
      · simp only [if_true, List.map_cons, List.sum_cons, ih]
        omega

theorem sum_filter_split (g : α → Nat) (x : α) (vis : List α) (hx : x ∉ vis) (U : List α) (hU : U.Nodup)
    (hm : x ∈ U) :
    ((U.filter (fun y => decide (y ∉ vis))).map g).sum =
      g x + ((U.filter (fun y => decide (y ∉ x :: vis))).map g).sum := by
  apply sum_filter_split' g x _ _ _ _ _ U hU hm
  · simpa using hx
  · simp
  · intro y hy
    simp [hy]

/-- **fuel sufficiency**: over a finite, successor-closed universe the work list empties within
    `pot` steps. -/
theorem go_finished (succ : α → List α) (U : List α) (hU : U.Nodup)
    (hcl : ∀ x ∈ U, ∀ y ∈ succ x, y ∈ U) :
    ∀ (f : Nat) (stack vis : List α), (∀ x ∈ stack, x ∈ U) → pot succ U stack vis ≤ f →
      (go succ f stack vis).2 = true
  | 0, stack, vis, _, hf => by
    simp only [go]
    unfold pot at hf
    have : stack.length = 0 := by omega
    simp [List.length_eq_zero_iff.mp this]
  | f+1, [], vis, _, _ => by simp [go]
  | f+1, x :: st, vis, hs, hf => by
    simp only [go]
    have hxU : x ∈ U := hs x List.mem_cons_self
    have hst : ∀ y ∈ st, y ∈ U := fun y hy => hs y (List.mem_cons_of_mem _ hy)
    split
    · apply go_finished succ U hU hcl f st vis hst
      unfold pot at hf ⊢
      simp only [List.length_cons] at hf
      omega
    · rename_i hxv
      apply go_finished succ U hU hcl f (succ x ++ st) (x :: vis)
      · intro y hy
        rcases List.mem_append.mp hy with h | h
        · exact hcl x hxU y h
        · exact hst y h
      · unfold pot at hf ⊢
        rw [sum_filter_split (fun x => 1 + (succ x).length) x vis hxv U hU hxU] at hf
        simp only [List.length_cons, List.length_append] at hf ⊢
        omega

/-- a cruder bound on the potential: every node of the universe counted in full -/
theorem pot_le (succ : α → List α) (U stack vis : List α) (B : Nat) (hB : ∀ x ∈ U, (succ x).length ≤ B) :
    pot succ U stack vis ≤ stack.length + U.length * (1 + B) := by
  unfold pot
  have h1 : ((U.filter (fun x => decide (x ∉ vis))).map (fun x => 1 + (succ x).length)).sum ≤
      (U.filter (fun x => decide (x ∉ vis))).length * (1 + B) := by
    have : ∀ l : List α, (∀ x ∈ l, x ∈ U) → (l.map (fun x => 1 + (succ x).length)).sum ≤ l.length * (1 + B) := by
      intro l
      induction l with
      | nil => intro _; simp
      | cons a l ih =>
        intro hl
        have ha := hB a (hl a List.mem_cons_self)
        have := ih (fun x hx => hl x (List.mem_cons_of_mem _ hx))
        simp only [List.map_cons, List.sum_cons, List.length_cons]
        calc 1 + (succ a).length + (l.map (fun x => 1 + (succ x).length)).sum
            ≤ (1 + B) + l.length * (1 + B) := by omega
          _ = (l.length + 1) * (1 + B) := by ring
    exact this _ (fun x hx => (List.mem_filter.mp hx).1)
  have h2 : (U.filter (fun x => decide (x ∉ vis))).length ≤ U.length := List.length_filter_le _ _
  have h3 : (U.filter (fun x => decide (x ∉ vis))).length * (1 + B) ≤ U.length * (1 + B) :=
    Nat.mul_le_mul_right _ h2
  omega

end Spydr.Hier.Reach
