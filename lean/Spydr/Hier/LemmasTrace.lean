/-
  Tracing lemmas (C12): the executable one-hop functions (`innerWire`, `outerWire`, `pinsOfWire`)
  are exactly the adjacency `Adj` of the specification; hence the work-list closure `traceAll`
  computes the equivalence class `Conn` (via LemmasReach).
-/
import Spydr.Hier.LemmasEnum
import Spydr.Hier.LemmasReach

namespace Spydr.Hier

/-! ## unique owner in a `Nodup` flattening -/

theorem flatMap_owner_unique {α β : Type} {f : α → List β} : ∀ {l : List α},
    (l.flatMap f).Nodup → ∀ {a b : α}, a ∈ l → b ∈ l → ∀ {x : β}, x ∈ f a → x ∈ f b → a = b
  | [], _, _, _, ha, _, _, _, _ => by cases ha
  | c :: l, hnd, a, b, ha, hb, x, hxa, hxb => by
    rw [List.flatMap_cons, List.nodup_append] at hnd
    obtain ⟨_, h2, h3⟩ := hnd
    rcases List.mem_cons.mp ha with rfl | ha' <;> rcases List.mem_cons.mp hb with rfl | hb'
    · rfl
    · exact absurd rfl (h3 x hxa x (List.mem_flatMap.mpr ⟨b, hb', hxb⟩))
    · exact absurd rfl (h3 x hxb x (List.mem_flatMap.mpr ⟨a, ha', hxa⟩))
    · exact flatMap_owner_unique h2 ha' hb' hxa hxb

theorem Defn.portOfPin_some {D : Defn} {q : Nat} {P : Port} (h : D.portOfPin q = some P) :
    P ∈ D.ports ∧ q ∈ P.pins := by
  unfold Defn.portOfPin at h
  exact ⟨List.mem_of_find?_eq_some h, by simpa using List.find?_some h⟩

theorem Defn.LocalWF.portOfPin_eq {D : Defn} (hl : D.LocalWF) {q : Nat} {P : Port} (hP : P ∈ D.ports) (hq : q ∈ P.pins) :
    D.portOfPin q = some P := by
  cases h : D.portOfPin q with
  | none =>
    unfold Defn.portOfPin at h
    have := List.find?_eq_none.mp h P hP
    simp [hq] at this
  | some P' =>
    obtain ⟨h1, h2⟩ := Defn.portOfPin_some h
    rw [flatMap_owner_unique hl.2.1 h1 hP h2 hq]

theorem Defn.wireOf_some {D : Defn} {r : PinRef} {C : Cable} {w : Wire} (h : D.wireOf r = some (C, w)) :
    C ∈ D.cables ∧ w ∈ C.wires ∧ r ∈ w.pins := by
  unfold Defn.wireOf at h
  obtain ⟨C', hC', h2⟩ := List.exists_of_findSome?_eq_some h
  rw [Option.map_eq_some_iff] at h2
  obtain ⟨w', hw', he⟩ := h2
  cases he
  exact ⟨hC', List.mem_of_find?_eq_some hw', by simpa using List.find?_some hw'⟩

theorem Defn.wireOf_eq {D : Defn} (hnd : (D.cables.flatMap (fun C => C.wires.flatMap (·.pins))).Nodup)
    {r : PinRef} {C : Cable} {w : Wire} (hC : C ∈ D.cables) (hw : w ∈ C.wires) (hr : r ∈ w.pins) :
    D.wireOf r = some (C, w) := by
  cases h : D.wireOf r with
  | none =>
    unfold Defn.wireOf at h
    rw [List.findSome?_eq_none_iff] at h
    have h1 := h C hC
    rw [Option.map_eq_none_iff] at h1
    have := List.find?_eq_none.mp h1 w hw
    simp [hr] at this
  | some cw =>
    obtain ⟨C', w'⟩ := cw
    obtain ⟨h1, h2, h3⟩ := Defn.wireOf_some h
    have hCC : C' = C := flatMap_owner_unique hnd h1 hC (List.mem_flatMap.mpr ⟨w', h2, h3⟩)
      (List.mem_flatMap.mpr ⟨w, hw, hr⟩)
    subst hCC
    have hww : w' = w := flatMap_owner_unique ((List.nodup_flatMap.mp hnd).1 C' hC) h2 hw h3 hr
    subst hww
    rfl

/-! ## one hop: executable successors = `Adj` -/

theorem Adj.kinds {d : Design} {a b : HRef} (h : Adj d a b) : IsHPin d a ∧ IsHWire d b := by
  cases h with
  | inside hp hr hD hP hq hC hw _ =>
    exact ⟨⟨_, _, Occ.pin (Occ.port hp hr hD hP) hq⟩, ⟨_, _, Occ.wire (Occ.cable hp hr hD hC) hw⟩⟩
  | outside hp hr hD hc hr2 hD2 hP hq hC hw _ =>
    exact ⟨⟨_, _, Occ.pin (Occ.port (Occ.child hp hr hD hc) hr2 hD2 hP) hq⟩,
      ⟨_, _, Occ.wire (Occ.cable hp hr hD hC) hw⟩⟩

theorem adj_of_innerWire {d : Design} (hwf : WF d) {n m : HRef} {P : Port} {q : Nat}
    (hn : Occ d n (.pin P q)) (h : innerWire d n = some m) : Adj d n m := by
  obtain ⟨y, rfl, hy, hq⟩ := hn.pin_inv
  obtain ⟨p, i, r, D, rfl, hp, hr, hD, hP⟩ := hy.port_inv
  simp only [innerWire, resolve_complete hwf hp, defOf_eq_some.mpr ⟨r, hr, hD⟩] at h
  split at h
  · rename_i C w hw
    cases h
    obtain ⟨h1, h2, h3⟩ := Defn.wireOf_some hw
    exact Adj.inside hp hr hD hP hq h1 h2 h3
  · cases h

theorem adj_of_outerWire {d : Design} (hwf : WF d) {n m : HRef} {P : Port} {q : Nat}
    (hn : Occ d n (.pin P q)) (h : outerWire d n = some m) : Adj d n m := by
  obtain ⟨y, rfl, hy, hq⟩ := hn.pin_inv
  obtain ⟨p, i, r, D, rfl, hp, hr, hD, hP⟩ := hy.port_inv
  cases p with
  | nil => exact absurd rfl hp.ne_nil
  | cons c p' =>
    cases p' with
    | nil => simp [outerWire, resolve] at h
    | cons b p'' =>
      obtain ⟨i0, r0, D0, hc, hp0, hr0, hD0, hc0⟩ := hp.inst_cons_inv
      simp only [outerWire, resolve_complete hwf hp0, defOf_eq_some.mpr ⟨r0, hr0, hD0⟩] at h
      split at h
      · rename_i C w hw
        cases h
        obtain ⟨h1, h2, h3⟩ := Defn.wireOf_some hw
        subst hc
        exact Adj.outside hp0 hr0 hD0 hc0 hr hD hP hq h1 h2 h3
      · cases h

theorem innerWire_of_adj_inside {d : Design} (hwf : WF d) (hnn : WFNet d) {p : HRef} {i : Inst} {r : Nat} {D : Defn}
    {P : Port} {q : Nat} {C : Cable} {w : Wire}
    (hp : Occ d p (.inst i)) (hr : i.ref = some r) (hD : d.defs[r]? = some D)
    (hC : C ∈ D.cables) (hw : w ∈ C.wires) (hq : PinRef.inner q ∈ w.pins) :
    innerWire d (q :: P.id :: p) = some (w.id :: C.id :: p) := by
  simp only [innerWire, resolve_complete hwf hp, defOf_eq_some.mpr ⟨r, hr, hD⟩,
    Defn.wireOf_eq (hnn.1 D (mem_defs_of_get hD)) hC hw hq]

theorem outerWire_of_adj_outside {d : Design} (hwf : WF d) (hnn : WFNet d) {p : HRef} {i : Inst} {r : Nat} {D : Defn}
    {P : Port} {q c : Nat} {C : Cable} {w : Wire}
    (hp : Occ d p (.inst i)) (hr : i.ref = some r) (hD : d.defs[r]? = some D)
    (hC : C ∈ D.cables) (hw : w ∈ C.wires) (hq : PinRef.outer c q ∈ w.pins) :
    outerWire d (q :: P.id :: c :: p) = some (w.id :: C.id :: p) := by
  simp only [outerWire, resolve_complete hwf hp, defOf_eq_some.mpr ⟨r, hr, hD⟩,
    Defn.wireOf_eq (hnn.1 D (mem_defs_of_get hD)) hC hw hq]

/-- successors of a hierarchical pin = the wires it is attached to -/
theorem adj_iff_pin {d : Design} (hwf : WF d) (hnn : WFNet d) {n : HRef} {P : Port} {q : Nat}
    (hn : Occ d n (.pin P q)) (m : HRef) :
    Adj d n m ↔ innerWire d n = some m ∨ outerWire d n = some m := by
  constructor
  · intro h
    cases h with
    | inside hp hr hD hP hq hC hw hin =>
      exact Or.inl (innerWire_of_adj_inside hwf hnn hp hr hD hC hw hin)
    | outside hp hr hD hc hr2 hD2 hP hq hC hw hin =>
      exact Or.inr (outerWire_of_adj_outside hwf hnn hp hr hD hC hw hin)
  · rintro (h | h)
    · exact adj_of_innerWire hwf hn h
    · exact adj_of_outerWire hwf hn h

theorem mem_pinsOfWire {d : Design} (hwf : WF d) {p : HRef} {i : Inst} {r : Nat} {D : Defn} {C : Cable} {w : Wire}
    (hp : Occ d p (.inst i)) (hr : i.ref = some r) (hD : d.defs[r]? = some D)
    (hC : C ∈ D.cables) (hw : w ∈ C.wires) (n : HRef) :
    n ∈ pinsOfWire d (w.id :: C.id :: p) ↔ ∃ pr ∈ w.pins, ∃ b, hpinOfRef d D p pr = some (b, n) := by
  have ho : Occ d (w.id :: C.id :: p) (.wire C w) := Occ.wire (Occ.cable hp hr hD hC) hw
  simp only [pinsOfWire, pinsOfWireT, resolve_complete hwf ho, List.tail_cons, resolve_complete hwf hp,
    defOf_eq_some.mpr ⟨r, hr, hD⟩, List.mem_map, List.mem_filterMap]
  constructor
  · rintro ⟨⟨b, n'⟩, ⟨pr, hpr, he⟩, rfl⟩
    exact ⟨pr, hpr, b, he⟩
  · rintro ⟨pr, hpr, b, he⟩
    exact ⟨(b, n), ⟨pr, hpr, he⟩, rfl⟩

/-- the pins of a hierarchical wire = the hierarchical pins attached to it -/
theorem adj_iff_wire {d : Design} (hwf : WF d) {m : HRef} {C : Cable} {w : Wire}
    (hm : Occ d m (.wire C w)) (n : HRef) :
    Adj d n m ↔ n ∈ pinsOfWire d m := by
  obtain ⟨y, rfl, hy, hw⟩ := hm.wire_inv
  obtain ⟨p, i, r, D, rfl, hp, hr, hD, hC⟩ := hy.cable_inv
  have hl : D.LocalWF := hwf.localWF (mem_defs_of_get hD)
  rw [mem_pinsOfWire hwf hp hr hD hC hw]
  constructor
  · intro h
    generalize hmm : w.id :: C.id :: p = mm at h
    cases h with
    | @inside p' i' r' D' P q C' w' hp' hr' hD' hP hq hC' hw' hin =>
      simp only [List.cons.injEq] at hmm
      obtain ⟨h1, h2, h3⟩ := hmm
      subst h3
      have hm' := hm
      rw [h1, h2] at hm'
      have := Occ.unique hwf hm' (Occ.wire (Occ.cable hp' hr' hD' hC') hw')
      cases this
      have := Occ.unique hwf hp hp'
      cases this
      rw [hr] at hr'
      cases hr'
      rw [hD] at hD'
      cases hD'
      refine ⟨_, hin, false, ?_⟩
      simp only [hpinOfRef, hl.portOfPin_eq hP hq]
    | @outside p' i' c r' r2 D' D2 P q C' w' hp' hr' hD' hc hr2 hD2 hP hq hC' hw' hin =>
      simp only [List.cons.injEq] at hmm
      obtain ⟨h1, h2, h3⟩ := hmm
      subst h3
      have hm' := hm
      rw [h1, h2] at hm'
      have := Occ.unique hwf hm' (Occ.wire (Occ.cable hp' hr' hD' hC') hw')
      cases this
      have := Occ.unique hwf hp hp'
      cases this
      rw [hr] at hr'
      cases hr'
      rw [hD] at hD'
      cases hD'
      have hl2 : D2.LocalWF := hwf.localWF (mem_defs_of_get hD2)
      refine ⟨_, hin, true, ?_⟩
      simp only [hpinOfRef, hl.child_lookup hc, defOf_eq_some.mpr ⟨r2, hr2, hD2⟩, hl2.portOfPin_eq hP hq]
  · rintro ⟨pr, hpr, b, he⟩
    cases pr with
    | inner q =>
      simp only [hpinOfRef] at he
      split at he
      · rename_i P hP
        cases he
        obtain ⟨h1, h2⟩ := Defn.portOfPin_some hP
        exact Adj.inside hp hr hD h1 h2 hC hw hpr
      · cases he
    | outer c q =>
      simp only [hpinOfRef] at he
      split at he
      · rename_i ci hci
        obtain ⟨hc1, hc2⟩ := Defn.child?_some hci
        split at he
        · rename_i D2 hD2
          obtain ⟨r2, hr2, hD2'⟩ := defOf_eq_some.mp hD2
          split at he
          · rename_i P hP
            cases he
            obtain ⟨h1, h2⟩ := Defn.portOfPin_some hP
            subst hc2
            exact Adj.outside hp hr hD hc1 hr2 hD2' h1 h2 hC hw hpr
          · cases he
        · cases he
      · cases he

/-! ## the closure -/

theorem mem_traceSucc {d : Design} (hwf : WF d) (hnn : WFNet d) (n y : HRef) :
    y ∈ traceSucc d n ↔ Link d n y := by
  unfold traceSucc Link
  cases hres : resolve d n with
  | none =>
    simp only [List.not_mem_nil, false_iff]
    rintro (h | h)
    · obtain ⟨P, q, ho⟩ := h.kinds.1
      rw [resolve_complete hwf ho] at hres
      cases hres
    · obtain ⟨C, w, ho⟩ := h.kinds.2
      rw [resolve_complete hwf ho] at hres
      cases hres
  | some e =>
    have hn := resolve_sound d n e hres
    cases e with
    | pin P q =>
      simp only [List.mem_append, Option.mem_toList]
      rw [adj_iff_pin hwf hnn hn]
      constructor
      · exact Or.inl
      · rintro (h | h)
        · exact h
        · obtain ⟨C, w, ho⟩ := h.kinds.2
          cases Occ.unique hwf hn ho
    | wire C w =>
      simp only
      rw [← adj_iff_wire hwf hn]
      constructor
      · exact Or.inr
      · rintro (h | h)
        · obtain ⟨P, q, ho⟩ := h.kinds.1
          cases Occ.unique hwf hn ho
        · exact h
    | inst i =>
      simp only [List.not_mem_nil, false_iff]
      rintro (h | h)
      · obtain ⟨P, q, ho⟩ := h.kinds.1
        cases Occ.unique hwf hn ho
      · obtain ⟨C, w, ho⟩ := h.kinds.2
        cases Occ.unique hwf hn ho
    | port P =>
      simp only [List.not_mem_nil, false_iff]
      rintro (h | h)
      · obtain ⟨P, q, ho⟩ := h.kinds.1
        cases Occ.unique hwf hn ho
      · obtain ⟨C, w, ho⟩ := h.kinds.2
        cases Occ.unique hwf hn ho
    | cable C =>
      simp only [List.not_mem_nil, false_iff]
      rintro (h | h)
      · obtain ⟨P, q, ho⟩ := h.kinds.1
        cases Occ.unique hwf hn ho
      · obtain ⟨C, w, ho⟩ := h.kinds.2
        cases Occ.unique hwf hn ho

theorem rtg_symm {α : Type} {R : α → α → Prop} (hs : ∀ a b, R a b → R b a) {a b : α}
    (h : Relation.ReflTransGen R a b) : Relation.ReflTransGen R b a := by
  induction h with
  | refl => exact Relation.ReflTransGen.refl
  | tail _ hl ih => exact Relation.ReflTransGen.head (hs _ _ hl) ih

theorem rtg_mono {α : Type} {R S : α → α → Prop} (hm : ∀ a b, R a b → S a b) {a b : α}
    (h : Relation.ReflTransGen R a b) : Relation.ReflTransGen S a b := by
  induction h with
  | refl => exact Relation.ReflTransGen.refl
  | tail _ hl ih => exact ih.tail (hm _ _ hl)

theorem Link.symm {d : Design} {a b : HRef} (h : Link d a b) : Link d b a := Or.symm h

theorem conn_iff_reflTransGen {d : Design} (a b : HRef) :
    Conn d a b ↔ Relation.ReflTransGen (Link d) a b := by
  constructor
  · intro h
    induction h with
    | refl a => exact Relation.ReflTransGen.refl
    | adj h => exact Relation.ReflTransGen.single (Or.inl h)
    | symm _ ih => exact rtg_symm (fun _ _ h => Link.symm h) ih
    | trans _ _ ih1 ih2 => exact ih1.trans ih2
  · intro h
    induction h with
    | refl => exact Conn.refl a
    | tail _ hl ih =>
      rcases hl with hl | hl
      · exact Conn.trans ih (Conn.adj hl)
      · exact Conn.trans ih (Conn.symm (Conn.adj hl))

theorem step_traceSucc_iff {d : Design} (hwf : WF d) (hnn : WFNet d) (a b : HRef) :
    Relation.ReflTransGen (Reach.Step (traceSucc d)) a b ↔ Conn d a b := by
  rw [conn_iff_reflTransGen]
  have : ∀ x y, Reach.Step (traceSucc d) x y ↔ Link d x y := fun x y => mem_traceSucc hwf hnn x y
  constructor
  · exact rtg_mono (fun x y h => (this x y).mp h)
  · exact rtg_mono (fun x y h => (this x y).mpr h)

theorem isWireRef_iff {d : Design} (hwf : WF d) (n : HRef) : isWireRef d n = true ↔ IsHWire d n := by
  unfold isWireRef IsHWire
  constructor
  · intro h
    split at h
    · rename_i C w hr
      exact ⟨C, w, resolve_sound d n _ hr⟩
    · cases h
  · rintro ⟨C, w, ho⟩
    rw [resolve_complete hwf ho]

theorem isPinRef_iff {d : Design} (hwf : WF d) (n : HRef) : isPinRef d n = true ↔ IsHPin d n := by
  unfold isPinRef IsHPin
  constructor
  · intro h
    split at h
    · rename_i C w hr
      exact ⟨C, w, resolve_sound d n _ hr⟩
    · cases h
  · rintro ⟨C, w, ho⟩
    rw [resolve_complete hwf ho]

/-- **the closure computes the electrical net** (when the work-list emptied within its fuel) -/
theorem mem_traceAll {d : Design} (hwf : WF d) (hnn : WFNet d) (init : List HRef)
    (hfin : (traceAll d init).2 = true) (w : HRef) :
    w ∈ (traceAll d init).1 ↔ IsHWire d w ∧ ∃ x ∈ init, Conn d x w := by
  unfold traceAll at hfin ⊢
  simp only at hfin ⊢
  rw [List.mem_filter, Reach.reach_spec _ _ _ hfin, isWireRef_iff hwf]
  constructor
  · rintro ⟨⟨x, hx, hr⟩, hw⟩
    exact ⟨hw, x, hx, (step_traceSucc_iff hwf hnn x w).mp hr⟩
  · rintro ⟨hw, x, hx, hc⟩
    exact ⟨⟨x, hx, (step_traceSucc_iff hwf hnn x w).mpr hc⟩, hw⟩

theorem traceAll_nodup (d : Design) (init : List HRef) : (traceAll d init).1.Nodup := by
  unfold traceAll
  exact List.Nodup.sublist List.filter_sublist (Reach.go_nodup _ _ _ _ List.nodup_nil)

/-- soundness needs no `finished` -/
theorem traceAll_sound {d : Design} (hwf : WF d) (hnn : WFNet d) (init : List HRef) (w : HRef)
    (h : w ∈ (traceAll d init).1) : IsHWire d w ∧ ∃ x ∈ init, Conn d x w := by
  unfold traceAll at h
  simp only at h
  rw [List.mem_filter, isWireRef_iff hwf] at h
  obtain ⟨x, hx, hr⟩ := Reach.go_sound (traceSucc d) _ init [] init
    (fun y hy => ⟨y, hy, Relation.ReflTransGen.refl⟩) (by simp) w h.1
  exact ⟨h.2, x, hx, (step_traceSucc_iff hwf hnn x w).mp hr⟩

end Spydr.Hier
