/-
  `HRef.is_unique`: the upward search over the alternative instances of the owning definitions
  succeeds exactly when the referenced element has a second occurrence.
-/
import Spydr.Hier.LemmasUp

namespace Spydr.Hier

/-- the instances whose reachability `is_unique` examines: for every level of the path, the other
    instances of the definition owning the item of that level -/
def alts (d : Design) (h : HRef) : List Nat := ownerOthers d h ++ otherRefs d (instPath d h)

/-- instance identity `x` has an occurrence -/
def HasOcc (d : Design) (x : Nat) : Prop := ∃ p c, Occ d p (.inst c) ∧ c.id = x

theorem mem_filter_ne (l : List Nat) (y b : Nat) : b ∈ l.filter (fun b => b != y) ↔ b ∈ l ∧ b ≠ y := by
  simp [List.mem_filter]

theorem alts_top {d : Design} (hwf : WF d) {x : Nat} {t : Inst} (ho : Occ d [x] (.inst t)) : alts d [x] = [] := by
  simp [alts, ownerOthers, instPath, resolve_complete hwf ho, otherRefs]

theorem alts_inst {d : Design} (hwf : WF d) {x y : Nat} {p : HRef} {c iy : Inst} {r : Nat} {D : Defn}
    (hq : Occ d (y :: p) (.inst iy)) (hr : iy.ref = some r) (hD : d.defs[r]? = some D) (hc : c ∈ D.children)
    (hx : x = c.id) (b : Nat) :
    b ∈ alts d (x :: y :: p) ↔ (b ∈ d.refsOf r ∧ b ≠ y) ∨ b ∈ alts d (y :: p) := by
  subst hx
  have ho : Occ d (c.id :: y :: p) (.inst c) := Occ.child hq hr hD hc
  have hpar : d.parentOf c.id = some r := hwf.parentOf_eq ((mem_childTable c r).mpr ⟨D, hD, hc⟩)
  simp only [alts, ownerOthers, instPath, resolve_complete hwf ho, resolve_complete hwf hq, otherRefs, hpar,
    List.nil_append, List.mem_append, mem_filter_ne]

theorem alts_port {d : Design} (hwf : WF d) {y : Nat} {p : HRef} {iy : Inst} {r : Nat} {D : Defn} {P : Port}
    (hq : Occ d (y :: p) (.inst iy)) (hr : iy.ref = some r) (hD : d.defs[r]? = some D) (hP : P ∈ D.ports) (b : Nat) :
    b ∈ alts d (P.id :: y :: p) ↔ (b ∈ d.refsOf r ∧ b ≠ y) ∨ b ∈ alts d (y :: p) := by
  have ho : Occ d (P.id :: y :: p) (.port P) := Occ.port hq hr hD hP
  have hy : iy.id = y := by
    cases hq with
    | top => rfl
    | child => rfl
  simp only [alts, ownerOthers, instPath, resolve_complete hwf ho, resolve_complete hwf hq, List.tail_cons, hr,
    List.nil_append, List.mem_append, mem_filter_ne, hy]

theorem alts_cable {d : Design} (hwf : WF d) {y : Nat} {p : HRef} {iy : Inst} {r : Nat} {D : Defn} {C : Cable}
    (hq : Occ d (y :: p) (.inst iy)) (hr : iy.ref = some r) (hD : d.defs[r]? = some D) (hC : C ∈ D.cables) (b : Nat) :
    b ∈ alts d (C.id :: y :: p) ↔ (b ∈ d.refsOf r ∧ b ≠ y) ∨ b ∈ alts d (y :: p) := by
  have ho : Occ d (C.id :: y :: p) (.cable C) := Occ.cable hq hr hD hC
  have hy : iy.id = y := by
    cases hq with
    | top => rfl
    | child => rfl
  simp only [alts, ownerOthers, instPath, resolve_complete hwf ho, resolve_complete hwf hq, List.tail_cons, hr,
    List.nil_append, List.mem_append, mem_filter_ne, hy]

theorem alts_pin {d : Design} (hwf : WF d) {q : Nat} {h : HRef} {P : Port} (hp : Occ d h (.port P)) (hq : q ∈ P.pins) :
    alts d (q :: h) = alts d h := by
  have ho : Occ d (q :: h) (.pin P q) := Occ.pin hp hq
  obtain ⟨p, i, r, D, rfl, hpi, hr, hD, hP⟩ := hp.port_inv
  simp only [alts, ownerOthers, instPath, resolve_complete hwf ho, resolve_complete hwf hp, List.tail_cons]

theorem alts_wire {d : Design} (hwf : WF d) {h : HRef} {C : Cable} {w : Wire} (hp : Occ d h (.cable C)) (hw : w ∈ C.wires) :
    alts d (w.id :: h) = alts d h := by
  have ho : Occ d (w.id :: h) (.wire C w) := Occ.wire hp hw
  obtain ⟨p, i, r, D, rfl, hpi, hr, hD, hP⟩ := hp.cable_inv
  simp only [alts, ownerOthers, instPath, resolve_complete hwf ho, resolve_complete hwf hp, List.tail_cons]

theorem Occ.head_id {d : Design} {x : Nat} {p : HRef} {c : Inst} (ho : Occ d (x :: p) (.inst c)) : x = c.id := by
  cases ho with
  | top => rfl
  | child => rfl

theorem Occ.hasOcc {d : Design} {p : HRef} {c : Inst} (ho : Occ d p (.inst c)) : HasOcc d c.id := ⟨p, c, ho, rfl⟩

theorem WF.child_def_unique {d : Design} (hwf : WF d) {c : Inst} {r r' : Nat} {D D' : Defn}
    (hD : d.defs[r]? = some D) (hc : c ∈ D.children) (hD' : d.defs[r']? = some D') (hc' : c ∈ D'.children) : r = r' :=
  (hwf.childTable_unique ((mem_childTable c r).mpr ⟨D, hD, hc⟩) ((mem_childTable c r').mpr ⟨D', hD', hc'⟩) rfl).2

/-- the search of `is_unique` succeeds exactly when the element has a second occurrence -/
theorem alts_iff {d : Design} (hwf : WF d) {h : HRef} {e : Elem} (ho : Occ d h e) :
    (∃ b ∈ alts d h, HasOcc d b) ↔ ∃ h', Occ d h' e ∧ h' ≠ h := by
  induction ho with
  | @top t r D h1 h2 h3 h4 =>
    have hot : Occ d [t.id] (.inst t) := Occ.top h1 h2 h3 h4
    rw [alts_top hwf hot]
    constructor
    · rintro ⟨b, hb, _⟩; cases hb
    · rintro ⟨h', ho', hne⟩
      exfalso
      cases ho' with
      | top => exact hne rfl
      | child _ _ hD hc => exact hwf.top_not_child h1 ((mem_childTable t _).mpr ⟨_, hD, hc⟩) rfl
  | @child p i c r D hp hr hD hc ih =>
    obtain ⟨y, p', rfl⟩ := List.exists_cons_of_ne_nil hp.ne_nil
    have hy : y = i.id := hp.head_id
    constructor
    · rintro ⟨b, hb, hocc⟩
      rcases (alts_inst hwf hp hr hD hc rfl b).mp hb with ⟨hbr, hby⟩ | hb'
      · obtain ⟨pb, cb, hocb, rfl⟩ := hocc
        have hrb := (hwf.mem_refsOf_occ hocb r).mp hbr
        refine ⟨c.id :: pb, Occ.child hocb hrb hD hc, ?_⟩
        intro he
        simp only [List.cons.injEq, true_and] at he
        subst he
        exact hby hocb.head_id.symm
      · obtain ⟨p2, ho2, hne2⟩ := ih.mp ⟨b, hb', hocc⟩
        exact ⟨c.id :: p2, Occ.child ho2 hr hD hc, by simpa using hne2⟩
    · rintro ⟨h', ho', hne⟩
      cases ho' with
      | top h1 _ _ _ => exact absurd rfl (hwf.top_not_child h1 ((mem_childTable c r).mpr ⟨D, hD, hc⟩))
      | @child p2 i2 _ r2 D2 hp2 hr2 hD2 hc2 =>
        have hrr : r2 = r := hwf.child_def_unique hD2 hc2 hD hc
        subst hrr
        have hne2 : p2 ≠ y :: p' := fun he => hne (by rw [he])
        by_cases hid : i2.id = i.id
        · cases hwf.instRec_unique hp2.instRec hp.instRec hid
          obtain ⟨b, hb, hocc⟩ := ih.mpr ⟨p2, hp2, hne2⟩
          exact ⟨b, (alts_inst hwf hp hr hD hc rfl b).mpr (Or.inr hb), hocc⟩
        · refine ⟨i2.id, (alts_inst hwf hp hr hD hc rfl _).mpr (Or.inl ⟨?_, ?_⟩), hp2.hasOcc⟩
          · exact (mem_refsOf _ _).mpr ⟨i2, hp2.instRec, rfl, hr2⟩
          · rw [hy]; exact hid
  | @port p i r D P hp hr hD hP ih =>
    obtain ⟨y, p', rfl⟩ := List.exists_cons_of_ne_nil hp.ne_nil
    have hy : y = i.id := hp.head_id
    constructor
    · rintro ⟨b, hb, hocc⟩
      rcases (alts_port hwf hp hr hD hP b).mp hb with ⟨hbr, hby⟩ | hb'
      · obtain ⟨pb, cb, hocb, rfl⟩ := hocc
        have hrb := (hwf.mem_refsOf_occ hocb r).mp hbr
        refine ⟨P.id :: pb, Occ.port hocb hrb hD hP, ?_⟩
        intro he
        simp only [List.cons.injEq, true_and] at he
        subst he
        exact hby hocb.head_id.symm
      · obtain ⟨p2, ho2, hne2⟩ := ih.mp ⟨b, hb', hocc⟩
        exact ⟨P.id :: p2, Occ.port ho2 hr hD hP, by simpa using hne2⟩
    · rintro ⟨h', ho', hne⟩
      obtain ⟨p2, i2, r2, D2, rfl, hp2, hr2, hD2, hP2⟩ := ho'.port_inv
      have hrr : r2 = r := flatMap_index_unique hwf.2.2.1 hD2 hD (List.mem_map_of_mem hP2)
        (List.mem_map_of_mem (f := fun (P : Port) => P.id) hP)
      subst hrr
      have hne2 : p2 ≠ y :: p' := fun he => hne (by rw [he])
      by_cases hid : i2.id = i.id
      · cases hwf.instRec_unique hp2.instRec hp.instRec hid
        obtain ⟨b, hb, hocc⟩ := ih.mpr ⟨p2, hp2, hne2⟩
        exact ⟨b, (alts_port hwf hp hr hD hP b).mpr (Or.inr hb), hocc⟩
      · refine ⟨i2.id, (alts_port hwf hp hr hD hP _).mpr (Or.inl ⟨?_, ?_⟩), hp2.hasOcc⟩
        · exact (mem_refsOf _ _).mpr ⟨i2, hp2.instRec, rfl, hr2⟩
        · rw [hy]; exact hid
  | @pin h P q hp hq ih =>
    rw [alts_pin hwf hp hq]
    constructor
    · intro hb
      obtain ⟨h2, ho2, hne2⟩ := ih.mp hb
      exact ⟨q :: h2, Occ.pin ho2 hq, by simpa using hne2⟩
    · rintro ⟨h', ho', hne⟩
      obtain ⟨y', rfl, hy', _⟩ := ho'.pin_inv
      exact ih.mpr ⟨y', hy', fun he => hne (by rw [he])⟩
  | @cable p i r D C hp hr hD hC ih =>
    obtain ⟨y, p', rfl⟩ := List.exists_cons_of_ne_nil hp.ne_nil
    have hy : y = i.id := hp.head_id
    constructor
    · rintro ⟨b, hb, hocc⟩
      rcases (alts_cable hwf hp hr hD hC b).mp hb with ⟨hbr, hby⟩ | hb'
      · obtain ⟨pb, cb, hocb, rfl⟩ := hocc
        have hrb := (hwf.mem_refsOf_occ hocb r).mp hbr
        refine ⟨C.id :: pb, Occ.cable hocb hrb hD hC, ?_⟩
        intro he
        simp only [List.cons.injEq, true_and] at he
        subst he
        exact hby hocb.head_id.symm
      · obtain ⟨p2, ho2, hne2⟩ := ih.mp ⟨b, hb', hocc⟩
        exact ⟨C.id :: p2, Occ.cable ho2 hr hD hC, by simpa using hne2⟩
    · rintro ⟨h', ho', hne⟩
      obtain ⟨p2, i2, r2, D2, rfl, hp2, hr2, hD2, hC2⟩ := ho'.cable_inv
      have hrr : r2 = r := flatMap_index_unique hwf.2.2.2.2.1 hD2 hD (List.mem_map_of_mem hC2)
        (List.mem_map_of_mem (f := fun (P : Cable) => P.id) hC)
      subst hrr
      have hne2 : p2 ≠ y :: p' := fun he => hne (by rw [he])
      by_cases hid : i2.id = i.id
      · cases hwf.instRec_unique hp2.instRec hp.instRec hid
        obtain ⟨b, hb, hocc⟩ := ih.mpr ⟨p2, hp2, hne2⟩
        exact ⟨b, (alts_cable hwf hp hr hD hC b).mpr (Or.inr hb), hocc⟩
      · refine ⟨i2.id, (alts_cable hwf hp hr hD hC _).mpr (Or.inl ⟨?_, ?_⟩), hp2.hasOcc⟩
        · exact (mem_refsOf _ _).mpr ⟨i2, hp2.instRec, rfl, hr2⟩
        · rw [hy]; exact hid
  | @wire h C w hp hw ih =>
    rw [alts_wire hwf hp hw]
    constructor
    · intro hb
      obtain ⟨h2, ho2, hne2⟩ := ih.mp hb
      exact ⟨w.id :: h2, Occ.wire ho2 hw, by simpa using hne2⟩
    · rintro ⟨h', ho', hne⟩
      obtain ⟨y', rfl, hy', _⟩ := ho'.wire_inv
      exact ih.mpr ⟨y', hy', fun he => hne (by rw [he])⟩

theorem Occ.inst_induction_aux {d : Design} {motive : HRef → Inst → Prop}
    (top : ∀ {t : Inst}, Occ d [t.id] (.inst t) → motive [t.id] t)
    (child : ∀ {p : HRef} {i c : Inst} {r : Nat} {D : Defn}, Occ d p (.inst i) → i.ref = some r →
      d.defs[r]? = some D → c ∈ D.children → motive p i → motive (c.id :: p) c)
    {h : HRef} {e : Elem} (ho : Occ d h e) : ∀ c, e = .inst c → motive h c := by
  induction ho with
  | top h1 h2 h3 h4 => intro c hc; cases hc; exact top (Occ.top h1 h2 h3 h4)
  | @child p i c0 r D hp hr hD hc ih => intro c he; cases he; exact child hp hr hD hc (ih i rfl)
  | port _ _ _ _ _ => intro c hc; cases hc
  | pin _ _ _ => intro c hc; cases hc
  | cable _ _ _ _ _ => intro c hc; cases hc
  | wire _ _ _ => intro c hc; cases hc

/-- induction over valid instance paths -/
theorem Occ.inst_induction {d : Design} {motive : HRef → Inst → Prop}
    (top : ∀ {t : Inst}, Occ d [t.id] (.inst t) → motive [t.id] t)
    (child : ∀ {p : HRef} {i c : Inst} {r : Nat} {D : Defn}, Occ d p (.inst i) → i.ref = some r →
      d.defs[r]? = some D → c ∈ D.children → motive p i → motive (c.id :: p) c)
    {h : HRef} {c : Inst} (ho : Occ d h (.inst c)) : motive h c :=
  Occ.inst_induction_aux (motive := motive) top child ho c rfl

theorem mem_instPath_hasOcc {d : Design} {h : HRef} {c : Inst} (ho : Occ d h (.inst c)) : ∀ v ∈ h, HasOcc d v := by
  refine Occ.inst_induction (motive := fun h _ => ∀ v ∈ h, HasOcc d v) ?_ ?_ ho
  · intro t hot v hv
    simp only [List.mem_singleton] at hv
    subst hv
    exact hot.hasOcc
  · intro p i c r D hp hr hD hc ih v hv
    rcases List.mem_cons.mp hv with rfl | hv
    · exact (Occ.child hp hr hD hc).hasOcc
    · exact ih v hv

/-- below an instance the definition indices strictly decrease (`Sorted`) -/
theorem desc_ref_lt {d : Design} (hwf : WF d) (hs : Sorted d) {p : HRef} {i : Inst} (hp : Occ d p (.inst i))
    {ri : Nat} (hri : i.ref = some ri) {h : HRef} {c : Inst} (ho : Occ d h (.inst c)) :
    p <:+ h → p ≠ h → ∀ rc, c.ref = some rc → rc < ri := by
  refine Occ.inst_induction (motive := fun h c => p <:+ h → p ≠ h → ∀ rc, c.ref = some rc → rc < ri) ?_ ?_ ho
  · intro t hot hsuf hne
    exfalso
    rcases List.suffix_cons_iff.mp hsuf with h | h
    · exact hne h
    · simp at h
      exact hp.ne_nil h
  · intro p' i' c' r' D' hp' hr' hD' hc' ih hsuf hne rc hrc
    have h1 := hs.lt hD' hc' hrc
    have hsuf' := suffix_cons_of_ne hsuf (Ne.symm hne)
    by_cases he : p = p'
    · subst he
      cases Occ.unique hwf hp hp'
      rw [hri] at hr'
      cases hr'
      exact h1
    · have := ih hsuf' he r' hr'
      omega

theorem parent_hasOcc {d : Design} (hwf : WF d) {x y : Nat} (hp : Parent d x y) (hy : HasOcc d y) : HasOcc d x := by
  obtain ⟨c, k, D, i, hD, hc, hx, hi, hiy, hr⟩ := hp
  obtain ⟨py, cy, hocy, hcy⟩ := hy
  have : cy = i := hwf.instRec_unique hocy.instRec hi (hcy.trans hiy.symm)
  subst this
  exact ⟨c.id :: py, c, Occ.child hocy hr hD hc, hx⟩

theorem transGen_parent_hasOcc {d : Design} (hwf : WF d) {x y : Nat} (hp : Relation.TransGen (Parent d) x y)
    (hy : HasOcc d y) : HasOcc d x := by
  induction hp with
  | single h => exact parent_hasOcc hwf h hy
  | tail _ h ih => exact ih (parent_hasOcc hwf h hy)

theorem instPath_occ {d : Design} (hwf : WF d) {h : HRef} {e : Elem} (ho : Occ d h e) :
    ∃ c, Occ d (instPath d h) (.inst c) ∧ instPath d h <:+ h := by
  unfold instPath
  rw [resolve_complete hwf ho]
  cases e with
  | inst i => exact ⟨i, ho, List.suffix_refl _⟩
  | port P =>
    obtain ⟨p, i, r, D, rfl, hp, _⟩ := ho.port_inv
    exact ⟨i, hp, List.suffix_cons _ _⟩
  | cable C =>
    obtain ⟨p, i, r, D, rfl, hp, _⟩ := ho.cable_inv
    exact ⟨i, hp, List.suffix_cons _ _⟩
  | pin P q =>
    obtain ⟨y, rfl, hy, _⟩ := ho.pin_inv
    obtain ⟨p, i, r, D, rfl, hp, _⟩ := hy.port_inv
    exact ⟨i, hp, (List.suffix_cons _ _).trans (List.suffix_cons _ _)⟩
  | wire C w =>
    obtain ⟨y, rfl, hy, _⟩ := ho.wire_inv
    obtain ⟨p, i, r, D, rfl, hp, _⟩ := hy.cable_inv
    exact ⟨i, hp, (List.suffix_cons _ _).trans (List.suffix_cons _ _)⟩

/-- every alternative comes from a level of the path -/
theorem alts_level {d : Design} (hwf : WF d) {h : HRef} {e : Elem} (ho : Occ d h e) (b : Nat) :
    b ∈ alts d h → ∃ q iy r, q <:+ h ∧ Occ d q (.inst iy) ∧ iy.ref = some r ∧ b ∈ d.refsOf r ∧ b ≠ iy.id := by
  induction ho with
  | @top t r D h1 h2 h3 h4 =>
    rw [alts_top hwf (Occ.top h1 h2 h3 h4)]
    intro hb; cases hb
  | @child p i c r D hp hr hD hc ih =>
    obtain ⟨y, p', rfl⟩ := List.exists_cons_of_ne_nil hp.ne_nil
    intro hb
    rcases (alts_inst hwf hp hr hD hc rfl b).mp hb with ⟨h1, h2⟩ | hb'
    · exact ⟨_, i, r, List.suffix_cons _ _, hp, hr, h1, hp.head_id ▸ h2⟩
    · obtain ⟨q, iy, r', a1, a2, a3, a4, a5⟩ := ih hb'
      exact ⟨q, iy, r', a1.trans (List.suffix_cons _ _), a2, a3, a4, a5⟩
  | @port p i r D P hp hr hD hP ih =>
    obtain ⟨y, p', rfl⟩ := List.exists_cons_of_ne_nil hp.ne_nil
    intro hb
    rcases (alts_port hwf hp hr hD hP b).mp hb with ⟨h1, h2⟩ | hb'
    · exact ⟨_, i, r, List.suffix_cons _ _, hp, hr, h1, hp.head_id ▸ h2⟩
    · obtain ⟨q, iy, r', a1, a2, a3, a4, a5⟩ := ih hb'
      exact ⟨q, iy, r', a1.trans (List.suffix_cons _ _), a2, a3, a4, a5⟩
  | @pin h P q hp hq ih =>
    rw [alts_pin hwf hp hq]
    intro hb
    obtain ⟨q', iy, r', a1, a2, a3, a4, a5⟩ := ih hb
    exact ⟨q', iy, r', a1.trans (List.suffix_cons _ _), a2, a3, a4, a5⟩
  | @cable p i r D C hp hr hD hC ih =>
    obtain ⟨y, p', rfl⟩ := List.exists_cons_of_ne_nil hp.ne_nil
    intro hb
    rcases (alts_cable hwf hp hr hD hC b).mp hb with ⟨h1, h2⟩ | hb'
    · exact ⟨_, i, r, List.suffix_cons _ _, hp, hr, h1, hp.head_id ▸ h2⟩
    · obtain ⟨q, iy, r', a1, a2, a3, a4, a5⟩ := ih hb'
      exact ⟨q, iy, r', a1.trans (List.suffix_cons _ _), a2, a3, a4, a5⟩
  | @wire h C w hp hw ih =>
    rw [alts_wire hwf hp hw]
    intro hb
    obtain ⟨q', iy, r', a1, a2, a3, a4, a5⟩ := ih hb
    exact ⟨q', iy, r', a1.trans (List.suffix_cons _ _), a2, a3, a4, a5⟩

theorem isUnique_eq {d : Design} (h : HRef) (hv : isValid d h = true) :
    isUnique d h =
      ((Reach.go (upSucc d) (upFuel d ((alts d h).flatMap (upSucc d))) ((alts d h).flatMap (upSucc d)) []).1.all
          (fun v => !((instPath d h).contains v)),
       (Reach.go (upSucc d) (upFuel d ((alts d h).flatMap (upSucc d))) ((alts d h).flatMap (upSucc d)) []).2) := by
  unfold isUnique alts
  rw [if_pos hv]

/-- what the upward search visits -/
theorem vis_transGen {d : Design} (hwf : WF d) (l : List Nat) (f : Nat) (v : Nat)
    (hv : v ∈ (Reach.go (upSucc d) f (l.flatMap (upSucc d)) []).1) :
    ∃ b ∈ l, Relation.TransGen (Parent d) b v := by
  obtain ⟨i0, hi0, hr⟩ := Reach.go_sound (upSucc d) f _ [] (l.flatMap (upSucc d))
    (fun y hy => ⟨y, hy, Relation.ReflTransGen.refl⟩) (by simp) v hv
  obtain ⟨b, hb, hbi⟩ := List.mem_flatMap.mp hi0
  refine ⟨b, hb, Relation.TransGen.head'_iff.mpr ⟨i0, (mem_upSucc hwf b i0).mp hbi, ?_⟩⟩
  exact rtg_mono' (fun a b' hab => (mem_upSucc hwf a b').mp hab) hr

theorem transGen_vis {d : Design} (hwf : WF d) (l : List Nat) (f : Nat)
    (hfin : (Reach.go (upSucc d) f (l.flatMap (upSucc d)) []).2 = true) {b v : Nat} (hb : b ∈ l)
    (ht : Relation.TransGen (Parent d) b v) : v ∈ (Reach.go (upSucc d) f (l.flatMap (upSucc d)) []).1 := by
  rw [Reach.reach_spec _ _ _ hfin]
  obtain ⟨i0, hbi, hr⟩ := Relation.TransGen.head'_iff.mp ht
  exact ⟨i0, List.mem_flatMap.mpr ⟨b, hb, (mem_upSucc hwf b i0).mpr hbi⟩,
    rtg_mono' (fun a b' hab => (mem_upSucc hwf a b').mpr hab) hr⟩

/-- **`is_unique`**: true exactly for a valid reference that is the only occurrence of its element. -/
theorem isUnique_iff' {d : Design} (hwf : WF d) (hs : Sorted d) (h : HRef) (hfin : (isUnique d h).2 = true) :
    (isUnique d h).1 = true ↔ ∃ e, Occ d h e ∧ ∀ h', Occ d h' e → h' = h := by
  by_cases hv : isValid d h = true
  · obtain ⟨e, ho⟩ := (isValid_iff' hwf h).mp hv
    rw [isUnique_eq h hv] at hfin ⊢
    simp only at hfin ⊢
    obtain ⟨ci, hip, hsuf⟩ := instPath_occ hwf ho
    have key : (∃ v ∈ (Reach.go (upSucc d) (upFuel d ((alts d h).flatMap (upSucc d))) ((alts d h).flatMap (upSucc d)) []).1,
        v ∈ instPath d h) ↔ ∃ b ∈ alts d h, HasOcc d b := by
      constructor
      · rintro ⟨v, hv1, hv2⟩
        obtain ⟨b, hb, ht⟩ := vis_transGen hwf _ _ v hv1
        exact ⟨b, hb, transGen_parent_hasOcc hwf ht (mem_instPath_hasOcc hip v hv2)⟩
      · rintro ⟨b, hb, pb, cb, hocb, rfl⟩
        obtain ⟨t, ht, hot, htsuf⟩ := hocb.has_top
        obtain ⟨t', ht', _, htsuf'⟩ := hip.has_top
        rw [ht] at ht'
        cases ht'
        have htin : t.id ∈ instPath d h := htsuf'.subset (List.mem_singleton.mpr rfl)
        refine ⟨t.id, ?_, htin⟩
        apply transGen_vis hwf _ _ hfin hb
        by_cases hpb : [t.id] = pb
        · exfalso
          subst hpb
          have e1 : t = cb := by
            have := Occ.unique hwf hot hocb
            injection this
          subst e1
          obtain ⟨q, iy, r, a1, a2, a3, a4, a5⟩ := alts_level hwf ho t.id hb
          obtain ⟨i', hi', hid, hr'⟩ := (mem_refsOf _ _).mp a4
          have e2 : i' = t := hwf.instRec_unique hi' hot.instRec hid
          subst e2
          obtain ⟨t2, ht2, _, hts2⟩ := a2.has_top
          rw [ht] at ht2
          have e3 : i' = t2 := Option.some.inj ht2
          subst e3
          by_cases hq : [i'.id] = q
          · subst hq
            have e4 : i' = iy := by
              have := Occ.unique hwf hot a2
              injection this
            exact a5 (by rw [e4])
          · exact absurd (desc_ref_lt hwf hs hot hr' a2 hts2 hq r a3) (Nat.lt_irrefl _)
        · exact ancestor_transGen hwf hocb cb rfl hot htsuf hpb
    constructor
    · intro hall
      refine ⟨e, ho, ?_⟩
      intro h' ho'
      by_contra hne
      obtain ⟨b, hb, hocc⟩ := (alts_iff hwf ho).mpr ⟨h', ho', hne⟩
      obtain ⟨v, hv1, hv2⟩ := key.mpr ⟨b, hb, hocc⟩
      have := List.all_eq_true.mp hall v hv1
      simp [hv2] at this
    · rintro ⟨e', ho', huniq⟩
      cases Occ.unique hwf ho ho'
      rw [List.all_eq_true]
      intro v hv1
      by_contra hc
      have hv2 : v ∈ instPath d h := by simpa using hc
      obtain ⟨b, hb, hocc⟩ := key.mp ⟨v, hv1, hv2⟩
      obtain ⟨h', ho2, hne⟩ := (alts_iff hwf ho).mp ⟨b, hb, hocc⟩
      exact hne (huniq h' ho2)
  · have hnv : ¬ ValidPath d h := fun hvp => hv ((isValid_iff' hwf h).mpr hvp)
    constructor
    · intro hu
      unfold isUnique at hu
      rw [if_neg hv] at hu
      cases hu
    · rintro ⟨e, ho, _⟩
      exact absurd ⟨e, ho⟩ hnv

end Spydr.Hier
