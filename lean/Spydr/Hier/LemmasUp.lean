/-
  Upward lemmas: reference sets and parents recomputed from the value (`refsOf`, `parentOf`,
  `upSucc`), `get_all_hrefs_of_instances` (`allHrefs`: upward bound set via LemmasReach, pruned
  downward search) = the valid instance paths ending in the given instances; lookups of the
  definition that owns an element.
-/
import Spydr.Hier.LemmasTrace

namespace Spydr.Hier

/-- `i` is an instance record of the design: the top instance or a child of some definition -/
def InstRec (d : Design) (i : Inst) : Prop :=
  d.top = some i ∨ ∃ (k : Nat) (D : Defn), d.defs[k]? = some D ∧ i ∈ D.children

/-- `y` is (the identity of) an instance of the definition that contains the instance `x` -/
def Parent (d : Design) (x y : Nat) : Prop :=
  ∃ (c : Inst) (k : Nat) (D : Defn) (i : Inst),
    d.defs[k]? = some D ∧ c ∈ D.children ∧ c.id = x ∧ InstRec d i ∧ i.id = y ∧ i.ref = some k

theorem mem_childTable {d : Design} (c : Inst) (k : Nat) :
    (c, k) ∈ d.childTable ↔ ∃ D, d.defs[k]? = some D ∧ c ∈ D.children := by
  unfold Design.childTable
  rw [List.mem_flatMap]
  constructor
  · rintro ⟨⟨D, k'⟩, hm, hc⟩
    rw [List.mem_map] at hc
    obtain ⟨c', hc', he⟩ := hc
    cases he
    exact ⟨D, List.mk_mem_zipIdx_iff_getElem?.mp hm, hc'⟩
  · rintro ⟨D, hD, hc⟩
    exact ⟨(D, k), List.mk_mem_zipIdx_iff_getElem?.mpr hD, List.mem_map.mpr ⟨c, hc, rfl⟩⟩

theorem childTable_map_fst (d : Design) : d.childTable.map (·.1) = allChildren d := by
  unfold Design.childTable allChildren
  rw [List.map_flatMap]
  simp only [List.map_map, Function.comp_def, List.map_id']
  have : ∀ (l : List Defn) (n : Nat), (l.zipIdx n).flatMap (fun Dk => Dk.1.children) = l.flatMap (·.children) := by
    intro l
    induction l with
    | nil => intro n; simp
    | cons a l ih => intro n; simp [List.zipIdx_cons, ih]
  exact this _ _

theorem WF.childTable_nodup {d : Design} (hwf : WF d) : (d.childTable.map (fun cp => cp.1.id)).Nodup := by
  have h := hwf.2.1
  rw [List.nodup_append] at h
  have : d.childTable.map (fun cp => cp.1.id) = (allChildren d).map (·.id) := by
    rw [← childTable_map_fst, List.map_map]
    rfl
  rw [this]
  exact h.2.1

theorem WF.top_not_child {d : Design} (hwf : WF d) {t c : Inst} {k : Nat} (ht : d.top = some t)
    (hc : (c, k) ∈ d.childTable) : t.id ≠ c.id := by
  have h := hwf.2.1
  rw [List.nodup_append] at h
  have h1 : t.id ∈ topIds d := by simp [topIds, ht]
  have h2 : c.id ∈ (allChildren d).map (·.id) := by
    rw [← childTable_map_fst, List.map_map]
    exact List.mem_map.mpr ⟨(c, k), hc, rfl⟩
  exact h.2.2 _ h1 _ h2

theorem WF.childTable_unique {d : Design} (hwf : WF d) {c c' : Inst} {k k' : Nat}
    (h1 : (c, k) ∈ d.childTable) (h2 : (c', k') ∈ d.childTable) (he : c.id = c'.id) : c = c' ∧ k = k' := by
  have := List.inj_on_of_nodup_map hwf.childTable_nodup h1 h2 he
  cases this
  exact ⟨rfl, rfl⟩

theorem WF.parentOf_eq {d : Design} (hwf : WF d) {c : Inst} {k : Nat} (h : (c, k) ∈ d.childTable) :
    d.parentOf c.id = some k := by
  unfold Design.parentOf
  cases hf : d.childTable.find? (fun cp => cp.1.id == c.id) with
  | none =>
    have := List.find?_eq_none.mp hf (c, k) h
    simp at this
  | some cp =>
    have h1 := List.mem_of_find?_eq_some hf
    have h2 : cp.1.id = c.id := by simpa using List.find?_some hf
    obtain ⟨_, hk⟩ := hwf.childTable_unique (c := cp.1) (k := cp.2) h1 h h2
    simp [hk]

theorem parentOf_some {d : Design} {x k : Nat} (h : d.parentOf x = some k) :
    ∃ c, (c, k) ∈ d.childTable ∧ c.id = x := by
  unfold Design.parentOf at h
  rw [Option.map_eq_some_iff] at h
  obtain ⟨cp, hf, rfl⟩ := h
  exact ⟨cp.1, List.mem_of_find?_eq_some hf, by simpa using List.find?_some hf⟩

theorem instRec_iff {d : Design} (i : Inst) : InstRec d i ↔ d.top = some i ∨ ∃ k, (i, k) ∈ d.childTable := by
  unfold InstRec
  constructor
  · rintro (h | ⟨k, D, hD, hi⟩)
    · exact Or.inl h
    · exact Or.inr ⟨k, (mem_childTable i k).mpr ⟨D, hD, hi⟩⟩
  · rintro (h | ⟨k, hk⟩)
    · exact Or.inl h
    · obtain ⟨D, hD, hi⟩ := (mem_childTable i k).mp hk
      exact Or.inr ⟨k, D, hD, hi⟩

theorem mem_refsOf {d : Design} (y k : Nat) :
    y ∈ d.refsOf k ↔ ∃ i, InstRec d i ∧ i.id = y ∧ i.ref = some k := by
  unfold Design.refsOf
  rw [List.mem_append, List.mem_map]
  constructor
  · rintro (h | ⟨cp, hm, rfl⟩)
    · split at h
      · rename_i t ht
        split at h
        · rename_i hr
          simp only [List.mem_singleton] at h
          exact ⟨t, Or.inl ht, h.symm, hr⟩
        · cases h
      · cases h
    · rw [List.mem_filter] at hm
      refine ⟨cp.1, (instRec_iff _).mpr (Or.inr ⟨cp.2, hm.1⟩), rfl, by simpa using hm.2⟩
  · rintro ⟨i, hi, rfl, hr⟩
    rcases (instRec_iff i).mp hi with ht | ⟨k', hk'⟩
    · left
      simp [ht, hr]
    · right
      exact ⟨(i, k'), List.mem_filter.mpr ⟨hk', by simp [hr]⟩, rfl⟩

theorem mem_upSucc {d : Design} (hwf : WF d) (x y : Nat) : y ∈ upSucc d x ↔ Parent d x y := by
  unfold upSucc Parent
  constructor
  · intro h
    split at h
    · rename_i k hk
      obtain ⟨c, hc, hx⟩ := parentOf_some hk
      obtain ⟨D, hD, hcD⟩ := (mem_childTable c k).mp hc
      obtain ⟨i, hi, hy, hr⟩ := (mem_refsOf y k).mp h
      exact ⟨c, k, D, i, hD, hcD, hx, hi, hy, hr⟩
    · cases h
  · rintro ⟨c, k, D, i, hD, hcD, hx, hi, hy, hr⟩
    subst hx
    rw [hwf.parentOf_eq ((mem_childTable c k).mpr ⟨D, hD, hcD⟩)]
    exact (mem_refsOf y k).mpr ⟨i, hi, hy, hr⟩

theorem Occ.instRec {d : Design} {h : HRef} {c : Inst} (ho : Occ d h (.inst c)) : InstRec d c := by
  cases ho with
  | top h1 _ _ _ => exact Or.inl h1
  | child _ _ hD hc => exact Or.inr ⟨_, _, hD, hc⟩

/-- every proper ancestor on a valid path is a transitive parent -/
theorem ancestor_transGen {d : Design} (hwf : WF d) {h : HRef} {e : Elem} (ho : Occ d h e) :
    ∀ c, e = .inst c → ∀ {q : HRef} {b : Inst}, Occ d q (.inst b) → q <:+ h → q ≠ h →
      Relation.TransGen (Parent d) c.id b.id := by
  induction ho with
  | top h1 h2 h3 h4 =>
    intro c _ q b hq hs hne
    exfalso
    rcases List.suffix_cons_iff.mp hs with h | h
    · exact hne h
    · simp at h
      exact hq.ne_nil h
  | @child p' i' c' r D hp' hr hD hc ih =>
    intro c he q b hq hs hne
    cases he
    have hpar : Parent d c'.id i'.id := ⟨c', r, D, i', hD, hc, rfl, hp'.instRec, rfl, hr⟩
    have hs' := suffix_cons_of_ne hs (Ne.symm hne)
    by_cases hqe : q = p'
    · subst hqe
      cases Occ.unique hwf hq hp'
      exact Relation.TransGen.single hpar
    · exact Relation.TransGen.head hpar (ih i' rfl hq hs' hqe)
  | port _ _ _ _ _ => intro c hc; cases hc
  | pin _ _ _ => intro c hc; cases hc
  | cable _ _ _ _ _ => intro c hc; cases hc
  | wire _ _ _ => intro c hc; cases hc

theorem searchDown_sound (d : Design) (insts bound : List Nat) : ∀ (f : Nat) (p : HRef) (i : Inst),
    Occ d p (.inst i) → ∀ h, h ∈ searchDown d insts bound f p i → ∃ c, Occ d h (.inst c) ∧ c.id ∈ insts
  | 0, _, _, _, _, hm => by simp [searchDown] at hm
  | f+1, p, i, hp, h, hm => by
    simp only [searchDown, List.mem_append] at hm
    rcases hm with hm | hm
    · split at hm
      · rename_i hin
        simp only [List.mem_singleton] at hm
        subst hm
        exact ⟨i, hp, hin⟩
      · cases hm
    · split at hm
      · rename_i D hD
        obtain ⟨r, hr, hD'⟩ := defOf_eq_some.mp hD
        rw [List.mem_flatMap] at hm
        obtain ⟨c1, hc1, hm⟩ := hm
        have ho1 : Occ d (c1.id :: p) (.inst c1) := Occ.child hp hr hD' hc1
        split at hm
        · exact searchDown_sound d insts bound f (c1.id :: p) c1 ho1 h hm
        · split at hm
          · rename_i hin
            simp only [List.mem_singleton] at hm
            subst hm
            exact ⟨c1, ho1, hin⟩
          · cases hm
      · cases hm

theorem searchDown_complete {d : Design} (hwf : WF d) (hs : Sorted d) (insts bound : List Nat)
    (hb : ∀ x ∈ insts, ∀ y, Relation.TransGen (Parent d) x y → y ∈ bound) :
    ∀ (f : Nat) (p : HRef) (i : Inst), Occ d p (.inst i) →
      1 ≤ f → (∀ r D, i.ref = some r → d.defs[r]? = some D → r + 1 < f) →
      ∀ h c, Occ d h (.inst c) → c.id ∈ insts → p <:+ h → h ∈ searchDown d insts bound f p i
  | 0, _, _, _, h1, _, _, _, _, _, _ => absurd h1 (by omega)
  | f+1, p, i, hp, _, hf, h, c, ho, hin, hsuf => by
    simp only [searchDown, List.mem_append]
    by_cases he : h = p
    · subst he
      cases Occ.unique hwf hp ho
      left
      simp [hin]
    · right
      obtain ⟨r, D, c1, a1, a2, a3, a4⟩ := exists_first_child hwf hp ho c rfl hsuf he
      have hfr := hf r D a1 a2
      simp only [defOf_eq_some.mpr ⟨r, a1, a2⟩]
      rw [List.mem_flatMap]
      refine ⟨c1, a3, ?_⟩
      have ho1 : Occ d (c1.id :: p) (.inst c1) := Occ.child hp a1 a2 a3
      by_cases hbd : c1.id ∈ bound
      · rw [if_pos hbd]
        apply searchDown_complete hwf hs insts bound hb f (c1.id :: p) c1 ho1 (by omega) _ h c ho hin a4
        intro r' D' hr' _
        have := hs.lt a2 a3 hr'
        omega
      · rw [if_neg hbd]
        by_cases he2 : h = c1.id :: p
        · subst he2
          cases Occ.unique hwf ho ho1
          simp [hin]
        · exfalso
          exact hbd (hb c.id hin c1.id (ancestor_transGen hwf ho c rfl ho1 a4 (Ne.symm he2)))

theorem instById_of_top {d : Design} {t : Inst} (h1 : d.top = some t) : d.instById t.id = some t := by
  simp [Design.instById, h1]

theorem rtg_mono' {α : Type} {R S : α → α → Prop} (hm : ∀ a b, R a b → S a b) {a b : α}
    (h : Relation.ReflTransGen R a b) : Relation.ReflTransGen S a b := by
  induction h with
  | refl => exact Relation.ReflTransGen.refl
  | tail _ hl ih => exact ih.tail (hm _ _ hl)

/-- **`get_all_hrefs_of_instances`** = exactly the valid instance paths ending in a member of `insts`
    (upward bound set, then pruned downward search from the top).  No hypothesis on where the netlist
    is found: whenever an occurrence exists, the top instance is among the instances and their
    ancestors, and it leads to the netlist. -/
theorem mem_allHrefs {d : Design} (hwf : WF d) (hs : Sorted d) (insts : List Nat)
    {t : Inst} (ht : d.topInst = some t)
    (hfin : (allHrefs d insts).2 = true) (h : HRef) :
    h ∈ (allHrefs d insts).1 ↔ ∃ c, Occ d h (.inst c) ∧ c.id ∈ insts := by
  obtain ⟨h1, r, D, h2, h3, h4⟩ := topInst_eq_some.mp ht
  have hot : Occ d [t.id] (.inst t) := Occ.top h1 h2 h3 h4
  unfold allHrefs at hfin ⊢
  simp only [h1] at hfin ⊢
  have hfin' : (Reach.go (upSucc d) (upFuel d (insts.flatMap (upSucc d))) (insts.flatMap (upSucc d)) []).2 = true := by
    split at hfin <;> exact hfin
  have hbound : ∀ x ∈ insts, ∀ y, Relation.TransGen (Parent d) x y →
      y ∈ (Reach.go (upSucc d) (upFuel d (insts.flatMap (upSucc d))) (insts.flatMap (upSucc d)) []).1 := by
    intro x hx y hxy
    rw [Reach.reach_spec _ _ _ hfin']
    obtain ⟨b, hxb, hby⟩ := Relation.TransGen.head'_iff.mp hxy
    refine ⟨b, List.mem_flatMap.mpr ⟨x, hx, (mem_upSucc hwf x b).mpr hxb⟩, ?_⟩
    exact rtg_mono' (fun a b' hab => (mem_upSucc hwf a b').mpr hab) hby
  constructor
  · intro hm
    split at hm
    · exact searchDown_sound d insts _ _ [t.id] t hot h hm
    · cases hm
  · rintro ⟨c, ho, hin⟩
    obtain ⟨t', e1, _, e3⟩ := ho.has_top
    rw [ht] at e1
    cases e1
    have hlead : leadsToNetlist d t.id = true := by
      have hrec : InstRec d t := Or.inl h1
      simp [leadsToNetlist, instById_of_top h1, h2, h3, h4]
    have hok : netlistOk d insts (Reach.go (upSucc d) (upFuel d (insts.flatMap (upSucc d))) (insts.flatMap (upSucc d)) []).1 = true := by
      unfold netlistOk
      rw [List.any_eq_true]
      refine ⟨t.id, ?_, hlead⟩
      rw [List.mem_append]
      by_cases hpb : [t.id] = h
      · subst hpb
        have : t = c := by
          have := Occ.unique hwf hot ho
          injection this
        subst this
        exact Or.inl hin
      · exact Or.inr (hbound c.id hin t.id (ancestor_transGen hwf ho c rfl hot e3 hpb))
    rw [if_pos hok]
    apply searchDown_complete hwf hs insts _ hbound _ [t.id] t hot (by omega) _ h c ho hin e3
    intro r' D' hr' hD'
    have := (List.getElem?_eq_some_iff.mp hD').1
    omega

theorem allHrefs_sound {d : Design} (insts : List Nat) {t : Inst} (ht : d.topInst = some t) (h : HRef)
    (hm : h ∈ (allHrefs d insts).1) : ∃ c, Occ d h (.inst c) ∧ c.id ∈ insts := by
  obtain ⟨h1, r, D, h2, h3, h4⟩ := topInst_eq_some.mp ht
  have hot : Occ d [t.id] (.inst t) := Occ.top h1 h2 h3 h4
  unfold allHrefs at hm
  simp only [h1] at hm
  split at hm
  · exact searchDown_sound d insts _ _ [t.id] t hot h hm
  · cases hm

/-! ## occurrences of an element -/

theorem WF.instRec_unique {d : Design} (hwf : WF d) {i i' : Inst} (h1 : InstRec d i) (h2 : InstRec d i')
    (he : i.id = i'.id) : i = i' := by
  rcases (instRec_iff i).mp h1 with a | ⟨k, a⟩ <;> rcases (instRec_iff i').mp h2 with b | ⟨k', b⟩
  · rw [a] at b; cases b; rfl
  · exact absurd he (hwf.top_not_child a b)
  · exact absurd he.symm (hwf.top_not_child b a)
  · exact (hwf.childTable_unique a b he).1

theorem WF.mem_refsOf_occ {d : Design} (hwf : WF d) {p : HRef} {c : Inst} (ho : Occ d p (.inst c)) (k : Nat) :
    c.id ∈ d.refsOf k ↔ c.ref = some k := by
  rw [mem_refsOf]
  constructor
  · rintro ⟨i, hi, he, hr⟩
    cases hwf.instRec_unique hi ho.instRec he
    exact hr
  · intro hr
    exact ⟨c, ho.instRec, rfl, hr⟩

theorem WF.instById_eq {d : Design} (hwf : WF d) {i : Inst} (hi : InstRec d i) : d.instById i.id = some i := by
  unfold Design.instById
  rcases (instRec_iff i).mp hi with a | ⟨k, a⟩
  · simp [a]
  · have hfind : (d.childTable.find? (fun cp => cp.1.id == i.id)).map (·.1) = some i := by
      cases hf : d.childTable.find? (fun cp => cp.1.id == i.id) with
      | none =>
        have := List.find?_eq_none.mp hf (i, k) a
        simp at this
      | some cp =>
        have h1 := List.mem_of_find?_eq_some hf
        have h2 : cp.1.id = i.id := by simpa using List.find?_some hf
        obtain ⟨hc, _⟩ := hwf.childTable_unique (c := cp.1) (k := cp.2) h1 a h2
        simp [hc]
    split
    · rename_i t ht
      split
      · rename_i hti
        exact absurd hti (hwf.top_not_child ht a)
      · exact hfind
    · exact hfind

theorem mem_allHrefs_refsOf {d : Design} (hwf : WF d) (hs : Sorted d) (k : Nat) {t : Inst} (ht : d.topInst = some t)
    (hfin : (allHrefs d (d.refsOf k)).2 = true) (p : HRef) :
    p ∈ (allHrefs d (d.refsOf k)).1 ↔ ∃ c, Occ d p (.inst c) ∧ c.ref = some k := by
  rw [mem_allHrefs hwf hs _ ht hfin]
  constructor
  · rintro ⟨c, ho, hm⟩
    exact ⟨c, ho, (hwf.mem_refsOf_occ ho k).mp hm⟩
  · rintro ⟨c, ho, hr⟩
    exact ⟨c, ho, (hwf.mem_refsOf_occ ho k).mpr hr⟩

theorem flatMap_index_unique {α β : Type} {f : α → List β} : ∀ {l : List α}, (l.flatMap f).Nodup →
    ∀ {k k' : Nat} {a a' : α}, l[k]? = some a → l[k']? = some a' → ∀ {x : β}, x ∈ f a → x ∈ f a' → k = k'
  | [], _, k, _, _, _, hk, _, _, _, _ => by simp at hk
  | c :: l, hnd, k, k', a, a', hk, hk', x, hx, hx' => by
    rw [List.flatMap_cons, List.nodup_append] at hnd
    obtain ⟨_, h2, h3⟩ := hnd
    cases k with
    | zero =>
      cases k' with
      | zero => rfl
      | succ n' =>
        simp only [List.getElem?_cons_zero, Option.some.injEq] at hk
        simp only [List.getElem?_cons_succ] at hk'
        subst hk
        exact absurd rfl (h3 x hx x (List.mem_flatMap.mpr ⟨a', List.mem_of_getElem? hk', hx'⟩))
    | succ n =>
      cases k' with
      | zero =>
        simp only [List.getElem?_cons_zero, Option.some.injEq] at hk'
        simp only [List.getElem?_cons_succ] at hk
        subst hk'
        exact absurd rfl (h3 x hx' x (List.mem_flatMap.mpr ⟨a, List.mem_of_getElem? hk, hx⟩))
      | succ n' =>
        simp only [List.getElem?_cons_succ] at hk hk'
        rw [flatMap_index_unique h2 hk hk' hx hx']

theorem defWith_some {d : Design} {f : Defn → Bool} {k : Nat} (h : d.defWith f = some k) :
    ∃ D, d.defs[k]? = some D ∧ f D = true := by
  unfold Design.defWith at h
  rw [Option.map_eq_some_iff] at h
  obtain ⟨Dk, hf, rfl⟩ := h
  have h2 := List.find?_some hf
  exact ⟨Dk.1, List.mem_zipIdx_iff_getElem?.mp (List.mem_of_find?_eq_some hf), h2⟩

theorem defWith_exists {d : Design} {f : Defn → Bool} {k : Nat} {D : Defn} (hD : d.defs[k]? = some D)
    (hf : f D = true) : ∃ k', d.defWith f = some k' := by
  unfold Design.defWith
  cases h : d.defs.zipIdx.find? (fun Dk => f Dk.1) with
  | none =>
    have := List.find?_eq_none.mp h (D, k) (List.mk_mem_zipIdx_iff_getElem?.mpr hD)
    simp [hf] at this
  | some Dk => exact ⟨Dk.2, rfl⟩

/-! ## occurrences of a given element (`get_all_hrefs_of_item`) -/

/-- every definition of the dump belongs to the netlist (no definition was removed from its library) -/
def AllInNl (d : Design) : Prop := ∀ D ∈ d.defs, D.inNl = true

instance (d : Design) : Decidable (AllInNl d) := by unfold AllInNl; infer_instance

theorem hrefs_of_instance_spec {d : Design} (hwf : WF d) (hs : Sorted d) (x : Nat)
    {t : Inst} (ht : d.topInst = some t)
    (hfin : (hrefsOfItem d (.instance x)).2 = true) (h : HRef) :
    h ∈ (hrefsOfItem d (.instance x)).1 ↔ ∃ c, Occ d h (.inst c) ∧ c.id = x := by
  simp only [hrefsOfItem] at hfin ⊢
  rw [mem_allHrefs hwf hs [x] ht hfin]
  simp

theorem hrefs_of_definition_spec {d : Design} (hwf : WF d) (hs : Sorted d) (k : Nat)
    {t : Inst} (ht : d.topInst = some t)
    (hfin : (hrefsOfItem d (.definition k)).2 = true) (h : HRef) :
    h ∈ (hrefsOfItem d (.definition k)).1 ↔ ∃ c, Occ d h (.inst c) ∧ c.ref = some k := by
  simp only [hrefsOfItem] at hfin ⊢
  exact mem_allHrefs_refsOf hwf hs k ht hfin h

theorem hrefs_of_port_spec {d : Design} (hwf : WF d) (hs : Sorted d) (x : Nat)
    {t : Inst} (ht : d.topInst = some t) (hfin : (hrefsOfItem d (.port x)).2 = true) (h : HRef) :
    h ∈ (hrefsOfItem d (.port x)).1 ↔ ∃ P, Occ d h (.port P) ∧ P.id = x := by
  simp only [hrefsOfItem] at hfin ⊢
  cases hdw : d.defWith (fun D => (D.port? x).isSome) with
  | none =>
    simp only [List.not_mem_nil, false_iff]
    rintro ⟨P, ho, rfl⟩
    obtain ⟨p, i, r, D, _, _, _, hD, hP⟩ := ho.port_inv
    have hl : D.LocalWF := hwf.localWF (mem_defs_of_get hD)
    obtain ⟨k', hk'⟩ := defWith_exists (f := fun D => (D.port? P.id).isSome) hD (by simp [hl.port_lookup hP])
    rw [hk'] at hdw
    cases hdw
  | some k =>
    simp only [hdw] at hfin ⊢
    obtain ⟨Dk, hDk, hf⟩ := defWith_some hdw
    obtain ⟨P0, hP0⟩ := Option.isSome_iff_exists.mp hf
    obtain ⟨hP0m, hP0id⟩ := Defn.port?_some hP0
    rw [List.mem_map]
    constructor
    · rintro ⟨p, hp, rfl⟩
      obtain ⟨c, hc, hr⟩ := (mem_allHrefs_refsOf hwf hs _ ht hfin p).mp hp
      exact ⟨P0, hP0id ▸ Occ.port hc hr hDk hP0m, hP0id⟩
    · rintro ⟨P, ho, rfl⟩
      obtain ⟨p, i, r, D, rfl, hp, hr, hD, hP⟩ := ho.port_inv
      have hrk : r = k := flatMap_index_unique hwf.2.2.1 hD hDk
        (List.mem_map_of_mem hP) (hP0id ▸ List.mem_map_of_mem (f := fun (P : Port) => P.id) hP0m)
      subst hrk
      exact ⟨p, (mem_allHrefs_refsOf hwf hs _ ht hfin p).mpr ⟨i, hp, hr⟩, rfl⟩

theorem hrefs_of_cable_spec {d : Design} (hwf : WF d) (hs : Sorted d) (x : Nat)
    {t : Inst} (ht : d.topInst = some t) (hfin : (hrefsOfItem d (.cable x)).2 = true) (h : HRef) :
    h ∈ (hrefsOfItem d (.cable x)).1 ↔ ∃ C, Occ d h (.cable C) ∧ C.id = x := by
  simp only [hrefsOfItem] at hfin ⊢
  cases hdw : d.defWith (fun D => (D.cable? x).isSome) with
  | none =>
    simp only [List.not_mem_nil, false_iff]
    rintro ⟨P, ho, rfl⟩
    obtain ⟨p, i, r, D, _, _, _, hD, hP⟩ := ho.cable_inv
    have hl : D.LocalWF := hwf.localWF (mem_defs_of_get hD)
    obtain ⟨k', hk'⟩ := defWith_exists (f := fun D => (D.cable? P.id).isSome) hD (by simp [hl.cable_lookup hP])
    rw [hk'] at hdw
    cases hdw
  | some k =>
    simp only [hdw] at hfin ⊢
    obtain ⟨Dk, hDk, hf⟩ := defWith_some hdw
    obtain ⟨P0, hP0⟩ := Option.isSome_iff_exists.mp hf
    obtain ⟨hP0m, hP0id⟩ := Defn.cable?_some hP0
    rw [List.mem_map]
    constructor
    · rintro ⟨p, hp, rfl⟩
      obtain ⟨c, hc, hr⟩ := (mem_allHrefs_refsOf hwf hs _ ht hfin p).mp hp
      exact ⟨P0, hP0id ▸ Occ.cable hc hr hDk hP0m, hP0id⟩
    · rintro ⟨P, ho, rfl⟩
      obtain ⟨p, i, r, D, rfl, hp, hr, hD, hP⟩ := ho.cable_inv
      have hrk : r = k := flatMap_index_unique hwf.2.2.2.2.1 hD hDk
        (List.mem_map_of_mem hP) (hP0id ▸ List.mem_map_of_mem (f := fun (P : Cable) => P.id) hP0m)
      subst hrk
      exact ⟨p, (mem_allHrefs_refsOf hwf hs _ ht hfin p).mpr ⟨i, hp, hr⟩, rfl⟩

theorem hrefs_of_pin_spec {d : Design} (hwf : WF d) (hs : Sorted d) (q : Nat)
    {t : Inst} (ht : d.topInst = some t) (hfin : (hrefsOfItem d (.innerPin q)).2 = true) (h : HRef) :
    h ∈ (hrefsOfItem d (.innerPin q)).1 ↔ ∃ P, Occ d h (.pin P q) := by
  simp only [hrefsOfItem] at hfin ⊢
  cases hdw : d.defWith (fun D => (D.portOfPin q).isSome) with
  | none =>
    simp only [List.not_mem_nil, false_iff]
    rintro ⟨P, ho⟩
    obtain ⟨y, _, hy, hq⟩ := ho.pin_inv
    obtain ⟨p, i, r, D, _, _, _, hD, hP⟩ := hy.port_inv
    have hl : D.LocalWF := hwf.localWF (mem_defs_of_get hD)
    obtain ⟨k', hk'⟩ := defWith_exists (f := fun D => (D.portOfPin q).isSome) hD (by simp [hl.portOfPin_eq hP hq])
    rw [hk'] at hdw
    cases hdw
  | some k =>
    simp only [hdw] at hfin ⊢
    obtain ⟨Dk, hDk, hf⟩ := defWith_some hdw
    obtain ⟨P0, hP0⟩ := Option.isSome_iff_exists.mp hf
    obtain ⟨hP0m, hP0q⟩ := Defn.portOfPin_some hP0
    simp only [hDk, Option.bind_some, hP0] at hfin ⊢
    rw [List.mem_map]
    constructor
    · rintro ⟨p, hp, rfl⟩
      obtain ⟨c, hc, hr⟩ := (mem_allHrefs_refsOf hwf hs _ ht hfin p).mp hp
      exact ⟨P0, Occ.pin (Occ.port hc hr hDk hP0m) hP0q⟩
    · rintro ⟨P, ho⟩
      obtain ⟨y, rfl, hy, hq⟩ := ho.pin_inv
      obtain ⟨p, i, r, D, rfl, hp, hr, hD, hP⟩ := hy.port_inv
      have hrk : r = k := flatMap_index_unique hwf.2.2.2.1 hD hDk
        (List.mem_flatMap.mpr ⟨P, hP, hq⟩) (List.mem_flatMap.mpr ⟨P0, hP0m, hP0q⟩)
      subst hrk
      obtain rfl : Dk = D := Option.some.inj (hDk.symm.trans hD)
      have hl : Dk.LocalWF := hwf.localWF (mem_defs_of_get hD)
      have : P0 = P := by
        have := hl.portOfPin_eq hP hq
        rw [hP0] at this
        exact Option.some.inj this
      subst this
      exact ⟨p, (mem_allHrefs_refsOf hwf hs _ ht hfin p).mpr ⟨i, hp, hr⟩, rfl⟩

theorem Defn.cableOfWire_some {D : Defn} {x : Nat} {C : Cable} (h : D.cableOfWire x = some C) :
    C ∈ D.cables ∧ ∃ w ∈ C.wires, w.id = x := by
  unfold Defn.cableOfWire at h
  have h2 := List.find?_some h
  obtain ⟨w, hw⟩ := Option.isSome_iff_exists.mp h2
  obtain ⟨a, b⟩ := Cable.wire?_some hw
  exact ⟨List.mem_of_find?_eq_some h, w, a, b⟩

theorem Defn.LocalWF.cableOfWire_eq {D : Defn} (hl : D.LocalWF) {C : Cable} {w : Wire} (hC : C ∈ D.cables)
    (hw : w ∈ C.wires) : D.cableOfWire w.id = some C := by
  cases h : D.cableOfWire w.id with
  | none =>
    unfold Defn.cableOfWire at h
    have := List.find?_eq_none.mp h C hC
    simp [hl.wire_lookup hC hw] at this
  | some C' =>
    obtain ⟨h1, w', h2, h3⟩ := Defn.cableOfWire_some h
    have : C' = C := flatMap_owner_unique hl.2.2 h1 hC (List.mem_map.mpr ⟨w', h2, h3⟩) (List.mem_map_of_mem hw)
    rw [this]

theorem hrefs_of_wire_spec {d : Design} (hwf : WF d) (hs : Sorted d) (x : Nat)
    {t : Inst} (ht : d.topInst = some t) (hfin : (hrefsOfItem d (.wire x)).2 = true) (h : HRef) :
    h ∈ (hrefsOfItem d (.wire x)).1 ↔ ∃ C w, Occ d h (.wire C w) ∧ w.id = x := by
  simp only [hrefsOfItem] at hfin ⊢
  cases hdw : d.defWith (fun D => (D.cableOfWire x).isSome) with
  | none =>
    simp only [List.not_mem_nil, false_iff]
    rintro ⟨C, w, ho, rfl⟩
    obtain ⟨y, _, hy, hw⟩ := ho.wire_inv
    obtain ⟨p, i, r, D, _, _, _, hD, hC⟩ := hy.cable_inv
    have hl : D.LocalWF := hwf.localWF (mem_defs_of_get hD)
    obtain ⟨k', hk'⟩ := defWith_exists (f := fun D => (D.cableOfWire w.id).isSome) hD (by simp [hl.cableOfWire_eq hC hw])
    rw [hk'] at hdw
    cases hdw
  | some k =>
    simp only [hdw] at hfin ⊢
    obtain ⟨Dk, hDk, hf⟩ := defWith_some hdw
    obtain ⟨C0, hC0⟩ := Option.isSome_iff_exists.mp hf
    obtain ⟨hC0m, w0, hw0, hw0id⟩ := Defn.cableOfWire_some hC0
    simp only [hDk, Option.bind_some, hC0] at hfin ⊢
    rw [List.mem_map]
    constructor
    · rintro ⟨p, hp, rfl⟩
      obtain ⟨c, hc, hr⟩ := (mem_allHrefs_refsOf hwf hs _ ht hfin p).mp hp
      exact ⟨C0, w0, hw0id ▸ Occ.wire (Occ.cable hc hr hDk hC0m) hw0, hw0id⟩
    · rintro ⟨C, w, ho, rfl⟩
      obtain ⟨y, rfl, hy, hw⟩ := ho.wire_inv
      obtain ⟨p, i, r, D, rfl, hp, hr, hD, hC⟩ := hy.cable_inv
      have hrk : r = k := flatMap_index_unique hwf.2.2.2.2.2 hD hDk
        (List.mem_flatMap.mpr ⟨C, hC, List.mem_map_of_mem hw⟩)
        (List.mem_flatMap.mpr ⟨C0, hC0m, hw0id ▸ List.mem_map_of_mem (f := fun (w : Wire) => w.id) hw0⟩)
      subst hrk
      obtain rfl : Dk = D := Option.some.inj (hDk.symm.trans hD)
      have hl : Dk.LocalWF := hwf.localWF (mem_defs_of_get hD)
      have : C0 = C := by
        have := hl.cableOfWire_eq hC hw
        rw [hC0] at this
        exact Option.some.inj this
      subst this
      exact ⟨p, (mem_allHrefs_refsOf hwf hs _ ht hfin p).mpr ⟨i, hp, hr⟩, rfl⟩


end Spydr.Hier
