/-
  Engine `hier` — executable model of spydrnet's hierarchical references (C11) and
  cross-hierarchy tracing (C12).  No Mathlib (linked into drv_hier).

  The netlist is a self-contained value (`Design`) that the harness extracts from the live
  Python netlist: a list of definitions (ports / cables+wires / children), plus the top instance.
  Every element carries a natural-number identity handed out by the harness (one per Python
  object, stable across edits), so that a hierarchical reference is the list of the identities
  of its items, **leaf first** (`item :: parent path`, exactly the linked list `HRef.item`,
  `HRef.parent` of hierarchical_reference.py).
-/
import Spydr.Hier.ModelReach

namespace Spydr.Hier

/-- A hierarchical reference: identities of the items, leaf first (root = top instance last). -/
abbrev HRef := List Nat

inductive PinRef where
  | inner (pin : Nat)                 -- an InnerPin of a port of the same definition
  | outer (inst : Nat) (pin : Nat)    -- the OuterPin (instance, inner pin) of a child
  deriving DecidableEq, Repr, Inhabited

structure Port where
  id : Nat
  name : String
  isArray : Bool
  lower : Int
  pins : List Nat
  deriving DecidableEq, Repr, Inhabited

structure Wire where
  id : Nat
  pins : List PinRef
  deriving DecidableEq, Repr, Inhabited

structure Cable where
  id : Nat
  name : String
  isArray : Bool
  lower : Int
  wires : List Wire
  deriving DecidableEq, Repr, Inhabited

structure Inst where
  id : Nat
  name : String
  ref : Option Nat          -- index of the referenced definition in `Design.defs`
  deriving DecidableEq, Repr, Inhabited

structure Defn where
  ports : List Port
  cables : List Cable
  children : List Inst
  inNl : Bool               -- definition.library.netlist is the netlist
  deriving DecidableEq, Repr, Inhabited

structure Design where
  defs : List Defn
  top : Option Inst         -- netlist.top_instance
  deriving DecidableEq, Repr, Inhabited

/-- The netlist element an href resolves to. -/
inductive Elem where
  | inst (i : Inst)
  | port (P : Port)
  | pin (P : Port) (q : Nat)
  | cable (C : Cable)
  | wire (C : Cable) (w : Wire)
  deriving DecidableEq, Repr, Inhabited

inductive Sel where
  | inside | outside | both | all
  deriving DecidableEq, Repr, Inhabited

/-- Query roots (`obj` argument of the get_h* functions). -/
inductive Root where
  | netlist
  | library (defs : List Nat)
  | definition (D : Nat)
  | instance (id : Nat)
  | port (id : Nat)
  | cable (id : Nat)
  | innerPin (id : Nat)
  | outerPin (inst : Nat) (pin : Nat)
  | wire (id : Nat)
  | href (h : HRef)
  deriving DecidableEq, Repr, Inhabited

/-! ## Lookups -/

def Design.defOf (d : Design) (i : Inst) : Option Defn :=
  match i.ref with
  | some r => d.defs[r]?
  | none => none

/-- `netlist.top_instance` when `top.reference.library.netlist.top_instance == top` holds
    (the root test of `HRef.is_valid`). -/
def Design.topInst (d : Design) : Option Inst :=
  match d.top with
  | some t =>
    match d.defOf t with
    | some D => if D.inNl then some t else none
    | none => none
  | none => none

def Defn.child? (D : Defn) (x : Nat) : Option Inst := D.children.find? (fun c => c.id == x)
def Defn.port? (D : Defn) (x : Nat) : Option Port := D.ports.find? (fun P => P.id == x)
def Defn.cable? (D : Defn) (x : Nat) : Option Cable := D.cables.find? (fun C => C.id == x)
def Cable.wire? (C : Cable) (x : Nat) : Option Wire := C.wires.find? (fun w => w.id == x)
/-- `pin.port` for an inner pin of this definition. -/
def Defn.portOfPin (D : Defn) (q : Nat) : Option Port := D.ports.find? (fun P => decide (q ∈ P.pins))
/-- `pin.wire` (with its cable) for a pin reference inside this definition. -/
def Defn.wireOf (D : Defn) (r : PinRef) : Option (Cable × Wire) :=
  D.cables.findSome? (fun C => (C.wires.find? (fun w => decide (r ∈ w.pins))).map (fun w => (C, w)))

/-- What an href resolves to in the current design; `none` = not an occurrence.
    (`HRef.is_valid` walks the same chain upward through the back-pointers.) -/
def resolve (d : Design) : HRef → Option Elem
  | [] => none
  | [x] =>
    match d.topInst with
    | some t => if t.id = x then some (.inst t) else none
    | none => none
  | x :: y :: p =>
    match resolve d (y :: p) with
    | some (.inst i) =>
      match d.defOf i with
      | some D =>
        match D.child? x with
        | some c => some (.inst c)
        | none =>
          match D.port? x with
          | some P => some (.port P)
          | none =>
            match D.cable? x with
            | some C => some (.cable C)
            | none => none
      | none => none
    | some (.port P) => if x ∈ P.pins then some (.pin P x) else none
    | some (.cable C) =>
      match C.wire? x with
      | some w => some (.wire C w)
      | none => none
    | _ => none

/-- `HRef.is_valid`. -/
def isValid (d : Design) (h : HRef) : Bool := (resolve d h).isSome

/-! ## Names (`HRef.name`) -/

def Elem.name : Elem → String
  | .inst i => i.name
  | .port P => P.name
  | .cable C => C.name
  | .pin _ _ => ""
  | .wire _ _ => ""

/-- names of the items along the parent chain, leaf first -/
def pathNames (d : Design) : HRef → List String
  | [] => []
  | x :: p => (match resolve d (x :: p) with | some e => e.name | none => "") :: pathNames d p

def slashJoin (l : List String) : String := "/".intercalate l

def busIndex (isArray : Bool) (lower : Int) (pos : Nat) : String :=
  if isArray then "[" ++ toString (lower + (pos : Int)) ++ "]" else ""

/-- `HRef.name`: slash-joined names below the top, plus `[lower+index]` for members of array
    bundles. -/
def hrefName (d : Design) (h : HRef) : String :=
  match resolve d h with
  | some (.wire C w) =>
      slashJoin ((pathNames d h.tail).dropLast.reverse) ++ busIndex C.isArray C.lower (C.wires.idxOf w)
  | some (.pin P q) =>
      slashJoin ((pathNames d h.tail).dropLast.reverse) ++ busIndex P.isArray P.lower (P.pins.idxOf q)
  | _ => slashJoin ((pathNames d h).dropLast.reverse)

/-! ## Reference sets and parents (the back-pointers, recomputed from the value) -/

/-- every instance of the design with the index of the definition that contains it -/
def Design.childTable (d : Design) : List (Inst × Nat) :=
  d.defs.zipIdx.flatMap (fun Dk => Dk.1.children.map (fun c => (c, Dk.2)))

/-- `definition.references` (identities), including the top instance -/
def Design.refsOf (d : Design) (D : Nat) : List Nat :=
  (match d.top with
   | some t => if t.ref = some D then [t.id] else []
   | none => []) ++
  (d.childTable.filter (fun cp => cp.1.ref == some D)).map (fun cp => cp.1.id)

/-- `instance.parent` as a definition index -/
def Design.parentOf (d : Design) (x : Nat) : Option Nat :=
  (d.childTable.find? (fun cp => cp.1.id == x)).map (fun cp => cp.2)

/-- the instance record with identity `x` (top or child) -/
def Design.instById (d : Design) (x : Nat) : Option Inst :=
  match d.top with
  | some t => if t.id = x then some t else (d.childTable.find? (fun cp => cp.1.id == x)).map (·.1)
  | none => (d.childTable.find? (fun cp => cp.1.id == x)).map (·.1)

/-- one step up: the instances of the definition that contains `x` -/
def upSucc (d : Design) (x : Nat) : List Nat :=
  match d.parentOf x with
  | some D => d.refsOf D
  | none => []

def upFuel (d : Design) (init : List Nat) : Nat :=
  init.length + (d.childTable.length + 2) * (d.childTable.length + 2)

/-- the instance part of a valid href (strip port/pin, cable/wire) -/
def instPath (d : Design) (h : HRef) : HRef :=
  match resolve d h with
  | some (.inst _) => h
  | some (.port _) => h.tail
  | some (.cable _) => h.tail
  | some (.pin _ _) => h.tail.tail
  | some (.wire _ _) => h.tail.tail
  | none => []

/-- for every non-root instance on the path: the *other* instances of the definition containing it -/
def otherRefs (d : Design) : HRef → List Nat
  | [] => []
  | [_] => []
  | x :: y :: p =>
    (match d.parentOf x with
     | some D => (d.refsOf D).filter (fun b => b != y)
     | none => []) ++ otherRefs d (y :: p)

/-- for a reference to a port / cable (or a pin / wire of one): the *other* instances of the
    definition that owns the bundle (repaired code; the pinned commit looks at instances only) -/
def ownerOthers (d : Design) (h : HRef) : List Nat :=
  match resolve d h with
  | some (.inst _) => []
  | none => []
  | some _ =>
    match resolve d (instPath d h) with
    | some (.inst i) =>
      match i.ref with
      | some r => (d.refsOf r).filter (fun b => b != i.id)
      | none => []
    | _ => []

/-- `HRef.is_unique` (second component: the upward search finished within its fuel). -/
def isUnique (d : Design) (h : HRef) : Bool × Bool :=
  if isValid d h then
    let ip := instPath d h
    let init := (ownerOthers d h ++ otherRefs d ip).flatMap (upSucc d)
    let r := Reach.go (upSucc d) (upFuel d init) init []
    (r.1.all (fun v => !(ip.contains v)), r.2)
  else (false, true)

/-! ## `HRef.get_all_hrefs_of_instances`: upward bound set, downward search from the top -/

/-- downward search: paths from `(p, i)` to members of `insts`, pruned by `bound` -/
def searchDown (d : Design) (insts bound : List Nat) : Nat → HRef → Inst → List HRef
  | 0, _, _ => []
  | f+1, p, i =>
    (if i.id ∈ insts then [p] else []) ++
    (match d.defOf i with
     | some D =>
       D.children.flatMap (fun c =>
         if c.id ∈ bound then searchDown d insts bound f (c.id :: p) c
         else if c.id ∈ insts then [c.id :: p] else [])
     | none => [])

/-- an instance leads to the netlist when its reference, or else the definition that contains it, sits
    in a library of the netlist (`definition.library.netlist`) -/
def leadsToNetlist (d : Design) (x : Nat) : Bool :=
  match d.instById x with
  | some i =>
    (match i.ref with
     | some r =>
       (match d.defs[r]? with
        | some D => D.inNl
        | none => false)
     | none => false) ||
    (match d.parentOf x with
     | some k =>
       (match d.defs[k]? with
        | some D => D.inNl
        | none => false)
     | none => false)
  | none => false

/-- repaired code: the netlist is looked for through the given instances *and their ancestors* (the
    bound set), so an element with a valid occurrence always finds it (the top instance is among them) -/
def netlistOk (d : Design) (insts bound : List Nat) : Bool := (insts ++ bound).any (leadsToNetlist d)

def allHrefs (d : Design) (insts : List Nat) : List HRef × Bool :=
  match d.top with
  | some t =>
    let init := insts.flatMap (upSucc d)
    let b := Reach.go (upSucc d) (upFuel d init) init []
    if netlistOk d insts b.1 then (searchDown d insts b.1 (d.defs.length + 1) [t.id] t, b.2) else ([], b.2)
  | none => ([], true)

/-! ## Depth-first enumeration below a hierarchical instance -/

/-- all proper descendants of the hierarchical instance `(p, i)` -/
def descs (d : Design) : Nat → HRef → Inst → List (HRef × Inst)
  | 0, _, _ => []
  | f+1, p, i =>
    match d.defOf i with
    | some D => D.children.flatMap (fun c => (c.id :: p, c) :: descs d f (c.id :: p) c)
    | none => []

def kids (d : Design) (p : HRef) (i : Inst) : List (HRef × Inst) :=
  match d.defOf i with
  | some D => D.children.map (fun c => (c.id :: p, c))
  | none => []

/-- the hierarchical instance itself and, when `rec`, everything below it -/
def under (d : Design) (rec : Bool) (p : HRef) (i : Inst) : List (HRef × Inst) :=
  (p, i) :: (if rec then descs d d.defs.length p i else [])

def portsAt (d : Design) (pi : HRef × Inst) : List HRef :=
  match d.defOf pi.2 with
  | some D => D.ports.map (fun P => P.id :: pi.1)
  | none => []

def pinsAt (d : Design) (pi : HRef × Inst) : List HRef :=
  match d.defOf pi.2 with
  | some D => D.ports.flatMap (fun P => P.pins.map (fun q => q :: P.id :: pi.1))
  | none => []

def cablesAt (d : Design) (pi : HRef × Inst) : List HRef :=
  match d.defOf pi.2 with
  | some D => D.cables.map (fun C => C.id :: pi.1)
  | none => []

def wiresAt (d : Design) (pi : HRef × Inst) : List HRef :=
  match d.defOf pi.2 with
  | some D => D.cables.flatMap (fun C => C.wires.map (fun w => w.id :: C.id :: pi.1))
  | none => []

/-! ## Crossing one boundary: wires of a pin, pins of a wire -/

/-- `_get_inner_hwire_from_hpin`: `h = pin :: port :: instance path` -/
def innerWire (d : Design) (h : HRef) : Option HRef :=
  match h with
  | q :: _ :: p =>
    match resolve d p with
    | some (.inst i) =>
      match d.defOf i with
      | some D =>
        match D.wireOf (.inner q) with
        | some (C, w) => some (w.id :: C.id :: p)
        | none => none
      | none => none
    | _ => none
  | _ => none

/-- `_get_outer_hwire_from_hpin`: `h = pin :: port :: instance :: parent path` -/
def outerWire (d : Design) (h : HRef) : Option HRef :=
  match h with
  | q :: _ :: c :: p =>
    match resolve d p with
    | some (.inst i) =>
      match d.defOf i with
      | some D =>
        match D.wireOf (.outer c q) with
        | some (C, w) => some (w.id :: C.id :: p)
        | none => none
      | none => none
    | _ => none
  | _ => none

/-- the hierarchical pin a pin reference on a wire of `(p, D)` denotes; `true` = outer pin -/
def hpinOfRef (d : Design) (D : Defn) (p : HRef) (r : PinRef) : Option (Bool × HRef) :=
  match r with
  | .inner q =>
    match D.portOfPin q with
    | some P => some (false, q :: P.id :: p)
    | none => none
  | .outer c q =>
    match D.child? c with
    | some ci =>
      match d.defOf ci with
      | some D2 =>
        match D2.portOfPin q with
        | some P => some (true, q :: P.id :: c :: p)
        | none => none
      | none => none
    | none => none

/-- `_get_hpins_from_hwire` (tagged): `h = wire :: cable :: instance path` -/
def pinsOfWireT (d : Design) (h : HRef) : List (Bool × HRef) :=
  match resolve d h with
  | some (.wire _ w) =>
    match resolve d h.tail.tail with
    | some (.inst i) =>
      match d.defOf i with
      | some D => w.pins.filterMap (hpinOfRef d D h.tail.tail)
      | none => []
    | _ => []
  | _ => []

def pinsOfWire (d : Design) (h : HRef) : List HRef := (pinsOfWireT d h).map (·.2)

/-- successors in the bipartite graph hierarchical pins ↔ hierarchical wires -/
def traceSucc (d : Design) (n : HRef) : List HRef :=
  match resolve d n with
  | some (.pin _ _) => (innerWire d n).toList ++ (outerWire d n).toList
  | some (.wire _ _) => pinsOfWire d n
  | _ => []

def isWireRef (d : Design) (n : HRef) : Bool :=
  match resolve d n with
  | some (.wire _ _) => true
  | _ => false

def isPinRef (d : Design) (n : HRef) : Bool :=
  match resolve d n with
  | some (.pin _ _) => true
  | _ => false

/-- number of pin references on all wires of all definitions (bounds the degree of a wire) -/
def totalPinRefs (d : Design) : Nat :=
  (d.defs.flatMap (fun D => D.cables.flatMap (fun C => C.wires.flatMap (·.pins)))).length

/-- fuel of the closure: (elaborated pins + wires) × (1 + maximal degree); proved sufficient in
    LemmasFuel.lean -/
def traceFuel (d : Design) : Nat :=
  match d.top with
  | some t =>
    let u := under d true [t.id] t
    ((u.flatMap (pinsAt d)).length + (u.flatMap (wiresAt d)).length) * (totalPinRefs d + 3)
  | none => 0

/-- the work-list closure of `_get_hwires_from_hpins` with selection ALL, from pins and/or wires -/
def traceAll (d : Design) (init : List HRef) : List HRef × Bool :=
  let r := Reach.go (traceSucc d) (traceFuel d + init.length) init []
  (r.1.filter (isWireRef d), r.2)

/-! ## Duplicate removal (the `in_yield` / `found` sets of the Python code) -/

def dedup {α : Type} [DecidableEq α] : List α → List α
  | [] => []
  | x :: l => if x ∈ l then dedup l else x :: dedup l

/-! ## The five queries on a hierarchical reference -/

/-- wires reached from one hierarchical pin under a narrow selection -/
def wiresOfPinSel (d : Design) (sel : Sel) (n : HRef) : List HRef :=
  match sel with
  | .inside => (innerWire d n).toList
  | .outside => (outerWire d n).toList
  | .both => (innerWire d n).toList ++ (outerWire d n).toList
  | .all => []

/-- wires on the far side of the pins of a hierarchical wire (selection OUTSIDE on a wire) -/
def acrossWire (d : Design) (h : HRef) : List HRef :=
  (pinsOfWireT d h).flatMap (fun tn => if tn.1 then (innerWire d tn.2).toList else (outerWire d tn.2).toList)

def hwiresOfHRef (d : Design) (rec : Bool) (sel : Sel) (h : HRef) : List HRef × Bool :=
  match resolve d h with
  | some (.inst i) => ((under d rec h i).flatMap (wiresAt d), true)
  | some (.port P) =>
    let pins := P.pins.map (fun q => q :: h)
    if sel = .all then traceAll d pins else (pins.flatMap (wiresOfPinSel d sel), true)
  | some (.pin _ _) =>
    if sel = .all then traceAll d [h] else (wiresOfPinSel d sel h, true)
  | some (.cable C) =>
    let ws := C.wires.map (fun w => w.id :: h)
    match sel with
    | .inside => (ws, true)
    | .outside => (ws.flatMap (acrossWire d), true)
    | .both => (ws.flatMap (fun w => w :: (pinsOfWire d w).flatMap (wiresOfPinSel d .both)), true)
    | .all => traceAll d ws
  | some (.wire _ _) =>
    match sel with
    | .inside => ([h], true)
    | .outside => (acrossWire d h, true)
    | .both => (h :: (pinsOfWire d h).flatMap (wiresOfPinSel d .both), true)
    | .all => traceAll d [h]
  | none => ([], true)

def hcablesOfHRef (d : Design) (rec : Bool) (sel : Sel) (h : HRef) : List HRef × Bool :=
  match resolve d h with
  | some (.inst i) => ((under d rec h i).flatMap (cablesAt d), true)
  | some (.cable _) =>
    -- repaired code: INSIDE on a cable is the cable itself (also when it has no wire)
    if sel = .inside then ([h], true) else let r := hwiresOfHRef d rec sel h; (r.1.map List.tail, r.2)
  | _ => let r := hwiresOfHRef d rec sel h; (r.1.map List.tail, r.2)

def hpinsOfHRef (d : Design) (rec : Bool) (h : HRef) : List HRef :=
  match resolve d h with
  | some (.inst i) => (under d rec h i).flatMap (pinsAt d)
  | some (.port P) => P.pins.map (fun q => q :: h)
  | some (.pin _ _) => [h]
  | some (.cable C) => C.wires.flatMap (fun w => pinsOfWire d (w.id :: h))
  | some (.wire _ _) => pinsOfWire d h
  | none => []

def hportsOfHRef (d : Design) (rec : Bool) (h : HRef) : List HRef :=
  match resolve d h with
  | some (.inst i) => (under d rec h i).flatMap (portsAt d)
  | some (.port _) => [h]
  | some (.pin _ _) => [h.tail]
  | some (.cable C) => C.wires.flatMap (fun w => (pinsOfWire d (w.id :: h)).map List.tail)
  | some (.wire _ _) => (pinsOfWire d h).map List.tail
  | none => []

def hinstsOfHRef (d : Design) (rec : Bool) (h : HRef) : List HRef :=
  match resolve d h with
  | some (.inst i) => ((if rec then descs d d.defs.length h i else kids d h i)).map (·.1)
  | some (.port _) => [h.tail]
  | some (.cable _) => [h.tail]
  | some (.pin _ _) => [h.tail.tail]
  | some (.wire _ _) => [h.tail.tail]
  | none => []

/-! ## Element roots: `HRef.get_all_hrefs_of_item` -/

/-- index of the definition that owns the port / cable / inner pin / wire with this identity -/
def Design.defWith (d : Design) (f : Defn → Bool) : Option Nat :=
  (d.defs.zipIdx.find? (fun Dk => f Dk.1)).map (·.2)

def Defn.cableOfWire (D : Defn) (x : Nat) : Option Cable :=
  D.cables.find? (fun C => (C.wire? x).isSome)

/-- `(hrefs, finished)` of `get_all_hrefs_of_item` for element roots (and the instances of a
    definition / the members of a library, which the queries expand the same way). -/
def hrefsOfItem (d : Design) : Root → List HRef × Bool
  | .instance x => allHrefs d [x]
  | .definition D => allHrefs d (d.refsOf D)
  | .port x =>
    match d.defWith (fun D => (D.port? x).isSome) with
    | some D => let r := allHrefs d (d.refsOf D); (r.1.map (fun p => x :: p), r.2)
    | none => ([], true)
  | .cable x =>
    match d.defWith (fun D => (D.cable? x).isSome) with
    | some D => let r := allHrefs d (d.refsOf D); (r.1.map (fun p => x :: p), r.2)
    | none => ([], true)
  | .innerPin q =>
    match d.defWith (fun D => (D.portOfPin q).isSome) with
    | some D =>
      match (d.defs[D]?).bind (fun Df => Df.portOfPin q) with
      | some P => let r := allHrefs d (d.refsOf D); (r.1.map (fun p => q :: P.id :: p), r.2)
      | none => ([], true)
    | none => ([], true)
  | .outerPin c q =>
    match d.defWith (fun D => (D.portOfPin q).isSome) with
    | some D =>
      match (d.defs[D]?).bind (fun Df => Df.portOfPin q) with
      | some P => let r := allHrefs d [c]; (r.1.map (fun p => q :: P.id :: p), r.2)
      | none => ([], true)
    | none => ([], true)
  | .wire x =>
    match d.defWith (fun D => (D.cableOfWire x).isSome) with
    | some D =>
      match (d.defs[D]?).bind (fun Df => Df.cableOfWire x) with
      | some C => let r := allHrefs d (d.refsOf D); (r.1.map (fun p => x :: C.id :: p), r.2)
      | none => ([], true)
    | none => ([], true)
  | .library ds =>
    let rs := ds.map (fun D => allHrefs d (d.refsOf D))
    (rs.flatMap (·.1), rs.all (·.2))
  | .netlist =>
    match d.top with
    | some t => ([[t.id]], true)
    | none => ([], true)
  | .href h => ([h], true)

/-! ## The queries for every root -/

def getHPorts (d : Design) (root : Root) (rec : Bool) : List HRef × Bool :=
  let r := hrefsOfItem d root
  (dedup (r.1.flatMap (hportsOfHRef d rec)), r.2)

def getHPins (d : Design) (root : Root) (rec : Bool) : List HRef × Bool :=
  let r := hrefsOfItem d root
  (dedup (r.1.flatMap (hpinsOfHRef d rec)), r.2)

def getHCables (d : Design) (root : Root) (rec : Bool) (sel : Sel) : List HRef × Bool :=
  let r := hrefsOfItem d root
  let rs := r.1.map (hcablesOfHRef d rec sel)
  (dedup (rs.flatMap (·.1)), r.2 && rs.all (·.2))

def getHWires (d : Design) (root : Root) (rec : Bool) (sel : Sel) : List HRef × Bool :=
  let r := hrefsOfItem d root
  let rs := r.1.map (hwiresOfHRef d rec sel)
  (dedup (rs.flatMap (·.1)), r.2 && rs.all (·.2))

/-- get_hinstances: definitions, instances and outer pins answer with the occurrences themselves;
    ports, cables, pins and wires with the occurrences of the instances of their definition;
    the netlist with what is below the top instance (no validity test on that path). -/
def getHInstances (d : Design) (root : Root) (rec : Bool) : List HRef × Bool :=
  match root with
  | .netlist =>
    match d.top with
    | some t => (dedup (((if rec then descs d d.defs.length [t.id] t else kids d [t.id] t)).map (·.1)), true)
    | none => ([], true)
  | .href h => (dedup (hinstsOfHRef d rec h), true)
  | .library ds => let r := allHrefs d (ds.flatMap d.refsOf); (dedup r.1, r.2)
  | .definition D => let r := allHrefs d (d.refsOf D); (dedup r.1, r.2)
  | .instance x => let r := allHrefs d [x]; (dedup r.1, r.2)
  | .outerPin c _ => let r := allHrefs d [c]; (dedup r.1, r.2)
  | .port x =>
    match d.defWith (fun D => (D.port? x).isSome) with
    | some D => let r := allHrefs d (d.refsOf D); (dedup r.1, r.2)
    | none => ([], true)
  | .cable x =>
    match d.defWith (fun D => (D.cable? x).isSome) with
    | some D => let r := allHrefs d (d.refsOf D); (dedup r.1, r.2)
    | none => ([], true)
  | .innerPin q =>
    match d.defWith (fun D => (D.portOfPin q).isSome) with
    | some D => let r := allHrefs d (d.refsOf D); (dedup r.1, r.2)
    | none => ([], true)
  | .wire x =>
    match d.defWith (fun D => (D.cableOfWire x).isSome) with
    | some D => let r := allHrefs d (d.refsOf D); (dedup r.1, r.2)
    | none => ([], true)

/-! ## Canonicity: `__eq__`, `__hash__`, the flyweight table -/

/-- `HRef.__eq__` walks both parent chains comparing items -/
def hrefEq : HRef → HRef → Bool
  | [], [] => true
  | x :: p, y :: q => x == y && hrefEq p q
  | _, _ => false

/-- `HRef.__init__`: `hash(hash(parent) * 31 + hash(item))`, abstracting the item hash `ih` and the
    word-size reduction `wrap` (Python's `hash` of an int) -/
def hrefHash (ih : Nat → Int) (wrap : Int → Int) (none_hash : Int) : HRef → Int
  | [] => none_hash
  | x :: p => wrap (hrefHash ih wrap none_hash p * 31 + ih x)

/-- the flyweight table: association list from reference value to canonical object identity -/
structure Fly where
  table : List (HRef × Nat)
  next : Nat
  deriving Repr

def Fly.empty : Fly := ⟨[], 0⟩

/-- `HRef.from_parent_and_item`: look the value up; allocate on a miss -/
def Fly.intern (t : Fly) (h : HRef) : Fly × Nat :=
  match t.table.find? (fun e => hrefEq e.1 h) with
  | some e => (t, e.2)
  | none => (⟨(h, t.next) :: t.table, t.next + 1⟩, t.next)

end Spydr.Hier
