/-
  Generic work-list reachability (executable part; the lemmas are in LemmasReach.lean).
  `go succ fuel stack visited` pops one node per unit of fuel; a node that is already visited is
  dropped, otherwise it is marked and its successors are pushed.  Returns the visited list and
  whether the stack emptied within the fuel (`finished`).
-/
namespace Spydr.Hier.Reach
variable {α : Type} [DecidableEq α]

def go (succ : α → List α) : Nat → List α → List α → List α × Bool
  | 0, stack, vis => (vis, stack.isEmpty)
  | _+1, [], vis => (vis, true)
  | f+1, x :: stack, vis =>
    if x ∈ vis then go succ f stack vis
    else go succ f (succ x ++ stack) (x :: vis)

end Spydr.Hier.Reach
