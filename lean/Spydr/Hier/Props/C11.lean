/-
  C11 — hierarchical references enumerate each occurrence exactly once and are canonical.

  `Occ d h e` (Spec.lean) is the inductive definition of "h is an occurrence of element e in the
  elaborated design", written without reference to the algorithms.  All statements are for ALL
  designs `d` under the decidable hypotheses `WF d` (identities unique) and `Acyclic d`
  (= `Sorted d`: the definitions are presented in a topological order; exists iff the hierarchy is
  acyclic); the driver checks both on every input.
-/
import Spydr.Hier.LemmasFuel
import Spydr.Hier.LemmasCanon
import Spydr.Hier.Example

namespace Spydr.Hier

/-- **`is_valid` is "is an occurrence"**, for any design (in particular after edits). -/
theorem isValid_iff {d : Design} (hwf : WF d) (h : HRef) : isValid d h = true ↔ ValidPath d h :=
  isValid_iff' hwf h

/-! ### the five queries on a reference to a hierarchical instance -/

theorem getHPorts_href (d : Design) (x : HRef) (rec : Bool) :
    getHPorts d (.href x) rec = (dedup (hportsOfHRef d rec x), true) := by
  simp [getHPorts, hrefsOfItem]

theorem getHPins_href' (d : Design) (x : HRef) (rec : Bool) :
    getHPins d (.href x) rec = (dedup (hpinsOfHRef d rec x), true) := by
  simp [getHPins, hrefsOfItem]

theorem getHCables_href (d : Design) (x : HRef) (rec : Bool) (sel : Sel) :
    getHCables d (.href x) rec sel = (dedup (hcablesOfHRef d rec sel x).1, (hcablesOfHRef d rec sel x).2) := by
  simp [getHCables, hrefsOfItem]

theorem getHWires_href' (d : Design) (x : HRef) (rec : Bool) (sel : Sel) :
    getHWires d (.href x) rec sel = (dedup (hwiresOfHRef d rec sel x).1, (hwiresOfHRef d rec sel x).2) := by
  simp [getHWires, hrefsOfItem]

/-- **C11 (instances)**: `get_hinstances(href p)` = the hierarchical instances directly below `p`
    (`recursive=False`) / at any depth below `p` (`True`), each once. -/
theorem hinstances_spec {d : Design} (hwf : WF d) (hs : Acyclic d) (p : HRef) (rec : Bool) (hp : IsHInst d p) :
    (∀ x, x ∈ (getHInstances d (.href p) rec).1 ↔ IsHInst d x ∧ Within p rec x.tail) ∧
    (getHInstances d (.href p) rec).1.Nodup ∧ (getHInstances d (.href p) rec).2 = true := by
  obtain ⟨i, ho⟩ := hp
  refine ⟨fun x => ?_, nodup_dedup _, rfl⟩
  simp only [getHInstances, mem_dedup, hinstsOfHRef, resolve_complete hwf ho]
  exact mem_insts_below hwf hs ho rec x

theorem hports_spec {d : Design} (hwf : WF d) (hs : Acyclic d) (p : HRef) (rec : Bool) (hp : IsHInst d p) :
    (∀ x, x ∈ (getHPorts d (.href p) rec).1 ↔ IsHPort d x ∧ Within p rec x.tail) ∧
    (getHPorts d (.href p) rec).1.Nodup ∧ (getHPorts d (.href p) rec).2 = true := by
  obtain ⟨i, ho⟩ := hp
  rw [getHPorts_href]
  refine ⟨fun x => ?_, nodup_dedup _, rfl⟩
  simp only [mem_dedup, hportsOfHRef, resolve_complete hwf ho]
  exact mem_ports_under hwf hs ho rec x

theorem hpins_spec {d : Design} (hwf : WF d) (hs : Acyclic d) (p : HRef) (rec : Bool) (hp : IsHInst d p) :
    (∀ x, x ∈ (getHPins d (.href p) rec).1 ↔ IsHPin d x ∧ Within p rec x.tail.tail) ∧
    (getHPins d (.href p) rec).1.Nodup ∧ (getHPins d (.href p) rec).2 = true := by
  obtain ⟨i, ho⟩ := hp
  rw [getHPins_href']
  refine ⟨fun x => ?_, nodup_dedup _, rfl⟩
  simp only [mem_dedup, hpinsOfHRef, resolve_complete hwf ho]
  exact mem_pins_under hwf hs ho rec x

theorem hcables_spec {d : Design} (hwf : WF d) (hs : Acyclic d) (p : HRef) (rec : Bool) (hp : IsHInst d p) :
    (∀ x, x ∈ (getHCables d (.href p) rec .inside).1 ↔ IsHCable d x ∧ Within p rec x.tail) ∧
    (getHCables d (.href p) rec .inside).1.Nodup ∧ (getHCables d (.href p) rec .inside).2 = true := by
  obtain ⟨i, ho⟩ := hp
  rw [getHCables_href]
  refine ⟨fun x => ?_, nodup_dedup _, ?_⟩
  · simp only [mem_dedup, hcablesOfHRef, resolve_complete hwf ho]
    exact mem_cables_under hwf hs ho rec x
  · simp only [hcablesOfHRef, resolve_complete hwf ho]

theorem hwires_spec {d : Design} (hwf : WF d) (hs : Acyclic d) (p : HRef) (rec : Bool) (hp : IsHInst d p) :
    (∀ x, x ∈ (getHWires d (.href p) rec .inside).1 ↔ IsHWire d x ∧ Within p rec x.tail.tail) ∧
    (getHWires d (.href p) rec .inside).1.Nodup ∧ (getHWires d (.href p) rec .inside).2 = true := by
  obtain ⟨i, ho⟩ := hp
  rw [getHWires_href']
  refine ⟨fun x => ?_, nodup_dedup _, ?_⟩
  · simp only [mem_dedup, hwiresOfHRef, resolve_complete hwf ho]
    exact mem_wires_under hwf hs ho rec x
  · simp only [hwiresOfHRef, resolve_complete hwf ho]


/-! ### the netlist as root: the complete enumeration -/

theorem hrefsOfItem_netlist {d : Design} {t : Inst} (ht : d.topInst = some t) :
    hrefsOfItem d .netlist = hrefsOfItem d (.href [t.id]) := by
  simp [hrefsOfItem, topInst_top ht]

/-- **C11, complete enumeration from the netlist**: with `recursive=True` every occurrence of a port
    in the elaborated design is returned, exactly once; with `False` those of the top instance. -/
theorem hports_netlist_spec {d : Design} (hwf : WF d) (hs : Acyclic d) {t : Inst} (ht : d.topInst = some t) (rec : Bool) :
    (∀ x, x ∈ (getHPorts d .netlist rec).1 ↔ IsHPort d x ∧ (rec = true ∨ x.tail = [t.id])) ∧
    (getHPorts d .netlist rec).1.Nodup ∧ (getHPorts d .netlist rec).2 = true := by
  have he : getHPorts d .netlist rec = getHPorts d (.href [t.id]) rec := by
    simp only [getHPorts, hrefsOfItem_netlist ht]
  rw [he]
  obtain ⟨h1, h2, h3⟩ := hports_spec hwf hs [t.id] rec (top_isHInst ht)
  refine ⟨fun x => ?_, h2, h3⟩
  rw [h1 x]
  constructor
  · rintro ⟨a, b⟩
    obtain ⟨c, hc⟩ := a.cont
    exact ⟨a, (within_top ht hc rec).mp b⟩
  · rintro ⟨a, b⟩
    obtain ⟨c, hc⟩ := a.cont
    exact ⟨a, (within_top ht hc rec).mpr b⟩

theorem hpins_netlist_spec {d : Design} (hwf : WF d) (hs : Acyclic d) {t : Inst} (ht : d.topInst = some t) (rec : Bool) :
    (∀ x, x ∈ (getHPins d .netlist rec).1 ↔ IsHPin d x ∧ (rec = true ∨ x.tail.tail = [t.id])) ∧
    (getHPins d .netlist rec).1.Nodup ∧ (getHPins d .netlist rec).2 = true := by
  have he : getHPins d .netlist rec = getHPins d (.href [t.id]) rec := by
    simp only [getHPins, hrefsOfItem_netlist ht]
  rw [he]
  obtain ⟨h1, h2, h3⟩ := hpins_spec hwf hs [t.id] rec (top_isHInst ht)
  refine ⟨fun x => ?_, h2, h3⟩
  rw [h1 x]
  constructor
  · rintro ⟨a, b⟩
    obtain ⟨c, hc⟩ := a.cont
    exact ⟨a, (within_top ht hc rec).mp b⟩
  · rintro ⟨a, b⟩
    obtain ⟨c, hc⟩ := a.cont
    exact ⟨a, (within_top ht hc rec).mpr b⟩

theorem hcables_netlist_spec {d : Design} (hwf : WF d) (hs : Acyclic d) {t : Inst} (ht : d.topInst = some t) (rec : Bool) :
    (∀ x, x ∈ (getHCables d .netlist rec .inside).1 ↔ IsHCable d x ∧ (rec = true ∨ x.tail = [t.id])) ∧
    (getHCables d .netlist rec .inside).1.Nodup ∧ (getHCables d .netlist rec .inside).2 = true := by
  have he : getHCables d .netlist rec .inside = getHCables d (.href [t.id]) rec .inside := by
    simp only [getHCables, hrefsOfItem_netlist ht]
  rw [he]
  obtain ⟨h1, h2, h3⟩ := hcables_spec hwf hs [t.id] rec (top_isHInst ht)
  refine ⟨fun x => ?_, h2, h3⟩
  rw [h1 x]
  constructor
  · rintro ⟨a, b⟩
    obtain ⟨c, hc⟩ := a.cont
    exact ⟨a, (within_top ht hc rec).mp b⟩
  · rintro ⟨a, b⟩
    obtain ⟨c, hc⟩ := a.cont
    exact ⟨a, (within_top ht hc rec).mpr b⟩

theorem hwires_netlist_spec {d : Design} (hwf : WF d) (hs : Acyclic d) {t : Inst} (ht : d.topInst = some t) (rec : Bool) :
    (∀ x, x ∈ (getHWires d .netlist rec .inside).1 ↔ IsHWire d x ∧ (rec = true ∨ x.tail.tail = [t.id])) ∧
    (getHWires d .netlist rec .inside).1.Nodup ∧ (getHWires d .netlist rec .inside).2 = true := by
  have he : getHWires d .netlist rec .inside = getHWires d (.href [t.id]) rec .inside := by
    simp only [getHWires, hrefsOfItem_netlist ht]
  rw [he]
  obtain ⟨h1, h2, h3⟩ := hwires_spec hwf hs [t.id] rec (top_isHInst ht)
  refine ⟨fun x => ?_, h2, h3⟩
  rw [h1 x]
  constructor
  · rintro ⟨a, b⟩
    obtain ⟨c, hc⟩ := a.cont
    exact ⟨a, (within_top ht hc rec).mp b⟩
  · rintro ⟨a, b⟩
    obtain ⟨c, hc⟩ := a.cont
    exact ⟨a, (within_top ht hc rec).mpr b⟩

/-- instances: everything strictly below the top (`True`) / its children (`False`) -/
theorem hinstances_netlist_spec {d : Design} (hwf : WF d) (hs : Acyclic d) {t : Inst} (ht : d.topInst = some t) (rec : Bool) :
    (∀ x, x ∈ (getHInstances d .netlist rec).1 ↔ IsHInst d x ∧ x ≠ [t.id] ∧ (rec = true ∨ x.tail = [t.id])) ∧
    (getHInstances d .netlist rec).1.Nodup ∧ (getHInstances d .netlist rec).2 = true := by
  obtain ⟨h1, r, D, h2, h3, h4⟩ := topInst_eq_some.mp ht
  have ho : Occ d [t.id] (.inst t) := Occ.top h1 h2 h3 h4
  refine ⟨fun x => ?_, ?_, ?_⟩
  · simp only [getHInstances, topInst_top ht, mem_dedup]
    rw [mem_insts_below hwf hs ho rec x]
    constructor
    · rintro ⟨⟨c, hc⟩, hw⟩
      cases x with
      | nil => exact absurd rfl hc.ne_nil
      | cons a p =>
        cases p with
        | nil =>
          exfalso
          rcases hw with hw | ⟨_, hw⟩
          · simp at hw
          · simp at hw
        | cons b p' =>
          obtain ⟨i', _, _, _, hp', _⟩ := hc.inst_cons_inv
          exact ⟨⟨c, hc⟩, by simp, (within_top ht hp' rec).mp hw⟩
    · rintro ⟨⟨c, hc⟩, hne, hw⟩
      cases x with
      | nil => exact absurd rfl hc.ne_nil
      | cons a p =>
        cases p with
        | nil =>
          exfalso
          obtain ⟨t', h1, _, h3⟩ := hc.has_top
          rw [ht] at h1
          cases h1
          have := List.suffix_cons_iff.mp h3
          simp at this
          exact hne (by rw [this])
        | cons b p' =>
          obtain ⟨i', _, _, _, hp', _⟩ := hc.inst_cons_inv
          exact ⟨⟨c, hc⟩, (within_top ht hp' rec).mpr hw⟩
  · simp only [getHInstances, topInst_top ht]
    exact nodup_dedup _
  · simp only [getHInstances, topInst_top ht]



/-! ### occurrences of a given element: `HRef.get_all_hrefs_of_item` / `get_all_hrefs_of_instances`

  Proved in LemmasUp.lean (`hrefs_of_instance_spec`, `hrefs_of_definition_spec`, `hrefs_of_port_spec`,
  `hrefs_of_pin_spec`, `hrefs_of_cable_spec`, `hrefs_of_wire_spec`); collected here. -/

/-- **asking for the occurrences of an element returns exactly the valid paths that end in it**
    (upward bound set + pruned downward search = the inductive definition).  No side condition on
    libraries: the (repaired) code finds the netlist through the instances *and their ancestors*, and
    whenever an occurrence exists the top instance is among them — so the statement also holds after a
    definition was removed from its library.  No `finished` hypothesis (`search_finished`). -/
theorem hrefs_of_item_spec {d : Design} (hwf : WF d) (hs : Acyclic d) {t : Inst}
    (ht : d.topInst = some t) (x : Nat) :
    (∀ h, h ∈ (hrefsOfItem d (.instance x)).1 ↔ ∃ c, Occ d h (.inst c) ∧ c.id = x) ∧
    (∀ h, h ∈ (hrefsOfItem d (.port x)).1 ↔ ∃ P, Occ d h (.port P) ∧ P.id = x) ∧
    (∀ h, h ∈ (hrefsOfItem d (.innerPin x)).1 ↔ ∃ P, Occ d h (.pin P x)) ∧
    (∀ h, h ∈ (hrefsOfItem d (.cable x)).1 ↔ ∃ C, Occ d h (.cable C) ∧ C.id = x) ∧
    (∀ h, h ∈ (hrefsOfItem d (.wire x)).1 ↔ ∃ C w, Occ d h (.wire C w) ∧ w.id = x) :=
  ⟨fun h => hrefs_of_instance_spec hwf hs x ht (hrefsOfItem_finished hwf _) h,
   fun h => hrefs_of_port_spec hwf hs x ht (hrefsOfItem_finished hwf _) h,
   fun h => hrefs_of_pin_spec hwf hs x ht (hrefsOfItem_finished hwf _) h,
   fun h => hrefs_of_cable_spec hwf hs x ht (hrefsOfItem_finished hwf _) h,
   fun h => hrefs_of_wire_spec hwf hs x ht (hrefsOfItem_finished hwf _) h⟩

/-- the instances of a definition: `get_hinstances(definition)` (also for a definition that was removed
    from its library but is still instantiated) -/
theorem hinstances_of_definition_spec {d : Design} (hwf : WF d) (hs : Acyclic d) (k : Nat)
    {t : Inst} (ht : d.topInst = some t) (rec : Bool) :
    (∀ h, h ∈ (getHInstances d (.definition k) rec).1 ↔ ∃ c, Occ d h (.inst c) ∧ c.ref = some k) ∧
    (getHInstances d (.definition k) rec).1.Nodup := by
  simp only [getHInstances]
  refine ⟨fun h => ?_, nodup_dedup _⟩
  rw [mem_dedup]
  exact mem_allHrefs_refsOf hwf hs k ht (allHrefs_finished hwf _) h

/-! roots `library` and `outerPin`, and references that are not occurrences -/

theorem hrefs_of_library_spec {d : Design} (hwf : WF d) (hs : Sorted d) (ds : List Nat) {t : Inst}
    (ht : d.topInst = some t) (h : HRef) :
    h ∈ (hrefsOfItem d (.library ds)).1 ↔ ∃ k ∈ ds, ∃ c, Occ d h (.inst c) ∧ c.ref = some k := by
  simp only [hrefsOfItem, List.mem_flatMap, List.mem_map]
  constructor
  · rintro ⟨r, ⟨k, hk, rfl⟩, hm⟩
    exact ⟨k, hk, (mem_allHrefs_refsOf hwf hs k ht (allHrefs_finished hwf _) h).mp hm⟩
  · rintro ⟨k, hk, hc⟩
    exact ⟨_, ⟨k, hk, rfl⟩, (mem_allHrefs_refsOf hwf hs k ht (allHrefs_finished hwf _) h).mpr hc⟩

theorem hinstances_of_library_spec {d : Design} (hwf : WF d) (hs : Sorted d) (ds : List Nat) {t : Inst}
    (ht : d.topInst = some t) (rec : Bool) :
    (∀ h, h ∈ (getHInstances d (.library ds) rec).1 ↔ ∃ c, Occ d h (.inst c) ∧ ∃ k ∈ ds, c.ref = some k) ∧
    (getHInstances d (.library ds) rec).1.Nodup ∧ (getHInstances d (.library ds) rec).2 = true := by
  simp only [getHInstances]
  refine ⟨fun h => ?_, nodup_dedup _, allHrefs_finished hwf _⟩
  rw [mem_dedup, mem_allHrefs hwf hs _ ht (allHrefs_finished hwf _)]
  constructor
  · rintro ⟨c, ho, hm⟩
    obtain ⟨k, hk, hck⟩ := List.mem_flatMap.mp hm
    exact ⟨c, ho, k, hk, (hwf.mem_refsOf_occ ho k).mp hck⟩
  · rintro ⟨c, ho, k, hk, hr⟩
    exact ⟨c, ho, List.mem_flatMap.mpr ⟨k, hk, (hwf.mem_refsOf_occ ho k).mpr hr⟩⟩

/-- occurrences of an outer pin `(c, q)`: the pin `q` (under its port) inside every occurrence of `c` -/
theorem hrefs_of_outerPin_spec {d : Design} (hwf : WF d) (hs : Sorted d) (c q : Nat) {t : Inst}
    (ht : d.topInst = some t) (h : HRef) :
    h ∈ (hrefsOfItem d (.outerPin c q)).1 ↔
      ∃ (k : Nat) (D : Defn) (P : Port) (p : HRef) (ci : Inst), d.defs[k]? = some D ∧ P ∈ D.ports ∧ q ∈ P.pins ∧
        Occ d p (.inst ci) ∧ ci.id = c ∧ h = q :: P.id :: p := by
  simp only [hrefsOfItem]
  cases hdw : d.defWith (fun D => (D.portOfPin q).isSome) with
  | none =>
    simp only [List.not_mem_nil, false_iff]
    rintro ⟨k, D, P, p, ci, hD, hP, hq, _⟩
    have hl : D.LocalWF := hwf.localWF (mem_defs_of_get hD)
    obtain ⟨k', hk'⟩ := defWith_exists (f := fun D => (D.portOfPin q).isSome) hD (by simp [hl.portOfPin_eq hP hq])
    rw [hk'] at hdw
    cases hdw
  | some k0 =>
    obtain ⟨Dk, hDk, hf⟩ := defWith_some hdw
    obtain ⟨P0, hP0⟩ := Option.isSome_iff_exists.mp hf
    obtain ⟨hP0m, hP0q⟩ := Defn.portOfPin_some hP0
    simp only [hDk, Option.bind_some, hP0, List.mem_map]
    constructor
    · rintro ⟨p, hp, rfl⟩
      obtain ⟨ci, hci, hid⟩ := (mem_allHrefs hwf hs [c] ht (allHrefs_finished hwf _) p).mp hp
      exact ⟨k0, Dk, P0, p, ci, hDk, hP0m, hP0q, hci, by simpa using hid, rfl⟩
    · rintro ⟨k, D, P, p, ci, hD, hP, hq, hci, hid, rfl⟩
      have hrk : k = k0 := flatMap_index_unique hwf.2.2.2.1 hD hDk
        (List.mem_flatMap.mpr ⟨P, hP, hq⟩) (List.mem_flatMap.mpr ⟨P0, hP0m, hP0q⟩)
      subst hrk
      obtain rfl : Dk = D := Option.some.inj (hDk.symm.trans hD)
      have hl : Dk.LocalWF := hwf.localWF (mem_defs_of_get hD)
      have : P0 = P := by
        have := hl.portOfPin_eq hP hq
        rw [hP0] at this
        exact Option.some.inj this
      subst this
      exact ⟨p, (mem_allHrefs hwf hs [c] ht (allHrefs_finished hwf _) p).mpr ⟨ci, hci, by simpa using hid⟩, rfl⟩

theorem hinstances_of_outerPin_spec {d : Design} (hwf : WF d) (hs : Sorted d) (c q : Nat) {t : Inst}
    (ht : d.topInst = some t) (rec : Bool) :
    (∀ h, h ∈ (getHInstances d (.outerPin c q) rec).1 ↔ ∃ ci, Occ d h (.inst ci) ∧ ci.id = c) ∧
    (getHInstances d (.outerPin c q) rec).1.Nodup := by
  simp only [getHInstances]
  refine ⟨fun h => ?_, nodup_dedup _⟩
  rw [mem_dedup, mem_allHrefs hwf hs _ ht (allHrefs_finished hwf _)]
  simp

/-- **a reference that is not an occurrence answers nothing**, whatever the query -/
theorem queries_on_invalid {d : Design} (hwf : WF d) (h : HRef) (rec : Bool) (sel : Sel) (hnv : ¬ ValidPath d h) :
    getHInstances d (.href h) rec = ([], true) ∧ getHPorts d (.href h) rec = ([], true) ∧
    getHPins d (.href h) rec = ([], true) ∧ getHCables d (.href h) rec sel = ([], true) ∧
    getHWires d (.href h) rec sel = ([], true) := by
  have hres : resolve d h = none := by
    cases hr : resolve d h with
    | none => rfl
    | some e => exact absurd ⟨e, resolve_sound d h e hr⟩ hnv
  have hw : hwiresOfHRef d rec sel h = ([], true) := by unfold hwiresOfHRef; rw [hres]
  have hc : hcablesOfHRef d rec sel h = ([], true) := by unfold hcablesOfHRef; rw [hres]; simp [hw]
  refine ⟨?_, ?_, ?_, ?_, ?_⟩
  · simp [getHInstances, hinstsOfHRef, hres, dedup]
  · simp [getHPorts, hrefsOfItem, hportsOfHRef, hres, dedup]
  · simp [getHPins, hrefsOfItem, hpinsOfHRef, hres, dedup]
  · simp [getHCables, hrefsOfItem, hc, dedup]
  · simp [getHWires, hrefsOfItem, hw, dedup]


/-- the queries on an element are the union of the queries on its occurrences -/
theorem hports_of_root (d : Design) (root : Root) (rec : Bool) (x : HRef) :
    x ∈ (getHPorts d root rec).1 ↔ ∃ h ∈ (hrefsOfItem d root).1, x ∈ hportsOfHRef d rec h := by
  simp [getHPorts, mem_dedup, List.mem_flatMap]

theorem hpins_of_root (d : Design) (root : Root) (rec : Bool) (x : HRef) :
    x ∈ (getHPins d root rec).1 ↔ ∃ h ∈ (hrefsOfItem d root).1, x ∈ hpinsOfHRef d rec h := by
  simp [getHPins, mem_dedup, List.mem_flatMap]

theorem hcables_of_root (d : Design) (root : Root) (rec : Bool) (sel : Sel) (x : HRef) :
    x ∈ (getHCables d root rec sel).1 ↔ ∃ h ∈ (hrefsOfItem d root).1, x ∈ (hcablesOfHRef d rec sel h).1 := by
  simp [getHCables, mem_dedup, List.mem_flatMap]

theorem hwires_of_root (d : Design) (root : Root) (rec : Bool) (sel : Sel) (x : HRef) :
    x ∈ (getHWires d root rec sel).1 ↔ ∃ h ∈ (hrefsOfItem d root).1, x ∈ (hwiresOfHRef d rec sel h).1 := by
  simp [getHWires, mem_dedup, List.mem_flatMap]

/-- every answer is duplicate-free, whatever the root -/
theorem queries_nodup (d : Design) (root : Root) (rec : Bool) (sel : Sel) :
    (getHInstances d root rec).1.Nodup ∧ (getHPorts d root rec).1.Nodup ∧ (getHPins d root rec).1.Nodup ∧
    (getHCables d root rec sel).1.Nodup ∧ (getHWires d root rec sel).1.Nodup := by
  refine ⟨?_, nodup_dedup _, nodup_dedup _, nodup_dedup _, nodup_dedup _⟩
  unfold getHInstances
  split <;> (try split) <;> first | exact nodup_dedup _ | exact List.nodup_nil

/-! ### references to a port / pin / cable / wire as root -/

theorem queries_on_hport {d : Design} (hwf : WF d) (x : HRef) (rec : Bool) {P : Port} (hx : Occ d x (.port P)) :
    (getHPorts d (.href x) rec).1 = [x] ∧
    (∀ y, y ∈ (getHPins d (.href x) rec).1 ↔ ∃ q ∈ P.pins, y = q :: x) ∧
    (getHInstances d (.href x) rec).1 = [x.tail] := by
  refine ⟨?_, fun y => ?_, ?_⟩
  · simp [getHPorts, hrefsOfItem, hportsOfHRef, resolve_complete hwf hx, dedup]
  · simp only [getHPins, hrefsOfItem, List.flatMap_cons, List.flatMap_nil, List.append_nil, mem_dedup, hpinsOfHRef,
      resolve_complete hwf hx, List.mem_map]
    constructor
    · rintro ⟨q, hq, rfl⟩; exact ⟨q, hq, rfl⟩
    · rintro ⟨q, hq, rfl⟩; exact ⟨q, hq, rfl⟩
  · simp [getHInstances, hinstsOfHRef, resolve_complete hwf hx, dedup]

theorem queries_on_hpin {d : Design} (hwf : WF d) (x : HRef) (rec : Bool) {P : Port} {q : Nat} (hx : Occ d x (.pin P q)) :
    (getHPins d (.href x) rec).1 = [x] ∧ (getHPorts d (.href x) rec).1 = [x.tail] ∧
    (getHInstances d (.href x) rec).1 = [x.tail.tail] := by
  refine ⟨?_, ?_, ?_⟩
  · simp [getHPins, hrefsOfItem, hpinsOfHRef, resolve_complete hwf hx, dedup]
  · simp [getHPorts, hrefsOfItem, hportsOfHRef, resolve_complete hwf hx, dedup]
  · simp [getHInstances, hinstsOfHRef, resolve_complete hwf hx, dedup]

theorem queries_on_hwire {d : Design} (hwf : WF d) (x : HRef) (rec : Bool) {C : Cable} {w : Wire} (hx : Occ d x (.wire C w)) :
    (getHWires d (.href x) rec .inside).1 = [x] ∧ (getHCables d (.href x) rec .inside).1 = [x.tail] ∧
    (getHInstances d (.href x) rec).1 = [x.tail.tail] := by
  refine ⟨?_, ?_, ?_⟩
  · simp [getHWires, hrefsOfItem, hwiresOfHRef, resolve_complete hwf hx, dedup]
  · simp [getHCables, hrefsOfItem, hcablesOfHRef, hwiresOfHRef, resolve_complete hwf hx, dedup]
  · simp [getHInstances, hinstsOfHRef, resolve_complete hwf hx, dedup]

theorem queries_on_hcable {d : Design} (hwf : WF d) (x : HRef) (rec : Bool) {C : Cable} (hx : Occ d x (.cable C)) :
    (∀ y, y ∈ (getHWires d (.href x) rec .inside).1 ↔ ∃ w ∈ C.wires, y = w.id :: x) ∧
    (getHCables d (.href x) rec .inside).1 = [x] ∧
    (getHInstances d (.href x) rec).1 = [x.tail] := by
  refine ⟨fun y => ?_, ?_, ?_⟩
  · simp only [getHWires, hrefsOfItem, List.map_cons, List.map_nil, List.flatMap_cons, List.flatMap_nil,
      List.append_nil, mem_dedup, hwiresOfHRef, resolve_complete hwf hx, List.mem_map]
    constructor
    · rintro ⟨w, hw, rfl⟩; exact ⟨w, hw, rfl⟩
    · rintro ⟨w, hw, rfl⟩; exact ⟨w, hw, rfl⟩
  · simp [getHCables, hrefsOfItem, hcablesOfHRef, resolve_complete hwf hx, dedup]
  · simp [getHInstances, hinstsOfHRef, resolve_complete hwf hx, dedup]

/-- **the searches of C11 always finish**: the `finished` flags of the hypotheses above are provably
    `true` (potential-function argument over the finite set of instance identities). -/
theorem search_finished {d : Design} (hwf : WF d) (root : Root) (rec : Bool) (h : HRef) :
    (hrefsOfItem d root).2 = true ∧ (getHPorts d root rec).2 = true ∧ (getHPins d root rec).2 = true ∧
    (isUnique d h).2 = true :=
  ⟨hrefsOfItem_finished hwf root, hrefsOfItem_finished hwf root, hrefsOfItem_finished hwf root, isUnique_finished hwf h⟩

/-! ### names -/

/-- **`HRef.name`** = slash-joined instance names below the top (+ bundle name, + `[lower+index]`). -/
theorem hrefName_slash_joined {d : Design} (hwf : WF d) {p : HRef} {ns : List String} (hn : InstNames d p ns) :
    hrefName d p = slashJoin ns ∧
    (∀ P, Occ d (P.id :: p) (.port P) → hrefName d (P.id :: p) = slashJoin (ns ++ [P.name])) ∧
    (∀ P q, Occ d (q :: P.id :: p) (.pin P q) →
      hrefName d (q :: P.id :: p) = slashJoin (ns ++ [P.name]) ++ busIndex P.isArray P.lower (P.pins.idxOf q)) ∧
    (∀ C, Occ d (C.id :: p) (.cable C) → hrefName d (C.id :: p) = slashJoin (ns ++ [C.name])) ∧
    (∀ C w, Occ d (w.id :: C.id :: p) (.wire C w) →
      hrefName d (w.id :: C.id :: p) = slashJoin (ns ++ [C.name]) ++ busIndex C.isArray C.lower (C.wires.idxOf w)) :=
  hrefName_spec hwf hn

/-- every valid instance path has such a name list (so `hrefName_slash_joined` is not vacuous) -/
theorem instNames_exists {d : Design} {p : HRef} {e : Elem} (ho : Occ d p e) :
    ∀ c, e = .inst c → ∃ ns, InstNames d p ns := by
  induction ho with
  | top h1 h2 h3 h4 => intro c _; exact ⟨[], InstNames.top (Occ.top h1 h2 h3 h4)⟩
  | child hp hr hD hc ih =>
    intro c _
    obtain ⟨ns, hn⟩ := ih _ rfl
    exact ⟨_, InstNames.child hn (Occ.child hp hr hD hc)⟩
  | port _ _ _ _ _ => intro c hc; cases hc
  | pin _ _ _ => intro c hc; cases hc
  | cable _ _ _ _ _ => intro c hc; cases hc
  | wire _ _ _ => intro c hc; cases hc

/-! ### canonicity (the flyweight theorems `intern_*` carry the content; `eq_iff_same_path` and `hash_congr`
    only record that the model's `__eq__`/`__hash__` are functions of the path) -/

/-- `HRef.__eq__` is equality of paths -/
theorem eq_iff_same_path (a b : HRef) : hrefEq a b = true ↔ a = b := hrefEq_iff a b

/-- equal references have equal hashes (`__hash__` is a function of the path) -/
theorem hash_congr (ih : Nat → Int) (wrap : Int → Int) (nh : Int) (a b : HRef) (h : hrefEq a b = true) :
    hrefHash ih wrap nh a = hrefHash ih wrap nh b := by
  rw [(hrefEq_iff a b).mp h]

/-- the flyweight table: the same path obtained twice is the same object, nothing new is allocated -/
theorem intern_same (t : Fly) (hi : t.Inv) (h : HRef) :
    ((t.intern h).1.intern h) = ((t.intern h).1, (t.intern h).2) := Fly.intern_same t hi h

/-- … and different paths are different objects; the invariant is preserved from the empty table -/
theorem intern_distinct (t : Fly) (hi : t.Inv) (a b : HRef) (hne : a ≠ b) :
    (t.intern a).2 ≠ ((t.intern a).1.intern b).2 := Fly.intern_distinct t hi a b hne

theorem intern_inv (t : Fly) (hi : t.Inv) (h : HRef) : (t.intern h).1.Inv := Fly.intern_inv t h hi

/-! ### uniqueness -/

/-- **`is_unique`** (repaired code) is true exactly when the reference is valid and is the only
    occurrence of its element; `finished` = the upward search emptied its work list within its fuel.
    Together with `isValid_iff` this is "a reference reports invalid / unique or not in agreement with
    the current netlist", for any design — in particular after edits. -/
theorem isUnique_iff {d : Design} (hwf : WF d) (hs : Acyclic d) (h : HRef) :
    ((isUnique d h).1 = true ↔ ∃ e, Occ d h e ∧ ∀ h', Occ d h' e → h' = h) ∧ (isUnique d h).2 = true :=
  ⟨isUnique_iff' hwf hs h (isUnique_finished hwf h), isUnique_finished hwf h⟩

theorem isUnique_invalid {d : Design} (hwf : WF d) (h : HRef) (hnv : ¬ ValidPath d h) : isUnique d h = (false, true) := by
  unfold isUnique
  rw [if_neg]
  intro hv
  exact hnv ((isValid_iff hwf h).mp hv)

/-! ### non-vacuity -/

example : WF exD := by decide
example : Acyclic exD := by decide
example : exD.topInst = some ⟨12, "top", some 2⟩ := by decide
example : isValid exD [7, 6, 9, 12] = true := by decide
example : isValid exD [7, 6, 12] = false := by decide
example : (getHInstances exD .netlist true).1 = [[8, 12], [5, 8, 12], [9, 12], [5, 9, 12]] := by decide
example : (getHWires exD .netlist true .inside).1.length = 4 := by decide
/-- the shared definition `mid`: its wire 7 has exactly the two occurrences -/
example : (hrefsOfItem exD (.wire 7)).1 = [[7, 6, 8, 12], [7, 6, 9, 12]] ∧ (hrefsOfItem exD (.wire 7)).2 = true := by decide
example : hrefName exD [7, 6, 9, 12] = "b/n" := by decide
example : hrefName exD [16, 10, 12] = "t[4]" := by decide
example : hrefName exD [15, 13, 12] = "B[3]" := by decide
/-- `a` occurs once; `l` (inside the shared `mid`) twice; the top-level wire once -/
example : (isUnique exD [8, 12]).1 = true ∧ (isUnique exD [5, 8, 12]).1 = false ∧
    (isUnique exD [11, 10, 12]).1 = true ∧ (isUnique exD [7, 6, 8, 12]).1 = false ∧
    (isUnique exD [7, 6, 12]) = (false, true) := by decide

end Spydr.Hier
