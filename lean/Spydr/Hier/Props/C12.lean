/-
  C12 — cross-hierarchy tracing returns exactly the electrically connected net.

  Statements are for ALL designs `d`; the hypotheses are decidable and checked by the driver on every
  generated input: `WF d` (identities unique), `WFNet d` (inside one definition each pin reference
  is on at most one wire), and — for the completeness half of selection ALL — `finished = true`
  (second component of the query: the work-list closure emptied within its fuel).
  `Conn d` is the equivalence closure of the attachment relation `Adj d` (Spec.lean), defined
  without reference to the algorithm.

  `trace_all_total` (below) proves that under `Acyclic d` the fuel the model gives the closure always
  suffices (potential-function argument over the finite universe of valid hierarchical pins and
  wires, LemmasReach.go_finished / LemmasFuel.traceAll_finished), so `trace_all_spec_total` carries
  no `finished` hypothesis.  The driver still reports the flag and the harness still checks it.
-/
import Spydr.Hier.LemmasFuel
import Spydr.Hier.Example

namespace Spydr.Hier

/-! ### selection ALL -/

theorem getHWires_href (d : Design) (x : HRef) (rec : Bool) (sel : Sel) :
    getHWires d (.href x) rec sel = (dedup (hwiresOfHRef d rec sel x).1, (hwiresOfHRef d rec sel x).2) := by
  simp [getHWires, hrefsOfItem]

/-- the start nodes the closure is run from, for a reference to a wire / pin / cable / port -/
def traceInit (d : Design) (x : HRef) : List HRef :=
  match resolve d x with
  | some (.wire _ _) => [x]
  | some (.pin _ _) => [x]
  | some (.cable C) => C.wires.map (fun w => w.id :: x)
  | some (.port P) => P.pins.map (fun q => q :: x)
  | _ => []

theorem hwiresOfHRef_all (d : Design) (x : HRef) (rec : Bool) (hk : ∀ i, resolve d x ≠ some (.inst i))
    (hv : resolve d x ≠ none) :
    hwiresOfHRef d rec .all x = traceAll d (traceInit d x) := by
  unfold hwiresOfHRef traceInit
  cases h : resolve d x with
  | none => exact absurd h hv
  | some e =>
    cases e with
    | inst i => exact absurd h (hk i)
    | port P => simp
    | pin P q => simp
    | cable C => rfl
    | wire C w => rfl

/-- **C12, selection ALL** — from a valid hierarchical wire or pin `x`, `get_hwires(x, ALL)` is
    exactly the set of hierarchical wires electrically connected to `x`, without duplicates. -/
theorem trace_all_spec {d : Design} (hwf : WF d) (hnn : WFNet d) (x : HRef) (rec : Bool)
    (hx : IsHWire d x ∨ IsHPin d x)
    (hfin : (getHWires d (.href x) rec .all).2 = true) :
    (∀ w, w ∈ (getHWires d (.href x) rec .all).1 ↔ IsHWire d w ∧ Conn d x w) ∧
    (getHWires d (.href x) rec .all).1.Nodup := by
  rw [getHWires_href] at hfin ⊢
  refine ⟨fun w => ?_, nodup_dedup _⟩
  simp only at hfin ⊢
  have hinit : traceInit d x = [x] := by
    unfold traceInit
    rcases hx with ⟨C, w', ho⟩ | ⟨P, q, ho⟩ <;> rw [resolve_complete hwf ho]
  have hk : ∀ i, resolve d x ≠ some (.inst i) := by
    intro i
    rcases hx with ⟨C, w', ho⟩ | ⟨P, q, ho⟩ <;> rw [resolve_complete hwf ho] <;> simp
  have hv : resolve d x ≠ none := by
    rcases hx with ⟨C, w', ho⟩ | ⟨P, q, ho⟩ <;> rw [resolve_complete hwf ho] <;> simp
  rw [hwiresOfHRef_all d x rec hk hv, hinit] at hfin ⊢
  rw [mem_dedup, mem_traceAll hwf hnn [x] hfin]
  simp

/-- soundness half without any fuel hypothesis: whatever `get_hwires(x, ALL)` returns is a valid
    hierarchical wire connected to a start node -/
theorem trace_all_sound {d : Design} (hwf : WF d) (hnn : WFNet d) (x : HRef) (rec : Bool)
    (hx : IsHWire d x ∨ IsHPin d x) (w : HRef) (hw : w ∈ (getHWires d (.href x) rec .all).1) :
    IsHWire d w ∧ Conn d x w := by
  rw [getHWires_href] at hw
  simp only at hw
  have hinit : traceInit d x = [x] := by
    unfold traceInit
    rcases hx with ⟨C, w', ho⟩ | ⟨P, q, ho⟩ <;> rw [resolve_complete hwf ho]
  have hk : ∀ i, resolve d x ≠ some (.inst i) := by
    intro i
    rcases hx with ⟨C, w', ho⟩ | ⟨P, q, ho⟩ <;> rw [resolve_complete hwf ho] <;> simp
  have hv : resolve d x ≠ none := by
    rcases hx with ⟨C, w', ho⟩ | ⟨P, q, ho⟩ <;> rw [resolve_complete hwf ho] <;> simp
  rw [hwiresOfHRef_all d x rec hk hv, hinit, mem_dedup] at hw
  obtain ⟨h1, y, hy, h2⟩ := traceAll_sound hwf hnn [x] w hw
  simp only [List.mem_singleton] at hy
  subst hy
  exact ⟨h1, h2⟩

/-- **every member of a net gives the same answer** -/
theorem trace_same_answer {d : Design} (hwf : WF d) (hnn : WFNet d) (x y : HRef) (rec : Bool)
    (hx : IsHWire d x ∨ IsHPin d x) (hy : IsHWire d y ∨ IsHPin d y) (hc : Conn d x y)
    (hfx : (getHWires d (.href x) rec .all).2 = true) (hfy : (getHWires d (.href y) rec .all).2 = true) (w : HRef) :
    w ∈ (getHWires d (.href x) rec .all).1 ↔ w ∈ (getHWires d (.href y) rec .all).1 := by
  rw [(trace_all_spec hwf hnn x rec hx hfx).1, (trace_all_spec hwf hnn y rec hy hfy).1]
  constructor
  · rintro ⟨h1, h2⟩
    exact ⟨h1, Conn.trans (Conn.symm hc) h2⟩
  · rintro ⟨h1, h2⟩
    exact ⟨h1, Conn.trans hc h2⟩

/-- a hierarchical wire is in its own answer -/
theorem trace_all_self {d : Design} (hwf : WF d) (hnn : WFNet d) (x : HRef) (rec : Bool) (hx : IsHWire d x)
    (hfin : (getHWires d (.href x) rec .all).2 = true) : x ∈ (getHWires d (.href x) rec .all).1 :=
  ((trace_all_spec hwf hnn x rec (Or.inl hx) hfin).1 x).mpr ⟨hx, Conn.refl x⟩

/-- from a hierarchical cable / port: the union over its wires / pins -/
theorem trace_all_of_bundle {d : Design} (hwf : WF d) (hnn : WFNet d) (x : HRef) (rec : Bool)
    (hx : IsHCable d x ∨ IsHPort d x)
    (hfin : (getHWires d (.href x) rec .all).2 = true) (w : HRef) :
    w ∈ (getHWires d (.href x) rec .all).1 ↔ IsHWire d w ∧ ∃ y ∈ traceInit d x, Conn d y w := by
  rw [getHWires_href] at hfin ⊢
  simp only at hfin ⊢
  have hk : ∀ i, resolve d x ≠ some (.inst i) := by
    intro i
    rcases hx with ⟨C, ho⟩ | ⟨P, ho⟩ <;> rw [resolve_complete hwf ho] <;> simp
  have hv : resolve d x ≠ none := by
    rcases hx with ⟨C, ho⟩ | ⟨P, ho⟩ <;> rw [resolve_complete hwf ho] <;> simp
  rw [hwiresOfHRef_all d x rec hk hv] at hfin ⊢
  rw [mem_dedup, mem_traceAll hwf hnn _ hfin]

/-- the start nodes of a cable / port reference are its hierarchical wires / pins -/
theorem mem_traceInit_cable {d : Design} (hwf : WF d) {x : HRef} {C : Cable} (hx : Occ d x (.cable C)) (y : HRef) :
    y ∈ traceInit d x ↔ ∃ w ∈ C.wires, y = w.id :: x := by
  unfold traceInit
  rw [resolve_complete hwf hx]
  simp only [List.mem_map]
  constructor
  · rintro ⟨w, hw, rfl⟩; exact ⟨w, hw, rfl⟩
  · rintro ⟨w, hw, rfl⟩; exact ⟨w, hw, rfl⟩

theorem mem_traceInit_port {d : Design} (hwf : WF d) {x : HRef} {P : Port} (hx : Occ d x (.port P)) (y : HRef) :
    y ∈ traceInit d x ↔ ∃ q ∈ P.pins, y = q :: x := by
  unfold traceInit
  rw [resolve_complete hwf hx]
  simp only [List.mem_map]
  constructor
  · rintro ⟨w, hw, rfl⟩; exact ⟨w, hw, rfl⟩
  · rintro ⟨w, hw, rfl⟩; exact ⟨w, hw, rfl⟩

/-- `get_hcables(x, ALL)` is the image of `get_hwires(x, ALL)` under "cable of" -/
theorem hcables_all_image {d : Design} (hwf : WF d) (x : HRef) (rec : Bool)
    (hx : IsHWire d x ∨ IsHPin d x ∨ IsHCable d x ∨ IsHPort d x) (c : HRef) :
    c ∈ (getHCables d (.href x) rec .all).1 ↔ ∃ w ∈ (getHWires d (.href x) rec .all).1, c = w.tail := by
  have hk : ∀ i, resolve d x ≠ some (.inst i) := by
    intro i
    rcases hx with ⟨C, w', ho⟩ | ⟨P, q, ho⟩ | ⟨C, ho⟩ | ⟨P, ho⟩ <;> rw [resolve_complete hwf ho] <;> simp
  have : hcablesOfHRef d rec .all x = ((hwiresOfHRef d rec .all x).1.map List.tail, (hwiresOfHRef d rec .all x).2) := by
    unfold hcablesOfHRef
    cases h : resolve d x with
    | none => rfl
    | some e =>
      cases e with
      | inst i => exact absurd h (hk i)
      | _ => rfl
  simp only [getHCables, getHWires, hrefsOfItem, List.map_cons, List.map_nil, List.flatMap_cons, List.flatMap_nil,
    List.append_nil, this, mem_dedup, List.mem_map]
  constructor
  · rintro ⟨w, hw, rfl⟩; exact ⟨w, hw, rfl⟩
  · rintro ⟨w, hw, rfl⟩; exact ⟨w, hw, rfl⟩

/-! ### the narrow selections, on a hierarchical pin -/

theorem innerWire_iff {d : Design} (hwf : WF d) (hnn : WFNet d) {n : HRef} {P : Port} {q : Nat}
    (hn : Occ d n (.pin P q)) (m : HRef) :
    innerWire d n = some m ↔ Adj d n m ∧ m.tail.tail = n.tail.tail := by
  constructor
  · intro h
    refine ⟨adj_of_innerWire hwf hn h, ?_⟩
    obtain ⟨y, rfl, hy, hq⟩ := hn.pin_inv
    obtain ⟨p, i, r, D, rfl, hp, hr, hD, hP⟩ := hy.port_inv
    simp only [innerWire] at h
    split at h
    · split at h
      · split at h
        · cases h; rfl
        · cases h
      · cases h
    · cases h
  · rintro ⟨h, ht⟩
    cases h with
    | inside hp hr hD hP hq hC hw hin => exact innerWire_of_adj_inside hwf hnn hp hr hD hC hw hin
    | outside hp hr hD hc hr2 hD2 hP hq hC hw hin =>
      simp only [List.tail_cons] at ht
      have := congrArg List.length ht
      simp at this

theorem outerWire_iff {d : Design} (hwf : WF d) (hnn : WFNet d) {n : HRef} {P : Port} {q : Nat}
    (hn : Occ d n (.pin P q)) (m : HRef) :
    outerWire d n = some m ↔ Adj d n m ∧ m.tail.tail = n.tail.tail.tail ∧ n.tail.tail ≠ [] := by
  constructor
  · intro h
    refine ⟨adj_of_outerWire hwf hn h, ?_⟩
    obtain ⟨y, rfl, hy, hq⟩ := hn.pin_inv
    obtain ⟨p, i, r, D, rfl, hp, hr, hD, hP⟩ := hy.port_inv
    cases p with
    | nil => exact absurd rfl hp.ne_nil
    | cons c p' =>
      simp only [outerWire] at h
      split at h
      · split at h
        · split at h
          · cases h; exact ⟨rfl, by simp⟩
          · cases h
        · cases h
      · cases h
  · rintro ⟨h, ht, hne⟩
    cases h with
    | inside hp hr hD hP hq hC hw hin =>
      simp only [List.tail_cons] at ht hne
      exfalso
      rename_i p _ _ _ _ _ _ _
      cases p with
      | nil => exact hne rfl
      | cons a t =>
        have := congrArg List.length ht
        simp at this
    | outside hp hr hD hc hr2 hD2 hP hq hC hw hin => exact outerWire_of_adj_outside hwf hnn hp hr hD hC hw hin

/-- **C12, INSIDE / OUTSIDE of a hierarchical pin**: exactly the wire attached on that side
    (at most one), i.e. the `Adj`-neighbour living in the pin's own instance, resp. in the parent. -/
theorem inside_outside_spec {d : Design} (hwf : WF d) (hnn : WFNet d) (x : HRef) (rec : Bool) (hx : IsHPin d x) :
    (∀ w, w ∈ (getHWires d (.href x) rec .inside).1 ↔ Adj d x w ∧ w.tail.tail = x.tail.tail) ∧
    (∀ w, w ∈ (getHWires d (.href x) rec .outside).1 ↔
        Adj d x w ∧ w.tail.tail = x.tail.tail.tail ∧ x.tail.tail ≠ []) ∧
    (getHWires d (.href x) rec .inside).1.length ≤ 1 ∧ (getHWires d (.href x) rec .outside).1.length ≤ 1 ∧
    (getHWires d (.href x) rec .inside).2 = true ∧ (getHWires d (.href x) rec .outside).2 = true := by
  obtain ⟨P, q, ho⟩ := hx
  have hres := resolve_complete hwf ho
  have hi : hwiresOfHRef d rec .inside x = ((innerWire d x).toList, true) := by
    unfold hwiresOfHRef
    rw [hres]
    simp [wiresOfPinSel]
  have ho' : hwiresOfHRef d rec .outside x = ((outerWire d x).toList, true) := by
    unfold hwiresOfHRef
    rw [hres]
    simp [wiresOfPinSel]
  rw [getHWires_href, getHWires_href, hi, ho']
  refine ⟨fun w => ?_, fun w => ?_, ?_, ?_, rfl, rfl⟩
  · rw [mem_dedup, Option.mem_toList]
    exact innerWire_iff hwf hnn ho w
  · rw [mem_dedup, Option.mem_toList]
    exact outerWire_iff hwf hnn ho w
  · cases innerWire d x <;> simp [dedup]
  · cases outerWire d x <;> simp [dedup]

/-! ### pins of a hierarchical wire -/

theorem getHPins_href (d : Design) (x : HRef) (rec : Bool) :
    getHPins d (.href x) rec = (dedup (hpinsOfHRef d rec x), true) := by
  simp [getHPins, hrefsOfItem]

/-- **C12, pins of a hierarchical wire**: exactly the port pins and sub-instance pins attached. -/
theorem hpins_of_hwire_spec {d : Design} (hwf : WF d) (x : HRef) (rec : Bool) (hx : IsHWire d x) :
    (∀ n, n ∈ (getHPins d (.href x) rec).1 ↔ Adj d n x) ∧ (getHPins d (.href x) rec).1.Nodup ∧
    (getHPins d (.href x) rec).2 = true := by
  obtain ⟨C, w, ho⟩ := hx
  rw [getHPins_href]
  refine ⟨fun n => ?_, nodup_dedup _, rfl⟩
  simp only [mem_dedup, hpinsOfHRef, resolve_complete hwf ho]
  exact (adj_iff_wire hwf ho n).symm

/-- the attached pins are valid hierarchical pins (port pins of the wire's instance, or pins of a
    sub-instance one level down) -/
theorem hpins_of_hwire_valid {d : Design} (hwf : WF d) (x : HRef) (rec : Bool) (hx : IsHWire d x) (n : HRef)
    (hn : n ∈ (getHPins d (.href x) rec).1) :
    IsHPin d n ∧ (n.tail.tail = x.tail.tail ∨ n.tail.tail.tail = x.tail.tail) := by
  have h := ((hpins_of_hwire_spec hwf x rec hx).1 n).mp hn
  refine ⟨h.kinds.1, ?_⟩
  cases h with
  | inside => exact Or.inl rfl
  | outside => exact Or.inr rfl


/-! ### the closure always finishes (fuel sufficiency) -/

theorem traceInit_valid {d : Design} (hwf : WF d) (x : HRef) : ∀ y ∈ traceInit d x, IsHPin d y ∨ IsHWire d y := by
  intro y hy
  unfold traceInit at hy
  cases hres : resolve d x with
  | none => rw [hres] at hy; cases hy
  | some e =>
    rw [hres] at hy
    have ho := resolve_sound d x e hres
    cases e with
    | inst i => cases hy
    | port P =>
      obtain ⟨q, hq, rfl⟩ := List.mem_map.mp hy
      exact Or.inl ⟨P, q, Occ.pin ho hq⟩
    | pin P q =>
      simp only [List.mem_singleton] at hy
      subst hy
      exact Or.inl ⟨P, q, ho⟩
    | cable C =>
      obtain ⟨w, hw, rfl⟩ := List.mem_map.mp hy
      exact Or.inr ⟨C, w, Occ.wire ho hw⟩
    | wire C w =>
      simp only [List.mem_singleton] at hy
      subst hy
      exact Or.inr ⟨C, w, ho⟩

/-- **fuel sufficiency**: for an acyclic design, `get_hwires(x, ALL)` of the model always terminates
    with `finished = true`, from any valid hierarchical wire, pin, cable or port. -/
theorem trace_all_total {d : Design} (hwf : WF d) (hnn : WFNet d) (hs : Acyclic d) (x : HRef) (rec : Bool)
    (hx : IsHWire d x ∨ IsHPin d x ∨ IsHCable d x ∨ IsHPort d x) :
    (getHWires d (.href x) rec .all).2 = true := by
  rw [getHWires_href]
  simp only
  have hk : ∀ i, resolve d x ≠ some (.inst i) := by
    intro i
    rcases hx with ⟨C, w', ho⟩ | ⟨P, q, ho⟩ | ⟨C, ho⟩ | ⟨P, ho⟩ <;> rw [resolve_complete hwf ho] <;> simp
  have hv : resolve d x ≠ none := by
    rcases hx with ⟨C, w', ho⟩ | ⟨P, q, ho⟩ | ⟨C, ho⟩ | ⟨P, ho⟩ <;> rw [resolve_complete hwf ho] <;> simp
  rw [hwiresOfHRef_all d x rec hk hv]
  exact traceAll_finished hwf hnn hs _ (traceInit_valid hwf x)

/-- **C12, selection ALL, unconditional form** (no `finished` hypothesis). -/
theorem trace_all_spec_total {d : Design} (hwf : WF d) (hnn : WFNet d) (hs : Acyclic d) (x : HRef) (rec : Bool)
    (hx : IsHWire d x ∨ IsHPin d x) :
    (∀ w, w ∈ (getHWires d (.href x) rec .all).1 ↔ IsHWire d w ∧ Conn d x w) ∧
    (getHWires d (.href x) rec .all).1.Nodup ∧ (getHWires d (.href x) rec .all).2 = true := by
  have hfin := trace_all_total hwf hnn hs x rec (by rcases hx with h | h; exact Or.inl h; exact Or.inr (Or.inl h))
  obtain ⟨h1, h2⟩ := trace_all_spec hwf hnn x rec hx hfin
  exact ⟨h1, h2, hfin⟩

/-- members of one net give the same answer — unconditional form -/
theorem trace_same_answer_total {d : Design} (hwf : WF d) (hnn : WFNet d) (hs : Acyclic d) (x y : HRef) (rec : Bool)
    (hx : IsHWire d x ∨ IsHPin d x) (hy : IsHWire d y ∨ IsHPin d y) (hc : Conn d x y) (w : HRef) :
    w ∈ (getHWires d (.href x) rec .all).1 ↔ w ∈ (getHWires d (.href y) rec .all).1 :=
  trace_same_answer hwf hnn x y rec hx hy hc
    (trace_all_total hwf hnn hs x rec (by rcases hx with h | h; exact Or.inl h; exact Or.inr (Or.inl h)))
    (trace_all_total hwf hnn hs y rec (by rcases hy with h | h; exact Or.inl h; exact Or.inr (Or.inl h))) w

/-! ### every selection from every kind of start -/

/-- `get_hcables(x, sel)` is the image of `get_hwires(x, sel)` under "cable of", for every selection
    (for a cable start with INSIDE the answer is the cable itself: `queries_on_hcable` in C11) -/
theorem hcables_image {d : Design} (hwf : WF d) (x : HRef) (rec : Bool) (sel : Sel)
    (hx : IsHWire d x ∨ IsHPin d x ∨ IsHPort d x ∨ (IsHCable d x ∧ sel ≠ .inside)) (c : HRef) :
    c ∈ (getHCables d (.href x) rec sel).1 ↔ ∃ w ∈ (getHWires d (.href x) rec sel).1, c = w.tail := by
  have : hcablesOfHRef d rec sel x = ((hwiresOfHRef d rec sel x).1.map List.tail, (hwiresOfHRef d rec sel x).2) := by
    unfold hcablesOfHRef
    rcases hx with ⟨C, w', ho⟩ | ⟨P, q, ho⟩ | ⟨P, ho⟩ | ⟨⟨C, ho⟩, hne⟩ <;> rw [resolve_complete hwf ho]
    simp [hne]
  simp only [getHCables, getHWires, hrefsOfItem, List.map_cons, List.map_nil, List.flatMap_cons, List.flatMap_nil,
    List.append_nil, this, mem_dedup, List.mem_map]
  constructor
  · rintro ⟨w, hw, rfl⟩; exact ⟨w, hw, rfl⟩
  · rintro ⟨w, hw, rfl⟩; exact ⟨w, hw, rfl⟩

/-- BOTH on a hierarchical pin: the wires attached to it (inside and outside) -/
theorem both_of_pin_spec {d : Design} (hwf : WF d) (hnn : WFNet d) (x : HRef) (rec : Bool) (hx : IsHPin d x) (w : HRef) :
    w ∈ (getHWires d (.href x) rec .both).1 ↔ Adj d x w := by
  obtain ⟨P, q, ho⟩ := hx
  have hb : hwiresOfHRef d rec .both x = ((innerWire d x).toList ++ (outerWire d x).toList, true) := by
    unfold hwiresOfHRef
    rw [resolve_complete hwf ho]
    simp [wiresOfPinSel]
  rw [getHWires_href, hb, mem_dedup, List.mem_append, Option.mem_toList, Option.mem_toList, adj_iff_pin hwf hnn ho]

/-- the tag of `pinsOfWireT`: which side of the pin the wire is on -/
theorem pinsOfWireT_side {d : Design} (hwf : WF d) (hnn : WFNet d) {m : HRef} {C : Cable} {w : Wire}
    (hm : Occ d m (.wire C w)) (b : Bool) (n : HRef) (hmem : (b, n) ∈ pinsOfWireT d m) :
    (b = true → outerWire d n = some m) ∧ (b = false → innerWire d n = some m) := by
  obtain ⟨y, rfl, hy, hw⟩ := hm.wire_inv
  obtain ⟨p, i, r, D, rfl, hp, hr, hD, hC⟩ := hy.cable_inv
  simp only [pinsOfWireT, resolve_complete hwf hm, List.tail_cons, resolve_complete hwf hp,
    defOf_eq_some.mpr ⟨r, hr, hD⟩, List.mem_filterMap] at hmem
  obtain ⟨pr, hpr, he⟩ := hmem
  cases pr with
  | inner q =>
    simp only [hpinOfRef] at he
    split at he
    · rename_i P hP
      cases he
      refine ⟨fun h => (by cases h), fun _ => ?_⟩
      exact innerWire_of_adj_inside hwf hnn hp hr hD hC hw hpr
    · cases he
  | outer c q =>
    simp only [hpinOfRef] at he
    split at he
    · split at he
      · split at he
        · rename_i P hP
          cases he
          refine ⟨fun _ => ?_, fun h => (by cases h)⟩
          exact outerWire_of_adj_outside hwf hnn hp hr hD hC hw hpr
        · cases he
      · cases he
    · cases he

theorem inner_ne_outer {d : Design} (hwf : WF d) (hnn : WFNet d) {n a b : HRef} {P : Port} {q : Nat}
    (hn : Occ d n (.pin P q)) (ha : innerWire d n = some a) (hb : outerWire d n = some b) : a ≠ b := by
  intro he
  subst he
  obtain ⟨_, h1⟩ := (innerWire_iff hwf hnn hn a).mp ha
  obtain ⟨_, h2, h3⟩ := (outerWire_iff hwf hnn hn a).mp hb
  rw [h1] at h2
  cases hl : n.tail.tail with
  | nil => exact h3 hl
  | cons x t =>
    rw [hl] at h2
    have := congrArg List.length h2
    simp at this

/-- **OUTSIDE on a hierarchical wire**: the wires on the far side of its pins — across a port pin the
    wire in the parent, across a sub-instance pin the wire inside the sub-instance. -/
theorem outside_of_wire_spec {d : Design} (hwf : WF d) (hnn : WFNet d) (x : HRef) (rec : Bool) (hx : IsHWire d x) (w' : HRef) :
    w' ∈ (getHWires d (.href x) rec .outside).1 ↔ ∃ n, Adj d n x ∧ Adj d n w' ∧ w' ≠ x := by
  obtain ⟨C, w, ho⟩ := hx
  have hb : hwiresOfHRef d rec .outside x = (acrossWire d x, true) := by
    unfold hwiresOfHRef
    rw [resolve_complete hwf ho]
  rw [getHWires_href, hb, mem_dedup]
  unfold acrossWire
  rw [List.mem_flatMap]
  constructor
  · rintro ⟨⟨b, n⟩, hmem, hw'⟩
    have hn : n ∈ pinsOfWire d x := List.mem_map.mpr ⟨(b, n), hmem, rfl⟩
    have hadj : Adj d n x := (adj_iff_wire hwf ho n).mpr hn
    obtain ⟨P, q, hnp⟩ := hadj.kinds.1
    obtain ⟨s1, s2⟩ := pinsOfWireT_side hwf hnn ho b n hmem
    cases b with
    | true =>
      simp only [if_true, Option.mem_toList] at hw'
      exact ⟨n, hadj, (adj_iff_pin hwf hnn hnp w').mpr (Or.inl hw'), inner_ne_outer hwf hnn hnp hw' (s1 rfl)⟩
    | false =>
      simp only [Bool.false_eq_true, if_false, Option.mem_toList] at hw'
      exact ⟨n, hadj, (adj_iff_pin hwf hnn hnp w').mpr (Or.inr hw'), (inner_ne_outer hwf hnn hnp (s2 rfl) hw').symm⟩
  · rintro ⟨n, h1, h2, hne⟩
    have hn : n ∈ pinsOfWire d x := (adj_iff_wire hwf ho n).mp h1
    obtain ⟨⟨b, n'⟩, hmem, hnn'⟩ := List.mem_map.mp hn
    simp only at hnn'
    subst hnn'
    obtain ⟨P, q, hnp⟩ := h1.kinds.1
    obtain ⟨s1, s2⟩ := pinsOfWireT_side hwf hnn ho b n' hmem
    refine ⟨(b, n'), hmem, ?_⟩
    rcases (adj_iff_pin hwf hnn hnp w').mp h2 with hi | hou
    · cases b with
      | true => simpa using hi
      | false =>
        exfalso
        have := s2 rfl
        rw [this] at hi
        exact hne (Option.some.inj hi).symm
    · cases b with
      | true =>
        exfalso
        have := s1 rfl
        rw [this] at hou
        exact hne (Option.some.inj hou).symm
      | false => simpa using hou

/-- BOTH on a hierarchical wire: itself and every wire attached to one of its pins -/
theorem both_of_wire_spec {d : Design} (hwf : WF d) (hnn : WFNet d) (x : HRef) (rec : Bool) (hx : IsHWire d x) (w' : HRef) :
    w' ∈ (getHWires d (.href x) rec .both).1 ↔ w' = x ∨ ∃ n, Adj d n x ∧ Adj d n w' := by
  obtain ⟨C, w, ho⟩ := hx
  have hb : hwiresOfHRef d rec .both x = (x :: (pinsOfWire d x).flatMap (wiresOfPinSel d .both), true) := by
    unfold hwiresOfHRef
    rw [resolve_complete hwf ho]
  rw [getHWires_href, hb, mem_dedup, List.mem_cons, List.mem_flatMap]
  constructor
  · rintro (h | ⟨n, hn, hw'⟩)
    · exact Or.inl h
    · have hadj : Adj d n x := (adj_iff_wire hwf ho n).mpr hn
      obtain ⟨P, q, hnp⟩ := hadj.kinds.1
      simp only [wiresOfPinSel, List.mem_append, Option.mem_toList] at hw'
      exact Or.inr ⟨n, hadj, (adj_iff_pin hwf hnn hnp w').mpr hw'⟩
  · rintro (h | ⟨n, h1, h2⟩)
    · exact Or.inl h
    · obtain ⟨P, q, hnp⟩ := h1.kinds.1
      refine Or.inr ⟨n, (adj_iff_wire hwf ho n).mp h1, ?_⟩
      simp only [wiresOfPinSel, List.mem_append, Option.mem_toList]
      exact (adj_iff_pin hwf hnn hnp w').mp h2

/-- narrow selections on a hierarchical port: the union over its pins -/
theorem narrow_of_port_spec {d : Design} (hwf : WF d) (x : HRef) (rec : Bool) (sel : Sel) (hsel : sel ≠ .all)
    {P : Port} (hx : Occ d x (.port P)) (w : HRef) :
    w ∈ (getHWires d (.href x) rec sel).1 ↔ ∃ q ∈ P.pins, w ∈ (getHWires d (.href (q :: x)) rec sel).1 := by
  have hb : hwiresOfHRef d rec sel x = ((P.pins.map (fun q => q :: x)).flatMap (wiresOfPinSel d sel), true) := by
    unfold hwiresOfHRef
    rw [resolve_complete hwf hx]
    simp [hsel]
  have hp : ∀ q ∈ P.pins, hwiresOfHRef d rec sel (q :: x) = (wiresOfPinSel d sel (q :: x), true) := by
    intro q hq
    unfold hwiresOfHRef
    rw [resolve_complete hwf (Occ.pin hx hq)]
    simp [hsel]
  rw [getHWires_href, hb, mem_dedup, List.mem_flatMap]
  constructor
  · rintro ⟨n, hn, hw⟩
    obtain ⟨q, hq, rfl⟩ := List.mem_map.mp hn
    exact ⟨q, hq, by rw [getHWires_href, hp q hq, mem_dedup]; exact hw⟩
  · rintro ⟨q, hq, hw⟩
    rw [getHWires_href, hp q hq, mem_dedup] at hw
    exact ⟨q :: x, List.mem_map.mpr ⟨q, hq, rfl⟩, hw⟩

/-- OUTSIDE / BOTH / INSIDE on a hierarchical cable: the union over its wires -/
theorem narrow_of_cable_spec {d : Design} (hwf : WF d) (x : HRef) (rec : Bool) (sel : Sel) (hsel : sel ≠ .all)
    {C : Cable} (hx : Occ d x (.cable C)) (w' : HRef) :
    w' ∈ (getHWires d (.href x) rec sel).1 ↔ ∃ w ∈ C.wires, w' ∈ (getHWires d (.href (w.id :: x)) rec sel).1 := by
  have hw : ∀ w ∈ C.wires, resolve d (w.id :: x) = some (.wire C w) := fun w hw => resolve_complete hwf (Occ.wire hx hw)
  rw [getHWires_href]
  unfold hwiresOfHRef
  rw [resolve_complete hwf hx]
  cases sel with
  | all => exact absurd rfl hsel
  | inside =>
    simp only [mem_dedup, List.mem_map]
    constructor
    · rintro ⟨w, hwm, rfl⟩
      exact ⟨w, hwm, by rw [getHWires_href]; unfold hwiresOfHRef; rw [hw w hwm]; simp [dedup]⟩
    · rintro ⟨w, hwm, h⟩
      rw [getHWires_href] at h
      unfold hwiresOfHRef at h
      rw [hw w hwm] at h
      simp [dedup] at h
      exact ⟨w, hwm, h.symm⟩
  | outside =>
    simp only [mem_dedup, List.mem_flatMap, List.mem_map]
    constructor
    · rintro ⟨n, ⟨w, hwm, rfl⟩, h⟩
      exact ⟨w, hwm, by rw [getHWires_href]; unfold hwiresOfHRef; rw [hw w hwm]; simpa [mem_dedup] using h⟩
    · rintro ⟨w, hwm, h⟩
      rw [getHWires_href] at h
      unfold hwiresOfHRef at h
      rw [hw w hwm] at h
      exact ⟨w.id :: x, ⟨w, hwm, rfl⟩, by simpa [mem_dedup] using h⟩
  | both =>
    simp only [mem_dedup, List.mem_flatMap, List.mem_map]
    constructor
    · rintro ⟨n, ⟨w, hwm, rfl⟩, h⟩
      exact ⟨w, hwm, by rw [getHWires_href]; unfold hwiresOfHRef; rw [hw w hwm]; simpa [mem_dedup] using h⟩
    · rintro ⟨w, hwm, h⟩
      rw [getHWires_href] at h
      unfold hwiresOfHRef at h
      rw [hw w hwm] at h
      exact ⟨w.id :: x, ⟨w, hwm, rfl⟩, by simpa [mem_dedup] using h⟩


/-! ### non-vacuity: the hypotheses hold on a concrete three-level design with a shared definition,
    and the statements have content there (the start wire touches only instance pins — the shape on
    which the pinned commit's `get_hwires(…, ALL)` stops early) -/

example : WF exD := by decide
example : WFNet exD := by decide
example : Sorted exD := by decide
example : IsHWire exD [11, 10, 12] := (isWireRef_iff (by decide) _).mp (by decide)
example : (getHWires exD (.href [11, 10, 12]) false .all).2 = true := by decide
example : (getHWires exD (.href [11, 10, 12]) false .all).1 = [[7, 6, 9, 12], [7, 6, 8, 12], [11, 10, 12]] := by decide
/-- the two occurrences of `mid`'s wire are connected through the top wire -/
example : Conn exD [7, 6, 8, 12] [7, 6, 9, 12] := by
  have hx : IsHWire exD [11, 10, 12] := (isWireRef_iff (by decide) _).mp (by decide)
  have h := (trace_all_spec (by decide : WF exD) (by decide) [11, 10, 12] false (Or.inl hx) (by decide)).1
  exact Conn.trans (Conn.symm ((h [7, 6, 8, 12]).mp (by decide)).2) ((h [7, 6, 9, 12]).mp (by decide)).2
example : IsHPin exD [4, 3, 8, 12] := (isPinRef_iff (by decide) _).mp (by decide)
example : (getHWires exD (.href [4, 3, 8, 12]) false .inside).1 = [[7, 6, 8, 12]] := by decide
example : (getHWires exD (.href [4, 3, 8, 12]) false .outside).1 = [[11, 10, 12]] := by decide
example : (getHPins exD (.href [11, 10, 12]) false).1 = [[4, 3, 8, 12], [4, 3, 9, 12]] := by decide
/-- an unconnected side: the top-level port pin 15 has no wire on either side -/
example : (getHWires exD (.href [15, 13, 12]) false .all).1 = [] := by decide

end Spydr.Hier
