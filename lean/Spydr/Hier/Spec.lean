/-
  Engine `hier` — specification side (C11, C12).  Written without reference to the algorithms of
  Model.lean: only the data types are shared.  No Mathlib.

  * `Occ d h e`    : `h` is an occurrence of element `e` in the elaborated design (inductive).
  * `Adj d p w`    : hierarchical pin `p` is attached to hierarchical wire `w` (from the inside /
                     from the outside of the instance boundary).
  * `Conn d`       : equivalence closure of `Adj` — "electrically connected".
  * `WF d`, `Sorted d` : decidable hypotheses of the theorems (identities are unique; definitions are
                     presented in a topological order, which exists iff the hierarchy is acyclic).
-/
import Spydr.Hier.Model

namespace Spydr.Hier

/-! ## Occurrences in the elaborated design -/

inductive Occ (d : Design) : HRef → Elem → Prop
  /-- the top instance: `top.reference.library.netlist.top_instance is top` -/
  | top {t : Inst} {r : Nat} {D : Defn} :
      d.top = some t → t.ref = some r → d.defs[r]? = some D → D.inNl = true →
      Occ d [t.id] (.inst t)
  /-- a child of the definition of a hierarchical instance -/
  | child {p : HRef} {i c : Inst} {r : Nat} {D : Defn} :
      Occ d p (.inst i) → i.ref = some r → d.defs[r]? = some D → c ∈ D.children →
      Occ d (c.id :: p) (.inst c)
  | port {p : HRef} {i : Inst} {r : Nat} {D : Defn} {P : Port} :
      Occ d p (.inst i) → i.ref = some r → d.defs[r]? = some D → P ∈ D.ports →
      Occ d (P.id :: p) (.port P)
  | pin {h : HRef} {P : Port} {q : Nat} :
      Occ d h (.port P) → q ∈ P.pins → Occ d (q :: h) (.pin P q)
  | cable {p : HRef} {i : Inst} {r : Nat} {D : Defn} {C : Cable} :
      Occ d p (.inst i) → i.ref = some r → d.defs[r]? = some D → C ∈ D.cables →
      Occ d (C.id :: p) (.cable C)
  | wire {h : HRef} {C : Cable} {w : Wire} :
      Occ d h (.cable C) → w ∈ C.wires → Occ d (w.id :: h) (.wire C w)

/-- "is an occurrence" -/
def ValidPath (d : Design) (h : HRef) : Prop := ∃ e, Occ d h e

def IsHInst (d : Design) (h : HRef) : Prop := ∃ i, Occ d h (.inst i)
def IsHPort (d : Design) (h : HRef) : Prop := ∃ P, Occ d h (.port P)
def IsHPin (d : Design) (h : HRef) : Prop := ∃ P q, Occ d h (.pin P q)
def IsHCable (d : Design) (h : HRef) : Prop := ∃ C, Occ d h (.cable C)
def IsHWire (d : Design) (h : HRef) : Prop := ∃ C w, Occ d h (.wire C w)

/-- `h` lies in the hierarchical instance `p` (`rec = false`: directly; `true`: at any depth):
    `ip` is the instance part of `h`. -/
def Within (p : HRef) (rec : Bool) (ip : HRef) : Prop := ip = p ∨ (rec = true ∧ p <:+ ip)

/-! ## Names -/

/-- names of the instances strictly below the top along an instance path, top-most first -/
inductive InstNames (d : Design) : HRef → List String → Prop
  | top {t : Inst} : Occ d [t.id] (.inst t) → InstNames d [t.id] []
  | child {p : HRef} {c : Inst} {ns : List String} :
      InstNames d p ns → Occ d (c.id :: p) (.inst c) → InstNames d (c.id :: p) (ns ++ [c.name])

/-! ## Connectivity -/

/-- `Adj d p w`: hierarchical pin `p` is on hierarchical wire `w`. -/
inductive Adj (d : Design) : HRef → HRef → Prop
  /-- the wire inside the instance, attached to the port's inner pin -/
  | inside {p : HRef} {i : Inst} {r : Nat} {D : Defn} {P : Port} {q : Nat} {C : Cable} {w : Wire} :
      Occ d p (.inst i) → i.ref = some r → d.defs[r]? = some D →
      P ∈ D.ports → q ∈ P.pins → C ∈ D.cables → w ∈ C.wires → PinRef.inner q ∈ w.pins →
      Adj d (q :: P.id :: p) (w.id :: C.id :: p)
  /-- the wire outside the sub-instance `c`, attached to `c`'s outer pin for `q` -/
  | outside {p : HRef} {i c : Inst} {r r2 : Nat} {D D2 : Defn} {P : Port} {q : Nat} {C : Cable} {w : Wire} :
      Occ d p (.inst i) → i.ref = some r → d.defs[r]? = some D →
      c ∈ D.children → c.ref = some r2 → d.defs[r2]? = some D2 →
      P ∈ D2.ports → q ∈ P.pins → C ∈ D.cables → w ∈ C.wires → PinRef.outer c.id q ∈ w.pins →
      Adj d (q :: P.id :: c.id :: p) (w.id :: C.id :: p)

/-- one hop in either direction -/
def Link (d : Design) (a b : HRef) : Prop := Adj d a b ∨ Adj d b a

/-- electrically connected: the equivalence closure of `Adj` -/
inductive Conn (d : Design) : HRef → HRef → Prop
  | refl (a : HRef) : Conn d a a
  | adj {a b : HRef} : Adj d a b → Conn d a b
  | symm {a b : HRef} : Conn d a b → Conn d b a
  | trans {a b c : HRef} : Conn d a b → Conn d b c → Conn d a c

/-! ## Decidable hypotheses -/

def Defn.LocalWF (D : Defn) : Prop :=
  (D.children.map (·.id) ++ (D.ports.map (·.id) ++ D.cables.map (·.id))).Nodup ∧
  (D.ports.flatMap (·.pins)).Nodup ∧
  (D.cables.flatMap (fun C => C.wires.map (·.id))).Nodup

instance (D : Defn) : Decidable D.LocalWF := by unfold Defn.LocalWF; infer_instance

/-- a pin reference on a wire of `D` names a pin of a port of `D`, or a child of `D` and a pin of a
    port of that child's definition -/
def pinRefOk (d : Design) (D : Defn) : PinRef → Bool
  | .inner q => D.ports.any (fun P => decide (q ∈ P.pins))
  | .outer c q =>
    D.children.any (fun ci => ci.id == c &&
      (match ci.ref with
       | some r2 =>
         (match d.defs[r2]? with
          | some D2 => D2.ports.any (fun P => decide (q ∈ P.pins))
          | none => false)
       | none => false))

def topIds (d : Design) : List Nat :=
  match d.top with
  | some t => [t.id]
  | none => []

def allChildren (d : Design) : List Inst := d.defs.flatMap (·.children)

/-- Well-formedness of the dumped value, identity part: identities are unique per kind (one Python
    object = one identity, each element listed once by its owner). -/
def WF (d : Design) : Prop :=
  (∀ D ∈ d.defs, D.LocalWF) ∧
  (topIds d ++ (allChildren d).map (·.id)).Nodup ∧
  (d.defs.flatMap (fun D => D.ports.map (·.id))).Nodup ∧
  (d.defs.flatMap (fun D => D.ports.flatMap (·.pins))).Nodup ∧
  (d.defs.flatMap (fun D => D.cables.map (·.id))).Nodup ∧
  (d.defs.flatMap (fun D => D.cables.flatMap (fun C => C.wires.map (·.id)))).Nodup

instance (d : Design) : Decidable (WF d) := by unfold WF; infer_instance

def wfCheck (d : Design) : Bool := decide (WF d)

/-- Well-formedness, connection part (C01/C02 for wires): inside one definition each pin reference is
    on at most one wire, once, and every pin reference on a wire is well-scoped. -/
def WFNet (d : Design) : Prop :=
  (∀ D ∈ d.defs, (D.cables.flatMap (fun C => C.wires.flatMap (·.pins))).Nodup) ∧
  (∀ D ∈ d.defs, ∀ C ∈ D.cables, ∀ w ∈ C.wires, ∀ r ∈ w.pins, pinRefOk d D r = true)

instance (d : Design) : Decidable (WFNet d) := by unfold WFNet; infer_instance

def wfNetCheck (d : Design) : Bool := decide (WFNet d)

/-- children reference definitions of strictly smaller index (a topological presentation) -/
def sortedCheck (d : Design) : Bool :=
  d.defs.zipIdx.all (fun Dk => Dk.1.children.all (fun c =>
    match c.ref with
    | some r => decide (r < Dk.2)
    | none => true))

/-- `Acyclic`: the definitions are listed in a topological order of "instantiates".  Every acyclic
    netlist has such a presentation (the harness dumps in that order); a cyclic one has none. -/
def Sorted (d : Design) : Prop := sortedCheck d = true

instance (d : Design) : Decidable (Sorted d) := by unfold Sorted; infer_instance

abbrev Acyclic (d : Design) : Prop := Sorted d

end Spydr.Hier
