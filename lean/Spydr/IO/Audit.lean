import Spydr.IO.Props.C15
#print axioms Spydr.IO.read_policy_restored
#print axioms Spydr.IO.read_outcome
#print axioms Spydr.IO.unrepaired_leaks
#print axioms Spydr.IO.run_policy_invariant
#print axioms Spydr.IO.trajectory_constant
#print axioms Spydr.IO.fresh_process
#print axioms Spydr.IO.parses_invisible
