import Spydr.IO.Props.C15
import Spydr.IO.Props.C15Resolve
import Spydr.IO.Props.C15Readers
import Spydr.IO.Props.C16
#print axioms Spydr.IO.read_policy_restored
#print axioms Spydr.IO.read_outcome
#print axioms Spydr.IO.unrepaired_leaks
#print axioms Spydr.IO.run_policy_invariant
#print axioms Spydr.IO.trajectory_constant
#print axioms Spydr.IO.fresh_process
#print axioms Spydr.IO.parses_invisible
#print axioms Spydr.IO.toposort_ok
#print axioms Spydr.IO.toposort_fixpoint
#print axioms Spydr.IO.toposort_idem
#print axioms Spydr.IO.toposort_fuel_irrelevant
#print axioms Spydr.IO.topoOrderB_iff
#print axioms Spydr.IO.edifify_documented_only
#print axioms Spydr.IO.edifify_idem
#print axioms Spydr.IO.compose_repeatable
#print axioms Spydr.IO.pure_writer_unchanged
#print axioms Spydr.IO.docEqB_sound
#print axioms Spydr.IO.resolved_declared
#print axioms Spydr.IO.resolve_complete
#print axioms Spydr.IO.dangling_rejected
#print axioms Spydr.IO.toposort_finishes
#print axioms Spydr.IO.toposort_total
#print axioms Spydr.IO.edifify_finishes
#print axioms Spydr.IO.read_policy_restored_switching
#print axioms Spydr.IO.out_of_scope_rejected
#print axioms Spydr.IO.wellScoped_accepted
#print axioms Spydr.IO.resolve_iff_wellScoped
#print axioms Spydr.IO.resolution_unique
#print axioms Spydr.IO.edifify_keeps_existing
#print axioms Spydr.IO.c15_edif_accepts_wellformed
#print axioms Spydr.IO.c15_edif_all_instances_referenced
#print axioms Spydr.IO.c15_edif_names_everything
#print axioms Spydr.IO.c15_verilog_accepts_wellformed
#print axioms Spydr.IO.c15_eblif_pin_mirror
#print axioms Spydr.IO.c15_eblif_self_contained
