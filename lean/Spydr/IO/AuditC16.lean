/- audit of the C16 theorems only: the C16 check does not depend on the format engines' modules
   (Spydr/IO/Audit.lean audits everything, including the C15 restatements that import them) -/
import Spydr.IO.Props.C16
#print axioms Spydr.IO.toposort_ok
#print axioms Spydr.IO.toposort_fixpoint
#print axioms Spydr.IO.toposort_idem
#print axioms Spydr.IO.toposort_fuel_irrelevant
#print axioms Spydr.IO.topoOrderB_iff
#print axioms Spydr.IO.edifify_documented_only
#print axioms Spydr.IO.edifify_idem
#print axioms Spydr.IO.compose_repeatable
#print axioms Spydr.IO.pure_writer_unchanged
#print axioms Spydr.IO.docEqB_sound
#print axioms Spydr.IO.toposort_finishes
#print axioms Spydr.IO.toposort_total
#print axioms Spydr.IO.edifify_finishes
#print axioms Spydr.IO.edifify_keeps_existing
