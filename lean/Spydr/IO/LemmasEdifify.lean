/-
  C16 — lemmas about the pre-pass: what `nameElem`/`seqMap`/`reorder` preserve.
-/
import Spydr.IO.SpecEdifify
import Spydr.IO.LemmasTopo
namespace Spydr.IO
open Topo

/-! ### dictionaries -/

theorem filter_map_set (d : Data) (k v : String) (hk : isIdKey k = true) :
    (d.map (fun kv => if kv.1 == k then (k, v) else kv)).filter (fun kv => !isIdKey kv.1) =
      d.filter (fun kv => !isIdKey kv.1) := by
  induction d with
  | nil => rfl
  | cons kv r ih =>
    by_cases h : kv.1 == k
    · have hkv : kv.1 = k := by simpa using h
      have h1 : isIdKey kv.1 = true := by rw [hkv]; exact hk
      simp only [List.map_cons, h, if_true, List.filter_cons, hk, h1, Bool.not_true]
      simpa using ih
    · simp only [List.map_cons, h, List.filter_cons]
      rw [ih]
      simp

theorem stripData_dataSet (d : Data) (k v : String) (hk : isIdKey k = true) :
    stripData (dataSet d k v) = stripData d := by
  unfold dataSet
  split
  · exact filter_map_set d k v hk
  · simp [stripData, List.filter_append, hk]

theorem dataHas_dataSet_self (d : Data) (k v : String) : dataHas (dataSet d k v) k = true := by
  unfold dataSet
  split
  · rename_i h
    simp only [dataHas, List.any_eq_true] at h ⊢
    obtain ⟨kv, hm, hk⟩ := h
    refine ⟨(k, v), ?_, by simp⟩
    simp only [List.mem_map]
    exact ⟨kv, hm, by simp [hk]⟩
  · simp [dataHas]

theorem dataHas_dataSet_other (d : Data) (k v k' : String) (h : dataHas d k' = true) :
    dataHas (dataSet d k v) k' = true := by
  unfold dataSet
  split
  · simp only [dataHas, List.any_eq_true] at h ⊢
    obtain ⟨kv, hm, hk⟩ := h
    by_cases hkk : kv.1 == k
    · refine ⟨(k, v), List.mem_map.mpr ⟨kv, hm, by simp [hkk]⟩, ?_⟩
      have : kv.1 = k := by simpa using hkk
      simpa [this] using hk
    · exact ⟨kv, List.mem_map.mpr ⟨kv, hm, by simp [hkk]⟩, hk⟩
  · simp only [dataHas, List.any_append, Bool.or_eq_true]
    exact Or.inl h

/-! ### `_add_rename_property` -/

def namedElem (e : Elem) : Prop := dataHas e.data "EDIF.identifier" = true

theorem nameElem_strip (mkId : MkId) (e : Elem) (sibs : List Elem) :
    stripElem (nameElem mkId e sibs) = stripElem e := by
  unfold nameElem
  split
  · rfl
  · simp only [stripElem]
    split
    · rw [stripData_dataSet _ _ _ (by decide), stripData_dataSet _ _ _ (by decide)]
    · rw [stripData_dataSet _ _ _ (by decide)]

theorem nameElem_named (mkId : MkId) (e : Elem) (sibs : List Elem) : namedElem (nameElem mkId e sibs) := by
  unfold nameElem namedElem
  split
  · assumption
  · simp only
    split
    · exact dataHas_dataSet_other _ _ _ _ (dataHas_dataSet_self _ _ _)
    · exact dataHas_dataSet_self _ _ _

theorem nameElem_of_named (mkId : MkId) (e : Elem) (sibs : List Elem) (h : namedElem e) :
    nameElem mkId e sibs = e := by
  unfold namedElem at h; unfold nameElem; rw [if_pos h]

/-! ### sequential rewriting loops -/

section seq
variable {β γ : Type}

theorem seqMap_map (f : List β → β → List β → β) (g : β → γ)
    (h : ∀ done e rest, g (f done e rest) = g e) (done todo : List β) :
    (seqMap f done todo).map g = done.map g ++ todo.map g := by
  induction todo generalizing done with
  | nil => simp [seqMap]
  | cons e r ih => simp [seqMap, ih, h]

theorem seqMap_id (f : List β → β → List β → β) (todo : List β)
    (h : ∀ e ∈ todo, ∀ done rest, f done e rest = e) (done : List β) :
    seqMap f done todo = done ++ todo := by
  induction todo generalizing done with
  | nil => simp [seqMap]
  | cons e r ih =>
    simp only [seqMap]
    rw [h e (by simp), ih (fun e he => h e (List.mem_cons_of_mem _ he))]
    simp

theorem seqMap_forall (P : β → Prop) (f : List β → β → List β → β)
    (h : ∀ done e rest, P e → P (f done e rest)) (done todo : List β)
    (hd : ∀ x ∈ done, P x) (ht : ∀ x ∈ todo, P x) : ∀ x ∈ seqMap f done todo, P x := by
  induction todo generalizing done with
  | nil => simpa [seqMap] using hd
  | cons e r ih =>
    simp only [seqMap]
    apply ih
    · intro x hx
      rcases List.mem_append.mp hx with hx | hx
      · exact hd x hx
      · simp at hx; subst hx; exact h _ _ _ (ht e (by simp))
    · intro x hx; exact ht x (List.mem_cons_of_mem _ hx)

theorem seqMap_forall' (P : β → Prop) (f : List β → β → List β → β)
    (h : ∀ done e rest, P (f done e rest)) (todo : List β) : ∀ x ∈ seqMap f [] todo, P x := by
  have : ∀ done : List β, (∀ x ∈ done, P x) → ∀ x ∈ seqMap f done todo, P x := by
    induction todo with
    | nil => intro done hd; simpa [seqMap] using hd
    | cons e r ih =>
      intro done hd
      simp only [seqMap]
      apply ih
      intro x hx
      rcases List.mem_append.mp hx with hx | hx
      · exact hd x hx
      · simp at hx; subst hx; exact h _ _ _
  exact this [] (by simp)

end seq

theorem nameList_strip (mkId : MkId) (l : List Elem) : (nameList mkId l).map stripElem = l.map stripElem := by
  unfold nameList
  rw [seqMap_map _ stripElem (fun done e rest => nameElem_strip mkId e _)]
  simp

theorem nameList_named (mkId : MkId) (l : List Elem) : ∀ e ∈ nameList mkId l, namedElem e :=
  seqMap_forall' namedElem _ (fun _ _ _ => nameElem_named mkId _ _) l

theorem nameList_of_named (mkId : MkId) (l : List Elem) (h : ∀ e ∈ l, namedElem e) : nameList mkId l = l := by
  unfold nameList
  rw [seqMap_id _ l (fun e he done rest => nameElem_of_named mkId e _ (h e he))]
  simp

/-! ### cells and libraries -/

structure namedDef (d : EDef) : Prop where
  self : namedElem d.self
  ports : ∀ e ∈ d.ports, namedElem e
  cables : ∀ e ∈ d.cables, namedElem e
  insts : ∀ e ∈ d.insts, namedElem e

structure namedLib (l : ELib) : Prop where
  self : namedElem l.self
  defs : ∀ d ∈ l.defs, namedDef d

theorem nameDef_strip (mkId : MkId) (done : List EDef) (d : EDef) (rest : List EDef) :
    stripDef (nameDef mkId done d rest) = stripDef d := by
  simp [stripDef, nameDef, nameElem_strip, nameList_strip]

theorem nameDef_id (mkId : MkId) (done : List EDef) (d : EDef) (rest : List EDef) :
    (nameDef mkId done d rest).id = d.id := rfl

theorem nameDef_named (mkId : MkId) (done : List EDef) (d : EDef) (rest : List EDef) :
    namedDef (nameDef mkId done d rest) :=
  ⟨nameElem_named _ _ _, nameList_named _ _, nameList_named _ _, nameList_named _ _⟩

theorem nameDef_of_named (mkId : MkId) (done : List EDef) (d : EDef) (rest : List EDef) (h : namedDef d) :
    nameDef mkId done d rest = d := by
  obtain ⟨id, self, ports, cables, insts⟩ := d
  simp only [nameDef]
  rw [nameElem_of_named _ _ _ h.self, nameList_of_named _ _ h.ports, nameList_of_named _ _ h.cables,
    nameList_of_named _ _ h.insts]

theorem nameLib_strip (mkId : MkId) (done : List ELib) (l : ELib) (rest : List ELib) :
    stripLib (nameLib mkId done l rest) = stripLib l := by
  simp only [stripLib, nameLib, nameElem_strip]
  rw [seqMap_map _ stripDef (nameDef_strip mkId)]
  simp

theorem nameLib_id (mkId : MkId) (done : List ELib) (l : ELib) (rest : List ELib) :
    (nameLib mkId done l rest).id = l.id := rfl

theorem nameLib_defIds (mkId : MkId) (done : List ELib) (l : ELib) (rest : List ELib) :
    (nameLib mkId done l rest).defs.map (·.id) = l.defs.map (·.id) := by
  have := seqMap_map (nameDef mkId) (fun d : EDef => d.id) (nameDef_id mkId) [] l.defs
  simpa [nameLib] using this

theorem nameLib_named (mkId : MkId) (done : List ELib) (l : ELib) (rest : List ELib) :
    namedLib (nameLib mkId done l rest) :=
  ⟨nameElem_named _ _ _, seqMap_forall' namedDef _ (nameDef_named mkId) _⟩

theorem nameLib_of_named (mkId : MkId) (done : List ELib) (l : ELib) (rest : List ELib) (h : namedLib l) :
    nameLib mkId done l rest = l := by
  obtain ⟨id, self, defs⟩ := l
  simp only [nameLib]
  rw [nameElem_of_named _ _ _ h.self,
    seqMap_id _ defs (fun d hd done rest => nameDef_of_named mkId done d rest (h.defs d hd))]
  simp

/-! ### `reorder` -/

section reorder
variable {β : Type}

theorem inj_of_nodup_map (idOf : β → Nat) (objs : List β) (h : (objs.map idOf).Nodup) :
    ∀ x ∈ objs, ∀ y ∈ objs, idOf x = idOf y → x = y := by
  induction objs with
  | nil => intro x hx; simp at hx
  | cons a r ih =>
    simp only [List.map_cons, List.nodup_cons, List.mem_map, not_exists, not_and] at h
    intro x hx y hy hxy
    rcases List.mem_cons.mp hx with hxa | hx' <;> rcases List.mem_cons.mp hy with hya | hy'
    · rw [hxa, hya]
    · rw [hxa] at hxy; exact absurd hxy.symm (h.1 y hy')
    · rw [hya] at hxy; exact absurd hxy (h.1 x hx')
    · exact ih h.2 x hx' y hy' hxy

theorem nodup_of_map (f : β → Nat) (l : List β) (h : (l.map f).Nodup) : l.Nodup := by
  induction l with
  | nil => exact List.nodup_nil
  | cons a r ih =>
    simp only [List.map_cons, List.nodup_cons, List.mem_map, not_exists, not_and] at h
    rw [List.nodup_cons]
    exact ⟨fun ha => h.1 a ha rfl, ih h.2⟩

theorem find_id (idOf : β → Nat) (objs : List β) (h : (objs.map idOf).Nodup) (x : β) (hx : x ∈ objs) :
    objs.find? (fun o => idOf o == idOf x) = some x := by
  cases hf : objs.find? (fun o => idOf o == idOf x) with
  | none =>
    have := List.find?_eq_none.mp hf x hx
    simp at this
  | some y =>
    have hy := List.mem_of_find?_eq_some hf
    have hp := List.find?_some hf
    have : idOf y = idOf x := by simpa using hp
    rw [inj_of_nodup_map idOf objs h y hy x hx this]

theorem reorder_map_ids (idOf : β → Nat) (objs : List β) (h : (objs.map idOf).Nodup) (l : List β)
    (hl : ∀ x ∈ l, x ∈ objs) : reorder idOf (l.map idOf) objs = l := by
  induction l with
  | nil => rfl
  | cons a r ih =>
    have ha := find_id idOf objs h a (hl a (by simp))
    have ih' := ih (fun x hx => hl x (List.mem_cons_of_mem _ hx))
    unfold reorder at ih' ⊢
    simp [ha, ih']

theorem reorder_self (idOf : β → Nat) (objs : List β) (h : (objs.map idOf).Nodup) :
    reorder idOf (objs.map idOf) objs = objs :=
  reorder_map_ids idOf objs h objs (fun _ hx => hx)

theorem mem_reorder (idOf : β → Nat) (ids : List Nat) (objs : List β) (x : β)
    (hx : x ∈ reorder idOf ids objs) : x ∈ objs ∧ idOf x ∈ ids := by
  simp only [reorder, List.mem_filterMap] at hx
  obtain ⟨i, hi, hf⟩ := hx
  have hp := List.find?_some hf
  have : idOf x = i := by simpa using hp
  exact ⟨List.mem_of_find?_eq_some hf, this ▸ hi⟩

theorem reorder_ids (idOf : β → Nat) (ids : List Nat) (objs : List β)
    (hsub : ∀ i ∈ ids, i ∈ objs.map idOf) : (reorder idOf ids objs).map idOf = ids := by
  induction ids with
  | nil => rfl
  | cons i r ih =>
    have hi := hsub i (by simp)
    obtain ⟨x, hx, hxi⟩ := List.mem_map.mp hi
    have ih' := ih (fun j hj => hsub j (List.mem_cons_of_mem _ hj))
    cases hf : objs.find? (fun o => idOf o == i) with
    | none =>
      have := List.find?_eq_none.mp hf x hx
      simp [hxi] at this
    | some y =>
      have hp := List.find?_some hf
      have hy : idOf y = i := by simpa using hp
      unfold reorder at ih' ⊢
      simp [hf, hy, ih']

theorem reorder_perm (idOf : β → Nat) (ids : List Nat) (objs : List β)
    (h : (objs.map idOf).Nodup) (hp : ids.Perm (objs.map idOf)) : (reorder idOf ids objs).Perm objs := by
  have hids : (reorder idOf ids objs).map idOf = ids :=
    reorder_ids idOf ids objs (fun i hi => hp.mem_iff.mp hi)
  have hnd1 : (reorder idOf ids objs).Nodup := by
    have : ((reorder idOf ids objs).map idOf).Nodup := by rw [hids]; exact hp.nodup_iff.mpr h
    exact nodup_of_map idOf _ this
  have hnd2 : objs.Nodup := nodup_of_map idOf _ h
  apply (List.perm_ext_iff_of_nodup hnd1 hnd2).mpr
  intro a
  constructor
  · intro ha; exact (mem_reorder idOf ids objs a ha).1
  · intro ha
    have hf := find_id idOf objs h a ha
    simp only [reorder, List.mem_filterMap]
    exact ⟨idOf a, hp.mem_iff.mpr (List.mem_map.mpr ⟨a, ha, rfl⟩), hf⟩

end reorder

end Spydr.IO
