/-
  C16 — the pre-pass changes only what is documented; a pre-passed netlist is a fixpoint.
-/
import Spydr.IO.LemmasEdifify
namespace Spydr.IO
open Topo

/-- hypotheses on the netlist and the oracles: identities are distinct, dependency sets stay inside
    the netlist (self-contained) and nothing depends on itself -/
structure EdifHyp (depL : Nat → List Nat) (depD : Nat → Nat → List Nat) (n : ENet) : Prop where
  libIds : (n.libs.map (·.id)).Nodup
  libNoSelf : NoSelf depL
  libClosed : Closed depL (n.libs.map (·.id))
  defIds : ∀ l ∈ n.libs, (l.defs.map (·.id)).Nodup
  defNoSelf : ∀ l ∈ n.libs, NoSelf (depD l.id)
  defClosed : ∀ l ∈ n.libs, Closed (depD l.id) (l.defs.map (·.id))

/-- what the pre-pass establishes, and what makes a netlist a fixpoint of it -/
structure PrePassed (depL : Nat → List Nat) (depD : Nat → Nat → List Nat) (n : ENet) : Prop where
  hasName : n.name.isSome
  nlNamed : dataHas n.data "EDIF.identifier" = true
  topNamed : namedElem n.top
  libsNamed : ∀ l ∈ n.libs, namedLib l
  libIds : (n.libs.map (·.id)).Nodup
  libOrder : DepOrdered depL (n.libs.map (·.id))
  defIds : ∀ l ∈ n.libs, (l.defs.map (·.id)).Nodup
  defOrder : ∀ l ∈ n.libs, DepOrdered (depD l.id) (l.defs.map (·.id))

theorem pairAll_map {β γ : Type} (R : γ → γ → Prop) (f g : β → γ) (l : List β)
    (h : ∀ x ∈ l, R (f x) (g x)) : PairAll R (l.map f) (l.map g) := by
  induction l with
  | nil => exact PairAll.nil
  | cons a r ih =>
    exact PairAll.cons (h a (by simp)) (ih (fun x hx => h x (List.mem_cons_of_mem _ hx)))

/-! ### one library -/

theorem sortDefs_id (depD : Nat → Nat → List Nat) (fuel : Nat) (l : ELib) :
    (sortDefs depD fuel l).1.id = l.id ∧ (sortDefs depD fuel l).1.self = l.self := ⟨rfl, rfl⟩

theorem sortDefs_spec (depD : Nat → Nat → List Nat) (fuel : Nat) (l : ELib)
    (hnd : (l.defs.map (·.id)).Nodup) (hns : NoSelf (depD l.id)) (hcl : Closed (depD l.id) (l.defs.map (·.id)))
    (hfin : (sortDefs depD fuel l).2 = true) :
    (sortDefs depD fuel l).1.defs.Perm l.defs ∧
    ((sortDefs depD fuel l).1.defs.map (·.id)).Nodup ∧
    DepOrdered (depD l.id) ((sortDefs depD fuel l).1.defs.map (·.id)) := by
  have hto := toposort_spec hns hcl hnd fuel hfin
  obtain ⟨hperm, hord⟩ := hto
  have hids : (reorder (·.id) (toposort (depD l.id) fuel (l.defs.map (·.id))).1 l.defs).map (·.id)
      = (toposort (depD l.id) fuel (l.defs.map (·.id))).1 :=
    reorder_ids _ _ _ (fun i hi => hperm.mem_iff.mp hi)
  refine ⟨reorder_perm _ _ _ hnd hperm, ?_, ?_⟩
  · show ((reorder (·.id) _ l.defs).map (·.id)).Nodup
    rw [hids]; exact hperm.nodup_iff.mpr hnd
  · show DepOrdered (depD l.id) ((reorder (·.id) _ l.defs).map (·.id))
    rw [hids]; exact hord

theorem sortDefs_sorted (depD : Nat → Nat → List Nat) (fuel : Nat) (l : ELib)
    (hnd : (l.defs.map (·.id)).Nodup) (hord : DepOrdered (depD l.id) (l.defs.map (·.id)))
    (hfuel : 2 * l.defs.length ≤ fuel) : sortDefs depD fuel l = (l, true) := by
  obtain ⟨k, hk⟩ := Nat.exists_eq_add_of_le hfuel
  have := toposort_sorted (depD l.id) (l.defs.map (·.id)) k hord hnd
  simp only [List.length_map] at this
  unfold sortDefs
  rw [hk, this]
  simp only
  rw [reorder_self (·.id) l.defs hnd]

/-! ### the whole pre-pass, unfolded once -/

theorem edifify_libs (depL : Nat → List Nat) (depD : Nat → Nat → List Nat) (mkId : MkId) (fuel : Nat) (n : ENet) :
    (edifify depL depD mkId fuel n).1.libs =
      seqMap (nameLib mkId) []
        (((reorder (·.id) (toposort depL fuel (n.libs.map (·.id))).1 n.libs).map (sortDefs depD fuel)).map (·.1)) := rfl

theorem edifify_flag (depL : Nat → List Nat) (depD : Nat → Nat → List Nat) (mkId : MkId) (fuel : Nat) (n : ENet)
    (h : (edifify depL depD mkId fuel n).2 = true) :
    (toposort depL fuel (n.libs.map (·.id))).2 = true ∧
    ∀ l ∈ reorder (·.id) (toposort depL fuel (n.libs.map (·.id))).1 n.libs, (sortDefs depD fuel l).2 = true := by
  simp only [edifify, Bool.and_eq_true, List.all_eq_true, List.mem_map, forall_exists_index, and_imp,
    forall_apply_eq_imp_iff₂] at h
  exact h

theorem edifify_documented (depL : Nat → List Nat) (depD : Nat → Nat → List Nat) (mkId : MkId) (fuel : Nat)
    (n : ENet) (hy : EdifHyp depL depD n) (hfin : (edifify depL depD mkId fuel n).2 = true) :
    DocEq (edifify depL depD mkId fuel n).1 n := by
  obtain ⟨hfl, hfd⟩ := edifify_flag depL depD mkId fuel n hfin
  have hto := toposort_spec hy.libNoSelf hy.libClosed hy.libIds fuel hfl
  have hperm1 := reorder_perm (·.id) _ n.libs hy.libIds hto.1
  refine ⟨?_, ?_, ?_, ?_⟩
  · simp [edifify]
  · have := nameElem_strip mkId ⟨n.name.getD n.top.name, n.data, ""⟩ []
    exact congrArg Elem.data this
  · exact nameElem_strip mkId n.top []
  · rw [edifify_libs]
    rw [seqMap_map (nameLib mkId) stripLib (nameLib_strip mkId)]
    simp only [List.map_nil, List.nil_append, List.map_map]
    refine ⟨(reorder (·.id) (toposort depL fuel (n.libs.map (·.id))).1 n.libs).map stripLib, hperm1.map _, ?_⟩
    apply pairAll_map
    intro l hl
    have hln : l ∈ n.libs := hperm1.mem_iff.mp hl
    have hs := sortDefs_spec depD fuel l (hy.defIds l hln) (hy.defNoSelf l hln) (hy.defClosed l hln) (hfd l hl)
    exact ⟨rfl, rfl, hs.1.map _⟩

theorem edifify_prepassed (depL : Nat → List Nat) (depD : Nat → Nat → List Nat) (mkId : MkId) (fuel : Nat)
    (n : ENet) (hy : EdifHyp depL depD n) (hfin : (edifify depL depD mkId fuel n).2 = true) :
    PrePassed depL depD (edifify depL depD mkId fuel n).1 := by
  obtain ⟨hfl, hfd⟩ := edifify_flag depL depD mkId fuel n hfin
  have hto := toposort_spec hy.libNoSelf hy.libClosed hy.libIds fuel hfl
  have hperm1 := reorder_perm (·.id) _ n.libs hy.libIds hto.1
  have hids1 : (reorder (·.id) (toposort depL fuel (n.libs.map (·.id))).1 n.libs).map (·.id)
      = (toposort depL fuel (n.libs.map (·.id))).1 :=
    reorder_ids _ _ _ (fun i hi => hto.1.mem_iff.mp hi)
  have hlibids : (edifify depL depD mkId fuel n).1.libs.map (·.id) = (toposort depL fuel (n.libs.map (·.id))).1 := by
    rw [edifify_libs]
    have := seqMap_map (nameLib mkId) (fun l : ELib => l.id) (nameLib_id mkId) []
      (((reorder (·.id) (toposort depL fuel (n.libs.map (·.id))).1 n.libs).map (sortDefs depD fuel)).map (·.1))
    rw [this]
    simp only [List.map_nil, List.nil_append, List.map_map]
    refine Eq.trans ?_ hids1
    apply List.map_congr_left
    intro l _; rfl
  -- per-library facts, carried through the naming loop
  have hper : ∀ l ∈ (edifify depL depD mkId fuel n).1.libs,
      namedLib l ∧ (l.defs.map (·.id)).Nodup ∧ DepOrdered (depD l.id) (l.defs.map (·.id)) := by
    rw [edifify_libs]
    have hnamed := seqMap_forall' namedLib _ (nameLib_named mkId)
      (((reorder (·.id) (toposort depL fuel (n.libs.map (·.id))).1 n.libs).map (sortDefs depD fuel)).map (·.1))
    have hsorted := seqMap_forall
      (fun l : ELib => (l.defs.map (·.id)).Nodup ∧ DepOrdered (depD l.id) (l.defs.map (·.id)))
      (nameLib mkId)
      (fun done e rest he => by
        show ((nameLib mkId done e rest).defs.map (·.id)).Nodup ∧ DepOrdered (depD (nameLib mkId done e rest).id) _
        rw [nameLib_defIds, nameLib_id]; exact he)
      []
      (((reorder (·.id) (toposort depL fuel (n.libs.map (·.id))).1 n.libs).map (sortDefs depD fuel)).map (·.1))
      (by simp)
      (by
        intro x hx
        simp only [List.map_map, List.mem_map, Function.comp] at hx
        obtain ⟨l, hl, rfl⟩ := hx
        have hln : l ∈ n.libs := hperm1.mem_iff.mp hl
        have hs := sortDefs_spec depD fuel l (hy.defIds l hln) (hy.defNoSelf l hln) (hy.defClosed l hln) (hfd l hl)
        exact ⟨hs.2.1, hs.2.2⟩)
    intro l hl
    exact ⟨hnamed l hl, hsorted l hl⟩
  refine ⟨by simp [edifify], ?_, nameElem_named _ _ _, fun l hl => (hper l hl).1, ?_, ?_,
    fun l hl => (hper l hl).2.1, fun l hl => (hper l hl).2.2⟩
  · exact nameElem_named mkId ⟨n.name.getD n.top.name, n.data, ""⟩ []
  · rw [hlibids]; exact hto.1.nodup_iff.mpr hy.libIds
  · rw [hlibids]; exact hto.2

/-- a pre-passed netlist is returned unchanged by the pre-pass, for every oracle and identifier
    generator -/
theorem edifify_fixpoint (depL : Nat → List Nat) (depD : Nat → Nat → List Nat) (mkId : MkId) (fuel : Nat)
    (n : ENet) (hp : PrePassed depL depD n)
    (hfuelL : 2 * n.libs.length ≤ fuel) (hfuelD : ∀ l ∈ n.libs, 2 * l.defs.length ≤ fuel) :
    edifify depL depD mkId fuel n = (n, true) := by
  obtain ⟨k, hk⟩ := Nat.exists_eq_add_of_le hfuelL
  have hsortL := toposort_sorted depL (n.libs.map (·.id)) k hp.libOrder hp.libIds
  simp only [List.length_map] at hsortL
  rw [← hk] at hsortL
  have hre : reorder (·.id) (n.libs.map (·.id)) n.libs = n.libs := reorder_self _ _ hp.libIds
  have hsd : n.libs.map (sortDefs depD fuel) = n.libs.map (fun l => (l, true)) := by
    apply List.map_congr_left
    intro l hl
    exact sortDefs_sorted depD fuel l (hp.defIds l hl) (hp.defOrder l hl) (hfuelD l hl)
  obtain ⟨name, data, top, libs⟩ := n
  simp only at hsortL hre hsd hp
  have hn : name.isSome = true := hp.hasName
  obtain ⟨nm, rfl⟩ := Option.isSome_iff_exists.mp hn
  have hnl : nameElem mkId ⟨nm, data, ""⟩ [] = ⟨nm, data, ""⟩ := nameElem_of_named _ _ _ hp.nlNamed
  have htop : nameElem mkId top [] = top := nameElem_of_named _ _ _ hp.topNamed
  have hlibs : seqMap (nameLib mkId) [] libs = libs := by
    rw [seqMap_id (nameLib mkId) libs (fun l hl done rest => nameLib_of_named mkId done l rest (hp.libsNamed l hl))]
    simp
  simp only [edifify, hsortL, hre, hsd, Option.getD_some, hnl, htop, List.map_map]
  have e1 : (List.map ((fun x : ELib × Bool => x.1) ∘ fun l : ELib => (l, true)) libs) = libs := List.map_id libs
  simp [e1, hlibs]

end Spydr.IO
