/-
  C16 — the pre-pass never touches an element that already carries an EDIF identifier (e.g. one left by
  the EDIF reader), and never touches names or anything in `extra`.
-/
import Spydr.IO.LemmasEdifify2
namespace Spydr.IO
open Topo

/-- `a` is what the pre-pass may make of `b`: same name, same `extra`; identical if `b` was named -/
def KeepElem (b a : Elem) : Prop := a.name = b.name ∧ a.extra = b.extra ∧ (namedElem b → a = b)

def KeepDef (b a : EDef) : Prop :=
  a.id = b.id ∧ KeepElem b.self a.self ∧ PairAll KeepElem b.ports a.ports ∧
  PairAll KeepElem b.cables a.cables ∧ PairAll KeepElem b.insts a.insts

def KeepLib (b a : ELib) : Prop :=
  a.id = b.id ∧ KeepElem b.self a.self ∧ ∀ d' ∈ a.defs, ∃ d ∈ b.defs, KeepDef d d'

theorem nameElem_keep (mkId : MkId) (e : Elem) (sibs : List Elem) : KeepElem e (nameElem mkId e sibs) := by
  refine ⟨?_, ?_, fun h => nameElem_of_named mkId e sibs h⟩
  · unfold nameElem; split <;> rfl
  · unfold nameElem; split <;> rfl

theorem pairAll_append {β γ : Type} {R : β → γ → Prop} {a b : List β} {c d : List γ}
    (h1 : PairAll R a c) (h2 : PairAll R b d) : PairAll R (a ++ b) (c ++ d) := by
  induction h1 with
  | nil => simpa using h2
  | cons h _ ih => exact PairAll.cons h ih

theorem seqMap_pairAll {β : Type} (R : β → β → Prop) (f : List β → β → List β → β)
    (h : ∀ done e rest, R e (f done e rest)) (done0 done todo : List β) (hd : PairAll R done0 done) :
    PairAll R (done0 ++ todo) (seqMap f done todo) := by
  induction todo generalizing done0 done with
  | nil => simpa [seqMap] using hd
  | cons e r ih =>
    simp only [seqMap]
    have := ih (done0 ++ [e]) (done ++ [f done e r])
      (pairAll_append hd (PairAll.cons (h done e r) PairAll.nil))
    simpa using this

theorem pairAll_mem_right {β γ : Type} {R : β → γ → Prop} {xs : List β} {ys : List γ}
    (h : PairAll R xs ys) : ∀ y ∈ ys, ∃ x ∈ xs, R x y := by
  induction h with
  | nil => intro y hy; simp at hy
  | cons hab _ ih =>
    intro y hy
    rcases List.mem_cons.mp hy with rfl | hy
    · exact ⟨_, by simp, hab⟩
    · obtain ⟨x, hx, hr⟩ := ih y hy
      exact ⟨x, List.mem_cons_of_mem _ hx, hr⟩

theorem nameList_keep (mkId : MkId) (l : List Elem) : PairAll KeepElem l (nameList mkId l) := by
  have := seqMap_pairAll KeepElem (fun done e rest => nameElem mkId e (done ++ e :: rest))
    (fun done e rest => nameElem_keep mkId e _) [] [] l PairAll.nil
  simpa [nameList] using this

theorem nameDef_keep (mkId : MkId) (done : List EDef) (d : EDef) (rest : List EDef) :
    KeepDef d (nameDef mkId done d rest) :=
  ⟨rfl, nameElem_keep _ _ _, nameList_keep _ _, nameList_keep _ _, nameList_keep _ _⟩

theorem nameLib_keep (mkId : MkId) (done : List ELib) (l : ELib) (rest : List ELib) :
    KeepLib l (nameLib mkId done l rest) := by
  refine ⟨rfl, nameElem_keep _ _ _, ?_⟩
  have := seqMap_pairAll KeepDef (nameDef mkId) (nameDef_keep mkId) [] [] l.defs PairAll.nil
  exact pairAll_mem_right (by simpa [nameLib] using this)

/-- whatever the sorts do (finished or not), what the pre-pass returns is made of the given
    libraries and cells, each kept in the above sense -/
theorem edifify_keeps (depL : Nat → List Nat) (depD : Nat → Nat → List Nat) (mkId : MkId) (fuel : Nat) (n : ENet) :
    KeepElem n.top (edifify depL depD mkId fuel n).1.top ∧
    (dataHas n.data "EDIF.identifier" = true → (edifify depL depD mkId fuel n).1.data = n.data) ∧
    ∀ l' ∈ (edifify depL depD mkId fuel n).1.libs, ∃ l ∈ n.libs, KeepLib l l' := by
  refine ⟨nameElem_keep mkId n.top [], ?_, ?_⟩
  · intro h
    have := nameElem_of_named mkId ⟨n.name.getD n.top.name, n.data, ""⟩ [] h
    exact congrArg Elem.data this
  · rw [edifify_libs]
    intro l' hl'
    have hp := seqMap_pairAll KeepLib (nameLib mkId) (nameLib_keep mkId) [] []
      (((reorder (·.id) (toposort depL fuel (n.libs.map (·.id))).1 n.libs).map (sortDefs depD fuel)).map (·.1))
      PairAll.nil
    obtain ⟨l2, hl2, hk⟩ := pairAll_mem_right (by simpa using hp) l' hl'
    simp only [List.map_map, List.mem_map, Function.comp] at hl2
    obtain ⟨l1, hl1, rfl⟩ := hl2
    have hl1n : l1 ∈ n.libs := (mem_reorder _ _ _ l1 hl1).1
    refine ⟨l1, hl1n, hk.1, hk.2.1, ?_⟩
    intro d' hd'
    obtain ⟨d2, hd2, hkd⟩ := hk.2.2 d' hd'
    exact ⟨d2, (mem_reorder _ _ _ d2 hd2).1, hkd⟩

end Spydr.IO
