/-
  C15 — soundness of the EDIF reference resolver: invariant of the scope, one lemma per event.
-/
import Spydr.IO.SpecResolve
namespace Spydr.IO.Resolve

theorem eqI_lower {a b : String} (h : eqI a b = true) : a.toLower = b.toLower := by
  simpa [eqI] using h

theorem findCell_some {cells : List CellSig} {n : String} {t : CellSig} (h : findCell cells n = some t) :
    t ∈ cells ∧ eqI t.ident n = true := by
  unfold findCell at h
  have h2 := List.find?_some h
  exact ⟨List.mem_of_find?_eq_some h, h2⟩

theorem findLib_some {libs : List LibSig} {n : String} {t : LibSig} (h : findLib libs n = some t) :
    t ∈ libs ∧ eqI t.ident n = true := by
  unfold findLib at h
  have h2 := List.find?_some h
  exact ⟨List.mem_of_find?_eq_some h, h2⟩

theorem findInst_some {is : List InstSig} {n : String} {t : InstSig} (h : findInst is n = some t) :
    t ∈ is ∧ eqI t.ident n = true := by
  unfold findInst at h
  have h2 := List.find?_some h
  exact ⟨List.mem_of_find?_eq_some h, h2⟩

theorem findPort_some {ps : List PortDecl} {n : String} {k j : Nat} {pd : PortDecl}
    (h : findPort ps n k = some (j, pd)) : ∃ idx, j = k + idx ∧ ps[idx]? = some pd ∧ eqI pd.ident n = true := by
  induction ps generalizing k with
  | nil => simp [findPort] at h
  | cons p r ih =>
    unfold findPort at h
    split at h
    · rename_i hp
      simp only [Option.some.injEq, Prod.mk.injEq] at h
      obtain ⟨rfl, rfl⟩ := h
      exact ⟨0, by simp, by simp, hp⟩
    · obtain ⟨idx, h1, h2, h3⟩ := ih h
      exact ⟨idx + 1, by omega, by simpa using h2, h3⟩

/-! ### the scope only ever holds declarations of this stream -/

def CellOK (all : List Ev) (bound : Nat) (c : CellSig) : Prop :=
  all[c.pos]? = some (.cell c.ident c.view c.ports) ∧ c.pos < bound

def InstOK (all : List Ev) (bound : Nat) (i : InstSig) : Prop :=
  (∃ v co lo, all[i.pos]? = some (.inst i.ident v co lo)) ∧ i.pos < bound ∧ CellOK all bound i.target

def LibOK (all : List Ev) (bound : Nat) (l : LibSig) : Prop :=
  Ev.lib l.ident ∈ all ∧ ∀ c ∈ l.cells, CellOK all bound c

structure ScopeOK (all : List Ev) (bound : Nat) (sc : Scope) : Prop where
  done : ∀ l ∈ sc.done, LibOK all bound l
  cur : ∀ l, sc.cur = some l → LibOK all bound l
  cell : ∀ c is, sc.cell = some (c, is) → CellOK all bound c ∧ ∀ i ∈ is, InstOK all bound i

theorem CellOK.mono {all : List Ev} {b b' : Nat} {c : CellSig} (h : CellOK all b c) (hb : b ≤ b') : CellOK all b' c :=
  ⟨h.1, Nat.lt_of_lt_of_le h.2 hb⟩

theorem InstOK.mono {all : List Ev} {b b' : Nat} {i : InstSig} (h : InstOK all b i) (hb : b ≤ b') : InstOK all b' i :=
  ⟨h.1, Nat.lt_of_lt_of_le h.2.1 hb, h.2.2.mono hb⟩

theorem LibOK.mono {all : List Ev} {b b' : Nat} {l : LibSig} (h : LibOK all b l) (hb : b ≤ b') : LibOK all b' l :=
  ⟨h.1, fun c hc => (h.2 c hc).mono hb⟩

theorem ScopeOK.mono {all : List Ev} {b b' : Nat} {sc : Scope} (h : ScopeOK all b sc) (hb : b ≤ b') : ScopeOK all b' sc :=
  ⟨fun l hl => (h.done l hl).mono hb, fun l hl => (h.cur l hl).mono hb,
   fun c is hc => ⟨(h.cell c is hc).1.mono hb, fun i hi => ((h.cell c is hc).2 i hi).mono hb⟩⟩

theorem scopeOK_empty (all : List Ev) : ScopeOK all 0 Scope.empty :=
  ⟨by simp [Scope.empty], by simp [Scope.empty], by simp [Scope.empty]⟩

/-! declared-set membership from a witnessed declaration -/

theorem cell_declared {all : List Ev} {b : Nat} {c : CellSig} (h : CellOK all b c) :
    c.ident.toLower ∈ declaredCells all ∧ c.view.toLower ∈ declaredViews all ∧
    ∀ p ∈ c.ports, p.ident.toLower ∈ declaredPorts all := by
  have hm : Ev.cell c.ident c.view c.ports ∈ all := List.mem_of_getElem? h.1
  refine ⟨?_, ?_, ?_⟩
  · exact List.mem_filterMap.mpr ⟨_, hm, rfl⟩
  · exact List.mem_filterMap.mpr ⟨_, hm, rfl⟩
  · intro p hp
    exact List.mem_flatMap.mpr ⟨_, hm, List.mem_map.mpr ⟨p, hp, rfl⟩⟩

theorem lib_declared {all : List Ev} {b : Nat} {l : LibSig} (h : LibOK all b l) : l.ident.toLower ∈ declaredLibs all :=
  List.mem_filterMap.mpr ⟨_, h.1, rfl⟩

theorem inst_declared {all : List Ev} {b : Nat} {i : InstSig} (h : InstOK all b i) : i.ident.toLower ∈ declaredInsts all := by
  obtain ⟨v, co, lo, hh⟩ := h.1
  exact List.mem_filterMap.mpr ⟨_, List.mem_of_getElem? hh, rfl⟩

/-! ### the helpers -/

theorem targetCells_sound {all : List Ev} {b : Nat} {sc : Scope} {l : LibSig} {lo : Option String}
    {cells : List CellSig} (hsc : ScopeOK all b sc) (hl : LibOK all b l)
    (h : targetCells sc l lo = .ok cells) :
    (∀ x ∈ cells, CellOK all b x) ∧ (∀ ln, lo = some ln → ln.toLower ∈ declaredLibs all) := by
  cases lo with
  | none =>
    simp only [targetCells, Except.ok.injEq] at h
    subst h
    exact ⟨hl.2, by simp⟩
  | some ln =>
    simp only [targetCells] at h
    by_cases hln : eqI l.ident ln = true
    · simp only [hln, if_true, Except.ok.injEq] at h
      subst h
      refine ⟨hl.2, ?_⟩
      intro ln' hln'; cases hln'
      rw [← eqI_lower hln]; exact lib_declared hl
    · simp only [hln] at h
      cases hL : findLib sc.done ln with
      | none => simp [hL] at h
      | some L =>
        simp [hL] at h
        subst h
        have hLok := hsc.done L (findLib_some hL).1
        refine ⟨hLok.2, ?_⟩
        intro ln' hln'; cases hln'
        rw [← eqI_lower (findLib_some hL).2]; exact lib_declared hLok

theorem pickCell_sound {all : List Ev} {b : Nat} {cells : List CellSig} {cn v : String} {t : CellSig}
    (hcells : ∀ x ∈ cells, CellOK all b x) (h : pickCell cells cn v = .ok t) :
    CellOK all b t ∧ eqI t.view v = true ∧ eqI t.ident cn = true := by
  unfold pickCell at h
  cases hf : findCell cells cn with
  | none => simp [hf] at h
  | some t' =>
    simp only [hf] at h
    by_cases hv : eqI t'.view v = true
    · simp only [hv, if_true, Except.ok.injEq] at h
      subst h
      exact ⟨hcells _ (findCell_some hf).1, hv, (findCell_some hf).2⟩
    · simp [hv] at h

theorem resolveTarget_sound {all : List Ev} {b : Nat} {sc : Scope} {l : LibSig} {c t : CellSig} {v : String}
    {co lo : Option String} (hsc : ScopeOK all b sc) (hl : LibOK all b l) (hc : CellOK all b c)
    (h : resolveTarget sc l c v co lo = .ok t) :
    CellOK all b t ∧ eqI t.view v = true ∧ (∀ cn, co = some cn → eqI t.ident cn = true) ∧
    (∀ ln, lo = some ln → co ≠ none → ln.toLower ∈ declaredLibs all) := by
  cases co with
  | none =>
    simp only [resolveTarget] at h
    by_cases hv : eqI c.view v = true
    · simp only [hv, if_true, Except.ok.injEq] at h
      subst h
      exact ⟨hc, hv, by simp, by simp⟩
    · simp [hv] at h
  | some cn =>
    simp only [resolveTarget] at h
    cases ht : targetCells sc l lo with
    | error e => simp [ht] at h
    | ok cells =>
      simp only [ht] at h
      obtain ⟨h1, h2⟩ := targetCells_sound hsc hl ht
      obtain ⟨a, b', c'⟩ := pickCell_sound h1 h
      exact ⟨a, b', by intro cn' hcn; cases hcn; exact c', fun ln hln _ => h2 ln hln⟩

theorem ownerOf_sound {all : List Ev} {b : Nat} {c : CellSig} {insts : List InstSig} {io : Option String}
    {owner : CellSig} {ia : Option Nat} (hc : CellOK all b c) (hi : ∀ i ∈ insts, InstOK all b i)
    (h : ownerOf c insts io = .ok (owner, ia)) :
    CellOK all b owner ∧
    (match io, ia with
     | none, none => True
     | some iname, some a => a < b ∧ (∃ iid iv co lo, all[a]? = some (.inst iid iv co lo) ∧ eqI iid iname = true) ∧
         iname.toLower ∈ declaredInsts all
     | _, _ => False) := by
  cases io with
  | none =>
    simp only [ownerOf, Except.ok.injEq, Prod.mk.injEq] at h
    obtain ⟨rfl, rfl⟩ := h
    exact ⟨hc, trivial⟩
  | some iname =>
    simp only [ownerOf] at h
    cases hf : findInst insts iname with
    | none => simp [hf] at h
    | some i =>
      simp only [hf, Except.ok.injEq, Prod.mk.injEq] at h
      obtain ⟨rfl, rfl⟩ := h
      have hio := hi i (findInst_some hf).1
      refine ⟨hio.2.2, hio.2.1, ?_, ?_⟩
      · obtain ⟨v, co, lo, hh⟩ := hio.1
        exact ⟨i.ident, v, co, lo, hh, (findInst_some hf).2⟩
      · rw [← eqI_lower (findInst_some hf).2]; exact inst_declared hio

theorem pickPort_sound {owner : CellSig} {ia : Option Nat} {p : String} {m : Option Nat} {r : RRef}
    (h : pickPort owner ia p m = .ok r) :
    ∃ k pd, r = .pin owner.pos k (m.getD 0) ia ∧ owner.ports[k]? = some pd ∧ eqI pd.ident p = true ∧
      m.getD 0 < pd.width := by
  unfold pickPort at h
  cases hf : findPort owner.ports p 0 with
  | none => simp [hf] at h
  | some kp =>
    obtain ⟨k, pd⟩ := kp
    simp only [hf] at h
    by_cases hw : m.getD 0 < pd.width
    · simp only [hw, if_true, Except.ok.injEq] at h
      obtain ⟨idx, h1, h2, h3⟩ := findPort_some hf
      have : k = idx := by omega
      subst this
      exact ⟨k, pd, h.symm, h2, h3, hw⟩
    · simp [hw] at h

theorem pickTop_sound {all : List Ev} {b : Nat} {done : List LibSig} {cn ln : String} {r : RRef}
    (hd : ∀ l ∈ done, LibOK all b l) (h : pickTop done cn ln = .ok r) :
    ∃ t : CellSig, r = .top t.pos ∧ CellOK all b t ∧ eqI t.ident cn = true ∧ ln.toLower ∈ declaredLibs all := by
  unfold pickTop at h
  cases hL : findLib done ln with
  | none => simp [hL] at h
  | some L =>
    simp only [hL] at h
    cases hf : findCell L.cells cn with
    | none => simp [hf] at h
    | some t =>
      simp only [hf, Except.ok.injEq] at h
      have hLok := hd L (findLib_some hL).1
      refine ⟨t, h.symm, hLok.2 t (findCell_some hf).1, (findCell_some hf).2, ?_⟩
      rw [← eqI_lower (findLib_some hL).2]; exact lib_declared hLok

/-! ### one event -/

theorem nc_false {l : List String} {x : String} (h : x ∈ l) : (!l.contains x) = false := by simp [h]

theorem step_sound {all : List Ev} {pos : Nat} {sc sc' : Scope} {e : Ev} {r : Option RRef}
    (hsc : ScopeOK all pos sc) (he : all[pos]? = some e) (h : stepEv pos sc e = .ok (sc', r)) :
    ScopeOK all (pos + 1) sc' ∧ (∀ x, r = some x → RefOk all pos x) ∧ undeclared all e = false ∧
    r.isSome = isRef e := by
  have hmem : e ∈ all := List.mem_of_getElem? he
  have hsc1 := hsc.mono (Nat.le_succ pos)
  obtain ⟨done, cur, cell⟩ := sc
  cases e with
  | lib id =>
    cases cur <;> cases cell <;> simp only [stepEv] at h <;> try cases h
    refine ⟨⟨hsc1.done, ?_, by simp⟩, by simp, rfl, rfl⟩
    intro l hl
    simp only [Option.some.injEq] at hl
    subst hl
    exact ⟨hmem, by simp⟩
  | endLib =>
    cases cur <;> cases cell <;> simp only [stepEv] at h <;> try cases h
    rename_i l
    refine ⟨⟨?_, by simp, by simp⟩, by simp, rfl, rfl⟩
    intro l' hl'
    rcases List.mem_append.mp hl' with hl' | hl'
    · exact hsc1.done l' hl'
    · simp at hl'; subst hl'; exact hsc1.cur _ rfl
  | cell id v ps =>
    cases cur <;> cases cell <;> simp only [stepEv] at h <;> try cases h
    refine ⟨⟨hsc1.done, hsc1.cur, ?_⟩, by simp, rfl, rfl⟩
    intro c is hc
    simp only [Option.some.injEq, Prod.mk.injEq] at hc
    obtain ⟨rfl, rfl⟩ := hc
    exact ⟨⟨he, Nat.lt_succ_self pos⟩, by simp⟩
  | endCell =>
    cases cur <;> cases cell <;> simp only [stepEv] at h <;> try cases h
    rename_i l ci
    obtain ⟨c, is⟩ := ci
    refine ⟨⟨hsc1.done, ?_, by simp⟩, by simp, rfl, rfl⟩
    intro l' hl'
    simp only [Option.some.injEq] at hl'
    subst hl'
    have hl := hsc1.cur l rfl
    refine ⟨hl.1, ?_⟩
    intro x hx
    rcases List.mem_append.mp hx with hx | hx
    · exact hl.2 x hx
    · simp at hx; rw [hx]; exact (hsc1.cell c is rfl).1
  | inst id v co lo =>
    cases cur <;> cases cell <;> simp only [stepEv] at h <;> try cases h
    rename_i l ci
    obtain ⟨c, insts⟩ := ci
    simp only at h
    cases ht : resolveTarget ⟨done, some l, some (c, insts)⟩ l c v co lo with
    | error err => simp [ht] at h
    | ok t =>
      simp only [ht, Except.ok.injEq, Prod.mk.injEq] at h
      obtain ⟨rfl, rfl⟩ := h
      obtain ⟨hc0, his0⟩ := hsc.cell c insts rfl
      obtain ⟨ht1, ht2, ht3, ht4⟩ := resolveTarget_sound hsc (hsc.cur l rfl) hc0 ht
      refine ⟨⟨hsc1.done, hsc1.cur, ?_⟩, ?_, ?_, rfl⟩
      · intro c' is' hc'
        simp only [Option.some.injEq, Prod.mk.injEq] at hc'
        obtain ⟨rfl, rfl⟩ := hc'
        refine ⟨(hsc1.cell c insts rfl).1, ?_⟩
        intro i hi
        rcases List.mem_append.mp hi with hi | hi
        · exact (hsc1.cell c insts rfl).2 i hi
        · simp at hi; subst hi
          exact ⟨⟨v, co, lo, he⟩, Nat.lt_succ_self pos, ht1.mono (Nat.le_succ pos)⟩
      · intro x hx
        simp only [Option.some.injEq] at hx
        subst hx
        exact ⟨id, v, co, lo, t.ident, t.view, t.ports, he, ht1.1, ht1.2, ht2, ht3⟩
      · have hd := cell_declared ht1
        simp only [undeclared, Bool.or_eq_false_iff]
        refine ⟨?_, ?_⟩
        · cases co with
          | none => rfl
          | some cn =>
            simp only [Bool.or_eq_false_iff]
            refine ⟨?_, ?_⟩
            · apply nc_false
              rw [← eqI_lower (ht3 cn rfl)]; exact hd.1
            · cases lo with
              | none => rfl
              | some ln => exact nc_false (ht4 ln rfl (by simp))
        · apply nc_false
          rw [← eqI_lower ht2]; exact hd.2.1
  | portRef p m io =>
    cases cell with
    | none => simp [stepEv] at h
    | some ci =>
      obtain ⟨c, insts⟩ := ci
      simp only [stepEv] at h
      cases ho : ownerOf c insts io with
      | error err => simp [ho] at h
      | ok oa =>
        obtain ⟨owner, ia⟩ := oa
        simp only [ho] at h
        cases hp : pickPort owner ia p m with
        | error err => simp [hp] at h
        | ok rr =>
          simp only [hp, Except.ok.injEq, Prod.mk.injEq] at h
          obtain ⟨rfl, rfl⟩ := h
          obtain ⟨hc0, his0⟩ := hsc.cell c insts rfl
          obtain ⟨hown, hinst⟩ := ownerOf_sound hc0 his0 ho
          obtain ⟨k, pd, rfl, hk, hpid, hw⟩ := pickPort_sound hp
          refine ⟨hsc1, ?_, ?_, rfl⟩
          · intro x hx
            simp only [Option.some.injEq] at hx
            subst hx
            refine ⟨p, m, io, owner.ident, owner.view, owner.ports, pd, he, hown.1, hown.2, hk, hpid, rfl, hw, ?_⟩
            cases io <;> cases ia <;> simp only at hinst ⊢
            · exact ⟨hinst.1, hinst.2.1⟩
          · have hd := cell_declared hown
            simp only [undeclared, Bool.or_eq_false_iff]
            refine ⟨?_, ?_⟩
            · apply nc_false
              rw [← eqI_lower hpid]
              exact hd.2.2 pd (List.mem_of_getElem? hk)
            · cases io with
              | none => rfl
              | some iname =>
                cases ia with
                | none => simp at hinst
                | some a => exact nc_false hinst.2.2
  | design cn ln =>
    cases cur <;> cases cell <;> simp only [stepEv] at h <;> try cases h
    cases hp : pickTop done cn ln with
    | error err => simp [hp] at h
    | ok rr =>
      simp only [hp, Except.ok.injEq, Prod.mk.injEq] at h
      obtain ⟨rfl, rfl⟩ := h
      obtain ⟨t, rfl, ht1, ht2, ht3⟩ := pickTop_sound hsc.done hp
      refine ⟨hsc1, ?_, ?_, rfl⟩
      · intro x hx
        simp only [Option.some.injEq] at hx
        subst hx
        exact ⟨cn, ln, t.ident, t.view, t.ports, he, ht1.1, ht1.2, ht2⟩
      · simp only [undeclared, Bool.or_eq_false_iff]
        refine ⟨?_, nc_false ht3⟩
        apply nc_false
        rw [← eqI_lower ht2]; exact (cell_declared ht1).1

/-! ### the whole stream -/

theorem go_sound (all : List Ev) (pre rest : List Ev) (hall : all = pre ++ rest) (sc : Scope)
    (hsc : ScopeOK all pre.length sc) (rs : List (Nat × RRef)) (hgo : go pre.length sc rest = .ok rs) :
    (∀ kr ∈ rs, RefOk all kr.1 kr.2) ∧ (∀ e ∈ rest, undeclared all e = false) ∧
    rs.map (·.1) = refPositions pre.length rest := by
  induction rest generalizing pre sc rs with
  | nil =>
    simp only [go, Except.ok.injEq] at hgo
    subst hgo
    exact ⟨by simp, by simp, rfl⟩
  | cons e rest ih =>
    have he : all[pre.length]? = some e := by rw [hall]; simp
    simp only [go] at hgo
    cases hs : stepEv pre.length sc e with
    | error err => simp [hs] at hgo
    | ok sr =>
      obtain ⟨sc', r⟩ := sr
      simp only [hs] at hgo
      cases hg : go (pre.length + 1) sc' rest with
      | error err => simp [hg] at hgo
      | ok rs' =>
        simp only [hg, Except.ok.injEq] at hgo
        obtain ⟨h1, h2, h3, h4⟩ := step_sound hsc he hs
        have hlen : (pre ++ [e]).length = pre.length + 1 := by simp
        obtain ⟨i1, i2, i3⟩ := ih (pre ++ [e]) (by rw [hall]; simp) sc' (by rw [hlen]; exact h1) rs'
          (by rw [hlen]; exact hg)
        rw [hlen] at i3
        refine ⟨?_, ?_, ?_⟩
        · intro kr hkr
          cases r with
          | none => simp only at hgo; subst hgo; exact i1 kr hkr
          | some x =>
            simp only at hgo; subst hgo
            rcases List.mem_cons.mp hkr with rfl | hkr
            · exact h2 x rfl
            · exact i1 kr hkr
        · intro e' he'
          rcases List.mem_cons.mp he' with rfl | he'
          · exact h3
          · exact i2 e' he'
        · cases r with
          | none =>
            simp only at hgo; subst hgo
            have : isRef e = false := by simpa using h4.symm
            simp [refPositions, this, i3]
          | some x =>
            simp only at hgo; subst hgo
            have : isRef e = true := by simpa using h4.symm
            simp [refPositions, this, i3]

end Spydr.IO.Resolve
