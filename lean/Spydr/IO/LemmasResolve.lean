/-
  C15 — the resolver against the scoping rules: basic facts (Bool/Prop bridges, first-match lookups,
  the visibility fold), then the lockstep between the resolver's scope and `visAt`.
-/
import Spydr.IO.SpecResolve
namespace Spydr.IO.Resolve

theorem eqI_lower {a b : String} (h : eqI a b = true) : a.toLower = b.toLower := by
  simpa [eqI] using h

/-! ### Bool / Prop bridges -/

theorem isLibNamed_iff (all : List Ev) (n : String) (p : Nat) : isLibNamed all n p = true ↔ LibNamed all n p := by
  unfold isLibNamed LibNamed
  constructor
  · intro h
    split at h
    · rename_i i hi; exact ⟨i, hi, h⟩
    · cases h
  · rintro ⟨i, hi, h⟩
    rw [hi]; exact h

theorem isCellNamed_iff (all : List Ev) (n : String) (d : Nat) : isCellNamed all n d = true ↔ CellNamed all n d := by
  unfold isCellNamed CellNamed
  constructor
  · intro h
    split at h
    · rename_i i v ps hi; exact ⟨i, v, ps, hi, h⟩
    · cases h
  · rintro ⟨i, v, ps, hi, h⟩
    rw [hi]; exact h

theorem isInstNamed_iff (all : List Ev) (n : String) (a : Nat) : isInstNamed all n a = true ↔ InstNamed all n a := by
  unfold isInstNamed InstNamed
  constructor
  · intro h
    split at h
    · rename_i i v c l hi; exact ⟨i, v, c, l, hi, h⟩
    · cases h
  · rintro ⟨i, v, c, l, hi, h⟩
    rw [hi]; exact h

theorem viewIs_iff (all : List Ev) (n : String) (d : Nat) : viewIs all n d = true ↔ ViewIs all n d := by
  unfold viewIs ViewIs
  constructor
  · intro h
    split at h
    · rename_i i v ps hi; exact ⟨i, v, ps, hi, h⟩
    · cases h
  · rintro ⟨i, v, ps, hi, h⟩
    rw [hi]; exact h

/-! ### first-match lookups -/

section first
variable {β : Type}

theorem find_firstIn (p : β → Bool) (P : β → Prop) (hp : ∀ x, p x = true ↔ P x) (l : List β) (d : β) :
    l.find? p = some d ↔ FirstIn P l d := by
  rw [List.find?_eq_some_iff_append]
  constructor
  · rintro ⟨h1, as, bs, h2, h3⟩
    refine ⟨as, bs, h2, (hp d).mp h1, ?_⟩
    intro x hx hPx
    have := h3 x hx
    rw [(hp x).mpr hPx] at this
    cases this
  · rintro ⟨as, bs, h2, h1, h3⟩
    refine ⟨(hp d).mpr h1, as, bs, h2, ?_⟩
    intro x hx
    cases hx' : p x with
    | false => rfl
    | true => exact absurd ((hp x).mp hx') (h3 x hx)

theorem find_none (p : β → Bool) (P : β → Prop) (hp : ∀ x, p x = true ↔ P x) (l : List β) :
    l.find? p = none ↔ ∀ x ∈ l, ¬ P x := by
  rw [List.find?_eq_none]
  constructor
  · intro h x hx hPx; exact h x hx ((hp x).mpr hPx)
  · intro h x hx hpx; exact h x hx ((hp x).mp hpx)

theorem FirstIn.mem {P : β → Prop} {l : List β} {d : β} (h : FirstIn P l d) : d ∈ l ∧ P d := by
  obtain ⟨pre, post, rfl, hd, _⟩ := h
  exact ⟨by simp, hd⟩

theorem FirstIn.unique {P : β → Prop} {l : List β} {d d' : β} (h : FirstIn P l d) (h' : FirstIn P l d') : d = d' := by
  obtain ⟨pre, post, hl, hd, hpre⟩ := h
  obtain ⟨pre', post', hl', hd', hpre'⟩ := h'
  induction pre generalizing l pre' with
  | nil =>
    cases pre' with
    | nil => rw [hl] at hl'; simp at hl'; exact hl'.1
    | cons c r => rw [hl] at hl'; simp at hl'; exact absurd (hl'.1 ▸ hd) (hpre' c (by simp))
  | cons c r ih =>
    cases pre' with
    | nil => rw [hl] at hl'; simp at hl'; exact absurd (hl'.1 ▸ hd') (hpre c (by simp))
    | cons c' r' =>
      rw [hl] at hl'
      simp at hl'
      exact ih (l := r ++ d :: post) rfl (fun x hx => hpre x (List.mem_cons_of_mem _ hx)) r' hl'.2
        (fun x hx => hpre' x (List.mem_cons_of_mem _ hx))

theorem firstIn_map {γ : Type} (f : β → γ) (P : γ → Prop) (l : List β) (d : β)
    (h : FirstIn (fun x => P (f x)) l d) : FirstIn P (l.map f) (f d) := by
  obtain ⟨pre, post, rfl, hd, hpre⟩ := h
  refine ⟨pre.map f, post.map f, by simp, hd, ?_⟩
  intro x hx
  obtain ⟨y, hy, rfl⟩ := List.mem_map.mp hx
  exact hpre y hy

end first

theorem findPort_spec (ps : List PortDecl) (n : String) (k j : Nat) (pd : PortDecl) :
    findPort ps n k = some (j, pd) ↔ ∃ idx, j = k + idx ∧ FirstPort ps n idx pd := by
  induction ps generalizing k with
  | nil =>
    simp only [findPort]
    constructor
    · intro h; cases h
    · rintro ⟨idx, _, h, _⟩; simp at h
  | cons p r ih =>
    unfold findPort
    by_cases hp : eqI p.ident n = true
    · rw [if_pos hp]
      constructor
      · intro h
        simp only [Option.some.injEq, Prod.mk.injEq] at h
        obtain ⟨rfl, rfl⟩ := h
        exact ⟨0, by simp, by simp, hp, by intro j q hj; omega⟩
      · rintro ⟨idx, rfl, h1, h2, h3⟩
        cases idx with
        | zero => simp at h1; subst h1; simp
        | succ i =>
          have := h3 0 p (by omega) (by simp)
          rw [hp] at this; cases this
    · rw [if_neg hp]
      have hp' : eqI p.ident n = false := by simpa using hp
      rw [ih (k + 1)]
      constructor
      · rintro ⟨idx, rfl, h1, h2, h3⟩
        refine ⟨idx + 1, by omega, by simpa using h1, h2, ?_⟩
        intro j q hj hq
        cases j with
        | zero => simp at hq; subst hq; exact hp'
        | succ j' => exact h3 j' q (by omega) (by simpa using hq)
      · rintro ⟨idx, rfl, h1, h2, h3⟩
        cases idx with
        | zero => simp at h1; subst h1; rw [h2] at hp'; cases hp'
        | succ i =>
          refine ⟨i, by omega, by simpa using h1, h2, ?_⟩
          intro j q hj hq
          exact h3 (j + 1) q (by omega) (by simpa using hq)

theorem findPort_none (ps : List PortDecl) (n : String) (k : Nat) :
    findPort ps n k = none ↔ ∀ q ∈ ps, eqI q.ident n = false := by
  induction ps generalizing k with
  | nil => simp [findPort]
  | cons p r ih =>
    unfold findPort
    by_cases hp : eqI p.ident n = true
    · rw [if_pos hp]
      constructor
      · intro h; cases h
      · intro h; have := h p (by simp); rw [hp] at this; cases this
    · rw [if_neg hp, ih]
      have hp' : eqI p.ident n = false := by simpa using hp
      constructor
      · intro h q hq
        rcases List.mem_cons.mp hq with rfl | hq
        · exact hp'
        · exact h q hq
      · intro h q hq; exact h q (List.mem_cons_of_mem _ hq)

theorem FirstPort.unique {ps : List PortDecl} {n : String} {i j : Nat} {p q : PortDecl}
    (h : FirstPort ps n i p) (h' : FirstPort ps n j q) : i = j ∧ p = q := by
  obtain ⟨h1, h2, h3⟩ := h
  obtain ⟨h1', h2', h3'⟩ := h'
  have hij : i = j := by
    rcases Nat.lt_trichotomy i j with hlt | heq | hgt
    · have := h3' i p hlt h1; rw [h2] at this; cases this
    · exact heq
    · have := h3 j q hgt h1'; rw [h2'] at this; cases this
  subst hij
  rw [h1] at h1'
  exact ⟨rfl, Option.some.inj h1'⟩

/-! ### the visibility fold -/

theorem visFrom_append (p : Nat) (v : Vis) (l : List Ev) (e : Ev) :
    visFrom p v (l ++ [e]) = (visFrom p v l).bind (fun v' => visStep (p + l.length) v' e) := by
  induction l generalizing p v with
  | nil =>
    simp only [List.nil_append, visFrom, List.length_nil, Nat.add_zero, Option.bind_some]
    cases visStep p v e <;> rfl
  | cons a r ih =>
    simp only [List.cons_append, visFrom, List.length_cons]
    cases visStep p v a with
    | none => rfl
    | some v' =>
      simp only
      rw [ih]
      have : p + 1 + r.length = p + (r.length + 1) := by omega
      rw [this]

theorem visAt_succ (evs : List Ev) (k : Nat) (e : Ev) (he : evs[k]? = some e) :
    visAt evs (k + 1) = (visAt evs k).bind (fun v => visStep k v e) := by
  have hk : k < evs.length := by
    rcases Nat.lt_or_ge k evs.length with h | h
    · exact h
    · rw [List.getElem?_eq_none h] at he; cases he
  have htake : evs.take (k + 1) = evs.take k ++ [e] := by
    rw [List.take_succ, he]; rfl
  unfold visAt
  rw [htake, visFrom_append]
  simp [List.length_take, Nat.min_eq_left (Nat.le_of_lt hk)]

theorem visAt_zero (evs : List Ev) : visAt evs 0 = some Vis.empty := by
  simp [visAt, visFrom]

/-! ### the resolver's scope, seen as a `Vis` -/

def Scope.vis (sc : Scope) : Vis :=
  ⟨sc.done, sc.cur, sc.cell.map (fun ci => (ci.1, ci.2.map (·.1)))⟩

theorem empty_vis : Scope.empty.vis = Vis.empty := rfl

end Spydr.IO.Resolve
