/-
  C15 — the resolver against the scoping rules: basic facts (Bool/Prop bridges, first-match lookups,
  the visibility fold), then the lockstep between the resolver's scope and `visAt`.
-/
import Spydr.IO.SpecResolve
namespace Spydr.IO.Resolve

theorem eqI_lower {a b : String} (h : eqI a b = true) : a.toLower = b.toLower := by
  simpa [eqI] using h

/-! ### Bool / Prop bridges -/

theorem isLibNamed_iff (all : List Ev) (n : String) (p : Nat) : isLibNamed all n p = true ↔ LibNamed all n p := by
  unfold isLibNamed LibNamed
  constructor
  · intro h
    split at h
    · rename_i i hi; exact ⟨i, hi, h⟩
    · cases h
  · rintro ⟨i, hi, h⟩
    rw [hi]; exact h

theorem isCellNamed_iff (all : List Ev) (n : String) (d : Nat) : isCellNamed all n d = true ↔ CellNamed all n d := by
  unfold isCellNamed CellNamed
  constructor
  · intro h
    split at h
    · rename_i i v ps hi; exact ⟨i, v, ps, hi, h⟩
    · cases h
  · rintro ⟨i, v, ps, hi, h⟩
    rw [hi]; exact h

theorem isInstNamed_iff (all : List Ev) (n : String) (a : Nat) : isInstNamed all n a = true ↔ InstNamed all n a := by
  unfold isInstNamed InstNamed
  constructor
  · intro h
    split at h
    · rename_i i v c l hi; exact ⟨i, v, c, l, hi, h⟩
    · cases h
  · rintro ⟨i, v, c, l, hi, h⟩
    rw [hi]; exact h

theorem viewIs_iff (all : List Ev) (n : String) (d : Nat) : viewIs all n d = true ↔ ViewIs all n d := by
  unfold viewIs ViewIs
  constructor
  · intro h
    split at h
    · rename_i i v ps hi; exact ⟨i, v, ps, hi, h⟩
    · cases h
  · rintro ⟨i, v, ps, hi, h⟩
    rw [hi]; exact h

/-! ### first-match lookups -/

section first
variable {β : Type}

theorem find_firstIn (p : β → Bool) (P : β → Prop) (hp : ∀ x, p x = true ↔ P x) (l : List β) (d : β) :
    l.find? p = some d ↔ FirstIn P l d := by
  rw [List.find?_eq_some_iff_append]
  constructor
  · rintro ⟨h1, as, bs, h2, h3⟩
    refine ⟨as, bs, h2, (hp d).mp h1, ?_⟩
    intro x hx hPx
    have := h3 x hx
    rw [(hp x).mpr hPx] at this
    cases this
  · rintro ⟨as, bs, h2, h1, h3⟩
    refine ⟨(hp d).mpr h1, as, bs, h2, ?_⟩
    intro x hx
    cases hx' : p x with
    | false => rfl
    | true => exact absurd ((hp x).mp hx') (h3 x hx)

theorem find_none (p : β → Bool) (P : β → Prop) (hp : ∀ x, p x = true ↔ P x) (l : List β) :
    l.find? p = none ↔ ∀ x ∈ l, ¬ P x := by
  rw [List.find?_eq_none]
  constructor
  · intro h x hx hPx; exact h x hx ((hp x).mpr hPx)
  · intro h x hx hpx; exact h x hx ((hp x).mp hpx)

theorem FirstIn.mem {P : β → Prop} {l : List β} {d : β} (h : FirstIn P l d) : d ∈ l ∧ P d := by
  obtain ⟨pre, post, rfl, hd, _⟩ := h
  exact ⟨by simp, hd⟩

theorem FirstIn.unique {P : β → Prop} {l : List β} {d d' : β} (h : FirstIn P l d) (h' : FirstIn P l d') : d = d' := by
  obtain ⟨pre, post, hl, hd, hpre⟩ := h
  obtain ⟨pre', post', hl', hd', hpre'⟩ := h'
  induction pre generalizing l pre' with
  | nil =>
    cases pre' with
    | nil => rw [hl] at hl'; simp at hl'; exact hl'.1
    | cons c r => rw [hl] at hl'; simp at hl'; exact absurd (hl'.1 ▸ hd) (hpre' c (by simp))
  | cons c r ih =>
    cases pre' with
    | nil => rw [hl] at hl'; simp at hl'; exact absurd (hl'.1 ▸ hd') (hpre c (by simp))
    | cons c' r' =>
      rw [hl] at hl'
      simp at hl'
      exact ih (l := r ++ d :: post) rfl (fun x hx => hpre x (List.mem_cons_of_mem _ hx)) r' hl'.2
        (fun x hx => hpre' x (List.mem_cons_of_mem _ hx))

theorem firstIn_map {γ : Type} (f : β → γ) (P : γ → Prop) (l : List β) (d : β)
    (h : FirstIn (fun x => P (f x)) l d) : FirstIn P (l.map f) (f d) := by
  obtain ⟨pre, post, rfl, hd, hpre⟩ := h
  refine ⟨pre.map f, post.map f, by simp, hd, ?_⟩
  intro x hx
  obtain ⟨y, hy, rfl⟩ := List.mem_map.mp hx
  exact hpre y hy

end first

theorem findPort_spec (ps : List PortDecl) (n : String) (k j : Nat) (pd : PortDecl) :
    findPort ps n k = some (j, pd) ↔ ∃ idx, j = k + idx ∧ FirstPort ps n idx pd := by
  induction ps generalizing k with
  | nil =>
    simp only [findPort]
    constructor
    · intro h; cases h
    · rintro ⟨idx, _, h, _⟩; simp at h
  | cons p r ih =>
    unfold findPort
    by_cases hp : eqI p.ident n = true
    · rw [if_pos hp]
      constructor
      · intro h
        simp only [Option.some.injEq, Prod.mk.injEq] at h
        obtain ⟨rfl, rfl⟩ := h
        exact ⟨0, by simp, by simp, hp, by intro j q hj; omega⟩
      · rintro ⟨idx, rfl, h1, h2, h3⟩
        cases idx with
        | zero => simp at h1; subst h1; simp
        | succ i =>
          have := h3 0 p (by omega) (by simp)
          rw [hp] at this; cases this
    · rw [if_neg hp]
      have hp' : eqI p.ident n = false := by simpa using hp
      rw [ih (k + 1)]
      constructor
      · rintro ⟨idx, rfl, h1, h2, h3⟩
        refine ⟨idx + 1, by omega, by simpa using h1, h2, ?_⟩
        intro j q hj hq
        cases j with
        | zero => simp at hq; subst hq; exact hp'
        | succ j' => exact h3 j' q (by omega) (by simpa using hq)
      · rintro ⟨idx, rfl, h1, h2, h3⟩
        cases idx with
        | zero => simp at h1; subst h1; rw [h2] at hp'; cases hp'
        | succ i =>
          refine ⟨i, by omega, by simpa using h1, h2, ?_⟩
          intro j q hj hq
          exact h3 (j + 1) q (by omega) (by simpa using hq)

theorem findPort_none (ps : List PortDecl) (n : String) (k : Nat) :
    findPort ps n k = none ↔ ∀ q ∈ ps, eqI q.ident n = false := by
  induction ps generalizing k with
  | nil => simp [findPort]
  | cons p r ih =>
    unfold findPort
    by_cases hp : eqI p.ident n = true
    · rw [if_pos hp]
      constructor
      · intro h; cases h
      · intro h; have := h p (by simp); rw [hp] at this; cases this
    · rw [if_neg hp, ih]
      have hp' : eqI p.ident n = false := by simpa using hp
      constructor
      · intro h q hq
        rcases List.mem_cons.mp hq with rfl | hq
        · exact hp'
        · exact h q hq
      · intro h q hq; exact h q (List.mem_cons_of_mem _ hq)

theorem FirstPort.unique {ps : List PortDecl} {n : String} {i j : Nat} {p q : PortDecl}
    (h : FirstPort ps n i p) (h' : FirstPort ps n j q) : i = j ∧ p = q := by
  obtain ⟨h1, h2, h3⟩ := h
  obtain ⟨h1', h2', h3'⟩ := h'
  have hij : i = j := by
    rcases Nat.lt_trichotomy i j with hlt | heq | hgt
    · have := h3' i p hlt h1; rw [h2] at this; cases this
    · exact heq
    · have := h3 j q hgt h1'; rw [h2'] at this; cases this
  subst hij
  rw [h1] at h1'
  exact ⟨rfl, Option.some.inj h1'⟩

/-! ### the visibility fold -/

theorem visFrom_append (p : Nat) (v : Vis) (l : List Ev) (e : Ev) :
    visFrom p v (l ++ [e]) = (visFrom p v l).bind (fun v' => visStep (p + l.length) v' e) := by
  induction l generalizing p v with
  | nil =>
    simp only [List.nil_append, visFrom, List.length_nil, Nat.add_zero, Option.bind_some]
    cases visStep p v e <;> rfl
  | cons a r ih =>
    simp only [List.cons_append, visFrom, List.length_cons]
    cases visStep p v a with
    | none => rfl
    | some v' =>
      simp only
      rw [ih]
      have : p + 1 + r.length = p + (r.length + 1) := by omega
      rw [this]

theorem visAt_succ (evs : List Ev) (k : Nat) (e : Ev) (he : evs[k]? = some e) :
    visAt evs (k + 1) = (visAt evs k).bind (fun v => visStep k v e) := by
  have hk : k < evs.length := by
    rcases Nat.lt_or_ge k evs.length with h | h
    · exact h
    · rw [List.getElem?_eq_none h] at he; cases he
  have htake : evs.take (k + 1) = evs.take k ++ [e] := by
    rw [List.take_add_one, he]; rfl
  unfold visAt
  rw [htake, visFrom_append]
  simp [List.length_take, Nat.min_eq_left (Nat.le_of_lt hk)]

theorem visAt_zero (evs : List Ev) : visAt evs 0 = some Vis.empty := by
  simp [visAt, visFrom]

/-! ### the resolver's scope, seen as a `Vis` -/

def Scope.vis (sc : Scope) : Vis :=
  ⟨sc.done, sc.cur, sc.cell.map (fun ci => (ci.1, ci.2.map (·.1)))⟩

theorem empty_vis : Scope.empty.vis = Vis.empty := rfl

theorem firstIn_of_map {β γ : Type} (f : β → γ) (P : γ → Prop) (l : List β) (y : γ)
    (h : FirstIn P (l.map f) y) : ∃ x, FirstIn (fun x => P (f x)) l x ∧ f x = y := by
  obtain ⟨pre, post, hl, hd, hpre⟩ := h
  obtain ⟨l1, l2, rfl, h1, h2⟩ := List.map_eq_append_iff.mp hl
  obtain ⟨x, l3, rfl, hx, _⟩ := List.map_eq_cons_iff.mp h2
  refine ⟨x, ⟨l1, l3, rfl, by show P (f x); rw [hx]; exact hd, ?_⟩, hx⟩
  intro z hz
  exact hpre (f z) (by rw [← h1]; exact List.mem_map.mpr ⟨z, hz, rfl⟩)

/-! ### the lookups, characterised -/

theorem targetCells_spec (all : List Ev) (sc : Scope) (p : Nat) (cs : List Nat) (hcur : sc.cur = some (p, cs))
    (lo : Option String) (cells : List Nat) :
    targetCells all sc (p, cs) lo = .ok cells ↔ LibCells all sc.vis lo cells := by
  have hv : sc.vis.cur = some (p, cs) := hcur
  cases lo with
  | none =>
    simp only [targetCells, LibCells, Except.ok.injEq]
    constructor
    · intro h; exact ⟨p, cs, hv, h.symm⟩
    · rintro ⟨p', cs', h1, h2⟩
      rw [hv] at h1; cases h1; exact h2.symm
  | some ln =>
    simp only [targetCells, LibCells]
    by_cases hn : isLibNamed all ln p = true
    · rw [if_pos hn]
      have hN := (isLibNamed_iff all ln p).mp hn
      constructor
      · intro h
        simp only [Except.ok.injEq] at h
        exact ⟨p, cs, hv, Or.inl ⟨hN, h.symm⟩⟩
      · rintro ⟨p', cs', h1, h2⟩
        rw [hv] at h1; cases h1
        rcases h2 with ⟨_, h3⟩ | ⟨h3, _⟩
        · rw [h3]
        · exact absurd hN h3
    · rw [if_neg hn]
      have hN : ¬ LibNamed all ln p := fun h => hn ((isLibNamed_iff all ln p).mpr h)
      have key := find_firstIn (fun L : Nat × List Nat => isLibNamed all ln L.1)
        (fun L : Nat × List Nat => LibNamed all ln L.1) (fun L => isLibNamed_iff all ln L.1) sc.done
      cases hf : sc.done.find? (fun L : Nat × List Nat => isLibNamed all ln L.1) with
      | none =>
        simp only
        constructor
        · intro h; cases h
        · rintro ⟨p', cs', h1, h2⟩
          rcases h2 with ⟨h3, _⟩ | ⟨_, q, h4⟩
          · rw [hv] at h1; cases h1; exact absurd h3 hN
          · have := (key (q, cells)).mpr h4
            rw [hf] at this; cases this
      | some L =>
        simp only [Except.ok.injEq]
        constructor
        · intro h
          refine ⟨p, cs, hv, Or.inr ⟨hN, L.1, ?_⟩⟩
          have := (key L).mp hf
          rw [← h]; exact this
        · rintro ⟨p', cs', h1, h2⟩
          rcases h2 with ⟨h3, _⟩ | ⟨_, q, h4⟩
          · rw [hv] at h1; cases h1; exact absurd h3 hN
          · have := (key (q, cells)).mpr h4
            rw [hf] at this
            cases this; rfl

theorem pickCell_spec (all : List Ev) (cells : List Nat) (cn v : String) (d : Nat) :
    pickCell all cells cn v = .ok d ↔ FirstIn (CellNamed all cn) cells d ∧ ViewIs all v d := by
  have key := find_firstIn (isCellNamed all cn) (CellNamed all cn) (isCellNamed_iff all cn) cells
  unfold pickCell
  cases hf : cells.find? (isCellNamed all cn) with
  | none =>
    simp only
    constructor
    · intro h; cases h
    · rintro ⟨h1, _⟩
      have := (key d).mpr h1
      rw [hf] at this; cases this
  | some d' =>
    simp only
    by_cases hv : viewIs all v d' = true
    · rw [if_pos hv]
      simp only [Except.ok.injEq]
      constructor
      · intro h; subst h
        exact ⟨(key d').mp hf, (viewIs_iff all v d').mp hv⟩
      · rintro ⟨h1, _⟩
        have := (key d).mpr h1
        rw [hf] at this; cases this; rfl
    · rw [if_neg hv]
      constructor
      · intro h; cases h
      · rintro ⟨h1, h2⟩
        have := (key d).mpr h1
        rw [hf] at this; cases this
        exact absurd ((viewIs_iff all v d).mpr h2) hv

theorem resolveTarget_spec (all : List Ev) (sc : Scope) (p : Nat) (cs : List Nat) (hcur : sc.cur = some (p, cs))
    (c : Nat) (v : String) (co lo : Option String) (t : Nat) :
    resolveTarget all sc (p, cs) c v co lo = .ok t ↔
      ViewIs all v t ∧
      match co with
      | none => t = c
      | some cn => ∃ cells, LibCells all sc.vis lo cells ∧ FirstIn (CellNamed all cn) cells t := by
  cases co with
  | none =>
    simp only [resolveTarget]
    by_cases hv : viewIs all v c = true
    · rw [if_pos hv]
      simp only [Except.ok.injEq]
      constructor
      · intro h; subst h; exact ⟨(viewIs_iff all v c).mp hv, rfl⟩
      · rintro ⟨_, h⟩; exact h.symm
    · rw [if_neg hv]
      constructor
      · intro h; cases h
      · rintro ⟨h1, h2⟩; subst h2; exact absurd ((viewIs_iff all v t).mpr h1) hv
  | some cn =>
    simp only [resolveTarget]
    cases ht : targetCells all sc (p, cs) lo with
    | error e =>
      simp only
      constructor
      · intro h; cases h
      · rintro ⟨_, cells, h1, _⟩
        have := (targetCells_spec all sc p cs hcur lo cells).mpr h1
        rw [ht] at this; cases this
    | ok cells =>
      simp only
      rw [pickCell_spec]
      constructor
      · rintro ⟨h1, h2⟩
        exact ⟨h2, cells, (targetCells_spec all sc p cs hcur lo cells).mp ht, h1⟩
      · rintro ⟨h2, cells', h1, h3⟩
        have := (targetCells_spec all sc p cs hcur lo cells').mpr h1
        rw [ht] at this; cases this
        exact ⟨h3, h2⟩

theorem ownerOf_spec (all : List Ev) (c : Nat) (insts : List (Nat × Nat)) (io : Option String) (o : Nat) (ia : Option Nat) :
    ownerOf all c insts io = .ok (o, ia) ↔
      match io, ia with
      | none, none => o = c
      | some iname, some a => FirstIn (fun x : Nat × Nat => InstNamed all iname x.1) insts (a, o)
      | _, _ => False := by
  cases io with
  | none =>
    simp only [ownerOf, Except.ok.injEq, Prod.mk.injEq]
    cases ia with
    | none =>
      simp only [and_true]
      constructor <;> (intro h; exact h.symm)
    | some a => simp
  | some iname =>
    simp only [ownerOf]
    have key := find_firstIn (fun x : Nat × Nat => isInstNamed all iname x.1)
      (fun x : Nat × Nat => InstNamed all iname x.1) (fun x => isInstNamed_iff all iname x.1) insts
    cases hf : insts.find? (fun x : Nat × Nat => isInstNamed all iname x.1) with
    | none =>
      simp only
      constructor
      · intro h; cases h
      · intro h
        cases ia with
        | none => exact h.elim
        | some a =>
          have := (key (a, o)).mpr h
          rw [hf] at this; cases this
    | some x =>
      simp only [Except.ok.injEq, Prod.mk.injEq]
      cases ia with
      | none => simp
      | some a =>
        simp only [Option.some.injEq]
        constructor
        · rintro ⟨h1, h2⟩
          have := (key x).mp hf
          rw [← h1, ← h2]; exact this
        · intro h
          have := (key (a, o)).mpr h
          rw [hf] at this; cases this
          exact ⟨rfl, rfl⟩

theorem pickPort_spec (all : List Ev) (o : Nat) (ia : Option Nat) (pn : String) (m : Option Nat) (r : RRef) :
    pickPort all o ia pn m = .ok r ↔
      ∃ ps k pd, portsOf all o = some ps ∧ FirstPort ps pn k pd ∧ m.getD 0 < pd.width ∧ r = .pin o k (m.getD 0) ia := by
  unfold pickPort
  cases hp : portsOf all o with
  | none =>
    simp only
    constructor
    · intro h; cases h
    · rintro ⟨ps, k, pd, h, _⟩; cases h
  | some ps =>
    simp only
    cases hf : findPort ps pn 0 with
    | none =>
      simp only
      constructor
      · intro h; cases h
      · rintro ⟨ps', k, pd, h1, h2, _⟩
        cases h1
        have := (findPort_none ps pn 0).mp hf pd (List.mem_of_getElem? h2.1)
        rw [h2.2.1] at this; cases this
    | some kp =>
      obtain ⟨k, pd⟩ := kp
      obtain ⟨idx, hk, hfp⟩ := (findPort_spec ps pn 0 k pd).mp hf
      have hk' : k = idx := by omega
      subst hk'
      simp only
      by_cases hw : m.getD 0 < pd.width
      · rw [if_pos hw]
        simp only [Except.ok.injEq]
        constructor
        · intro h; exact ⟨ps, k, pd, rfl, hfp, hw, h.symm⟩
        · rintro ⟨ps', k', pd', h1, h2, _, h4⟩
          cases h1
          obtain ⟨rfl, rfl⟩ := hfp.unique h2
          exact h4.symm
      · rw [if_neg hw]
        constructor
        · intro h; cases h
        · rintro ⟨ps', k', pd', h1, h2, h3, _⟩
          cases h1
          obtain ⟨rfl, rfl⟩ := hfp.unique h2
          exact absurd h3 hw

theorem pickTop_spec (all : List Ev) (done : List (Nat × List Nat)) (cn ln : String) (r : RRef) :
    pickTop all done cn ln = .ok r ↔
      ∃ q cells d, FirstIn (fun L : Nat × List Nat => LibNamed all ln L.1) done (q, cells) ∧
        FirstIn (CellNamed all cn) cells d ∧ r = .top d := by
  have keyL := find_firstIn (fun L : Nat × List Nat => isLibNamed all ln L.1)
    (fun L : Nat × List Nat => LibNamed all ln L.1) (fun L => isLibNamed_iff all ln L.1) done
  unfold pickTop
  cases hL : done.find? (fun L : Nat × List Nat => isLibNamed all ln L.1) with
  | none =>
    simp only
    constructor
    · intro h; cases h
    · rintro ⟨q, cells, d, h1, _⟩
      have := (keyL (q, cells)).mpr h1
      rw [hL] at this; cases this
  | some L =>
    simp only
    have keyC := find_firstIn (isCellNamed all cn) (CellNamed all cn) (isCellNamed_iff all cn) L.2
    cases hC : L.2.find? (isCellNamed all cn) with
    | none =>
      simp only
      constructor
      · intro h; cases h
      · rintro ⟨q, cells, d, h1, h2, _⟩
        have := (keyL (q, cells)).mpr h1
        rw [hL] at this; cases this
        have := (keyC d).mpr h2
        rw [hC] at this; cases this
    | some d' =>
      simp only [Except.ok.injEq]
      constructor
      · intro h
        exact ⟨L.1, L.2, d', (keyL L).mp hL, (keyC d').mp hC, h.symm⟩
      · rintro ⟨q, cells, d, h1, h2, h3⟩
        have := (keyL (q, cells)).mpr h1
        rw [hL] at this; cases this
        have := (keyC d).mpr h2
        rw [hC] at this; cases this
        exact h3.symm

/-! ### uniqueness of what the rules prescribe -/

theorem LibCells.unique {all : List Ev} {v : Vis} {lo : Option String} {a b : List Nat}
    (ha : LibCells all v lo a) (hb : LibCells all v lo b) : a = b := by
  obtain ⟨p, cs, h1, h2⟩ := ha
  obtain ⟨p', cs', h1', h2'⟩ := hb
  rw [h1] at h1'; cases h1'
  cases lo with
  | none => simp only at h2 h2'; rw [h2, h2']
  | some ln =>
    simp only at h2 h2'
    rcases h2 with ⟨hn, rfl⟩ | ⟨hn, q, hq⟩ <;> rcases h2' with ⟨hn', rfl⟩ | ⟨hn', q', hq'⟩
    · rfl
    · exact absurd hn hn'
    · exact absurd hn' hn
    · have := hq.unique hq'
      exact (Prod.mk.inj this).2

theorem CellRefOk.unique {all : List Ev} {k d d' : Nat} (h : CellRefOk all k d) (h' : CellRefOk all k d') : d = d' := by
  obtain ⟨iid, iv, co, lo, v, he, hv, _, hm⟩ := h
  obtain ⟨iid', iv', co', lo', v', he', hv', _, hm'⟩ := h'
  rw [he] at he'; cases he'
  rw [hv] at hv'; cases hv'
  cases co with
  | none =>
    simp only at hm hm'
    obtain ⟨is, h1⟩ := hm
    obtain ⟨is', h1'⟩ := hm'
    rw [h1] at h1'; cases h1'; rfl
  | some cn =>
    simp only at hm hm'
    obtain ⟨cells, h1, h2⟩ := hm
    obtain ⟨cells', h1', h2'⟩ := hm'
    have := h1.unique h1'
    subst this
    exact h2.unique h2'

/-! ### one event -/

structure Inv (all : List Ev) (pos : Nat) (sc : Scope) : Prop where
  vis : visAt all pos = some sc.vis
  insts : ∀ c is a t, sc.cell = some (c, is) → (a, t) ∈ is → CellRefOk all a t

theorem inv_init (all : List Ev) : Inv all 0 Scope.empty :=
  ⟨by rw [visAt_zero, empty_vis], by intro c is a t h; cases h⟩

theorem lockstep (all : List Ev) (pos : Nat) (sc : Scope) (e : Ev) (sr : Scope × Option RRef)
    (h : stepEv all pos sc e = .ok sr) : visStep pos sc.vis e = some sr.1.vis := by
  obtain ⟨done, cur, cell⟩ := sc
  cases e with
  | lib i => cases cur <;> cases cell <;> simp only [stepEv] at h <;> cases h <;> rfl
  | endLib => cases cur <;> cases cell <;> simp only [stepEv] at h <;> cases h <;> rfl
  | cell i v ps => cases cur <;> cases cell <;> simp only [stepEv] at h <;> cases h <;> rfl
  | endCell => cases cur <;> cases cell <;> simp only [stepEv] at h <;> cases h <;> rfl
  | inst i v co lo =>
    cases cur <;> cases cell <;> simp only [stepEv] at h <;> try cases h
    rename_i l ci
    cases ht : resolveTarget all ⟨done, some l, some ci⟩ l ci.1 v co lo with
    | error err => rw [ht] at h; cases h
    | ok t =>
      rw [ht] at h
      simp only [Except.ok.injEq] at h
      subst h
      simp [visStep, Scope.vis]
  | portRef pn m io =>
    cases cur <;> cases cell <;> simp only [stepEv] at h <;> try cases h
    rename_i l ci
    cases ho : ownerOf all ci.1 ci.2 io with
    | error err => rw [ho] at h; cases h
    | ok oa =>
      rw [ho] at h
      simp only at h
      cases hp : pickPort all oa.1 oa.2 pn m with
      | error err => rw [hp] at h; cases h
      | ok r =>
        rw [hp] at h
        simp only [Except.ok.injEq] at h
        subst h
        rfl
  | design cn ln =>
    cases cur <;> cases cell <;> simp only [stepEv] at h <;> try cases h
    cases hp : pickTop all done cn ln with
    | error err => rw [hp] at h; cases h
    | ok r =>
      rw [hp] at h
      simp only [Except.ok.injEq] at h
      subst h
      rfl

theorem step_sound {all : List Ev} {pos : Nat} {sc : Scope} {e : Ev} {sr : Scope × Option RRef}
    (hi : Inv all pos sc) (he : all[pos]? = some e) (h : stepEv all pos sc e = .ok sr) :
    Inv all (pos + 1) sr.1 ∧ (∀ x, sr.2 = some x → RefOk all pos x) ∧ sr.2.isSome = isRef e := by
  have hvis : visAt all (pos + 1) = some sr.1.vis := by
    rw [visAt_succ all pos e he, hi.vis]
    exact lockstep all pos sc e sr h
  obtain ⟨done, cur, cell⟩ := sc
  cases e with
  | lib i =>
    cases cur <;> cases cell <;> simp only [stepEv] at h <;> cases h
    exact ⟨⟨hvis, by intro c is a t hc; cases hc⟩, by simp, rfl⟩
  | endLib =>
    cases cur <;> cases cell <;> simp only [stepEv] at h <;> cases h
    exact ⟨⟨hvis, by intro c is a t hc; cases hc⟩, by simp, rfl⟩
  | cell i v ps =>
    cases cur <;> cases cell <;> simp only [stepEv] at h <;> cases h
    refine ⟨⟨hvis, ?_⟩, by simp, rfl⟩
    intro c is a t hc hm
    simp only [Option.some.injEq, Prod.mk.injEq] at hc
    obtain ⟨_, rfl⟩ := hc
    simp at hm
  | endCell =>
    cases cur <;> cases cell <;> simp only [stepEv] at h <;> cases h
    exact ⟨⟨hvis, by intro c is a t hc; cases hc⟩, by simp, rfl⟩
  | inst i v co lo =>
    cases cur <;> cases cell <;> simp only [stepEv] at h <;> try cases h
    rename_i l ci
    obtain ⟨p, cs⟩ := l
    obtain ⟨c, insts⟩ := ci
    cases ht : resolveTarget all ⟨done, some (p, cs), some (c, insts)⟩ (p, cs) c v co lo with
    | error err => rw [ht] at h; cases h
    | ok t =>
      rw [ht] at h
      simp only [Except.ok.injEq] at h
      subst h
      obtain ⟨hview, hm⟩ := (resolveTarget_spec all ⟨done, some (p, cs), some (c, insts)⟩ p cs rfl c v co lo t).mp ht
      have hcr : CellRefOk all pos t := by
        refine ⟨i, v, co, lo, _, he, hi.vis, hview, ?_⟩
        cases co with
        | none => simp only at hm ⊢; subst hm; exact ⟨insts.map (·.1), rfl⟩
        | some cn => exact hm
      refine ⟨⟨hvis, ?_⟩, ?_, rfl⟩
      · intro c' is' a t' hc hmem
        simp only [Option.some.injEq, Prod.mk.injEq] at hc
        obtain ⟨_, rfl⟩ := hc
        rcases List.mem_append.mp hmem with hmem | hmem
        · exact hi.insts c insts a t' rfl hmem
        · simp only [List.mem_singleton, Prod.mk.injEq] at hmem
          obtain ⟨rfl, rfl⟩ := hmem
          exact hcr
      · intro x hx
        simp only [Option.some.injEq] at hx
        subst hx
        exact hcr
  | portRef pn m io =>
    cases cur <;> cases cell <;> simp only [stepEv] at h <;> try cases h
    rename_i l ci
    obtain ⟨c, insts⟩ := ci
    cases ho : ownerOf all c insts io with
    | error err => rw [ho] at h; cases h
    | ok oa =>
      obtain ⟨o, ia⟩ := oa
      rw [ho] at h
      simp only at h
      cases hp : pickPort all o ia pn m with
      | error err => rw [hp] at h; cases h
      | ok r =>
        rw [hp] at h
        simp only [Except.ok.injEq] at h
        subst h
        refine ⟨⟨hvis, hi.insts⟩, ?_, rfl⟩
        intro x hx
        simp only [Option.some.injEq] at hx
        subst hx
        obtain ⟨ps, k, pd, h1, h2, h3, rfl⟩ := (pickPort_spec all o ia pn m r).mp hp
        have hown := (ownerOf_spec all c insts io o ia).mp ho
        refine ⟨pn, m, io, _, c, insts.map (·.1), he, hi.vis, rfl, ?_, ps, pd, h1, h2, rfl, h3⟩
        cases io <;> cases ia <;> simp only at hown ⊢
        · exact hown
        · rename_i iname a
          exact ⟨firstIn_map (fun x : Nat × Nat => x.1) (InstNamed all iname) insts (a, o) hown,
            hi.insts c insts a o rfl hown.mem.1⟩
  | design cn ln =>
    cases cur <;> cases cell <;> simp only [stepEv] at h <;> try cases h
    cases hp : pickTop all done cn ln with
    | error err => rw [hp] at h; cases h
    | ok r =>
      rw [hp] at h
      simp only [Except.ok.injEq] at h
      subst h
      refine ⟨⟨hvis, hi.insts⟩, ?_, rfl⟩
      intro x hx
      simp only [Option.some.injEq] at hx
      subst hx
      obtain ⟨q, cells, d, h1, h2, rfl⟩ := (pickTop_spec all done cn ln r).mp hp
      exact ⟨cn, ln, _, q, cells, he, hi.vis, h1, h2⟩

/-- conversely: if the event is allowed here and the rules prescribe a resolution, the resolver finds one -/
theorem step_complete {all : List Ev} {pos : Nat} {sc : Scope} {e : Ev}
    (hi : Inv all pos sc) (he : all[pos]? = some e) (hn : (visAt all (pos + 1)).isSome = true)
    (hr : isRef e = true → ∃ x, RefOk all pos x) : ∃ sr, stepEv all pos sc e = .ok sr := by
  rw [visAt_succ all pos e he, hi.vis] at hn
  simp only [Option.bind_some] at hn
  have hvis := hi.vis
  obtain ⟨done, cur, cell⟩ := sc
  cases e with
  | lib i => cases cur <;> cases cell <;> simp [visStep, Scope.vis] at hn <;> exact ⟨_, rfl⟩
  | endLib => cases cur <;> cases cell <;> simp [visStep, Scope.vis] at hn <;> exact ⟨_, rfl⟩
  | cell i v ps => cases cur <;> cases cell <;> simp [visStep, Scope.vis] at hn <;> exact ⟨_, rfl⟩
  | endCell => cases cur <;> cases cell <;> simp [visStep, Scope.vis] at hn <;> exact ⟨_, rfl⟩
  | inst i v co lo =>
    cases cur <;> cases cell <;> simp [visStep, Scope.vis] at hn
    rename_i l ci
    obtain ⟨p, cs⟩ := l
    obtain ⟨c, insts⟩ := ci
    obtain ⟨x, hx⟩ := hr rfl
    cases x with
    | pin c' port bit ia => obtain ⟨pid, m, io, v', cc, is, h1, _⟩ := hx; rw [he] at h1; cases h1
    | top d => obtain ⟨cn, ln, v', q, cells, h1, _⟩ := hx; rw [he] at h1; cases h1
    | cell d =>
      obtain ⟨iid, iv, co', lo', v', h1, h2, h3, h4⟩ := hx
      rw [he] at h1; cases h1
      rw [hvis] at h2; cases h2
      have : resolveTarget all ⟨done, some (p, cs), some (c, insts)⟩ (p, cs) c v co lo = .ok d := by
        apply (resolveTarget_spec all ⟨done, some (p, cs), some (c, insts)⟩ p cs rfl c v co lo d).mpr
        refine ⟨h3, ?_⟩
        cases co with
        | none =>
          simp only at h4 ⊢
          obtain ⟨is, h5⟩ := h4
          simp only [Scope.vis, Option.map_some, Option.some.injEq, Prod.mk.injEq] at h5
          exact h5.1.symm
        | some cn => exact h4
      exact ⟨(⟨done, some (p, cs), some (c, insts ++ [(pos, d)])⟩, some (.cell d)), by simp only [stepEv, this]⟩
  | portRef pn m io =>
    cases cur <;> cases cell <;> simp [visStep, Scope.vis] at hn
    rename_i l ci
    obtain ⟨c, insts⟩ := ci
    obtain ⟨x, hx⟩ := hr rfl
    cases x with
    | cell d => obtain ⟨iid, iv, co', lo', v', h1, _⟩ := hx; rw [he] at h1; cases h1
    | top d => obtain ⟨cn, ln, v', q, cells, h1, _⟩ := hx; rw [he] at h1; cases h1
    | pin c' port bit ia =>
      obtain ⟨pid, m', io', v', cc, is, h1, h2, h3, h4, ps, pd, h5, h6, h7, h8⟩ := hx
      rw [he] at h1; cases h1
      rw [hvis] at h2; cases h2
      simp only [Scope.vis, Option.map_some, Option.some.injEq, Prod.mk.injEq] at h3
      obtain ⟨rfl, rfl⟩ := h3
      -- the owner the resolver finds is the one the rules prescribe
      have hown : ownerOf all c insts io = .ok (c', ia) := by
        apply (ownerOf_spec all c insts io c' ia).mpr
        cases io <;> cases ia <;> simp only at h4 ⊢
        · exact h4
        · rename_i iname a
          obtain ⟨hf, hcr⟩ := h4
          obtain ⟨y, hy, hya⟩ := firstIn_of_map (fun x : Nat × Nat => x.1) (InstNamed all iname) insts a hf
          obtain ⟨a', t'⟩ := y
          simp only at hya
          subst hya
          have := (hi.insts c insts a' t' rfl hy.mem.1).unique hcr
          subst this
          exact hy
      have hpick : pickPort all c' ia pn m = .ok (.pin c' port (m.getD 0) ia) :=
        (pickPort_spec all c' ia pn m _).mpr ⟨ps, port, pd, h5, h6, by rw [← h7]; exact h8, rfl⟩
      exact ⟨(⟨done, some l, some (c, insts)⟩, some (.pin c' port (m.getD 0) ia)), by simp only [stepEv, hown, hpick]⟩
  | design cn ln =>
    cases cur <;> cases cell <;> simp [visStep, Scope.vis] at hn
    obtain ⟨x, hx⟩ := hr rfl
    cases x with
    | cell d => obtain ⟨iid, iv, co', lo', v', h1, _⟩ := hx; rw [he] at h1; cases h1
    | pin c' port bit ia => obtain ⟨pid, m, io, v', cc, is, h1, _⟩ := hx; rw [he] at h1; cases h1
    | top d =>
      obtain ⟨cn', ln', v', q, cells, h1, h2, h3, h4⟩ := hx
      rw [he] at h1; cases h1
      rw [hvis] at h2; cases h2
      have : pickTop all done cn ln = .ok (.top d) :=
        (pickTop_spec all done cn ln _).mpr ⟨q, cells, d, h3, h4, rfl⟩
      exact ⟨(⟨done, none, none⟩, some (.top d)), by simp only [stepEv, this]⟩

/-! ### the whole stream -/

theorem go_sound (all : List Ev) (pre rest : List Ev) (hall : all = pre ++ rest) (sc : Scope)
    (hsc : Inv all pre.length sc) (rs : List (Nat × RRef)) (hgo : go all pre.length sc rest = .ok rs) :
    (∀ kr ∈ rs, RefOk all kr.1 kr.2) ∧ rs.map (·.1) = refPositions pre.length rest ∧
    (∀ j, j ≤ rest.length → (visAt all (pre.length + j)).isSome = true) := by
  induction rest generalizing pre sc rs with
  | nil =>
    simp only [go, Except.ok.injEq] at hgo
    subst hgo
    refine ⟨by simp, rfl, ?_⟩
    intro j hj
    have : j = 0 := by simpa using hj
    subst this
    simp [hsc.vis]
  | cons e rest ih =>
    have he : all[pre.length]? = some e := by rw [hall]; simp
    simp only [go] at hgo
    cases hs : stepEv all pre.length sc e with
    | error err => simp [hs] at hgo
    | ok sr =>
      simp only [hs] at hgo
      cases hg : go all (pre.length + 1) sr.1 rest with
      | error err => simp [hg] at hgo
      | ok rs' =>
        simp only [hg, Except.ok.injEq] at hgo
        obtain ⟨h1, h2, h4⟩ := step_sound hsc he hs
        have hlen : (pre ++ [e]).length = pre.length + 1 := by simp
        obtain ⟨i1, i3, i5⟩ := ih (pre ++ [e]) (by rw [hall]; simp) sr.1 (by rw [hlen]; exact h1) rs'
          (by rw [hlen]; exact hg)
        rw [hlen] at i3 i5
        obtain ⟨sc', r⟩ := sr
        simp only at hgo h2 h4
        refine ⟨?_, ?_, ?_⟩
        rotate_left 2
        · intro j hj
          cases j with
          | zero => simp [hsc.vis]
          | succ j =>
            have := i5 j (by simpa using hj)
            have e1 : pre.length + 1 + j = pre.length + (j + 1) := by omega
            rw [e1] at this; exact this
        · intro kr hkr
          cases r with
          | none => simp only at hgo; subst hgo; exact i1 kr hkr
          | some x =>
            simp only at hgo; subst hgo
            rcases List.mem_cons.mp hkr with rfl | hkr
            · exact h2 x rfl
            · exact i1 kr hkr
        · cases r with
          | none =>
            simp only at hgo; subst hgo
            have : isRef e = false := by simpa using h4.symm
            simp [refPositions, this, i3]
          | some x =>
            simp only at hgo; subst hgo
            have : isRef e = true := by simpa using h4.symm
            simp [refPositions, this, i3]

theorem go_complete (all : List Ev) (hn : wellNested all)
    (hr : ∀ k e, all[k]? = some e → isRef e = true → ∃ r, RefOk all k r)
    (pre rest : List Ev) (hall : all = pre ++ rest) (sc : Scope) (hsc : Inv all pre.length sc) :
    ∃ rs, go all pre.length sc rest = .ok rs := by
  induction rest generalizing pre sc with
  | nil => exact ⟨[], rfl⟩
  | cons e rest ih =>
    have he : all[pre.length]? = some e := by rw [hall]; simp
    have hk : pre.length + 1 ≤ all.length := by rw [hall]; simp
    obtain ⟨sr, hs⟩ := step_complete hsc he (hn _ hk) (hr _ e he)
    obtain ⟨h1, _, _⟩ := step_sound hsc he hs
    have hlen : (pre ++ [e]).length = pre.length + 1 := by simp
    obtain ⟨rs', hg⟩ := ih (pre ++ [e]) (by rw [hall]; simp) sr.1 (by rw [hlen]; exact h1)
    rw [hlen] at hg
    exact ⟨(match sr.2 with | some x => (pre.length, x) :: rs' | none => rs'), by simp only [go, hs, hg]; rfl⟩

theorem mem_refPositions (evs : List Ev) (base k : Nat) (e : Ev) (he : evs[k]? = some e) (hr : isRef e = true) :
    base + k ∈ refPositions base evs := by
  induction evs generalizing base k with
  | nil => simp at he
  | cons a r ih =>
    cases k with
    | zero =>
      simp at he; subst he
      simp [refPositions, hr]
    | succ k =>
      have := ih (base + 1) k (by simpa using he)
      have e1 : base + 1 + k = base + (k + 1) := by omega
      rw [e1] at this
      simp only [refPositions]
      split
      · exact List.mem_cons_of_mem _ this
      · exact this

end Spydr.IO.Resolve
