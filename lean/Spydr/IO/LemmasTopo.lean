/-
  C16 — invariant of the `_topological_sort` machine, partial correctness, fixpoint on sorted input,
  fuel monotonicity.
-/
import Spydr.IO.ModelTopo
import Spydr.IO.SpecTopo
namespace Spydr.IO.Topo

variable {α : Type} [DecidableEq α]

theorem pushed_eq_nil {deps : α → List α} {out : List α} {o : α} :
    pushed deps out o = [] ↔ ∀ d ∈ deps o, d ∈ out := by
  simp [pushed, List.filter_eq_nil_iff]

theorem mem_pushed {deps : α → List α} {out : List α} {o c : α} :
    c ∈ pushed deps out o ↔ c ∈ deps o ∧ c ∉ out := by
  simp [pushed, List.mem_filter]

theorem depOrdered_nil (deps : α → List α) : DepOrdered deps [] := by
  intro pre x post h
  cases pre <;> simp at h

theorem depOrdered_concat {deps : α → List α} {out : List α} {o : α}
    (h : DepOrdered deps out) (ho : ∀ d ∈ deps o, d ∈ out) : DepOrdered deps (out ++ [o]) := by
  intro pre x post heq d hd
  rcases List.eq_nil_or_concat post with rfl | ⟨post', y, rfl⟩
  · have h2 : out ++ [o] = pre ++ [x] := heq
    have := List.append_inj' h2 rfl
    obtain ⟨h3, h4⟩ := this
    simp at h4
    subst h3; subst h4
    exact ho d hd
  · have h2 : out ++ [o] = (pre ++ x :: post') ++ [y] := by simpa using heq
    have := List.append_inj' h2 rfl
    exact h pre x post' this.1 d hd

theorem depOrdered_prefix {deps : α → List α} {a b : List α}
    (h : DepOrdered deps (a ++ b)) : DepOrdered deps a := by
  intro pre x post heq d hd
  exact h pre x (post ++ b) (by rw [heq]; simp) d hd

/-- the loop invariant -/
structure Inv (deps : α → List α) (input : List α) (s : TS α) : Prop where
  nodup : s.out.Nodup
  ordered : DepOrdered deps s.out
  outIn : ∀ x ∈ s.out, x ∈ input
  stackIn : ∀ x ∈ s.stack, x ∈ input
  consumed : ∃ pre, input = pre ++ s.todo ∧ ∀ x ∈ pre, x ∈ s.out ∨ x ∈ s.stack

theorem inv_init (deps : α → List α) (input : List α) : Inv deps input (init input) :=
  ⟨List.nodup_nil, depOrdered_nil deps, by simp [init], by simp [init], ⟨[], by simp [init], by simp⟩⟩

theorem visit_nodup {out : List α} {o : α} (h : out.Nodup) : (visit out o).Nodup := by
  unfold visit
  split
  · exact h
  · rename_i ho
    rw [List.nodup_append]
    refine ⟨h, by simp, ?_⟩
    intro a ha b hb
    simp at hb
    subst hb
    intro hab; subst hab; exact ho ha

theorem mem_visit {out : List α} {o x : α} : x ∈ visit out o ↔ x ∈ out ∨ x = o := by
  unfold visit
  split
  · rename_i ho
    constructor
    · exact Or.inl
    · rintro (h | rfl)
      · exact h
      · exact ho
  · simp

theorem visit_ordered {deps : α → List α} {out : List α} {o : α}
    (h : DepOrdered deps out) (ho : ∀ d ∈ deps o, d ∈ out) : DepOrdered deps (visit out o) := by
  unfold visit
  split
  · exact h
  · exact depOrdered_concat h ho

theorem step_inv {deps : α → List α} {input : List α} (hns : NoSelf deps) (hcl : Closed deps input)
    {s s' : TS α} (hi : Inv deps input s) (hs : step deps s = some s') : Inv deps input s' := by
  obtain ⟨stack, todo, out⟩ := s
  obtain ⟨hnd, hord, hout, hstk, pre, hpre, hcons⟩ := hi
  simp only at hnd hord hout hstk hpre hcons
  cases stack with
  | nil =>
    cases todo with
    | nil => simp [step] at hs
    | cons o todo' =>
      simp only [step] at hs
      split at hs
      · rename_i hmem
        cases hs
        refine ⟨hnd, hord, hout, hstk, pre ++ [o], by simp [hpre], ?_⟩
        intro x hx
        rcases List.mem_append.mp hx with hx | hx
        · exact hcons x hx
        · simp at hx; subst hx; exact Or.inl hmem
      · cases hs
        refine ⟨hnd, hord, hout, ?_, pre ++ [o], by simp [hpre], ?_⟩
        · intro x hx
          simp at hx; subst hx
          rw [hpre]; simp
        · intro x hx
          rcases List.mem_append.mp hx with hx | hx
          · rcases hcons x hx with h | h
            · exact Or.inl h
            · simp at h
          · simp at hx; subst hx; exact Or.inr (by simp)
  | cons o rest =>
    have hoin : o ∈ input := hstk o (by simp)
    simp only [step] at hs
    split at hs
    · -- nothing pushed
      rename_i hnil
      have hall : ∀ d ∈ deps o, d ∈ out := by
        have : pushed deps out o = [] := by simpa using hnil
        exact pushed_eq_nil.mp this
      cases hs
      refine ⟨visit_nodup hnd, visit_ordered hord hall, ?_, ?_, pre, hpre, ?_⟩
      · intro x hx
        rcases mem_visit.mp hx with h | rfl
        · exact hout x h
        · exact hoin
      · intro x hx; exact hstk x (List.mem_cons_of_mem _ hx)
      · intro x hx
        rcases hcons x hx with h | h
        · exact Or.inl (mem_visit.mpr (Or.inl h))
        · rcases List.mem_cons.mp h with rfl | h
          · exact Or.inl (mem_visit.mpr (Or.inr rfl))
          · exact Or.inr h
    · rename_i t ts hrev
      have htmem : ∀ c, c ∈ t :: ts → c ∈ deps o ∧ c ∉ out := by
        intro c hc
        have : c ∈ (pushed deps out o).reverse := by rw [hrev]; exact hc
        exact mem_pushed.mp (List.mem_reverse.mp this)
      split at hs
      · -- self dependency: excluded
        rename_i hto
        exact absurd ((htmem t (by simp)).1) (by rw [hto]; exact hns o)
      · cases hs
        refine ⟨hnd, hord, hout, ?_, pre, hpre, ?_⟩
        · intro x hx
          have hx' : x ∈ (t :: ts) ++ o :: rest := by simpa using hx
          rcases List.mem_append.mp hx' with h | h
          · exact hcl o hoin x (htmem x h).1
          · exact hstk x h
        · intro x hx
          rcases hcons x hx with h | h
          · exact Or.inl h
          · refine Or.inr ?_
            have : x ∈ (t :: ts) ++ o :: rest := List.mem_append_right _ h
            simpa using this

theorem run_inv {deps : α → List α} {input : List α} (hns : NoSelf deps) (hcl : Closed deps input)
    (f : Nat) (s : TS α) (hi : Inv deps input s) : Inv deps input (run deps f s).1 := by
  induction f generalizing s with
  | zero => simpa [run] using hi
  | succ f ih =>
    simp only [run]
    split
    · exact hi
    · rename_i s' hs
      exact ih s' (step_inv hns hcl hi hs)

theorem step_none {deps : α → List α} {s : TS α} (h : step deps s = none) : s.stack = [] ∧ s.todo = [] := by
  obtain ⟨stack, todo, out⟩ := s
  cases stack with
  | nil =>
    cases todo with
    | nil => exact ⟨rfl, rfl⟩
    | cons o t => simp only [step] at h; split at h <;> cases h
  | cons o rest =>
    simp only [step] at h
    split at h
    · cases h
    · split at h <;> cases h

theorem run_finished {deps : α → List α} (f : Nat) (s : TS α) (h : (run deps f s).2 = true) :
    step deps (run deps f s).1 = none := by
  induction f generalizing s with
  | zero => simpa [run] using h
  | succ f ih =>
    simp only [run] at h ⊢
    split
    · rename_i hs; exact hs
    · rename_i s' hs
      rw [hs] at h
      exact ih s' h

/-- partial correctness of the sort: when the loops end, the output is a dependency-first permutation -/
theorem toposort_spec {deps : α → List α} {input : List α} (hns : NoSelf deps) (hcl : Closed deps input)
    (hnd : input.Nodup) (f : Nat) (hfin : (toposort deps f input).2 = true) :
    TopoOrder deps input (toposort deps f input).1 := by
  have hi := run_inv hns hcl f (init input) (inv_init deps input)
  have hn := step_none (run_finished f (init input) hfin)
  obtain ⟨hnd', hord, hout, _, pre, hpre, hcons⟩ := hi
  refine ⟨?_, hord⟩
  apply (List.perm_ext_iff_of_nodup hnd' hnd).mpr
  intro a
  constructor
  · exact hout a
  · intro ha
    rw [hpre, hn.2, List.append_nil] at ha
    rcases hcons a ha with h | h
    · exact h
    · rw [hn.1] at h; simp at h

/-! ### already sorted input is a fixpoint -/

theorem run_sorted (deps : α → List α) (todo out : List α) (k : Nat)
    (hord : DepOrdered deps (out ++ todo)) (hnd : (out ++ todo).Nodup) :
    run deps (2 * todo.length + k) ⟨[], todo, out⟩ = (⟨[], [], out ++ todo⟩, true) := by
  induction todo generalizing out with
  | nil =>
    cases k with
    | zero => simp [run, step]
    | succ k => simp [run, step]
  | cons o t ih =>
    have ho : o ∉ out := by
      intro h
      have := List.nodup_append.mp hnd
      exact this.2.2 o h o (by simp) rfl
    have hdeps : ∀ d ∈ deps o, d ∈ out := hord out o t rfl
    have hp : pushed deps out o = [] := pushed_eq_nil.mpr hdeps
    have e : 2 * (o :: t).length + k = (2 * t.length + k) + 1 + 1 := by simp; omega
    rw [e]
    have s1 : step deps ⟨[], o :: t, out⟩ = some ⟨[o], t, out⟩ := by simp [step, ho]
    have s2 : step deps ⟨[o], t, out⟩ = some ⟨[], t, out ++ [o]⟩ := by
      simp [step, hp, visit, ho]
    rw [run, s1]; simp only
    rw [run, s2]; simp only
    have := ih (out ++ [o]) (by simpa using hord) (by simpa using hnd)
    simpa using this

theorem toposort_sorted (deps : α → List α) (l : List α) (k : Nat)
    (hord : DepOrdered deps l) (hnd : l.Nodup) :
    toposort deps (2 * l.length + k) l = (l, true) := by
  have := run_sorted deps l [] k (by simpa using hord) (by simpa using hnd)
  simp [toposort, init, this]

/-! ### more fuel never changes a finished run -/

theorem run_mono (deps : α → List α) (f k : Nat) (s : TS α) (h : (run deps f s).2 = true) :
    run deps (f + k) s = run deps f s := by
  induction f generalizing s with
  | zero =>
    have hs : step deps s = none := by simpa [run] using h
    cases k with
    | zero => rfl
    | succ k => simp [run, hs]
  | succ f ih =>
    have e : f + 1 + k = (f + k) + 1 := by omega
    rw [e]
    simp only [run] at h ⊢
    split
    · rfl
    · rename_i s' hs
      rw [hs] at h
      exact ih s' h

/-! ### executable order check agrees with the specification -/

theorem depOrderedFrom_iff (deps : α → List α) (seen l : List α) :
    depOrderedFrom deps seen l = true ↔
      ∀ pre x post, l = pre ++ x :: post → ∀ d ∈ deps x, d ∈ seen ++ pre := by
  induction l generalizing seen with
  | nil =>
    simp only [depOrderedFrom, true_iff]
    intro pre x post h; cases pre <;> simp at h
  | cons y r ih =>
    simp only [depOrderedFrom, Bool.and_eq_true, List.all_eq_true, decide_eq_true_eq, ih]
    constructor
    · rintro ⟨h1, h2⟩ pre x post heq d hd
      cases pre with
      | nil =>
        simp at heq
        obtain ⟨rfl, rfl⟩ := heq
        simpa using h1 d hd
      | cons p pre' =>
        simp at heq
        obtain ⟨rfl, rfl⟩ := heq
        have := h2 pre' x post rfl d hd
        simpa using this
    · intro h
      refine ⟨?_, ?_⟩
      · intro d hd
        simpa using h [] y r rfl d hd
      · intro pre x post heq d hd
        have := h (y :: pre) x post (by simp [heq]) d hd
        simpa using this

theorem depOrderedB_iff (deps : α → List α) (l : List α) :
    depOrderedB deps l = true ↔ DepOrdered deps l := by
  simp [depOrderedB, depOrderedFrom_iff, DepOrdered]

end Spydr.IO.Topo
