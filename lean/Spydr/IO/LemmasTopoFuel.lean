/-
  C16 — termination of `_topological_sort` on acyclic, self-contained input: the fuel
  `3·|input| + Σ_x |deps x| + 1` suffices.

  Proof device: a GHOST copy of the machine whose stack entries carry a flag "this entry has already
  pushed its children" (the Python code has no such flag; the ghost machine erases to the real one
  step by step).  Invariants: a flagged entry has every unvisited dependency above it on the stack and
  everything above it has a strictly smaller rank — so, under acyclicity, no element pushes its children
  twice — and the potential
      2·|todo| + |stack| + Σ { |deps x| + 1 : x ∈ input, x not yet output, x not flagged on the stack }
  drops at every step.
-/
import Spydr.IO.LemmasTopo
namespace Spydr.IO.Topo

variable {α : Type} [DecidableEq α]

structure GS (α : Type) where
  stack : List (α × Bool)
  todo : List α
  out : List α

def GS.erase (g : GS α) : TS α := ⟨g.stack.map (·.1), g.todo, g.out⟩

def gstep (deps : α → List α) (g : GS α) : Option (GS α) :=
  match g.stack with
  | (o, fl) :: rest =>
    match (pushed deps g.out o).reverse with
    | [] => some { g with stack := rest, out := visit g.out o }
    | t :: ts =>
      if t = o then some { g with stack := ts.map (·, false) ++ (o, fl) :: rest, out := visit g.out o }
      else some { g with stack := (t :: ts).map (·, false) ++ (o, true) :: rest }
  | [] =>
    match g.todo with
    | [] => none
    | o :: todo' =>
      if o ∈ g.out then some { g with todo := todo' }
      else some { g with todo := todo', stack := [(o, false)] }

theorem erase_gstep (deps : α → List α) (g : GS α) :
    (gstep deps g).map GS.erase = step deps g.erase := by
  obtain ⟨stack, todo, out⟩ := g
  cases stack with
  | nil =>
    cases todo with
    | nil => rfl
    | cons o t =>
      simp only [gstep, step, GS.erase, List.map_nil]
      split <;> rfl
  | cons e rest =>
    obtain ⟨o, fl⟩ := e
    simp only [gstep, step, GS.erase, List.map_cons]
    cases hrev : (pushed deps out o).reverse with
    | nil => rfl
    | cons t ts =>
      simp only
      split
      · simp [GS.erase, List.map_map, Function.comp_def]
      · simp [GS.erase, List.map_map, Function.comp_def]

/-! ### weights -/

def wsum (deps : α → List α) (input : List α) (p : α → Bool) : Nat :=
  ((input.filter p).map (fun x => (deps x).length + 1)).sum

theorem wsum_cons (deps : α → List α) (a : α) (r : List α) (p : α → Bool) :
    wsum deps (a :: r) p = (if p a = true then (deps a).length + 1 else 0) + wsum deps r p := by
  simp only [wsum, List.filter_cons]
  split <;> simp

theorem wsum_mono (deps : α → List α) (input : List α) (p p' : α → Bool)
    (h : ∀ x ∈ input, p' x = true → p x = true) : wsum deps input p' ≤ wsum deps input p := by
  induction input with
  | nil => simp [wsum]
  | cons a r ih =>
    have ih' := ih (fun x hx => h x (List.mem_cons_of_mem _ hx))
    have ha := h a (by simp)
    rw [wsum_cons, wsum_cons]
    by_cases hp' : p' a = true
    · rw [if_pos hp', if_pos (ha hp')]; omega
    · rw [if_neg hp']
      split <;> omega

theorem wsum_strict (deps : α → List α) (input : List α) (p p' : α → Bool) (o : α)
    (ho : o ∈ input) (hpo : p o = true) (hpo' : p' o = false)
    (h : ∀ x ∈ input, p' x = true → p x = true) :
    wsum deps input p' + ((deps o).length + 1) ≤ wsum deps input p := by
  induction input with
  | nil => simp at ho
  | cons a r ih =>
    have hmono := wsum_mono deps r p p' (fun x hx => h x (List.mem_cons_of_mem _ hx))
    have ha := h a (by simp)
    rw [wsum_cons, wsum_cons]
    by_cases hao : a = o
    · subst hao
      rw [if_pos hpo, if_neg (by simp [hpo'])]
      omega
    · have ho' : o ∈ r := by
        rcases List.mem_cons.mp ho with h1 | h1
        · exact absurd h1.symm hao
        · exact h1
      have ih' := ih ho' (fun x hx => h x (List.mem_cons_of_mem _ hx))
      by_cases hp' : p' a = true
      · rw [if_pos hp', if_pos (ha hp')]; omega
      · rw [if_neg hp']
        split <;> omega

/-- not yet output and not flagged on the stack -/
def pending (g : GS α) (x : α) : Bool := decide (x ∉ g.out) && decide ((x, true) ∉ g.stack)

def potential (deps : α → List α) (input : List α) (g : GS α) : Nat :=
  2 * g.todo.length + g.stack.length + wsum deps input (pending g)

/-! ### ghost invariant -/

structure GInv (deps : α → List α) (r : α → Nat) (input : List α) (g : GS α) : Prop where
  outClosed : ∀ v ∈ g.out, ∀ d ∈ deps v, d ∈ g.out
  stackIn : ∀ e ∈ g.stack, e.1 ∈ input
  todoIn : ∀ x ∈ g.todo, x ∈ input
  rank : ∀ above e below, g.stack = above ++ (e, true) :: below → ∀ y ∈ above, r y.1 < r e
  kids : ∀ above e below, g.stack = above ++ (e, true) :: below →
    ∀ d ∈ deps e, d ∈ g.out ∨ d ∈ above.map (·.1)

theorem split_unflagged {β : Type} (l1 : List β) (a : β) (l2 above : List β) (b : β) (below : List β)
    (h : l1 ++ a :: l2 = above ++ b :: below) (hb : b ∉ l1) :
    (above = l1 ∧ a = b ∧ below = l2) ∨ (∃ above', above = l1 ++ a :: above' ∧ l2 = above' ++ b :: below) := by
  induction l1 generalizing above with
  | nil =>
    cases above with
    | nil => simp at h; exact Or.inl ⟨rfl, h.1, h.2.symm⟩
    | cons c above' =>
      simp at h
      exact Or.inr ⟨above', by simp [h.1], h.2⟩
  | cons c l1 ih =>
    cases above with
    | nil =>
      simp at h
      exact absurd (by simp [h.1]) hb
    | cons c' above' =>
      simp at h
      obtain ⟨rfl, h2⟩ := h
      rcases ih above' h2 (fun hm => hb (List.mem_cons_of_mem _ hm)) with ⟨h1, h3, h4⟩ | ⟨a', h1, h3⟩
      · exact Or.inl ⟨by rw [h1], h3, h4⟩
      · exact Or.inr ⟨a', by rw [h1]; simp, h3⟩

theorem ginv_init (deps : α → List α) (r : α → Nat) (input : List α) :
    GInv deps r input ⟨[], input, []⟩ :=
  ⟨by simp, by simp, fun x hx => hx, by intro a e b h; cases a <;> simp at h,
   by intro a e b h; cases a <;> simp at h⟩

theorem gstep_inv {deps : α → List α} {r : α → Nat} {input : List α}
    (hr : ∀ x, ∀ d ∈ deps x, r d < r x) (hcl : Closed deps input)
    {g g' : GS α} (hi : GInv deps r input g) (hs : gstep deps g = some g') :
    GInv deps r input g' ∧ potential deps input g' + 1 ≤ potential deps input g := by
  obtain ⟨stack, todo, out⟩ := g
  obtain ⟨hoc, hsi, hti, hrk, hkd⟩ := hi
  simp only at hoc hsi hti hrk hkd
  cases stack with
  | nil =>
    cases todo with
    | nil => simp [gstep] at hs
    | cons o todo' =>
      simp only [gstep] at hs
      split at hs
      · cases hs
        refine ⟨⟨hoc, hsi, fun x hx => hti x (List.mem_cons_of_mem _ hx), hrk, hkd⟩, ?_⟩
        have hw : wsum deps input (pending (⟨[], todo', out⟩ : GS α)) =
            wsum deps input (pending (⟨[], o :: todo', out⟩ : GS α)) := rfl
        simp only [potential, List.length_cons]
        omega
      · cases hs
        refine ⟨⟨hoc, ?_, fun x hx => hti x (List.mem_cons_of_mem _ hx), ?_, ?_⟩, ?_⟩
        · intro e he; simp at he; subst he; exact hti o (by simp)
        · intro a e b h
          cases a with
          | nil => simp at h
          | cons c a' => cases a' <;> simp at h
        · intro a e b h
          cases a with
          | nil => simp at h
          | cons c a' => cases a' <;> simp at h
        · have hw : wsum deps input (pending (⟨[(o, false)], todo', out⟩ : GS α)) ≤
              wsum deps input (pending (⟨[], o :: todo', out⟩ : GS α)) := by
            apply wsum_mono
            intro x _ hx
            simp only [pending, Bool.and_eq_true, decide_eq_true_eq] at hx ⊢
            exact ⟨hx.1, by simp⟩
          simp only [potential, List.length_cons, List.length_nil]
          omega
  | cons e rest =>
    obtain ⟨o, fl⟩ := e
    have hoin : o ∈ input := hsi (o, fl) (by simp)
    simp only [gstep] at hs
    cases hrev : (pushed deps out o).reverse with
    | nil =>
      have hall : ∀ d ∈ deps o, d ∈ out := by
        have : pushed deps out o = [] := by simpa using hrev
        exact pushed_eq_nil.mp this
      simp only [hrev] at hs
      cases hs
      refine ⟨⟨?_, fun e he => hsi e (List.mem_cons_of_mem _ he), hti, ?_, ?_⟩, ?_⟩
      · intro v hv d hd
        rcases mem_visit.mp hv with h | rfl
        · exact mem_visit.mpr (Or.inl (hoc v h d hd))
        · exact mem_visit.mpr (Or.inl (hall d hd))
      · intro a e b h y hy
        have h' : rest = a ++ (e, true) :: b := h
        exact hrk ((o, fl) :: a) e b (by simp [h']) y (List.mem_cons_of_mem _ hy)
      · intro a e b h d hd
        have h' : rest = a ++ (e, true) :: b := h
        rcases hkd ((o, fl) :: a) e b (by simp [h']) d hd with h1 | h1
        · exact Or.inl (mem_visit.mpr (Or.inl h1))
        · simp only [List.map_cons, List.mem_cons] at h1
          rcases h1 with rfl | h1
          · exact Or.inl (mem_visit.mpr (Or.inr rfl))
          · exact Or.inr h1
      · have hw : wsum deps input (pending (⟨rest, todo, visit out o⟩ : GS α)) ≤
            wsum deps input (pending (⟨(o, fl) :: rest, todo, out⟩ : GS α)) := by
          apply wsum_mono
          intro x _ hx
          simp only [pending, Bool.and_eq_true, decide_eq_true_eq] at hx ⊢
          have hxo : x ≠ o := fun h => hx.1 (mem_visit.mpr (Or.inr h))
          refine ⟨fun h => hx.1 (mem_visit.mpr (Or.inl h)), ?_⟩
          intro hm
          rcases List.mem_cons.mp hm with h | h
          · simp at h; exact hxo h.1
          · exact hx.2 h
        simp only [potential, List.length_cons]
        omega
    | cons t ts =>
      have htmem : ∀ c, c ∈ t :: ts → c ∈ deps o ∧ c ∉ out := by
        intro c hc
        have : c ∈ (pushed deps out o).reverse := by rw [hrev]; exact hc
        exact mem_pushed.mp (List.mem_reverse.mp this)
      have hto : t ≠ o := by
        intro h
        have := hr o t (htmem t (by simp)).1
        rw [h] at this
        exact Nat.lt_irrefl _ this
      simp only [hrev, hto, if_false] at hs
      cases hs
      -- o is not output and not flagged anywhere on the stack
      have ho_out : o ∉ out := by
        intro h
        exact (htmem t (by simp)).2 (hoc o h t (htmem t (by simp)).1)
      have ho_flag : (o, true) ∉ (o, fl) :: rest := by
        intro hm
        rcases List.mem_cons.mp hm with h | h
        · -- the top itself is flagged: all its unvisited deps would be above it
          have hfl : fl = true := by simpa using (Prod.mk.inj h).2.symm
          subst hfl
          rcases hkd [] o rest rfl t (htmem t (by simp)).1 with h1 | h1
          · exact (htmem t (by simp)).2 h1
          · simp at h1
        · obtain ⟨a, b, hab⟩ := List.append_of_mem h
          have := hrk ((o, fl) :: a) o b (by simp [hab]) (o, fl) (by simp)
          exact Nat.lt_irrefl _ this
      have hkids_unfl : ∀ e : α, (e, true) ∉ (t :: ts).map (fun c => (c, false)) := by
        intro e he
        simp only [List.mem_map] at he
        obtain ⟨c, _, hc⟩ := he
        cases hc
      refine ⟨⟨hoc, ?_, hti, ?_, ?_⟩, ?_⟩
      · intro e he
        rcases List.mem_append.mp he with h | h
        · simp only [List.mem_map] at h
          obtain ⟨c, hc, rfl⟩ := h
          exact hcl o hoin c (htmem c hc).1
        · rcases List.mem_cons.mp h with rfl | h
          · exact hoin
          · exact hsi e (List.mem_cons_of_mem _ h)
      · intro a e b h y hy
        rcases split_unflagged _ _ _ _ _ _ h (hkids_unfl e) with ⟨h1, h2, _⟩ | ⟨a', h1, h3⟩
        · -- e is o itself: everything above is a pushed child
          have heo : e = o := by simpa using (Prod.mk.inj h2).1.symm
          subst heo
          rw [h1] at hy
          simp only [List.mem_map] at hy
          obtain ⟨c, hc, rfl⟩ := hy
          exact hr e c (htmem c hc).1
        · have hold := hrk ((o, fl) :: a') e b (by simp [h3])
          rw [h1] at hy
          rcases List.mem_append.mp hy with hy | hy
          · simp only [List.mem_map] at hy
            obtain ⟨c, hc, rfl⟩ := hy
            exact Nat.lt_trans (hr o c (htmem c hc).1) (hold (o, fl) (by simp))
          · rcases List.mem_cons.mp hy with rfl | hy
            · exact hold (o, fl) (by simp)
            · exact hold y (List.mem_cons_of_mem _ hy)
      · intro a e b h d hd
        rcases split_unflagged _ _ _ _ _ _ h (hkids_unfl e) with ⟨h1, h2, _⟩ | ⟨a', h1, h3⟩
        · have heo : e = o := by simpa using (Prod.mk.inj h2).1.symm
          subst heo
          by_cases hdo : d ∈ out
          · exact Or.inl hdo
          · refine Or.inr ?_
            rw [h1]
            have : d ∈ t :: ts := by
              have : d ∈ (pushed deps out e).reverse := List.mem_reverse.mpr (mem_pushed.mpr ⟨hd, hdo⟩)
              rw [hrev] at this; exact this
            simp only [List.map_map, List.mem_map]
            exact ⟨d, this, rfl⟩
        · rcases hkd ((o, fl) :: a') e b (by simp [h3]) d hd with h4 | h4
          · exact Or.inl h4
          · refine Or.inr ?_
            rw [h1]
            simp only [List.map_cons, List.mem_cons] at h4
            simp only [List.map_append, List.map_cons, List.mem_append, List.mem_cons]
            rcases h4 with h4 | h4
            · exact Or.inr (Or.inl h4)
            · exact Or.inr (Or.inr h4)
      · have hw := wsum_strict deps input
          (pending (⟨(o, fl) :: rest, todo, out⟩ : GS α))
          (pending (⟨(t :: ts).map (fun c => (c, false)) ++ (o, true) :: rest, todo, out⟩ : GS α)) o hoin
          (by simp only [pending, Bool.and_eq_true, decide_eq_true_eq]; exact ⟨ho_out, ho_flag⟩)
          (by simp [pending])
          (by
            intro x _ hx
            simp only [pending, Bool.and_eq_true, decide_eq_true_eq] at hx ⊢
            refine ⟨hx.1, ?_⟩
            intro hm
            apply hx.2
            rcases List.mem_cons.mp hm with h | h
            · have hxo : x = o := (Prod.mk.inj h).1
              rw [hxo]
              exact List.mem_append_right _ (by simp)
            · exact List.mem_append_right _ (List.mem_cons_of_mem _ h))
        have hlen : (t :: ts).length ≤ (deps o).length := by
          have h1 : (t :: ts).length = (pushed deps out o).length := by
            rw [← hrev]; simp
          rw [h1]
          exact List.length_filter_le _ _
        simp only [potential, List.length_append, List.length_map, List.length_cons] at hw hlen ⊢
        omega

/-- enough fuel for the potential ends the run -/
theorem run_finishes {deps : α → List α} {r : α → Nat} {input : List α}
    (hr : ∀ x, ∀ d ∈ deps x, r d < r x) (hcl : Closed deps input)
    (f : Nat) (g : GS α) (hi : GInv deps r input g) (hf : potential deps input g ≤ f) :
    (run deps f g.erase).2 = true := by
  induction f generalizing g with
  | zero =>
    have h0 : potential deps input g = 0 := Nat.le_zero.mp hf
    cases hg : gstep deps g with
    | none =>
      have := erase_gstep deps g
      rw [hg] at this
      simp only [Option.map_none] at this
      simp [run, ← this]
    | some g' =>
      have := (gstep_inv hr hcl hi hg).2
      omega
  | succ f ih =>
    simp only [run]
    have he := erase_gstep deps g
    cases hg : gstep deps g with
    | none =>
      rw [hg] at he
      simp only [Option.map_none] at he
      rw [← he]
    | some g' =>
      rw [hg] at he
      simp only [Option.map_some] at he
      rw [← he]
      simp only
      obtain ⟨hi', hp⟩ := gstep_inv hr hcl hi hg
      exact ih g' hi' (by omega)

theorem sum_succ (deps : α → List α) (l : List α) :
    (l.map (fun x => (deps x).length + 1)).sum = (l.map (fun x => (deps x).length)).sum + l.length := by
  induction l with
  | nil => rfl
  | cons a t ih => simp only [List.map_cons, List.sum_cons, List.length_cons, ih]; omega

/-- the fuel the driver uses is sufficient -/
theorem toposort_terminates (deps : α → List α) (input : List α)
    (hac : Acyclic deps) (hcl : Closed deps input) :
    (toposort deps (fuelFor deps input) input).2 = true := by
  obtain ⟨r, hr⟩ := hac
  have hi := ginv_init deps r input
  have hp : potential deps input (⟨[], input, []⟩ : GS α) ≤ fuelFor deps input := by
    have : wsum deps input (pending (⟨[], input, []⟩ : GS α)) =
        (input.map (fun x => (deps x).length)).sum + input.length := by
      have hall : input.filter (pending (⟨[], input, []⟩ : GS α)) = input := by
        apply List.filter_eq_self.mpr
        intro x _
        simp [pending]
      simp only [wsum, hall]
      exact sum_succ deps input
    simp only [potential, fuelFor, List.length_nil, this]
    omega
  have := run_finishes hr hcl (fuelFor deps input) ⟨[], input, []⟩ hi hp
  simpa [toposort, init, GS.erase] using this

end Spydr.IO.Topo
