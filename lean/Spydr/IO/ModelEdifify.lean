/-
  C16 — the EDIF writer's pre-pass `ComposeEdif._edifify_netlist` (composers/edif/composer.py:44-93,
  133-142) on a value-level netlist, and the three writers as functions `netlist → netlist × text`.

  * libraries, then the cells of each library, are re-ordered by `_topological_sort` (ModelTopo) over
    their identities; the iteration orders of the dependency *sets* are oracle parameters
    `depL : id → List id`, `depD : library id → id → List id`;
  * `if netlist.name is None: netlist.name = netlist.top_instance.name`;
  * `_add_rename_property` on the netlist, the top instance and — in list order, each seeing the
    current state of its sibling list — every library, cell, cable, instance, port; the identifier
    generator `EdififyNames.make_valid` is an abstract parameter `mkId` (it is C17's subject);
  * emission is a pure function of the pre-passed netlist (`render`, abstract).
  Everything the pre-pass never looks at (directions, widths, indices, connectivity, references, the
  remaining user data of an element) travels in the opaque field `extra`.  No Mathlib.
-/
import Spydr.IO.ModelTopo
namespace Spydr.IO

/-- an element dictionary: insertion-ordered key/value list (values as canonical JSON text) -/
abbrev Data := List (String × String)

def dataHas (d : Data) (k : String) : Bool := d.any (fun kv => kv.1 == k)

/-- `obj[k] = v` -/
def dataSet (d : Data) (k v : String) : Data :=
  if dataHas d k then d.map (fun kv => if kv.1 == k then (k, v) else kv) else d ++ [(k, v)]

structure Elem where
  name : String
  data : Data
  extra : String
  deriving DecidableEq, Repr, Inhabited

structure EDef where
  id : Nat
  self : Elem
  ports : List Elem
  cables : List Elem
  insts : List Elem
  deriving DecidableEq, Repr, Inhabited

structure ELib where
  id : Nat
  self : Elem
  defs : List EDef
  deriving DecidableEq, Repr, Inhabited

structure ENet where
  name : Option String
  data : Data
  top : Elem
  libs : List ELib
  deriving DecidableEq, Repr, Inhabited

/-- identifier oracle: the object and the current state of its sibling list -/
abbrev MkId := Elem → List Elem → String

/-- `_add_rename_property(obj, namespace_list, names)` -/
def nameElem (mkId : MkId) (e : Elem) (sibs : List Elem) : Elem :=
  if dataHas e.data "EDIF.identifier" then e
  else
    let r := mkId e sibs
    let d1 := dataSet e.data "EDIF.identifier" r
    { e with data := if r != e.name then dataSet d1 "EDIF.rename" "true" else d1 }

/-- a `for x in lst: lst[i] = f(x, lst)` loop: each element is rewritten seeing the already rewritten
    prefix and the untouched rest -/
def seqMap {β : Type} (f : List β → β → List β → β) : List β → List β → List β
  | done, [] => done
  | done, e :: rest => seqMap f (done ++ [f done e rest]) rest

def nameList (mkId : MkId) (l : List Elem) : List Elem :=
  seqMap (fun done e rest => nameElem mkId e (done ++ e :: rest)) [] l

def nameDef (mkId : MkId) (done : List EDef) (d : EDef) (rest : List EDef) : EDef :=
  { d with self := nameElem mkId d.self ((done ++ d :: rest).map (·.self)),
           cables := nameList mkId d.cables,
           insts := nameList mkId d.insts,
           ports := nameList mkId d.ports }

def nameLib (mkId : MkId) (done : List ELib) (l : ELib) (rest : List ELib) : ELib :=
  { l with self := nameElem mkId l.self ((done ++ l :: rest).map (·.self)),
           defs := seqMap (nameDef mkId) [] l.defs }

/-- put `objs` in the order of the identities `ids` -/
def reorder {β : Type} (idOf : β → Nat) (ids : List Nat) (objs : List β) : List β :=
  ids.filterMap (fun i => objs.find? (fun o => idOf o == i))

def sortDefs (depD : Nat → Nat → List Nat) (fuel : Nat) (l : ELib) : ELib × Bool :=
  let r := Topo.toposort (depD l.id) fuel (l.defs.map (·.id))
  ({ l with defs := reorder (·.id) r.1 l.defs }, r.2)

/-- the pre-pass; the flag says whether every sort ended within the fuel -/
def edifify (depL : Nat → List Nat) (depD : Nat → Nat → List Nat) (mkId : MkId) (fuel : Nat)
    (n : ENet) : ENet × Bool :=
  let rl := Topo.toposort depL fuel (n.libs.map (·.id))
  let libs1 := reorder (·.id) rl.1 n.libs
  let libs2 := libs1.map (sortDefs depD fuel)
  let name' := n.name.getD n.top.name
  let nlSelf := nameElem mkId ⟨name', n.data, ""⟩ []
  let top' := nameElem mkId n.top []
  let libs3 := seqMap (nameLib mkId) [] (libs2.map (·.1))
  ({ name := some name', data := nlSelf.data, top := top', libs := libs3 }, rl.2 && libs2.all (·.2))

/-- `ComposeEdif.run`: pre-pass (the only mutation), then pure emission of the pre-passed netlist -/
def composeEdif (depL : Nat → List Nat) (depD : Nat → Nat → List Nat) (mkId : MkId) (fuel : Nat)
    (render : ENet → String) (n : ENet) : ENet × String × Bool :=
  let r := edifify depL depD mkId fuel n
  (r.1, render r.1, r.2)

/-- the Verilog and EBLIF writers (as repaired: `separate_by_type` no longer stores `EBLIF.type`):
    read-only walks, i.e. pure functions of the netlist and the options.  That the netlist is unchanged
    is true *by construction* here — for these two formats the content of C16 is entirely in the
    correspondence check (snapshot before/after on the implementation). -/
def composePure {Opt : Type} (render : Opt → ENet → String) (o : Opt) (n : ENet) : ENet × String :=
  (n, render o n)

end Spydr.IO
