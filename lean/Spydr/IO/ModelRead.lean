/-
  C15, part 1 — the *control skeleton* of the three readers (`EdifParser.parse`,
  `VerilogParser.parse`, `EBLIFParser.parse`) around the process-wide naming policy
  `spydrnet.plugins.namespace_manager.default`.

  The model follows the code AS REPAIRED (docs/fixes/io_edif_policy_restore.diff,
  io_verilog_policy_restore.diff): the switch of the policy and its restoration are in a
  `try … finally`.  The unrepaired control flow (restore only on the success path) is kept as
  `readUnrepaired` so that the defect has a machine-checked witness (Props/C15).

  The body of a parse (tokeniser + recursive descent + IR construction) is a PARAMETER: an arbitrary
  Python callable that may change any part of the process state, may succeed or fail at any point,
  and whose state changes persist when it raises (Python has no rollback).  No Mathlib.
-/
namespace Spydr.IO

/-- `NamespaceManager.policies` has exactly two keys. -/
inductive Policy
  | default
  | edif
  deriving DecidableEq, Repr, Inhabited

inductive Fmt
  | edif
  | verilog
  | eblif
  deriving DecidableEq, Repr, Inhabited

/-- Process-wide state: the naming policy and everything else (`rest` is opaque: callback tables,
    lookup registrations, logger, whatever a body may touch). -/
structure Proc (ρ : Type) where
  policy : Policy
  rest : ρ

/-- A Python callable run against the process state: returns or raises; the state it leaves behind is
    kept in both cases. -/
abbrev Call (ρ ε α : Type) := Proc ρ → Proc ρ × Except ε α

/-- `saved = nm.default; nm.default = p; try: body() finally: nm.default = saved`. -/
def withPolicy {ρ ε α : Type} (p : Policy) (body : Call ρ ε α) : Call ρ ε α := fun s =>
  let saved := s.policy
  let r := body { s with policy := p }
  ({ r.1 with policy := saved }, r.2)

/-- The policy a reader switches to (`none`: the reader does not touch the policy). -/
def switchOf : Fmt → Option Policy
  | .edif => some .edif        -- edif/parser.py:38-41
  | .verilog => some .default  -- verilog/parser.py:112-116
  | .eblif => none             -- eblif_parser.py:83-86 (no switch; elements get the caller's policy)

/-- A parse body that can READ the policy (every element it creates stores it) but has no way to
    ASSIGN it.  This is how the EBLIF reader is modelled: `eblif_parser.py` / `eblif_tokenizer.py`
    never mention `namespace_manager` at all (a syntactic fact the harness re-checks on every run),
    so its body is given the policy as an argument and returns only the rest of the state. -/
abbrev ROBody (ρ ε α : Type) := Policy → ρ → ρ × Except ε α

def liftRO {ρ ε α : Type} (b : ROBody ρ ε α) : Call ρ ε α := fun s =>
  let r := b s.policy s.rest
  ({ policy := s.policy, rest := r.1 }, r.2)

/-- `XParser.parse()` with the parse body abstracted. -/
def read {ρ ε α : Type} (f : Fmt) (body : Call ρ ε α) : Call ρ ε α :=
  match switchOf f with
  | some p => withPolicy p body
  | none => body

/-- The control flow at the pinned commit: the restoring assignment is skipped by an exception. -/
def withPolicyUnrepaired {ρ ε α : Type} (p : Policy) (body : Call ρ ε α) : Call ρ ε α := fun s =>
  let saved := s.policy
  let r := body { s with policy := p }
  match r.2 with
  | .ok a => ({ r.1 with policy := saved }, .ok a)
  | .error e => (r.1, .error e)

def readUnrepaired {ρ ε α : Type} (f : Fmt) (body : Call ρ ε α) : Call ρ ε α :=
  match switchOf f with
  | some p => withPolicyUnrepaired p body
  | none => body

/-! ## Histories: parses interleaved with policy-observing operations -/

/-- One call made by a client in the same process.
    `create` stands for every API edit that consults the policy (each `create_*` callback stores
    `namespace_manager.default` in the new element's `.NS`); `setPolicy` is the client assigning
    `namespace_manager.default` itself. -/
inductive Op (ι : Type)
  | parse (f : Fmt) (input : ι)
  | create
  | setPolicy (p : Policy)

def Op.isParse {ι : Type} : Op ι → Bool
  | .parse _ _ => true
  | _ => false

/-- What the client can see of one call. -/
inductive Obs (ε α : Type)
  | parsed (r : Except ε α)
  | created (ns : Policy)
  | set

def step {ρ ε α ι : Type} (rd : Fmt → Call ρ ε α → Call ρ ε α) (body : Fmt → ι → Call ρ ε α)
    (s : Proc ρ) : Op ι → Proc ρ × Obs ε α
  | .parse f i => let r := rd f (body f i) s; (r.1, .parsed r.2)
  | .create => (s, .created s.policy)
  | .setPolicy p => ({ s with policy := p }, .set)

def run {ρ ε α ι : Type} (rd : Fmt → Call ρ ε α → Call ρ ε α) (body : Fmt → ι → Call ρ ε α) :
    Proc ρ → List (Op ι) → Proc ρ × List (Obs ε α)
  | s, [] => (s, [])
  | s, o :: os =>
    let r := step rd body s o
    let t := run rd body r.1 os
    (t.1, r.2 :: t.2)

/-- The policy after every call (what the harness records on the implementation). -/
def trajectory {ρ ε α ι : Type} (rd : Fmt → Call ρ ε α → Call ρ ε α) (body : Fmt → ι → Call ρ ε α) :
    Proc ρ → List (Op ι) → List Policy
  | _, [] => []
  | s, o :: os =>
    let r := step rd body s o
    r.1.policy :: trajectory rd body r.1 os

/-- Observations that depend on the policy only: what `create` saw. -/
def createdOf {ε α : Type} : List (Obs ε α) → List Policy
  | [] => []
  | .created p :: r => p :: createdOf r
  | _ :: r => createdOf r

end Spydr.IO
