/-
  C15, part 2 — EDIF reference resolution, as the streaming reader performs it
  (edif/parser.py: parse_instance / parse_viewRef / parse_cellRef / parse_libraryRef / parse_portRef /
  parse_instanceRef / parse_design as repaired).

  Input: the declaration/reference EVENT STREAM of an EDIF file, in file order — what the recursive
  descent sees once everything that is not a declaration or a reference is dropped.  Identifiers are
  compared case-insensitively (EdifNamespace keys are lower-cased).  The reader keeps OBJECTS in scope;
  here an object is the POSITION of its declaring event and its attributes are read from the stream.
  What is visible at a reference:
    * a cell        — after its `(cell …)` is closed (`library.add_definition` follows `parse_cell`);
                      the enclosing cell itself is the target of a `viewRef` without `cellRef`;
    * a library     — the current one by name, any other once closed (`add_library` follows
                      `parse_library`);
    * an instance   — once declared in the same `contents` (`add_child` follows `parse_instance`);
    * a port        — every port of the owning cell (`interface` precedes `contents`);
    * `design`      — closed libraries only.
  Lookups return the FIRST match in declaration order.
  Output: for every reference event, the position of the declaration it resolves to.  No Mathlib.
-/
namespace Spydr.IO.Resolve

structure PortDecl where
  ident : String
  width : Nat
  deriving DecidableEq, Repr, Inhabited

inductive Ev
  | lib (ident : String)
  | endLib
  | cell (ident view : String) (ports : List PortDecl)
  | endCell
  | inst (ident view : String) (cell : Option String) (lib : Option String)
  | portRef (port : String) (member : Option Nat) (inst : Option String)
  | design (cell lib : String)
  deriving DecidableEq, Repr, Inhabited

/-- case-insensitive identifier equality -/
def eqI (a b : String) : Bool := a.toLower == b.toLower

structure Scope where
  /-- closed libraries: position of the `lib` event, positions of its (closed) cells -/
  done : List (Nat × List Nat)
  /-- the library being read and its closed cells -/
  cur : Option (Nat × List Nat)
  /-- the cell being read and its instances so far: (position of the `inst` event, position of the cell it refers to) -/
  cell : Option (Nat × List (Nat × Nat))
  deriving Repr, Inhabited

inductive RRef
  | cell (declAt : Nat)
  | pin (cellAt port bit : Nat) (instAt : Option Nat)
  | top (declAt : Nat)
  deriving DecidableEq, Repr

inductive Err
  | danglingLibrary | danglingCell | danglingView | danglingInstance | danglingPort | memberRange | malformed
  deriving DecidableEq, Repr

/-! attributes of a declaration, read from the stream -/
def isLibNamed (all : List Ev) (name : String) (p : Nat) : Bool :=
  match all[p]? with | some (.lib i) => eqI i name | _ => false
def isCellNamed (all : List Ev) (name : String) (d : Nat) : Bool :=
  match all[d]? with | some (.cell i _ _) => eqI i name | _ => false
def isInstNamed (all : List Ev) (name : String) (a : Nat) : Bool :=
  match all[a]? with | some (.inst i _ _ _) => eqI i name | _ => false
def viewIs (all : List Ev) (view : String) (d : Nat) : Bool :=
  match all[d]? with | some (.cell _ v _) => eqI v view | _ => false
def portsOf (all : List Ev) (d : Nat) : Option (List PortDecl) :=
  match all[d]? with | some (.cell _ _ ps) => some ps | _ => none

def findPort (ps : List PortDecl) (name : String) : Nat → Option (Nat × PortDecl)
  := fun k => match ps with
  | [] => none
  | p :: r => if eqI p.ident name then some (k, p) else findPort r name (k + 1)

/-- the cells a `cellRef` is looked up in -/
def targetCells (all : List Ev) (sc : Scope) (cur : Nat × List Nat) : Option String → Except Err (List Nat)
  | none => .ok cur.2
  | some ln =>
    if isLibNamed all ln cur.1 then .ok cur.2
    else match sc.done.find? (fun L => isLibNamed all ln L.1) with
      | some L => .ok L.2
      | none => .error .danglingLibrary

def pickCell (all : List Ev) (cells : List Nat) (cn view : String) : Except Err Nat :=
  match cells.find? (isCellNamed all cn) with
  | none => .error .danglingCell
  | some d => if viewIs all view d then .ok d else .error .danglingView

/-- the cell an instance refers to -/
def resolveTarget (all : List Ev) (sc : Scope) (cur : Nat × List Nat) (c : Nat) (view : String)
    (cellRef : Option String) (libRef : Option String) : Except Err Nat :=
  match cellRef with
  | none => if viewIs all view c then .ok c else .error .danglingView
  | some cn =>
    match targetCells all sc cur libRef with
    | .error e => .error e
    | .ok cells => pickCell all cells cn view

/-- the cell whose ports a `portRef` names, and the instance it goes through -/
def ownerOf (all : List Ev) (c : Nat) (insts : List (Nat × Nat)) : Option String → Except Err (Nat × Option Nat)
  | none => .ok (c, none)
  | some iname =>
    match insts.find? (fun ia => isInstNamed all iname ia.1) with
    | none => .error .danglingInstance
    | some ia => .ok (ia.2, some ia.1)

def pickPort (all : List Ev) (owner : Nat) (ia : Option Nat) (p : String) (m : Option Nat) : Except Err RRef :=
  match portsOf all owner with
  | none => .error .malformed
  | some ps =>
    match findPort ps p 0 with
    | none => .error .danglingPort
    | some (k, pd) =>
      if m.getD 0 < pd.width then .ok (.pin owner k (m.getD 0) ia) else .error .memberRange

def pickTop (all : List Ev) (done : List (Nat × List Nat)) (cn ln : String) : Except Err RRef :=
  match done.find? (fun L => isLibNamed all ln L.1) with
  | none => .error .danglingLibrary
  | some L =>
    match L.2.find? (isCellNamed all cn) with
    | none => .error .danglingCell
    | some d => .ok (.top d)

def stepEv (all : List Ev) (pos : Nat) (sc : Scope) : Ev → Except Err (Scope × Option RRef)
  | .lib _ =>
    match sc.cur, sc.cell with
    | none, none => .ok ({ sc with cur := some (pos, []) }, none)
    | _, _ => .error .malformed
  | .endLib =>
    match sc.cur, sc.cell with
    | some l, none => .ok ({ sc with done := sc.done ++ [l], cur := none }, none)
    | _, _ => .error .malformed
  | .cell _ _ _ =>
    match sc.cur, sc.cell with
    | some _, none => .ok ({ sc with cell := some (pos, []) }, none)
    | _, _ => .error .malformed
  | .endCell =>
    match sc.cur, sc.cell with
    | some l, some ci => .ok ({ sc with cur := some (l.1, l.2 ++ [ci.1]), cell := none }, none)
    | _, _ => .error .malformed
  | .inst _ v co lo =>
    match sc.cur, sc.cell with
    | some l, some ci =>
      match resolveTarget all sc l ci.1 v co lo with
      | .error e => .error e
      | .ok t => .ok ({ sc with cell := some (ci.1, ci.2 ++ [(pos, t)]) }, some (.cell t))
    | _, _ => .error .malformed
  | .portRef p m io =>
    match sc.cur, sc.cell with
    | some _, some ci =>
      match ownerOf all ci.1 ci.2 io with
      | .error e => .error e
      | .ok oa =>
        match pickPort all oa.1 oa.2 p m with
        | .error e => .error e
        | .ok r => .ok (sc, some r)
    | _, _ => .error .malformed
  | .design cn ln =>
    match sc.cur, sc.cell with
    | none, none =>
      match pickTop all sc.done cn ln with
      | .error e => .error e
      | .ok r => .ok (sc, some r)
    | _, _ => .error .malformed

def go (all : List Ev) : Nat → Scope → List Ev → Except Err (List (Nat × RRef))
  | _, _, [] => .ok []
  | pos, sc, e :: rest =>
    match stepEv all pos sc e with
    | .error err => .error err
    | .ok sr =>
      match go all (pos + 1) sr.1 rest with
      | .error err => .error err
      | .ok rs => .ok (match sr.2 with | some x => (pos, x) :: rs | none => rs)

def Scope.empty : Scope := ⟨[], none, none⟩

/-- `resolveRefs` -/
def resolve (evs : List Ev) : Except Err (List (Nat × RRef)) := go evs 0 Scope.empty evs

end Spydr.IO.Resolve
