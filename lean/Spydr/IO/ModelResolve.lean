/-
  C15, part 2 — EDIF reference resolution, as the streaming reader performs it
  (edif/parser.py: parse_instance / parse_viewRef / parse_cellRef / parse_libraryRef / parse_portRef /
  parse_instanceRef / parse_design AS REPAIRED by docs/fixes/io_edif_design_undeclared.diff).

  Input: the declaration/reference EVENT STREAM of an EDIF file, in file order — what the recursive
  descent sees once everything that is not a declaration or a reference is dropped.  Identifiers are
  compared case-insensitively (EdifNamespace keys are lower-cased).  What is visible at a reference:
    * a cell        — after its `(cell …)` is closed (`library.add_definition` follows `parse_cell`);
                      the enclosing cell itself is the target of a `viewRef` without `cellRef`;
    * a library     — the current one by name, any other once closed (`add_library` follows
                      `parse_library`);
    * an instance   — once declared in the same `contents` (`add_child` follows `parse_instance`);
    * a port        — every port of the owning cell (`interface` precedes `contents`);
    * `design`      — closed libraries only.
  Output: for every reference event, the POSITION in the stream of the declaration it resolves to.
  No Mathlib.
-/
namespace Spydr.IO.Resolve

structure PortDecl where
  ident : String
  width : Nat
  deriving DecidableEq, Repr, Inhabited

inductive Ev
  | lib (ident : String)
  | endLib
  | cell (ident view : String) (ports : List PortDecl)
  | endCell
  | inst (ident view : String) (cell : Option String) (lib : Option String)
  | portRef (port : String) (member : Option Nat) (inst : Option String)
  | design (cell lib : String)
  deriving DecidableEq, Repr, Inhabited

/-- case-insensitive identifier equality -/
def eqI (a b : String) : Bool := a.toLower == b.toLower

structure CellSig where
  pos : Nat
  ident : String
  view : String
  ports : List PortDecl
  deriving Repr, Inhabited

structure InstSig where
  pos : Nat
  ident : String
  target : CellSig
  deriving Repr, Inhabited

structure LibSig where
  ident : String
  cells : List CellSig
  deriving Repr, Inhabited

structure Scope where
  done : List LibSig
  cur : Option LibSig
  cell : Option (CellSig × List InstSig)
  deriving Repr, Inhabited

inductive RRef
  | cell (declAt : Nat)
  | pin (cellAt port bit : Nat) (instAt : Option Nat)
  | top (declAt : Nat)
  deriving DecidableEq, Repr

inductive Err
  | danglingLibrary | danglingCell | danglingView | danglingInstance | danglingPort | memberRange | malformed
  deriving DecidableEq, Repr

def findPort (ps : List PortDecl) (name : String) : Nat → Option (Nat × PortDecl)
  := fun k => match ps with
  | [] => none
  | p :: r => if eqI p.ident name then some (k, p) else findPort r name (k + 1)

def findCell (cells : List CellSig) (name : String) : Option CellSig := cells.find? (fun c => eqI c.ident name)
def findLib (libs : List LibSig) (name : String) : Option LibSig := libs.find? (fun l => eqI l.ident name)
def findInst (is : List InstSig) (name : String) : Option InstSig := is.find? (fun i => eqI i.ident name)

/-- the cells a `cellRef` is looked up in -/
def targetCells (sc : Scope) (l : LibSig) : Option String → Except Err (List CellSig)
  | none => .ok l.cells
  | some ln =>
    if eqI l.ident ln then .ok l.cells
    else match findLib sc.done ln with
      | some L => .ok L.cells
      | none => .error .danglingLibrary

def pickCell (cells : List CellSig) (cn view : String) : Except Err CellSig :=
  match findCell cells cn with
  | none => .error .danglingCell
  | some t => if eqI t.view view then .ok t else .error .danglingView

/-- the cell an instance refers to -/
def resolveTarget (sc : Scope) (l : LibSig) (c : CellSig) (view : String)
    (cellRef : Option String) (libRef : Option String) : Except Err CellSig :=
  match cellRef with
  | none => if eqI c.view view then .ok c else .error .danglingView
  | some cn =>
    match targetCells sc l libRef with
    | .error e => .error e
    | .ok cells => pickCell cells cn view

/-- the cell whose ports a `portRef` names, and the instance it goes through -/
def ownerOf (c : CellSig) (insts : List InstSig) : Option String → Except Err (CellSig × Option Nat)
  | none => .ok (c, none)
  | some iname =>
    match findInst insts iname with
    | none => .error .danglingInstance
    | some i => .ok (i.target, some i.pos)

def pickPort (owner : CellSig) (ia : Option Nat) (p : String) (m : Option Nat) : Except Err RRef :=
  match findPort owner.ports p 0 with
  | none => .error .danglingPort
  | some (k, pd) =>
    if m.getD 0 < pd.width then .ok (.pin owner.pos k (m.getD 0) ia) else .error .memberRange

def pickTop (done : List LibSig) (cn ln : String) : Except Err RRef :=
  match findLib done ln with
  | none => .error .danglingLibrary
  | some L =>
    match findCell L.cells cn with
    | none => .error .danglingCell
    | some t => .ok (.top t.pos)

def stepEv (pos : Nat) (sc : Scope) : Ev → Except Err (Scope × Option RRef)
  | .lib id =>
    match sc.cur, sc.cell with
    | none, none => .ok ({ sc with cur := some ⟨id, []⟩ }, none)
    | _, _ => .error .malformed
  | .endLib =>
    match sc.cur, sc.cell with
    | some l, none => .ok ({ sc with done := sc.done ++ [l], cur := none }, none)
    | _, _ => .error .malformed
  | .cell id v ps =>
    match sc.cur, sc.cell with
    | some _, none => .ok ({ sc with cell := some (⟨pos, id, v, ps⟩, []) }, none)
    | _, _ => .error .malformed
  | .endCell =>
    match sc.cur, sc.cell with
    | some l, some (c, _) => .ok ({ sc with cur := some { l with cells := l.cells ++ [c] }, cell := none }, none)
    | _, _ => .error .malformed
  | .inst id v co lo =>
    match sc.cur, sc.cell with
    | some l, some (c, insts) =>
      match resolveTarget sc l c v co lo with
      | .error e => .error e
      | .ok t => .ok ({ sc with cell := some (c, insts ++ [⟨pos, id, t⟩]) }, some (.cell t.pos))
    | _, _ => .error .malformed
  | .portRef p m io =>
    match sc.cell with
    | some (c, insts) =>
      match ownerOf c insts io with
      | .error e => .error e
      | .ok (owner, ia) =>
        match pickPort owner ia p m with
        | .error e => .error e
        | .ok r => .ok (sc, some r)
    | none => .error .malformed
  | .design cn ln =>
    match sc.cur, sc.cell with
    | none, none =>
      match pickTop sc.done cn ln with
      | .error e => .error e
      | .ok r => .ok (sc, some r)
    | _, _ => .error .malformed

def go : Nat → Scope → List Ev → Except Err (List (Nat × RRef))
  | _, _, [] => .ok []
  | pos, sc, e :: rest =>
    match stepEv pos sc e with
    | .error err => .error err
    | .ok (sc', r) =>
      match go (pos + 1) sc' rest with
      | .error err => .error err
      | .ok rs => .ok (match r with | some x => (pos, x) :: rs | none => rs)

def Scope.empty : Scope := ⟨[], none, none⟩

/-- `resolveRefs` -/
def resolve (evs : List Ev) : Except Err (List (Nat × RRef)) := go 0 Scope.empty evs

end Spydr.IO.Resolve
