/-
  C16 — the EDIF writer's `_topological_sort` (composers/edif/composer.py:95-131), transcribed as a
  work-list machine.

      visited = set(); output_list = []
      def iterate(o):
          stack = [o]
          while stack:
              o = stack[-1]
              for child in get_dependents(o):          # a Python *set*: iteration order unspecified
                  if child not in visited: stack.append(child)
              if stack[-1] == o:
                  stack.pop()
                  if o not in visited: visited.add(o); output_list.append(o)
      for o in list_of_objects:
          if o not in visited: iterate(o)

  `deps o` is the list in which the set `get_dependents(o)` happens to be iterated: the ORACLE.  Every
  theorem about this machine is stated for every `deps`, hence for every iteration order.
  `visited` and `output_list` always change together, so the model keeps `out` only.
  `stack` is kept with its top at the head.  No Mathlib.
-/
namespace Spydr.IO.Topo

variable {α : Type} [DecidableEq α]

structure TS (α : Type) where
  stack : List α
  todo : List α
  out : List α
  deriving Repr

/-- the children `iterate` appends for `o`: unvisited dependencies, in iteration order -/
def pushed (deps : α → List α) (out : List α) (o : α) : List α :=
  (deps o).filter (fun c => decide (c ∉ out))

def visit (out : List α) (o : α) : List α := if o ∈ out then out else out ++ [o]

/-- one iteration of the inner `while` (or, with an empty stack, of the outer `for`);
    `none` = both loops are over. -/
def step (deps : α → List α) (s : TS α) : Option (TS α) :=
  match s.stack with
  | o :: rest =>
    -- after the `for child` loop the stack is  rest.reverse ++ [o] ++ pushed ; its last element:
    match (pushed deps s.out o).reverse with
    | [] => some { s with stack := rest, out := visit s.out o }            -- `stack[-1] == o`: nothing was pushed
    | t :: ts =>
      if t = o then some { s with stack := ts ++ o :: rest, out := visit s.out o }   -- last pushed child *is* o (self-dependency)
      else some { s with stack := t :: ts ++ o :: rest }
  | [] =>
    match s.todo with
    | [] => none
    | o :: todo' =>
      if o ∈ s.out then some { s with todo := todo' }
      else some { s with todo := todo', stack := [o] }

/-- run with fuel; the flag says whether the loops ended within the fuel -/
def run (deps : α → List α) : Nat → TS α → TS α × Bool
  | 0, s => (s, (step deps s).isNone)
  | f + 1, s =>
    match step deps s with
    | none => (s, true)
    | some s' => run deps f s'

def init (input : List α) : TS α := ⟨[], input, []⟩

/-- `_topological_sort(input, deps)`: the output list and the `finished` flag -/
def toposort (deps : α → List α) (fuel : Nat) (input : List α) : List α × Bool :=
  let r := run deps fuel (init input)
  (r.1.out, r.2)

/-- fuel the driver uses (proved sufficient for acyclic, closed inputs in LemmasTopoFuel):
    3·|input| + Σ |deps x| + 1 -/
def fuelFor (deps : α → List α) (input : List α) : Nat :=
  3 * input.length + (input.map (fun x => (deps x).length)).sum + 1

end Spydr.IO.Topo
