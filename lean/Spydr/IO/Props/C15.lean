/-
  C15 — rejected input fails cleanly and leaves no process-wide residue.
  Property theorems only (policy discipline part; the EDIF reference-resolution part is in
  Props/C15Resolve.lean).  Model: Spydr/IO/ModelRead.lean, spec: Spydr/IO/SpecRead.lean.
-/
import Spydr.IO.ModelRead
import Spydr.IO.SpecRead
namespace Spydr.IO

variable {ρ ε α ι : Type}

/-- T `read_policy_restored`, the two readers that switch the policy (EDIF, Verilog): whatever the
    parse body does — succeed, raise at any point, even assign the policy itself — the policy after
    `parse()` is the policy before it. -/
theorem read_policy_restored_switching (f : Fmt) (hf : switchOf f ≠ none) (body : Call ρ ε α) :
    PolicyClean (read f body) := by
  intro s
  cases f
  · simp [read, switchOf, withPolicy]
  · simp [read, switchOf, withPolicy]
  · exact absurd rfl hf

/-- All three formats.  For EBLIF (no switch) the body is policy-read-only BY ASSUMPTION (`ReadOnly`:
    the source never names `namespace_manager`; re-checked syntactically and by the trajectory
    correspondence on every run) and the clause is immediate — it is not a result about the EBLIF
    parse body. -/
theorem read_policy_restored (f : Fmt) (body : Call ρ ε α)
    (h : switchOf f = none → ReadOnly body) : PolicyClean (read f body) := by
  intro s
  cases f
  · exact read_policy_restored_switching .edif (by simp [switchOf]) body s
  · exact read_policy_restored_switching .verilog (by simp [switchOf]) body s
  · obtain ⟨b, rfl⟩ := h rfl
    rfl

/-- The model is not a constant: the outcome (return value or error) is the body's, run under the
    switched policy; and everything but the policy is what the body left. -/
theorem read_outcome (f : Fmt) (body : Call ρ ε α) (s : Proc ρ) :
    (read f body s).2 = (body { s with policy := (switchOf f).getD s.policy }).2 ∧
    (read f body s).1.rest = (body { s with policy := (switchOf f).getD s.policy }).1.rest := by
  cases f <;> simp [read, switchOf, withPolicy]

/-- Non-vacuity: a body that fails half-way after scribbling over the policy; all three readers. -/
example : ∀ f : Fmt, f ≠ .eblif →
    (read (ρ := Nat) (ε := String) (α := Unit) f
      (fun s => ({ policy := .edif, rest := s.rest + 1 }, .error "unexpected token"))
      { policy := .default, rest := 0 }).1.policy = .default := by
  intro f hf; cases f <;> simp_all [read, switchOf, withPolicy]

/-- The defect at the pinned commit, as a theorem about the unrepaired control flow: there is a body
    and a start state for which the policy is NOT restored (EDIF: a failing parse started under
    DEFAULT leaves EDIF; Verilog: a failing parse started under EDIF leaves DEFAULT). -/
theorem unrepaired_leaks :
    (∃ (body : Call Unit String Unit) (s : Proc Unit), (readUnrepaired .edif body s).1.policy ≠ s.policy) ∧
    (∃ (body : Call Unit String Unit) (s : Proc Unit), (readUnrepaired .verilog body s).1.policy ≠ s.policy) := by
  refine ⟨⟨fun s => (s, .error "x"), ⟨.default, ()⟩, ?_⟩, ⟨fun s => (s, .error "x"), ⟨.edif, ()⟩, ?_⟩⟩ <;>
    simp [readUnrepaired, switchOf, withPolicyUnrepaired]

/-! ### lift over arbitrary histories -/

/-- Bodies of readers that do not switch the policy are policy-read-only (assumption, see `ReadOnly`). -/
def NeutralBodies (body : Fmt → ι → Call ρ ε α) : Prop :=
  ∀ f i, switchOf f = none → ReadOnly (body f i)

theorem step_parse_policy (body : Fmt → ι → Call ρ ε α) (hb : NeutralBodies body)
    (s : Proc ρ) (f : Fmt) (i : ι) : (step read body s (.parse f i)).1.policy = s.policy := by
  simpa [step] using read_policy_restored f (body f i) (hb f i) s

/-- T (history form of `read_policy_restored`): in a history made of parses (of valid or rejected
    input, in any of the formats) and policy-observing edits, the policy component of the process state
    is invariant. -/
theorem run_policy_invariant (body : Fmt → ι → Call ρ ε α) (hb : NeutralBodies body)
    (h : List (Op ι)) (hno : ∀ o ∈ h, ∀ p, o ≠ .setPolicy p) (s : Proc ρ) :
    (run read body s h).1.policy = s.policy := by
  induction h generalizing s with
  | nil => rfl
  | cons o os ih =>
    have ih' := fun s => ih (fun o ho => hno o (List.mem_cons_of_mem _ ho)) s
    cases o with
    | parse f i => simp only [run]; rw [ih', step_parse_policy body hb]
    | create => simp only [run]; rw [ih']; rfl
    | setPolicy p => exact absurd rfl (hno _ List.mem_cons_self p)

/-- every entry of the recorded trajectory of such a history is the initial policy -/
theorem trajectory_constant (body : Fmt → ι → Call ρ ε α) (hb : NeutralBodies body)
    (h : List (Op ι)) (hno : ∀ o ∈ h, ∀ p, o ≠ .setPolicy p) (s : Proc ρ) :
    ∀ q ∈ trajectory read body s h, q = s.policy := by
  induction h generalizing s with
  | nil => intro q hq; simp [trajectory] at hq
  | cons o os ih =>
    have ih' := fun s => ih (fun o ho => hno o (List.mem_cons_of_mem _ ho)) s
    intro q hq
    simp only [trajectory, List.mem_cons] at hq
    cases o with
    | parse f i =>
      rcases hq with rfl | hq
      · exact step_parse_policy body hb s f i
      · rw [ih' _ q hq, step_parse_policy body hb]
    | create =>
      rcases hq with rfl | hq
      · rfl
      · exact ih' _ q hq
    | setPolicy p => exact absurd rfl (hno _ List.mem_cons_self p)

/-- Two process states with the same policy are indistinguishable for policy-only bodies. -/
def PolicyOnlyBodies (body : Fmt → ι → Call ρ ε α) : Prop :=
  ∀ f i, PolicyOnly (body f i)

theorem read_policyOnly (f : Fmt) (body : Call ρ ε α) (hp : PolicyOnly body)
    (s t : Proc ρ) (hst : s.policy = t.policy) : (read f body s).2 = (read f body t).2 := by
  cases f
  · simp only [read, switchOf, withPolicy]; exact hp _ _ rfl
  · simp only [read, switchOf, withPolicy]; exact hp _ _ rfl
  · simp only [read, switchOf]; exact hp _ _ hst

theorem run_congr (body : Fmt → ι → Call ρ ε α) (hb : NeutralBodies body) (hp : PolicyOnlyBodies body)
    (h : List (Op ι)) (s t : Proc ρ) (hst : s.policy = t.policy) :
    (run read body s h).2 = (run read body t h).2 ∧
    (run read body s h).1.policy = (run read body t h).1.policy := by
  induction h generalizing s t with
  | nil => exact ⟨rfl, hst⟩
  | cons o os ih =>
    cases o with
    | parse f i =>
      have h1 : (step read body s (.parse f i)).1.policy = (step read body t (.parse f i)).1.policy := by
        rw [step_parse_policy body hb, step_parse_policy body hb, hst]
      have h2 : (step read body s (.parse f i)).2 = (step read body t (.parse f i)).2 := by
        simp only [step]; rw [read_policyOnly f _ (hp f i) s t hst]
      obtain ⟨a, b⟩ := ih _ _ h1
      simp only [run]
      exact ⟨by rw [a, h2], b⟩
    | create =>
      obtain ⟨a, b⟩ := ih s t hst
      simp only [run, step]
      exact ⟨by rw [a, hst], b⟩
    | setPolicy p =>
      obtain ⟨a, b⟩ := ih { s with policy := p } { t with policy := p } rfl
      simp only [run, step]
      exact ⟨by rw [a], b⟩

theorem run_append (rd : Fmt → Call ρ ε α → Call ρ ε α) (body : Fmt → ι → Call ρ ε α)
    (s : Proc ρ) (h1 h2 : List (Op ι)) :
    run rd body s (h1 ++ h2) =
      ((run rd body (run rd body s h1).1 h2).1, (run rd body s h1).2 ++ (run rd body (run rd body s h1).1 h2).2) := by
  induction h1 generalizing s with
  | nil => simp [run]
  | cons o os ih => simp [run, ih]

/-- T `fresh_process` ("any later parse or edit in the same process behaves exactly as in a fresh
    process"): after ANY prefix of parses — accepted or rejected, any format — every later call (parse
    results included, for bodies that depend on the process through the policy only) observes exactly
    what it would observe had the prefix never run. -/
theorem fresh_process (body : Fmt → ι → Call ρ ε α) (hb : NeutralBodies body) (hp : PolicyOnlyBodies body)
    (h1 h2 : List (Op ι)) (hpar : ∀ o ∈ h1, o.isParse = true) (s : Proc ρ) :
    (run read body (run read body s h1).1 h2).2 = (run read body s h2).2 ∧
    (run read body s (h1 ++ h2)).1.policy = (run read body s h2).1.policy := by
  have hpol : (run read body s h1).1.policy = s.policy := by
    apply run_policy_invariant body hb
    intro o ho p heq
    have := hpar o ho
    rw [heq] at this
    simp [Op.isParse] at this
  obtain ⟨a, b⟩ := run_congr body hb hp h2 _ s hpol
  refine ⟨a, ?_⟩
  rw [run_append]; exact b

/-- T `parses_invisible`: without any assumption on how bodies use the rest of the state, the policy
    after a history and everything `create` observed are those of the same history with all parses
    erased. -/
theorem parses_invisible (body : Fmt → ι → Call ρ ε α) (hb : NeutralBodies body)
    (h : List (Op ι)) (s : Proc ρ) :
    ∀ t : Proc ρ, t.policy = s.policy →
    (run read body s h).1.policy = (run read body t (h.filter (fun o => !o.isParse))).1.policy ∧
    createdOf (run read body s h).2 = createdOf (run read body t (h.filter (fun o => !o.isParse))).2 := by
  induction h generalizing s with
  | nil => intro t ht; exact ⟨ht.symm, rfl⟩
  | cons o os ih =>
    intro t ht
    cases o with
    | parse f i =>
      rw [List.filter_cons_of_neg (by simp [Op.isParse])]
      have := ih (step read body s (.parse f i)).1 t (by rw [ht, step_parse_policy body hb])
      simpa only [run, step, createdOf] using this
    | create =>
      rw [List.filter_cons_of_pos (by simp [Op.isParse])]
      obtain ⟨a, b⟩ := ih s t ht
      simp only [run, step, createdOf]
      exact ⟨a, by rw [b, ht]⟩
    | setPolicy p =>
      rw [List.filter_cons_of_pos (by simp [Op.isParse])]
      obtain ⟨a, b⟩ := ih { s with policy := p } { t with policy := p } rfl
      simp only [run, step, createdOf]
      exact ⟨a, b⟩

/-- Non-vacuity: a history mixing a failing EDIF parse, a succeeding Verilog parse, an EBLIF parse and
    edits; bodies that really use the policy. -/
example :
    let body : Fmt → Nat → Call Nat String Policy := fun _ i s =>
      ({ s with rest := s.rest + 1 }, if i % 2 = 0 then .ok s.policy else .error "bad token")
    createdOf (run read body ⟨.default, 0⟩
      [.parse .edif 1, .create, .parse .verilog 2, .setPolicy .edif, .parse .verilog 3, .create, .parse .eblif 5]).2
      = [.default, .edif] := by
  decide

end Spydr.IO
