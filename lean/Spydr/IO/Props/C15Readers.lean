/-
  C15 — "given any text … each reader … either returns a well-formed netlist or raises an error".

  This clause is proved on the three format engines' CHARACTER-LEVEL reader models, for ANY input text;
  here the facts are restated under the C15 heading (the proofs live in the format engines).
  * "returns a value or an error" is by typing: the model readers are total Lean functions into `Except`;
  * termination of the MODEL readers is Lean's totality checker (termination of the real interpreter
    stays observed, with a wall-clock limit per input);
  * the tie of each model reader to the real reader is the differential correspondence run by the checks
    C03–C06 (EDIF, Verilog) and C18 (EBLIF) on every generated text and corruption — not by C15 itself.
-/
import Spydr.Edif.Props.C05Struct
import Spydr.Verilog.WFStruct
import Spydr.Eblif.Props.C18Mirror
import Spydr.Eblif.Props.C18RoundTrip
namespace Spydr.IO

/-- EDIF, any text: what the model reader accepts satisfies `StructWF` (clash-free identifiers and names
    at every level, EVERY instance referenced to a cell declared earlier, every pin an existing bit of a
    port of the enclosing cell / of the referenced cell, no pin on two wires, scalar ports have one pin,
    the design's target declared). -/
theorem c15_edif_accepts_wellformed (text : List Char) (n : Spydr.Edif.CNetlist)
    (h : Spydr.Edif.readEdif text = .ok n) : Spydr.Edif.StructWF n :=
  Spydr.Edif.C05.reader_accepts_wellformed text n h

/-- EDIF, any text: every instance of an accepted netlist has a reference. -/
theorem c15_edif_all_instances_referenced (text : List Char) (n : Spydr.Edif.CNetlist)
    (h : Spydr.Edif.readEdif text = .ok n) : Spydr.Edif.AllInstancesReferenced n :=
  Spydr.Edif.C05.all_instances_referenced text n h

/-- EDIF, any text: every element of an accepted netlist carries an identifier and a name. -/
theorem c15_edif_names_everything (text : List Char) (n : Spydr.Edif.CNetlist)
    (h : Spydr.Edif.readEdif text = .ok n) : Spydr.Edif.AllNamed n :=
  Spydr.Edif.C05.reader_names_everything text n h

/-- Verilog, any text: what the model reader accepts satisfies the decidable `structWF`. -/
theorem c15_verilog_accepts_wellformed (text : String) (s : Spydr.Verilog.Elab.St)
    (h : Spydr.Verilog.Parse.readV text = .ok s) : Spydr.Verilog.Elab.structWF s = true :=
  Spydr.Verilog.Elab.reader_structWF text s h

/-- EBLIF, any text: in what the model reader accepts every instance carries exactly one pin per port bit
    of the (unique, existing) definition it names. -/
theorem c15_eblif_pin_mirror (text : List Char) (n : Spydr.Eblif.BNet)
    (h : Spydr.Eblif.readB text = Except.ok n) : n.PinMirror :=
  Spydr.Eblif.pin_mirror text n h

/-- EBLIF, any model list: the elaborated result is self-contained (distinct definition names, every
    instance's model and parent and every cable's owner is a definition of the netlist). -/
theorem c15_eblif_self_contained (ms : List Spydr.Eblif.Model) (st' : Spydr.Eblif.St)
    (h : Spydr.Eblif.elabModels {} ms = Except.ok st') :
    (st'.defs.map (·.name)).Nodup ∧
    (∀ i ∈ st'.insts, (∃ d ∈ st'.defs, d.name = i.model) ∧ ∃ d ∈ st'.defs, d.name = i.parent ∧ d.declared = true) ∧
    (∀ c ∈ st'.cables, ∃ d ∈ st'.defs, d.name = c.1 ∧ d.declared = true) :=
  Spydr.Eblif.self_contained ms st' h

end Spydr.IO
