/-
  C15 — "EDIF references to cells, ports, instances or libraries that were never declared … are
  always rejected"; what is accepted is self-contained.  Property theorems only.
  Model: Spydr/IO/ModelResolve.lean (`resolve`), spec: Spydr/IO/SpecResolve.lean.
-/
import Spydr.IO.LemmasResolve
namespace Spydr.IO
open Resolve

/-- T `resolved_declared`: if the resolver accepts the stream, every reference (instance → cell,
    portRef → port/bit of a cell, through an instance or not, design → cell) resolves to a DECLARATION
    EVENT OF THE SAME STREAM that comes earlier and bears the referenced identifier (case-insensitively),
    with the member index inside the port: the result is self-contained. -/
theorem resolved_declared (evs : List Ev) (rs : List (Nat × RRef)) (h : resolve evs = .ok rs) :
    ∀ kr ∈ rs, RefOk evs kr.1 kr.2 :=
  (go_sound evs [] evs rfl Scope.empty (scopeOK_empty evs) rs h).1

/-- no reference is skipped: the resolutions are those of the reference events, in order -/
theorem resolve_complete (evs : List Ev) (rs : List (Nat × RRef)) (h : resolve evs = .ok rs) :
    rs.map (·.1) = refPositions 0 evs :=
  (go_sound evs [] evs rfl Scope.empty (scopeOK_empty evs) rs h).2.2

/-- T `dangling_rejected`: a stream in which some cellRef / libraryRef / viewRef / portRef /
    instanceRef / design target names an identifier declared nowhere in the file is rejected. -/
theorem dangling_rejected (evs : List Ev) (h : hasUndeclared evs = true) : ∃ e, resolve evs = .error e := by
  cases hr : resolve evs with
  | error e => exact ⟨e, rfl⟩
  | ok rs =>
    have := (go_sound evs [] evs rfl Scope.empty (scopeOK_empty evs) rs hr).2.1
    simp only [hasUndeclared, List.any_eq_true] at h
    obtain ⟨e, he, hu⟩ := h
    rw [this e he] at hu
    cases hu

/-! non-vacuity (symbolic in the identifiers, so that no string evaluation is needed):
    a two-library file — a primitive with a 2-bit port, a module instantiating it through
    `(viewRef v (cellRef c (libraryRef l)))`, a `(portRef (member p 1) (instanceRef u))`, a design — is
    accepted with the expected resolution; a cellRef to a name that is not a declared cell is rejected. -/
example (l l2 c t v u p : String) (h : l2.toLower ≠ l.toLower) :
    resolve [.lib l, .cell c v [⟨p, 2⟩], .endCell, .endLib,
             .lib l2, .cell t v [], .inst u v (some c) (some l), .portRef p (some 1) (some u), .endCell, .endLib,
             .design t l2]
      = .ok [(6, .cell 1), (7, .pin 1 0 1 (some 6)), (10, .top 5)] := by
  have h' : ¬ l.toLower = l2.toLower := fun e => h e.symm
  simp [resolve, go, stepEv, Scope.empty, resolveTarget, targetCells, pickCell, findCell, findLib, findInst,
    ownerOf, pickPort, findPort, pickTop, eqI, h, h']

example (l c v u x : String) (h : x.toLower ≠ c.toLower) :
    ∃ e, resolve [.lib l, .cell c v [], .inst u v (some x) none, .endCell, .endLib] = .error e := by
  apply dangling_rejected
  simp [hasUndeclared, undeclared, declaredCells, declaredViews, h]

end Spydr.IO
