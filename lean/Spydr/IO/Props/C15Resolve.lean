/-
  C15 — "EDIF references to cells, ports, instances or libraries that were never declared … are
  always rejected"; what is accepted is self-contained.  Property theorems only.
  Model: Spydr/IO/ModelResolve.lean (`resolve`); spec: Spydr/IO/SpecResolve.lean — the scoping rules
  as a positions-only visibility fold `visAt` and the declarative `RefOk` (bound to that scope, first
  match in declaration order).  Together the theorems pin `resolve` exactly:
      (∃ rs, resolve evs = ok rs) ↔ wellScoped evs,   and every (k, r) ∈ rs is THE r with RefOk evs k r.
-/
import Spydr.IO.LemmasResolve
namespace Spydr.IO
open Resolve

/-- T `resolved_declared`: if the resolver accepts the stream, every resolution is the one the scoping
    rules prescribe (`RefOk`): an instance's cell is the first cell of that name among the CLOSED cells
    of the library its libraryRef names (current library by name or by default, else the first closed
    library of that name) — or the enclosing cell for a bare viewRef — with the named view; a portRef
    without instanceRef is a port of the ENCLOSING cell; with instanceRef, the instance is the first of
    that name declared so far IN THE SAME contents and the port belongs to the cell that very instance
    refers to; the port is the first of that name and the member index is inside it; the design's cell
    is the first of that name in the first closed library of that name.  Hence self-contained. -/
theorem resolved_declared (evs : List Ev) (rs : List (Nat × RRef)) (h : resolve evs = .ok rs) :
    ∀ kr ∈ rs, RefOk evs kr.1 kr.2 :=
  (go_sound evs [] evs rfl Scope.empty (inv_init evs) rs h).1

/-- no reference is skipped: the resolutions are those of the reference events, in order -/
theorem resolve_complete (evs : List Ev) (rs : List (Nat × RRef)) (h : resolve evs = .ok rs) :
    rs.map (·.1) = refPositions 0 evs :=
  (go_sound evs [] evs rfl Scope.empty (inv_init evs) rs h).2.1

/-- T `out_of_scope_rejected`: a reference for which the scoping rules allow NO resolution — its name
    has no declaration visible at that point (declared nowhere, or only in another cell / another
    library / later / in a library not yet closed), the view does not match, the member index is out of
    range — makes the resolver reject the stream. -/
theorem out_of_scope_rejected (evs : List Ev) (k : Nat) (e : Ev) (he : evs[k]? = some e) (hr : isRef e = true)
    (hno : ¬ ∃ r, RefOk evs k r) : ∃ err, resolve evs = .error err := by
  cases hres : resolve evs with
  | error err => exact ⟨err, rfl⟩
  | ok rs =>
    have hc := resolve_complete evs rs hres
    have hk := mem_refPositions evs 0 k e he hr
    rw [Nat.zero_add, ← hc] at hk
    obtain ⟨kr, hkr, hkk⟩ := List.mem_map.mp hk
    have := resolved_declared evs rs hres kr hkr
    rw [hkk] at this
    exact absurd ⟨kr.2, this⟩ hno

/-- T `wellScoped_accepted`: conversely, a properly nested stream in which the rules allow a resolution
    for every reference is accepted. -/
theorem wellScoped_accepted (evs : List Ev) (h : wellScoped evs) : ∃ rs, resolve evs = .ok rs :=
  go_complete evs h.1 h.2 [] evs rfl Scope.empty (inv_init evs)

/-- accepted ⇔ well scoped -/
theorem resolve_iff_wellScoped (evs : List Ev) : (∃ rs, resolve evs = .ok rs) ↔ wellScoped evs := by
  constructor
  · rintro ⟨rs, h⟩
    obtain ⟨h1, h2, h3⟩ := go_sound evs [] evs rfl Scope.empty (inv_init evs) rs h
    have h2 : rs.map (·.1) = refPositions 0 evs := h2
    refine ⟨?_, ?_⟩
    · intro k hk
      have := h3 k hk
      simpa using this
    · intro k e he hr
      have hk := mem_refPositions evs 0 k e he hr
      rw [Nat.zero_add, ← h2] at hk
      obtain ⟨kr, hkr, hkk⟩ := List.mem_map.mp hk
      exact ⟨kr.2, hkk ▸ h1 kr hkr⟩
  · exact wellScoped_accepted evs

/-- the rules prescribe at most one resolution: with the theorems above, `resolve` is pinned exactly -/
theorem resolution_unique (evs : List Ev) (k : Nat) (r r' : RRef) (h : RefOk evs k r) (h' : RefOk evs k r') :
    r = r' := by
  cases r with
  | cell d =>
    cases r' with
    | cell d' => rw [CellRefOk.unique h h']
    | pin c port bit ia =>
      obtain ⟨_, _, _, _, _, h1, _⟩ := h
      obtain ⟨_, _, _, _, _, _, h1', _⟩ := h'
      rw [h1] at h1'; cases h1'
    | top d' =>
      obtain ⟨_, _, _, _, _, h1, _⟩ := h
      obtain ⟨_, _, _, _, _, h1', _⟩ := h'
      rw [h1] at h1'; cases h1'
  | top d =>
    cases r' with
    | cell d' =>
      obtain ⟨_, _, _, _, _, h1, _⟩ := h
      obtain ⟨_, _, _, _, _, h1', _⟩ := h'
      rw [h1] at h1'; cases h1'
    | pin c port bit ia =>
      obtain ⟨_, _, _, _, _, h1, _⟩ := h
      obtain ⟨_, _, _, _, _, _, h1', _⟩ := h'
      rw [h1] at h1'; cases h1'
    | top d' =>
      obtain ⟨cn, ln, v, q, cells, h1, h2, h3, h4⟩ := h
      obtain ⟨cn', ln', v', q', cells', h1', h2', h3', h4'⟩ := h'
      rw [h1] at h1'; cases h1'
      rw [h2] at h2'; cases h2'
      have := h3.unique h3'
      cases this
      rw [h4.unique h4']
  | pin c port bit ia =>
    cases r' with
    | cell d' =>
      obtain ⟨_, _, _, _, _, _, h1, _⟩ := h
      obtain ⟨_, _, _, _, _, h1', _⟩ := h'
      rw [h1] at h1'; cases h1'
    | top d' =>
      obtain ⟨_, _, _, _, _, _, h1, _⟩ := h
      obtain ⟨_, _, _, _, _, h1', _⟩ := h'
      rw [h1] at h1'; cases h1'
    | pin c' port' bit' ia' =>
      obtain ⟨pid, m, io, v, cc, is, h1, h2, h3, h4, ps, pd, h5, h6, h7, _⟩ := h
      obtain ⟨pid', m', io', v', cc', is', h1', h2', h3', h4', ps', pd', h5', h6', h7', _⟩ := h'
      rw [h1] at h1'; cases h1'
      rw [h2] at h2'; cases h2'
      rw [h3] at h3'; cases h3'
      have hc : c = c' ∧ ia = ia' := by
        cases io <;> cases ia <;> cases ia' <;> simp only at h4 h4' <;>
          first
          | exact ⟨h4.trans h4'.symm, rfl⟩
          | (have ha := h4.1.unique h4'.1
             subst ha
             exact ⟨h4.2.unique h4'.2, rfl⟩)
          | exact False.elim h4
          | exact False.elim h4'
      obtain ⟨rfl, rfl⟩ := hc
      rw [h5] at h5'; cases h5'
      obtain ⟨rfl, _⟩ := h6.unique h6'
      rw [h7, h7']

/-! the coarse corollary: identifiers declared nowhere -/

theorem mem_declaredCells {evs : List Ev} {n : String} {d : Nat} (h : CellNamed evs n d) :
    (declaredCells evs).contains n.toLower = true := by
  obtain ⟨i, v, ps, he, hn⟩ := h
  have : i.toLower ∈ declaredCells evs := List.mem_filterMap.mpr ⟨_, List.mem_of_getElem? he, rfl⟩
  rw [eqI_lower hn] at this
  simpa using this

theorem mem_declaredLibs {evs : List Ev} {n : String} {p : Nat} (h : LibNamed evs n p) :
    (declaredLibs evs).contains n.toLower = true := by
  obtain ⟨i, he, hn⟩ := h
  have : i.toLower ∈ declaredLibs evs := List.mem_filterMap.mpr ⟨_, List.mem_of_getElem? he, rfl⟩
  rw [eqI_lower hn] at this
  simpa using this

theorem mem_declaredInsts {evs : List Ev} {n : String} {a : Nat} (h : InstNamed evs n a) :
    (declaredInsts evs).contains n.toLower = true := by
  obtain ⟨i, v, c, l, he, hn⟩ := h
  have : i.toLower ∈ declaredInsts evs := List.mem_filterMap.mpr ⟨_, List.mem_of_getElem? he, rfl⟩
  rw [eqI_lower hn] at this
  simpa using this

theorem mem_declaredViews {evs : List Ev} {n : String} {d : Nat} (h : ViewIs evs n d) :
    (declaredViews evs).contains n.toLower = true := by
  obtain ⟨i, v, ps, he, hn⟩ := h
  have : v.toLower ∈ declaredViews evs := List.mem_filterMap.mpr ⟨_, List.mem_of_getElem? he, rfl⟩
  rw [eqI_lower hn] at this
  simpa using this

theorem libCells_declared {evs : List Ev} {v : Vis} {ln : String} {cells : List Nat}
    (h : LibCells evs v (some ln) cells) : (declaredLibs evs).contains ln.toLower = true := by
  obtain ⟨p, cs, _, h2⟩ := h
  rcases h2 with ⟨hn, _⟩ | ⟨_, q, hq⟩
  · exact mem_declaredLibs hn
  · exact mem_declaredLibs hq.mem.2

theorem refOk_declared (evs : List Ev) (k : Nat) (e : Ev) (he : evs[k]? = some e) (r : RRef)
    (h : RefOk evs k r) : undeclared evs e = false := by
  cases r with
  | cell d =>
    obtain ⟨iid, iv, co, lo, v, h1, _, hview, hm⟩ := h
    rw [he] at h1; cases h1
    simp only [undeclared, Bool.or_eq_false_iff]
    refine ⟨?_, by rw [mem_declaredViews hview]; rfl⟩
    cases co with
    | none => rfl
    | some cn =>
      obtain ⟨cells, hl, hf⟩ := hm
      simp only [Bool.or_eq_false_iff]
      refine ⟨by rw [mem_declaredCells hf.mem.2]; rfl, ?_⟩
      cases lo with
      | none => rfl
      | some ln => simp only; rw [libCells_declared hl]; rfl
  | pin c port bit ia =>
    obtain ⟨pid, m, io, v, cc, is, h1, _, _, h4, ps, pd, h5, h6, _, _⟩ := h
    rw [he] at h1; cases h1
    simp only [undeclared, Bool.or_eq_false_iff]
    refine ⟨?_, ?_⟩
    · have hp : pd.ident.toLower ∈ declaredPorts evs := by
        unfold portsOf at h5
        split at h5
        · rename_i i cv ps' hc
          cases h5
          exact List.mem_flatMap.mpr ⟨_, List.mem_of_getElem? hc, List.mem_map.mpr ⟨pd, List.mem_of_getElem? h6.1, rfl⟩⟩
        · cases h5
      rw [eqI_lower h6.2.1] at hp
      have : (declaredPorts evs).contains pid.toLower = true := by simpa using hp
      rw [this]; rfl
    · cases io with
      | none => rfl
      | some iname =>
        cases ia with
        | none => exact h4.elim
        | some a => simp only at h4 ⊢; rw [mem_declaredInsts h4.1.mem.2]; rfl
  | top d =>
    obtain ⟨cn, ln, v, q, cells, h1, _, h3, h4⟩ := h
    rw [he] at h1; cases h1
    simp only [undeclared, Bool.or_eq_false_iff]
    exact ⟨by rw [mem_declaredCells h4.mem.2]; rfl, by rw [mem_declaredLibs h3.mem.2]; rfl⟩

/-- T `dangling_rejected` (the coarse form): a stream in which some cellRef / libraryRef / viewRef /
    portRef / instanceRef / design target names an identifier declared nowhere in the file is rejected. -/
theorem dangling_rejected (evs : List Ev) (h : hasUndeclared evs = true) : ∃ e, resolve evs = .error e := by
  simp only [hasUndeclared, List.any_eq_true] at h
  obtain ⟨e, hmem, hu⟩ := h
  obtain ⟨k, hk⟩ := List.getElem?_of_mem hmem
  have hr : isRef e = true := by
    cases e <;> simp [undeclared] at hu <;> rfl
  apply out_of_scope_rejected evs k e hk hr
  rintro ⟨r, hr'⟩
  rw [refOk_declared evs k e hk r hr'] at hu
  cases hu

/-! non-vacuity (symbolic in the identifiers, so that no string evaluation is needed):
    a two-library file — a primitive with a 2-bit port, a module instantiating it through
    `(viewRef v (cellRef c (libraryRef l)))`, a `(portRef (member p 1) (instanceRef u))`, a design — is
    accepted with the expected resolution; a cellRef to a name that is not a declared cell is rejected;
    an instanceRef to an instance that exists only in ANOTHER cell is rejected. -/
example (l l2 c t v u p : String) (h : l2.toLower ≠ l.toLower) :
    resolve [.lib l, .cell c v [⟨p, 2⟩], .endCell, .endLib,
             .lib l2, .cell t v [], .inst u v (some c) (some l), .portRef p (some 1) (some u), .endCell, .endLib,
             .design t l2]
      = .ok [(6, .cell 1), (7, .pin 1 0 1 (some 6)), (10, .top 5)] := by
  have h' : ¬ l.toLower = l2.toLower := fun e => h e.symm
  simp [resolve, go, stepEv, Scope.empty, resolveTarget, targetCells, pickCell, isCellNamed, isLibNamed, isInstNamed,
    viewIs, portsOf, ownerOf, pickPort, findPort, pickTop, eqI, h, h']

example (l c v u x : String) (h : x.toLower ≠ c.toLower) :
    ∃ e, resolve [.lib l, .cell c v [], .inst u v (some x) none, .endCell, .endLib] = .error e := by
  apply dangling_rejected
  simp [hasUndeclared, undeclared, declaredCells, declaredViews, h]

example (l a b v u p : String) :
    resolve [.lib l, .cell a v [⟨p, 1⟩], .inst u v none none, .endCell,
             .cell b v [], .portRef p none (some u), .endCell, .endLib]
      = .error .danglingInstance := by
  simp [resolve, go, stepEv, Scope.empty, resolveTarget, viewIs, ownerOf, eqI]

end Spydr.IO
