/-
  C16 — writing a netlist does not change it (beyond the documented EDIF side effects) and is
  repeatable.  Property theorems only.
  Models: ModelTopo (`_topological_sort`), ModelEdifify (`_edifify_netlist`, the three writers);
  specs: SpecTopo (`TopoOrder`), SpecEdifify (`DocEq`).
  Every theorem is for EVERY oracle (`deps`, `depL`, `depD` = iteration order of the Python sets) and
  every identifier generator `mkId`.
-/
import Spydr.IO.LemmasEdifify2
import Spydr.IO.LemmasEdifify3
import Spydr.IO.LemmasTopoFuel
namespace Spydr.IO
open Topo

section topo
variable {α : Type} [DecidableEq α]

/-- T `toposort_ok`: when the loops end, the output is a permutation of the input in which every
    element comes after all of its dependencies — for every iteration order of the dependency sets.
    (Termination: `toposort_finishes` below; the driver also reports the flag.) -/
theorem toposort_ok (deps : α → List α) (input : List α) (fuel : Nat)
    (hns : NoSelf deps) (hcl : Closed deps input) (hnd : input.Nodup)
    (hfin : (toposort deps fuel input).2 = true) :
    TopoOrder deps input (toposort deps fuel input).1 :=
  toposort_spec hns hcl hnd fuel hfin

/-- T `toposort_finishes` (the sufficiency lemma): on acyclic, self-contained dependencies the Python
    loops end, within `fuelFor = 3·|input| + Σ|deps x| + 1` iterations — for every iteration order. -/
theorem toposort_finishes (deps : α → List α) (input : List α)
    (hac : Acyclic deps) (hcl : Closed deps input) :
    (toposort deps (fuelFor deps input) input).2 = true :=
  toposort_terminates deps input hac hcl

/-- `toposort_ok` without the `finished` hypothesis: total correctness for acyclic dependencies. -/
theorem toposort_total (deps : α → List α) (input : List α)
    (hac : Acyclic deps) (hcl : Closed deps input) (hnd : input.Nodup) :
    TopoOrder deps input (toposort deps (fuelFor deps input) input).1 := by
  have hns : NoSelf deps := by
    obtain ⟨r, hr⟩ := hac
    intro x hx
    exact Nat.lt_irrefl _ (hr x x hx)
  exact toposort_ok deps input _ hns hcl hnd (toposort_finishes deps input hac hcl)

/-- T `toposort_fixpoint`: a dependency-ordered list is returned unchanged (and within 2·n steps),
    whatever the iteration order of the sets. -/
theorem toposort_fixpoint (deps : α → List α) (l : List α) (fuel : Nat)
    (hord : DepOrdered deps l) (hnd : l.Nodup) (hfuel : 2 * l.length ≤ fuel) :
    toposort deps fuel l = (l, true) := by
  obtain ⟨k, hk⟩ := Nat.exists_eq_add_of_le hfuel
  rw [hk]; exact toposort_sorted deps l k hord hnd

/-- the order of iteration may even change between the two runs: only membership matters -/
theorem depOrdered_congr (deps deps' : α → List α) (h : ∀ x d, d ∈ deps' x ↔ d ∈ deps x) (l : List α)
    (ho : DepOrdered deps l) : DepOrdered deps' l :=
  fun pre x post heq d hd => ho pre x post heq d ((h x d).mp hd)

/-- T `toposort_idem`: sorting the result again — even with a different iteration order of the same
    sets — gives the same list. -/
theorem toposort_idem (deps deps' : α → List α) (hsame : ∀ x d, d ∈ deps' x ↔ d ∈ deps x)
    (input : List α) (fuel : Nat)
    (hns : NoSelf deps) (hcl : Closed deps input) (hnd : input.Nodup)
    (hfin : (toposort deps fuel input).2 = true) (hfuel : 2 * input.length ≤ fuel) :
    toposort deps' fuel (toposort deps fuel input).1 = ((toposort deps fuel input).1, true) := by
  obtain ⟨hperm, hord⟩ := toposort_ok deps input fuel hns hcl hnd hfin
  apply toposort_fixpoint deps' _ fuel (depOrdered_congr deps deps' hsame _ hord) (hperm.nodup_iff.mpr hnd)
  rw [hperm.length_eq]; exact hfuel

/-- more fuel never changes a finished sort (so "the result of the Python loop" is well defined) -/
theorem toposort_fuel_irrelevant (deps : α → List α) (input : List α) (f k : Nat)
    (hfin : (toposort deps f input).2 = true) : toposort deps (f + k) input = toposort deps f input := by
  simp only [toposort] at hfin ⊢
  rw [run_mono deps f k (init input) hfin]

/-- the executable check the harness runs on the order the implementation chose -/
theorem topoOrderB_iff (deps : α → List α) (input l : List α) :
    topoOrderB deps input l = true ↔ TopoOrder deps input l := by
  simp [topoOrderB, TopoOrder, depOrderedB_iff, List.isPerm_iff]

end topo

/-! non-vacuity: a diamond with a tail, two different iteration orders -/
def exDeps : Nat → List Nat := fun x =>
  if x = 0 then [1, 2] else if x = 1 then [3] else if x = 2 then [3, 1] else []
def exDeps' : Nat → List Nat := fun x =>
  if x = 0 then [2, 1] else if x = 1 then [3] else if x = 2 then [1, 3] else []

example : toposort exDeps 30 [0, 1, 2, 3] = ([3, 1, 2, 0], true) := by decide
example : toposort exDeps' 30 [0, 1, 2, 3] = ([3, 1, 2, 0], true) := by decide
example : toposort exDeps (fuelFor exDeps [2, 0, 3, 1]) [2, 0, 3, 1] = ([3, 1, 2, 0], true) := by decide
example : Acyclic exDeps := ⟨fun x => if x = 0 then 3 else if x = 2 then 2 else if x = 1 then 1 else 0, by
  intro x d hd
  unfold exDeps at hd
  by_cases h0 : x = 0
  · subst h0; simp at hd; rcases hd with rfl | rfl <;> simp
  · by_cases h1 : x = 1
    · subst h1; simp at hd; subst hd; simp
    · by_cases h2 : x = 2
      · subst h2; simp at hd; rcases hd with rfl | rfl <;> simp
      · simp [h0, h1, h2] at hd⟩
example : NoSelf exDeps ∧ Closed exDeps [0, 1, 2, 3] ∧ [0, 1, 2, 3].Nodup := by
  refine ⟨?_, ?_, by decide⟩
  · intro x; unfold exDeps
    by_cases h0 : x = 0
    · simp [h0]
    · by_cases h1 : x = 1
      · simp [h1]
      · by_cases h2 : x = 2
        · simp [h2]
        · simp [h0, h1, h2]
  · intro x hx d hd
    simp at hx
    rcases hx with rfl | rfl | rfl | rfl <;> simp [exDeps] at hd <;> simp <;> omega

/-! ### the EDIF pre-pass -/

/-- T `edifify_documented_only`: the pre-passed netlist equals the given one up to exactly the
    documented effects — `DocEq` forgets the keys `EDIF.identifier`/`EDIF.rename`, a defaulted netlist
    name, and the order of libraries and of cells inside a library (as multisets: `List.Perm`);
    everything else (every other datum, every `extra`: directions, widths, indices, connectivity,
    references) is equal. -/
theorem edifify_documented_only (depL : Nat → List Nat) (depD : Nat → Nat → List Nat) (mkId : MkId)
    (fuel : Nat) (n : ENet) (hy : EdifHyp depL depD n)
    (hfin : (edifify depL depD mkId fuel n).2 = true) :
    DocEq (edifify depL depD mkId fuel n).1 n :=
  edifify_documented depL depD mkId fuel n hy hfin

/-- T `edifify_keeps_existing` (what `DocEq` alone would not say, since it forgets the two keys
    wherever they are): the pre-pass never OVERWRITES — an element that already carries
    `EDIF.identifier` (e.g. left by the EDIF reader) comes out identical, data and all; no element's
    name or `extra` changes; the netlist's own data is identical if it was named; every library / cell of
    the result is one of the given ones.  Holds whether or not the sorts finish. -/
theorem edifify_keeps_existing (depL : Nat → List Nat) (depD : Nat → Nat → List Nat) (mkId : MkId)
    (fuel : Nat) (n : ENet) :
    KeepElem n.top (edifify depL depD mkId fuel n).1.top ∧
    (dataHas n.data "EDIF.identifier" = true → (edifify depL depD mkId fuel n).1.data = n.data) ∧
    ∀ l' ∈ (edifify depL depD mkId fuel n).1.libs, ∃ l ∈ n.libs, KeepLib l l' :=
  edifify_keeps depL depD mkId fuel n

/-- the pre-pass terminates on a self-contained netlist with acyclic library and cell dependencies
    (the flag the other theorems assume is then `true`) -/
theorem edifify_finishes (depL : Nat → List Nat) (depD : Nat → Nat → List Nat) (mkId : MkId)
    (fuel : Nat) (n : ENet) (hy : EdifHyp depL depD n)
    (haL : Acyclic depL) (haD : ∀ l ∈ n.libs, Acyclic (depD l.id))
    (hfL : fuelFor depL (n.libs.map (·.id)) ≤ fuel)
    (hfD : ∀ l ∈ n.libs, fuelFor (depD l.id) (l.defs.map (·.id)) ≤ fuel) :
    (edifify depL depD mkId fuel n).2 = true := by
  have fin : ∀ (deps : Nat → List Nat) (input : List Nat), Acyclic deps → Closed deps input →
      fuelFor deps input ≤ fuel → (toposort deps fuel input).2 = true := by
    intro deps input ha hc hf
    obtain ⟨k, hk⟩ := Nat.exists_eq_add_of_le hf
    rw [hk, toposort_fuel_irrelevant deps input _ k (toposort_finishes deps input ha hc)]
    exact toposort_finishes deps input ha hc
  simp only [edifify, Bool.and_eq_true, List.all_eq_true, List.mem_map, forall_exists_index, and_imp,
    forall_apply_eq_imp_iff₂]
  refine ⟨fin _ _ haL hy.libClosed hfL, ?_⟩
  intro l hl
  have hln : l ∈ n.libs := (mem_reorder _ _ _ l hl).1
  exact fin _ _ (haD l hln) (hy.defClosed l hln) (hfD l hln)

/-- T `edifify_idem`: running the pre-pass on its own result — with any iteration order of the same
    dependency sets and any identifier generator — is the identity. -/
theorem edifify_idem (depL depL' : Nat → List Nat) (depD depD' : Nat → Nat → List Nat) (mkId mkId' : MkId)
    (hL : ∀ x d, d ∈ depL' x ↔ d ∈ depL x) (hD : ∀ l x d, d ∈ depD' l x ↔ d ∈ depD l x)
    (fuel : Nat) (n : ENet) (hy : EdifHyp depL depD n)
    (hfin : (edifify depL depD mkId fuel n).2 = true)
    (hfuelL : 2 * n.libs.length ≤ fuel) (hfuelD : ∀ l ∈ n.libs, 2 * l.defs.length ≤ fuel) :
    edifify depL' depD' mkId' fuel (edifify depL depD mkId fuel n).1 = ((edifify depL depD mkId fuel n).1, true) := by
  have hp := edifify_prepassed depL depD mkId fuel n hy hfin
  have hd := edifify_documented depL depD mkId fuel n hy hfin
  have hp' : PrePassed depL' depD' (edifify depL depD mkId fuel n).1 :=
    { hp with
      libOrder := depOrdered_congr depL depL' hL _ hp.libOrder
      defOrder := fun l hl => depOrdered_congr (depD l.id) (depD' l.id) (hD l.id) _ (hp.defOrder l hl) }
  obtain ⟨ls, hperm, hpa⟩ := hd.2.2.2
  -- sizes are those of the original netlist
  have hlen : ∀ (xs : List SLib) (ys : List SLib), PairAll SLibEq xs ys →
      xs.length = ys.length ∧ ∀ x ∈ xs, ∃ y ∈ ys, x.id = y.id ∧ x.defs.length = y.defs.length := by
    intro xs ys h
    induction h with
    | nil => exact ⟨rfl, by simp⟩
    | cons hab _ ih =>
      refine ⟨by simp [ih.1], ?_⟩
      intro x hx
      rcases List.mem_cons.mp hx with rfl | hx
      · exact ⟨_, by simp, hab.1, hab.2.2.length_eq⟩
      · obtain ⟨y, hy, h1, h2⟩ := ih.2 x hx
        exact ⟨y, List.mem_cons_of_mem _ hy, h1, h2⟩
  obtain ⟨hl1, hl2⟩ := hlen _ _ hpa
  apply edifify_fixpoint depL' depD' mkId' fuel _ hp'
  · have : (edifify depL depD mkId fuel n).1.libs.length = n.libs.length := by
      have := hl1; simp only [List.length_map] at this
      rw [this, hperm.length_eq]; simp
    rw [this]; exact hfuelL
  · intro l hl
    obtain ⟨y, hy, _, h2⟩ := hl2 (stripLib l) (List.mem_map.mpr ⟨l, hl, rfl⟩)
    have hy' : y ∈ n.libs.map stripLib := hperm.mem_iff.mp hy
    obtain ⟨l0, hl0, rfl⟩ := List.mem_map.mp hy'
    have : l.defs.length = l0.defs.length := by simpa [stripLib] using h2
    rw [this]; exact hfuelD l0 hl0

/-! non-vacuity on a concrete netlist: library `work` (id 1) is listed first but instantiates a cell of
    `prims` (id 2); nothing is named yet and the netlist has no name.  The pre-pass is NOT the identity
    here (libraries swapped, name defaulted, identifiers recorded) and `DocEq` holds. -/
def exNet : ENet :=
  { name := none, data := [], top := ⟨"top", [], "t"⟩,
    libs := [ ⟨1, ⟨"work", [], "L1"⟩, [⟨10, ⟨"m", [], "D10"⟩, [⟨"p", [], "x"⟩], [], [⟨"u0", [], "ref=20"⟩]⟩]⟩,
              ⟨2, ⟨"prims", [], "L2"⟩, [⟨20, ⟨"INV", [], "D20"⟩, [], [], []⟩]⟩ ] }
def exDepL : Nat → List Nat := fun x => if x = 1 then [2] else []
def exDepD : Nat → Nat → List Nat := fun _ _ => []
def exMkId : MkId := fun e _ => e.name

theorem exNet_hyp : EdifHyp exDepL exDepD exNet := by
  refine ⟨by decide, ?_, ?_, ?_, ?_, ?_⟩
  · intro x; unfold exDepL; split <;> simp_all
  · intro x hx d hd
    simp [exNet] at hx
    rcases hx with rfl | rfl <;> simp [exDepL] at hd <;> simp [exNet, hd]
  · intro l hl; simp [exNet] at hl; rcases hl with rfl | rfl <;> decide
  · intro l _ x; simp [exDepD]
  · intro l _ x _ d hd; simp [exDepD] at hd

example : (edifify exDepL exDepD exMkId 20 exNet).2 = true := by decide
example : (edifify exDepL exDepD exMkId 20 exNet).1.libs.map (·.id) = [2, 1] := by decide
example : exNet.libs.map (·.id) = [1, 2] := by decide
example : (edifify exDepL exDepD exMkId 20 exNet).1.name = some "top" := rfl
example : DocEq (edifify exDepL exDepD exMkId 20 exNet).1 exNet :=
  edifify_documented_only _ _ _ _ _ exNet_hyp (by decide)
example : ∀ l ∈ (edifify exDepL exDepD exMkId 20 exNet).1.libs, namedLib l :=
  (edifify_prepassed _ _ _ _ _ exNet_hyp (by decide)).libsNamed
example : ∀ l ∈ exNet.libs, ¬ namedElem l.self := by
  intro l hl; simp [exNet] at hl; rcases hl with rfl | rfl <;> simp [namedElem, dataHas]
example : (edifify exDepL exDepD exMkId 20 exNet).1 ≠ exNet := by
  intro h
  have : (edifify exDepL exDepD exMkId 20 exNet).1.libs.map (·.id) = exNet.libs.map (·.id) := by rw [h]
  revert this; decide

/-- T `compose_repeatable`: composing the netlist the first composition left behind — immediately or
    after any number of read-only queries, with whatever set iteration order — runs a pre-pass that is
    the identity, so the same pure emission runs on the same netlist: same text (the timestamp is
    outside the model: `datetime.now()`), and the netlist is not changed a second time. -/
theorem compose_repeatable (depL depL' : Nat → List Nat) (depD depD' : Nat → Nat → List Nat) (mkId mkId' : MkId)
    (hL : ∀ x d, d ∈ depL' x ↔ d ∈ depL x) (hD : ∀ l x d, d ∈ depD' l x ↔ d ∈ depD l x)
    (render : ENet → String) (fuel : Nat) (n : ENet) (hy : EdifHyp depL depD n)
    (hfin : (composeEdif depL depD mkId fuel render n).2.2 = true)
    (hfuelL : 2 * n.libs.length ≤ fuel) (hfuelD : ∀ l ∈ n.libs, 2 * l.defs.length ≤ fuel) :
    composeEdif depL' depD' mkId' fuel render (composeEdif depL depD mkId fuel render n).1 =
      composeEdif depL depD mkId fuel render n := by
  have h := edifify_idem depL depL' depD depD' mkId mkId' hL hD fuel n hy hfin hfuelL hfuelD
  have hfin' : (edifify depL depD mkId fuel n).2 = true := hfin
  simp only [composeEdif, h]
  rw [Prod.mk.injEq, Prod.mk.injEq]
  exact ⟨rfl, rfl, hfin'.symm⟩

/-- For Verilog and EBLIF the model writer is a pure function: "unchanged" and "repeatable" hold by
    construction.  Stated so that the claim is explicit; the content for these two formats is in the
    correspondence check. -/
theorem pure_writer_unchanged {Opt : Type} (render : Opt → ENet → String) (o : Opt) (n : ENet) :
    (composePure render o n).1 = n ∧
    composePure render o (composePure render o n).1 = composePure render o n := ⟨rfl, rfl⟩

/-! ### the executable comparison the harness runs on before/after snapshots is sound -/

theorem sLibEqB_sound (a b : SLib) (h : sLibEqB a b = true) : SLibEq a b := by
  simp only [sLibEqB, Bool.and_eq_true, beq_iff_eq, List.isPerm_iff] at h
  exact ⟨h.1.1, h.1.2, h.2⟩

theorem matchLibs_sound (xs ys : List SLib) (h : matchLibs xs ys = true) : LibsEq xs ys := by
  induction xs generalizing ys with
  | nil =>
    have : ys = [] := by simpa [matchLibs] using h
    subst this
    exact ⟨[], List.Perm.refl _, PairAll.nil⟩
  | cons x xs ih =>
    simp only [matchLibs] at h
    split at h
    · cases h
    · rename_i y hf
      obtain ⟨l, hl, hpa⟩ := ih _ h
      have hy : y ∈ ys := List.mem_of_find?_eq_some hf
      refine ⟨y :: l, ?_, PairAll.cons (sLibEqB_sound x y (List.find?_some hf)) hpa⟩
      exact (List.Perm.cons y hl).trans (List.perm_cons_erase hy).symm

theorem docEqB_sound (a b : ENet) (h : docEqB a b = true) : DocEq a b := by
  simp only [docEqB, Bool.and_eq_true, beq_iff_eq] at h
  exact ⟨h.1.1.1, h.1.1.2, h.1.2, matchLibs_sound _ _ h.2⟩

end Spydr.IO
