/-
  C16 — "the only permitted side effects are the documented ones of the EDIF writer (dependency
  ordering of libraries and cells, recording of generated identifiers, defaulting an absent netlist
  name)".  `strip*` forget exactly these; `DocEq` compares what is left.
-/
import Spydr.IO.ModelEdifify
namespace Spydr.IO

def isIdKey (k : String) : Bool := k == "EDIF.identifier" || k == "EDIF.rename"

def stripData (d : Data) : Data := d.filter (fun kv => !isIdKey kv.1)

def stripElem (e : Elem) : Elem := { e with data := stripData e.data }

def stripDef (d : EDef) : EDef :=
  { id := d.id, self := stripElem d.self, ports := d.ports.map stripElem,
    cables := d.cables.map stripElem, insts := d.insts.map stripElem }

/-- a library with the generated identifiers forgotten; its cells still in order -/
structure SLib where
  id : Nat
  self : Elem
  defs : List EDef
  deriving DecidableEq, Repr

def stripLib (l : ELib) : SLib := ⟨l.id, stripElem l.self, l.defs.map stripDef⟩

/-- same library up to the order of its cells -/
def SLibEq (a b : SLib) : Prop := a.id = b.id ∧ a.self = b.self ∧ a.defs.Perm b.defs

/-- position-wise relation of two lists (core has no `Forall₂`) -/
inductive PairAll {α β : Type} (R : α → β → Prop) : List α → List β → Prop
  | nil : PairAll R [] []
  | cons {a b as bs} : R a b → PairAll R as bs → PairAll R (a :: as) (b :: bs)

/-- same libraries up to their order and the order of the cells inside each -/
def LibsEq (xs ys : List SLib) : Prop := ∃ l : List SLib, l.Perm ys ∧ PairAll SLibEq xs l

/-- equal up to the documented side effects -/
def DocEq (a b : ENet) : Prop :=
  a.name.getD a.top.name = b.name.getD b.top.name ∧
  stripData a.data = stripData b.data ∧
  stripElem a.top = stripElem b.top ∧
  LibsEq (a.libs.map stripLib) (b.libs.map stripLib)

/-! executable form (greedy matching; sound, and complete when library identities are distinct) -/

def sLibEqB (a b : SLib) : Bool := a.id == b.id && a.self == b.self && a.defs.isPerm b.defs

def matchLibs : List SLib → List SLib → Bool
  | [], ys => ys.isEmpty
  | x :: xs, ys =>
    match ys.find? (sLibEqB x) with
    | none => false
    | some y => matchLibs xs (ys.erase y)

def docEqB (a b : ENet) : Bool :=
  (a.name.getD a.top.name == b.name.getD b.top.name) &&
  (stripData a.data == stripData b.data) &&
  (stripElem a.top == stripElem b.top) &&
  matchLibs (a.libs.map stripLib) (b.libs.map stripLib)

end Spydr.IO
