/-
  C15 — specification predicates, written without looking at `read`'s definition:
  what "leaves no process-wide residue" means for a call and for a history.
-/
import Spydr.IO.ModelRead
namespace Spydr.IO

/-- A call is policy-clean when the policy it leaves is the policy it found — whether it returned or
    raised. -/
def PolicyClean {ρ ε α : Type} (c : Call ρ ε α) : Prop :=
  ∀ s, (c s).1.policy = s.policy

/-- The body of a reader that does not switch the policy is policy-read-only (see `ROBody`): this is
    a MODELLING ASSUMPTION about the EBLIF reader's source, not something the theorems establish.
    For such a reader `PolicyClean` is immediate — the theorems have content for the two readers that
    do switch (EDIF, Verilog), where the body is an arbitrary `Call`. -/
def ReadOnly {ρ ε α : Type} (c : Call ρ ε α) : Prop := ∃ b : ROBody ρ ε α, c = liftRO b

/-- The result of a body depends on the process state through the policy only. -/
def PolicyOnly {ρ ε α : Type} (c : Call ρ ε α) : Prop :=
  ∀ s t, s.policy = t.policy → (c s).2 = (c t).2

/-- Executable form used by the driver on observed trajectories: every parse and every `create` leaves the
    policy where it was, `setPolicy x` leaves `x`. `before` is the policy before the first call. -/
def trajectoryClean {ι : Type} : Policy → List (Op ι × Policy) → Bool
  | _, [] => true
  | p, (.parse _ _, q) :: r => p == q && trajectoryClean q r
  | p, (.create, q) :: r => p == q && trajectoryClean q r
  | _, (.setPolicy x, q) :: r => x == q && trajectoryClean q r

end Spydr.IO
