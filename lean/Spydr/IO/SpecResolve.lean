/-
  C15 — what "declared" means for an EDIF event stream, without reference to the resolver.
-/
import Spydr.IO.ModelResolve
namespace Spydr.IO.Resolve

def declaredLibs (evs : List Ev) : List String :=
  evs.filterMap (fun e => match e with | .lib i => some i.toLower | _ => none)
def declaredCells (evs : List Ev) : List String :=
  evs.filterMap (fun e => match e with | .cell i _ _ => some i.toLower | _ => none)
def declaredViews (evs : List Ev) : List String :=
  evs.filterMap (fun e => match e with | .cell _ v _ => some v.toLower | _ => none)
def declaredPorts (evs : List Ev) : List String :=
  evs.flatMap (fun e => match e with | .cell _ _ ps => ps.map (fun p => p.ident.toLower) | _ => [])
def declaredInsts (evs : List Ev) : List String :=
  evs.filterMap (fun e => match e with | .inst i _ _ _ => some i.toLower | _ => none)

/-- the reference event names something that is declared NOWHERE in the file -/
def undeclared (evs : List Ev) : Ev → Bool
  | .inst _ v c l =>
      (match c with
       | some cn => !(declaredCells evs).contains cn.toLower ||
           (match l with | some ln => !(declaredLibs evs).contains ln.toLower | none => false)
       | none => false) ||
      !(declaredViews evs).contains v.toLower
  | .portRef p _ i =>
      !(declaredPorts evs).contains p.toLower ||
      (match i with | some n => !(declaredInsts evs).contains n.toLower | none => false)
  | .design c l => !(declaredCells evs).contains c.toLower || !(declaredLibs evs).contains l.toLower
  | _ => false

def hasUndeclared (evs : List Ev) : Bool := evs.any (undeclared evs)

def isRef : Ev → Bool
  | .inst .. => true
  | .portRef .. => true
  | .design .. => true
  | _ => false

/-- positions of the reference events, in order -/
def refPositions : Nat → List Ev → List Nat
  | _, [] => []
  | k, e :: r => if isRef e then k :: refPositions (k + 1) r else refPositions (k + 1) r

/-- the resolution `r` of the reference at position `k` points at declarations of this very stream
    that bear the referenced identifiers and come earlier -/
def RefOk (evs : List Ev) (k : Nat) : RRef → Prop
  | .cell d =>
      ∃ iid iv co lo id v ps, evs[k]? = some (.inst iid iv co lo) ∧ evs[d]? = some (.cell id v ps) ∧ d < k ∧
        eqI v iv = true ∧ ∀ cn, co = some cn → eqI id cn = true
  | .pin c port bit ia =>
      ∃ pid m io id v ps pd, evs[k]? = some (.portRef pid m io) ∧ evs[c]? = some (.cell id v ps) ∧ c < k ∧
        ps[port]? = some pd ∧ eqI pd.ident pid = true ∧ bit = m.getD 0 ∧ bit < pd.width ∧
        (match io, ia with
         | none, none => True
         | some iname, some a => a < k ∧ ∃ iid iv co lo, evs[a]? = some (.inst iid iv co lo) ∧ eqI iid iname = true
         | _, _ => False)
  | .top d =>
      ∃ cn ln id v ps, evs[k]? = some (.design cn ln) ∧ evs[d]? = some (.cell id v ps) ∧ d < k ∧ eqI id cn = true

end Spydr.IO.Resolve
