/-
  C15 — EDIF scoping rules and what a correct resolution is, written without reference to the resolver:
  a positions-only fold for WHAT IS VISIBLE at a point of the stream (`visAt`), and declarative
  conditions on a resolution (`RefOk`) that bind it to that scope and to the first matching declaration.
-/
import Spydr.IO.ModelResolve
namespace Spydr.IO.Resolve

/-! ### "declared somewhere in the file" (the coarse notion) -/

def declaredLibs (evs : List Ev) : List String :=
  evs.filterMap (fun e => match e with | .lib i => some i.toLower | _ => none)
def declaredCells (evs : List Ev) : List String :=
  evs.filterMap (fun e => match e with | .cell i _ _ => some i.toLower | _ => none)
def declaredViews (evs : List Ev) : List String :=
  evs.filterMap (fun e => match e with | .cell _ v _ => some v.toLower | _ => none)
def declaredPorts (evs : List Ev) : List String :=
  evs.flatMap (fun e => match e with | .cell _ _ ps => ps.map (fun p => p.ident.toLower) | _ => [])
def declaredInsts (evs : List Ev) : List String :=
  evs.filterMap (fun e => match e with | .inst i _ _ _ => some i.toLower | _ => none)

/-- the reference event names something that is declared NOWHERE in the file -/
def undeclared (evs : List Ev) : Ev → Bool
  | .inst _ v c l =>
      (match c with
       | some cn => !(declaredCells evs).contains cn.toLower ||
           (match l with | some ln => !(declaredLibs evs).contains ln.toLower | none => false)
       | none => false) ||
      !(declaredViews evs).contains v.toLower
  | .portRef p _ i =>
      !(declaredPorts evs).contains p.toLower ||
      (match i with | some n => !(declaredInsts evs).contains n.toLower | none => false)
  | .design c l => !(declaredCells evs).contains c.toLower || !(declaredLibs evs).contains l.toLower
  | _ => false

def hasUndeclared (evs : List Ev) : Bool := evs.any (undeclared evs)

def isRef : Ev → Bool
  | .inst .. => true
  | .portRef .. => true
  | .design .. => true
  | _ => false

/-- positions of the reference events, in order -/
def refPositions : Nat → List Ev → List Nat
  | _, [] => []
  | k, e :: r => if isRef e then k :: refPositions (k + 1) r else refPositions (k + 1) r

/-! ### the scoping rules: which declarations are visible, by position -/

structure Vis where
  /-- closed libraries, in order: (position of `lib`, positions of its cells) -/
  done : List (Nat × List Nat)
  /-- the open library and its CLOSED cells -/
  cur : Option (Nat × List Nat)
  /-- the open cell and the instances declared in it so far -/
  cell : Option (Nat × List Nat)
  deriving DecidableEq, Repr

def Vis.empty : Vis := ⟨[], none, none⟩

/-- one event; `none` = the event may not occur here (ill-nested stream) -/
def visStep (pos : Nat) (v : Vis) : Ev → Option Vis
  | .lib _ => match v.cur, v.cell with
    | none, none => some { v with cur := some (pos, []) }
    | _, _ => none
  | .endLib => match v.cur, v.cell with
    | some l, none => some { v with done := v.done ++ [l], cur := none }
    | _, _ => none
  | .cell _ _ _ => match v.cur, v.cell with
    | some _, none => some { v with cell := some (pos, []) }
    | _, _ => none
  | .endCell => match v.cur, v.cell with
    | some l, some c => some { v with cur := some (l.1, l.2 ++ [c.1]), cell := none }
    | _, _ => none
  | .inst _ _ _ _ => match v.cur, v.cell with
    | some _, some c => some { v with cell := some (c.1, c.2 ++ [pos]) }
    | _, _ => none
  | .portRef _ _ _ => match v.cur, v.cell with
    | some _, some _ => some v
    | _, _ => none
  | .design _ _ => match v.cur, v.cell with
    | none, none => some v
    | _, _ => none

def visFrom : Nat → Vis → List Ev → Option Vis
  | _, v, [] => some v
  | pos, v, e :: r => match visStep pos v e with
    | none => none
    | some v' => visFrom (pos + 1) v' r

/-- what is visible just before the event at position `k` -/
def visAt (evs : List Ev) (k : Nat) : Option Vis := visFrom 0 Vis.empty (evs.take k)

/-- properly nested: libraries at top level, cells in libraries, instances / portRefs in cells, design
    at top level -/
def wellNested (evs : List Ev) : Prop := ∀ k, k ≤ evs.length → (visAt evs k).isSome = true

/-! ### what a correct resolution is -/

def LibNamed (evs : List Ev) (name : String) (p : Nat) : Prop := ∃ i, evs[p]? = some (.lib i) ∧ eqI i name = true
def CellNamed (evs : List Ev) (name : String) (d : Nat) : Prop :=
  ∃ i v ps, evs[d]? = some (.cell i v ps) ∧ eqI i name = true
def InstNamed (evs : List Ev) (name : String) (a : Nat) : Prop :=
  ∃ i v c l, evs[a]? = some (.inst i v c l) ∧ eqI i name = true
def ViewIs (evs : List Ev) (view : String) (d : Nat) : Prop :=
  ∃ i v ps, evs[d]? = some (.cell i v ps) ∧ eqI v view = true

/-- `d` is the first element of `l` with property `P` -/
def FirstIn {β : Type} (P : β → Prop) (l : List β) (d : β) : Prop :=
  ∃ pre post, l = pre ++ d :: post ∧ P d ∧ ∀ x ∈ pre, ¬ P x

/-- the cells a `cellRef` with this `libraryRef` is looked up in: the current library when there is no
    libraryRef or it names the current library, else the first closed library of that name -/
def LibCells (evs : List Ev) (v : Vis) (lo : Option String) (cells : List Nat) : Prop :=
  ∃ p cs, v.cur = some (p, cs) ∧
    match lo with
    | none => cells = cs
    | some ln => (LibNamed evs ln p ∧ cells = cs) ∨
        (¬ LibNamed evs ln p ∧ ∃ q, FirstIn (fun L : Nat × List Nat => LibNamed evs ln L.1) v.done (q, cells))

/-- the instance at `k` refers to the cell declared at `d` -/
def CellRefOk (evs : List Ev) (k d : Nat) : Prop :=
  ∃ iid iv co lo v, evs[k]? = some (.inst iid iv co lo) ∧ visAt evs k = some v ∧ ViewIs evs iv d ∧
    match co with
    | none => ∃ is, v.cell = some (d, is)
    | some cn => ∃ cells, LibCells evs v lo cells ∧ FirstIn (CellNamed evs cn) cells d

/-- `port` is the index of the first port named `pid` -/
def FirstPort (ps : List PortDecl) (pid : String) (port : Nat) (pd : PortDecl) : Prop :=
  ps[port]? = some pd ∧ eqI pd.ident pid = true ∧ ∀ j q, j < port → ps[j]? = some q → eqI q.ident pid = false

/-- the resolution `r` of the reference at position `k` is the one the scoping rules prescribe -/
def RefOk (evs : List Ev) (k : Nat) : RRef → Prop
  | .cell d => CellRefOk evs k d
  | .pin c port bit ia =>
      ∃ pid m io v cc is, evs[k]? = some (.portRef pid m io) ∧ visAt evs k = some v ∧ v.cell = some (cc, is) ∧
        (match io, ia with
         | none, none => c = cc                                  -- a port of the ENCLOSING cell
         | some iname, some a =>                                  -- a port of the cell that instance `a`,
             FirstIn (InstNamed evs iname) is a ∧ CellRefOk evs a c   -- declared in the same contents, refers to
         | _, _ => False) ∧
        ∃ ps pd, portsOf evs c = some ps ∧ FirstPort ps pid port pd ∧ bit = m.getD 0 ∧ bit < pd.width
  | .top d =>
      ∃ cn ln v q cells, evs[k]? = some (.design cn ln) ∧ visAt evs k = some v ∧
        FirstIn (fun L : Nat × List Nat => LibNamed evs ln L.1) v.done (q, cells) ∧
        FirstIn (CellNamed evs cn) cells d

/-- every reference has a resolution the scoping rules allow -/
def wellScoped (evs : List Ev) : Prop :=
  wellNested evs ∧ ∀ k e, evs[k]? = some e → isRef e = true → ∃ r, RefOk evs k r

end Spydr.IO.Resolve
