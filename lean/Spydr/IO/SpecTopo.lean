/-
  C16 — what a dependency-first order is.  Written without reference to the sort.
-/
namespace Spydr.IO.Topo

variable {α : Type} [DecidableEq α]

/-- every element's dependencies occur strictly before it -/
def DepOrdered (deps : α → List α) (l : List α) : Prop :=
  ∀ pre x post, l = pre ++ x :: post → ∀ d ∈ deps x, d ∈ pre

/-- `l` is an admissible result for sorting `input`: same elements, same multiplicities, dependencies first -/
def TopoOrder (deps : α → List α) (input l : List α) : Prop :=
  l.Perm input ∧ DepOrdered deps l

/-- executable form of `DepOrdered` (scan with the set of elements seen so far) -/
def depOrderedFrom (deps : α → List α) : List α → List α → Bool
  | _, [] => true
  | seen, x :: r => (deps x).all (fun d => decide (d ∈ seen)) && depOrderedFrom deps (seen ++ [x]) r

def depOrderedB (deps : α → List α) (l : List α) : Bool := depOrderedFrom deps [] l

def topoOrderB (deps : α → List α) (input l : List α) : Bool :=
  l.isPerm input && depOrderedB deps l

/-- hypotheses under which the sort is specified -/
def NoSelf (deps : α → List α) : Prop := ∀ x, x ∉ deps x
def Closed (deps : α → List α) (input : List α) : Prop := ∀ x ∈ input, ∀ d ∈ deps x, d ∈ input
/-- acyclic, as a rank function (on a finite graph this is acyclicity) -/
def Acyclic (deps : α → List α) : Prop := ∃ r : α → Nat, ∀ x, ∀ d ∈ deps x, r d < r x

end Spydr.IO.Topo
