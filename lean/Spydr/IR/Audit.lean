import Spydr.IR.Props.C14
import Spydr.IR.Props.C14Names
open Spydr.IR
#print axioms Spydr.IR.init_inv
#print axioms Spydr.IR.step_inv
#print axioms Spydr.IR.run_inv
#print axioms Spydr.IR.run_inv_every_prefix
#print axioms Spydr.IR.reorder_perm
#print axioms Spydr.IR.c01_containment
#print axioms Spydr.IR.c01_removed_reports_no_parent
#print axioms Spydr.IR.c01_pin_wire
#print axioms Spydr.IR.c02_reference_sets
#print axioms Spydr.IR.c02_outer_pins_mirror
#print axioms Spydr.IR.c02_dropped_pin_not_on_wire
#print axioms Spydr.IR.repoint_keeps_connections
#print axioms Spydr.IR.repoint_refused_iff_shape_mismatch
#print axioms Spydr.IR.top_wrap
#print axioms Spydr.IR.refused_unchanged
#print axioms Spydr.IR.refused_idempotent
#print axioms Spydr.IR.run_refused_prefix
#print axioms Spydr.Names.names_refused_unchanged
#print axioms Spydr.Names.names_refused_same_lookups
#print axioms Spydr.IR.reorder_accepted_iff
#print axioms Spydr.IR.partner_positional
#print axioms Spydr.IR.partner_total
#print axioms Spydr.IR.repoint_keeps_all_connections
