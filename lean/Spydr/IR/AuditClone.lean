import Spydr.IR.Props.C07
import Spydr.IR.Props.C07Elem
import Spydr.IR.Props.C07Struct
import Spydr.IR.Props.C07Detached
import Spydr.IR.Props.C07Bundle
open Spydr.IR
#print axioms Spydr.IR.cloneNetlist_inv
#print axioms Spydr.IR.cloneNetlist_frame
#print axioms Spydr.IR.cloneNetlist_iso
#print axioms Spydr.IR.cloneNetlist_closed
#print axioms Spydr.IR.step_below
#print axioms Spydr.IR.run_below
#print axioms Spydr.IR.cloneNetlist_reachable
#print axioms Spydr.IR.step_sep
#print axioms Spydr.IR.run_sep
#print axioms Spydr.IR.sep_double
#print axioms Spydr.IR.clone_edits_invisible_in_original
#print axioms Spydr.IR.clone_edits_invisible_fields
#print axioms Spydr.IR.original_edits_invisible_in_clone
#print axioms Spydr.IR.original_edits_invisible_fields
#print axioms Spydr.IR.cloneElem_inv
#print axioms Spydr.IR.setRef_cross
#print axioms Spydr.IR.run_cross
#print axioms Spydr.IR.cloneElem_source_untouched
#print axioms Spydr.IR.cloneElem_reference_sets
#print axioms Spydr.IR.pruneInside_inside
#print axioms Spydr.IR.step_structEq
#print axioms Spydr.IR.run_structEq
#print axioms Spydr.IR.cloneElem_same_structure
#print axioms Spydr.IR.run_parEq
#print axioms Spydr.IR.cloneElem_detached
#print axioms Spydr.IR.clonePin_unwired
#print axioms Spydr.IR.cloneWire_unwired
#print axioms Spydr.IR.disc_fold
#print axioms Spydr.IR.cloneInst_contract
#print axioms Spydr.IR.cutInner_fold
#print axioms Spydr.IR.clonePort_contract
#print axioms Spydr.IR.cutWire_fold
#print axioms Spydr.IR.cloneCable_contract
