import Spydr.IR.Props.C19
open Spydr.IR
#print axioms Spydr.IR.refused_silent
#print axioms Spydr.IR.replay_mirror_partial
#print axioms Spydr.IR.run_mirror_partial
#print axioms Spydr.IR.listeners_only_veto
#print axioms Spydr.IR.data_mirror
#print axioms Spydr.IR.data_run_mirror
