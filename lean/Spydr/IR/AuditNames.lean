import Spydr.IR.Props.C10
import Spydr.IR.Props.C10Tbl
open Spydr.Names
#print axioms Spydr.Names.init_nsinv
#print axioms Spydr.Names.step_nsinv
#print axioms Spydr.Names.run_nsinv
#print axioms Spydr.Names.run_nsinv_both_policies
#print axioms Spydr.Names.names_unique
#print axioms Spydr.Names.idents_unique_ci
#print axioms Spydr.Names.lookup_eq_scan_name
#print axioms Spydr.Names.lookup_eq_scan_ident
#print axioms Spydr.Names.rename_refused_iff
#print axioms Spydr.Names.dropNs_nsinv
#print axioms Spydr.Names.register_nsinv
#print axioms Spydr.Names.applyNs_nsinv
#print axioms Spydr.Names.attach_nsinv
#print axioms Spydr.Names.step_nstbl
#print axioms Spydr.Names.run_nstbl
#print axioms Spydr.Names.names_unique_observable
#print axioms Spydr.Names.idents_unique_ci_observable
#print axioms Spydr.Names.ident_refused_iff
#print axioms Spydr.Names.conflicts_iff
#print axioms Spydr.Names.attach_refused_iff
