import Spydr.IR.CloneLemmas
namespace Spydr.IR

def PinRef.below (off : OId) : PinRef → Prop
  | .inner q => q < off
  | .outer i q => i < off ∧ q < off

def optBelow (off : OId) : Option OId → Prop
  | none => True
  | some x => x < off

/-- every object an operation mentions lies below `off` -/
def Op.below (off : OId) : Op → Prop
  | .addLibrary n l _ _ => n < off ∧ l < off
  | .removeLibrary n l => n < off ∧ l < off
  | .removeLibrariesFrom n ls => n < off ∧ ∀ x ∈ ls, x < off
  | .setLibraries n ls => n < off ∧ ∀ x ∈ ls, x < off
  | .addDefinition l d _ _ => l < off ∧ d < off
  | .removeDefinition l d => l < off ∧ d < off
  | .removeDefinitionsFrom l ds => l < off ∧ ∀ x ∈ ds, x < off
  | .setDefinitions l ds => l < off ∧ ∀ x ∈ ds, x < off
  | .addPort d p _ _ => d < off ∧ p < off
  | .removePort d p => d < off ∧ p < off
  | .removePortsFrom d ps => d < off ∧ ∀ x ∈ ps, x < off
  | .setPorts d ps => d < off ∧ ∀ x ∈ ps, x < off
  | .addCable d c _ _ => d < off ∧ c < off
  | .removeCable d c => d < off ∧ c < off
  | .removeCablesFrom d cs => d < off ∧ ∀ x ∈ cs, x < off
  | .setCables d cs => d < off ∧ ∀ x ∈ cs, x < off
  | .addChild d i _ _ => d < off ∧ i < off
  | .removeChild d i => d < off ∧ i < off
  | .removeChildrenFrom d is => d < off ∧ ∀ x ∈ is, x < off
  | .setChildren d is => d < off ∧ ∀ x ∈ is, x < off
  | .createChild d i ref _ => d < off ∧ i < off ∧ optBelow off ref
  | .addPin p q _ => p < off ∧ q < off
  | .removePin p q => p < off ∧ q < off
  | .removePinsFrom p qs => p < off ∧ ∀ x ∈ qs, x < off
  | .setPins p qs => p < off ∧ ∀ x ∈ qs, x < off
  | .addWire c w _ => c < off ∧ w < off
  | .removeWire c w => c < off ∧ w < off
  | .removeWiresFrom c ws => c < off ∧ ∀ x ∈ ws, x < off
  | .setWires c ws => c < off ∧ ∀ x ∈ ws, x < off
  | .connectInner w q _ => w < off ∧ q < off
  | .connectOuter w i q _ => w < off ∧ i < off ∧ q < off
  | .disconnect w r => w < off ∧ r.below off
  | .disconnectFrom w rs => w < off ∧ ∀ r ∈ rs, r.below off
  | .setWirePins w rs => w < off ∧ ∀ r ∈ rs, r.below off
  | .setRef i d => i < off ∧ optBelow off d
  | .setTop n i => n < off ∧ optBelow off i
  | .setTopDef n d t => n < off ∧ d < off ∧ t < off

macro "below_tac" : tactic => `(tactic| (constructor <;> grind [mem_insertAt, isReorder_iff, PinRef.below, optBelow]))

macro "below_op" : tactic => `(tactic| (
  intro hb ho
  obtain ⟨b1,b2,b3,b4,b5,b6,b7,b8,b9,b10,b11,b12,b13,b14,b15,b16,b17,b18,b19,b20,b21,b22⟩ := hb
  simp only [Op.below] at ho
  simp only [step]
  repeat' split
  all_goals first
    | exact ⟨b1,b2,b3,b4,b5,b6,b7,b8,b9,b10,b11,b12,b13,b14,b15,b16,b17,b18,b19,b20,b21,b22⟩
    | below_tac))

end Spydr.IR
