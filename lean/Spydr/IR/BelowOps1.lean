import Spydr.IR.BelowLemmas
namespace Spydr.IR

theorem below_addLibrary (s : S) (off n l pos veto) : Below s off → (Op.addLibrary n l pos veto).below off → Below (step s (.addLibrary n l pos veto)).1 off := by below_op
theorem below_addDefinition (s : S) (off l d pos veto) : Below s off → (Op.addDefinition l d pos veto).below off → Below (step s (.addDefinition l d pos veto)).1 off := by below_op
theorem below_addPort (s : S) (off d p pos veto) : Below s off → (Op.addPort d p pos veto).below off → Below (step s (.addPort d p pos veto)).1 off := by below_op
theorem below_addCable (s : S) (off d c pos veto) : Below s off → (Op.addCable d c pos veto).below off → Below (step s (.addCable d c pos veto)).1 off := by below_op
theorem below_addChild (s : S) (off d i pos veto) : Below s off → (Op.addChild d i pos veto).below off → Below (step s (.addChild d i pos veto)).1 off := by below_op
theorem below_addPin (s : S) (off p q pos) : Below s off → (Op.addPin p q pos).below off → Below (step s (.addPin p q pos)).1 off := by below_op
theorem below_addWire (s : S) (off c w pos) : Below s off → (Op.addWire c w pos).below off → Below (step s (.addWire c w pos)).1 off := by below_op
theorem below_connectInner (s : S) (off w q pos) : Below s off → (Op.connectInner w q pos).below off → Below (step s (.connectInner w q pos)).1 off := by below_op
theorem below_setWirePins (s : S) (off w rs) : Below s off → (Op.setWirePins w rs).below off → Below (step s (.setWirePins w rs)).1 off := by below_op

end Spydr.IR
