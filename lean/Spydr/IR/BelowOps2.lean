import Spydr.IR.BelowLemmas
namespace Spydr.IR

theorem below_removeLibrary (s : S) (off n l) : Below s off → (Op.removeLibrary n l).below off → Below (step s (.removeLibrary n l)).1 off := by below_op
theorem below_removeDefinition (s : S) (off l d) : Below s off → (Op.removeDefinition l d).below off → Below (step s (.removeDefinition l d)).1 off := by below_op
theorem below_removePort (s : S) (off d p) : Below s off → (Op.removePort d p).below off → Below (step s (.removePort d p)).1 off := by below_op
theorem below_removeCable (s : S) (off d c) : Below s off → (Op.removeCable d c).below off → Below (step s (.removeCable d c)).1 off := by below_op
theorem below_removeChild (s : S) (off d i) : Below s off → (Op.removeChild d i).below off → Below (step s (.removeChild d i)).1 off := by below_op
theorem below_removePin (s : S) (off p q) : Below s off → (Op.removePin p q).below off → Below (step s (.removePin p q)).1 off := by below_op
theorem below_removeWire (s : S) (off c w) : Below s off → (Op.removeWire c w).below off → Below (step s (.removeWire c w)).1 off := by below_op
theorem below_connectOuter (s : S) (off w i q pos) : Below s off → (Op.connectOuter w i q pos).below off → Below (step s (.connectOuter w i q pos)).1 off := by below_op
theorem below_setTop (s : S) (off n i) : Below s off → (Op.setTop n i).below off → Below (step s (.setTop n i)).1 off := by below_op

end Spydr.IR
