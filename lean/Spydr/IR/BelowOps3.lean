import Spydr.IR.BelowLemmas
namespace Spydr.IR

theorem below_removeLibrariesFrom (s : S) (off n ls) : Below s off → (Op.removeLibrariesFrom n ls).below off → Below (step s (.removeLibrariesFrom n ls)).1 off := by below_op
theorem below_removeDefinitionsFrom (s : S) (off l ds) : Below s off → (Op.removeDefinitionsFrom l ds).below off → Below (step s (.removeDefinitionsFrom l ds)).1 off := by below_op
theorem below_removePortsFrom (s : S) (off d ps) : Below s off → (Op.removePortsFrom d ps).below off → Below (step s (.removePortsFrom d ps)).1 off := by below_op
theorem below_removeCablesFrom (s : S) (off d cs) : Below s off → (Op.removeCablesFrom d cs).below off → Below (step s (.removeCablesFrom d cs)).1 off := by below_op
theorem below_removeChildrenFrom (s : S) (off d is) : Below s off → (Op.removeChildrenFrom d is).below off → Below (step s (.removeChildrenFrom d is)).1 off := by below_op
theorem below_removePinsFrom (s : S) (off p qs) : Below s off → (Op.removePinsFrom p qs).below off → Below (step s (.removePinsFrom p qs)).1 off := by below_op
theorem below_removeWiresFrom (s : S) (off c ws) : Below s off → (Op.removeWiresFrom c ws).below off → Below (step s (.removeWiresFrom c ws)).1 off := by below_op
theorem below_disconnect (s : S) (off w r) : Below s off → (Op.disconnect w r).below off → Below (step s (.disconnect w r)).1 off := by below_op

end Spydr.IR
