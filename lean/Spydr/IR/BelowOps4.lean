import Spydr.IR.BelowLemmas
namespace Spydr.IR

theorem below_setLibraries (s : S) (off n ls) : Below s off → (Op.setLibraries n ls).below off → Below (step s (.setLibraries n ls)).1 off := by below_op
theorem below_setDefinitions (s : S) (off l ds) : Below s off → (Op.setDefinitions l ds).below off → Below (step s (.setDefinitions l ds)).1 off := by below_op
theorem below_setPorts (s : S) (off d ps) : Below s off → (Op.setPorts d ps).below off → Below (step s (.setPorts d ps)).1 off := by below_op
theorem below_setCables (s : S) (off d cs) : Below s off → (Op.setCables d cs).below off → Below (step s (.setCables d cs)).1 off := by below_op
theorem below_setChildren (s : S) (off d is) : Below s off → (Op.setChildren d is).below off → Below (step s (.setChildren d is)).1 off := by below_op
theorem below_setPins (s : S) (off p qs) : Below s off → (Op.setPins p qs).below off → Below (step s (.setPins p qs)).1 off := by below_op
theorem below_setWires (s : S) (off c ws) : Below s off → (Op.setWires c ws).below off → Below (step s (.setWires c ws)).1 off := by below_op
theorem below_disconnectFrom (s : S) (off w rs) : Below s off → (Op.disconnectFrom w rs).below off → Below (step s (.disconnectFrom w rs)).1 off := by below_op

end Spydr.IR
