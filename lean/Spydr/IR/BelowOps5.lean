import Spydr.IR.BelowOps1
import Spydr.IR.BelowOps2
import Spydr.IR.BelowOps3
import Spydr.IR.BelowOps4
import Spydr.IR.ZipLemmas
namespace Spydr.IR

theorem mem_flat_below (s : S) (off d y : OId) (hb : Below s off) (h : y ∈ s.flat d) : y < off := by
  simp only [S.flat, List.mem_flatMap] at h
  obtain ⟨p, _, hq⟩ := h
  exact (hb.pins p y hq).2

theorem partner_below (s : S) (off d d' q q' : OId) (hb : Below s off) (h : s.partner d d' q = some q') :
    q < off ∧ q' < off := by
  have := lookup_zip_mem _ _ q q' h
  exact ⟨mem_flat_below s off d q hb this.1, mem_flat_below s off d' q' hb this.2⟩

theorem below_firstRef (s : S) (off i d' : OId) (hb : Below s off) (hi : i < off) (hd : d' < off) :
    Below (s.firstRef i d') off := by
  have hf' : ∀ y, y ∈ s.flat d' → y < off := fun y hy => mem_flat_below s off d' y hb hy
  obtain ⟨b1,b2,b3,b4,b5,b6,b7,b8,b9,b10,b11,b12,b13,b14,b15,b16,b17,b18,b19,b20,b21,b22⟩ := hb
  simp only [S.firstRef]
  constructor <;> grind

theorem below_dropRef (s : S) (off i : OId) (hb : Below s off) : Below (s.dropRef i) off := by
  obtain ⟨b1,b2,b3,b4,b5,b6,b7,b8,b9,b10,b11,b12,b13,b14,b15,b16,b17,b18,b19,b20,b21,b22⟩ := hb
  simp only [S.dropRef]
  constructor <;> grind

theorem below_repoint (s : S) (off i d d' : OId) (hb : Below s off) (hi : i < off) (hd : d' < off) :
    Below (s.repoint i d d') off := by
  have hf : ∀ y, y ∈ s.flat d' → y < off := fun y hy => mem_flat_below s off d' y hb hy
  have hp := fun q q' => partner_below s off d d' q q' hb
  have hp' := fun q q' => partner_below s off d' d q q' hb
  obtain ⟨b1,b2,b3,b4,b5,b6,b7,b8,b9,b10,b11,b12,b13,b14,b15,b16,b17,b18,b19,b20,b21,b22⟩ := hb
  simp only [S.repoint, S.repointWith]
  refine ⟨b1,b2,b3,b4,b5,b6,b7,b8,?_,?_,b11,b12,b13,b14,b15,b16,b17,b18,?_,?_,?_,?_⟩
  · intro i' q' w h
    by_cases e : i' = i
    · subst e
      simp only [if_true] at h
      cases hg : s.partner d' d q' with
      | none => simp [hg] at h
      | some q =>
        simp only [hg] at h
        have := b9 i' q w h
        exact ⟨hi, (hp' q' q hg).1, this.2.2⟩
    · simp only [if_neg e] at h
      exact b9 i' q' w h
  · intro x y h
    by_cases e : x = i
    · subst e; simp at h; subst h; exact ⟨hi, hd⟩
    · simp only [if_neg e] at h; exact b10 x y h
  · intro x y h
    by_cases e : x = i
    · subst e; simp only [if_true] at h; exact ⟨hi, hf y h⟩
    · simp only [if_neg e] at h; exact b19 x y h
  · intro w q h
    simp only [List.mem_map] at h
    obtain ⟨r, hr, he⟩ := h
    cases r with
    | inner q0 => simp at he; subst he; exact b20 w q0 hr
    | outer i0 q0 =>
      simp only at he
      split at he
      · split at he <;> cases he
      · cases he
  · intro w i' q h
    simp only [List.mem_map] at h
    obtain ⟨r, hr, he⟩ := h
    cases r with
    | inner q0 => simp at he
    | outer i0 q0 =>
      have hb0 := b21 w i0 q0 hr
      simp only at he
      split at he
      · rename_i e0
        split at he
        · rename_i q1 hq1
          simp only [PinRef.outer.injEq] at he
          obtain ⟨rfl, rfl⟩ := he
          exact ⟨hb0.1, hi, (hp q0 q1 hq1).2⟩
        · simp only [PinRef.outer.injEq] at he
          obtain ⟨rfl, rfl⟩ := he
          exact hb0
      · simp only [PinRef.outer.injEq] at he
        obtain ⟨rfl, rfl⟩ := he
        exact hb0
  · intro e i' h
    by_cases e1 : i' = i
    · subst e1; simp at h; subst h; exact ⟨hd, hi⟩
    · simp only [if_neg e1] at h; exact b22 e i' h

end Spydr.IR
