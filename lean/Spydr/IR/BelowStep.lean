import Spydr.IR.BelowOps5
namespace Spydr.IR

theorem below_init (off : OId) : Below S.init off := by
  constructor <;> simp [S.init]

theorem below_setRef (s : S) (off i d) : Below s off → (Op.setRef i d).below off → Below (step s (.setRef i d)).1 off := by
  intro hb ho
  simp only [Op.below] at ho
  simp only [step, S.setRefStep]
  cases d with
  | none => exact below_dropRef s off i hb
  | some d' =>
    have hd : d' < off := by simpa [optBelow] using ho.2
    cases hr : s.instRef i with
    | none => exact below_firstRef s off i d' hb ho.1 hd
    | some d0 =>
      simp only []
      split
      · exact hb
      · exact below_repoint s off i d0 d' hb ho.1 hd

theorem below_createChild (s : S) (off d i ref veto) : Below s off → (Op.createChild d i ref veto).below off →
    Below (step s (.createChild d i ref veto)).1 off := by
  intro hb ho
  simp only [Op.below] at ho
  simp only [step]
  split
  · exact hb
  · split
    · exact hb
    · have hb1 : Below (match ref with | none => s | some r => s.firstRef i r) off := by
        cases ref with
        | none => exact hb
        | some r => exact below_firstRef s off i r hb ho.2.1 (by simpa [optBelow] using ho.2.2)
      obtain ⟨b1,b2,b3,b4,b5,b6,b7,b8,b9,b10,b11,b12,b13,b14,b15,b16,b17,b18,b19,b20,b21,b22⟩ := hb1
      constructor <;> grind

theorem below_setTopDef (s : S) (off n d t) : Below s off → (Op.setTopDef n d t).below off →
    Below (step s (.setTopDef n d t)).1 off := by
  intro hb ho
  simp only [Op.below] at ho
  simp only [step]
  split
  · exact hb
  · have hb1 := below_firstRef s off t d hb ho.2.2 ho.2.1
    obtain ⟨b1,b2,b3,b4,b5,b6,b7,b8,b9,b10,b11,b12,b13,b14,b15,b16,b17,b18,b19,b20,b21,b22⟩ := hb1
    constructor <;> grind

/-- a call that only mentions objects below `off` keeps the heap below `off` -/
theorem step_below (s : S) (off : OId) (op : Op) (hb : Below s off) (ho : op.below off) : Below (step s op).1 off := by
  cases op with
  | addLibrary n l pos veto => exact below_addLibrary s off n l pos veto hb ho
  | removeLibrary n l => exact below_removeLibrary s off n l hb ho
  | removeLibrariesFrom n ls => exact below_removeLibrariesFrom s off n ls hb ho
  | setLibraries n ls => exact below_setLibraries s off n ls hb ho
  | addDefinition l d pos veto => exact below_addDefinition s off l d pos veto hb ho
  | removeDefinition l d => exact below_removeDefinition s off l d hb ho
  | removeDefinitionsFrom l ds => exact below_removeDefinitionsFrom s off l ds hb ho
  | setDefinitions l ds => exact below_setDefinitions s off l ds hb ho
  | addPort d p pos veto => exact below_addPort s off d p pos veto hb ho
  | removePort d p => exact below_removePort s off d p hb ho
  | removePortsFrom d ps => exact below_removePortsFrom s off d ps hb ho
  | setPorts d ps => exact below_setPorts s off d ps hb ho
  | addCable d c pos veto => exact below_addCable s off d c pos veto hb ho
  | removeCable d c => exact below_removeCable s off d c hb ho
  | removeCablesFrom d cs => exact below_removeCablesFrom s off d cs hb ho
  | setCables d cs => exact below_setCables s off d cs hb ho
  | addChild d i pos veto => exact below_addChild s off d i pos veto hb ho
  | removeChild d i => exact below_removeChild s off d i hb ho
  | removeChildrenFrom d is => exact below_removeChildrenFrom s off d is hb ho
  | setChildren d is => exact below_setChildren s off d is hb ho
  | createChild d i ref veto => exact below_createChild s off d i ref veto hb ho
  | addPin p q pos => exact below_addPin s off p q pos hb ho
  | removePin p q => exact below_removePin s off p q hb ho
  | removePinsFrom p qs => exact below_removePinsFrom s off p qs hb ho
  | setPins p qs => exact below_setPins s off p qs hb ho
  | addWire c w pos => exact below_addWire s off c w pos hb ho
  | removeWire c w => exact below_removeWire s off c w hb ho
  | removeWiresFrom c ws => exact below_removeWiresFrom s off c ws hb ho
  | setWires c ws => exact below_setWires s off c ws hb ho
  | connectInner w q pos => exact below_connectInner s off w q pos hb ho
  | connectOuter w i q pos => exact below_connectOuter s off w i q pos hb ho
  | disconnect w r => exact below_disconnect s off w r hb ho
  | disconnectFrom w rs => exact below_disconnectFrom s off w rs hb ho
  | setWirePins w rs => exact below_setWirePins s off w rs hb ho
  | setRef i d => exact below_setRef s off i d hb ho
  | setTop n i => exact below_setTop s off n i hb ho
  | setTopDef n d t => exact below_setTopDef s off n d t hb ho

/-- every heap reached by calls on objects below `off` lies below `off` -/
theorem run_below (off : OId) (ops : List Op) (s : S) (hb : Below s off) (ho : ∀ op ∈ ops, op.below off) :
    Below (run s ops).1 off := by
  induction ops generalizing s with
  | nil => exact hb
  | cons op ops ih =>
    simp only [run]
    exact ih _ (step_below s off op hb (ho op (by simp))) (fun o h => ho o (by simp [h]))

end Spydr.IR
