/-
  L1 — `Netlist.clone()` as whole-heap duplication: every object `x` (in every class) gets the twin
  `x + off`, all fields of the twin are the shifted fields of the original, no pointer crosses.
  The copy of netlist `n` is `n + off`; twins of objects outside that netlist are unreachable garbage the
  harness cannot observe.  NO Mathlib import.
-/
import Spydr.IR.Model
namespace Spydr.IR

def sh (off x : OId) : OId := x + off
def shO (off : OId) (o : Option OId) : Option OId := o.map (sh off)
def shL (off : OId) (l : List OId) : List OId := l.map (sh off)
def shP (off : Nat) : PinRef → PinRef
  | .inner q => .inner (sh off q)
  | .outer i q => .outer (sh off i) (sh off q)
def shPL (off : OId) (l : List PinRef) : List PinRef := l.map (shP off)

/-- whole-heap duplication -/
def S.double (s : S) (off : OId) : S :=
  { libs := fun x => if off ≤ x then shL off (s.libs (x - off)) else s.libs x
    libNl := fun x => if off ≤ x then shO off (s.libNl (x - off)) else s.libNl x
    defs := fun x => if off ≤ x then shL off (s.defs (x - off)) else s.defs x
    defLib := fun x => if off ≤ x then shO off (s.defLib (x - off)) else s.defLib x
    ports := fun x => if off ≤ x then shL off (s.ports (x - off)) else s.ports x
    portDef := fun x => if off ≤ x then shO off (s.portDef (x - off)) else s.portDef x
    cables := fun x => if off ≤ x then shL off (s.cables (x - off)) else s.cables x
    cableDef := fun x => if off ≤ x then shO off (s.cableDef (x - off)) else s.cableDef x
    children := fun x => if off ≤ x then shL off (s.children (x - off)) else s.children x
    instParent := fun x => if off ≤ x then shO off (s.instParent (x - off)) else s.instParent x
    pins := fun x => if off ≤ x then shL off (s.pins (x - off)) else s.pins x
    pinPort := fun x => if off ≤ x then shO off (s.pinPort (x - off)) else s.pinPort x
    wires := fun x => if off ≤ x then shL off (s.wires (x - off)) else s.wires x
    wireCable := fun x => if off ≤ x then shO off (s.wireCable (x - off)) else s.wireCable x
    wirePins := fun w => if off ≤ w then shPL off (s.wirePins (w - off)) else s.wirePins w
    pinWire := fun x => if off ≤ x then shO off (s.pinWire (x - off)) else s.pinWire x
    opWire := fun i q => if off ≤ i ∧ off ≤ q then shO off (s.opWire (i - off) (q - off))
                         else if off ≤ i ∨ off ≤ q then none else s.opWire i q
    instRef := fun x => if off ≤ x then shO off (s.instRef (x - off)) else s.instRef x
    refs := fun d i => if off ≤ d ∧ off ≤ i then s.refs (d - off) (i - off)
                       else if off ≤ d ∨ off ≤ i then false else s.refs d i
    instPins := fun x => if off ≤ x then shL off (s.instPins (x - off)) else s.instPins x
    top := fun x => if off ≤ x then shO off (s.top (x - off)) else s.top x }

/-- every object in use lies below `off` -/
structure Below (s : S) (off : OId) : Prop where
  libNl : ∀ x y, s.libNl x = some y → x < off ∧ y < off
  defLib : ∀ x y, s.defLib x = some y → x < off ∧ y < off
  portDef : ∀ x y, s.portDef x = some y → x < off ∧ y < off
  cableDef : ∀ x y, s.cableDef x = some y → x < off ∧ y < off
  instParent : ∀ x y, s.instParent x = some y → x < off ∧ y < off
  pinPort : ∀ x y, s.pinPort x = some y → x < off ∧ y < off
  wireCable : ∀ x y, s.wireCable x = some y → x < off ∧ y < off
  pinWire : ∀ x y, s.pinWire x = some y → x < off ∧ y < off
  opWire : ∀ i q w, s.opWire i q = some w → i < off ∧ q < off ∧ w < off
  instRef : ∀ x y, s.instRef x = some y → x < off ∧ y < off
  top : ∀ x y, s.top x = some y → x < off ∧ y < off
  libs : ∀ x y, y ∈ s.libs x → x < off ∧ y < off
  defs : ∀ x y, y ∈ s.defs x → x < off ∧ y < off
  ports : ∀ x y, y ∈ s.ports x → x < off ∧ y < off
  cables : ∀ x y, y ∈ s.cables x → x < off ∧ y < off
  children : ∀ x y, y ∈ s.children x → x < off ∧ y < off
  pins : ∀ x y, y ∈ s.pins x → x < off ∧ y < off
  wires : ∀ x y, y ∈ s.wires x → x < off ∧ y < off
  instPins : ∀ x y, y ∈ s.instPins x → x < off ∧ y < off
  wpI : ∀ w q, PinRef.inner q ∈ s.wirePins w → w < off ∧ q < off
  wpO : ∀ w i q, PinRef.outer i q ∈ s.wirePins w → w < off ∧ i < off ∧ q < off
  refs : ∀ d i, s.refs d i = true → d < off ∧ i < off

end Spydr.IR
