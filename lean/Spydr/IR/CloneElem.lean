/-
  L1 — element-level clones (`Library.clone`, `Definition.clone`, `Instance.clone`, `Port.clone`, `Cable.clone`,
  `Wire.clone`, `InnerPin.clone`) as: whole-heap duplication `S.double`, followed by a script of PUBLIC calls on
  the twins that (a) cuts every link between the cloned subtree and the rest of the twin heap ("orphaned",
  "side connections severed", "references cleared") and (b) re-points twin instances whose definition lies
  outside the cloned subtree back to the ORIGINAL definition ("cross references are maintained", "the instance
  maintains its reference"; the shared definition's reference set gains the clone).  Twins outside the cloned
  subtree are unreachable garbage the harness cannot observe.  Because the script consists of modelled public
  calls only, well-formedness of the result is `double_inv` + `run_inv`.   NO Mathlib import.
-/
import Spydr.IR.Clone
namespace Spydr.IR

inductive CKind where
  | netlist | library | definition | «instance» | port | cable | wire | pin
deriving DecidableEq, Repr

def optOps {α : Type} (o : Option α) (f : α → List Op) : List Op :=
  match o with
  | some a => f a
  | none => []

/-- cut the twin of inner pin `q` from its (twin) wire -/
def cutInner (s : S) (off q : OId) : List Op :=
  optOps (s.pinWire q) fun w => [.disconnect (w + off) (.inner (q + off))]

/-- cut every pin from the twin of wire `w` -/
def cutWire (s : S) (off w : OId) : List Op :=
  if s.wirePins w = [] then [] else [.disconnectFrom (w + off) (shPL off (s.wirePins w))]

/-- is instance `j` placed inside library `l`? -/
def S.instInLib (s : S) (l j : OId) : Bool :=
  match s.instParent j with
  | some d => s.defLib d == some l
  | none => false

/-- is definition `r` in a library of netlist `n`? -/
def S.defInNl (s : S) (n r : OId) : Bool :=
  match s.defLib r with
  | some l => s.libNl l == some n
  | none => false

/-- is instance `j` part of netlist `n` (placed in one of its definitions, or its top instance)? -/
def S.instInNl (s : S) (n j : OId) : Bool :=
  (match s.instParent j with
    | some d => s.defInNl n d
    | none => false) || s.top n == some j

/-- the calls confined to the twin heap (they mention twins only) -/
def pruneInside (s : S) (off : OId) : CKind → OId → List Op
  | .pin, q => cutInner s off q ++ optOps (s.pinPort q) fun p => [.removePin (p + off) (q + off)]
  | .wire, w => cutWire s off w ++ optOps (s.wireCable w) fun c => [.removeWire (c + off) (w + off)]
  | .cable, c => (s.wires c).flatMap (cutWire s off) ++ optOps (s.cableDef c) fun d => [.removeCable (d + off) (c + off)]
  | .port, p => (s.pins p).flatMap (cutInner s off) ++ optOps (s.portDef p) fun d => [.removePort (d + off) (p + off)]
  | .«instance», i =>
      (s.instPins i).flatMap (fun q => optOps (s.opWire i q) fun w => [.disconnect (w + off) (.outer (i + off) (q + off))]) ++
      optOps (s.instParent i) fun d => [.removeChild (d + off) (i + off)]
  | .definition, d =>
      -- "the references of the definition will be cleared"
      ((List.range off).filter (fun j => s.refs d j)).map (fun j => Op.setRef (j + off) none) ++
      optOps (s.defLib d) fun l => [.removeDefinition (l + off) (d + off)]
  | .netlist, n =>
      -- instances that are not part of the netlist but reference into it do not reference the clone
      (s.libs n).flatMap (fun l => (s.defs l).flatMap (fun d =>
        ((List.range off).filter (fun j => s.refs d j && !s.instInNl n j)).map (fun j => Op.setRef (j + off) none)))
  | .library, l =>
      -- instances outside the library that reference into it do not reference the clone
      (s.defs l).flatMap (fun d => ((List.range off).filter (fun j => s.refs d j && !s.instInLib l j)).map
        (fun j => Op.setRef (j + off) none)) ++
      optOps (s.libNl l) fun n => [.removeLibrary (n + off) (l + off)]

/-- the re-pointing calls that cross from the copy to a shared original definition -/
def pruneCross (s : S) (off : OId) : CKind → OId → List Op
  | .«instance», i => optOps (s.instRef i) fun r => [.setRef (i + off) (some r)]
  | .definition, d => (s.children d).flatMap fun c => optOps (s.instRef c) fun r => [.setRef (c + off) (some r)]
  | .library, l => (s.defs l).flatMap fun d => (s.children d).flatMap fun c =>
      optOps (s.instRef c) fun r => if s.defLib r == some l then [] else [.setRef (c + off) (some r)]
  | .netlist, n =>
      -- instances of the netlist (children and a standalone top instance) whose definition lies outside it
      ((s.libs n).flatMap fun l => (s.defs l).flatMap fun d => (s.children d).flatMap fun c =>
        optOps (s.instRef c) fun r => if s.defInNl n r then [] else [.setRef (c + off) (some r)]) ++
      (optOps (s.top n) fun t => optOps (s.instRef t) fun r =>
        if s.defInNl n r || (s.instParent t).isSome then [] else [.setRef (t + off) (some r)])
  | _, _ => []

def pruneOps (s : S) (off : OId) (k : CKind) (x : OId) : List Op := pruneInside s off k x ++ pruneCross s off k x

/-- the heap after `x.clone()`; the clone is `x + off` -/
def S.cloneElem (s : S) (off : OId) (k : CKind) (x : OId) : S := (run (s.double off) (pruneOps s off k x)).1

/-- outcomes of the script (every call is expected to be accepted; the driver reports any that is not) -/
def S.cloneElemRes (s : S) (off : OId) (k : CKind) (x : OId) : List Res := (run (s.double off) (pruneOps s off k x)).2

end Spydr.IR
