import Spydr.IR.Clone
import Spydr.IR.Lemmas
namespace Spydr.IR

theorem mem_shL (l : List OId) (off y : OId) : y ∈ shL off l ↔ off ≤ y ∧ (y - off) ∈ l := by
  simp only [shL, sh, List.mem_map]
  constructor
  · rintro ⟨x, hx, rfl⟩
    refine ⟨Nat.le_add_left _ _, ?_⟩
    rw [Nat.add_sub_cancel]; exact hx
  · rintro ⟨h1, h2⟩; exact ⟨y - off, h2, Nat.sub_add_cancel h1⟩

theorem shO_eq_some (o : Option OId) (off y : OId) : shO off o = some y ↔ off ≤ y ∧ o = some (y - off) := by
  cases o with
  | none => simp [shO]
  | some x =>
    simp only [shO, sh, Option.map_some, Option.some.injEq]
    constructor
    · rintro rfl; exact ⟨Nat.le_add_left _ _, by rw [Nat.add_sub_cancel]⟩
    · rintro ⟨h1, h2⟩; rw [h2]; exact Nat.sub_add_cancel h1

theorem shO_eq_none (o : Option OId) (off : OId) : shO off o = none ↔ o = none := by
  cases o <;> simp [shO]

theorem shL_eq_nil (l : List OId) (off : OId) : shL off l = [] ↔ l = [] := by
  cases l <;> simp [shL]

theorem inner_mem_shPL (l : List PinRef) (off q : OId) :
    PinRef.inner q ∈ shPL off l ↔ off ≤ q ∧ PinRef.inner (q - off) ∈ l := by
  simp only [shPL, List.mem_map]
  constructor
  · rintro ⟨r, hr, he⟩
    cases r with
    | inner q' =>
      simp only [shP, sh, PinRef.inner.injEq] at he; subst he
      exact ⟨Nat.le_add_left _ _, by rw [Nat.add_sub_cancel]; exact hr⟩
    | outer i q' => simp [shP] at he
  · rintro ⟨h1, h2⟩; exact ⟨_, h2, by simp only [shP, sh, PinRef.inner.injEq]; exact Nat.sub_add_cancel h1⟩

theorem outer_mem_shPL (l : List PinRef) (off i q : OId) :
    PinRef.outer i q ∈ shPL off l ↔ off ≤ i ∧ off ≤ q ∧ PinRef.outer (i - off) (q - off) ∈ l := by
  simp only [shPL, List.mem_map]
  constructor
  · rintro ⟨r, hr, he⟩
    cases r with
    | inner q' => simp [shP] at he
    | outer i' q' =>
      simp only [shP, sh, PinRef.outer.injEq] at he; obtain ⟨rfl, rfl⟩ := he
      exact ⟨Nat.le_add_left _ _, Nat.le_add_left _ _, by rw [Nat.add_sub_cancel, Nat.add_sub_cancel]; exact hr⟩
  · rintro ⟨h1, h2, h3⟩
    exact ⟨_, h3, by simp only [shP, sh, PinRef.outer.injEq]; exact ⟨Nat.sub_add_cancel h1, Nat.sub_add_cancel h2⟩⟩

theorem nodup_shL (l : List OId) (off : OId) (h : l.Nodup) : (shL off l).Nodup := by
  simp only [shL]
  induction l with
  | nil => simp
  | cons a t ih =>
    simp only [List.map_cons, List.nodup_cons, List.mem_map, not_exists, not_and]
    refine ⟨?_, ih (List.nodup_cons.1 h).2⟩
    intro x hx e
    have : x = a := Nat.add_right_cancel e
    subst this
    exact (List.nodup_cons.1 h).1 hx

theorem shP_inj (off : OId) (a b : PinRef) (h : shP off a = shP off b) : a = b := by
  cases a <;> cases b <;> simp only [shP, sh, PinRef.inner.injEq, PinRef.outer.injEq, reduceCtorEq] at h ⊢
  · exact Nat.add_right_cancel h
  · exact ⟨Nat.add_right_cancel h.1, Nat.add_right_cancel h.2⟩

theorem nodup_shPL (l : List PinRef) (off : OId) (h : l.Nodup) : (shPL off l).Nodup := by
  simp only [shPL]
  induction l with
  | nil => simp
  | cons a t ih =>
    simp only [List.map_cons, List.nodup_cons, List.mem_map, not_exists, not_and]
    refine ⟨?_, ih (List.nodup_cons.1 h).2⟩
    intro x hx e
    have := shP_inj off x a e
    subst this
    exact (List.nodup_cons.1 h).1 hx

macro "dbl" : tactic => `(tactic| (simp only [S.double]; grind [mem_shL, shO_eq_some, shO_eq_none, shL_eq_nil, inner_mem_shPL, outer_mem_shPL, nodup_shL, nodup_shPL]))

theorem dbl_iff (list : OId → List OId) (back : OId → Option OId) (off : OId)
    (hiff : ∀ p c, c ∈ list p ↔ back c = some p)
    (hb1 : ∀ x y, back x = some y → x < off ∧ y < off)
    (hb2 : ∀ x y, y ∈ list x → x < off ∧ y < off) :
    ∀ p c, c ∈ (if off ≤ p then shL off (list (p - off)) else list p) ↔
           (if off ≤ c then shO off (back (c - off)) else back c) = some p := by
  intro p c
  grind [mem_shL, shO_eq_some, shO_eq_none]

theorem double_inv (s : S) (off : OId) (h : Inv s) (hb : Below s off) : Inv (s.double off) := by
  have c1 := dbl_iff s.libs s.libNl off h.libs_iff hb.libNl hb.libs
  have c2 := dbl_iff s.defs s.defLib off h.defs_iff hb.defLib hb.defs
  have c3 := dbl_iff s.ports s.portDef off h.ports_iff hb.portDef hb.ports
  have c4 := dbl_iff s.cables s.cableDef off h.cables_iff hb.cableDef hb.cables
  have c5 := dbl_iff s.children s.instParent off h.child_iff hb.instParent hb.children
  have c6 := dbl_iff s.pins s.pinPort off h.pins_iff hb.pinPort hb.pins
  have c7 := dbl_iff s.wires s.wireCable off h.wires_iff hb.wireCable hb.wires
  have ow : ∀ (i q w : OId), (s.double off).opWire i q = some w ↔ PinRef.outer i q ∈ (s.double off).wirePins w := by
    have a := h.ow_iff
    have b := hb.opWire
    have c := hb.wpO
    clear c1 c2 c3 c4 c5 c6 c7 h hb
    intro i q w
    simp only [S.double]
    grind [shO_eq_some, shO_eq_none, outer_mem_shPL]
  have rf : ∀ (d i : OId), (s.double off).refs d i = true ↔ (s.double off).instRef i = some d := by
    have a := h.refs_iff
    have b := hb.refs
    have c := hb.instRef
    clear c1 c2 c3 c4 c5 c6 c7 ow h hb
    intro d i
    simp only [S.double]
    grind [shO_eq_some, shO_eq_none]
  have mir : ∀ (i d : OId), (s.double off).instRef i = some d → ∀ q, q ∈ (s.double off).instPins i ↔
      ∃ p, (s.double off).portDef p = some d ∧ (s.double off).pinPort q = some p := by
    have a := h.mirror
    have b1 := hb.instRef
    have b2 := hb.instPins
    have b3 := hb.portDef
    have b4 := hb.pinPort
    clear c1 c2 c3 c4 c5 c6 c7 ow rf h hb
    intro i d hr q
    simp only [S.double] at hr ⊢
    by_cases hi : off ≤ i
    · simp only [hi, if_true] at hr ⊢
      obtain ⟨hd, hr'⟩ := (shO_eq_some _ _ _).1 hr
      rw [mem_shL, a (i - off) (d - off) hr' (q - off)]
      constructor
      · rintro ⟨hq, p, hp1, hp2⟩
        refine ⟨p + off, ?_, ?_⟩
        · simp only [Nat.le_add_left, if_true, Nat.add_sub_cancel, shO_eq_some]
          exact ⟨hd, hp1⟩
        · simp only [hq, if_true, shO_eq_some, Nat.le_add_left, Nat.add_sub_cancel, true_and]
          exact hp2
      · rintro ⟨p, hp1, hp2⟩
        by_cases hp : off ≤ p
        · simp only [hp, if_true, shO_eq_some] at hp1
          by_cases hq : off ≤ q
          · simp only [hq, if_true, shO_eq_some] at hp2
            exact ⟨hq, p - off, hp1.2, hp2.2⟩
          · simp only [hq, if_false] at hp2
            exact absurd ((b4 q p hp2).2) (Nat.not_lt.mpr hp)
        · simp only [hp, if_false] at hp1
          exact absurd ((b3 p d hp1).2) (Nat.not_lt.mpr hd)
    · simp only [hi, if_false] at hr ⊢
      have hdlt := (b1 i d hr).2
      rw [a i d hr q]
      constructor
      · rintro ⟨p, hp1, hp2⟩
        refine ⟨p, ?_, ?_⟩
        · have : ¬ off ≤ p := Nat.not_le.mpr (b3 p d hp1).1
          simp only [this, if_false]; exact hp1
        · have : ¬ off ≤ q := Nat.not_le.mpr (b4 q p hp2).1
          simp only [this, if_false]; exact hp2
      · rintro ⟨p, hp1, hp2⟩
        by_cases hp : off ≤ p
        · simp only [hp, if_true, shO_eq_some] at hp1
          exact absurd hdlt (Nat.not_lt.mpr hp1.1)
        · simp only [hp, if_false] at hp1
          by_cases hq : off ≤ q
          · simp only [hq, if_true, shO_eq_some] at hp2
            exact absurd hp2.1 hp
          · simp only [hq, if_false] at hp2
            exact ⟨p, hp1, hp2⟩
  obtain ⟨h1,h2,h3,h4,h5,h6,h7,h8,h9,h10,h11,h12,h13,h14,h15,h16,h17,h18,h19,h20,h21,h22⟩ := h
  obtain ⟨b1,b2,b3,b4,b5,b6,b7,b8,b9,b10,b11,b12,b13,b14,b15,b16,b17,b18,b19,b20,b21,b22⟩ := hb
  refine ⟨c1, ?_, c2, ?_, c3, ?_, c4, ?_, c5, ?_, c6, ?_, c7, ?_, ?_, ow, ?_, rf, mir, ?_, ?_, ?_⟩
  all_goals dbl

end Spydr.IR
