/-
  L1 — announcements (spydrnet/global_state/global_callback.py) made by the structural mutators, and
  the mirror a purely passive listener can maintain from them.  NO Mathlib import.
-/
import Spydr.IR.Model
namespace Spydr.IR

/-- A structural announcement with the arguments the listener receives (objects are ids; an outer pin
    argument — stored pin or proxy — is the pair it denotes). -/
inductive Event
  | addLibrary (n l : OId) | removeLibrary (n l : OId)
  | addDefinition (l d : OId) | removeDefinition (l d : OId)
  | addPort (d p : OId) | removePort (d p : OId)
  | addCable (d c : OId) | removeCable (d c : OId)
  | addChild (d i : OId) | removeChild (d i : OId)
  | addPin (p q : OId) | removePin (p q : OId)
  | addWire (c w : OId) | removeWire (c w : OId)
  | connect (w : OId) (r : PinRef) | disconnect (w : OId) (r : PinRef)
  | reference (i : OId) (d : Option OId)
  | topInstance (n : OId) (i : Option OId)
  | topDefinition (n d : OId)
  | createInstance (i : OId)
  deriving DecidableEq, Repr, Inhabited

/-- the two `wire_disconnect_pin` announcements made when an instance's own outer pin is taken off its
    wire (`disconnect_pin` passes through its proxy branch: once for the object passed, once for the
    stored pin) -/
def discOuter (s : S) (i q : OId) : List Event :=
  match s.opWire i q with
  | some w => [.disconnect w (.outer i q), .disconnect w (.outer i q)]
  | none => []

/-- instances (below the bound `nI`) that reference `d` -/
def S.refList (s : S) (nI : Nat) (d : OId) : List OId := (List.range nI).filter (fun i => s.refs d i)

def evRemovePort (s : S) (nI : Nat) (d p : OId) : List Event :=
  .removePort d p :: (s.refList nI d).flatMap (fun i => (s.pins p).flatMap (fun q => discOuter s i q))

def evRemovePin (s : S) (nI : Nat) (p q : OId) : List Event :=
  .removePin p q :: (match s.portDef p with
    | none => []
    | some d => (s.refList nI d).flatMap (fun i => discOuter s i q))

def evDisconnect (w : OId) : PinRef → List Event
  | .inner q => [.disconnect w (.inner q)]
  | .outer i q => [.disconnect w (.outer i q), .disconnect w (.outer i q)]

/-- The announcements a call makes (in an order that is canonicalised away by the harness).
    `nI` bounds the instance ids in use. A refused call announces nothing. -/
def eventsOf (s : S) (nI : Nat) (op : Op) : List Event :=
  if (step s op).2 ≠ .ok then [] else
  match op with
  | .addLibrary n l _ _ => [.addLibrary n l]
  | .removeLibrary n l => [.removeLibrary n l]
  | .removeLibrariesFrom n ls => ((s.libs n).filter (· ∈ ls)).map (.removeLibrary n)
  | .setLibraries _ _ => []
  | .addDefinition l d _ _ => [.addDefinition l d]
  | .removeDefinition l d => [.removeDefinition l d]
  | .removeDefinitionsFrom l ds => ((s.defs l).filter (· ∈ ds)).map (.removeDefinition l)
  | .setDefinitions _ _ => []
  | .addPort d p _ _ => [.addPort d p]
  | .removePort d p => evRemovePort s nI d p
  | .removePortsFrom d ps => ((s.ports d).filter (· ∈ ps)).flatMap (evRemovePort s nI d)
  | .setPorts _ _ => []
  | .addCable d c _ _ => [.addCable d c]
  | .removeCable d c => [.removeCable d c]
  | .removeCablesFrom d cs => ((s.cables d).filter (· ∈ cs)).map (.removeCable d)
  | .setCables _ _ => []
  | .addChild d i _ _ => [.addChild d i]
  | .removeChild d i => [.removeChild d i]
  | .removeChildrenFrom d is => ((s.children d).filter (· ∈ is)).map (.removeChild d)
  | .setChildren _ _ => []
  | .createChild d i ref _ => [.createInstance i, .addChild d i, .reference i ref]
  | .addPin p q _ => [.addPin p q]
  | .removePin p q => evRemovePin s nI p q
  | .removePinsFrom p qs => ((s.pins p).filter (· ∈ qs)).flatMap (evRemovePin s nI p)
  | .setPins _ _ => []
  | .addWire c w _ => [.addWire c w]
  | .removeWire c w => [.removeWire c w]
  | .removeWiresFrom c ws => ((s.wires c).filter (· ∈ ws)).map (.removeWire c)
  | .setWires _ _ => []
  | .connectInner w q _ => [.connect w (.inner q)]
  | .connectOuter w i q _ => [.connect w (.outer i q)]
  | .disconnect w r => evDisconnect w r
  | .disconnectFrom w rs => ((s.wirePins w).filter (· ∈ rs)).flatMap (evDisconnect w)
  | .setWirePins _ _ => []
  | .setRef i none => .reference i none :: (s.instPins i).flatMap (fun q => discOuter s i q)
  | .setRef i (some d) => [.reference i (some d)]
  | .setTop n i => [.topInstance n i]
  | .setTopDef n d t => [.topDefinition n d, .createInstance t, .reference t (some d), .topInstance n (some t)]

/-- The mirror a passive listener keeps: for every object its parent pointer, for every pin its wire,
    for every instance its reference and which outer pins it carries, for every netlist its top instance.
    (Announcements carry no positions and reorder assignments are not announced, so the order of the
    lists is not part of the mirror; under the C01 invariant the lists' members are determined by the
    parent pointers, a wire's pins by the pins' wire fields and a reference set by the references.) -/
structure M where
  libNl : OId → Option OId
  defLib : OId → Option OId
  portDef : OId → Option OId
  cableDef : OId → Option OId
  instParent : OId → Option OId
  pinPort : OId → Option OId
  wireCable : OId → Option OId
  pinWire : OId → Option OId
  opWire : OId → OId → Option OId
  instRef : OId → Option OId
  hasOuter : OId → OId → Bool
  top : OId → Option OId

/-- what the mirror of a netlist state is -/
def S.abs (s : S) : M :=
  { libNl := s.libNl, defLib := s.defLib, portDef := s.portDef, cableDef := s.cableDef,
    instParent := s.instParent, pinPort := s.pinPort, wireCable := s.wireCable, pinWire := s.pinWire,
    opWire := s.opWire, instRef := s.instRef, hasOuter := fun i q => decide (q ∈ s.instPins i), top := s.top }

/-- What a passive listener does with one announcement: the announced change plus the effects it
    implies (outer pins appear / disappear with the inner pins of referenced definitions). It uses the
    event's arguments and its own mirror only. -/
def replayM (m : M) : Event → M
  | .addLibrary n l => { m with libNl := fun x => if x = l then some n else m.libNl x }
  | .removeLibrary _ l => { m with libNl := fun x => if x = l then none else m.libNl x }
  | .addDefinition l d => { m with defLib := fun x => if x = d then some l else m.defLib x }
  | .removeDefinition _ d => { m with defLib := fun x => if x = d then none else m.defLib x }
  | .addPort d p =>
    { m with portDef := fun x => if x = p then some d else m.portDef x
             hasOuter := fun i q => m.hasOuter i q || (m.instRef i == some d && m.pinPort q == some p) }
  | .removePort d p =>
    { m with portDef := fun x => if x = p then none else m.portDef x
             hasOuter := fun i q => m.hasOuter i q && !(m.instRef i == some d && m.pinPort q == some p)
             opWire := fun i q => if m.instRef i = some d ∧ m.pinPort q = some p then none else m.opWire i q }
  | .addCable d c => { m with cableDef := fun x => if x = c then some d else m.cableDef x }
  | .removeCable _ c => { m with cableDef := fun x => if x = c then none else m.cableDef x }
  | .addChild d i => { m with instParent := fun x => if x = i then some d else m.instParent x }
  | .removeChild _ i => { m with instParent := fun x => if x = i then none else m.instParent x }
  | .addPin p q =>
    { m with pinPort := fun x => if x = q then some p else m.pinPort x
             hasOuter := fun i q' => m.hasOuter i q' || (q' == q && (match m.portDef p with
                 | some d => m.instRef i == some d
                 | none => false)) }
  | .removePin _ q =>
    { m with pinPort := fun x => if x = q then none else m.pinPort x
             hasOuter := fun i q' => m.hasOuter i q' && !(q' == q)
             opWire := fun i q' => if q' = q then none else m.opWire i q' }
  | .addWire c w => { m with wireCable := fun x => if x = w then some c else m.wireCable x }
  | .removeWire _ w => { m with wireCable := fun x => if x = w then none else m.wireCable x }
  | .connect w (.inner q) => { m with pinWire := fun x => if x = q then some w else m.pinWire x }
  | .connect w (.outer i q) => { m with opWire := fun i' q' => if i' = i ∧ q' = q then some w else m.opWire i' q' }
  | .disconnect _ (.inner q) => { m with pinWire := fun x => if x = q then none else m.pinWire x }
  | .disconnect _ (.outer i q) => { m with opWire := fun i' q' => if i' = i ∧ q' = q then none else m.opWire i' q' }
  | .reference i none =>
    { m with instRef := fun x => if x = i then none else m.instRef x
             hasOuter := fun i' q => if i' = i then false else m.hasOuter i' q
             opWire := fun i' q => if i' = i then none else m.opWire i' q }
  | .reference i (some d) =>
    -- first assignment: one outer pin per inner pin of d. (Re-pointing an instance that already has a
    -- reference re-keys outer pins BY POSITION, which a mirror without list order cannot reproduce;
    -- see `replay_mirror_partial`.)
    { m with instRef := fun x => if x = i then some d else m.instRef x
             hasOuter := fun i' q => if i' = i then (match m.pinPort q with
                 | some p => m.portDef p == some d
                 | none => false) else m.hasOuter i' q }
  | .topInstance n i => { m with top := fun x => if x = n then i else m.top x }
  | .topDefinition _ _ => m
  | .createInstance _ => m

def replayAllM (m : M) (es : List Event) : M := es.foldl replayM m

/-- a call that re-points an instance which already has a reference (positional re-keying) -/
def isRepoint (s : S) : Op → Bool
  | .setRef i (some _) => (s.instRef i).isSome
  | _ => false

/-- the three bulk calls whose announcement lists interleave removals with implied disconnects -/
def isBulk : Op → Bool
  | .removePortsFrom .. | .removePinsFrom .. | .disconnectFrom .. => true
  | _ => false

end Spydr.IR

/-! ### Element data (`FirstClassElement.__setitem__/__delitem__/pop`) and its announcements -/
namespace Spydr.IR

/-- data dictionaries of all elements: (element, key) ↦ value (values as canonical text) -/
structure D where
  val : Nat → String → Option String

def D.init : D := { val := fun _ _ => none }

inductive DOp
  | set (e : Nat) (k v : String)
  | del (e : Nat) (k : String)
  | pop (e : Nat) (k : String)
  deriving Repr, DecidableEq

inductive DEvent
  | set (e : Nat) (k v : String)
  | delete (e : Nat) (k : String)
  | pop (e : Nat) (k : String)
  deriving Repr, DecidableEq

/-- result: new dictionaries, and `true` when the call returned (false = KeyError) -/
def dstep (d : D) : DOp → D × Bool
  | .set e k v => ({ val := fun e' k' => if e' = e ∧ k' = k then some v else d.val e' k' }, true)
  | .del e k => if d.val e k = none then (d, false) else
      ({ val := fun e' k' => if e' = e ∧ k' = k then none else d.val e' k' }, true)
  | .pop e k => if d.val e k = none then (d, false) else
      ({ val := fun e' k' => if e' = e ∧ k' = k then none else d.val e' k' }, true)

/-- announcements of a data call; a call that raises KeyError announces nothing (repaired behaviour) -/
def devents (d : D) : DOp → List DEvent
  | .set e k v => [.set e k v]
  | .del e k => if d.val e k = none then [] else [.delete e k]
  | .pop e k => if d.val e k = none then [] else [.pop e k]

def dreplay (m : D) : DEvent → D
  | .set e k v => { val := fun e' k' => if e' = e ∧ k' = k then some v else m.val e' k' }
  | .delete e k => { val := fun e' k' => if e' = e ∧ k' = k then none else m.val e' k' }
  | .pop e k => { val := fun e' k' => if e' = e ∧ k' = k then none else m.val e' k' }

end Spydr.IR
