import Spydr.IR.Events
import Spydr.IR.StepInv
namespace Spydr.IR

theorem M.ext' {a b : M} (h1 : a.libNl = b.libNl) (h2 : a.defLib = b.defLib) (h3 : a.portDef = b.portDef)
    (h4 : a.cableDef = b.cableDef) (h5 : a.instParent = b.instParent) (h6 : a.pinPort = b.pinPort)
    (h7 : a.wireCable = b.wireCable) (h8 : a.pinWire = b.pinWire) (h9 : a.opWire = b.opWire)
    (h10 : a.instRef = b.instRef) (h11 : a.hasOuter = b.hasOuter) (h12 : a.top = b.top) : a = b := by
  cases a; cases b; simp_all

macro "m_ext" : tactic => `(tactic| (
  apply M.ext'
  all_goals first
    | rfl
    | (funext x y; grind [mem_insertAt, isReorder_iff])
    | (funext x; grind [mem_insertAt, isReorder_iff])))

macro "mirror_tac" hok:ident : tactic => `(tactic| (
  simp only [eventsOf, $hok:ident, ne_eq, not_true_eq_false, if_false, replayAllM, List.foldl]
  simp only [step] at $hok:ident ⊢
  repeat' split at $hok:ident
  all_goals first
    | (simp at $hok:ident; done)
    | (simp only [*, if_false, if_true, replayM, S.abs, not_false_eq_true, ne_eq, not_true_eq_false, Bool.false_eq_true] <;> m_ext)))

theorem mirror_addLibrary (s : S) (nI n l pos) (h : Inv s) (hok : (step s (.addLibrary n l pos false)).2 = .ok) :
    replayAllM s.abs (eventsOf s nI (.addLibrary n l pos false)) = (step s (.addLibrary n l pos false)).1.abs := by
  obtain ⟨h1,h2,h3,h4,h5,h6,h7,h8,h9,h10,h11,h12,h13,h14,h15,h16,h17,h18,h19,h20,h21,h22⟩ := h
  mirror_tac hok

theorem mirror_removeLibrary (s : S) (nI n l) (h : Inv s) (hok : (step s (.removeLibrary n l)).2 = .ok) :
    replayAllM s.abs (eventsOf s nI (.removeLibrary n l)) = (step s (.removeLibrary n l)).1.abs := by
  obtain ⟨h1,h2,h3,h4,h5,h6,h7,h8,h9,h10,h11,h12,h13,h14,h15,h16,h17,h18,h19,h20,h21,h22⟩ := h
  mirror_tac hok

theorem mirror_setLibraries (s : S) (nI n ls) (h : Inv s) (hok : (step s (.setLibraries n ls)).2 = .ok) :
    replayAllM s.abs (eventsOf s nI (.setLibraries n ls)) = (step s (.setLibraries n ls)).1.abs := by
  obtain ⟨h1,h2,h3,h4,h5,h6,h7,h8,h9,h10,h11,h12,h13,h14,h15,h16,h17,h18,h19,h20,h21,h22⟩ := h
  mirror_tac hok

theorem mirror_addDefinition (s : S) (nI l d pos) (h : Inv s) (hok : (step s (.addDefinition l d pos false)).2 = .ok) :
    replayAllM s.abs (eventsOf s nI (.addDefinition l d pos false)) = (step s (.addDefinition l d pos false)).1.abs := by
  obtain ⟨h1,h2,h3,h4,h5,h6,h7,h8,h9,h10,h11,h12,h13,h14,h15,h16,h17,h18,h19,h20,h21,h22⟩ := h
  mirror_tac hok

theorem mirror_removeDefinition (s : S) (nI l d) (h : Inv s) (hok : (step s (.removeDefinition l d)).2 = .ok) :
    replayAllM s.abs (eventsOf s nI (.removeDefinition l d)) = (step s (.removeDefinition l d)).1.abs := by
  obtain ⟨h1,h2,h3,h4,h5,h6,h7,h8,h9,h10,h11,h12,h13,h14,h15,h16,h17,h18,h19,h20,h21,h22⟩ := h
  mirror_tac hok

theorem mirror_setDefinitions (s : S) (nI l ds) (h : Inv s) (hok : (step s (.setDefinitions l ds)).2 = .ok) :
    replayAllM s.abs (eventsOf s nI (.setDefinitions l ds)) = (step s (.setDefinitions l ds)).1.abs := by
  obtain ⟨h1,h2,h3,h4,h5,h6,h7,h8,h9,h10,h11,h12,h13,h14,h15,h16,h17,h18,h19,h20,h21,h22⟩ := h
  mirror_tac hok

theorem mirror_addPort (s : S) (nI d p pos) (h : Inv s) (hok : (step s (.addPort d p pos false)).2 = .ok) :
    replayAllM s.abs (eventsOf s nI (.addPort d p pos false)) = (step s (.addPort d p pos false)).1.abs := by
  obtain ⟨h1,h2,h3,h4,h5,h6,h7,h8,h9,h10,h11,h12,h13,h14,h15,h16,h17,h18,h19,h20,h21,h22⟩ := h
  mirror_tac hok

theorem mirror_setPorts (s : S) (nI d ps) (h : Inv s) (hok : (step s (.setPorts d ps)).2 = .ok) :
    replayAllM s.abs (eventsOf s nI (.setPorts d ps)) = (step s (.setPorts d ps)).1.abs := by
  obtain ⟨h1,h2,h3,h4,h5,h6,h7,h8,h9,h10,h11,h12,h13,h14,h15,h16,h17,h18,h19,h20,h21,h22⟩ := h
  mirror_tac hok

theorem mirror_addCable (s : S) (nI d c pos) (h : Inv s) (hok : (step s (.addCable d c pos false)).2 = .ok) :
    replayAllM s.abs (eventsOf s nI (.addCable d c pos false)) = (step s (.addCable d c pos false)).1.abs := by
  obtain ⟨h1,h2,h3,h4,h5,h6,h7,h8,h9,h10,h11,h12,h13,h14,h15,h16,h17,h18,h19,h20,h21,h22⟩ := h
  mirror_tac hok

theorem mirror_removeCable (s : S) (nI d c) (h : Inv s) (hok : (step s (.removeCable d c)).2 = .ok) :
    replayAllM s.abs (eventsOf s nI (.removeCable d c)) = (step s (.removeCable d c)).1.abs := by
  obtain ⟨h1,h2,h3,h4,h5,h6,h7,h8,h9,h10,h11,h12,h13,h14,h15,h16,h17,h18,h19,h20,h21,h22⟩ := h
  mirror_tac hok

theorem mirror_setCables (s : S) (nI d cs) (h : Inv s) (hok : (step s (.setCables d cs)).2 = .ok) :
    replayAllM s.abs (eventsOf s nI (.setCables d cs)) = (step s (.setCables d cs)).1.abs := by
  obtain ⟨h1,h2,h3,h4,h5,h6,h7,h8,h9,h10,h11,h12,h13,h14,h15,h16,h17,h18,h19,h20,h21,h22⟩ := h
  mirror_tac hok

theorem mirror_addChild (s : S) (nI d i pos) (h : Inv s) (hok : (step s (.addChild d i pos false)).2 = .ok) :
    replayAllM s.abs (eventsOf s nI (.addChild d i pos false)) = (step s (.addChild d i pos false)).1.abs := by
  obtain ⟨h1,h2,h3,h4,h5,h6,h7,h8,h9,h10,h11,h12,h13,h14,h15,h16,h17,h18,h19,h20,h21,h22⟩ := h
  mirror_tac hok

theorem mirror_removeChild (s : S) (nI d i) (h : Inv s) (hok : (step s (.removeChild d i)).2 = .ok) :
    replayAllM s.abs (eventsOf s nI (.removeChild d i)) = (step s (.removeChild d i)).1.abs := by
  obtain ⟨h1,h2,h3,h4,h5,h6,h7,h8,h9,h10,h11,h12,h13,h14,h15,h16,h17,h18,h19,h20,h21,h22⟩ := h
  mirror_tac hok

theorem mirror_setChildren (s : S) (nI d is) (h : Inv s) (hok : (step s (.setChildren d is)).2 = .ok) :
    replayAllM s.abs (eventsOf s nI (.setChildren d is)) = (step s (.setChildren d is)).1.abs := by
  obtain ⟨h1,h2,h3,h4,h5,h6,h7,h8,h9,h10,h11,h12,h13,h14,h15,h16,h17,h18,h19,h20,h21,h22⟩ := h
  mirror_tac hok

theorem mirror_addPin (s : S) (nI p q pos) (h : Inv s) (hok : (step s (.addPin p q pos)).2 = .ok) :
    replayAllM s.abs (eventsOf s nI (.addPin p q pos)) = (step s (.addPin p q pos)).1.abs := by
  obtain ⟨h1,h2,h3,h4,h5,h6,h7,h8,h9,h10,h11,h12,h13,h14,h15,h16,h17,h18,h19,h20,h21,h22⟩ := h
  mirror_tac hok

theorem mirror_setPins (s : S) (nI p qs) (h : Inv s) (hok : (step s (.setPins p qs)).2 = .ok) :
    replayAllM s.abs (eventsOf s nI (.setPins p qs)) = (step s (.setPins p qs)).1.abs := by
  obtain ⟨h1,h2,h3,h4,h5,h6,h7,h8,h9,h10,h11,h12,h13,h14,h15,h16,h17,h18,h19,h20,h21,h22⟩ := h
  mirror_tac hok

theorem mirror_addWire (s : S) (nI c w pos) (h : Inv s) (hok : (step s (.addWire c w pos)).2 = .ok) :
    replayAllM s.abs (eventsOf s nI (.addWire c w pos)) = (step s (.addWire c w pos)).1.abs := by
  obtain ⟨h1,h2,h3,h4,h5,h6,h7,h8,h9,h10,h11,h12,h13,h14,h15,h16,h17,h18,h19,h20,h21,h22⟩ := h
  mirror_tac hok

theorem mirror_removeWire (s : S) (nI c w) (h : Inv s) (hok : (step s (.removeWire c w)).2 = .ok) :
    replayAllM s.abs (eventsOf s nI (.removeWire c w)) = (step s (.removeWire c w)).1.abs := by
  obtain ⟨h1,h2,h3,h4,h5,h6,h7,h8,h9,h10,h11,h12,h13,h14,h15,h16,h17,h18,h19,h20,h21,h22⟩ := h
  mirror_tac hok

theorem mirror_setWires (s : S) (nI c ws) (h : Inv s) (hok : (step s (.setWires c ws)).2 = .ok) :
    replayAllM s.abs (eventsOf s nI (.setWires c ws)) = (step s (.setWires c ws)).1.abs := by
  obtain ⟨h1,h2,h3,h4,h5,h6,h7,h8,h9,h10,h11,h12,h13,h14,h15,h16,h17,h18,h19,h20,h21,h22⟩ := h
  mirror_tac hok

theorem mirror_connectInner (s : S) (nI w q pos) (h : Inv s) (hok : (step s (.connectInner w q pos)).2 = .ok) :
    replayAllM s.abs (eventsOf s nI (.connectInner w q pos)) = (step s (.connectInner w q pos)).1.abs := by
  obtain ⟨h1,h2,h3,h4,h5,h6,h7,h8,h9,h10,h11,h12,h13,h14,h15,h16,h17,h18,h19,h20,h21,h22⟩ := h
  mirror_tac hok

theorem mirror_connectOuter (s : S) (nI w i q pos) (h : Inv s) (hok : (step s (.connectOuter w i q pos)).2 = .ok) :
    replayAllM s.abs (eventsOf s nI (.connectOuter w i q pos)) = (step s (.connectOuter w i q pos)).1.abs := by
  obtain ⟨h1,h2,h3,h4,h5,h6,h7,h8,h9,h10,h11,h12,h13,h14,h15,h16,h17,h18,h19,h20,h21,h22⟩ := h
  mirror_tac hok

theorem mirror_setWirePins (s : S) (nI w rs) (h : Inv s) (hok : (step s (.setWirePins w rs)).2 = .ok) :
    replayAllM s.abs (eventsOf s nI (.setWirePins w rs)) = (step s (.setWirePins w rs)).1.abs := by
  obtain ⟨h1,h2,h3,h4,h5,h6,h7,h8,h9,h10,h11,h12,h13,h14,h15,h16,h17,h18,h19,h20,h21,h22⟩ := h
  mirror_tac hok

theorem mirror_setTop (s : S) (nI n i) (h : Inv s) (hok : (step s (.setTop n i)).2 = .ok) :
    replayAllM s.abs (eventsOf s nI (.setTop n i)) = (step s (.setTop n i)).1.abs := by
  obtain ⟨h1,h2,h3,h4,h5,h6,h7,h8,h9,h10,h11,h12,h13,h14,h15,h16,h17,h18,h19,h20,h21,h22⟩ := h
  mirror_tac hok

end Spydr.IR
