import Spydr.IR.EventsLemmas
namespace Spydr.IR

theorem foldl_noops (m : M) (es : List Event) (h : ∀ e ∈ es, replayM m e = m) : es.foldl replayM m = m := by
  induction es with
  | nil => rfl
  | cons e t ih =>
    simp only [List.foldl]
    rw [h e (by simp)]
    exact ih (fun e' he' => h e' (by simp [he']))

theorem replayM_disc_outer_noop (m : M) (w i q : OId) (h : m.opWire i q = none) :
    replayM m (.disconnect w (.outer i q)) = m := by
  simp only [replayM]
  apply M.ext' <;> try rfl
  funext i' q'
  simp only []
  split
  · rename_i hh; rw [hh.1, hh.2, h]
  · rfl

theorem mem_discOuter (s : S) (i q : OId) (e : Event) (h : e ∈ discOuter s i q) :
    ∃ w, e = .disconnect w (.outer i q) := by
  simp only [discOuter] at h
  split at h
  · rename_i w _; simp at h; exact ⟨w, h⟩
  · simp at h

theorem mirror_disconnect (s : S) (nI w r) (h : Inv s) (hok : (step s (.disconnect w r)).2 = .ok) :
    replayAllM s.abs (eventsOf s nI (.disconnect w r)) = (step s (.disconnect w r)).1.abs := by
  obtain ⟨h1,h2,h3,h4,h5,h6,h7,h8,h9,h10,h11,h12,h13,h14,h15,h16,h17,h18,h19,h20,h21,h22⟩ := h
  cases r with
  | inner q =>
    simp only [eventsOf, hok, ne_eq, not_true_eq_false, if_false, replayAllM, List.foldl, evDisconnect]
    simp only [step] at hok ⊢
    repeat' split at hok
    all_goals first
      | (simp at hok; done)
      | (simp only [*, if_false, if_true, replayM, S.abs, not_false_eq_true, ne_eq, not_true_eq_false, Bool.false_eq_true] <;> m_ext)
  | outer i q =>
    simp only [eventsOf, hok, ne_eq, not_true_eq_false, if_false, replayAllM, List.foldl, evDisconnect]
    simp only [step] at hok ⊢
    repeat' split at hok
    all_goals first
      | (simp at hok; done)
      | (simp only [*, if_false, if_true, replayM, S.abs, not_false_eq_true, ne_eq, not_true_eq_false, Bool.false_eq_true] <;> m_ext)

theorem mirror_removePort (s : S) (nI d p) (h : Inv s) (hok : (step s (.removePort d p)).2 = .ok) :
    replayAllM s.abs (eventsOf s nI (.removePort d p)) = (step s (.removePort d p)).1.abs := by
  have hpins := h.pins_iff
  have hrefs := h.refs_iff
  have hmain : replayM s.abs (.removePort d p) = (step s (.removePort d p)).1.abs := by
    obtain ⟨h1,h2,h3,h4,h5,h6,h7,h8,h9,h10,h11,h12,h13,h14,h15,h16,h17,h18,h19,h20,h21,h22⟩ := h
    simp only [step] at hok ⊢
    repeat' split at hok
    all_goals first
      | (simp at hok; done)
      | (simp only [*, if_false, if_true, replayM, S.abs, not_false_eq_true, ne_eq, not_true_eq_false, Bool.false_eq_true] <;> m_ext)
  simp only [eventsOf, hok, ne_eq, not_true_eq_false, if_false, replayAllM, evRemovePort, List.foldl]
  rw [hmain]
  apply foldl_noops
  intro e he
  simp only [List.mem_flatMap] at he
  obtain ⟨i, hi, q, hq, he⟩ := he
  obtain ⟨w, rfl⟩ := mem_discOuter s i q e he
  apply replayM_disc_outer_noop
  simp only [S.refList, List.mem_filter] at hi
  have hr := (hrefs d i).1 hi.2
  have hp := (hpins p q).1 hq
  simp only [step] at hok ⊢
  split at hok
  · simp at hok
  · rename_i hg
    have hg' : s.portDef p = some d := by simpa using hg
    simp [S.abs, hr, hp, hg']

theorem mirror_removePin (s : S) (nI p q) (h : Inv s) (hok : (step s (.removePin p q)).2 = .ok) :
    replayAllM s.abs (eventsOf s nI (.removePin p q)) = (step s (.removePin p q)).1.abs := by
  have hmain : replayM s.abs (.removePin p q) = (step s (.removePin p q)).1.abs := by
    obtain ⟨h1,h2,h3,h4,h5,h6,h7,h8,h9,h10,h11,h12,h13,h14,h15,h16,h17,h18,h19,h20,h21,h22⟩ := h
    simp only [step] at hok ⊢
    repeat' split at hok
    all_goals first
      | (simp at hok; done)
      | (simp only [*, if_false, if_true, replayM, S.abs, not_false_eq_true, ne_eq, not_true_eq_false, Bool.false_eq_true] <;> m_ext)
  simp only [eventsOf, hok, ne_eq, not_true_eq_false, if_false, replayAllM, evRemovePin, List.foldl]
  rw [hmain]
  apply foldl_noops
  intro e he
  cases hd : s.portDef p with
  | none => simp [hd] at he
  | some d =>
    simp only [hd, List.mem_flatMap] at he
    obtain ⟨i, _, he⟩ := he
    obtain ⟨w, rfl⟩ := mem_discOuter s i q e he
    apply replayM_disc_outer_noop
    simp only [step] at hok ⊢
    split at hok
    · simp at hok
    · rename_i hg
      have hg' : s.pinPort q = some p := by simpa using hg
      simp [S.abs, hg']

theorem mirror_setRef_none (s : S) (nI i) (h : Inv s) (hok : (step s (.setRef i none)).2 = .ok) :
    replayAllM s.abs (eventsOf s nI (.setRef i none)) = (step s (.setRef i none)).1.abs := by
  have hmain : replayM s.abs (.reference i none) = (step s (.setRef i none)).1.abs := by
    obtain ⟨h1,h2,h3,h4,h5,h6,h7,h8,h9,h10,h11,h12,h13,h14,h15,h16,h17,h18,h19,h20,h21,h22⟩ := h
    simp only [step, S.setRefStep, S.dropRef, replayM, S.abs]
    m_ext
  simp only [eventsOf, hok, ne_eq, not_true_eq_false, if_false, replayAllM, List.foldl]
  rw [hmain]
  apply foldl_noops
  intro e he
  simp only [List.mem_flatMap] at he
  obtain ⟨q, _, he⟩ := he
  obtain ⟨w, rfl⟩ := mem_discOuter s i q e he
  apply replayM_disc_outer_noop
  simp [step, S.setRefStep, S.dropRef, S.abs]

theorem mirror_setRef_first (s : S) (nI i d) (h : Inv s) (hfirst : s.instRef i = none) :
    replayAllM s.abs (eventsOf s nI (.setRef i (some d))) = (step s (.setRef i (some d))).1.abs := by
  have hm := mem_flat s h d
  have hok : (step s (.setRef i (some d))).2 = .ok := by simp [step, S.setRefStep, hfirst]
  obtain ⟨h1,h2,h3,h4,h5,h6,h7,h8,h9,h10,h11,h12,h13,h14,h15,h16,h17,h18,h19,h20,h21,h22⟩ := h
  simp only [eventsOf, hok, ne_eq, not_true_eq_false, if_false, replayAllM, List.foldl]
  simp only [step, S.setRefStep, hfirst, S.firstRef, replayM, S.abs]
  m_ext

theorem mirror_createChild (s : S) (nI d i ref) (h : Inv s) (hok : (step s (.createChild d i ref false)).2 = .ok) :
    replayAllM s.abs (eventsOf s nI (.createChild d i ref false)) = (step s (.createChild d i ref false)).1.abs := by
  have hm := mem_flat s h
  by_cases hg : s.instParent i ≠ none ∨ s.instRef i ≠ none
  · simp [step, hg] at hok
  · have hp : s.instParent i = none := by
      cases e : s.instParent i with
      | none => rfl
      | some x => exact absurd (Or.inl (by simp [e])) hg
    have hr : s.instRef i = none := by
      cases e : s.instRef i with
      | none => rfl
      | some x => exact absurd (Or.inr (by simp [e])) hg
    have hno : ∀ q, s.opWire i q = none := by
      intro q
      cases e : s.opWire i q with
      | none => rfl
      | some w =>
        have := h.ow_owned i q w e
        rw [h.noref i hr] at this
        simp at this
    have hnp : s.instPins i = [] := h.noref i hr
    obtain ⟨h1,h2,h3,h4,h5,h6,h7,h8,h9,h10,h11,h12,h13,h14,h15,h16,h17,h18,h19,h20,h21,h22⟩ := h
    simp only [eventsOf, hok, ne_eq, not_true_eq_false, if_false, replayAllM, List.foldl]
    cases ref with
    | none =>
      simp only [step, hg, if_false, Bool.false_eq_true, replayM, S.abs]
      m_ext
    | some r =>
      simp only [step, hg, if_false, Bool.false_eq_true, replayM, S.abs, S.firstRef]
      m_ext

theorem mirror_setTopDef (s : S) (nI n d t) (h : Inv s) (hok : (step s (.setTopDef n d t)).2 = .ok) :
    replayAllM s.abs (eventsOf s nI (.setTopDef n d t)) = (step s (.setTopDef n d t)).1.abs := by
  have hm := mem_flat s h
  obtain ⟨h1,h2,h3,h4,h5,h6,h7,h8,h9,h10,h11,h12,h13,h14,h15,h16,h17,h18,h19,h20,h21,h22⟩ := h
  simp only [eventsOf, hok, ne_eq, not_true_eq_false, if_false, replayAllM, List.foldl]
  simp only [step] at hok ⊢
  repeat' split at hok
  all_goals first
    | (simp at hok; done)
    | (simp only [*, if_false, if_true, replayM, S.abs, S.firstRef, not_false_eq_true, ne_eq, not_true_eq_false, Bool.false_eq_true] <;> m_ext)

end Spydr.IR
