import Spydr.IR.EventsLemmas2
namespace Spydr.IR

/-! bulk removals of the five plain containers: a fold over one announcement per removed member -/

theorem fold_removeLibrary (m : M) (n : OId) (es : List OId) :
    (es.map (Event.removeLibrary n)).foldl replayM m =
      { m with libNl := fun x => if x ∈ es then none else m.libNl x } := by
  induction es generalizing m with
  | nil => simp
  | cons a t ih =>
    simp only [List.map_cons, List.foldl_cons, ih, replayM]
    apply M.ext' <;> try rfl
    funext x
    simp only [List.mem_cons]
    by_cases h1 : x ∈ t <;> by_cases h2 : x = a <;> simp [h1, h2]

theorem fold_removeDefinition (m : M) (n : OId) (es : List OId) :
    (es.map (Event.removeDefinition n)).foldl replayM m =
      { m with defLib := fun x => if x ∈ es then none else m.defLib x } := by
  induction es generalizing m with
  | nil => simp
  | cons a t ih =>
    simp only [List.map_cons, List.foldl_cons, ih, replayM]
    apply M.ext' <;> try rfl
    funext x
    simp only [List.mem_cons]
    by_cases h1 : x ∈ t <;> by_cases h2 : x = a <;> simp [h1, h2]

theorem fold_removeCable (m : M) (n : OId) (es : List OId) :
    (es.map (Event.removeCable n)).foldl replayM m =
      { m with cableDef := fun x => if x ∈ es then none else m.cableDef x } := by
  induction es generalizing m with
  | nil => simp
  | cons a t ih =>
    simp only [List.map_cons, List.foldl_cons, ih, replayM]
    apply M.ext' <;> try rfl
    funext x
    simp only [List.mem_cons]
    by_cases h1 : x ∈ t <;> by_cases h2 : x = a <;> simp [h1, h2]

theorem fold_removeChild (m : M) (n : OId) (es : List OId) :
    (es.map (Event.removeChild n)).foldl replayM m =
      { m with instParent := fun x => if x ∈ es then none else m.instParent x } := by
  induction es generalizing m with
  | nil => simp
  | cons a t ih =>
    simp only [List.map_cons, List.foldl_cons, ih, replayM]
    apply M.ext' <;> try rfl
    funext x
    simp only [List.mem_cons]
    by_cases h1 : x ∈ t <;> by_cases h2 : x = a <;> simp [h1, h2]

theorem fold_removeWire (m : M) (n : OId) (es : List OId) :
    (es.map (Event.removeWire n)).foldl replayM m =
      { m with wireCable := fun x => if x ∈ es then none else m.wireCable x } := by
  induction es generalizing m with
  | nil => simp
  | cons a t ih =>
    simp only [List.map_cons, List.foldl_cons, ih, replayM]
    apply M.ext' <;> try rfl
    funext x
    simp only [List.mem_cons]
    by_cases h1 : x ∈ t <;> by_cases h2 : x = a <;> simp [h1, h2]

theorem mirror_removeLibrariesFrom (s : S) (nI a xs) (h : Inv s) (hok : (step s (.removeLibrariesFrom a xs)).2 = .ok) :
    replayAllM s.abs (eventsOf s nI (.removeLibrariesFrom a xs)) = (step s (.removeLibrariesFrom a xs)).1.abs := by
  have hi := h.libs_iff
  by_cases hg : (xs.any fun l => decide (s.libNl l ≠ some a)) = true
  · simp only [step, hg] at hok; simp at hok
  · have hall : ∀ x ∈ xs, s.libNl x = some a := by
      intro x hx
      cases e : s.libNl x with
      | none => exact absurd (List.any_eq_true.2 ⟨x, hx, by simp [e]⟩) hg
      | some y =>
        by_cases hy : y = a
        · rw [hy]
        · exact absurd (List.any_eq_true.2 ⟨x, hx, by simp [e, hy]⟩) hg
    simp only [eventsOf, hok, ne_eq, not_true_eq_false, if_false, replayAllM, fold_removeLibrary]
    simp only [step, hg, Bool.false_eq_true, if_false, S.abs]
    apply M.ext' <;> try rfl
    funext x
    simp only [List.mem_filter, decide_eq_true_eq]
    by_cases hx : x ∈ xs
    · have := (hi a x).2 (hall x hx)
      simp [hx, this]
    · simp [hx]

theorem mirror_removeDefinitionsFrom (s : S) (nI a xs) (h : Inv s) (hok : (step s (.removeDefinitionsFrom a xs)).2 = .ok) :
    replayAllM s.abs (eventsOf s nI (.removeDefinitionsFrom a xs)) = (step s (.removeDefinitionsFrom a xs)).1.abs := by
  have hi := h.defs_iff
  by_cases hg : (xs.any fun l => decide (s.defLib l ≠ some a)) = true
  · simp only [step, hg] at hok; simp at hok
  · have hall : ∀ x ∈ xs, s.defLib x = some a := by
      intro x hx
      cases e : s.defLib x with
      | none => exact absurd (List.any_eq_true.2 ⟨x, hx, by simp [e]⟩) hg
      | some y =>
        by_cases hy : y = a
        · rw [hy]
        · exact absurd (List.any_eq_true.2 ⟨x, hx, by simp [e, hy]⟩) hg
    simp only [eventsOf, hok, ne_eq, not_true_eq_false, if_false, replayAllM, fold_removeDefinition]
    simp only [step, hg, Bool.false_eq_true, if_false, S.abs]
    apply M.ext' <;> try rfl
    funext x
    simp only [List.mem_filter, decide_eq_true_eq]
    by_cases hx : x ∈ xs
    · have := (hi a x).2 (hall x hx)
      simp [hx, this]
    · simp [hx]

theorem mirror_removeCablesFrom (s : S) (nI a xs) (h : Inv s) (hok : (step s (.removeCablesFrom a xs)).2 = .ok) :
    replayAllM s.abs (eventsOf s nI (.removeCablesFrom a xs)) = (step s (.removeCablesFrom a xs)).1.abs := by
  have hi := h.cables_iff
  by_cases hg : (xs.any fun l => decide (s.cableDef l ≠ some a)) = true
  · simp only [step, hg] at hok; simp at hok
  · have hall : ∀ x ∈ xs, s.cableDef x = some a := by
      intro x hx
      cases e : s.cableDef x with
      | none => exact absurd (List.any_eq_true.2 ⟨x, hx, by simp [e]⟩) hg
      | some y =>
        by_cases hy : y = a
        · rw [hy]
        · exact absurd (List.any_eq_true.2 ⟨x, hx, by simp [e, hy]⟩) hg
    simp only [eventsOf, hok, ne_eq, not_true_eq_false, if_false, replayAllM, fold_removeCable]
    simp only [step, hg, Bool.false_eq_true, if_false, S.abs]
    apply M.ext' <;> try rfl
    funext x
    simp only [List.mem_filter, decide_eq_true_eq]
    by_cases hx : x ∈ xs
    · have := (hi a x).2 (hall x hx)
      simp [hx, this]
    · simp [hx]

theorem mirror_removeChildrenFrom (s : S) (nI a xs) (h : Inv s) (hok : (step s (.removeChildrenFrom a xs)).2 = .ok) :
    replayAllM s.abs (eventsOf s nI (.removeChildrenFrom a xs)) = (step s (.removeChildrenFrom a xs)).1.abs := by
  have hi := h.child_iff
  by_cases hg : (xs.any fun l => decide (s.instParent l ≠ some a)) = true
  · simp only [step, hg] at hok; simp at hok
  · have hall : ∀ x ∈ xs, s.instParent x = some a := by
      intro x hx
      cases e : s.instParent x with
      | none => exact absurd (List.any_eq_true.2 ⟨x, hx, by simp [e]⟩) hg
      | some y =>
        by_cases hy : y = a
        · rw [hy]
        · exact absurd (List.any_eq_true.2 ⟨x, hx, by simp [e, hy]⟩) hg
    simp only [eventsOf, hok, ne_eq, not_true_eq_false, if_false, replayAllM, fold_removeChild]
    simp only [step, hg, Bool.false_eq_true, if_false, S.abs]
    apply M.ext' <;> try rfl
    funext x
    simp only [List.mem_filter, decide_eq_true_eq]
    by_cases hx : x ∈ xs
    · have := (hi a x).2 (hall x hx)
      simp [hx, this]
    · simp [hx]

theorem mirror_removeWiresFrom (s : S) (nI a xs) (h : Inv s) (hok : (step s (.removeWiresFrom a xs)).2 = .ok) :
    replayAllM s.abs (eventsOf s nI (.removeWiresFrom a xs)) = (step s (.removeWiresFrom a xs)).1.abs := by
  have hi := h.wires_iff
  by_cases hg : (xs.any fun l => decide (s.wireCable l ≠ some a)) = true
  · simp only [step, hg] at hok; simp at hok
  · have hall : ∀ x ∈ xs, s.wireCable x = some a := by
      intro x hx
      cases e : s.wireCable x with
      | none => exact absurd (List.any_eq_true.2 ⟨x, hx, by simp [e]⟩) hg
      | some y =>
        by_cases hy : y = a
        · rw [hy]
        · exact absurd (List.any_eq_true.2 ⟨x, hx, by simp [e, hy]⟩) hg
    simp only [eventsOf, hok, ne_eq, not_true_eq_false, if_false, replayAllM, fold_removeWire]
    simp only [step, hg, Bool.false_eq_true, if_false, S.abs]
    apply M.ext' <;> try rfl
    funext x
    simp only [List.mem_filter, decide_eq_true_eq]
    by_cases hx : x ∈ xs
    · have := (hi a x).2 (hall x hx)
      simp [hx, this]
    · simp [hx]

end Spydr.IR
