import Spydr.IR.EventsLemmas3
namespace Spydr.IR

/-! `remove_ports_from`: per removed port one `definition_remove_port` followed by the implied
    `wire_disconnect_pin` pairs; the latter are no-ops on a mirror that has just replayed the former. -/

theorem replayAllM_append (m : M) (a b : List Event) : replayAllM m (a ++ b) = replayAllM (replayAllM m a) b := by
  simp [replayAllM, List.foldl_append]

theorem replayM_removePort_instRef (m : M) (d p) : (replayM m (.removePort d p)).instRef = m.instRef := rfl
theorem replayM_removePort_pinPort (m : M) (d p) : (replayM m (.removePort d p)).pinPort = m.pinPort := rfl

theorem evRemovePort_replay (s : S) (h : Inv s) (m : M) (hm1 : m.instRef = s.instRef) (hm2 : m.pinPort = s.pinPort)
    (nI d p : OId) : replayAllM m (evRemovePort s nI d p) = replayM m (.removePort d p) := by
  simp only [evRemovePort, replayAllM, List.foldl_cons]
  apply foldl_noops
  intro e he
  simp only [List.mem_flatMap] at he
  obtain ⟨i, hi, q, hq, he⟩ := he
  obtain ⟨w, rfl⟩ := mem_discOuter s i q e he
  apply replayM_disc_outer_noop
  simp only [S.refList, List.mem_filter] at hi
  have hr := (h.refs_iff d i).1 hi.2
  have hp := (h.pins_iff p q).1 hq
  simp [replayM, hm1, hm2, hr, hp]

theorem fold_evRemovePort (s : S) (h : Inv s) (nI d : OId) (L : List OId) (m : M)
    (hm1 : m.instRef = s.instRef) (hm2 : m.pinPort = s.pinPort) :
    replayAllM m (L.flatMap (evRemovePort s nI d)) = replayAllM m (L.map (Event.removePort d)) := by
  induction L generalizing m with
  | nil => rfl
  | cons p t ih =>
    simp only [List.flatMap_cons, List.map_cons, replayAllM_append]
    rw [evRemovePort_replay s h m hm1 hm2]
    have : replayAllM m (Event.removePort d p :: t.map (Event.removePort d)) =
        replayAllM (replayM m (.removePort d p)) (t.map (Event.removePort d)) := by
      simp [replayAllM]
    rw [this]
    exact ih _ (by rw [replayM_removePort_instRef, hm1]) (by rw [replayM_removePort_pinPort, hm2])

def M.pinIn (m : M) (L : List OId) (q : OId) : Bool :=
  match m.pinPort q with
  | some p => decide (p ∈ L)
  | none => false

theorem pinIn_replay_removePort (m : M) (d a : OId) (L : List OId) (q : OId) :
    (replayM m (.removePort d a)).pinIn L q = m.pinIn L q := rfl
theorem hasOuter_replay_removePort (m : M) (d a i q : OId) :
    (replayM m (.removePort d a)).hasOuter i q = (m.hasOuter i q && !(m.instRef i == some d && m.pinPort q == some a)) := rfl
theorem opWire_replay_removePort (m : M) (d a i q : OId) :
    (replayM m (.removePort d a)).opWire i q = (if m.instRef i = some d ∧ m.pinPort q = some a then none else m.opWire i q) := rfl
theorem portDef_replay_removePort (m : M) (d a x : OId) :
    (replayM m (.removePort d a)).portDef x = (if x = a then none else m.portDef x) := rfl
theorem pinIn_cons (m : M) (a : OId) (t : List OId) (q : OId) :
    m.pinIn (a :: t) q = (m.pinPort q == some a || m.pinIn t q) := by
  simp only [M.pinIn]
  cases m.pinPort q with
  | none => simp
  | some p => by_cases h : p = a <;> simp [h]

/-- closed form of replaying `definition_remove_port` for a list of ports -/
theorem fold_removePort (d : OId) (L : List OId) (m : M) :
    replayAllM m (L.map (Event.removePort d)) =
      { m with portDef := fun x => if x ∈ L then none else m.portDef x
               hasOuter := fun i q => m.hasOuter i q && !(m.instRef i == some d && m.pinIn L q)
               opWire := fun i q => if m.instRef i = some d ∧ m.pinIn L q = true then none else m.opWire i q } := by
  induction L generalizing m with
  | nil =>
    simp only [List.map_nil, replayAllM, List.foldl_nil]
    apply M.ext'
    all_goals first
      | rfl
      | (funext i q; simp only [M.pinIn]; grind)
      | (funext x; simp)
  | cons a t ih =>
    have : replayAllM m (List.map (Event.removePort d) (a :: t)) =
        replayAllM (replayM m (.removePort d a)) (t.map (Event.removePort d)) := by
      simp [replayAllM]
    rw [this, ih]
    apply M.ext'
    all_goals first
      | rfl
      | (funext i q
         simp only [pinIn_replay_removePort, replayM_removePort_instRef, hasOuter_replay_removePort, opWire_replay_removePort, pinIn_cons]
         grind)
      | (funext x
         simp only [portDef_replay_removePort, List.mem_cons]
         grind)

theorem mirror_removePortsFrom (s : S) (nI d ps) (h : Inv s) (hok : (step s (.removePortsFrom d ps)).2 = .ok) :
    replayAllM s.abs (eventsOf s nI (.removePortsFrom d ps)) = (step s (.removePortsFrom d ps)).1.abs := by
  have hi := h.ports_iff
  by_cases hg : (ps.any fun p => decide (s.portDef p ≠ some d)) = true
  · simp only [step, hg] at hok; simp at hok
  · have hall : ∀ x ∈ ps, s.portDef x = some d := by
      intro x hx
      cases e : s.portDef x with
      | none => exact absurd (List.any_eq_true.2 ⟨x, hx, by simp [e]⟩) hg
      | some y =>
        by_cases hy : y = d
        · rw [hy]
        · exact absurd (List.any_eq_true.2 ⟨x, hx, by simp [e, hy]⟩) hg
    have hmemL : ∀ x, x ∈ (s.ports d).filter (fun x => decide (x ∈ ps)) ↔ x ∈ ps := by
      intro x
      simp only [List.mem_filter, decide_eq_true_eq]
      constructor
      · exact fun a => a.2
      · exact fun a => ⟨(hi d x).2 (hall x a), a⟩
    have hpin : ∀ q, s.abs.pinIn ((s.ports d).filter (fun x => decide (x ∈ ps))) q = s.pinIn ps q := by
      intro q
      simp only [M.pinIn, S.pinIn, S.abs]
      cases s.pinPort q with
      | none => rfl
      | some p => simp only [hmemL]
    simp only [eventsOf, hok, ne_eq, not_true_eq_false, if_false]
    rw [fold_evRemovePort s h nI d _ s.abs rfl rfl, fold_removePort]
    simp only [step, hg, Bool.false_eq_true, if_false, hpin]
    simp only [S.abs]
    apply M.ext'
    all_goals first
      | rfl
      | (funext i q; grind)
      | (funext x; simp only [hmemL])

end Spydr.IR
