import Spydr.IR.EventsLemmas4
namespace Spydr.IR

/-! `remove_pins_from` -/

theorem evRemovePin_replay (s : S) (m : M) (nI p q : OId) :
    replayAllM m (evRemovePin s nI p q) = replayM m (.removePin p q) := by
  simp only [evRemovePin, replayAllM, List.foldl_cons]
  apply foldl_noops
  intro e he
  cases hd : s.portDef p with
  | none => simp [hd] at he
  | some d =>
    simp only [hd, List.mem_flatMap] at he
    obtain ⟨i, _, he⟩ := he
    obtain ⟨w, rfl⟩ := mem_discOuter s i q e he
    apply replayM_disc_outer_noop
    simp [replayM]

theorem fold_evRemovePin (s : S) (nI p : OId) (L : List OId) (m : M) :
    replayAllM m (L.flatMap (evRemovePin s nI p)) = replayAllM m (L.map (Event.removePin p)) := by
  induction L generalizing m with
  | nil => rfl
  | cons q t ih =>
    simp only [List.flatMap_cons, List.map_cons, replayAllM_append]
    rw [evRemovePin_replay]
    have : replayAllM m (Event.removePin p q :: t.map (Event.removePin p)) =
        replayAllM (replayM m (.removePin p q)) (t.map (Event.removePin p)) := by
      simp [replayAllM]
    rw [this]
    exact ih _

theorem fold_removePin (p : OId) (L : List OId) (m : M) :
    replayAllM m (L.map (Event.removePin p)) =
      { m with pinPort := fun x => if x ∈ L then none else m.pinPort x
               hasOuter := fun i q => m.hasOuter i q && !decide (q ∈ L)
               opWire := fun i q => if q ∈ L then none else m.opWire i q } := by
  induction L generalizing m with
  | nil =>
    simp only [List.map_nil, replayAllM, List.foldl_nil]
    apply M.ext'
    all_goals first
      | rfl
      | (funext i q; simp)
      | (funext x; simp)
  | cons a t ih =>
    have : replayAllM m (List.map (Event.removePin p) (a :: t)) =
        replayAllM (replayM m (.removePin p a)) (t.map (Event.removePin p)) := by
      simp [replayAllM]
    rw [this, ih]
    apply M.ext'
    all_goals first
      | rfl
      | (funext i q; simp only [replayM, List.mem_cons]; grind)
      | (funext x; simp only [replayM, List.mem_cons]; grind)

theorem mirror_removePinsFrom (s : S) (nI p qs) (h : Inv s) (hok : (step s (.removePinsFrom p qs)).2 = .ok) :
    replayAllM s.abs (eventsOf s nI (.removePinsFrom p qs)) = (step s (.removePinsFrom p qs)).1.abs := by
  have hi := h.pins_iff
  by_cases hg : (qs.any fun q => decide (s.pinPort q ≠ some p)) = true
  · simp only [step, hg] at hok; simp at hok
  · have hall : ∀ x ∈ qs, s.pinPort x = some p := by
      intro x hx
      cases e : s.pinPort x with
      | none => exact absurd (List.any_eq_true.2 ⟨x, hx, by simp [e]⟩) hg
      | some y =>
        by_cases hy : y = p
        · rw [hy]
        · exact absurd (List.any_eq_true.2 ⟨x, hx, by simp [e, hy]⟩) hg
    have hmemL : ∀ x, x ∈ (s.pins p).filter (fun x => decide (x ∈ qs)) ↔ x ∈ qs := by
      intro x
      simp only [List.mem_filter, decide_eq_true_eq]
      constructor
      · exact fun a => a.2
      · exact fun a => ⟨(hi p x).2 (hall x a), a⟩
    simp only [eventsOf, hok, ne_eq, not_true_eq_false, if_false]
    rw [fold_evRemovePin, fold_removePin]
    simp only [step, hg, Bool.false_eq_true, if_false]
    simp only [S.abs]
    apply M.ext'
    all_goals first
      | rfl
      | (funext i q; simp only [hmemL, List.mem_filter]; grind)
      | (funext x; simp only [hmemL])

/-! `disconnect_pins_from` -/

theorem fold_evDisconnect (w : OId) (L : List PinRef) (m : M) :
    replayAllM m (L.flatMap (evDisconnect w)) =
      { m with pinWire := fun q => if PinRef.inner q ∈ L then none else m.pinWire q
               opWire := fun i q => if PinRef.outer i q ∈ L then none else m.opWire i q } := by
  induction L generalizing m with
  | nil =>
    simp only [List.flatMap_nil, replayAllM, List.foldl_nil]
    apply M.ext'
    all_goals first
      | rfl
      | (funext i q; simp)
      | (funext x; simp)
  | cons r t ih =>
    simp only [List.flatMap_cons, replayAllM_append, ih]
    cases r with
    | inner q0 =>
      simp only [evDisconnect, replayAllM, List.foldl_cons, List.foldl_nil, replayM]
      apply M.ext'
      all_goals first
        | rfl
        | (funext i q; simp only [List.mem_cons]; grind)
        | (funext x; simp only [List.mem_cons]; grind)
    | outer i0 q0 =>
      simp only [evDisconnect, replayAllM, List.foldl_cons, List.foldl_nil, replayM]
      apply M.ext'
      all_goals first
        | rfl
        | (funext i q; simp only [List.mem_cons]; grind)
        | (funext x; simp only [List.mem_cons]; grind)

theorem mirror_disconnectFrom (s : S) (nI w rs) (h : Inv s) (hok : (step s (.disconnectFrom w rs)).2 = .ok) :
    replayAllM s.abs (eventsOf s nI (.disconnectFrom w rs)) = (step s (.disconnectFrom w rs)).1.abs := by
  have hpw := h.pw_iff
  have how := h.ow_iff
  simp only [eventsOf, hok, ne_eq, not_true_eq_false, if_false]
  rw [fold_evDisconnect]
  simp only [step] at hok ⊢
  split at hok
  · simp at hok
  · rename_i hg
    simp only [hg, Bool.false_eq_true, if_false]
    have hI : ∀ q, PinRef.inner q ∈ rs → s.pinWire q = some w := by
      intro q hr
      cases e : decide (s.pinWire q = some w) with
      | true => simpa using e
      | false =>
        exact absurd (List.any_eq_true.2 ⟨PinRef.inner q, hr, by simpa using e⟩) hg
    have hO : ∀ i q, PinRef.outer i q ∈ rs → s.opWire i q = some w := by
      intro i q hr
      cases e : decide (s.opWire i q = some w) with
      | true => simpa using e
      | false =>
        refine absurd (List.any_eq_true.2 ⟨PinRef.outer i q, hr, ?_⟩) hg
        have : s.opWire i q ≠ some w := by simpa using e
        simp [this]
    have hmemL : ∀ r, r ∈ (s.wirePins w).filter (fun x => decide (x ∈ rs)) ↔ r ∈ rs := by
      intro r
      simp only [List.mem_filter, decide_eq_true_eq]
      constructor
      · exact fun a => a.2
      · intro a
        refine ⟨?_, a⟩
        cases r with
        | inner q => exact (hpw q w).1 (hI q a)
        | outer i q => exact (how i q w).1 (hO i q a)
    simp only [S.abs]
    apply M.ext'
    all_goals first
      | rfl
      | (funext i q; simp only [hmemL])
      | (funext x; simp only [hmemL])

end Spydr.IR
