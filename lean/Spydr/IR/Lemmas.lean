import Spydr.IR.Spec
namespace Spydr.IR

theorem mem_insertAt {α} (l : List α) (x y : α) (pos) : y ∈ insertAt l x pos ↔ y = x ∨ y ∈ l := by
  cases pos with
  | none => simp [insertAt]; grind
  | some k =>
    simp only [insertAt]
    generalize (if k < 0 then ((l.length : Int) + k).toNat else k.toNat) = j
    have e := List.take_append_drop j l
    constructor
    · intro h
      simp only [List.mem_append, List.mem_singleton] at h
      rcases h with (h | h) | h
      · exact Or.inr (List.mem_of_mem_take h)
      · exact Or.inl h
      · exact Or.inr (List.mem_of_mem_drop h)
    · intro h
      simp only [List.mem_append, List.mem_singleton]
      rcases h with h | h
      · exact Or.inl (Or.inr h)
      · rw [← e] at h
        rcases List.mem_append.mp h with h | h
        · exact Or.inl (Or.inl h)
        · exact Or.inr h

theorem nodup_insertAt {α} (l : List α) (x : α) (pos) (h : l.Nodup) (hx : x ∉ l) : (insertAt l x pos).Nodup := by
  cases pos with
  | none => simp [insertAt]; grind [List.nodup_append]
  | some k =>
    simp only [insertAt]
    generalize (if k < 0 then ((l.length : Int) + k).toNat else k.toNat) = j
    have e := List.take_append_drop j l
    rw [← e] at h hx
    grind [List.nodup_append]

theorem nodup_filter {α} (l : List α) (p : α → Bool) (h : l.Nodup) : (l.filter p).Nodup :=
  List.Nodup.sublist List.filter_sublist h

theorem isReorder_iff {α} [DecidableEq α] (l cur : List α) :
    isReorder l cur = true ↔ l.Nodup ∧ ∀ x, x ∈ l ↔ x ∈ cur := by
  simp only [isReorder, Bool.and_eq_true, decide_eq_true_eq, List.all_eq_true]
  constructor
  · rintro ⟨⟨h1, h2⟩, h3⟩
    exact ⟨h1, fun x => ⟨h2 x, h3 x⟩⟩
  · rintro ⟨h1, h2⟩
    exact ⟨⟨h1, fun x hx => (h2 x).1 hx⟩, fun x hx => (h2 x).2 hx⟩

theorem pinIn_some (s : S) (ps : List OId) (q p : OId) (h : s.pinPort q = some p) :
    (s.pinIn ps q = true ↔ p ∈ ps) := by simp [S.pinIn, h]

theorem pinIn_none (s : S) (ps : List OId) (q : OId) (h : s.pinPort q = none) :
    s.pinIn ps q = false := by simp [S.pinIn, h]

end Spydr.IR
