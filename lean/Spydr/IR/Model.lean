/-
  L1 — heap-level model of the spydrnet IR (structural part).

  Objects are natural numbers, one id space per class (a port id and a cable id never meet, exactly as
  a `Port` object is never a `Cable` object).  Every field of every class is a total function from ids;
  an id the harness has not handed out yet is simply an orphan with empty lists, so `create_*` needs
  no allocator: the harness picks the next unused id and the model's `add*` does the rest.

  Transcribed from spydrnet/ir/{netlist,library,definition,port,cable,wire,instance}.py
  (see DESIGN.md Appendix A).  Bulk operations are written in closed form.

  NO Mathlib import in this file (it is linked into the driver executable).
-/
namespace Spydr.IR

abbrev OId := Nat

/-- A pin as it appears in `Wire._pins`: an inner pin, or the outer pin of `(instance, inner pin)`
    (the pair is the identity `OuterPin.__eq__/__hash__` define). -/
inductive PinRef
  | inner (q : OId)
  | outer (i q : OId)
  deriving DecidableEq, Repr, Inhabited

structure S where
  -- containment: ordered child lists and back-pointers
  libs       : OId → List OId          -- netlist  → libraries
  libNl      : OId → Option OId        -- library  → netlist
  defs       : OId → List OId          -- library  → definitions
  defLib     : OId → Option OId
  ports      : OId → List OId          -- definition → ports
  portDef    : OId → Option OId
  cables     : OId → List OId
  cableDef   : OId → Option OId
  children   : OId → List OId
  instParent : OId → Option OId
  pins       : OId → List OId          -- port → inner pins
  pinPort    : OId → Option OId
  wires      : OId → List OId          -- cable → wires
  wireCable  : OId → Option OId
  -- connections
  wirePins   : OId → List PinRef       -- wire → pins (ordered)
  pinWire    : OId → Option OId        -- inner pin → wire
  opWire     : OId → OId → Option OId  -- (instance, inner pin) → wire of the stored outer pin
  -- instances
  instRef    : OId → Option OId
  refs       : OId → OId → Bool        -- definition → instance → member of Definition._references
  instPins   : OId → List OId          -- keys of Instance._pins (inner pins that have an outer pin)
  top        : OId → Option OId        -- netlist → top instance

/-- The empty heap: every object is an orphan. -/
def S.init : S :=
  { libs := fun _ => [], libNl := fun _ => none, defs := fun _ => [], defLib := fun _ => none,
    ports := fun _ => [], portDef := fun _ => none, cables := fun _ => [], cableDef := fun _ => none,
    children := fun _ => [], instParent := fun _ => none, pins := fun _ => [], pinPort := fun _ => none,
    wires := fun _ => [], wireCable := fun _ => none, wirePins := fun _ => [], pinWire := fun _ => none,
    opWire := fun _ _ => none, instRef := fun _ => none, refs := fun _ _ => false,
    instPins := fun _ => [], top := fun _ => none }

/-- Outcome class of a public call: returned, or raised (exception class family only). -/
inductive Res
  | ok
  | assert     -- AssertionError (precondition)
  | value      -- ValueError (a listener — the namespace manager — vetoed)
  deriving DecidableEq, Repr, Inhabited

def Res.isRefused : Res → Bool
  | .ok => false
  | _ => true

/-- `list.insert(pos, x)` / `list.append(x)` with Python's index normalisation. -/
def insertAt {α} (l : List α) (x : α) : Option Int → List α
  | none => l ++ [x]
  | some k =>
    let n : Int := l.length
    let j : Nat := if k < 0 then (n + k).toNat else k.toNat
    l.take j ++ [x] ++ l.drop j

/-- all inner pins of a definition in port order (the order `reference :=` walks them) -/
def S.flat (s : S) (d : OId) : List OId := (s.ports d).flatMap s.pins

/-- shape of a definition as `reference :=` compares it -/
def S.shape (s : S) (d : OId) : List Nat := (s.ports d).map (fun p => (s.pins p).length)

/-- positional partner of inner pin `q` of `d` in `d'` (same port position, same bit position) -/
def S.partner (s : S) (d d' : OId) (q : OId) : Option OId :=
  ((s.flat d).zip (s.flat d')).lookup q

/-- does inner pin `q` belong to one of the ports `ps`? -/
def S.pinIn (s : S) (ps : List OId) (q : OId) : Bool :=
  match s.pinPort q with
  | some p => decide (p ∈ ps)
  | none => false

def PinRef.isOuterOf (i : OId) : PinRef → Bool
  | .inner _ => false
  | .outer i' _ => i' == i

inductive Op
  -- netlist / library containers
  | addLibrary (n l : OId) (pos : Option Int) (veto : Bool)
  | removeLibrary (n l : OId)
  | removeLibrariesFrom (n : OId) (ls : List OId)
  | setLibraries (n : OId) (ls : List OId)
  | addDefinition (l d : OId) (pos : Option Int) (veto : Bool)
  | removeDefinition (l d : OId)
  | removeDefinitionsFrom (l : OId) (ds : List OId)
  | setDefinitions (l : OId) (ds : List OId)
  -- definition containers
  | addPort (d p : OId) (pos : Option Int) (veto : Bool)
  | removePort (d p : OId)
  | removePortsFrom (d : OId) (ps : List OId)
  | setPorts (d : OId) (ps : List OId)
  | addCable (d c : OId) (pos : Option Int) (veto : Bool)
  | removeCable (d c : OId)
  | removeCablesFrom (d : OId) (cs : List OId)
  | setCables (d : OId) (cs : List OId)
  | addChild (d i : OId) (pos : Option Int) (veto : Bool)
  | removeChild (d i : OId)
  | removeChildrenFrom (d : OId) (is : List OId)
  | setChildren (d : OId) (is : List OId)
  | createChild (d i : OId) (ref : Option OId) (veto : Bool)   -- compound: Instance(); reference := ref; add_child
  -- port / cable contents
  | addPin (p q : OId) (pos : Option Int)
  | removePin (p q : OId)
  | removePinsFrom (p : OId) (qs : List OId)
  | setPins (p : OId) (qs : List OId)
  | addWire (c w : OId) (pos : Option Int)
  | removeWire (c w : OId)
  | removeWiresFrom (c : OId) (ws : List OId)
  | setWires (c : OId) (ws : List OId)
  -- connections
  | connectInner (w q : OId) (pos : Option Int)
  | connectOuter (w i q : OId) (pos : Option Int)      -- through the stored outer pin or a proxy for (i,q)
  | disconnect (w : OId) (r : PinRef)
  | disconnectFrom (w : OId) (rs : List PinRef)
  | setWirePins (w : OId) (rs : List PinRef)
  -- instances
  | setRef (i : OId) (d : Option OId)
  | setTop (n : OId) (i : Option OId)
  | setTopDef (n d t : OId)                               -- top_instance := definition, t the fresh wrapper
  deriving Repr, Inhabited

/-- is `l` a duplicate-free rearrangement of `cur`? (the guard of the seven reorder setters) -/
def isReorder {α} [DecidableEq α] (l cur : List α) : Bool :=
  decide (l.Nodup) && l.all (· ∈ cur) && cur.all (· ∈ l)

/-- `reference := some d'` on an instance without reference -/
def S.firstRef (s : S) (i d' : OId) : S :=
  { s with
    instRef := fun i' => if i' = i then some d' else s.instRef i'
    refs := fun d i' => if i' = i then decide (d = d') else s.refs d i'
    instPins := fun i' => if i' = i then s.flat d' else s.instPins i' }

/-- `reference := None` -/
def S.dropRef (s : S) (i : OId) : S :=
  { s with
    instRef := fun i' => if i' = i then none else s.instRef i'
    refs := fun d i' => if i' = i then false else s.refs d i'
    instPins := fun i' => if i' = i then [] else s.instPins i'
    opWire := fun i' q => if i' = i then none else s.opWire i' q
    wirePins := fun w => (s.wirePins w).filter (fun r => !r.isOuterOf i) }

/-- re-point `i` to `d'`, re-keying every outer pin by `f` (old inner pin ↦ new inner pin, `g` its
    inverse); the outer pin keeps its wire and its position on that wire. -/
def S.repointWith (s : S) (i d' : OId) (newPins : List OId) (f g : OId → Option OId) : S :=
  { s with
    instRef := fun i' => if i' = i then some d' else s.instRef i'
    refs := fun e i' => if i' = i then decide (e = d') else s.refs e i'
    instPins := fun i' => if i' = i then newPins else s.instPins i'
    opWire := fun i' q' => if i' = i then (match g q' with
                                            | some q => s.opWire i q
                                            | none => none) else s.opWire i' q'
    wirePins := fun w => (s.wirePins w).map (fun r => match r with
        | .inner q => .inner q
        | .outer i' q => if i' = i then (match f q with
                                          | some q' => .outer i q'
                                          | none => .outer i' q) else .outer i' q) }

/-- re-point `i` from `d` to a shape-compatible `d'`: positional partner (same port position, same bit). -/
def S.repoint (s : S) (i d d' : OId) : S :=
  s.repointWith i d' (s.flat d') (s.partner d d') (s.partner d' d)

def S.setRefStep (s : S) (i : OId) : Option OId → S × Res
  | none => (s.dropRef i, .ok)
  | some d' =>
    match s.instRef i with
    | none => (s.firstRef i d', .ok)
    | some d =>
      if s.shape d ≠ s.shape d' then (s, .assert) else (s.repoint i d d', .ok)

def step (s : S) : Op → S × Res
  ------------------------------------------------------------------ netlist
  | .addLibrary n l pos veto =>
    if s.libNl l ≠ none then (s, .assert) else
    if veto then (s, .value) else
    ({ s with libs := fun n' => if n' = n then insertAt (s.libs n') l pos else s.libs n'
              libNl := fun l' => if l' = l then some n else s.libNl l' }, .ok)
  | .removeLibrary n l =>
    if s.libNl l ≠ some n then (s, .assert) else
    ({ s with libs := fun n' => if n' = n then (s.libs n').filter (· ≠ l) else s.libs n'
              libNl := fun l' => if l' = l then none else s.libNl l' }, .ok)
  | .removeLibrariesFrom n ls =>
    if ls.any (fun l => s.libNl l ≠ some n) then (s, .assert) else
    ({ s with libs := fun n' => if n' = n then (s.libs n').filter (· ∉ ls) else s.libs n'
              libNl := fun l' => if l' ∈ ls then none else s.libNl l' }, .ok)
  | .setLibraries n ls =>
    if isReorder ls (s.libs n) then
      ({ s with libs := fun n' => if n' = n then ls else s.libs n' }, .ok)
    else (s, .assert)
  ------------------------------------------------------------------ library
  | .addDefinition l d pos veto =>
    if s.defLib d ≠ none then (s, .assert) else
    if veto then (s, .value) else
    ({ s with defs := fun l' => if l' = l then insertAt (s.defs l') d pos else s.defs l'
              defLib := fun d' => if d' = d then some l else s.defLib d' }, .ok)
  | .removeDefinition l d =>
    if s.defLib d ≠ some l then (s, .assert) else
    ({ s with defs := fun l' => if l' = l then (s.defs l').filter (· ≠ d) else s.defs l'
              defLib := fun d' => if d' = d then none else s.defLib d' }, .ok)
  | .removeDefinitionsFrom l ds =>
    if ds.any (fun d => s.defLib d ≠ some l) then (s, .assert) else
    ({ s with defs := fun l' => if l' = l then (s.defs l').filter (· ∉ ds) else s.defs l'
              defLib := fun d' => if d' ∈ ds then none else s.defLib d' }, .ok)
  | .setDefinitions l ds =>
    if isReorder ds (s.defs l) then
      ({ s with defs := fun l' => if l' = l then ds else s.defs l' }, .ok)
    else (s, .assert)
  ------------------------------------------------------------------ definition: ports
  | .addPort d p pos veto =>
    if s.portDef p ≠ none then (s, .assert) else
    if veto then (s, .value) else
    ({ s with
        ports := fun d' => if d' = d then insertAt (s.ports d') p pos else s.ports d'
        portDef := fun p' => if p' = p then some d else s.portDef p'
        instPins := fun i => if s.instRef i = some d then s.instPins i ++ s.pins p else s.instPins i }, .ok)
  | .removePort d p =>
    if s.portDef p ≠ some d then (s, .assert) else
    ({ s with
        ports := fun d' => if d' = d then (s.ports d').filter (· ≠ p) else s.ports d'
        portDef := fun p' => if p' = p then none else s.portDef p'
        instPins := fun i => if s.instRef i = some d then (s.instPins i).filter (fun q => s.pinPort q ≠ some p) else s.instPins i
        opWire := fun i q => if s.instRef i = some d ∧ s.pinPort q = some p then none else s.opWire i q
        wirePins := fun w => (s.wirePins w).filter (fun r => match r with
            | .inner _ => true
            | .outer i q => ¬ (s.instRef i = some d ∧ s.pinPort q = some p)) }, .ok)
  | .removePortsFrom d ps =>
    if ps.any (fun p => s.portDef p ≠ some d) then (s, .assert) else
    ({ s with
        ports := fun d' => if d' = d then (s.ports d').filter (· ∉ ps) else s.ports d'
        portDef := fun p' => if p' ∈ ps then none else s.portDef p'
        instPins := fun i => if s.instRef i = some d then (s.instPins i).filter (fun q => !s.pinIn ps q) else s.instPins i
        opWire := fun i q => if s.instRef i = some d ∧ s.pinIn ps q = true then none else s.opWire i q
        wirePins := fun w => (s.wirePins w).filter (fun r => match r with
            | .inner _ => true
            | .outer i q => ¬ (s.instRef i = some d ∧ s.pinIn ps q = true)) }, .ok)
  | .setPorts d ps =>
    if isReorder ps (s.ports d) then
      ({ s with ports := fun d' => if d' = d then ps else s.ports d' }, .ok)
    else (s, .assert)
  ------------------------------------------------------------------ definition: cables
  | .addCable d c pos veto =>
    if s.cableDef c ≠ none then (s, .assert) else
    if veto then (s, .value) else
    ({ s with cables := fun d' => if d' = d then insertAt (s.cables d') c pos else s.cables d'
              cableDef := fun c' => if c' = c then some d else s.cableDef c' }, .ok)
  | .removeCable d c =>
    if s.cableDef c ≠ some d then (s, .assert) else
    ({ s with cables := fun d' => if d' = d then (s.cables d').filter (· ≠ c) else s.cables d'
              cableDef := fun c' => if c' = c then none else s.cableDef c' }, .ok)
  | .removeCablesFrom d cs =>
    if cs.any (fun c => s.cableDef c ≠ some d) then (s, .assert) else
    ({ s with cables := fun d' => if d' = d then (s.cables d').filter (· ∉ cs) else s.cables d'
              cableDef := fun c' => if c' ∈ cs then none else s.cableDef c' }, .ok)
  | .setCables d cs =>
    if isReorder cs (s.cables d) then
      ({ s with cables := fun d' => if d' = d then cs else s.cables d' }, .ok)
    else (s, .assert)
  ------------------------------------------------------------------ definition: children
  | .addChild d i pos veto =>
    if s.instParent i ≠ none then (s, .assert) else
    if veto then (s, .value) else
    ({ s with children := fun d' => if d' = d then insertAt (s.children d') i pos else s.children d'
              instParent := fun i' => if i' = i then some d else s.instParent i' }, .ok)
  | .removeChild d i =>
    if s.instParent i ≠ some d then (s, .assert) else
    ({ s with children := fun d' => if d' = d then (s.children d').filter (· ≠ i) else s.children d'
              instParent := fun i' => if i' = i then none else s.instParent i' }, .ok)
  | .removeChildrenFrom d is =>
    if is.any (fun i => s.instParent i ≠ some d) then (s, .assert) else
    ({ s with children := fun d' => if d' = d then (s.children d').filter (· ∉ is) else s.children d'
              instParent := fun i' => if i' ∈ is then none else s.instParent i' }, .ok)
  | .setChildren d is =>
    if isReorder is (s.children d) then
      ({ s with children := fun d' => if d' = d then is else s.children d' }, .ok)
    else (s, .assert)
  | .createChild d i ref veto =>
    -- `Instance(name, props); instance.reference = ref; add_child(instance)`; `i` is a fresh instance.
    -- (repaired behaviour: a vetoed add leaves nothing behind, in particular not in ref's reference set)
    if s.instParent i ≠ none ∨ s.instRef i ≠ none then (s, .assert) else
    if veto then (s, .value) else
    let s1 := match ref with
      | none => s
      | some r => s.firstRef i r
    ({ s1 with children := fun d' => if d' = d then s1.children d' ++ [i] else s1.children d'
               instParent := fun i' => if i' = i then some d else s1.instParent i' }, .ok)
  ------------------------------------------------------------------ port: pins
  | .addPin p q pos =>
    if s.pinPort q ≠ none then (s, .assert) else
    ({ s with
        pins := fun p' => if p' = p then insertAt (s.pins p') q pos else s.pins p'
        pinPort := fun q' => if q' = q then some p else s.pinPort q'
        instPins := fun i => match s.portDef p with
          | none => s.instPins i
          | some d => if s.instRef i = some d then s.instPins i ++ [q] else s.instPins i }, .ok)
  | .removePin p q =>
    if s.pinPort q ≠ some p then (s, .assert) else
    ({ s with
        pins := fun p' => if p' = p then (s.pins p').filter (· ≠ q) else s.pins p'
        pinPort := fun q' => if q' = q then none else s.pinPort q'
        instPins := fun i => (s.instPins i).filter (· ≠ q)
        opWire := fun i q' => if q' = q then none else s.opWire i q'
        wirePins := fun w => (s.wirePins w).filter (fun r => match r with
            | .inner _ => true
            | .outer _ q' => q' ≠ q) }, .ok)
  | .removePinsFrom p qs =>
    if qs.any (fun q => s.pinPort q ≠ some p) then (s, .assert) else
    ({ s with
        pins := fun p' => if p' = p then (s.pins p').filter (· ∉ qs) else s.pins p'
        pinPort := fun q' => if q' ∈ qs then none else s.pinPort q'
        instPins := fun i => (s.instPins i).filter (· ∉ qs)
        opWire := fun i q' => if q' ∈ qs then none else s.opWire i q'
        wirePins := fun w => (s.wirePins w).filter (fun r => match r with
            | .inner _ => true
            | .outer _ q' => q' ∉ qs) }, .ok)
  | .setPins p qs =>
    if isReorder qs (s.pins p) then
      ({ s with pins := fun p' => if p' = p then qs else s.pins p' }, .ok)
    else (s, .assert)
  ------------------------------------------------------------------ cable: wires
  | .addWire c w pos =>
    if s.wireCable w ≠ none then (s, .assert) else
    ({ s with wires := fun c' => if c' = c then insertAt (s.wires c') w pos else s.wires c'
              wireCable := fun w' => if w' = w then some c else s.wireCable w' }, .ok)
  | .removeWire c w =>
    if s.wireCable w ≠ some c then (s, .assert) else
    ({ s with wires := fun c' => if c' = c then (s.wires c').filter (· ≠ w) else s.wires c'
              wireCable := fun w' => if w' = w then none else s.wireCable w' }, .ok)
  | .removeWiresFrom c ws =>
    if ws.any (fun w => s.wireCable w ≠ some c) then (s, .assert) else
    ({ s with wires := fun c' => if c' = c then (s.wires c').filter (· ∉ ws) else s.wires c'
              wireCable := fun w' => if w' ∈ ws then none else s.wireCable w' }, .ok)
  | .setWires c ws =>
    if isReorder ws (s.wires c) then
      ({ s with wires := fun c' => if c' = c then ws else s.wires c' }, .ok)
    else (s, .assert)
  ------------------------------------------------------------------ wire: connections
  | .connectInner w q pos =>
    if s.pinWire q ≠ none then (s, .assert) else
    ({ s with
        pinWire := fun q' => if q' = q then some w else s.pinWire q'
        wirePins := fun w' => if w' = w then insertAt (s.wirePins w') (.inner q) pos else s.wirePins w' }, .ok)
  | .connectOuter w i q pos =>
    if q ∉ s.instPins i then (s, .assert) else
    if s.opWire i q ≠ none then (s, .assert) else
    ({ s with
        opWire := fun i' q' => if i' = i ∧ q' = q then some w else s.opWire i' q'
        wirePins := fun w' => if w' = w then insertAt (s.wirePins w') (.outer i q) pos else s.wirePins w' }, .ok)
  | .disconnect w r =>
    match r with
    | .inner q =>
      if s.pinWire q ≠ some w then (s, .assert) else
      ({ s with pinWire := fun q' => if q' = q then none else s.pinWire q'
                wirePins := fun w' => if w' = w then (s.wirePins w').erase (.inner q) else s.wirePins w' }, .ok)
    | .outer i q =>
      if q ∉ s.instPins i then (s, .assert) else
      if s.opWire i q ≠ some w then (s, .assert) else
      ({ s with opWire := fun i' q' => if i' = i ∧ q' = q then none else s.opWire i' q'
                wirePins := fun w' => if w' = w then (s.wirePins w').erase (.outer i q) else s.wirePins w' }, .ok)
  | .disconnectFrom w rs =>
    if rs.any (fun r => match r with
        | .inner q => s.pinWire q ≠ some w
        | .outer i q => q ∉ s.instPins i ∨ s.opWire i q ≠ some w) then (s, .assert) else
    ({ s with
        pinWire := fun q => if PinRef.inner q ∈ rs then none else s.pinWire q
        opWire := fun i q => if PinRef.outer i q ∈ rs then none else s.opWire i q
        wirePins := fun w' => if w' = w then (s.wirePins w').filter (· ∉ rs) else s.wirePins w' }, .ok)
  | .setWirePins w rs =>
    if isReorder rs (s.wirePins w) then
      ({ s with wirePins := fun w' => if w' = w then rs else s.wirePins w' }, .ok)
    else (s, .assert)
  ------------------------------------------------------------------ instances
  | .setRef i d => s.setRefStep i d
  | .setTop n i => ({ s with top := fun n' => if n' = n then i else s.top n' }, .ok)
  | .setTopDef n d t =>
    if s.instRef t ≠ none then (s, .assert) else
    let s1 := s.firstRef t d
    ({ s1 with top := fun n' => if n' = n then some t else s1.top n' }, .ok)

/-- run a history; the list of outcomes is returned oldest first -/
def run (s : S) : List Op → S × List Res
  | [] => (s, [])
  | op :: ops =>
    let (s1, r) := step s op
    let (s2, rs) := run s1 ops
    (s2, r :: rs)

end Spydr.IR
