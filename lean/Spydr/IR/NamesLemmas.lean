import Spydr.IR.NamesSpec
namespace Spydr.Names

theorem nodup_filter' {α} (l : List α) (p : α → Bool) (h : l.Nodup) : (l.filter p).Nodup :=
  List.Nodup.sublist List.filter_sublist h

theorem init_nsinv : NsInv N.init := by
  constructor <;> simp [N.init]

/-- sibling names are unique per class under a managed parent -/
theorem names_unique' {s : N} (h : NsInv s) (p : El) (hp : s.hasTbl p = true) :
    ∀ e e' x, s.parent e = some p → s.parent e' = some p → e.kind = e'.kind →
      (s.info e).name = some x → (s.info e').name = some x → e = e' := by
  intro e e' x he he' hk hx hx'
  have a := (h.names_iff p hp e.kind x e).2 ⟨he, rfl, hx⟩
  have b := (h.names_iff p hp e.kind x e').2 ⟨he', hk.symm, hx'⟩
  rw [a] at b; exact Option.some.inj b

theorem idents_unique' {s : N} (h : NsInv s) (p : El) (hp : s.hasTbl p = true) (he : s.tpol p = .edif) :
    ∀ e e' y, s.parent e = some p → s.parent e' = some p → e.kind = e'.kind →
      ((s.info e).ident).map lower = some y → ((s.info e').ident).map lower = some y → e = e' := by
  intro e e' y hpe hpe' hk hx hx'
  have a := (h.idents_iff p hp he e.kind y e).2 ⟨hpe, rfl, hx⟩
  have b := (h.idents_iff p hp he e.kind y e').2 ⟨hpe', hk.symm, hx'⟩
  rw [a] at b; exact Option.some.inj b

macro "ns_tac" : tactic => `(tactic| (constructor <;> grind [List.nodup_append, nodup_filter', Rec.get, Rec.set]))


theorem setDefault_nsinv (s : N) (p) (h : NsInv s) : NsInv (stepCore s (.setDefault p)).1 := by
  obtain ⟨h1,h2,h3,h4,h5⟩ := h
  simp only [stepCore]
  exact ⟨h1,h2,h3,h4,h5⟩

theorem detach_nsinv (s : N) (p c) (h : NsInv s) : NsInv (stepCore s (.detach p c)).1 := by
  have U3 := names_unique' h
  have U4 := idents_unique' h
  obtain ⟨h1,h2,h3,h4,h5⟩ := h
  simp only [stepCore, N.tblRemove]
  split
  · exact ⟨h1,h2,h3,h4,h5⟩
  · ns_tac

theorem removeKey_nsinv (s : N) (e k) (h : NsInv s) : NsInv (s.removeKey e k) := by
  have U3 := names_unique' h
  have U4 := idents_unique' h
  obtain ⟨h1,h2,h3,h4,h5⟩ := h
  simp only [N.removeKey, N.tblRemove]
  cases hp : s.parent e with
  | none => simp only []; cases k <;> ns_tac
  | some p => simp only []; cases k <;> ns_tac

theorem delKey_nsinv (s : N) (e k) (h : NsInv s) : NsInv (stepCore s (.delKey e k)).1 := by
  simp only [stepCore]; split
  · exact h
  · exact removeKey_nsinv s e k h

theorem popKey_nsinv (s : N) (e k) (h : NsInv s) : NsInv (stepCore s (.popKey e k)).1 := by
  simp only [stepCore]; split
  · exact h
  · exact removeKey_nsinv s e k h

theorem delNameProp_nsinv (s : N) (e) (h : NsInv s) : NsInv (stepCore s (.delNameProp e)).1 := by
  simp only [stepCore]; split
  · exact h
  · exact removeKey_nsinv s e .name h

end Spydr.Names
