import Spydr.IR.NamesLemmas
namespace Spydr.Names

macro "ns_tac2" : tactic => `(tactic| (constructor <;> grind [List.nodup_append, nodup_filter']))

set_option maxHeartbeats 1000000 in
theorem setKey_name_nsinv (s : N) (e v) (h : NsInv s) : NsInv (stepCore s (.setKey e .name v)).1 := by
  have U3 := names_unique' h
  obtain ⟨h1,h2,h3,h4,h5⟩ := h
  simp only [stepCore, N.nameOk, N.tblUpdate, N.noConflict, Rec.get, Rec.set, validName, reduceCtorEq, false_and, and_false, if_false, true_and, if_true]
  repeat' split
  all_goals first
    | exact ⟨h1,h2,h3,h4,h5⟩
    | ns_tac2

set_option maxHeartbeats 1000000 in
theorem setKey_ident_nsinv (s : N) (e v) (h : NsInv s) : NsInv (stepCore s (.setKey e .ident v)).1 := by
  have U4 := idents_unique' h
  obtain ⟨h1,h2,h3,h4,h5⟩ := h
  simp only [stepCore, N.nameOk, N.tblUpdate, N.noConflict, Rec.get, Rec.set, reduceCtorEq, false_and, and_false, if_false, true_and, and_true]
  repeat' split
  all_goals first
    | exact ⟨h1,h2,h3,h4,h5⟩
    | ns_tac2

theorem setKey_nsinv (s : N) (e k v) (h : NsInv s) : NsInv (stepCore s (.setKey e k v)).1 := by
  cases k
  · exact setKey_name_nsinv s e v h
  · exact setKey_ident_nsinv s e v h

theorem create_nsinv (s : N) (e) (h : NsInv s) : NsInv (stepCore s (.create e)).1 := by
  obtain ⟨h1,h2,h3,h4,h5⟩ := h
  simp only [stepCore]
  split
  · exact ⟨h1,h2,h3,h4,h5⟩
  · rename_i hg
    have hk : ∀ c, s.parent c ≠ some e := by
      intro c hc
      have := (h1 e c).2 hc
      simp_all
    ns_tac2

set_option maxHeartbeats 2000000 in
/-- registering an orphan whose keys do not conflict with the parent's table keeps the invariant -/
theorem register_nsinv (s : N) (p c : El) (h : NsInv s) (hc : s.parent c = none)
    (hnc : s.conflicts p c = false) (hv : validParent p.kind c.kind = true) : NsInv (s.register p c) := by
  have U3 := names_unique' h
  have U4 := idents_unique' h
  obtain ⟨h1,h2,h3,h4,h5⟩ := h
  simp only [N.conflicts, N.noConflict, reduceCtorEq, if_false, if_true] at hnc
  simp only [N.register, N.tblUpdate, reduceCtorEq, false_and, and_false, if_false, true_and]
  cases hi : (s.info c).ident <;> cases hn : (s.info c).name <;> simp only [hi, hn] at hnc ⊢ <;> ns_tac2

/-- attach when the child already carries the parent's policy (no `.NS` adoption needed) -/
theorem attach_same_policy_nsinv (s : N) (p c : El) (pp : Policy) (h : NsInv s)
    (hp : (s.info p).ns = some pp) (hc : (s.info c).ns = some pp) :
    NsInv (stepCore s (.attach p c)).1 := by
  simp only [stepCore]
  split
  · exact h
  · split
    · exact h
    · split
      · exact h
      · rename_i hv hpar hconf
        have e1 : s.setNsCore c pp = (s, .ok) := by simp [N.setNsCore, hc]
        simp only [hp, e1, ne_eq, not_true_eq_false, if_false]
        exact register_nsinv s p c h (by simpa using hpar) (by simpa using hconf) (by simpa using hv)

end Spydr.Names
