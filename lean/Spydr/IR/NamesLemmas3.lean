import Spydr.IR.NamesLemmas2
namespace Spydr.Names

theorem dropNs_nsinv (s : N) (e : El) (h : NsInv s) : NsInv (s.dropNs e) := by
  obtain ⟨h1,h2,h3,h4,h5⟩ := h
  simp only [N.dropNs]
  ns_tac2

theorem find?_unique {l : List El} {q : El → Bool} {e : El} (hmem : e ∈ l) (hq : q e = true)
    (huniq : ∀ a ∈ l, q a = true → a = e) : l.find? q = some e := by
  induction l with
  | nil => simp at hmem
  | cons a t ih =>
    simp only [List.find?_cons]
    cases ha : q a with
    | true =>
      have := huniq a (by simp) ha
      simp [this]
    | false =>
      simp only []
      have hne : e ≠ a := by intro e1; subst e1; simp [hq] at ha
      have : e ∈ t := by
        rcases List.mem_cons.1 hmem with h | h
        · exact absurd h hne
        · exact h
      exact ih this (fun b hb hqb => huniq b (by simp [hb]) hqb)

/-- what `noDupBy` says -/
theorem noDupBy_spec (perKind : Bool) (l : List El) (f : El → Option String) (h : noDupBy perKind l f = true)
    (hnd : l.Nodup) :
    ∀ a ∈ l, ∀ b ∈ l, (perKind = true → a.kind = b.kind) → f a = f b → f a ≠ none → a = b := by
  induction l with
  | nil => intro a ha; simp at ha
  | cons x t ih =>
    simp only [noDupBy, Bool.and_eq_true] at h
    obtain ⟨hx, ht⟩ := h
    have ih' := ih ht (List.nodup_cons.1 hnd).2
    have key : ∀ b ∈ t, (perKind = true → x.kind = b.kind) → f x = f b → f x ≠ none → x = b := by
      intro b hb hk hf hne
      cases hfx : f x with
      | none => exact absurd hfx hne
      | some v =>
        simp only [hfx, List.all_eq_true] at hx
        have := hx b hb
        rw [← hf, hfx] at this
        cases perKind with
        | false => simp at this
        | true =>
          have hk' := hk rfl
          simp [hk'] at this
    intro a ha b hb hk hf hne
    rcases List.mem_cons.1 ha with rfl | ha' <;> rcases List.mem_cons.1 hb with rfl | hb'
    · rfl
    · exact key b hb' hk hf hne
    · exact (key a ha' (fun h => (hk h).symm) hf.symm (by rw [← hf]; exact hne)).symm
    · exact ih' a ha' b hb' hk hf hne

end Spydr.Names
