import Spydr.IR.NamesLemmas3
namespace Spydr.Names

/-- `apply_namespace` on a compliant subtree rebuilds a correct index -/
theorem applyNs_nsinv (s : N) (pol : Policy) (e : El) (h : NsInv s) (hc : s.compliant pol e = true) :
    NsInv (s.applyNs pol e) := by
  have hall : ∀ x ∈ s.subtree e, s.compliantAt pol x = true := by
    simpa [N.compliant, List.all_eq_true] using hc
  constructor
  · exact h.kids_iff
  · exact h.kids_nd
  · -- names
    intro p hp kd x c
    simp only [N.applyNs] at hp ⊢
    by_cases hm : p ∈ s.subtree e
    · simp only [hm, if_true]
      have hca := hall p hm
      simp only [N.compliantAt, Bool.and_eq_true] at hca
      have hnd := noDupBy_spec true (s.kids p) (fun c => (s.info c).name) hca.1.2 (h.kids_nd p)
      have hinfo : ∀ y, (if y ∈ s.subtree e then { s.info y with ns := some pol } else s.info y).name = (s.info y).name := by
        intro y; split <;> rfl
      rw [hinfo]
      constructor
      · intro hf
        have hmem := List.mem_of_find?_eq_some hf
        have hq := List.find?_some hf
        simp only [Bool.and_eq_true, decide_eq_true_eq, beq_iff_eq] at hq
        exact ⟨(h.kids_iff p c).1 hmem, hq.1, hq.2⟩
      · rintro ⟨hpar, hk, hn⟩
        apply find?_unique ((h.kids_iff p c).2 hpar) (by simp [hk, hn])
        intro a ha hq
        simp only [Bool.and_eq_true, decide_eq_true_eq, beq_iff_eq] at hq
        exact hnd a ha c ((h.kids_iff p c).2 hpar) (fun _ => by rw [hq.1, hk]) (by simp [hq.2, hn]) (by simp [hq.2])
    · simp only [hm, if_false] at hp ⊢
      have hinfo : ∀ y, (if y ∈ s.subtree e then { s.info y with ns := some pol } else s.info y).name = (s.info y).name := by
        intro y; split <;> rfl
      rw [hinfo]
      exact h.names_iff p hp kd x c
  · -- idents
    intro p hp hpol kd y c
    simp only [N.applyNs] at hp hpol ⊢
    have hinfo : ∀ z, (if z ∈ s.subtree e then { s.info z with ns := some pol } else s.info z).ident = (s.info z).ident := by
      intro z; split <;> rfl
    by_cases hm : p ∈ s.subtree e
    · simp only [hm, if_true] at hpol ⊢
      subst hpol
      have hca := hall p hm
      simp only [N.compliantAt, Bool.and_eq_true] at hca
      have hnd := noDupBy_spec true (s.kids p) (fun c => ((s.info c).ident).map lower) hca.2 (h.kids_nd p)
      rw [hinfo]
      simp only []
      constructor
      · intro hf
        have hmem := List.mem_of_find?_eq_some hf
        have hq := List.find?_some hf
        simp only [Bool.and_eq_true, decide_eq_true_eq, beq_iff_eq] at hq
        exact ⟨(h.kids_iff p c).1 hmem, hq.1, hq.2⟩
      · rintro ⟨hpar, hk, hn⟩
        apply find?_unique ((h.kids_iff p c).2 hpar) (by simp [hk, hn])
        intro a ha hq
        simp only [Bool.and_eq_true, decide_eq_true_eq, beq_iff_eq] at hq
        exact hnd a ha c ((h.kids_iff p c).2 hpar) (fun _ => by rw [hq.1, hk]) (by rw [hq.2, hn]) (by simp [hq.2])
    · simp only [hm, if_false] at hp hpol ⊢
      rw [hinfo]
      exact h.idents_iff p hp hpol kd y c
  · exact h.parent_kind

def rank : Kind → Nat
  | .netlist => 3 | .library => 2 | .definition => 1 | _ => 0

theorem rank_of_validParent {pk ck : Kind} (h : validParent pk ck = true) : rank pk = rank ck + 1 := by
  cases pk <;> cases ck <;> simp_all [validParent, rank]

/-- every element of the subtree of `c` has a class at most as high as `c`'s -/
theorem rank_le_of_mem_subtree (s : N) (h : NsInv s) (c x : El) (hx : x ∈ s.subtree c) : rank x.kind ≤ rank c.kind := by
  have kid : ∀ a b, b ∈ s.kids a → rank a.kind = rank b.kind + 1 :=
    fun a b hb => rank_of_validParent (h.parent_kind b a ((h.kids_iff a b).1 hb))
  have r3 : rank Kind.netlist = 3 := rfl
  have r2 : rank Kind.library = 2 := rfl
  have r1 : rank Kind.definition = 1 := rfl
  simp only [N.subtree] at hx
  cases hk : c.kind with
  | netlist =>
    rw [r3]
    cases x.kind <;> simp [rank]
  | library =>
    simp only [hk, List.mem_cons, List.mem_flatMap] at hx
    rw [r2]
    rcases hx with rfl | ⟨d, hd, rfl | hxd⟩
    · rw [hk, r2]; exact Nat.le_refl _
    · have := kid c x hd; rw [hk, r2] at this; omega
    · have h1 := kid c d hd; have h2 := kid d x hxd; rw [hk, r2] at h1; omega
  | definition =>
    simp only [hk, List.mem_cons] at hx
    rw [r1]
    rcases hx with rfl | hxd
    · rw [hk, r1]; exact Nat.le_refl _
    · have := kid c x hxd; rw [hk, r1] at this; omega
  | port => simp only [hk, List.mem_singleton] at hx; subst hx; rw [hk]; exact Nat.le_refl _
  | cable => simp only [hk, List.mem_singleton] at hx; subst hx; rw [hk]; exact Nat.le_refl _
  | «instance» => simp only [hk, List.mem_singleton] at hx; subst hx; rw [hk]; exact Nat.le_refl _

theorem parent_not_in_subtree (s : N) (h : NsInv s) (p c : El) (hv : validParent p.kind c.kind = true) :
    p ∉ s.subtree c := by
  intro hm
  have := rank_le_of_mem_subtree s h c p hm
  have := rank_of_validParent hv
  omega

end Spydr.Names
