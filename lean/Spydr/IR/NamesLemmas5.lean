import Spydr.IR.NamesLemmas4
namespace Spydr.Names

theorem applyNs_conflicts (s : N) (pol : Policy) (e p c : El) (hp : p ∉ s.subtree e) :
    (s.applyNs pol e).conflicts p c = s.conflicts p c := by
  simp only [N.conflicts, N.noConflict, N.applyNs, hp, if_false]
  have hi : (if c ∈ s.subtree e then { s.info c with ns := some pol } else s.info c).ident = (s.info c).ident := by
    split <;> rfl
  have hn : (if c ∈ s.subtree e then { s.info c with ns := some pol } else s.info c).name = (s.info c).name := by
    split <;> rfl
  rw [hi, hn]

theorem dropNs_conflicts (s : N) (e p c : El) (hp : p ∉ s.subtree e) :
    (s.dropNs e).conflicts p c = s.conflicts p c := by
  simp only [N.conflicts, N.noConflict, N.dropNs, hp, if_false]
  have hi : (if c ∈ s.subtree e then { s.info c with ns := none } else s.info c).ident = (s.info c).ident := by
    split <;> rfl
  have hn : (if c ∈ s.subtree e then { s.info c with ns := none } else s.info c).name = (s.info c).name := by
    split <;> rfl
  rw [hi, hn]

theorem setNsCore_nsinv (s : N) (e : El) (pol : Policy) (h : NsInv s) : NsInv (s.setNsCore e pol).1 := by
  simp only [N.setNsCore]
  split
  · exact h
  · split
    · exact h
    · rename_i hc
      exact applyNs_nsinv s pol e h (by simpa using hc)

theorem setNsCore_parent (s : N) (e : El) (pol : Policy) : (s.setNsCore e pol).1.parent = s.parent := by
  simp only [N.setNsCore]; repeat' split
  all_goals rfl

theorem setNsCore_conflicts (s : N) (e p c : El) (pol : Policy) (hp : p ∉ s.subtree e) :
    (s.setNsCore e pol).1.conflicts p c = s.conflicts p c := by
  simp only [N.setNsCore]; repeat' split
  · rfl
  · rfl
  · exact applyNs_conflicts s pol e p c hp

/-- **`add(parent, child)` in general**, including the adoption of the parent's policy by the child's
    whole subtree (`apply_namespace`) or the loss of the child's policy (`drop_namespace`). -/
theorem attach_nsinv (s : N) (p c : El) (h : NsInv s) : NsInv (stepCore s (.attach p c)).1 := by
  simp only [stepCore]
  split
  · exact h
  · split
    · exact h
    · split
      · exact h
      · rename_i hv hpar hconf
        have hv' : validParent p.kind c.kind = true := by simpa using hv
        have hpar' : s.parent c = none := by simpa using hpar
        have hconf' : s.conflicts p c = false := by simpa using hconf
        have hnot := parent_not_in_subtree s h p c hv'
        cases hpn : (s.info p).ns with
        | some pp =>
          simp only []
          split
          · exact h
          · apply register_nsinv _ p c (setNsCore_nsinv s c pp h)
            · rw [setNsCore_parent]; exact hpar'
            · rw [setNsCore_conflicts s c p c pp hnot]; exact hconf'
            · exact hv'
        | none =>
          simp only []
          split
          · simp only [ne_eq, not_true_eq_false, if_false]
            apply register_nsinv _ p c (dropNs_nsinv s c h)
            · simpa [N.dropNs] using hpar'
            · rw [dropNs_conflicts s c p c hnot]; exact hconf'
            · exact hv'
          · simp only [ne_eq, not_true_eq_false, if_false]
            exact register_nsinv s p c h hpar' hconf' hv'

theorem setNs_nsinv (s : N) (e pol) (h : NsInv s) : NsInv (stepCore s (.setNs e pol)).1 := by
  simp only [stepCore]
  split
  · exact h
  · split
    · exact h
    · exact setNsCore_nsinv s e pol h

theorem delNs_nsinv (s : N) (e) (h : NsInv s) : NsInv (stepCore s (.delNs e)).1 := by
  simp only [stepCore]
  split
  · exact h
  · split
    · exact h
    · exact dropNs_nsinv s e h

end Spydr.Names
