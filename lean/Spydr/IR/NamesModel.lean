/-
  L1 — naming layer: element names / EDIF identifiers / `.NS` policy and the NamespaceManager's
  per-parent tables (spydrnet/plugins/namespace_manager/{__init__,default_namespace,edif_namespace}.py,
  spydrnet/ir/first_class_element.py, spydrnet/global_state/global_service.py).

  The manager only ever sees `add(parent, child)`, `remove(child, parent)`, the dictionary callbacks and
  the `create_*` callbacks, so containment is modelled here as a plain parent/children relation.
  NO Mathlib import (linked into the driver).
-/
namespace Spydr.Names

inductive Kind
  | netlist | library | definition | port | cable | instance
  deriving DecidableEq, Repr, Inhabited

/-- an element: its class and its label -/
structure El where
  kind : Kind
  id   : Nat
  deriving DecidableEq, Repr, Inhabited

inductive Policy
  | default | edif
  deriving DecidableEq, Repr, Inhabited

inductive Key
  | name | ident
  deriving DecidableEq, Repr, Inhabited

structure Rec where
  name  : Option String
  ident : Option String
  ns    : Option Policy
  deriving DecidableEq, Repr, Inhabited

def Rec.get (r : Rec) : Key → Option String
  | .name => r.name
  | .ident => r.ident

def Rec.set (r : Rec) (k : Key) (v : Option String) : Rec :=
  match k with
  | .name => { r with name := v }
  | .ident => { r with ident := v }

/-- The state. The namespace object (`DefaultNamespace` / `EdifNamespace` instance) the manager holds
    for a parent is spread over four function-valued fields: `hasTbl p` (parent ∈ manager.namespaces),
    `tpol p` (its class), `names p` and `idents p` (its two dictionaries, per element class; identifier
    keys lower-cased, only maintained by the EDIF class). -/
structure N where
  dflt   : Policy
  info   : El → Rec
  parent : El → Option El
  kids   : El → List El
  hasTbl : El → Bool
  tpol   : El → Policy
  names  : El → Kind → String → Option El
  idents : El → Kind → String → Option El

/-- which class may contain which -/
def validParent : Kind → Kind → Bool
  | .netlist, .library => true
  | .library, .definition => true
  | .definition, .port => true
  | .definition, .cable => true
  | .definition, .instance => true
  | _, _ => false

def isContainer : Kind → Bool
  | .netlist | .library | .definition => true
  | _ => false

/-- every object is an orphan created under the DEFAULT policy -/
def N.init : N :=
  { dflt := .default
    info := fun _ => { name := none, ident := none, ns := some .default }
    parent := fun _ => none
    kids := fun _ => []
    hasTbl := fun e => isContainer e.kind
    tpol := fun _ => .default
    names := fun _ _ _ => none
    idents := fun _ _ _ => none }

/-- ASCII lower-casing (`str.lower()` on the ASCII alphabet the properties quantify over) -/
def lower (s : String) : String := String.ofList (s.toList.map Char.toLower)

def isAlnumU (c : Char) : Bool := c.isAlphanum || c == '_'

/-- `EdifNamespace._check_EDIF_identifier` -/
def checkIdent (s : String) : Bool :=
  match s.toList with
  | [] => false
  | '&' :: rest => decide (2 ≤ s.length ∧ s.length ≤ 256) && !rest.isEmpty && rest.all isAlnumU
  | c :: rest => decide (s.length ≤ 255) && c.isAlpha && rest.all isAlnumU

def validName (p : Policy) (k : Key) (v : String) : Bool :=
  match p, k with
  | .edif, .ident => checkIdent v
  | _, _ => true

inductive Res
  | ok | assert | value | key
  deriving DecidableEq, Repr, Inhabited

/-- `namespace.no_conflict(element, key, value)` on the table of parent `p` -/
def N.noConflict (s : N) (p e : El) (k : Key) (v : String) : Bool :=
  if k = .name then
    (match s.names p e.kind v with
      | some e' => decide (e' = e)
      | none => true)
  else if s.tpol p = .edif then
    (match s.idents p e.kind (lower v) with
      | some e' => decide (e' = e)
      | none => true)
  else true

/-- `namespace.update(element, key, value)` on the table of parent `p` (no-op when `p` has none);
    `old` is the element's current value under the key. The entry under the old value is deleted
    (whoever it maps to), then `value ↦ element` is stored; the DEFAULT class ignores identifiers. -/
def N.tblUpdate (s : N) (p e : El) (k : Key) (old : Option String) (v : String) : N :=
  { s with
    names := fun p' kd x =>
      if p' = p ∧ s.hasTbl p = true ∧ k = .name ∧ kd = e.kind then
        (if x = v then some e else if some x = old then none else s.names p' kd x)
      else s.names p' kd x
    idents := fun p' kd x =>
      if p' = p ∧ s.hasTbl p = true ∧ k = .ident ∧ s.tpol p = .edif ∧ kd = e.kind then
        (if x = lower v then some e else if some x = old.map lower then none else s.idents p' kd x)
      else s.idents p' kd x }

/-- `namespace.remove(element, key)` on the table of parent `p`
    (EDIF identifiers: by lower-cased key — repaired behaviour) -/
def N.tblRemove (s : N) (p e : El) (k : Key) (old : Option String) : N :=
  { s with
    names := fun p' kd x =>
      if p' = p ∧ s.hasTbl p = true ∧ k = .name ∧ kd = e.kind ∧ some x = old then none else s.names p' kd x
    idents := fun p' kd x =>
      if p' = p ∧ s.hasTbl p = true ∧ k = .ident ∧ s.tpol p = .edif ∧ kd = e.kind ∧ some x = old.map lower then none
      else s.idents p' kd x }

/-- values pairwise distinct among children (`no_name_conflicts`): per class when `perKind` (names and —
    repaired behaviour — EDIF identifiers; the pinned code kept one identifier set across ports, cables and
    instances), else across all classes -/
def noDupBy (perKind : Bool) (l : List El) (f : El → Option String) : Bool :=
  match l with
  | [] => true
  | e :: t => (match f e with
      | none => true
      | some v => t.all (fun e' => !((!perKind || e'.kind = e.kind) && f e' == some v))) && noDupBy perKind t f

/-- `target_namespace.is_compliant(element)` for one element -/
def N.compliantAt (s : N) (p : Policy) (e : El) : Bool :=
  (match p, (s.info e).ident with
    | .edif, some v => checkIdent v
    | _, _ => true) &&
  noDupBy true (s.kids e) (fun c => (s.info c).name) &&
  (match p with
    | .default => true
    | .edif => noDupBy true (s.kids e) (fun c => ((s.info c).ident).map lower))

/-- elements of the subtree rooted at `e` (fixed depth: netlist > library > definition > leaf) -/
def N.subtree (s : N) (e : El) : List El :=
  match e.kind with
  | .netlist => e :: (s.kids e).flatMap (fun l => l :: (s.kids l).flatMap (fun d => d :: s.kids d))
  | .library => e :: (s.kids e).flatMap (fun d => d :: s.kids d)
  | .definition => e :: s.kids e
  | _ => [e]

/-- `NamespaceManager.is_compliant(target_namespace, element)` -/
def N.compliant (s : N) (p : Policy) (e : El) : Bool := (s.subtree e).all (s.compliantAt p)

/-- `apply_namespace(value, target_namespace, element)`: every element of the subtree gets the policy;
    every container in it gets a fresh table of the target class indexed from its current children. -/
def N.applyNs (s : N) (p : Policy) (e : El) : N :=
  let sub := s.subtree e
  { s with
    info := fun x => if x ∈ sub then { s.info x with ns := some p } else s.info x
    hasTbl := fun x => if x ∈ sub then isContainer x.kind else s.hasTbl x
    tpol := fun x => if x ∈ sub then p else s.tpol x
    names := fun x kd v => if x ∈ sub then
        (s.kids x).find? (fun c => c.kind = kd && (s.info c).name == some v)
      else s.names x kd v
    idents := fun x kd v => if x ∈ sub then
        (match p with
          | .default => none
          | .edif => (s.kids x).find? (fun c => c.kind = kd && ((s.info c).ident).map lower == some v))
      else s.idents x kd v }

/-- `drop_namespace(element)` followed by the deletion of the element's own `.NS` -/
def N.dropNs (s : N) (e : El) : N :=
  let sub := s.subtree e
  { s with
    info := fun x => if x ∈ sub then { s.info x with ns := none } else s.info x
    hasTbl := fun x => if x ∈ sub then false else s.hasTbl x
    names := fun x kd v => if x ∈ sub then none else s.names x kd v
    idents := fun x kd v => if x ∈ sub then none else s.idents x kd v }

inductive Op
  | create (e : El)                          -- constructor callback: `.NS := default`
  | attach (p c : El)                        -- add_library / add_definition / add_port / add_cable / add_child
  | detach (p c : El)                        -- remove_*
  | setKey (e : El) (k : Key) (v : String)   -- e.name = v / e["EDIF.identifier"] = v
  | delKey (e : El) (k : Key)                -- del e[key]       (KeyError when absent)
  | popKey (e : El) (k : Key)                -- e.pop(key)       (KeyError when absent)
  | delNameProp (e : El)                     -- del e.name / e.name = None   (no-op when absent)
  | setNs (e : El) (p : Policy)              -- e[".NS"] = policy
  | delNs (e : El)                           -- del e[".NS"]
  | setDefault (p : Policy)                  -- NamespaceManager.default = policy
  | createIn (p c : El) (name ident : Option String)
      -- compound constructor `parent.create_X(name, properties={"EDIF.identifier": ident})`:
      -- construct, name, set the identifier, add; `c` is the fresh object
  | clone (e : El) (off : Nat)
      -- `e.clone()`: the copy of every element `x` of the subtree is the fresh object `x + off`; the copy
      -- carries the same name / identifier / `.NS`, the root copy is an orphan, and (repaired behaviour)
      -- the manager indexes the copies exactly as if they had been built through the public calls
  deriving Repr, Inhabited

/-- explicit or implicit `.NS` assignment on an element without parent check (used by attach) -/
def N.setNsCore (s : N) (e : El) (p : Policy) : N × Res :=
  if (s.info e).ns = some p then (s, .ok) else
  if !s.compliant p e then (s, .value) else
  (s.applyNs p e, .ok)

def N.removeKey (s : N) (e : El) (k : Key) : N :=
  let s1 := match s.parent e with
    | none => s
    | some p => s.tblRemove p e k ((s.info e).get k)
  { s1 with info := fun x => if x = e then (s1.info x).set k none else s1.info x }

/-- `target_policy.is_name_valid(key, value)` under the element's own `.NS` (if it has one) -/
def N.nameOk (s : N) (e : El) (k : Key) (v : String) : Bool :=
  match (s.info e).ns with
  | some p => validName p k v
  | none => true

/-- does the table of `p` (if it has one) object to `c`'s identifier or name? -/
def N.conflicts (s : N) (p c : El) : Bool :=
  s.hasTbl p &&
    ((match (s.info c).ident with
      | some v => !s.noConflict p c .ident v
      | none => false) ||
    (match (s.info c).name with
      | some v => !s.noConflict p c .name v
      | none => false))

/-- steps 3 and 4 of `add(parent, child)`: index the child's identifier and name in the parent's table,
    then the containment update -/
def N.register (s1 : N) (p c : El) : N :=
  let s2 := match (s1.info c).ident with
    | some v => s1.tblUpdate p c .ident (s1.info c).ident v
    | none => s1
  let s3 := match (s2.info c).name with
    | some v => s2.tblUpdate p c .name (s2.info c).name v
    | none => s2
  { s3 with parent := fun x => if x = c then some p else s3.parent x
            kids := fun x => if x = p then s3.kids x ++ [c] else s3.kids x }

def stepCore (s : N) : Op → N × Res
  | .create e =>
    -- constructors only ever produce fresh objects
    if s.parent e ≠ none ∨ s.kids e ≠ [] then (s, .assert) else
    ({ s with info := fun x => if x = e then { name := none, ident := none, ns := some s.dflt } else s.info x
              hasTbl := fun x => if x = e then isContainer e.kind else s.hasTbl x
              tpol := fun x => if x = e then s.dflt else s.tpol x
              names := fun x kd v => if x = e then none else s.names x kd v
              idents := fun x kd v => if x = e then none else s.idents x kd v }, .ok)
  | .attach p c =>
    -- arguments are type-correct objects (a library is added to a netlist, a port to a definition, ...)
    if !validParent p.kind c.kind then (s, .assert) else
    if s.parent c ≠ none then (s, .assert) else
    -- 1. conflict check against the parent's table, identifier first
    let conflict : Bool := s.conflicts p c
    if conflict then (s, .value) else
    -- 2. the child adopts the parent's policy (or loses its own)
    let (s1, r) := match (s.info p).ns with
      | some pp => s.setNsCore c pp
      | none => if (s.info c).ns ≠ none then (s.dropNs c, .ok) else (s, .ok)
    if r ≠ .ok then (s, r) else
    -- 3. register the child's keys, 4. containment
    (s1.register p c, .ok)
  | .detach p c =>
    if s.parent c ≠ some p then (s, .assert) else
    let s1 := (s.tblRemove p c .ident (s.info c).ident).tblRemove p c .name (s.info c).name
    ({ s1 with parent := fun x => if x = c then none else s1.parent x
               kids := fun x => if x = p then (s1.kids x).filter (· ≠ c) else s1.kids x }, .ok)
  | .setKey e k v =>
    if !s.nameOk e k v then (s, .value) else
    match s.parent e with
    | none => ({ s with info := fun x => if x = e then (s.info x).set k (some v) else s.info x }, .ok)
    | some p =>
      if s.hasTbl p && !s.noConflict p e k v then (s, .value) else
      let s1 := s.tblUpdate p e k ((s.info e).get k) v
      ({ s1 with info := fun x => if x = e then (s1.info x).set k (some v) else s1.info x }, .ok)
  | .delKey e k =>
    if (s.info e).get k = none then (s, .key) else (s.removeKey e k, .ok)
  | .popKey e k =>
    if (s.info e).get k = none then (s, .key) else (s.removeKey e k, .ok)
  | .delNameProp e =>
    if (s.info e).name = none then (s, .ok) else (s.removeKey e .name, .ok)
  | .setNs e p =>
    if (s.info e).ns = some p then (s, .ok) else
    if s.parent e ≠ none then (s, .value) else
    s.setNsCore e p
  | .delNs e =>
    -- `__delitem__` raises KeyError for an absent key before any listener is asked
    if (s.info e).ns = none then (s, .key) else
    if s.parent e ≠ none then (s, .value) else
    (s.dropNs e, .ok)
  | .setDefault p => ({ s with dflt := p }, .ok)
  | .createIn _ _ _ _ => (s, .ok)     -- handled by `step`
  | .clone _ _ => (s, .ok)            -- handled by `step`

/-- a sequence of calls that is abandoned at the first refusal; the half-built object is then garbage
    and the state is the one before the compound call -/
def tryAll (s0 : N) : N → List Op → N × Res
  | s, [] => (s, .ok)
  | s, op :: ops =>
    match stepCore s op with
    | (s1, .ok) => tryAll s0 s1 ops
    | (_, r) => (s0, r)

def shEl (off : Nat) (e : El) : El := ⟨e.kind, e.id + off⟩

/-- the public calls that build the copy of ONE element (detached): construct, same policy, same keys -/
def N.copyOps (s : N) (off : Nat) (x : El) : List Op :=
  [.create (shEl off x)] ++
  (match (s.info x).ns with
    | some p => [.setNs (shEl off x) p]
    | none => [.delNs (shEl off x)]) ++
  (match (s.info x).name with | some v => [.setKey (shEl off x) .name v] | none => []) ++
  (match (s.info x).ident with | some v => [.setKey (shEl off x) .ident v] | none => [])

/-- the public calls that build the copy of the subtree of `e` (fixed depth), children in order -/
def N.cloneOps (s : N) (off : Nat) (e : El) : List Op :=
  s.copyOps off e ++ (s.kids e).flatMap (fun k =>
    s.copyOps off k ++ [.attach (shEl off e) (shEl off k)] ++ (s.kids k).flatMap (fun k2 =>
      s.copyOps off k2 ++ [.attach (shEl off k) (shEl off k2)] ++ (s.kids k2).flatMap (fun k3 =>
        s.copyOps off k3 ++ [.attach (shEl off k2) (shEl off k3)])))

def step (s : N) : Op → N × Res
  | .clone e off => tryAll s s (s.cloneOps off e)
  | .createIn p c name ident =>
    tryAll s s ([.create c] ++ (match name with | some v => [.setKey c .name v] | none => []) ++
                (match ident with | some v => [.setKey c .ident v] | none => []) ++ [.attach p c])
  | op => stepCore s op

def run (s : N) : List Op → N × List Res
  | [] => (s, [])
  | op :: ops =>
    let (s1, r) := step s op
    let (s2, rs) := run s1 ops
    (s2, r :: rs)

/-! Observations -/

/-- the registered fast lookup (`NamespaceManager.lookup`); under the DEFAULT policy identifiers are
    not indexed and the lookup falls back to the scan (repaired behaviour). -/
def N.scan (s : N) (p : El) (kd : Kind) (k : Key) (v : String) : Option El :=
  (s.kids p).find? (fun c => c.kind = kd && (s.info c).get k == some v)

def N.scanCI (s : N) (p : El) (kd : Kind) (v : String) : Option El :=
  (s.kids p).find? (fun c => c.kind = kd && ((s.info c).ident).map lower == some (lower v))

/-- all children of the class whose key has exactly the value (`global_service.linear_lookup_all`) -/
def N.scanAll (s : N) (p : El) (kd : Kind) (k : Key) (v : String) : List El :=
  (s.kids p).filter (fun c => c.kind = kd && (s.info c).get k == some v)

/-- all children of the class whose identifier equals the value ignoring case -/
def N.scanAllCI (s : N) (p : El) (kd : Kind) (v : String) : List El :=
  (s.kids p).filter (fun c => c.kind = kd && ((s.info c).ident).map lower == some (lower v))

/-- what `get_*(parent, exact, key=...)` returns (`global_service.lookup_all`): the parent's table when it
    indexes the key and has a hit, else every match of the linear scan (parents without table, keys the
    DEFAULT class does not index, children attached without callbacks). -/
def N.lookup (s : N) (p : El) (kd : Kind) (k : Key) (v : String) : List El :=
  let hit : Option El :=
    if s.hasTbl p then
      (match k with
        | .name => s.names p kd v
        | .ident => match s.tpol p with
          | .edif => s.idents p kd (lower v)
          | .default => none)
    else none
  match hit with
  | some e => [e]
  | none => s.scanAll p kd k v

end Spydr.Names
