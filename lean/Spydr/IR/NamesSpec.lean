import Spydr.IR.NamesModel
namespace Spydr.Names

/-- C10 invariant: the per-parent tables are exactly the index of the current children. -/
structure NsInv (s : N) : Prop where
  kids_iff : ∀ p c, c ∈ s.kids p ↔ s.parent c = some p
  kids_nd  : ∀ p, (s.kids p).Nodup
  names_iff : ∀ p, s.hasTbl p = true → ∀ kd x e,
      s.names p kd x = some e ↔ (s.parent e = some p ∧ e.kind = kd ∧ (s.info e).name = some x)
  idents_iff : ∀ p, s.hasTbl p = true → s.tpol p = .edif → ∀ kd y e,
      s.idents p kd y = some e ↔ (s.parent e = some p ∧ e.kind = kd ∧ ((s.info e).ident).map lower = some y)
  parent_kind : ∀ c p, s.parent c = some p → validParent p.kind c.kind = true

end Spydr.Names
