/-
  C01 — IR ownership and pin–wire links stay mutually consistent under any edit history.
  Only property theorems and non-vacuity examples live here (helper lemmas: ../StepInv*.lean).
-/
import Spydr.IR.StepInv
namespace Spydr.IR

/-- the empty heap satisfies the invariant -/
theorem c01_init : Inv S.init := init_inv

/-- **every history, every prefix**: after any finite sequence of public editing calls (accepted or
    refused, any arguments, any number of netlists — they share the heap), the invariant holds.
    Quantifying over all op lists covers every prefix; the `take k` form says so explicitly. -/
theorem run_inv (ops : List Op) (s : S) (h : Inv s) : Inv (run s ops).1 := by
  induction ops generalizing s with
  | nil => simpa [run] using h
  | cons op ops ih =>
    simp only [run]
    exact ih _ (step_inv s op h)

theorem run_inv_every_prefix (ops : List Op) (k : Nat) : Inv (run S.init (ops.take k)).1 :=
  run_inv _ _ init_inv

/-- "every container lists exactly the elements that name it as their parent, once each" -/
theorem c01_containment (s : S) (h : Inv s) :
    (∀ n l, l ∈ s.libs n ↔ s.libNl l = some n) ∧ (∀ n, (s.libs n).Nodup) ∧
    (∀ l d, d ∈ s.defs l ↔ s.defLib d = some l) ∧ (∀ l, (s.defs l).Nodup) ∧
    (∀ d p, p ∈ s.ports d ↔ s.portDef p = some d) ∧ (∀ d, (s.ports d).Nodup) ∧
    (∀ d c, c ∈ s.cables d ↔ s.cableDef c = some d) ∧ (∀ d, (s.cables d).Nodup) ∧
    (∀ d i, i ∈ s.children d ↔ s.instParent i = some d) ∧ (∀ d, (s.children d).Nodup) ∧
    (∀ p q, q ∈ s.pins p ↔ s.pinPort q = some p) ∧ (∀ p, (s.pins p).Nodup) ∧
    (∀ c w, w ∈ s.wires c ↔ s.wireCable w = some c) ∧ (∀ c, (s.wires c).Nodup) :=
  ⟨h.libs_iff, h.libs_nd, h.defs_iff, h.defs_nd, h.ports_iff, h.ports_nd, h.cables_iff, h.cables_nd,
   h.child_iff, h.child_nd, h.pins_iff, h.pins_nd, h.wires_iff, h.wires_nd⟩

/-- "removed elements report no parent": an element listed by no container has no parent
    (stated for each of the seven containments). -/
theorem c01_removed_reports_no_parent (s : S) (h : Inv s) :
    (∀ l, (∀ n, l ∉ s.libs n) → s.libNl l = none) ∧
    (∀ d, (∀ l, d ∉ s.defs l) → s.defLib d = none) ∧
    (∀ p, (∀ d, p ∉ s.ports d) → s.portDef p = none) ∧
    (∀ c, (∀ d, c ∉ s.cables d) → s.cableDef c = none) ∧
    (∀ i, (∀ d, i ∉ s.children d) → s.instParent i = none) ∧
    (∀ q, (∀ p, q ∉ s.pins p) → s.pinPort q = none) ∧
    (∀ w, (∀ c, w ∉ s.wires c) → s.wireCable w = none) := by
  refine ⟨?_, ?_, ?_, ?_, ?_, ?_, ?_⟩
  · intro l hl; cases e : s.libNl l with
    | none => rfl
    | some n => exact absurd ((h.libs_iff n l).2 e) (hl n)
  · intro d hl; cases e : s.defLib d with
    | none => rfl
    | some n => exact absurd ((h.defs_iff n d).2 e) (hl n)
  · intro d hl; cases e : s.portDef d with
    | none => rfl
    | some n => exact absurd ((h.ports_iff n d).2 e) (hl n)
  · intro d hl; cases e : s.cableDef d with
    | none => rfl
    | some n => exact absurd ((h.cables_iff n d).2 e) (hl n)
  · intro d hl; cases e : s.instParent d with
    | none => rfl
    | some n => exact absurd ((h.child_iff n d).2 e) (hl n)
  · intro d hl; cases e : s.pinPort d with
    | none => rfl
    | some n => exact absurd ((h.pins_iff n d).2 e) (hl n)
  · intro d hl; cases e : s.wireCable d with
    | none => rfl
    | some n => exact absurd ((h.wires_iff n d).2 e) (hl n)

/-- "every pin reports exactly the one wire whose pin list contains it (once), while a wire lists
    only pins that report it" — for inner pins and for the outer pins instances carry. -/
theorem c01_pin_wire (s : S) (h : Inv s) :
    (∀ q w, s.pinWire q = some w ↔ PinRef.inner q ∈ s.wirePins w) ∧
    (∀ i q w, s.opWire i q = some w ↔ PinRef.outer i q ∈ s.wirePins w) ∧
    (∀ w, (s.wirePins w).Nodup) ∧
    -- at most one wire lists a given pin
    (∀ r w w', r ∈ s.wirePins w → r ∈ s.wirePins w' → w = w') := by
  refine ⟨h.pw_iff, h.ow_iff, h.wp_nd, ?_⟩
  intro r w w' hw hw'
  cases r with
  | inner q =>
    have a := (h.pw_iff q w).2 hw
    have b := (h.pw_iff q w').2 hw'
    rw [a] at b; exact Option.some.inj b
  | outer i q =>
    have a := (h.ow_iff i q w).2 hw
    have b := (h.ow_iff i q w').2 hw'
    rw [a] at b; exact Option.some.inj b

/-- "Reorder assignments only ever permute the existing members": each of the eight reorder setters is
    accepted exactly when the new list is a duplicate-free rearrangement, the stored list is then a
    permutation of the old one, and a refused assignment leaves the list alone. -/
theorem reorder_perm (s : S) (h : Inv s) :
    (∀ n ls, ((step s (.setLibraries n ls)).2 = .ok → ((step s (.setLibraries n ls)).1.libs n).Perm (s.libs n)) ∧
             ((step s (.setLibraries n ls)).2 ≠ .ok → (step s (.setLibraries n ls)).1 = s)) ∧
    (∀ l ds, ((step s (.setDefinitions l ds)).2 = .ok → ((step s (.setDefinitions l ds)).1.defs l).Perm (s.defs l)) ∧
             ((step s (.setDefinitions l ds)).2 ≠ .ok → (step s (.setDefinitions l ds)).1 = s)) ∧
    (∀ d ps, ((step s (.setPorts d ps)).2 = .ok → ((step s (.setPorts d ps)).1.ports d).Perm (s.ports d)) ∧
             ((step s (.setPorts d ps)).2 ≠ .ok → (step s (.setPorts d ps)).1 = s)) ∧
    (∀ d cs, ((step s (.setCables d cs)).2 = .ok → ((step s (.setCables d cs)).1.cables d).Perm (s.cables d)) ∧
             ((step s (.setCables d cs)).2 ≠ .ok → (step s (.setCables d cs)).1 = s)) ∧
    (∀ d is, ((step s (.setChildren d is)).2 = .ok → ((step s (.setChildren d is)).1.children d).Perm (s.children d)) ∧
             ((step s (.setChildren d is)).2 ≠ .ok → (step s (.setChildren d is)).1 = s)) ∧
    (∀ p qs, ((step s (.setPins p qs)).2 = .ok → ((step s (.setPins p qs)).1.pins p).Perm (s.pins p)) ∧
             ((step s (.setPins p qs)).2 ≠ .ok → (step s (.setPins p qs)).1 = s)) ∧
    (∀ c ws, ((step s (.setWires c ws)).2 = .ok → ((step s (.setWires c ws)).1.wires c).Perm (s.wires c)) ∧
             ((step s (.setWires c ws)).2 ≠ .ok → (step s (.setWires c ws)).1 = s)) ∧
    (∀ w rs, ((step s (.setWirePins w rs)).2 = .ok → ((step s (.setWirePins w rs)).1.wirePins w).Perm (s.wirePins w)) ∧
             ((step s (.setWirePins w rs)).2 ≠ .ok → (step s (.setWirePins w rs)).1 = s)) := by
  have key : ∀ {α} [DecidableEq α] (l cur : List α), cur.Nodup → isReorder l cur = true → l.Perm cur := by
    intro α _ l cur hc hr
    have := (isReorder_iff l cur).1 hr
    exact (List.perm_ext_iff_of_nodup this.1 hc).2 this.2
  have k1 := fun n ls => key ls (s.libs n) (h.libs_nd n)
  have k2 := fun n ls => key ls (s.defs n) (h.defs_nd n)
  have k3 := fun n ls => key ls (s.ports n) (h.ports_nd n)
  have k4 := fun n ls => key ls (s.cables n) (h.cables_nd n)
  have k5 := fun n ls => key ls (s.children n) (h.child_nd n)
  have k6 := fun n ls => key ls (s.pins n) (h.pins_nd n)
  have k7 := fun n ls => key ls (s.wires n) (h.wires_nd n)
  have k8 := fun n ls => key ls (s.wirePins n) (h.wp_nd n)
  refine ⟨?_, ?_, ?_, ?_, ?_, ?_, ?_, ?_⟩ <;> intro x l <;> simp only [step] <;> split <;> simp_all

/-- the other half of "accepted exactly when": each reorder setter is accepted iff the new list is a
    duplicate-free rearrangement of the current members, and then stores exactly the list it was given. -/
theorem reorder_accepted_iff (s : S) :
    (∀ n ls, ((step s (.setLibraries n ls)).2 = .ok ↔ isReorder ls (s.libs n) = true) ∧
             ((step s (.setLibraries n ls)).2 = .ok → (step s (.setLibraries n ls)).1.libs n = ls)) ∧
    (∀ l ds, ((step s (.setDefinitions l ds)).2 = .ok ↔ isReorder ds (s.defs l) = true) ∧
             ((step s (.setDefinitions l ds)).2 = .ok → (step s (.setDefinitions l ds)).1.defs l = ds)) ∧
    (∀ d ps, ((step s (.setPorts d ps)).2 = .ok ↔ isReorder ps (s.ports d) = true) ∧
             ((step s (.setPorts d ps)).2 = .ok → (step s (.setPorts d ps)).1.ports d = ps)) ∧
    (∀ d cs, ((step s (.setCables d cs)).2 = .ok ↔ isReorder cs (s.cables d) = true) ∧
             ((step s (.setCables d cs)).2 = .ok → (step s (.setCables d cs)).1.cables d = cs)) ∧
    (∀ d is, ((step s (.setChildren d is)).2 = .ok ↔ isReorder is (s.children d) = true) ∧
             ((step s (.setChildren d is)).2 = .ok → (step s (.setChildren d is)).1.children d = is)) ∧
    (∀ p qs, ((step s (.setPins p qs)).2 = .ok ↔ isReorder qs (s.pins p) = true) ∧
             ((step s (.setPins p qs)).2 = .ok → (step s (.setPins p qs)).1.pins p = qs)) ∧
    (∀ c ws, ((step s (.setWires c ws)).2 = .ok ↔ isReorder ws (s.wires c) = true) ∧
             ((step s (.setWires c ws)).2 = .ok → (step s (.setWires c ws)).1.wires c = ws)) ∧
    (∀ w rs, ((step s (.setWirePins w rs)).2 = .ok ↔ isReorder rs (s.wirePins w) = true) ∧
             ((step s (.setWirePins w rs)).2 = .ok → (step s (.setWirePins w rs)).1.wirePins w = rs)) := by
  refine ⟨?_, ?_, ?_, ?_, ?_, ?_, ?_, ?_⟩ <;> intro x l <;> simp only [step] <;> split <;> simp_all

/-! Non-vacuity: a concrete history over two netlists, with a connection made through an outer pin,
    reaches a state where the invariant's premises are all inhabited. -/
def demoOps : List Op :=
  [ .addLibrary 0 0 none false, .addDefinition 0 0 none false, .addDefinition 0 1 none false,
    .addPort 0 0 none false, .addPin 0 0 none, .addPin 0 1 none,
    .createChild 1 0 (some 0) false, .addCable 1 0 none false, .addWire 0 0 none,
    .connectOuter 0 0 1 none, .connectInner 0 0 none,
    .addLibrary 1 1 none false, .setTopDef 1 1 1, .removePin 0 1, .setPins 0 [0] ]

example : (run S.init demoOps).2 = List.replicate 15 .ok := by decide
example : ((run S.init demoOps).1.wirePins 0) = [.inner 0] ∧ ((run S.init demoOps).1.instPins 0) = [0] := by decide
example : Inv (run S.init demoOps).1 := run_inv _ _ init_inv

end Spydr.IR
