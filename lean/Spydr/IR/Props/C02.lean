/-
  C02 — Instances mirror their definition: reference sets and outer pins track all edits.
  The invariant is the same `Inv` as C01 (one invariant, so the two cannot drift apart);
  `step_inv` / `run_inv` (Props/C01, StepInv) carry it through every history.
-/
import Spydr.IR.Props.C01
namespace Spydr.IR

/-- "an instance that references a definition is a member of that definition's reference set and of
    no other" -/
theorem c02_reference_sets (s : S) (h : Inv s) :
    (∀ d i, s.refs d i = true ↔ s.instRef i = some d) ∧
    (∀ d d' i, s.refs d i = true → s.refs d' i = true → d = d') := by
  refine ⟨h.refs_iff, ?_⟩
  intro d d' i a b
  have a' := (h.refs_iff d i).1 a
  have b' := (h.refs_iff d' i).1 b
  rw [a'] at b'; exact Option.some.inj b'

/-- "carries exactly one outer pin for every inner pin the definition currently has" -/
theorem c02_outer_pins_mirror (s : S) (h : Inv s) :
    (∀ i d, s.instRef i = some d → ∀ q, q ∈ s.instPins i ↔ q ∈ s.flat d) ∧
    (∀ i, (s.instPins i).Nodup) ∧
    (∀ i, s.instRef i = none → s.instPins i = []) := by
  refine ⟨?_, h.mirror_nd, h.noref⟩
  intro i d hr q
  rw [h.mirror i d hr q, mem_flat s h d q]

/-- "Outer pins that disappear because their inner pin, port or reference went away are first taken off
    their wire": after ANY call, an outer pin the instance no longer carries is on no wire and reports
    no wire. -/
theorem c02_dropped_pin_not_on_wire (s : S) (op : Op) (h : Inv s) (i q : OId)
    (hgone : q ∉ (step s op).1.instPins i) :
    (∀ w, PinRef.outer i q ∉ (step s op).1.wirePins w) ∧ (step s op).1.opWire i q = none := by
  have h' := step_inv s op h
  constructor
  · intro w hw
    exact hgone (h'.ow_owned i q w ((h'.ow_iff i q w).2 hw))
  · cases e : (step s op).1.opWire i q with
    | none => rfl
    | some w => exact absurd (h'.ow_owned i q w e) hgone

/-- "re-pointing an instance to a shape-compatible definition keeps every connection on the
    corresponding pin": the outer pin for the positional partner `q'` of `q` is on exactly the wire
    the outer pin for `q` was on (and the call is accepted). -/
theorem repoint_keeps_connections (s : S) (h : Inv s) (i d d' q q' : OId)
    (hi : s.instRef i = some d) (hs : s.shape d = s.shape d') (hp : s.partner d d' q = some q') :
    (step s (.setRef i (some d'))).2 = .ok ∧
    (step s (.setRef i (some d'))).1.opWire i q' = s.opWire i q ∧
    (∀ w, PinRef.outer i q ∈ s.wirePins w → PinRef.outer i q' ∈ (step s (.setRef i (some d'))).1.wirePins w) := by
  have hback : s.partner d' d q' = some q :=
    lookup_zip_symm _ _ (flat_nodup s h d) (flat_nodup s h d') q q' hp
  have hstep : step s (.setRef i (some d')) = (s.repoint i d d', .ok) := by
    simp [step, S.setRefStep, hi, hs]
  rw [hstep]
  refine ⟨rfl, ?_, ?_⟩
  · simp [S.repoint, S.repointWith, hback]
  · intro w hw
    simp only [S.repoint, S.repointWith, List.mem_map]
    exact ⟨_, hw, by simp [hp]⟩

/-- re-pointing is refused exactly on a shape mismatch (port count / per-position pin counts) -/
theorem repoint_refused_iff_shape_mismatch (s : S) (i d d' : OId) (hi : s.instRef i = some d) :
    ((step s (.setRef i (some d'))).2 = .assert ↔ s.shape d ≠ s.shape d') ∧
    ((step s (.setRef i (some d'))).2 = .ok ↔ s.shape d = s.shape d') := by
  by_cases hs : s.shape d = s.shape d' <;> simp [step, S.setRefStep, hi, hs]

/-- `top_instance := definition` creates one fresh instance in the definition's reference set with a
    full pin set, and makes it the top. -/
theorem top_wrap (s : S) (n d t : OId) (hfresh : s.instRef t = none) :
    let s' := (step s (.setTopDef n d t)).1
    (step s (.setTopDef n d t)).2 = .ok ∧ s'.top n = some t ∧ s'.instRef t = some d ∧
    s'.refs d t = true ∧ s'.instPins t = s.flat d := by
  simp [step, hfresh, S.firstRef]

/-! Non-vacuity: three instances (two children, one top) of one definition; a port is added and removed
    while they exist; one is re-pointed. -/
def demo2 : List Op :=
  [ .addLibrary 0 0 none false, .addDefinition 0 0 none false, .addDefinition 0 1 none false, .addDefinition 0 2 none false,
    .createChild 1 0 (some 0) false, .createChild 1 1 (some 0) false, .setTopDef 0 0 2,
    .addPort 0 0 none false, .addPin 0 0 none, .addPort 2 1 none false, .addPin 1 1 none,
    .addCable 1 0 none false, .addWire 0 0 none, .connectOuter 0 0 0 none,
    .setRef 0 (some 2), .removePort 0 0 ]

example : (run S.init demo2).2 = List.replicate 16 .ok := by decide
example : (run S.init demo2).1.wirePins 0 = [.outer 0 1] ∧ (run S.init demo2).1.instPins 1 = [] ∧
          (run S.init demo2).1.instPins 0 = [1] := by decide
example : (S.partner (run S.init (demo2.take 14)).1 0 2 0) = some 1 := by decide

end Spydr.IR

namespace Spydr.IR

theorem lookup_zip_getElem (l1 l2 : List OId) (h1 : l1.Nodup) (k : Nat) (a b : OId)
    (ha : l1[k]? = some a) (hb : l2[k]? = some b) : (l1.zip l2).lookup a = some b := by
  induction l1 generalizing l2 k with
  | nil => simp at ha
  | cons x xs ih =>
    cases l2 with
    | nil => simp at hb
    | cons y ys =>
      cases k with
      | zero =>
        simp only [List.getElem?_cons_zero, Option.some.injEq] at ha hb
        subst ha; subst hb
        simp [List.zip_cons_cons]
      | succ k =>
        simp only [List.getElem?_cons_succ] at ha hb
        have hne : a ≠ x := by
          intro e; subst e
          exact (List.nodup_cons.1 h1).1 (List.mem_of_getElem? ha)
        simp only [List.zip_cons_cons, List.lookup_cons]
        have : (a == x) = false := by simpa using hne
        rw [this]
        exact ih ys (List.nodup_cons.1 h1).2 k ha hb

/-- "the corresponding pin" is positional: the inner pin at position `k` of `d` (ports in order, bits in
    order) corresponds to the inner pin at position `k` of `d'`. -/
theorem partner_positional (s : S) (h : Inv s) (d d' : OId) (k : Nat) (q q' : OId)
    (hq : (s.flat d)[k]? = some q) (hq' : (s.flat d')[k]? = some q') : s.partner d d' q = some q' :=
  lookup_zip_getElem _ _ (flat_nodup s h d) k q q' hq hq'

/-- under equal shapes EVERY outer pin of the instance has a corresponding pin, so
    `repoint_keeps_connections` applies to every connection of the instance. -/
theorem partner_total (s : S) (h : Inv s) (i d d' q : OId) (hi : s.instRef i = some d)
    (hs : s.shape d = s.shape d') (hq : q ∈ s.instPins i) : ∃ q', s.partner d d' q = some q' := by
  have hm : q ∈ s.flat d := by
    obtain ⟨p, hp, hqp⟩ := (h.mirror i d hi q).1 hq
    simp only [S.flat, List.mem_flatMap]
    exact ⟨p, (h.ports_iff d p).2 hp, (h.pins_iff p q).2 hqp⟩
  exact lookup_zip_of_mem _ _ (flat_length_of_shape s d d' hs) q hm

/-- re-pointing keeps EVERY connection of the instance (packaged form) -/
theorem repoint_keeps_all_connections (s : S) (h : Inv s) (i d d' : OId)
    (hi : s.instRef i = some d) (hs : s.shape d = s.shape d') :
    (step s (.setRef i (some d'))).2 = .ok ∧
    ∀ q ∈ s.instPins i, ∃ q', s.partner d d' q = some q' ∧
      (step s (.setRef i (some d'))).1.opWire i q' = s.opWire i q ∧
      (∀ w, PinRef.outer i q ∈ s.wirePins w → PinRef.outer i q' ∈ (step s (.setRef i (some d'))).1.wirePins w) := by
  refine ⟨?_, ?_⟩
  · simp [step, S.setRefStep, hi, hs]
  · intro q hq
    obtain ⟨q', hp⟩ := partner_total s h i d d' q hi hs hq
    have r := repoint_keeps_connections s h i d d' q q' hi hs hp
    exact ⟨q', hp, r.2.1, r.2.2⟩

end Spydr.IR
