/-
  C07 — Clones are faithful, self-contained and independent of the original (netlist clone).
  Model: `S.double` (Spydr/IR/Clone.lean) — whole-heap duplication; the copy of netlist `n` is `n + off`.
  Library / definition / instance / port / cable / wire / pin clones are checked against their documented
  contract on the implementation only (see DESIGN.md §6 C07: PARTIAL).
-/
import Spydr.IR.CloneLemmas
import Spydr.IR.BelowStep
import Spydr.IR.SepStep
import Spydr.IR.Props.C14
namespace Spydr.IR

/-- **the copy is well-formed**: the C01/C02 invariant holds for the heap that contains both. -/
theorem cloneNetlist_inv (s : S) (off : OId) (h : Inv s) (hb : Below s off) : Inv (s.double off) :=
  double_inv s off h hb

/-- **never modifies the source**: no field of any pre-existing object changes. -/
theorem cloneNetlist_frame (s : S) (off : OId) :
    (∀ x, x < off → (s.double off).libs x = s.libs x ∧ (s.double off).libNl x = s.libNl x ∧
      (s.double off).defs x = s.defs x ∧ (s.double off).defLib x = s.defLib x ∧
      (s.double off).ports x = s.ports x ∧ (s.double off).portDef x = s.portDef x ∧
      (s.double off).cables x = s.cables x ∧ (s.double off).cableDef x = s.cableDef x ∧
      (s.double off).children x = s.children x ∧ (s.double off).instParent x = s.instParent x ∧
      (s.double off).pins x = s.pins x ∧ (s.double off).pinPort x = s.pinPort x ∧
      (s.double off).wires x = s.wires x ∧ (s.double off).wireCable x = s.wireCable x ∧
      (s.double off).wirePins x = s.wirePins x ∧ (s.double off).pinWire x = s.pinWire x ∧
      (s.double off).instRef x = s.instRef x ∧ (s.double off).instPins x = s.instPins x ∧
      (s.double off).top x = s.top x) ∧
    (∀ i q, i < off → q < off → (s.double off).opWire i q = s.opWire i q) ∧
    (∀ d i, d < off → i < off → (s.double off).refs d i = s.refs d i) := by
  refine ⟨?_, ?_, ?_⟩
  · intro x hx
    have : ¬ off ≤ x := Nat.not_le.mpr hx
    simp [S.double, this]
  · intro i q hi hq
    have h1 : ¬ off ≤ i := Nat.not_le.mpr hi
    have h2 : ¬ off ≤ q := Nat.not_le.mpr hq
    simp [S.double, h1, h2]
  · intro d i hd hi
    have h1 : ¬ off ≤ d := Nat.not_le.mpr hd
    have h2 : ¬ off ≤ i := Nat.not_le.mpr hi
    simp [S.double, h1, h2]

/-- **structurally identical**: every field of the twin `x + off` is the shifted field of `x` — same
    order, same shapes, same connections, same reference sets, same top instance. -/
theorem cloneNetlist_iso (s : S) (off : OId) :
    (∀ x, (s.double off).libs (x + off) = shL off (s.libs x) ∧ (s.double off).libNl (x + off) = shO off (s.libNl x) ∧
      (s.double off).defs (x + off) = shL off (s.defs x) ∧ (s.double off).defLib (x + off) = shO off (s.defLib x) ∧
      (s.double off).ports (x + off) = shL off (s.ports x) ∧ (s.double off).portDef (x + off) = shO off (s.portDef x) ∧
      (s.double off).cables (x + off) = shL off (s.cables x) ∧ (s.double off).cableDef (x + off) = shO off (s.cableDef x) ∧
      (s.double off).children (x + off) = shL off (s.children x) ∧ (s.double off).instParent (x + off) = shO off (s.instParent x) ∧
      (s.double off).pins (x + off) = shL off (s.pins x) ∧ (s.double off).pinPort (x + off) = shO off (s.pinPort x) ∧
      (s.double off).wires (x + off) = shL off (s.wires x) ∧ (s.double off).wireCable (x + off) = shO off (s.wireCable x) ∧
      (s.double off).wirePins (x + off) = shPL off (s.wirePins x) ∧ (s.double off).pinWire (x + off) = shO off (s.pinWire x) ∧
      (s.double off).instRef (x + off) = shO off (s.instRef x) ∧ (s.double off).instPins (x + off) = shL off (s.instPins x) ∧
      (s.double off).top (x + off) = shO off (s.top x)) ∧
    (∀ i q, (s.double off).opWire (i + off) (q + off) = shO off (s.opWire i q)) ∧
    (∀ d i, (s.double off).refs (d + off) (i + off) = s.refs d i) := by
  refine ⟨?_, ?_, ?_⟩
  · intro x
    simp [S.double, Nat.le_add_left]
  · intro i q
    simp [S.double, Nat.le_add_left]
  · intro d i
    simp [S.double, Nat.le_add_left]

/-- **shares no element, every link resolves inside the copy**: no pointer crosses between the original
    region (`< off`) and the copy (`≥ off`), for every pointer kind: containment both ways, pin–wire both
    ways, references and reference sets, outer/inner pin pairs, the top instance. -/
theorem cloneNetlist_closed (s : S) (off : OId) (hb : Below s off) :
    let c := s.double off
    (∀ x y, off ≤ x → (y ∈ c.libs x ∨ y ∈ c.defs x ∨ y ∈ c.ports x ∨ y ∈ c.cables x ∨ y ∈ c.children x ∨
        y ∈ c.pins x ∨ y ∈ c.wires x ∨ y ∈ c.instPins x) → off ≤ y) ∧
    (∀ x y, off ≤ x → (c.libNl x = some y ∨ c.defLib x = some y ∨ c.portDef x = some y ∨ c.cableDef x = some y ∨
        c.instParent x = some y ∨ c.pinPort x = some y ∨ c.wireCable x = some y ∨ c.pinWire x = some y ∨
        c.instRef x = some y ∨ c.top x = some y) → off ≤ y) ∧
    (∀ w i q, off ≤ w → PinRef.outer i q ∈ c.wirePins w → off ≤ i ∧ off ≤ q) ∧
    (∀ w q, off ≤ w → PinRef.inner q ∈ c.wirePins w → off ≤ q) ∧
    (∀ i q w, c.opWire i q = some w → (off ≤ i ↔ off ≤ w) ∧ (off ≤ i ↔ off ≤ q)) ∧
    (∀ d i, c.refs d i = true → (off ≤ d ↔ off ≤ i)) := by
  obtain ⟨b1,b2,b3,b4,b5,b6,b7,b8,b9,b10,b11,b12,b13,b14,b15,b16,b17,b18,b19,b20,b21,b22⟩ := hb
  simp only [S.double]
  refine ⟨?_, ?_, ?_, ?_, ?_, ?_⟩
  · intro x y hx hy
    simp only [hx, if_true, mem_shL] at hy
    rcases hy with h | h | h | h | h | h | h | h <;> exact h.1
  · intro x y hx hy
    simp only [hx, if_true, shO_eq_some] at hy
    rcases hy with h | h | h | h | h | h | h | h | h | h <;> exact h.1
  · intro w i q hw h
    simp only [hw, if_true, outer_mem_shPL] at h
    exact ⟨h.1, h.2.1⟩
  · intro w q hw h
    simp only [hw, if_true, inner_mem_shPL] at h
    exact h.1
  · intro i q w h
    grind [shO_eq_some]
  · intro d i h
    grind

/-- the copy region and the original region of the id space -/
abbrev CopyR (off : OId) : OId → Prop := fun x => off ≤ x
abbrev OrigR (off : OId) : OId → Prop := fun x => x < off

/-- after cloning, originals and copies are separated: no pointer of any kind crosses -/
theorem sep_double (s : S) (off : OId) (hb : Below s off) : Sep (s.double off) (CopyR off) := by
  obtain ⟨b1,b2,b3,b4,b5,b6,b7,b8,b9,b10,b11,b12,b13,b14,b15,b16,b17,b18,b19,b20,b21,b22⟩ := hb
  simp only [S.double]
  constructor <;> grind [mem_shL, shO_eq_some, shO_eq_none, inner_mem_shPL, outer_mem_shPL]

/-- separation does not care which side of the boundary is called the region -/
theorem sep_compl (s : S) (R R' : OId → Prop) (h : ∀ x, R' x ↔ ¬ R x) (hs : Sep s R) : Sep s R' := by
  obtain ⟨b1,b2,b3,b4,b5,b6,b7,b8,b9,b10,b11,b12,b13,b14,b15,b16,b17,b18,b19,b20,b21,b22⟩ := hs
  constructor <;> grind

theorem sep_double' (s : S) (off : OId) (hb : Below s off) : Sep (s.double off) (OrigR off) :=
  sep_compl _ (CopyR off) (OrigR off) (fun x => by simp [CopyR, OrigR]) (sep_double s off hb)

/-- `Op.below off` (BelowLemmas) is `Op.inside` for the original region -/
theorem below_inside (off : OId) (op : Op) (h : op.below off) : op.inside (OrigR off) := by
  cases op <;> simp only [Op.below, Op.inside, OrigR, PinRef.below, PinRef.inR, optBelow, optIn] at * <;>
    first | exact h | grind [PinRef.below, PinRef.inR, optBelow, optIn]

/-- **Independence (copy → original)**: "later edits or transformations of the clone never show in the
    original" — after ANY history of public calls that mention only objects of the copy (accepted or
    refused, re-pointing and top changes included), every field of every pre-existing object is what it
    was before cloning, and the two regions are still separated (so the statement iterates). -/
theorem clone_edits_invisible_in_original (s : S) (off : OId) (hb : Below s off) (ops : List Op)
    (ho : ∀ op ∈ ops, op.inside (CopyR off)) :
    OutEq (run (s.double off) ops).1 s (CopyR off) ∧ Sep (run (s.double off) ops).1 (CopyR off) := by
  have h := run_sep (CopyR off) ops (s.double off) (sep_double s off hb) ho
  refine ⟨outEq_trans h.2 ?_, h.1⟩
  have fr := cloneNetlist_frame s off
  exact ⟨fun x hx => fr.1 x (Nat.not_le.mp hx), fun i q hi hq => fr.2.1 i q (Nat.not_le.mp hi) (Nat.not_le.mp hq),
    fun d i hd hi => fr.2.2 d i (Nat.not_le.mp hd) (Nat.not_le.mp hi)⟩

/-- the same in plain words: each field of each original object `x < off` is unchanged -/
theorem clone_edits_invisible_fields (s : S) (off : OId) (hb : Below s off) (ops : List Op)
    (ho : ∀ op ∈ ops, op.inside (CopyR off)) (x : OId) (hx : x < off) :
    let t := (run (s.double off) ops).1
    t.children x = s.children x ∧ t.wirePins x = s.wirePins x ∧ t.pinWire x = s.pinWire x ∧
    t.instRef x = s.instRef x ∧ t.instPins x = s.instPins x ∧ t.ports x = s.ports x ∧ t.top x = s.top x := by
  have h := (clone_edits_invisible_in_original s off hb ops ho).1.f1 x (Nat.not_le.mpr hx)
  grind

/-- **Independence (original → copy)**: later edits of the original — any history of public calls that
    mention only objects below `off` (the originals and anything new created on their side) — never show
    in the copy: every field of every object of the copy is what it was right after cloning (which by
    `cloneNetlist_iso` is the shifted image of the original AT CLONE TIME), and the regions stay separated. -/
theorem original_edits_invisible_in_clone (s : S) (off : OId) (hb : Below s off) (ops : List Op)
    (ho : ∀ op ∈ ops, op.below off) :
    OutEq (run (s.double off) ops).1 (s.double off) (OrigR off) ∧ Sep (run (s.double off) ops).1 (OrigR off) := by
  have h := run_sep (OrigR off) ops (s.double off) (sep_double' s off hb) (fun op hm => below_inside off op (ho op hm))
  exact ⟨h.2, h.1⟩

/-- in plain words: the twin `x + off` keeps the shifted fields of `x` as they were when the clone was taken -/
theorem original_edits_invisible_fields (s : S) (off : OId) (hb : Below s off) (ops : List Op)
    (ho : ∀ op ∈ ops, op.below off) (x : OId) :
    let t := (run (s.double off) ops).1
    t.children (x + off) = shL off (s.children x) ∧ t.wirePins (x + off) = shPL off (s.wirePins x) ∧
    t.pinWire (x + off) = shO off (s.pinWire x) ∧ t.instRef (x + off) = shO off (s.instRef x) ∧
    t.instPins (x + off) = shL off (s.instPins x) ∧ t.top (x + off) = shO off (s.top x) := by
  have h := (original_edits_invisible_in_clone s off hb ops ho).1.f1 (x + off) (by simp [OrigR])
  have i := (cloneNetlist_iso s off).1 x
  grind

/-- **For every reachable heap**: whatever history of public calls built it (all objects mentioned lying
    below `off`, which is how fresh objects are numbered), cloning gives a heap in which originals and
    copies together are well-formed, nothing of the original changed, the copy is isomorphic and no pointer
    crosses. (`Below` is thereby not an assumption about the heap but a consequence of how it was built.) -/
theorem cloneNetlist_reachable (ops : List Op) (off : OId) (ho : ∀ op ∈ ops, op.below off) :
    let s := (run S.init ops).1
    Inv (s.double off) ∧ Below s off := by
  have hb := run_below off ops S.init (below_init off) ho
  exact ⟨double_inv _ off (run_inv ops _ init_inv) hb, hb⟩

/-! Non-vacuity: the demo heap of Props/C02 lies below 10, is duplicated, and the copy has the same shape. -/
example : ((run S.init demo2).1.double 10).wirePins 10 = [.outer 10 11] ∧
          ((run S.init demo2).1.double 10).instPins 10 = [11] ∧
          ((run S.init demo2).1.double 10).top 10 = some 12 := by decide

end Spydr.IR
