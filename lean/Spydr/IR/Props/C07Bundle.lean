/-
  C07 — `Port.clone()` ("cloned with all of its pins … not connected to any wires") and `Cable.clone()`
  ("the cable and all wires will be cloned. They will be disconnected from all pins").
-/
import Spydr.IR.Props.C07Inst
namespace Spydr.IR

/-! ### ports -/

def cutInnerOps (off : OId) (W : OId → Option OId) (qs : List OId) : List Op :=
  qs.flatMap (fun q => optOps (W q) fun w => [Op.disconnect (w + off) (.inner (q + off))])

theorem cutInner_fold (off : OId) (W : OId → Option OId) (qs : List OId) (hnd : qs.Nodup) (t : S)
    (hW : ∀ q ∈ qs, t.pinWire (q + off) = shO off (W q)) :
    (run t (cutInnerOps off W qs)).1.pins = t.pins ∧ (run t (cutInnerOps off W qs)).1.portDef = t.portDef ∧
    (∀ q ∈ qs, (run t (cutInnerOps off W qs)).1.pinWire (q + off) = none) := by
  induction qs generalizing t with
  | nil => exact ⟨rfl, rfl, by simp⟩
  | cons q qs ih =>
    have hq := hW q (by simp)
    have hnd' := (List.nodup_cons.1 hnd).2
    have hnq : q ∉ qs := (List.nodup_cons.1 hnd).1
    have hne : ∀ x ∈ qs, x + off ≠ q + off := fun x hx e => hnq (by have : x = q := Nat.add_right_cancel e; exact this ▸ hx)
    -- later disconnects of other pins never touch this pin
    have keep : ∀ (u : S) (l : List OId), q ∉ l → (run u (cutInnerOps off W l)).1.pinWire (q + off) = u.pinWire (q + off) := by
      intro u l
      induction l generalizing u with
      | nil => intro _; rfl
      | cons y ys ihy =>
        intro hy
        have hyq : y ≠ q := fun e => hy (by simp [e])
        have hys : q ∉ ys := fun h' => hy (by simp [h'])
        cases hwy : W y with
        | none =>
          have : cutInnerOps off W (y :: ys) = cutInnerOps off W ys := by simp [cutInnerOps, hwy]
          rw [this]; exact ihy u hys
        | some wy =>
          have : cutInnerOps off W (y :: ys) = Op.disconnect (wy + off) (.inner (y + off)) :: cutInnerOps off W ys := by
            simp [cutInnerOps, hwy]
          rw [this]; simp only [run]
          rw [ihy _ hys]
          simp only [step]
          split
          · rfl
          · have hne' : (q + off = y + off) = False := eq_false (fun e => hyq (Nat.add_right_cancel e).symm)
            simp only [hne', if_false]
    cases hw : W q with
    | none =>
      have hops : cutInnerOps off W (q :: qs) = cutInnerOps off W qs := by simp [cutInnerOps, hw]
      rw [hops]
      have := ih hnd' t (fun x hx => hW x (by simp [hx]))
      refine ⟨this.1, this.2.1, ?_⟩
      intro x hx
      rcases List.mem_cons.1 hx with rfl | hx
      · rw [keep t qs hnq, hq, hw]; rfl
      · exact this.2.2 x hx
    | some w =>
      have hops : cutInnerOps off W (q :: qs) = Op.disconnect (w + off) (.inner (q + off)) :: cutInnerOps off W qs := by
        simp [cutInnerOps, hw]
      rw [hops]
      simp only [run]
      have hpw : t.pinWire (q + off) = some (w + off) := by rw [hq, hw]; rfl
      have hs1 : (step t (.disconnect (w + off) (.inner (q + off)))).1.pins = t.pins ∧
          (step t (.disconnect (w + off) (.inner (q + off)))).1.portDef = t.portDef ∧
          (step t (.disconnect (w + off) (.inner (q + off)))).1.pinWire = (fun q' => if q' = q + off then none else t.pinWire q') := by
        simp only [step, hpw, ne_eq, not_true_eq_false, if_false]
        exact ⟨trivial, trivial, trivial⟩
      have := ih hnd' (step t (.disconnect (w + off) (.inner (q + off)))).1
        (fun x hx => by rw [hs1.2.2]; simp only [hne x hx, if_false]; exact hW x (by simp [hx]))
      refine ⟨this.1.trans hs1.1, this.2.1.trans hs1.2.1, ?_⟩
      intro x hx
      rcases List.mem_cons.1 hx with rfl | hx
      · rw [keep _ qs hnq, hs1.2.2]; simp
      · exact this.2.2 x hx

/-- **`Port.clone()` as documented**: all pins, in order, none of them on a wire. -/
theorem clonePort_contract (s : S) (off p : OId) (h : Inv s) :
    let t := s.cloneElem off .port p
    t.pins (p + off) = shL off (s.pins p) ∧ ∀ q ∈ s.pins p, t.pinWire (q + off) = none := by
  simp only [S.cloneElem, pruneOps, pruneInside, pruneCross, List.append_nil]
  have hfold : (s.pins p).flatMap (cutInner s off) = cutInnerOps off (fun q => s.pinWire q) (s.pins p) := rfl
  rw [hfold]
  have hdP : (s.double off).pins (p + off) = shL off (s.pins p) := by simp [S.double, Nat.le_add_left]
  have hF := cutInner_fold off (fun q => s.pinWire q) (s.pins p) (h.pins_nd p) (s.double off)
    (fun q _ => by simp [S.double, Nat.le_add_left])
  have hrm : ∀ (t : S) (d : OId), (step t (.removePort d (p + off))).1.pins = t.pins ∧
      (step t (.removePort d (p + off))).1.pinWire = t.pinWire := by
    intro t d; simp only [step]; split <;> exact ⟨rfl, rfl⟩
  cases hd : s.portDef p with
  | none =>
    simp only [optOps_none, List.append_nil]
    exact ⟨by rw [hF.1, hdP], hF.2.2⟩
  | some d =>
    simp only [optOps_some, run_append, run]
    refine ⟨by rw [(hrm _ _).1, hF.1, hdP], ?_⟩
    intro q hq
    rw [(hrm _ _).2]; exact hF.2.2 q hq

/-! ### cables -/

def cutWireOps (s : S) (off : OId) (ws : List OId) : List Op := ws.flatMap (cutWire s off)

/-- what the bulk disconnects rely on, for the wires still to be processed -/
structure Pending (s : S) (off : OId) (t : S) (ws : List OId) : Prop where
  wp : ∀ w ∈ ws, t.wirePins (w + off) = shPL off (s.wirePins w)
  pw : ∀ w ∈ ws, ∀ q, PinRef.inner q ∈ s.wirePins w → t.pinWire (q + off) = some (w + off)
  ow : ∀ w ∈ ws, ∀ i q, PinRef.outer i q ∈ s.wirePins w → t.opWire (i + off) (q + off) = some (w + off) ∧ (q + off) ∈ t.instPins (i + off)

theorem cutWire_fold (s : S) (h : Inv s) (off : OId) (ws : List OId) (hnd : ws.Nodup) (t : S) (hp : Pending s off t ws) :
    (run t (cutWireOps s off ws)).1.wires = t.wires ∧ (run t (cutWireOps s off ws)).1.cableDef = t.cableDef ∧
    (∀ w ∈ ws, (run t (cutWireOps s off ws)).1.wirePins (w + off) = []) := by
  induction ws generalizing t with
  | nil => exact ⟨rfl, rfl, by simp⟩
  | cons w ws ih =>
    have hnd' := (List.nodup_cons.1 hnd).2
    have hnw : w ∉ ws := (List.nodup_cons.1 hnd).1
    -- bulk disconnects of other wires leave this wire's pin list alone
    have keep : ∀ (u : S) (l : List OId), w ∉ l → (run u (cutWireOps s off l)).1.wirePins (w + off) = u.wirePins (w + off) := by
      intro u l
      induction l generalizing u with
      | nil => intro _; rfl
      | cons y ys ihy =>
        intro hy
        have hyw : y ≠ w := fun e => hy (by simp [e])
        have hys : w ∉ ys := fun h' => hy (by simp [h'])
        have hne : w + off ≠ y + off := fun e => hyw (Nat.add_right_cancel e).symm
        by_cases he : s.wirePins y = []
        · have : cutWireOps s off (y :: ys) = cutWireOps s off ys := by simp [cutWireOps, cutWire, he]
          rw [this]; exact ihy u hys
        · have : cutWireOps s off (y :: ys) = Op.disconnectFrom (y + off) (shPL off (s.wirePins y)) :: cutWireOps s off ys := by
            simp [cutWireOps, cutWire, he]
          rw [this]; simp only [run]
          rw [ihy _ hys]
          simp only [step]
          split
          · rfl
          · have hne' : (w + off = y + off) = False := eq_false (fun e => hyw (Nat.add_right_cancel e).symm)
            simp only [hne', if_false]
    by_cases he : s.wirePins w = []
    · have hops : cutWireOps s off (w :: ws) = cutWireOps s off ws := by simp [cutWireOps, cutWire, he]
      rw [hops]
      have := ih hnd' t ⟨fun x hx => hp.wp x (by simp [hx]), fun x hx => hp.pw x (by simp [hx]), fun x hx => hp.ow x (by simp [hx])⟩
      refine ⟨this.1, this.2.1, ?_⟩
      intro x hx
      rcases List.mem_cons.1 hx with rfl | hx
      · rw [keep t ws hnw, hp.wp x (by simp), he]; rfl
      · exact this.2.2 x hx
    · have hops : cutWireOps s off (w :: ws) = Op.disconnectFrom (w + off) (shPL off (s.wirePins w)) :: cutWireOps s off ws := by
        simp [cutWireOps, cutWire, he]
      rw [hops]
      simp only [run]
      -- accepted
      have hacc : ¬ ((shPL off (s.wirePins w)).any (fun r => match r with
          | .inner q => decide (t.pinWire q ≠ some (w + off))
          | .outer i q => decide (q ∉ t.instPins i ∨ t.opWire i q ≠ some (w + off))) = true) := by
        intro hbad
        rw [List.any_eq_true] at hbad
        obtain ⟨r, hr, hb⟩ := hbad
        simp only [shPL, List.mem_map] at hr
        obtain ⟨r0, hr0, rfl⟩ := hr
        cases r0 with
        | inner q => simp [shP, sh, hp.pw w (by simp) q hr0] at hb
        | outer i q =>
          have := hp.ow w (by simp) i q hr0
          simp [shP, sh, this.1, this.2] at hb
      have hs1 : (step t (.disconnectFrom (w + off) (shPL off (s.wirePins w)))).1 =
          { t with pinWire := fun q => if PinRef.inner q ∈ shPL off (s.wirePins w) then none else t.pinWire q
                   opWire := fun i q => if PinRef.outer i q ∈ shPL off (s.wirePins w) then none else t.opWire i q
                   wirePins := fun w' => if w' = w + off then (t.wirePins w').filter (· ∉ shPL off (s.wirePins w)) else t.wirePins w' } := by
        simp only [step]
        split
        · rename_i hb; exact absurd hb hacc
        · rfl
      -- the other wires are still pending in the new state
      have hpend : Pending s off (step t (.disconnectFrom (w + off) (shPL off (s.wirePins w)))).1 ws := by
        rw [hs1]
        refine ⟨?_, ?_, ?_⟩
        · intro x hx
          have : x + off ≠ w + off := fun e => hnw (by have : x = w := Nat.add_right_cancel e; exact this ▸ hx)
          simp only [this, if_false]
          exact hp.wp x (by simp [hx])
        · intro x hx q hq
          have hnot : PinRef.inner (q + off) ∉ shPL off (s.wirePins w) := by
            intro hm
            have := (inner_mem_shPL _ _ _).1 hm
            simp only [Nat.add_sub_cancel] at this
            have e1 := (h.pw_iff q w).2 this.2
            have e2 := (h.pw_iff q x).2 hq
            rw [e1] at e2
            exact hnw ((Option.some.inj e2) ▸ hx)
          simp only [hnot, if_false]
          exact hp.pw x (by simp [hx]) q hq
        · intro x hx i q hq
          have hnot : PinRef.outer (i + off) (q + off) ∉ shPL off (s.wirePins w) := by
            intro hm
            have := (outer_mem_shPL _ _ _ _).1 hm
            simp only [Nat.add_sub_cancel] at this
            have e1 := (h.ow_iff i q w).2 this.2.2
            have e2 := (h.ow_iff i q x).2 hq
            rw [e1] at e2
            exact hnw ((Option.some.inj e2) ▸ hx)
          simp only [hnot, if_false]
          exact hp.ow x (by simp [hx]) i q hq
      have := ih hnd' _ hpend
      have hw1 : (step t (.disconnectFrom (w + off) (shPL off (s.wirePins w)))).1.wires = t.wires ∧
          (step t (.disconnectFrom (w + off) (shPL off (s.wirePins w)))).1.cableDef = t.cableDef := by
        rw [hs1]; exact ⟨rfl, rfl⟩
      refine ⟨this.1.trans hw1.1, this.2.1.trans hw1.2, ?_⟩
      intro x hx
      rcases List.mem_cons.1 hx with rfl | hx
      · rw [keep _ ws hnw, hs1]
        simp only [if_true, hp.wp x (by simp)]
        rw [List.filter_eq_nil_iff]
        intro a ha; simp [ha]
      · exact this.2.2 x hx

/-- **`Cable.clone()` as documented**: all wires, in order, none of them holding a pin. -/
theorem cloneCable_contract (s : S) (off c : OId) (h : Inv s) :
    let t := s.cloneElem off .cable c
    t.wires (c + off) = shL off (s.wires c) ∧ ∀ w ∈ s.wires c, t.wirePins (w + off) = [] := by
  simp only [S.cloneElem, pruneOps, pruneInside, pruneCross, List.append_nil]
  have hfold : (s.wires c).flatMap (cutWire s off) = cutWireOps s off (s.wires c) := rfl
  rw [hfold]
  have hdW : (s.double off).wires (c + off) = shL off (s.wires c) := by simp [S.double, Nat.le_add_left]
  have hpend : Pending s off (s.double off) (s.wires c) := by
    refine ⟨?_, ?_, ?_⟩
    · intro w _; simp [S.double, Nat.le_add_left]
    · intro w _ q hq
      have := (h.pw_iff q w).2 hq
      simp [S.double, Nat.le_add_left, this, shO, sh]
    · intro w _ i q hq
      have hw' := (h.ow_iff i q w).2 hq
      have ho := h.ow_owned i q w hw'
      refine ⟨by simp [S.double, Nat.le_add_left, hw', shO, sh], ?_⟩
      simp only [S.double, Nat.le_add_left, if_true, Nat.add_sub_cancel]
      exact (mem_shL _ _ _).2 ⟨Nat.le_add_left _ _, by simpa using ho⟩
  have hF := cutWire_fold s h off (s.wires c) (h.wires_nd c) (s.double off) hpend
  have hrm : ∀ (t : S) (d : OId), (step t (.removeCable d (c + off))).1.wires = t.wires ∧
      (step t (.removeCable d (c + off))).1.wirePins = t.wirePins := by
    intro t d; simp only [step]; split <;> exact ⟨rfl, rfl⟩
  cases hd : s.cableDef c with
  | none =>
    simp only [optOps_none, List.append_nil]
    exact ⟨by rw [hF.1, hdW], hF.2.2⟩
  | some d =>
    simp only [optOps_some, run_append, run]
    refine ⟨by rw [(hrm _ _).1, hF.1, hdW], ?_⟩
    intro w hw
    rw [(hrm _ _).2]; exact hF.2.2 w hw

end Spydr.IR
