/-
  C07 — "Clone will orphan each element that has a parent": the root of every element clone has no parent.
-/
import Spydr.IR.Props.C07Struct
namespace Spydr.IR

/-- the seven parent pointers -/
structure ParEq (a b : S) : Prop where
  libNl : a.libNl = b.libNl
  defLib : a.defLib = b.defLib
  portDef : a.portDef = b.portDef
  cableDef : a.cableDef = b.cableDef
  instParent : a.instParent = b.instParent
  pinPort : a.pinPort = b.pinPort
  wireCable : a.wireCable = b.wireCable

theorem parEq_refl (s : S) : ParEq s s := ⟨rfl, rfl, rfl, rfl, rfl, rfl, rfl⟩

theorem parEq_trans {a b c : S} (h1 : ParEq a b) (h2 : ParEq b c) : ParEq a c :=
  ⟨h1.libNl.trans h2.libNl, h1.defLib.trans h2.defLib, h1.portDef.trans h2.portDef, h1.cableDef.trans h2.cableDef,
   h1.instParent.trans h2.instParent, h1.pinPort.trans h2.pinPort, h1.wireCable.trans h2.wireCable⟩

/-- calls that never touch a parent pointer -/
def Op.keepsParents : Op → Prop
  | .setRef _ _ => True
  | .disconnect _ _ => True
  | .disconnectFrom _ _ => True
  | _ => False

theorem step_parEq (s : S) (op : Op) (h : op.keepsParents) : ParEq (step s op).1 s := by
  cases op <;> simp only [Op.keepsParents] at h
  case disconnect w r =>
    simp only [step]
    cases r with
    | inner q => simp only []; split <;> exact ⟨rfl, rfl, rfl, rfl, rfl, rfl, rfl⟩
    | outer i q =>
      simp only []
      split
      · exact ⟨rfl, rfl, rfl, rfl, rfl, rfl, rfl⟩
      · split <;> exact ⟨rfl, rfl, rfl, rfl, rfl, rfl, rfl⟩
  case disconnectFrom w rs =>
    simp only [step]; split <;> exact ⟨rfl, rfl, rfl, rfl, rfl, rfl, rfl⟩
  case setRef i d =>
    simp only [step, S.setRefStep]
    cases d with
    | none => exact ⟨rfl, rfl, rfl, rfl, rfl, rfl, rfl⟩
    | some d' =>
      cases s.instRef i with
      | none => exact ⟨rfl, rfl, rfl, rfl, rfl, rfl, rfl⟩
      | some d0 => simp only []; split <;> exact ⟨rfl, rfl, rfl, rfl, rfl, rfl, rfl⟩

theorem run_parEq (ops : List Op) (s : S) (h : ∀ op ∈ ops, op.keepsParents) : ParEq (run s ops).1 s := by
  induction ops generalizing s with
  | nil => exact parEq_refl s
  | cons op ops ih =>
    simp only [run]
    exact parEq_trans (ih _ (fun o ho => h o (by simp [ho]))) (step_parEq s op (h op (by simp)))

@[simp] theorem optOps_none {α : Type} (f : α → List Op) : optOps (none : Option α) f = [] := rfl
@[simp] theorem optOps_some {α : Type} (a : α) (f : α → List Op) : optOps (some a) f = f a := rfl

theorem pruneCross_keepsParents (s : S) (off : OId) (k : CKind) (x : OId) : ∀ op ∈ pruneCross s off k x, op.keepsParents := by
  intro op hop
  obtain ⟨i, r, rfl⟩ := pruneCross_shape s off k x op hop
  trivial

theorem cutInner_keeps (s : S) (off q : OId) : ∀ op ∈ cutInner s off q, op.keepsParents := by
  intro op hop
  obtain ⟨w, _, hm⟩ := optOps_mem _ _ _ hop
  simp only [List.mem_singleton] at hm; subst hm; trivial

theorem cutWire_keeps (s : S) (off w : OId) : ∀ op ∈ cutWire s off w, op.keepsParents := by
  intro op hop
  simp only [cutWire] at hop
  split at hop
  · simp at hop
  · simp only [List.mem_singleton] at hop; subst hop; trivial

theorem keeps_append {A B : List Op} (hA : ∀ o ∈ A, o.keepsParents) (hB : ∀ o ∈ B, o.keepsParents) :
    ∀ o ∈ A ++ B, o.keepsParents := by
  intro o ho
  rcases List.mem_append.1 ho with h | h
  · exact hA o h
  · exact hB o h

/-- run of `A ++ [op] ++ B` where A and B keep the parent pointers: the pointers after are those after the
    single call `op` made in a state with the pointers of the start -/
theorem run_sandwich (s : S) (A B : List Op) (op : Op) (hA : ∀ o ∈ A, o.keepsParents) (hB : ∀ o ∈ B, o.keepsParents) :
    ParEq (run s (A ++ [op] ++ B)).1 (step (run s A).1 op).1 ∧ ParEq (run s A).1 s := by
  refine ⟨?_, run_parEq A s hA⟩
  rw [run_append, run_append]
  simp only [run]
  exact run_parEq B _ hB

/-- **the clone is an orphan**: whatever the element kind, the root of the copy has no parent. -/
theorem cloneElem_detached (s : S) (off : OId) (k : CKind) (x : OId) :
    match k with
    | .netlist => True
    | .library => (s.cloneElem off k x).libNl (x + off) = none
    | .definition => (s.cloneElem off k x).defLib (x + off) = none
    | .«instance» => (s.cloneElem off k x).instParent (x + off) = none
    | .port => (s.cloneElem off k x).portDef (x + off) = none
    | .cable => (s.cloneElem off k x).cableDef (x + off) = none
    | .wire => (s.cloneElem off k x).wireCable (x + off) = none
    | .pin => (s.cloneElem off k x).pinPort (x + off) = none := by
  have hB := pruneCross_keepsParents s off k x
  have hdbl : ∀ y, (s.double off).libNl (y + off) = shO off (s.libNl y) ∧ (s.double off).defLib (y + off) = shO off (s.defLib y) ∧
      (s.double off).instParent (y + off) = shO off (s.instParent y) ∧ (s.double off).portDef (y + off) = shO off (s.portDef y) ∧
      (s.double off).cableDef (y + off) = shO off (s.cableDef y) ∧ (s.double off).wireCable (y + off) = shO off (s.wireCable y) ∧
      (s.double off).pinPort (y + off) = shO off (s.pinPort y) := by
    intro y; simp [S.double, Nat.le_add_left]
  cases k with
  | netlist => trivial
  | library =>
    simp only [S.cloneElem, pruneOps, pruneInside]
    have hA : ∀ o ∈ (s.defs x).flatMap (fun d => ((List.range off).filter (fun j => s.refs d j && !s.instInLib x j)).map (fun j => Op.setRef (j + off) none)), o.keepsParents := by
      intro o ho; simp only [List.mem_flatMap, List.mem_map] at ho; obtain ⟨d, _, j, _, rfl⟩ := ho; trivial
    cases hp : s.libNl x with
    | none =>
      simp only [optOps_none, List.append_nil]
      refine Eq.trans (congrFun (run_parEq _ _ ?_).libNl (x + off)) ?_
      · exact keeps_append hA hB
      · rw [(hdbl x).1, hp]; rfl
    | some n =>
      simp only [optOps_some]
      have h := run_sandwich (s.double off) _ (pruneCross s off .library x) (.removeLibrary (n + off) (x + off)) hA hB
      
      refine Eq.trans (congrFun h.1.libNl (x + off)) ?_
      have hs : (run (s.double off) _).1.libNl (x + off) = some (n + off) :=
        (congrFun h.2.libNl (x + off)).trans (by rw [(hdbl x).1, hp]; rfl)
      simp only [step]
      simp [hs]
  | definition =>
    simp only [S.cloneElem, pruneOps, pruneInside]
    have hA : ∀ o ∈ ((List.range off).filter (fun j => s.refs x j)).map (fun j => Op.setRef (j + off) none), o.keepsParents := by
      intro o ho; simp only [List.mem_map] at ho; obtain ⟨j, _, rfl⟩ := ho; trivial
    cases hp : s.defLib x with
    | none =>
      simp only [optOps_none, List.append_nil]
      refine Eq.trans (congrFun (run_parEq _ _ ?_).defLib (x + off)) ?_
      · exact keeps_append hA hB
      · rw [(hdbl x).2.1, hp]; rfl
    | some l =>
      simp only [optOps_some]
      have h := run_sandwich (s.double off) _ (pruneCross s off .definition x) (.removeDefinition (l + off) (x + off)) hA hB
      
      refine Eq.trans (congrFun h.1.defLib (x + off)) ?_
      have hs : (run (s.double off) _).1.defLib (x + off) = some (l + off) :=
        (congrFun h.2.defLib (x + off)).trans (by rw [(hdbl x).2.1, hp]; rfl)
      simp only [step]
      simp [hs]
  | «instance» =>
    simp only [S.cloneElem, pruneOps, pruneInside]
    have hA : ∀ o ∈ (s.instPins x).flatMap (fun q => optOps (s.opWire x q) fun w => [Op.disconnect (w + off) (.outer (x + off) (q + off))]), o.keepsParents := by
      intro o ho
      simp only [List.mem_flatMap] at ho
      obtain ⟨q, _, hm⟩ := ho
      obtain ⟨w, _, hm⟩ := optOps_mem _ _ _ hm
      simp only [List.mem_singleton] at hm; subst hm; trivial
    cases hp : s.instParent x with
    | none =>
      simp only [optOps_none, List.append_nil]
      refine Eq.trans (congrFun (run_parEq _ _ ?_).instParent (x + off)) ?_
      · exact keeps_append hA hB
      · rw [(hdbl x).2.2.1, hp]; rfl
    | some d =>
      simp only [optOps_some]
      have h := run_sandwich (s.double off) _ (pruneCross s off .«instance» x) (.removeChild (d + off) (x + off)) hA hB
      
      refine Eq.trans (congrFun h.1.instParent (x + off)) ?_
      have hs : (run (s.double off) _).1.instParent (x + off) = some (d + off) :=
        (congrFun h.2.instParent (x + off)).trans (by rw [(hdbl x).2.2.1, hp]; rfl)
      simp only [step]
      simp [hs]
  | port =>
    simp only [S.cloneElem, pruneOps, pruneInside, pruneCross, List.append_nil]
    have hA : ∀ o ∈ (s.pins x).flatMap (cutInner s off), o.keepsParents := by
      intro o ho; simp only [List.mem_flatMap] at ho; obtain ⟨q, _, hm⟩ := ho; exact cutInner_keeps s off q o hm
    cases hp : s.portDef x with
    | none =>
      simp only [optOps_none, List.append_nil]
      refine Eq.trans (congrFun (run_parEq _ _ ?_).portDef (x + off)) ?_
      · exact hA
      · rw [(hdbl x).2.2.2.1, hp]; rfl
    | some d =>
      simp only [optOps_some]
      have h := run_sandwich (s.double off) _ [] (.removePort (d + off) (x + off)) hA (by simp)
      simp only [List.append_nil] at h
      refine Eq.trans (congrFun h.1.portDef (x + off)) ?_
      have hs : (run (s.double off) _).1.portDef (x + off) = some (d + off) :=
        (congrFun h.2.portDef (x + off)).trans (by rw [(hdbl x).2.2.2.1, hp]; rfl)
      simp only [step]
      simp [hs]
  | cable =>
    simp only [S.cloneElem, pruneOps, pruneInside, pruneCross, List.append_nil]
    have hA : ∀ o ∈ (s.wires x).flatMap (cutWire s off), o.keepsParents := by
      intro o ho; simp only [List.mem_flatMap] at ho; obtain ⟨w, _, hm⟩ := ho; exact cutWire_keeps s off w o hm
    cases hp : s.cableDef x with
    | none =>
      simp only [optOps_none, List.append_nil]
      refine Eq.trans (congrFun (run_parEq _ _ ?_).cableDef (x + off)) ?_
      · exact hA
      · rw [(hdbl x).2.2.2.2.1, hp]; rfl
    | some d =>
      simp only [optOps_some]
      have h := run_sandwich (s.double off) _ [] (.removeCable (d + off) (x + off)) hA (by simp)
      simp only [List.append_nil] at h
      refine Eq.trans (congrFun h.1.cableDef (x + off)) ?_
      have hs : (run (s.double off) _).1.cableDef (x + off) = some (d + off) :=
        (congrFun h.2.cableDef (x + off)).trans (by rw [(hdbl x).2.2.2.2.1, hp]; rfl)
      simp only [step]
      simp [hs]
  | wire =>
    simp only [S.cloneElem, pruneOps, pruneInside, pruneCross, List.append_nil]
    have hA : ∀ o ∈ cutWire s off x, o.keepsParents := by
      exact cutWire_keeps s off x
    cases hp : s.wireCable x with
    | none =>
      simp only [optOps_none, List.append_nil]
      refine Eq.trans (congrFun (run_parEq _ _ ?_).wireCable (x + off)) ?_
      · exact hA
      · rw [(hdbl x).2.2.2.2.2.1, hp]; rfl
    | some c =>
      simp only [optOps_some]
      have h := run_sandwich (s.double off) _ [] (.removeWire (c + off) (x + off)) hA (by simp)
      simp only [List.append_nil] at h
      refine Eq.trans (congrFun h.1.wireCable (x + off)) ?_
      have hs : (run (s.double off) _).1.wireCable (x + off) = some (c + off) :=
        (congrFun h.2.wireCable (x + off)).trans (by rw [(hdbl x).2.2.2.2.2.1, hp]; rfl)
      simp only [step]
      simp [hs]
  | pin =>
    simp only [S.cloneElem, pruneOps, pruneInside, pruneCross, List.append_nil]
    have hA : ∀ o ∈ cutInner s off x, o.keepsParents := by
      exact cutInner_keeps s off x
    cases hp : s.pinPort x with
    | none =>
      simp only [optOps_none, List.append_nil]
      refine Eq.trans (congrFun (run_parEq _ _ ?_).pinPort (x + off)) ?_
      · exact hA
      · rw [(hdbl x).2.2.2.2.2.2, hp]; rfl
    | some p =>
      simp only [optOps_some]
      have h := run_sandwich (s.double off) _ [] (.removePin (p + off) (x + off)) hA (by simp)
      simp only [List.append_nil] at h
      refine Eq.trans (congrFun h.1.pinPort (x + off)) ?_
      have hs : (run (s.double off) _).1.pinPort (x + off) = some (p + off) :=
        (congrFun h.2.pinPort (x + off)).trans (by rw [(hdbl x).2.2.2.2.2.2, hp]; rfl)
      simp only [step]
      simp [hs]

end Spydr.IR
