/-
  C07 (second sentence) — element-level clones: library, definition, instance, port, cable, wire, pin.
  Model: `S.cloneElem` (Spydr/IR/CloneElem.lean) = `S.double` followed by a script of public calls.
-/
import Spydr.IR.CloneElem
import Spydr.IR.Props.C07
namespace Spydr.IR

theorem run_append (s : S) (a b : List Op) : (run s (a ++ b)).1 = (run (run s a).1 b).1 := by
  induction a generalizing s with
  | nil => rfl
  | cons op a ih => simp only [List.cons_append, run]; exact ih _

/-- **the result of every element clone is well-formed** (originals, the clone and the shared bookkeeping
    together satisfy the C01/C02 invariant). -/
theorem cloneElem_inv (s : S) (off : OId) (k : CKind) (x : OId) (h : Inv s) (hb : Below s off) :
    Inv (s.cloneElem off k x) :=
  run_inv _ _ (double_inv s off h hb)

/-! ### never modifies the source -/

theorem mem_shPL_inR (off : OId) (l : List PinRef) : ∀ r ∈ shPL off l, r.inR (CopyR off) := by
  intro r hr
  simp only [shPL, List.mem_map] at hr
  obtain ⟨r0, _, rfl⟩ := hr
  cases r0 <;> simp [shP, sh, PinRef.inR, CopyR]

theorem optOps_mem {α : Type} (o : Option α) (f : α → List Op) (op : Op) (h : op ∈ optOps o f) :
    ∃ a, o = some a ∧ op ∈ f a := by
  cases o with
  | none => simp [optOps] at h
  | some a => exact ⟨a, rfl, h⟩

/-- the first part of the script mentions twins only -/
theorem pruneInside_inside (s : S) (off : OId) (k : CKind) (x : OId) :
    ∀ op ∈ pruneInside s off k x, op.inside (CopyR off) := by
  intro op hop
  have hsh := mem_shPL_inR off
  by_cases hk : k = .netlist
  · subst hk
    simp only [pruneInside, List.mem_flatMap, List.mem_map, List.mem_filter] at hop
    obtain ⟨l, _, d, _, j, _, rfl⟩ := hop
    simp [Op.inside, CopyR, optIn]
  revert hk
  cases k <;> intro hk <;> (try exact absurd rfl hk) <;>
    simp only [pruneInside, List.mem_append, List.mem_flatMap, List.mem_map, List.mem_filter, cutInner, cutWire] at hop
  all_goals
    rcases hop with hop | hop
    all_goals first
      | (obtain ⟨a, _, hm⟩ := optOps_mem _ _ _ hop
         simp only [List.mem_singleton] at hm; subst hm
         simp [Op.inside, CopyR, PinRef.inR])
      | (obtain ⟨j, _, rfl⟩ := hop; simp [Op.inside, CopyR, optIn])
      | (obtain ⟨y, _, hm⟩ := hop
         first
           | (obtain ⟨a, _, hm⟩ := optOps_mem _ _ _ hm
              simp only [List.mem_singleton] at hm; subst hm
              simp [Op.inside, CopyR, PinRef.inR])
           | (split at hm
              · simp at hm
              · simp only [List.mem_singleton] at hm; subst hm
                exact ⟨by simp [CopyR], hsh _⟩)
           | (obtain ⟨j, _, rfl⟩ := hm; simp [Op.inside, CopyR, optIn]))
      | (split at hop
         · simp at hop
         · simp only [List.mem_singleton] at hop; subst hop
           exact ⟨by simp [CopyR], hsh _⟩)

/-- what a cross re-point needs of the heap: outer pins of a copy-side instance sit on copy-side wires -/
def OuterHome (s : S) (R : OId → Prop) : Prop :=
  ∀ w i q, PinRef.outer i q ∈ s.wirePins w → R i → R w

/-- giving a copy-side instance a reference — to ANY definition, shared originals included — changes no
    field of any object outside the copy (only `refs d i` with `i` the copy-side instance moves: the shared
    definition's reference set gains the clone, as documented). -/
theorem setRef_cross (s : S) (R : OId → Prop) (i d' : OId) (hi : R i) (hw : OuterHome s R) :
    OutEq (step s (.setRef i (some d'))).1 s R ∧ OuterHome (step s (.setRef i (some d'))).1 R := by
  simp only [step, S.setRefStep]
  cases hr : s.instRef i with
  | none =>
    simp only [S.firstRef]
    refine ⟨⟨?_, fun _ _ _ _ => rfl, ?_⟩, hw⟩
    · intro x hx
      have hxi : x ≠ i := fun e => hx (e ▸ hi)
      simp [hxi]
    · intro e i' _ hi'
      have : i' ≠ i := fun e1 => hi' (e1 ▸ hi)
      simp [this]
  | some d =>
    simp only []
    split
    · exact ⟨outEq_refl s R, hw⟩
    · have hmap : ∀ w, ¬ R w → (s.wirePins w).map (fun r => match r with
            | .inner q => PinRef.inner q
            | .outer i' q => if i' = i then (match s.partner d d' q with
                                              | some q' => PinRef.outer i q'
                                              | none => PinRef.outer i' q) else PinRef.outer i' q) = s.wirePins w := by
        intro w hnw
        conv => rhs; rw [← List.map_id (s.wirePins w)]
        apply List.map_congr_left
        intro r hr'
        cases r with
        | inner q => rfl
        | outer i' q =>
          have hne : i' ≠ i := by intro e; subst e; exact hnw (hw w i' q hr' hi)
          simp [hne]
      simp only [S.repoint, S.repointWith]
      refine ⟨⟨?_, ?_, ?_⟩, ?_⟩
      · intro x hx
        have hxi : x ≠ i := fun e => hx (e ▸ hi)
        simp only [hxi, if_false, true_and, and_true]
        exact hmap x hx
      · intro i' q hi' _
        have : i' ≠ i := fun e => hi' (e ▸ hi)
        simp [this]
      · intro e i' _ hi'
        have : i' ≠ i := fun e1 => hi' (e1 ▸ hi)
        simp [this]
      · intro w i' q h hi'
        simp only [List.mem_map] at h
        obtain ⟨r, hr', he⟩ := h
        cases r with
        | inner q0 => simp at he
        | outer i0 q0 =>
          simp only at he
          split at he
          · rename_i e0
            split at he
            · simp only [PinRef.outer.injEq] at he
              exact hw w i0 q0 hr' (e0 ▸ hi)
            · simp only [PinRef.outer.injEq] at he
              exact hw w i0 q0 hr' (he.1 ▸ hi')
          · simp only [PinRef.outer.injEq] at he
            exact hw w i0 q0 hr' (he.1 ▸ hi')

/-- every call of the second part is such a re-point of a twin -/
theorem pruneCross_shape (s : S) (off : OId) (k : CKind) (x : OId) :
    ∀ op ∈ pruneCross s off k x, ∃ i r, op = .setRef (i + off) (some r) := by
  intro op hop
  cases k <;> simp only [pruneCross, List.mem_flatMap, List.not_mem_nil, List.mem_append] at hop
  · rcases hop with ⟨l, _, d, _, c, _, hm⟩ | hm
    · obtain ⟨r, _, hm⟩ := optOps_mem _ _ _ hm
      split at hm
      · simp at hm
      · simp only [List.mem_singleton] at hm; exact ⟨c, r, hm⟩
    · obtain ⟨t, _, hm⟩ := optOps_mem _ _ _ hm
      obtain ⟨r, _, hm⟩ := optOps_mem _ _ _ hm
      split at hm
      · simp at hm
      · simp only [List.mem_singleton] at hm; exact ⟨t, r, hm⟩
  · obtain ⟨d, _, c, _, hm⟩ := hop
    obtain ⟨r, _, hm⟩ := optOps_mem _ _ _ hm
    split at hm
    · simp at hm
    · simp only [List.mem_singleton] at hm; exact ⟨c, r, hm⟩
  · obtain ⟨c, _, hm⟩ := hop
    obtain ⟨r, _, hm⟩ := optOps_mem _ _ _ hm
    simp only [List.mem_singleton] at hm; exact ⟨c, r, hm⟩
  · obtain ⟨r, _, hm⟩ := optOps_mem _ _ _ hop
    simp only [List.mem_singleton] at hm; exact ⟨x, r, hm⟩

theorem run_cross (R : OId → Prop) (ops : List Op) (s : S) (hw : OuterHome s R)
    (ho : ∀ op ∈ ops, ∃ i r, R i ∧ op = .setRef i (some r)) :
    OutEq (run s ops).1 s R := by
  induction ops generalizing s with
  | nil => exact outEq_refl s R
  | cons op ops ih =>
    simp only [run]
    obtain ⟨i, r, hi, rfl⟩ := ho op (by simp)
    have h1 := setRef_cross s R i r hi hw
    exact outEq_trans (ih _ h1.2 (fun o h => ho o (by simp [h]))) h1.1

/-- **an element clone never modifies the source**: after `x.clone()` — for every element kind — every field
    of every pre-existing object is what it was; the one documented exception is not a field of an
    original-side pair: `refs d i` for the clone-side instance `i` (a shared definition's reference set gains
    the cloned instance), which `OutEq` (both indices outside the copy) deliberately does not constrain. -/
theorem cloneElem_source_untouched (s : S) (off : OId) (k : CKind) (x : OId) (hb : Below s off) :
    OutEq (s.cloneElem off k x) s (CopyR off) := by
  simp only [S.cloneElem, pruneOps, run_append]
  have h1 := run_sep (CopyR off) (pruneInside s off k x) (s.double off) (sep_double s off hb) (pruneInside_inside s off k x)
  have hw : OuterHome (run (s.double off) (pruneInside s off k x)).1 (CopyR off) :=
    fun w i q h hi => (h1.1.wpO w i q h).1.2 hi
  have h2 := run_cross (CopyR off) (pruneCross s off k x) _ hw (by
    intro op hop
    obtain ⟨i, r, rfl⟩ := pruneCross_shape s off k x op hop
    exact ⟨i + off, r, by simp [CopyR], rfl⟩)
  have fr := cloneNetlist_frame s off
  exact outEq_trans h2 (outEq_trans h1.2 ⟨fun x hx => fr.1 x (Nat.not_le.mp hx),
    fun i q hi hq => fr.2.1 i q (Nat.not_le.mp hi) (Nat.not_le.mp hq),
    fun d i hd hi => fr.2.2 d i (Nat.not_le.mp hd) (Nat.not_le.mp hi)⟩)

/-- and the bookkeeping it does change is consistent: in the result an instance is in a definition's
    reference set iff it references it — for clones and shared originals alike (from `cloneElem_inv`). -/
theorem cloneElem_reference_sets (s : S) (off : OId) (k : CKind) (x : OId) (h : Inv s) (hb : Below s off) (d i : OId) :
    (s.cloneElem off k x).refs d i = true ↔ (s.cloneElem off k x).instRef i = some d :=
  (cloneElem_inv s off k x h hb).refs_iff d i

/-! Non-vacuity: in the demo heap of Props/C02 (everything below 10) clone the instance, the definition
    and a port; the clone of instance 0 is 10, detached, with the same (original) reference and pins. -/
example : let t := (run S.init demo2).1.cloneElem 10 .«instance» 0
          t.instParent 10 = none ∧ t.instRef 10 = (run S.init demo2).1.instRef 0 ∧
          t.instPins 10 = (run S.init demo2).1.instPins 0 ∧
          ((run S.init demo2).1.cloneElemRes 10 .«instance» 0).all (· == .ok) := by decide

end Spydr.IR
