/-
  C07 — `Instance.clone()`: "The instance will maintain its reference but will not be connected to any wires and
  will not be the child of any definition. outer pins will maintain their connections to inner pins."
-/
import Spydr.IR.Props.C07Leaf
namespace Spydr.IR

/-- fields a disconnect of an outer pin never touches -/
structure DiscEq (a b : S) : Prop where
  instPins : a.instPins = b.instPins
  instRef : a.instRef = b.instRef
  refs : a.refs = b.refs
  ports : a.ports = b.ports
  pins : a.pins = b.pins
  instParent : a.instParent = b.instParent
  children : a.children = b.children

theorem discEq_trans {a b c : S} (h1 : DiscEq a b) (h2 : DiscEq b c) : DiscEq a c :=
  ⟨h1.instPins.trans h2.instPins, h1.instRef.trans h2.instRef, h1.refs.trans h2.refs, h1.ports.trans h2.ports,
   h1.pins.trans h2.pins, h1.instParent.trans h2.instParent, h1.children.trans h2.children⟩

theorem flatMap_congr' {α β : Type} (l : List α) (f g : α → List β) (h : ∀ x ∈ l, f x = g x) : l.flatMap f = l.flatMap g := by
  induction l with
  | nil => rfl
  | cons x xs ih =>
    simp only [List.flatMap_cons]
    rw [h x (by simp), ih (fun y hy => h y (by simp [hy]))]

/-- the calls that take the wired outer pins of instance `I` (keys `q + off`, `q ∈ qs`) off their wires -/
def discOps (off I : OId) (W : OId → Option OId) (qs : List OId) : List Op :=
  qs.flatMap (fun q => optOps (W q) fun w => [Op.disconnect (w + off) (.outer I (q + off))])

theorem disc_fold (off I : OId) (W : OId → Option OId) (qs : List OId) (hnd : qs.Nodup) (t : S)
    (hin : ∀ q ∈ qs, (q + off) ∈ t.instPins I)
    (hW : ∀ q ∈ qs, t.opWire I (q + off) = shO off (W q)) :
    DiscEq (run t (discOps off I W qs)).1 t ∧ (∀ q ∈ qs, (run t (discOps off I W qs)).1.opWire I (q + off) = none) ∧
    (∀ q', (∀ q ∈ qs, q' ≠ q + off) → (run t (discOps off I W qs)).1.opWire I q' = t.opWire I q') := by
  induction qs generalizing t with
  | nil => exact ⟨⟨rfl, rfl, rfl, rfl, rfl, rfl, rfl⟩, by simp, fun _ _ => rfl⟩
  | cons q qs ih =>
    have hq := hW q (by simp)
    have hnd' := (List.nodup_cons.1 hnd).2
    have hnq : q ∉ qs := (List.nodup_cons.1 hnd).1
    have hne : ∀ x ∈ qs, x + off ≠ q + off := fun x hx e => hnq (by have : x = q := Nat.add_right_cancel e; exact this ▸ hx)
    cases hw : W q with
    | none =>
      have hops : discOps off I W (q :: qs) = discOps off I W qs := by simp [discOps, hw]
      rw [hops]
      have := ih hnd' t (fun x hx => hin x (by simp [hx])) (fun x hx => hW x (by simp [hx]))
      refine ⟨this.1, ?_, ?_⟩
      · intro x hx
        rcases List.mem_cons.1 hx with rfl | hx
        · rw [this.2.2 (x + off) (fun y hy e => hne y hy e.symm), hq, hw]; rfl
        · exact this.2.1 x hx
      · intro q' hq'
        exact this.2.2 q' (fun y hy => hq' y (by simp [hy]))
    | some w =>
      have hops : discOps off I W (q :: qs) = Op.disconnect (w + off) (.outer I (q + off)) :: discOps off I W qs := by
        simp [discOps, hw]
      rw [hops]
      simp only [run]
      have hmem := hin q (by simp)
      have hop : t.opWire I (q + off) = some (w + off) := by rw [hq, hw]; rfl
      have hs1 : (step t (.disconnect (w + off) (.outer I (q + off)))).1.instPins = t.instPins ∧
          (step t (.disconnect (w + off) (.outer I (q + off)))).1.opWire =
            (fun i' q' => if i' = I ∧ q' = q + off then none else t.opWire i' q') ∧
          DiscEq (step t (.disconnect (w + off) (.outer I (q + off)))).1 t := by
        simp only [step, hmem, not_true_eq_false, if_false, hop, ne_eq]
        exact ⟨trivial, trivial, ⟨rfl, rfl, rfl, rfl, rfl, rfl, rfl⟩⟩
      have := ih hnd' (step t (.disconnect (w + off) (.outer I (q + off)))).1
        (fun x hx => by rw [hs1.1]; exact hin x (by simp [hx]))
        (fun x hx => by
          rw [hs1.2.1]
          simp only [hne x hx, and_false, if_false]
          exact hW x (by simp [hx]))
      refine ⟨discEq_trans this.1 hs1.2.2, ?_, ?_⟩
      · intro x hx
        rcases List.mem_cons.1 hx with rfl | hx
        · rw [this.2.2 (x + off) (fun y hy e => hne y hy e.symm), hs1.2.1]
          simp
        · exact this.2.1 x hx
      · intro q' hq'
        rw [this.2.2 q' (fun y hy => hq' y (by simp [hy])), hs1.2.1]
        have : q' ≠ q + off := hq' q (by simp)
        simp [this]

/-- **`Instance.clone()` as documented**: the copy keeps the reference, carries (a rearrangement of) the same
    inner pins — of the ORIGINAL definition — and none of its outer pins is on a wire. -/
theorem cloneInst_contract (s : S) (off i : OId) (h : Inv s) (hb : Below s off) :
    let t := s.cloneElem off .«instance» i
    t.instRef (i + off) = s.instRef i ∧ (t.instPins (i + off)).Perm (s.instPins i) ∧ ∀ q, t.opWire (i + off) q = none := by
  simp only [S.cloneElem, pruneOps, pruneInside, pruneCross]
  -- state after the disconnects
  have hdP : (s.double off).instPins (i + off) = shL off (s.instPins i) := by simp [S.double, Nat.le_add_left]
  have hdR : (s.double off).instRef (i + off) = shO off (s.instRef i) := by simp [S.double, Nat.le_add_left]
  have hdO : ∀ q, (s.double off).opWire (i + off) (q + off) = shO off (s.opWire i q) := by
    intro q; simp [S.double, Nat.le_add_left]
  have hD := disc_fold off (i + off) (fun q => s.opWire i q) (s.instPins i) (h.mirror_nd i) (s.double off)
    (fun q hq => by rw [hdP]; exact (mem_shL _ _ _).2 ⟨Nat.le_add_left _ _, by simpa using hq⟩) (fun q _ => hdO q)
  obtain ⟨hde, hnone, hother⟩ := hD
  -- every key of the twin is unwired after the disconnects
  have hall : ∀ q', (run (s.double off) (discOps off (i + off) (fun q => s.opWire i q) (s.instPins i))).1.opWire (i + off) q' = none := by
    intro q'
    by_cases hq' : ∃ q ∈ s.instPins i, q' = q + off
    · obtain ⟨q, hq, rfl⟩ := hq'; exact hnone q hq
    · rw [hother q' (fun q hq e => hq' ⟨q, hq, e⟩)]
      -- not a key of the instance: the double has nothing there (ow_owned)
      simp only [S.double]
      by_cases h1 : off ≤ i + off ∧ off ≤ q'
      · simp only [h1, and_self, if_true, Nat.add_sub_cancel]
        cases ho : s.opWire i (q' - off) with
        | none => rfl
        | some w =>
          exfalso
          exact hq' ⟨q' - off, h.ow_owned i _ w ho, (Nat.sub_add_cancel h1.2).symm⟩
      · have : ¬ off ≤ q' := fun hle => h1 ⟨Nat.le_add_left _ _, hle⟩
        simp [Nat.le_add_left, this]
  have hfold : (s.instPins i).flatMap (fun q => optOps (s.opWire i q) fun w =>
      [Op.disconnect (w + off) (.outer (i + off) (q + off))]) = discOps off (i + off) (fun q => s.opWire i q) (s.instPins i) := rfl
  rw [hfold]
  generalize discOps off (i + off) (fun q => s.opWire i q) (s.instPins i) = A at hde hall
  -- removeChild touches none of the three fields
  have hrc : ∀ (t : S) (d : OId), (step t (.removeChild d (i + off))).1.instRef = t.instRef ∧
      (step t (.removeChild d (i + off))).1.instPins = t.instPins ∧ (step t (.removeChild d (i + off))).1.opWire = t.opWire ∧
      (step t (.removeChild d (i + off))).1.ports = t.ports ∧ (step t (.removeChild d (i + off))).1.pins = t.pins := by
    intro t d; simp only [step]; split <;> exact ⟨rfl, rfl, rfl, rfl, rfl⟩
  -- state B after A ++ optional removeChild
  have hB : ∃ B : S, (∀ X, (run (s.double off) (A ++ (optOps (s.instParent i) fun d => [Op.removeChild (d + off) (i + off)]) ++ X)).1 = (run B X).1) ∧
      B.instRef (i + off) = shO off (s.instRef i) ∧ B.instPins (i + off) = shL off (s.instPins i) ∧
      (∀ q, B.opWire (i + off) q = none) ∧ B.ports = (s.double off).ports ∧ B.pins = (s.double off).pins := by
    cases hp : s.instParent i with
    | none =>
      refine ⟨(run (s.double off) A).1, fun X => by simp only [optOps_none, List.append_nil, run_append], ?_, ?_, hall, hde.ports, hde.pins⟩
      · rw [hde.instRef, hdR]
      · rw [hde.instPins, hdP]
    | some d =>
      refine ⟨(step (run (s.double off) A).1 (.removeChild (d + off) (i + off))).1, fun X => by
          simp only [optOps_some, run_append, run], ?_, ?_, ?_, ?_, ?_⟩
      · rw [(hrc _ _).1, hde.instRef, hdR]
      · rw [(hrc _ _).2.1, hde.instPins, hdP]
      · intro q; rw [(hrc _ _).2.2.1]; exact hall q
      · rw [(hrc _ _).2.2.2.1, hde.ports]
      · rw [(hrc _ _).2.2.2.2, hde.pins]
  obtain ⟨B, hrun, hBr, hBp, hBo, hBports, hBpins⟩ := hB
  rw [hrun]
  cases hr : s.instRef i with
  | none =>
    simp only [optOps_none, run]
    refine ⟨by rw [hBr, hr]; rfl, ?_, hBo⟩
    rw [hBp, h.noref i hr]; simp [shL]
  | some r =>
    simp only [optOps_some, run, step, S.setRefStep]
    have hBr' : B.instRef (i + off) = some (r + off) := by rw [hBr, hr]; rfl
    rw [hBr']
    simp only []
    -- the twin definition has the shape of the original: the re-pointing is accepted
    have hr_lt : r < off := (hb.instRef i r hr).2
    have hshape : B.shape (r + off) = B.shape r := by
      simp only [S.shape, hBports, hBpins, S.double, Nat.le_add_left, if_true, Nat.add_sub_cancel,
        Nat.not_le.mpr hr_lt, if_false, shL, List.map_map]
      apply List.map_congr_left
      intro p hp
      have hp_lt : p < off := (hb.ports r p hp).2
      simp [sh, Nat.le_add_left, Nat.not_le.mpr hp_lt]
    simp only [hshape, ne_eq, not_true_eq_false, if_false]
    refine ⟨by simp [S.repoint, S.repointWith], ?_, ?_⟩
    · -- pins of the original definition, which the original instance carries too
      simp only [S.repoint, S.repointWith, if_true]
      have hflat : B.flat r = s.flat r := by
        simp only [S.flat, hBports, hBpins, S.double, Nat.not_le.mpr hr_lt, if_false]
        apply flatMap_congr'
        intro p hp
        have hp_lt : p < off := (hb.ports r p hp).2
        simp [Nat.not_le.mpr hp_lt]
      rw [hflat]
      refine (List.perm_ext_iff_of_nodup (flat_nodup s h r) (h.mirror_nd i)).2 ?_
      intro q
      rw [h.mirror i r hr q]
      simp only [S.flat, List.mem_flatMap]
      constructor
      · rintro ⟨p, hp, hq⟩; exact ⟨p, (h.ports_iff r p).1 hp, (h.pins_iff p q).1 hq⟩
      · rintro ⟨p, hp, hq⟩; exact ⟨p, (h.ports_iff r p).2 hp, (h.pins_iff p q).2 hq⟩
    · intro q
      simp only [S.repoint, S.repointWith, if_true]
      split
      · exact hBo _
      · rfl

end Spydr.IR
