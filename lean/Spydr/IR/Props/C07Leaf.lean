/-
  C07 — the documented contract of the small clones: "Pins and wires will be cloned but disconnected from all
  other pins and wires."
-/
import Spydr.IR.Props.C07Detached
namespace Spydr.IR

/-- `InnerPin.clone()`: the copy is on no wire (and, `cloneElem_detached`, in no port). -/
theorem clonePin_unwired (s : S) (off q : OId) : (s.cloneElem off .pin q).pinWire (q + off) = none := by
  simp only [S.cloneElem, pruneOps, pruneInside, pruneCross, List.append_nil, cutInner]
  have hd : (s.double off).pinWire (q + off) = shO off (s.pinWire q) := by simp [S.double, Nat.le_add_left]
  have hrm : ∀ (t : S) (p : OId), (step t (.removePin p (q + off))).1.pinWire = t.pinWire := by
    intro t p; simp only [step]; split <;> rfl
  cases hw : s.pinWire q with
  | none =>
    simp only [optOps_none, List.nil_append]
    cases hp : s.pinPort q with
    | none => simp only [optOps_none, run]; rw [hd, hw]; rfl
    | some p => simp only [optOps_some, run]; rw [hrm, hd, hw]; rfl
  | some w =>
    simp only [optOps_some]
    have h1 : (step (s.double off) (.disconnect (w + off) (.inner (q + off)))).1.pinWire (q + off) = none := by
      simp only [step]
      have : (s.double off).pinWire (q + off) = some (w + off) := by rw [hd, hw]; rfl
      simp [this]
    cases hp : s.pinPort q with
    | none => simp only [optOps_none, List.append_nil, run]; exact h1
    | some p => simp only [optOps_some, List.singleton_append, run]; rw [hrm]; exact h1

/-- `Wire.clone()`: the copy lists no pin (and, `cloneElem_detached`, belongs to no cable). -/
theorem cloneWire_unwired (s : S) (off w : OId) (h : Inv s) : (s.cloneElem off .wire w).wirePins (w + off) = [] := by
  simp only [S.cloneElem, pruneOps, pruneInside, pruneCross, List.append_nil, cutWire]
  have hd : (s.double off).wirePins (w + off) = shPL off (s.wirePins w) := by simp [S.double, Nat.le_add_left]
  have hrm : ∀ (t : S) (c : OId), (step t (.removeWire c (w + off))).1.wirePins = t.wirePins := by
    intro t c; simp only [step]; split <;> rfl
  by_cases he : s.wirePins w = []
  · simp only [he, if_true, List.nil_append]
    cases hc : s.wireCable w with
    | none => simp only [optOps_none, run]; rw [hd, he]; rfl
    | some c => simp only [optOps_some, run]; rw [hrm, hd, he]; rfl
  · simp only [he, if_false]
    -- the bulk disconnect of everything on the twin wire is accepted and empties it
    have h1 : (step (s.double off) (.disconnectFrom (w + off) (shPL off (s.wirePins w)))).1.wirePins (w + off) = [] := by
      simp only [step]
      split
      · rename_i hbad
        exfalso
        rw [List.any_eq_true] at hbad
        obtain ⟨r, hr, hb⟩ := hbad
        simp only [shPL, List.mem_map] at hr
        obtain ⟨r0, hr0, rfl⟩ := hr
        cases r0 with
        | inner q =>
          have := (h.pw_iff q w).2 hr0
          simp [shP, sh, S.double, Nat.le_add_left, this, shO] at hb
        | outer i q =>
          have hw' := (h.ow_iff i q w).2 hr0
          have ho := h.ow_owned i q w hw'
          simp [shP, sh, S.double, Nat.le_add_left, hw', shO, mem_shL, ho] at hb
      · simp only [if_true, hd]
        rw [List.filter_eq_nil_iff]
        intro a ha; simp [ha]
    cases hc : s.wireCable w with
    | none => simp only [optOps_none, List.append_nil, run]; exact h1
    | some c => simp only [optOps_some, List.singleton_append, run]; rw [hrm]; exact h1

end Spydr.IR
