/-
  C07 — "same internal structure" for library / definition / instance clones: the script that cuts the clone
  loose and re-points shared references never touches the containment fields or the inner pin–wire links, so
  inside the clone they are the shifted originals (cloneNetlist_iso).
-/
import Spydr.IR.Props.C07Elem
namespace Spydr.IR

/-- the fields that make up the internal structure of a definition (and of everything below it) -/
structure StructEq (a b : S) : Prop where
  ports : a.ports = b.ports
  pins : a.pins = b.pins
  cables : a.cables = b.cables
  wires : a.wires = b.wires
  children : a.children = b.children
  pinWire : a.pinWire = b.pinWire
  pinPort : a.pinPort = b.pinPort
  portDef : a.portDef = b.portDef
  cableDef : a.cableDef = b.cableDef
  wireCable : a.wireCable = b.wireCable

theorem structEq_refl (s : S) : StructEq s s := ⟨rfl, rfl, rfl, rfl, rfl, rfl, rfl, rfl, rfl, rfl⟩

theorem structEq_trans {a b c : S} (h1 : StructEq a b) (h2 : StructEq b c) : StructEq a c :=
  ⟨h1.ports.trans h2.ports, h1.pins.trans h2.pins, h1.cables.trans h2.cables, h1.wires.trans h2.wires,
   h1.children.trans h2.children, h1.pinWire.trans h2.pinWire, h1.pinPort.trans h2.pinPort,
   h1.portDef.trans h2.portDef, h1.cableDef.trans h2.cableDef, h1.wireCable.trans h2.wireCable⟩

/-- the calls the library / definition / instance clone scripts consist of, besides `removeChild` -/
def Op.keepsStructure : Op → Prop
  | .setRef _ _ => True
  | .removeDefinition _ _ => True
  | .removeLibrary _ _ => True
  | _ => False

theorem step_structEq (s : S) (op : Op) (h : op.keepsStructure) : StructEq (step s op).1 s := by
  cases op <;> simp only [Op.keepsStructure] at h
  case removeLibrary n l =>
    simp only [step]; split <;> exact ⟨rfl, rfl, rfl, rfl, rfl, rfl, rfl, rfl, rfl, rfl⟩
  case removeDefinition l d =>
    simp only [step]; split <;> exact ⟨rfl, rfl, rfl, rfl, rfl, rfl, rfl, rfl, rfl, rfl⟩
  case setRef i d =>
    simp only [step, S.setRefStep]
    cases d with
    | none => exact ⟨rfl, rfl, rfl, rfl, rfl, rfl, rfl, rfl, rfl, rfl⟩
    | some d' =>
      cases s.instRef i with
      | none => exact ⟨rfl, rfl, rfl, rfl, rfl, rfl, rfl, rfl, rfl, rfl⟩
      | some d0 =>
        simp only []
        split <;> exact ⟨rfl, rfl, rfl, rfl, rfl, rfl, rfl, rfl, rfl, rfl⟩

theorem run_structEq (ops : List Op) (s : S) (h : ∀ op ∈ ops, op.keepsStructure) : StructEq (run s ops).1 s := by
  induction ops generalizing s with
  | nil => exact structEq_refl s
  | cons op ops ih =>
    simp only [run]
    exact structEq_trans (ih _ (fun o ho => h o (by simp [ho]))) (step_structEq s op (h op (by simp)))

theorem pruneOps_keepsStructure (s : S) (off : OId) (k : CKind) (x : OId) (hk : k = .definition ∨ k = .library ∨ k = .netlist) :
    ∀ op ∈ pruneOps s off k x, op.keepsStructure := by
  intro op hop
  simp only [pruneOps, List.mem_append] at hop
  rcases hop with hop | hop
  · rcases hk with rfl | rfl | rfl <;>
      simp only [pruneInside, List.mem_append, List.mem_flatMap, List.mem_map, List.mem_filter] at hop
    · rcases hop with ⟨j, _, rfl⟩ | hop
      · trivial
      · obtain ⟨l, _, hm⟩ := optOps_mem _ _ _ hop
        simp only [List.mem_singleton] at hm; subst hm; trivial
    · rcases hop with ⟨d, _, j, _, rfl⟩ | hop
      · trivial
      · obtain ⟨n, _, hm⟩ := optOps_mem _ _ _ hop
        simp only [List.mem_singleton] at hm; subst hm; trivial
    · obtain ⟨l, _, d, _, j, _, rfl⟩ := hop
      trivial
  · obtain ⟨i, r, rfl⟩ := pruneCross_shape s off k x op hop
    trivial

/-- **a cloned definition, library or netlist (self-contained or not) has the same internal structure**: ports, their pins, cables, their
    wires, child instances — same members, same order — and every inner pin sits on the copy of the wire its
    original sits on; all resolved inside the copy (twin of `x` is `x + off`). -/
theorem cloneElem_same_structure (s : S) (off : OId) (k : CKind) (e : OId) (hk : k = .definition ∨ k = .library ∨ k = .netlist) (x : OId) :
    let t := s.cloneElem off k e
    t.ports (x + off) = shL off (s.ports x) ∧ t.pins (x + off) = shL off (s.pins x) ∧
    t.cables (x + off) = shL off (s.cables x) ∧ t.wires (x + off) = shL off (s.wires x) ∧
    t.children (x + off) = shL off (s.children x) ∧ t.pinWire (x + off) = shO off (s.pinWire x) ∧
    t.pinPort (x + off) = shO off (s.pinPort x) ∧ t.portDef (x + off) = shO off (s.portDef x) ∧
    t.cableDef (x + off) = shO off (s.cableDef x) ∧ t.wireCable (x + off) = shO off (s.wireCable x) := by
  have h := run_structEq (pruneOps s off k e) (s.double off) (pruneOps_keepsStructure s off k e hk)
  have i := (cloneNetlist_iso s off).1 x
  simp only [S.cloneElem]
  rw [h.ports, h.pins, h.cables, h.wires, h.children, h.pinWire, h.pinPort, h.portDef, h.cableDef, h.wireCable]
  exact ⟨i.2.2.2.2.1, i.2.2.2.2.2.2.2.2.2.2.1, i.2.2.2.2.2.2.1, i.2.2.2.2.2.2.2.2.2.2.2.2.1, i.2.2.2.2.2.2.2.2.1,
    i.2.2.2.2.2.2.2.2.2.2.2.2.2.2.2.1, i.2.2.2.2.2.2.2.2.2.2.2.1, i.2.2.2.2.2.1, i.2.2.2.2.2.2.2.1, i.2.2.2.2.2.2.2.2.2.2.2.2.2.1⟩

end Spydr.IR
