/-
  C10 — Sibling names stay unique and exact-name lookup always agrees with a scan.
  Model: Spydr/IR/NamesModel.lean (NamespaceManager + Default/Edif namespace tables, as repaired).
  Helper lemmas: Spydr/IR/NamesLemmas*.lean.
-/
import Spydr.IR.NamesLemmas5
namespace Spydr.Names

/-- **One step preserves the index invariant** — every operation, every argument, accepted or refused,
    including the adoption of the parent's policy by a whole subtree on `add` (`apply_namespace` after the
    compliance check), explicit `.NS` assignment / deletion and switching the process-wide policy. -/
theorem stepCore_nsinv (s : N) (op : Op) (h : NsInv s) : NsInv (stepCore s op).1 := by
  cases op with
  | create e => exact create_nsinv s e h
  | attach p c => exact attach_nsinv s p c h
  | detach p c => exact detach_nsinv s p c h
  | setKey e k v => exact setKey_nsinv s e k v h
  | delKey e k => exact delKey_nsinv s e k h
  | popKey e k => exact popKey_nsinv s e k h
  | delNameProp e => exact delNameProp_nsinv s e h
  | setNs e p => exact setNs_nsinv s e p h
  | delNs e => exact delNs_nsinv s e h
  | setDefault p => exact setDefault_nsinv s p h
  | createIn p c n i => simpa [stepCore] using h
  | clone e off => simpa [stepCore] using h

theorem tryAll_nsinv (s0 s : N) (ops : List Op) (h0 : NsInv s0) (h : NsInv s) : NsInv (tryAll s0 s ops).1 := by
  induction ops generalizing s with
  | nil => exact h
  | cons op ops ih =>
    simp only [tryAll]
    have hs := stepCore_nsinv s op h
    split
    · rename_i s1 heq
      rw [heq] at hs
      exact ih s1 hs
    · exact h0

theorem step_nsinv (s : N) (op : Op) (h : NsInv s) : NsInv (step s op).1 := by
  cases op with
  | createIn p c n i => exact tryAll_nsinv s s _ h h
  | clone e off => exact tryAll_nsinv s s _ h h
  | create e => exact stepCore_nsinv s _ h
  | attach p c => exact stepCore_nsinv s _ h
  | detach p c => exact stepCore_nsinv s _ h
  | setKey e k v => exact stepCore_nsinv s _ h
  | delKey e k => exact stepCore_nsinv s _ h
  | popKey e k => exact stepCore_nsinv s _ h
  | delNameProp e => exact stepCore_nsinv s _ h
  | setNs e p => exact stepCore_nsinv s _ h
  | delNs e => exact stepCore_nsinv s _ h
  | setDefault p => exact stepCore_nsinv s _ h

/-- **Every history, every prefix, under both policies and across policy switches**: the tables index
    exactly the current children. -/
theorem run_nsinv (ops : List Op) (s : N) (h : NsInv s) : NsInv (run s ops).1 := by
  induction ops generalizing s with
  | nil => exact h
  | cons op ops ih =>
    simp only [run]
    exact ih _ (step_nsinv s op h)

theorem run_nsinv_from_init (ops : List Op) : NsInv (run N.init ops).1 := run_nsinv ops _ init_nsinv

/-- the heap in which every object was created under policy `pol` -/
def N.initWith (pol : Policy) : N :=
  { N.init with dflt := pol
                info := fun _ => { name := none, ident := none, ns := some pol }
                tpol := fun _ => pol }

theorem initWith_nsinv (pol : Policy) : NsInv (N.initWith pol) := by
  constructor <;> simp [N.initWith, N.init]

theorem run_nsinv_both_policies (pol : Policy) (ops : List Op) : NsInv (run (N.initWith pol) ops).1 :=
  run_nsinv ops _ (initWith_nsinv pol)

/-- "names remain unique": two children of a managed parent, of the same class, with the same name are
    the same element; under the EDIF class the same for identifiers compared case-insensitively. -/
theorem names_unique (s : N) (h : NsInv s) (p : El) (hp : s.hasTbl p = true) (e e' : El) (x : String)
    (he : s.parent e = some p) (he' : s.parent e' = some p) (hk : e.kind = e'.kind)
    (hx : (s.info e).name = some x) (hx' : (s.info e').name = some x) : e = e' :=
  names_unique' h p hp e e' x he he' hk hx hx'

theorem idents_unique_ci (s : N) (h : NsInv s) (p : El) (hp : s.hasTbl p = true) (hpol : s.tpol p = .edif)
    (e e' : El) (v v' : String) (he : s.parent e = some p) (he' : s.parent e' = some p) (hk : e.kind = e'.kind)
    (hv : (s.info e).ident = some v) (hv' : (s.info e').ident = some v') (hci : lower v = lower v') : e = e' :=
  idents_unique' h p hp hpol e e' (lower v) he he' hk (by simp [hv]) (by simp [hv', hci])

theorem filter_unique {l : List El} {q : El → Bool} {e : El} (hnd : l.Nodup) (hmem : e ∈ l) (hq : q e = true)
    (huniq : ∀ a ∈ l, q a = true → a = e) : l.filter q = [e] := by
  induction l with
  | nil => simp at hmem
  | cons a t ih =>
    have hnd' := List.nodup_cons.1 hnd
    simp only [List.filter_cons]
    cases ha : q a with
    | true =>
      have hae := huniq a (by simp) ha
      subst hae
      simp only [if_true]
      congr 1
      rw [List.filter_eq_nil_iff]
      intro b hb hqb
      have := huniq b (by simp [hb]) (by simpa using hqb)
      subst this
      exact hnd'.1 hb
    | false =>
      simp only [Bool.false_eq_true, if_false]
      have hne : e ≠ a := by intro e1; subst e1; simp [hq] at ha
      have : e ∈ t := by
        rcases List.mem_cons.1 hmem with h | h
        · exact absurd h hne
        · exact h
      exact ih hnd'.2 this (fun b hb hqb => huniq b (by simp [hb]) hqb)

/-- "Asking a parent for a child by exact name returns precisely the children a linear scan finds" -/
theorem lookup_eq_scan_name (s : N) (h : NsInv s) (p : El) (kd : Kind) (v : String) :
    s.lookup p kd .name v = s.scanAll p kd .name v := by
  simp only [N.lookup]
  cases hp : s.hasTbl p with
  | false => simp
  | true =>
    simp only [if_true]
    cases hn : s.names p kd v with
    | none => rfl
    | some e =>
      simp only [N.scanAll, Rec.get]
      have := (h.names_iff p hp kd v e).1 hn
      symm
      apply filter_unique (h.kids_nd p) ((h.kids_iff p e).2 this.1) (by simp [this.2.1, this.2.2])
      intro a ha hq
      simp only [Bool.and_eq_true, decide_eq_true_eq, beq_iff_eq] at hq
      exact names_unique' h p hp a e v ((h.kids_iff p a).1 ha) this.1 (by rw [hq.1, this.2.1]) hq.2 this.2.2

/-- identifiers under the EDIF class: exactly the children whose identifier equals the query ignoring case
    (at most one) are returned; under the DEFAULT class, where identifiers are plain data that may repeat,
    the lookup *is* the scan and returns every match. -/
theorem lookup_eq_scan_ident (s : N) (h : NsInv s) (p : El) (kd : Kind) (v : String) :
    s.lookup p kd .ident v =
      (if s.hasTbl p = true ∧ s.tpol p = .edif then s.scanAllCI p kd v else s.scanAll p kd .ident v) := by
  simp only [N.lookup]
  cases hp : s.hasTbl p with
  | false => simp
  | true =>
    cases hpol : s.tpol p with
    | default => simp
    | edif =>
      simp only [if_true, true_and, N.scanAllCI]
      cases hn : s.idents p kd (lower v) with
      | some e =>
        have := (h.idents_iff p hp hpol kd (lower v) e).1 hn
        symm
        apply filter_unique (h.kids_nd p) ((h.kids_iff p e).2 this.1) (by simp [this.2.1, this.2.2])
        intro a ha hq
        simp only [Bool.and_eq_true, decide_eq_true_eq, beq_iff_eq] at hq
        exact idents_unique' h p hp hpol a e (lower v) ((h.kids_iff p a).1 ha) this.1 (by rw [hq.1, this.2.1]) hq.2 this.2.2
      | none =>
        simp only []
        have hnone : ∀ a ∈ s.kids p, ¬ (a.kind = kd ∧ ((s.info a).ident).map lower = some (lower v)) := by
          intro a ha hq
          have := (h.idents_iff p hp hpol kd (lower v) a).2 ⟨(h.kids_iff p a).1 ha, hq.1, hq.2⟩
          rw [hn] at this; cases this
        have e1 : s.scanAll p kd .ident v = [] := by
          simp only [N.scanAll, Rec.get]
          rw [List.filter_eq_nil_iff]
          intro a ha hq
          simp only [Bool.and_eq_true, decide_eq_true_eq, beq_iff_eq] at hq
          exact hnone a ha ⟨hq.1, by simp [hq.2]⟩
        have e2 : List.filter (fun c => decide (c.kind = kd) && Option.map lower (s.info c).ident == some (lower v)) (s.kids p) = [] := by
          rw [List.filter_eq_nil_iff]
          intro a ha hq
          simp only [Bool.and_eq_true, decide_eq_true_eq, beq_iff_eq] at hq
          exact hnone a ha ⟨hq.1, hq.2⟩
        rw [e1, e2]

/-- "an edit is refused exactly when it would create a duplicate or an illegal identifier, never because
    of an element that was removed, renamed or un-named earlier": a rename is refused by the naming rules
    iff the identifier is illegal under the element's policy, or a DIFFERENT CURRENT child of the same
    managed parent and class CURRENTLY carries that name (identifier, case-insensitively, under EDIF). -/
theorem rename_refused_iff (s : N) (h : NsInv s) (e : El) (v : String) :
    (step s (.setKey e .name v)).2 = .value ↔
      ∃ p e', s.parent e = some p ∧ s.hasTbl p = true ∧ s.parent e' = some p ∧ e' ≠ e ∧ e'.kind = e.kind ∧
        (s.info e').name = some v := by
  have hok : s.nameOk e .name v = true := by
    simp only [N.nameOk]
    cases (s.info e).ns with
    | none => rfl
    | some p => cases p <;> rfl
  have hstep : (step s (.setKey e .name v)).2 =
      (match s.parent e with
        | none => Res.ok
        | some p => if s.hasTbl p && !s.noConflict p e .name v then Res.value else Res.ok) := by
    simp only [step, stepCore, hok, Bool.not_true, Bool.false_eq_true, if_false]
    cases s.parent e with
    | none => rfl
    | some p => simp only []; split <;> rfl
  rw [hstep]
  cases hp : s.parent e with
  | none => simp
  | some p =>
    simp only []
    cases ht : s.hasTbl p with
    | false => simp [ht]
    | true =>
      simp only [Bool.true_and, N.noConflict, if_true]
      cases hn : s.names p e.kind v with
      | none =>
        simp only [Bool.not_true, Bool.false_eq_true, if_false]
        constructor
        · intro hh; cases hh
        · rintro ⟨p', e', hp', _, he', _, hk, hx⟩
          cases hp'
          have := (h.names_iff p ht e.kind v e').2 ⟨he', hk, hx⟩
          rw [hn] at this; cases this
      | some e0 =>
        have h0 := (h.names_iff p ht e.kind v e0).1 hn
        by_cases heq : e0 = e
        · simp only [heq, decide_true, Bool.not_true, Bool.false_eq_true, if_false]
          constructor
          · intro hh; cases hh
          · rintro ⟨p', e', hp', _, he', hne, hk, hx⟩
            cases hp'
            have := (h.names_iff p ht e.kind v e').2 ⟨he', hk, hx⟩
            rw [hn] at this
            exact absurd (Option.some.inj this).symm (by rw [heq]; exact hne)
        · simp only [heq, decide_false, Bool.not_false, if_true, true_iff]
          exact ⟨p, e0, rfl, ht, h0.1, heq, h0.2.1, h0.2.2⟩

/-! Non-vacuity: a history with mixed-case identifiers under EDIF. -/
def l0 : El := ⟨.library, 0⟩
def d0 : El := ⟨.definition, 0⟩
def d1 : El := ⟨.definition, 1⟩
def demoN : List Op :=
  [ .setDefault .default, .create d1, .setDefault .edif, .setKey d0 .ident "Abc", .attach l0 d0, .setKey d1 .ident "aBC", .attach l0 d1, .detach l0 d0, .attach l0 d1,
    .setKey d0 .ident "x-y", .setKey d0 .name "n", .setKey d1 .name "n" ]

example : (run (N.initWith .edif) demoN).2 = [.ok, .ok, .ok, .ok, .ok, .ok, .value, .ok, .ok, .value, .ok, .ok] := by decide
example : NsInv (run (N.initWith .edif) demoN).1 := run_nsinv_both_policies .edif demoN
example : (run (N.initWith .edif) demoN).1.lookup l0 .definition .ident "ABC" = [d1] := by decide

end Spydr.Names

namespace Spydr.Names
/-! Clones (`Op.clone`): the copy of a definition with port "a" is indexed like a hand-built one — a second
    port "a" in the COPY is refused, one in a fresh name is accepted, and the copy's lookups see its own port. -/
def demoClone : List Op :=
  [ .create ⟨.definition, 0⟩, .createIn ⟨.definition, 0⟩ ⟨.port, 0⟩ (some "a") none, .clone ⟨.definition, 0⟩ 5 ]
example : (run N.init demoClone).2 = [.ok, .ok, .ok] := by decide
example : (step (run N.init demoClone).1 (.createIn ⟨.definition, 5⟩ ⟨.port, 9⟩ (some "a") none)).2 = .value := by decide
example : (step (run N.init demoClone).1 (.createIn ⟨.definition, 5⟩ ⟨.port, 9⟩ (some "b") none)).2 = .ok := by decide
example : (run N.init demoClone).1.lookup ⟨.definition, 5⟩ .port .name "a" = [⟨.port, 5⟩] := by decide
example : NsInv (run N.init demoClone).1 := run_nsinv _ _ init_nsinv
end Spydr.Names
