/-
  C10 — the manager's table bookkeeping (`hasTbl`, `tpol`: which parents have a table, of which class) is a
  function of the observable `.NS` value of the parent: a container has a table exactly while it carries a
  policy, and the table is of that policy's class.  With this the uniqueness theorems of Props/C10 no
  longer mention the two bookkeeping fields.
-/
import Spydr.IR.Props.C10
namespace Spydr.Names

structure NsTbl (s : N) : Prop where
  tbl_ns : ∀ p, s.hasTbl p = (isContainer p.kind && ((s.info p).ns).isSome)
  tpol_ns : ∀ p pol, (s.info p).ns = some pol → s.tpol p = pol

theorem init_nstbl : NsTbl N.init := by
  constructor <;> simp [N.init]

theorem initWith_nstbl (pol : Policy) : NsTbl (N.initWith pol) := by
  constructor <;> simp [N.initWith, N.init]

theorem tblUpdate_nstbl (s : N) (p e k old v) (h : NsTbl s) : NsTbl (s.tblUpdate p e k old v) :=
  ⟨h.tbl_ns, h.tpol_ns⟩

theorem tblRemove_nstbl (s : N) (p e k old) (h : NsTbl s) : NsTbl (s.tblRemove p e k old) :=
  ⟨h.tbl_ns, h.tpol_ns⟩

theorem applyNs_nstbl (s : N) (pol : Policy) (e : El) (h : NsTbl s) : NsTbl (s.applyNs pol e) := by
  obtain ⟨h1, h2⟩ := h
  constructor
  · intro p; simp only [N.applyNs]; split <;> simp [h1]
  · intro p q; simp only [N.applyNs]; split
    · intro hq; simpa using hq
    · exact h2 p q

theorem dropNs_nstbl (s : N) (e : El) (h : NsTbl s) : NsTbl (s.dropNs e) := by
  obtain ⟨h1, h2⟩ := h
  constructor
  · intro p; simp only [N.dropNs]; split <;> simp [h1]
  · intro p q; simp only [N.dropNs]; split
    · intro hq; simp at hq
    · exact h2 p q

theorem setNsCore_nstbl (s : N) (e : El) (pol : Policy) (h : NsTbl s) : NsTbl (s.setNsCore e pol).1 := by
  simp only [N.setNsCore]
  split
  · exact h
  · split
    · exact h
    · exact applyNs_nstbl s pol e h

theorem setInfoKey_nstbl (s : N) (e : El) (k : Key) (v : Option String) (h : NsTbl s) :
    NsTbl { s with info := fun x => if x = e then (s.info x).set k v else s.info x } := by
  obtain ⟨h1, h2⟩ := h
  constructor
  · intro p
    by_cases hp : p = e
    · subst hp; cases k <;> simp [Rec.set, h1]
    · simp [hp, h1]
  · intro p q
    by_cases hp : p = e
    · subst hp; cases k <;> simp [Rec.set] <;> exact h2 p q
    · simp [hp]; exact h2 p q

theorem removeKey_nstbl (s : N) (e : El) (k : Key) (h : NsTbl s) : NsTbl (s.removeKey e k) := by
  simp only [N.removeKey]
  cases s.parent e with
  | none => exact setInfoKey_nstbl s e k none h
  | some p => exact setInfoKey_nstbl _ e k none (tblRemove_nstbl s p e k _ h)

theorem register_nstbl (s : N) (p c : El) (h : NsTbl s) : NsTbl (s.register p c) := by
  simp only [N.register]
  have h2 : NsTbl (match (s.info c).ident with
      | some v => s.tblUpdate p c .ident (s.info c).ident v
      | none => s) := by
    split
    · exact tblUpdate_nstbl _ _ _ _ _ _ h
    · exact h
  have h3 : ∀ t : N, NsTbl t → NsTbl (match (t.info c).name with
      | some v => t.tblUpdate p c .name (t.info c).name v
      | none => t) := by
    intro t ht
    split
    · exact tblUpdate_nstbl _ _ _ _ _ _ ht
    · exact ht
  exact ⟨(h3 _ h2).tbl_ns, (h3 _ h2).tpol_ns⟩

theorem stepCore_nstbl (s : N) (op : Op) (h : NsTbl s) : NsTbl (stepCore s op).1 := by
  cases op with
  | create e =>
    simp only [stepCore]
    split
    · exact h
    · obtain ⟨h1, h2⟩ := h
      constructor
      · intro p; by_cases hp : p = e
        · subst hp; simp
        · simp [hp, h1]
      · intro p q; by_cases hp : p = e
        · subst hp; simp
        · simp [hp]; exact h2 p q
  | attach p c =>
    simp only [stepCore]
    split
    · exact h
    · split
      · exact h
      · split
        · exact h
        · -- the child adopts / drops the policy, then registration
          cases hns : (s.info p).ns with
          | some pp =>
            simp only []
            have := setNsCore_nstbl s c pp h
            split
            · exact h
            · exact register_nstbl _ p c this
          | none =>
            simp only []
            split
            · rename_i hc
              simp only []
              split
              · exact h
              · exact register_nstbl _ p c (dropNs_nstbl s c h)
            · simp only []
              split
              · exact h
              · exact register_nstbl _ p c h
  | detach p c =>
    simp only [stepCore]
    split
    · exact h
    · exact ⟨h.tbl_ns, h.tpol_ns⟩
  | setKey e k v =>
    simp only [stepCore]
    split
    · exact h
    · cases s.parent e with
      | none => exact setInfoKey_nstbl s e k (some v) h
      | some p =>
        simp only []
        split
        · exact h
        · exact setInfoKey_nstbl _ e k (some v) (tblUpdate_nstbl s p e k _ v h)
  | delKey e k =>
    simp only [stepCore]; split
    · exact h
    · exact removeKey_nstbl s e k h
  | popKey e k =>
    simp only [stepCore]; split
    · exact h
    · exact removeKey_nstbl s e k h
  | delNameProp e =>
    simp only [stepCore]; split
    · exact h
    · exact removeKey_nstbl s e .name h
  | setNs e p =>
    simp only [stepCore]; split
    · exact h
    · split
      · exact h
      · exact setNsCore_nstbl s e p h
  | delNs e =>
    simp only [stepCore]; split
    · exact h
    · split
      · exact h
      · exact dropNs_nstbl s e h
  | setDefault p => exact ⟨h.tbl_ns, h.tpol_ns⟩
  | createIn p c n i => simpa [stepCore] using h
  | clone e off => simpa [stepCore] using h

theorem tryAll_nstbl (s0 s : N) (ops : List Op) (h0 : NsTbl s0) (h : NsTbl s) : NsTbl (tryAll s0 s ops).1 := by
  induction ops generalizing s with
  | nil => exact h
  | cons op ops ih =>
    simp only [tryAll]
    have hs := stepCore_nstbl s op h
    split
    · rename_i s1 heq
      rw [heq] at hs
      exact ih s1 hs
    · exact h0

theorem step_nstbl (s : N) (op : Op) (h : NsTbl s) : NsTbl (step s op).1 := by
  cases op with
  | createIn p c n i => exact tryAll_nstbl s s _ h h
  | clone e off => exact tryAll_nstbl s s _ h h
  | create e => exact stepCore_nstbl s _ h
  | attach p c => exact stepCore_nstbl s _ h
  | detach p c => exact stepCore_nstbl s _ h
  | setKey e k v => exact stepCore_nstbl s _ h
  | delKey e k => exact stepCore_nstbl s _ h
  | popKey e k => exact stepCore_nstbl s _ h
  | delNameProp e => exact stepCore_nstbl s _ h
  | setNs e p => exact stepCore_nstbl s _ h
  | delNs e => exact stepCore_nstbl s _ h
  | setDefault p => exact stepCore_nstbl s _ h

theorem run_nstbl (ops : List Op) (s : N) (h : NsTbl s) : NsTbl (run s ops).1 := by
  induction ops generalizing s with
  | nil => exact h
  | cons op ops ih =>
    simp only [run]
    exact ih _ (step_nstbl s op h)

/-- **"names remain unique" in observable terms**: after ANY history (both initial policies), in every
    container that carries a naming policy no two children of the same class have the same name. -/
theorem names_unique_observable (pol : Policy) (ops : List Op) (p : El) (hk : isContainer p.kind = true)
    (hns : ((run (N.initWith pol) ops).1.info p).ns ≠ none) (kd : Kind) (x : String) (e1 e2 : El)
    (h1 : (run (N.initWith pol) ops).1.parent e1 = some p ∧ e1.kind = kd ∧ ((run (N.initWith pol) ops).1.info e1).name = some x)
    (h2 : (run (N.initWith pol) ops).1.parent e2 = some p ∧ e2.kind = kd ∧ ((run (N.initWith pol) ops).1.info e2).name = some x) :
    e1 = e2 := by
  have hi := run_nsinv_both_policies pol ops
  have ht := run_nstbl ops _ (initWith_nstbl pol)
  have hp : (run (N.initWith pol) ops).1.hasTbl p = true := by
    rw [ht.tbl_ns p, hk]
    cases h : ((run (N.initWith pol) ops).1.info p).ns with
    | none => exact absurd h hns
    | some q => rfl
  have a := (hi.names_iff p hp kd x e1).2 h1
  have b := (hi.names_iff p hp kd x e2).2 h2
  rw [a] at b
  exact Option.some.inj b

/-- **identifiers, case-insensitively, under the EDIF policy** in observable terms. -/
theorem idents_unique_ci_observable (pol : Policy) (ops : List Op) (p : El) (hk : isContainer p.kind = true)
    (hns : ((run (N.initWith pol) ops).1.info p).ns = some .edif) (kd : Kind) (y : String) (e1 e2 : El)
    (h1 : (run (N.initWith pol) ops).1.parent e1 = some p ∧ e1.kind = kd ∧ (((run (N.initWith pol) ops).1.info e1).ident).map lower = some y)
    (h2 : (run (N.initWith pol) ops).1.parent e2 = some p ∧ e2.kind = kd ∧ (((run (N.initWith pol) ops).1.info e2).ident).map lower = some y) :
    e1 = e2 := by
  have hi := run_nsinv_both_policies pol ops
  have ht := run_nstbl ops _ (initWith_nstbl pol)
  have hp : (run (N.initWith pol) ops).1.hasTbl p = true := by
    rw [ht.tbl_ns p, hk, hns]; rfl
  have he := ht.tpol_ns p .edif hns
  have a := (hi.idents_iff p hp he kd y e1).2 h1
  have b := (hi.idents_iff p hp he kd y e2).2 h2
  rw [a] at b
  exact Option.some.inj b



/-- the identifier half of "refused exactly when it would create a duplicate or an illegal identifier":
    setting an identifier is refused iff it is illegal under the element's own EDIF policy, or a DIFFERENT
    CURRENT child of the same EDIF-managed parent and class CURRENTLY carries it up to letter case. -/
theorem ident_refused_iff (s : N) (h : NsInv s) (e : El) (v : String) :
    (step s (.setKey e .ident v)).2 = .value ↔
      ((s.info e).ns = some .edif ∧ checkIdent v = false) ∨
      ∃ p e', s.parent e = some p ∧ s.hasTbl p = true ∧ s.tpol p = .edif ∧ s.parent e' = some p ∧ e' ≠ e ∧
        e'.kind = e.kind ∧ ((s.info e').ident).map lower = some (lower v) := by
  simp only [step, stepCore]
  by_cases hok : s.nameOk e .ident v = true
  · have hleg : ¬ ((s.info e).ns = some .edif ∧ checkIdent v = false) := by
      rintro ⟨h1, h2⟩
      simp [N.nameOk, h1, validName, h2] at hok
    simp only [hok, Bool.not_true, Bool.false_eq_true, if_false, hleg, false_or]
    cases hp : s.parent e with
    | none => simp
    | some p =>
      simp only []
      cases ht : s.hasTbl p with
      | false => simp [ht]
      | true =>
        simp only [Bool.true_and, N.noConflict, Key.noConfusion, if_false]
        have hki : (Key.ident = Key.name) = False := by simp
        simp only [hki, if_false]
        cases hpol : s.tpol p with
        | default =>
          simp [hpol]
        | edif =>
          simp only [if_true]
          cases hn : s.idents p e.kind (lower v) with
          | none =>
            simp only [Bool.not_true, Bool.false_eq_true, if_false]
            constructor
            · intro hh; cases hh
            · rintro ⟨p', e', hp', _, _, he', _, hk, hx⟩
              cases hp'
              have := (h.idents_iff p ht hpol e.kind (lower v) e').2 ⟨he', hk, hx⟩
              rw [hn] at this; cases this
          | some e0 =>
            have h0 := (h.idents_iff p ht hpol e.kind (lower v) e0).1 hn
            by_cases heq : e0 = e
            · simp only [heq, decide_true, Bool.not_true, Bool.false_eq_true, if_false]
              constructor
              · intro hh; cases hh
              · rintro ⟨p', e', hp', _, _, he', hne, hk, hx⟩
                cases hp'
                have := (h.idents_iff p ht hpol e.kind (lower v) e').2 ⟨he', hk, hx⟩
                rw [hn] at this
                exact absurd (Option.some.inj this).symm (by rw [heq]; exact hne)
            · simp only [heq, decide_false, Bool.not_false, if_true, true_iff]
              exact ⟨p, e0, rfl, ht, hpol, h0.1, heq, h0.2.1, h0.2.2⟩
  · have hleg : (s.info e).ns = some .edif ∧ checkIdent v = false := by
      simp only [N.nameOk] at hok
      cases hns : (s.info e).ns with
      | none => simp [hns] at hok
      | some q =>
        cases q with
        | default => simp [hns, validName] at hok
        | edif => simp [hns, validName] at hok; exact ⟨rfl, hok⟩
    simp [hok, hleg]

end Spydr.Names

namespace Spydr.Names

/-- what the manager's conflict test says, in terms of the current children (a candidate that is not yet a
    child of `p`): some current child of the same class carries the candidate's name, or — under the EDIF
    class — its identifier up to letter case -/
theorem conflicts_iff (s : N) (h : NsInv s) (p c : El) (hc : s.parent c = none) :
    s.conflicts p c = true ↔ s.hasTbl p = true ∧
      ((∃ v e', (s.info c).name = some v ∧ s.parent e' = some p ∧ e'.kind = c.kind ∧ (s.info e').name = some v) ∨
       (s.tpol p = .edif ∧ ∃ v e', (s.info c).ident = some v ∧ s.parent e' = some p ∧ e'.kind = c.kind ∧
          ((s.info e').ident).map lower = some (lower v))) := by
  simp only [N.conflicts, Bool.and_eq_true, Bool.or_eq_true]
  constructor
  · rintro ⟨ht, hor⟩
    refine ⟨ht, ?_⟩
    rcases hor with hi | hn
    · right
      cases hv : (s.info c).ident with
      | none => simp [hv] at hi
      | some v =>
        simp only [hv, N.noConflict, Key.noConfusion, if_false, Bool.not_eq_true'] at hi
        have hki : (Key.ident = Key.name) = False := by simp
        simp only [hki, if_false] at hi
        cases hpol : s.tpol p with
        | default => simp [hpol] at hi
        | edif =>
          simp only [hpol, if_true] at hi
          cases hl : s.idents p c.kind (lower v) with
          | none => simp [hl] at hi
          | some e0 =>
            have h0 := (h.idents_iff p ht hpol c.kind (lower v) e0).1 hl
            exact ⟨rfl, v, e0, rfl, h0.1, h0.2.1, h0.2.2⟩
    · left
      cases hv : (s.info c).name with
      | none => simp [hv] at hn
      | some v =>
        simp only [hv, N.noConflict, if_true, Bool.not_eq_true'] at hn
        cases hl : s.names p c.kind v with
        | none => simp [hl] at hn
        | some e0 =>
          have h0 := (h.names_iff p ht c.kind v e0).1 hl
          exact ⟨v, e0, rfl, h0.1, h0.2.1, h0.2.2⟩
  · rintro ⟨ht, hor⟩
    refine ⟨ht, ?_⟩
    rcases hor with ⟨v, e', hv, hp', hk, hx⟩ | ⟨hpol, v, e', hv, hp', hk, hx⟩
    · right
      have hl := (h.names_iff p ht c.kind v e').2 ⟨hp', hk, hx⟩
      have hne : e' ≠ c := fun e => by rw [e, hc] at hp'; cases hp'
      simp [hv, N.noConflict, hl, hne]
    · left
      have hl := (h.idents_iff p ht hpol c.kind (lower v) e').2 ⟨hp', hk, hx⟩
      have hne : e' ≠ c := fun e => by rw [e, hc] at hp'; cases hp'
      simp [hv, N.noConflict, hpol, hl, hne]

/-- **an add is refused by the naming rules exactly when** a current child of that parent and class already
    carries the name (identifier, up to case, under EDIF), or the child's subtree does not comply with the
    policy it would have to adopt (`N.compliant`: an illegal identifier or two children colliding under that
    policy somewhere in the subtree). -/
theorem attach_refused_iff (s : N) (h : NsInv s) (p c : El) :
    (step s (.attach p c)).2 = .value ↔ validParent p.kind c.kind = true ∧ s.parent c = none ∧
      (s.conflicts p c = true ∨
        (s.conflicts p c = false ∧ ∃ pp, (s.info p).ns = some pp ∧ (s.info c).ns ≠ some pp ∧ s.compliant pp c = false)) := by
  simp only [step, stepCore]
  by_cases hv : validParent p.kind c.kind = true
  · by_cases hpc : s.parent c = none
    · simp only [hv, Bool.not_true, Bool.false_eq_true, if_false, hpc, ne_eq, not_true_eq_false, true_and]
      cases hcf : s.conflicts p c with
      | true => simp
      | false =>
        simp only [Bool.false_eq_true, if_false, false_or, true_and]
        cases hns : (s.info p).ns with
        | none =>
          simp only []
          split <;> simp
        | some pp =>
          simp only [N.setNsCore]
          by_cases he : (s.info c).ns = some pp
          · simp [he]
          · by_cases hcm : s.compliant pp c = true
            · simp [he, hcm]
            · have hcm' : s.compliant pp c = false := by simpa using hcm
              simp [he, hcm']
    · have : s.parent c ≠ none := hpc
      simp [hv, this, hpc]
  · have : validParent p.kind c.kind = false := by simpa using hv
    simp [this]

end Spydr.Names
