/-
  C14 — A refused edit changes nothing (structural part: every field of every object, hence containment
  and order, connections, every reference set; the naming tables are treated in Spydr/IR/Names*).
-/
import Spydr.IR.Props.C02
namespace Spydr.IR

/-- A call that raises (precondition failure or a listener's veto) returns the state it was given:
    literal equality of the whole model state. Compound constructors included (`createChild` with a
    vetoed add leaves nothing registered, in particular not in the reference set of `ref`). -/
theorem refused_unchanged (s : S) (op : Op) (h : (step s op).2 ≠ .ok) : (step s op).1 = s := by
  cases op <;> simp only [step, S.setRefStep] at h ⊢ <;> grind

/-- Repeating a refused call is refused again, in the same way, and still changes nothing. -/
theorem refused_idempotent (s : S) (op : Op) (h : (step s op).2 ≠ .ok) :
    step (step s op).1 op = step s op := by
  rw [refused_unchanged s op h]

/-- In any history, a refused call can be deleted without affecting any later state:
    it left no trace anywhere. -/
theorem run_refused_prefix (s : S) (op : Op) (ops : List Op) (h : (step s op).2 ≠ .ok) :
    (run s (op :: ops)).1 = (run s ops).1 := by
  simp only [run, refused_unchanged s op h]

/-- exactly the veto flag / the guards decide refusal, e.g. for `add_port` -/
theorem addPort_refused_iff (s : S) (d p pos veto) :
    (step s (.addPort d p pos veto)).2 ≠ .ok ↔ (s.portDef p ≠ none ∨ veto = true) := by
  simp only [step]; repeat' split
  all_goals simp_all

/-! Non-vacuity: each refusal class is reachable, from a non-trivial state. -/
example : (step (run S.init demo2).1 (.addPort 1 1 none false)).2 = .assert := by decide   -- port owned elsewhere
example : (step (run S.init demo2).1 (.addPort 1 7 none true)).2 = .value := by decide     -- naming veto
example : (step (run S.init demo2).1 (.setRef 1 (some 2))).2 = .assert := by decide        -- shape mismatch
example : (step (run S.init demo2).1 (.setPorts 2 [1, 1])).2 = .assert := by decide        -- non-permutation
example : (step (run S.init demo2).1 (.connectOuter 0 0 1 none)).2 = .assert := by decide  -- already connected
example : (step (run S.init demo2).1 (.createChild 1 9 (some 0) true)).2 = .value := by decide

end Spydr.IR
