/-
  C14, naming half — a call refused by the naming rules (duplicate / illegal name, `.NS` rules) or by a
  KeyError leaves names, identifiers, policies, containment AND the namespace tables (hence every lookup
  answer) exactly as they were.
-/
import Spydr.IR.Props.C10
namespace Spydr.Names

theorem stepCore_refused_unchanged (s : N) (op : Op) (h : (stepCore s op).2 ≠ .ok) : (stepCore s op).1 = s := by
  cases op with
  | create e => simp only [stepCore] at h ⊢; split <;> simp_all
  | attach p c =>
    simp only [stepCore] at h ⊢
    repeat' split
    all_goals simp_all
  | detach p c => simp only [stepCore] at h ⊢; split <;> simp_all
  | setKey e k v =>
    simp only [stepCore] at h ⊢
    repeat' split
    all_goals simp_all
  | delKey e k => simp only [stepCore] at h ⊢; split <;> simp_all
  | popKey e k => simp only [stepCore] at h ⊢; split <;> simp_all
  | delNameProp e => simp only [stepCore] at h ⊢; split <;> simp_all
  | setNs e p =>
    simp only [stepCore, N.setNsCore] at h ⊢
    repeat' split
    all_goals simp_all
  | delNs e =>
    simp only [stepCore] at h ⊢
    repeat' split
    all_goals simp_all
  | setDefault p => simp [stepCore] at h
  | createIn p c n i => simp [stepCore] at h
  | clone e off => simp [stepCore] at h

theorem tryAll_refused (s0 s : N) (ops : List Op) (h : (tryAll s0 s ops).2 ≠ .ok) : (tryAll s0 s ops).1 = s0 := by
  induction ops generalizing s with
  | nil => simp [tryAll] at h
  | cons op ops ih =>
    simp only [tryAll] at h ⊢
    split
    · rename_i s1 heq
      simp only [heq] at h
      exact ih s1 h
    · rfl

/-- a call refused by the naming rules / `.NS` rules / KeyError — including a compound constructor whose
    add (or whose name / identifier assignment) is refused — leaves the whole naming state as it was:
    nothing of the half-built element remains registered anywhere -/
theorem names_refused_unchanged (s : N) (op : Op) (h : (step s op).2 ≠ .ok) : (step s op).1 = s := by
  cases op with
  | createIn p c n i => exact tryAll_refused s s _ h
  | clone e off => exact tryAll_refused s s _ h
  | create e => exact stepCore_refused_unchanged s _ h
  | attach p c => exact stepCore_refused_unchanged s _ h
  | detach p c => exact stepCore_refused_unchanged s _ h
  | setKey e k v => exact stepCore_refused_unchanged s _ h
  | delKey e k => exact stepCore_refused_unchanged s _ h
  | popKey e k => exact stepCore_refused_unchanged s _ h
  | delNameProp e => exact stepCore_refused_unchanged s _ h
  | setNs e p => exact stepCore_refused_unchanged s _ h
  | delNs e => exact stepCore_refused_unchanged s _ h
  | setDefault p => exact stepCore_refused_unchanged s _ h

/-- hence the same answers to name lookups -/
theorem names_refused_same_lookups (s : N) (op : Op) (h : (step s op).2 ≠ .ok) (p : El) (kd : Kind) (k : Key) (v : String) :
    (step s op).1.lookup p kd k v = s.lookup p kd k v := by
  rw [names_refused_unchanged s op h]

example : (step (run (N.initWith .edif) demoN).1 (.setKey d0 .ident "1bad")).2 = .value := by decide
example : (step (run (N.initWith .edif) demoN).1 (.attach l0 d0)).2 = .value := by decide
example : (step (run (N.initWith .edif) demoN).1 (.createIn l0 ⟨.definition, 5⟩ (some "n") (some "q"))).2 = .value := by decide
example : (step (run (N.initWith .edif) demoN).1 (.createIn l0 ⟨.definition, 5⟩ (some "m") (some "1x"))).2 = .value := by decide
example : (step (run (N.initWith .edif) demoN).1 (.createIn l0 ⟨.definition, 5⟩ (some "m") (some "q"))).2 = .ok := by decide

end Spydr.Names
