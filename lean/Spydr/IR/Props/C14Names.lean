/-
  C14, naming half — a call refused by the naming rules (duplicate / illegal name, `.NS` rules) or by a
  KeyError leaves names, identifiers, policies, containment AND the namespace tables (hence every lookup
  answer) exactly as they were.
-/
import Spydr.IR.Props.C10
namespace Spydr.Names

theorem names_refused_unchanged (s : N) (op : Op) (h : (step s op).2 ≠ .ok) : (step s op).1 = s := by
  cases op with
  | create e => simp only [step] at h ⊢; split <;> simp_all
  | attach p c =>
    simp only [step] at h ⊢
    repeat' split
    all_goals simp_all
  | detach p c => simp only [step] at h ⊢; split <;> simp_all
  | setKey e k v =>
    simp only [step] at h ⊢
    repeat' split
    all_goals simp_all
  | delKey e k => simp only [step] at h ⊢; split <;> simp_all
  | popKey e k => simp only [step] at h ⊢; split <;> simp_all
  | delNameProp e => simp only [step] at h ⊢; split <;> simp_all
  | setNs e p =>
    simp only [step, N.setNsCore] at h ⊢
    repeat' split
    all_goals simp_all
  | delNs e =>
    simp only [step] at h ⊢
    repeat' split
    all_goals simp_all
  | setDefault p => simp [step] at h

/-- hence the same answers to name lookups -/
theorem names_refused_same_lookups (s : N) (op : Op) (h : (step s op).2 ≠ .ok) (p : El) (kd : Kind) (k : Key) (v : String) :
    (step s op).1.lookup p kd k v = s.lookup p kd k v := by
  rw [names_refused_unchanged s op h]

example : (step (run (N.initWith .edif) demoN).1 (.setKey d0 .ident "1bad")).2 = .value := by decide
example : (step (run (N.initWith .edif) demoN).1 (.attach l0 d0)).2 = .value := by decide

end Spydr.Names
