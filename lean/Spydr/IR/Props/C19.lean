/-
  C19 — Listeners are told of every structural change before it happens.
  Model: Spydr/IR/Events.lean (`eventsOf`: what each call announces; `M`/`replayM`: the mirror a passive
  listener maintains from announcements alone).  "Before it takes effect" is an ordering fact inside one
  Python call and is observed by the harness (the listener reads the netlist inside the callback).
-/
import Spydr.IR.EventsLemmas5
import Spydr.IR.Props.C14
namespace Spydr.IR

/-- "No announcement is made for a change that does not then happen": a refused call is silent. -/
theorem refused_silent (s : S) (nI : Nat) (op : Op) (h : (step s op).2 ≠ .ok) : eventsOf s nI op = [] := by
  simp [eventsOf, h]

/-- `create_child` whose add is vetoed by a naming listener: the constructor announcements of the
    half-built instance have been made, nothing else happens -/
def isVetoedCreate : Op → Bool
  | .createChild _ _ _ true => true
  | _ => false

/-- **A listener that merely replays the announcements of a call holds the mirror of the new state.**
    PARTIAL: proved for EVERY call, single and bulk (with their implied disconnect announcements),
    compound constructors and top-instance wrapping, with one exception: re-pointing an instance that
    already has a reference re-keys outer pins BY POSITION in the port/pin lists, and positions/reorders
    are not announced, so no order-free mirror can reproduce it (recorded as an open finding). The other
    hypothesis excludes the `create_child` whose add a naming listener vetoes (the half-built instance's
    constructor announcements were made; nothing else happens).
    Full statement:
    `∀ op, Inv s → (step s op).2 = .ok → replayAllM s.abs (eventsOf s nI op) = (step s op).1.abs`. -/
theorem replay_mirror_partial (s : S) (nI : Nat) (op : Op) (h : Inv s) (hok : (step s op).2 = .ok)
    (hnr : isRepoint s op = false) (hveto : isVetoedCreate op = false) :
    replayAllM s.abs (eventsOf s nI op) = (step s op).1.abs := by
  cases op with
  | addLibrary n l pos veto =>
    cases veto with
    | false => exact mirror_addLibrary s nI n l pos h hok
    | true => simp [step] at hok; split at hok <;> simp at hok
  | removeLibrary n l => exact mirror_removeLibrary s nI n l h hok
  | removeLibrariesFrom n ls => exact mirror_removeLibrariesFrom s nI n ls h hok
  | setLibraries n ls => exact mirror_setLibraries s nI n ls h hok
  | addDefinition l d pos veto =>
    cases veto with
    | false => exact mirror_addDefinition s nI l d pos h hok
    | true => simp [step] at hok; split at hok <;> simp at hok
  | removeDefinition l d => exact mirror_removeDefinition s nI l d h hok
  | removeDefinitionsFrom l ds => exact mirror_removeDefinitionsFrom s nI l ds h hok
  | setDefinitions l ds => exact mirror_setDefinitions s nI l ds h hok
  | addPort d p pos veto =>
    cases veto with
    | false => exact mirror_addPort s nI d p pos h hok
    | true => simp [step] at hok; split at hok <;> simp at hok
  | removePort d p => exact mirror_removePort s nI d p h hok
  | removePortsFrom d ps => exact mirror_removePortsFrom s nI d ps h hok
  | setPorts d ps => exact mirror_setPorts s nI d ps h hok
  | addCable d c pos veto =>
    cases veto with
    | false => exact mirror_addCable s nI d c pos h hok
    | true => simp [step] at hok; split at hok <;> simp at hok
  | removeCable d c => exact mirror_removeCable s nI d c h hok
  | removeCablesFrom d cs => exact mirror_removeCablesFrom s nI d cs h hok
  | setCables d cs => exact mirror_setCables s nI d cs h hok
  | addChild d i pos veto =>
    cases veto with
    | false => exact mirror_addChild s nI d i pos h hok
    | true => simp [step] at hok; split at hok <;> simp at hok
  | removeChild d i => exact mirror_removeChild s nI d i h hok
  | removeChildrenFrom d is => exact mirror_removeChildrenFrom s nI d is h hok
  | setChildren d is => exact mirror_setChildren s nI d is h hok
  | createChild d i ref veto =>
    cases veto with
    | false => exact mirror_createChild s nI d i ref h hok
    | true => simp [isVetoedCreate] at hveto
  | addPin p q pos => exact mirror_addPin s nI p q pos h hok
  | removePin p q => exact mirror_removePin s nI p q h hok
  | removePinsFrom p qs => exact mirror_removePinsFrom s nI p qs h hok
  | setPins p qs => exact mirror_setPins s nI p qs h hok
  | addWire c w pos => exact mirror_addWire s nI c w pos h hok
  | removeWire c w => exact mirror_removeWire s nI c w h hok
  | removeWiresFrom c ws => exact mirror_removeWiresFrom s nI c ws h hok
  | setWires c ws => exact mirror_setWires s nI c ws h hok
  | connectInner w q pos => exact mirror_connectInner s nI w q pos h hok
  | connectOuter w i q pos => exact mirror_connectOuter s nI w i q pos h hok
  | disconnect w r => exact mirror_disconnect s nI w r h hok
  | disconnectFrom w rs => exact mirror_disconnectFrom s nI w rs h hok
  | setWirePins w rs => exact mirror_setWirePins s nI w rs h hok
  | setRef i d =>
    cases d with
    | none => exact mirror_setRef_none s nI i h hok
    | some d' =>
      have : s.instRef i = none := by
        simp only [isRepoint] at hnr
        cases e : s.instRef i with
        | none => rfl
        | some x => simp [e] at hnr
      exact mirror_setRef_first s nI i d' h this
  | setTop n i => exact mirror_setTop s nI n i h hok
  | setTopDef n d t => exact mirror_setTopDef s nI n d t h hok

/-- one call on the netlist, and the same call as seen by a listener -/
def mirrorStep (nI : Nat) (sm : S × M) (op : Op) : S × M :=
  ((step sm.1 op).1, replayAllM sm.2 (eventsOf sm.1 nI op))

def Mirrorable (s : S) (op : Op) : Prop :=
  isRepoint s op = false ∧ isVetoedCreate op = false

/-- histories all of whose calls are mirrorable in the state they are made in -/
def MirrorableRun (s : S) : List Op → Prop
  | [] => True
  | op :: ops => Mirrorable s op ∧ MirrorableRun (step s op).1 ops

/-- **Every history (of mirrorable calls), every prefix**: the listener's mirror equals the mirror of the
    netlists, whether calls were accepted or refused (a refused call changes neither). -/
theorem run_mirror_partial (nI : Nat) (ops : List Op) (s : S) (h : Inv s) (hm : MirrorableRun s ops) :
    (ops.foldl (mirrorStep nI) (s, s.abs)).2 = (ops.foldl (mirrorStep nI) (s, s.abs)).1.abs ∧
    (ops.foldl (mirrorStep nI) (s, s.abs)).1 = (run s ops).1 := by
  induction ops generalizing s with
  | nil => exact ⟨rfl, rfl⟩
  | cons op ops ih =>
    simp only [List.foldl, run]
    obtain ⟨⟨hr, hv⟩, hrest⟩ := hm
    have hstep : mirrorStep nI (s, s.abs) op = ((step s op).1, (step s op).1.abs) := by
      simp only [mirrorStep]
      by_cases hok : (step s op).2 = .ok
      · rw [replay_mirror_partial s nI op h hok hr hv]
      · rw [refused_silent s nI op hok, refused_unchanged s op hok]; rfl
    rw [hstep]
    exact ih (step s op).1 (step_inv s op h) hrest

/-- "registering or removing listeners never changes what the API does": in the model the state update
    `step` does not take the set of listeners as an argument at all — a passive listener is the identity
    on the netlist; what remains (that the Python code calls listeners without letting them influence the
    mutation, except through a raised veto) is checked by running every history with and without
    listeners and comparing the dumps. The only influence a listener has is a veto, which is the `veto`
    flag of the add operations: -/
theorem listeners_only_veto (s : S) (d p pos) :
    (step s (.addPort d p pos true)).1 = s ∧
    ((step s (.addPort d p pos true)).2 = .value ∨ (step s (.addPort d p pos true)).2 = .assert) := by
  simp only [step]; repeat' split
  all_goals simp_all

/-- element data: replaying the announcements of a data call reproduces the dictionaries; a call that
    raises (`del`/`pop` of an absent key) announces nothing and changes nothing. -/
theorem data_mirror (d : D) (op : DOp) :
    (devents d op).foldl dreplay d = (dstep d op).1 ∧
    ((dstep d op).2 = false → devents d op = [] ∧ (dstep d op).1 = d) := by
  cases op <;> simp only [devents, dstep] <;> (try split) <;> simp_all [dreplay]

theorem data_run_mirror (ops : List DOp) (d : D) :
    (ops.foldl (fun (p : D × D) op => ((dstep p.1 op).1, (devents p.1 op).foldl dreplay p.2)) (d, d)).2 =
    (ops.foldl (fun (p : D × D) op => ((dstep p.1 op).1, (devents p.1 op).foldl dreplay p.2)) (d, d)).1 := by
  induction ops generalizing d with
  | nil => rfl
  | cons op ops ih =>
    simp only [List.foldl]
    rw [(data_mirror d op).1]
    exact ih _

/-! Non-vacuity -/
example : MirrorableRun S.init demoOps := by
  simp only [MirrorableRun, Mirrorable, demoOps]
  decide
example : eventsOf (run S.init (demo2.take 14)).1 5 (.removePort 0 0) =
    [.removePort 0 0, .disconnect 0 (.outer 0 0), .disconnect 0 (.outer 0 0)] := by decide

end Spydr.IR
