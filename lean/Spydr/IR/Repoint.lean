import Spydr.IR.ZipLemmas
import Spydr.IR.StepInv4
namespace Spydr.IR

theorem nodup_map_of_inj_on {α β} (l : List α) (φ : α → β) (h : l.Nodup)
    (hinj : ∀ a ∈ l, ∀ b ∈ l, φ a = φ b → a = b) : (l.map φ).Nodup := by
  induction l with
  | nil => simp
  | cons a t ih =>
    simp only [List.map_cons, List.nodup_cons, List.mem_map, not_exists, not_and]
    refine ⟨?_, ?_⟩
    · intro b hb e
      have := hinj b (by simp [hb]) a (by simp) e
      subst this
      exact (List.nodup_cons.1 h).1 hb
    · exact ih (List.nodup_cons.1 h).2 (fun x hx y hy e => hinj x (by simp [hx]) y (by simp [hy]) e)

/-- the re-keying map applied to `Wire._pins` -/
def rekey (i : OId) (f : OId → Option OId) : PinRef → PinRef
  | .inner q => .inner q
  | .outer i' q => if i' = i then (match f q with
                                    | some q' => .outer i q'
                                    | none => .outer i' q) else .outer i' q

theorem repointWith_inv (s : S) (i d d' : OId) (newPins : List OId) (f g : OId → Option OId)
    (h : Inv s) (hi : s.instRef i = some d)
    (hfg : ∀ q q', f q = some q' ↔ g q' = some q)
    (hdom : ∀ q, q ∈ s.instPins i → ∃ q', f q = some q')
    (hcod : ∀ q', q' ∈ newPins ↔ ∃ q, g q' = some q ∧ q ∈ s.instPins i)
    (hnew : ∀ q', q' ∈ newPins ↔ ∃ p, s.portDef p = some d' ∧ s.pinPort q' = some p)
    (hnd : newPins.Nodup) :
    Inv (s.repointWith i d' newPins f g) := by
  have hwp : ∀ w, (s.repointWith i d' newPins f g).wirePins w = (s.wirePins w).map (rekey i f) := by
    intro w; simp only [S.repointWith]; congr 1
  have hmem : ∀ w r, r ∈ (s.wirePins w).map (rekey i f) ↔
      (∃ q, r = .inner q ∧ PinRef.inner q ∈ s.wirePins w) ∨
      (∃ i' q, i' ≠ i ∧ r = .outer i' q ∧ PinRef.outer i' q ∈ s.wirePins w) ∨
      (∃ q q', f q = some q' ∧ r = .outer i q' ∧ PinRef.outer i q ∈ s.wirePins w) := by
    intro w r
    simp only [List.mem_map]
    constructor
    · rintro ⟨x, hx, rfl⟩
      cases x with
      | inner q => exact Or.inl ⟨q, rfl, hx⟩
      | outer i' q =>
        by_cases e : i' = i
        · subst e
          have hq : q ∈ s.instPins i' := h.ow_owned i' q w ((h.ow_iff i' q w).2 hx)
          obtain ⟨q', hq'⟩ := hdom q hq
          exact Or.inr (Or.inr ⟨q, q', hq', by simp [rekey, hq'], hx⟩)
        · exact Or.inr (Or.inl ⟨i', q, e, by simp [rekey, e], hx⟩)
    · rintro (⟨q, rfl, hx⟩ | ⟨i', q, e, rfl, hx⟩ | ⟨q, q', hq', rfl, hx⟩)
      · exact ⟨_, hx, rfl⟩
      · exact ⟨_, hx, by simp [rekey, e]⟩
      · exact ⟨_, hx, by simp [rekey, hq']⟩
  have hinj : ∀ w, ∀ a ∈ s.wirePins w, ∀ b ∈ s.wirePins w, rekey i f a = rekey i f b → a = b := by
    intro w a ha b hb e
    cases a with
    | inner qa =>
      cases b with
      | inner qb => simpa [rekey] using e
      | outer ib qb =>
        by_cases e2 : ib = i
        · subst e2
          obtain ⟨q', hq'⟩ := hdom qb (h.ow_owned ib qb w ((h.ow_iff ib qb w).2 hb))
          simp [rekey, hq'] at e
        · simp [rekey, e2] at e
    | outer ia qa =>
      cases b with
      | inner qb =>
        by_cases e2 : ia = i
        · subst e2
          obtain ⟨q', hq'⟩ := hdom qa (h.ow_owned ia qa w ((h.ow_iff ia qa w).2 ha))
          simp [rekey, hq'] at e
        · simp [rekey, e2] at e
      | outer ib qb =>
        by_cases ea : ia = i <;> by_cases eb : ib = i
        · have ha' : PinRef.outer i qa ∈ s.wirePins w := ea ▸ ha
          have hb' : PinRef.outer i qb ∈ s.wirePins w := eb ▸ hb
          obtain ⟨qa', hqa⟩ := hdom qa (h.ow_owned i qa w ((h.ow_iff i qa w).2 ha'))
          obtain ⟨qb', hqb⟩ := hdom qb (h.ow_owned i qb w ((h.ow_iff i qb w).2 hb'))
          simp [rekey, ea, eb, hqa, hqb] at e
          subst e
          have h1 := (hfg qa qa').1 hqa
          have h2 := (hfg qb qa').1 hqb
          rw [h1] at h2
          simp at h2
          rw [ea, eb, h2]
        · have ha' : PinRef.outer i qa ∈ s.wirePins w := ea ▸ ha
          obtain ⟨qa', hqa⟩ := hdom qa (h.ow_owned i qa w ((h.ow_iff i qa w).2 ha'))
          simp [rekey, ea, hqa, eb] at e
          exact absurd e.1.symm eb
        · have hb' : PinRef.outer i qb ∈ s.wirePins w := eb ▸ hb
          obtain ⟨qb', hqb⟩ := hdom qb (h.ow_owned i qb w ((h.ow_iff i qb w).2 hb'))
          simp [rekey, eb, hqb, ea] at e
        · simpa [rekey, ea, eb] using e
  have hmir := h.mirror i d hi
  obtain ⟨h1,h2,h3,h4,h5,h6,h7,h8,h9,h10,h11,h12,h13,h14,h15,h16,h17,h18,h19,h20,h21,h22⟩ := h
  refine ⟨h1,h2,h3,h4,h5,h6,h7,h8,h9,h10,h11,h12,h13,h14,?_,?_,?_,?_,?_,?_,?_,?_⟩
  · -- pw_iff
    intro q w
    rw [hwp, hmem]
    simp only [S.repointWith]
    grind
  · -- ow_iff
    intro i' q' w
    rw [hwp, hmem]
    simp only [S.repointWith]
    by_cases e : i' = i
    · subst e
      simp only [if_true]
      constructor
      · intro hh
        cases hg : g q' with
        | none => simp [hg] at hh
        | some q =>
          simp [hg] at hh
          exact Or.inr (Or.inr ⟨q, q', (hfg q q').2 hg, rfl, (h16 i' q w).1 hh⟩)
      · rintro (⟨q, hq, _⟩ | ⟨i2, q, e2, hq, _⟩ | ⟨q, q2, hq, hr, hx⟩)
        · cases hq
        · cases hq; exact absurd rfl e2
        · cases hr
          have := (hfg q q').1 hq
          simp [this]
          exact (h16 i' q w).2 hx
    · simp only [if_neg e]
      rw [h16]
      constructor
      · intro hh; exact Or.inr (Or.inl ⟨i', q', e, rfl, hh⟩)
      · rintro (⟨q, hq, _⟩ | ⟨i2, q, e2, hq, hx⟩ | ⟨q, q2, hq, hr, hx⟩)
        · cases hq
        · cases hq; exact hx
        · cases hr; exact absurd rfl e
  · -- wp_nd
    intro w
    rw [hwp]
    exact nodup_map_of_inj_on _ _ (h17 w) (hinj w)
  · -- refs_iff
    intro e i'
    simp only [S.repointWith]
    grind
  · -- mirror
    intro i' e hr q
    simp only [S.repointWith] at hr ⊢
    by_cases e2 : i' = i
    · subst e2
      simp at hr; subst hr
      simp only [if_true]
      exact hnew q
    · simp only [if_neg e2] at hr ⊢
      exact h19 i' e hr q
  · -- mirror_nd
    intro i'
    simp only [S.repointWith]
    by_cases e2 : i' = i
    · simp [e2, hnd]
    · simp [e2, h20 i']
  · -- noref
    intro i' hr
    simp only [S.repointWith] at hr ⊢
    by_cases e2 : i' = i
    · simp [e2] at hr
    · simp only [if_neg e2] at hr ⊢
      exact h21 i' hr
  · -- ow_owned
    intro i' q' w hh
    simp only [S.repointWith] at hh ⊢
    by_cases e2 : i' = i
    · subst e2
      simp only [if_true] at hh ⊢
      cases hg : g q' with
      | none => simp [hg] at hh
      | some q =>
        simp [hg] at hh
        exact (hcod q').2 ⟨q, hg, h22 i' q w hh⟩
    · simp only [if_neg e2] at hh ⊢
      exact h22 i' q' w hh

end Spydr.IR
