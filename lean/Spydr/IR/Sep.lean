/-
  Separation: a heap whose objects split into a low region (`< off`) and a high region (`≥ off`) with no
  pointer crossing — what `Netlist.clone` produces — and the frame property of calls confined to one side.
-/
import Spydr.IR.BelowStep
namespace Spydr.IR

/-- no pointer of any kind crosses the boundary `off` -/
structure Sep (s : S) (off : OId) : Prop where
  libNl : ∀ x y, s.libNl x = some y → (x < off ↔ y < off)
  defLib : ∀ x y, s.defLib x = some y → (x < off ↔ y < off)
  portDef : ∀ x y, s.portDef x = some y → (x < off ↔ y < off)
  cableDef : ∀ x y, s.cableDef x = some y → (x < off ↔ y < off)
  instParent : ∀ x y, s.instParent x = some y → (x < off ↔ y < off)
  pinPort : ∀ x y, s.pinPort x = some y → (x < off ↔ y < off)
  wireCable : ∀ x y, s.wireCable x = some y → (x < off ↔ y < off)
  pinWire : ∀ x y, s.pinWire x = some y → (x < off ↔ y < off)
  opWire : ∀ i q w, s.opWire i q = some w → (i < off ↔ w < off) ∧ (q < off ↔ w < off)
  instRef : ∀ x y, s.instRef x = some y → (x < off ↔ y < off)
  top : ∀ x y, s.top x = some y → (x < off ↔ y < off)
  libs : ∀ x y, y ∈ s.libs x → (x < off ↔ y < off)
  defs : ∀ x y, y ∈ s.defs x → (x < off ↔ y < off)
  ports : ∀ x y, y ∈ s.ports x → (x < off ↔ y < off)
  cables : ∀ x y, y ∈ s.cables x → (x < off ↔ y < off)
  children : ∀ x y, y ∈ s.children x → (x < off ↔ y < off)
  pins : ∀ x y, y ∈ s.pins x → (x < off ↔ y < off)
  wires : ∀ x y, y ∈ s.wires x → (x < off ↔ y < off)
  instPins : ∀ x y, y ∈ s.instPins x → (x < off ↔ y < off)
  wpI : ∀ w q, PinRef.inner q ∈ s.wirePins w → (w < off ↔ q < off)
  wpO : ∀ w i q, PinRef.outer i q ∈ s.wirePins w → (w < off ↔ i < off) ∧ (w < off ↔ q < off)
  refs : ∀ d i, s.refs d i = true → (d < off ↔ i < off)

def PinRef.above (off : OId) : PinRef → Prop
  | .inner q => off ≤ q
  | .outer i q => off ≤ i ∧ off ≤ q

def optAbove (off : OId) : Option OId → Prop
  | none => True
  | some x => off ≤ x

/-- every object an operation mentions lies in the high region -/
def Op.above (off : OId) : Op → Prop
  | .addLibrary n l _ _ => off ≤ n ∧ off ≤ l
  | .removeLibrary n l => off ≤ n ∧ off ≤ l
  | .removeLibrariesFrom n ls => off ≤ n ∧ ∀ x ∈ ls, off ≤ x
  | .setLibraries n ls => off ≤ n ∧ ∀ x ∈ ls, off ≤ x
  | .addDefinition l d _ _ => off ≤ l ∧ off ≤ d
  | .removeDefinition l d => off ≤ l ∧ off ≤ d
  | .removeDefinitionsFrom l ds => off ≤ l ∧ ∀ x ∈ ds, off ≤ x
  | .setDefinitions l ds => off ≤ l ∧ ∀ x ∈ ds, off ≤ x
  | .addPort d p _ _ => off ≤ d ∧ off ≤ p
  | .removePort d p => off ≤ d ∧ off ≤ p
  | .removePortsFrom d ps => off ≤ d ∧ ∀ x ∈ ps, off ≤ x
  | .setPorts d ps => off ≤ d ∧ ∀ x ∈ ps, off ≤ x
  | .addCable d c _ _ => off ≤ d ∧ off ≤ c
  | .removeCable d c => off ≤ d ∧ off ≤ c
  | .removeCablesFrom d cs => off ≤ d ∧ ∀ x ∈ cs, off ≤ x
  | .setCables d cs => off ≤ d ∧ ∀ x ∈ cs, off ≤ x
  | .addChild d i _ _ => off ≤ d ∧ off ≤ i
  | .removeChild d i => off ≤ d ∧ off ≤ i
  | .removeChildrenFrom d is => off ≤ d ∧ ∀ x ∈ is, off ≤ x
  | .setChildren d is => off ≤ d ∧ ∀ x ∈ is, off ≤ x
  | .createChild d i ref _ => off ≤ d ∧ off ≤ i ∧ optAbove off ref
  | .addPin p q _ => off ≤ p ∧ off ≤ q
  | .removePin p q => off ≤ p ∧ off ≤ q
  | .removePinsFrom p qs => off ≤ p ∧ ∀ x ∈ qs, off ≤ x
  | .setPins p qs => off ≤ p ∧ ∀ x ∈ qs, off ≤ x
  | .addWire c w _ => off ≤ c ∧ off ≤ w
  | .removeWire c w => off ≤ c ∧ off ≤ w
  | .removeWiresFrom c ws => off ≤ c ∧ ∀ x ∈ ws, off ≤ x
  | .setWires c ws => off ≤ c ∧ ∀ x ∈ ws, off ≤ x
  | .connectInner w q _ => off ≤ w ∧ off ≤ q
  | .connectOuter w i q _ => off ≤ w ∧ off ≤ i ∧ off ≤ q
  | .disconnect w r => off ≤ w ∧ r.above off
  | .disconnectFrom w rs => off ≤ w ∧ ∀ r ∈ rs, r.above off
  | .setWirePins w rs => off ≤ w ∧ ∀ r ∈ rs, r.above off
  | .setRef i d => off ≤ i ∧ optAbove off d
  | .setTop n i => off ≤ n ∧ optAbove off i
  | .setTopDef n d t => off ≤ n ∧ off ≤ d ∧ off ≤ t

/-- the part of the heap that belongs to the low region -/
structure LowEq (a b : S) (off : OId) : Prop where
  f1 : ∀ x, x < off → a.libs x = b.libs x ∧ a.libNl x = b.libNl x ∧ a.defs x = b.defs x ∧ a.defLib x = b.defLib x ∧
    a.ports x = b.ports x ∧ a.portDef x = b.portDef x ∧ a.cables x = b.cables x ∧ a.cableDef x = b.cableDef x ∧
    a.children x = b.children x ∧ a.instParent x = b.instParent x ∧ a.pins x = b.pins x ∧ a.pinPort x = b.pinPort x ∧
    a.wires x = b.wires x ∧ a.wireCable x = b.wireCable x ∧ a.wirePins x = b.wirePins x ∧ a.pinWire x = b.pinWire x ∧
    a.instRef x = b.instRef x ∧ a.instPins x = b.instPins x ∧ a.top x = b.top x
  f2 : ∀ i q, i < off → q < off → a.opWire i q = b.opWire i q
  f3 : ∀ d i, d < off → i < off → a.refs d i = b.refs d i

end Spydr.IR
