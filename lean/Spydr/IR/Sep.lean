/-
  Separation: a heap whose objects split into a low region (`< off`) and a high region (`≥ off`) with no
  pointer crossing — what `Netlist.clone` produces — and the frame property of calls confined to one side.
-/
import Spydr.IR.BelowStep
namespace Spydr.IR

/-- `R` is a region of the id space (for every class); no pointer of any kind crosses its boundary -/
structure Sep (s : S) (R : OId → Prop) : Prop where
  libNl : ∀ x y, s.libNl x = some y → (R x ↔ R y)
  defLib : ∀ x y, s.defLib x = some y → (R x ↔ R y)
  portDef : ∀ x y, s.portDef x = some y → (R x ↔ R y)
  cableDef : ∀ x y, s.cableDef x = some y → (R x ↔ R y)
  instParent : ∀ x y, s.instParent x = some y → (R x ↔ R y)
  pinPort : ∀ x y, s.pinPort x = some y → (R x ↔ R y)
  wireCable : ∀ x y, s.wireCable x = some y → (R x ↔ R y)
  pinWire : ∀ x y, s.pinWire x = some y → (R x ↔ R y)
  opWire : ∀ i q w, s.opWire i q = some w → (R i ↔ R w) ∧ (R q ↔ R w)
  instRef : ∀ x y, s.instRef x = some y → (R x ↔ R y)
  top : ∀ x y, s.top x = some y → (R x ↔ R y)
  libs : ∀ x y, y ∈ s.libs x → (R x ↔ R y)
  defs : ∀ x y, y ∈ s.defs x → (R x ↔ R y)
  ports : ∀ x y, y ∈ s.ports x → (R x ↔ R y)
  cables : ∀ x y, y ∈ s.cables x → (R x ↔ R y)
  children : ∀ x y, y ∈ s.children x → (R x ↔ R y)
  pins : ∀ x y, y ∈ s.pins x → (R x ↔ R y)
  wires : ∀ x y, y ∈ s.wires x → (R x ↔ R y)
  instPins : ∀ x y, y ∈ s.instPins x → (R x ↔ R y)
  wpI : ∀ w q, PinRef.inner q ∈ s.wirePins w → (R w ↔ R q)
  wpO : ∀ w i q, PinRef.outer i q ∈ s.wirePins w → (R w ↔ R i) ∧ (R w ↔ R q)
  refs : ∀ d i, s.refs d i = true → (R d ↔ R i)

def PinRef.inR (R : OId → Prop) : PinRef → Prop
  | .inner q => R q
  | .outer i q => R i ∧ R q

def optIn (R : OId → Prop) : Option OId → Prop
  | none => True
  | some x => R x

/-- every object an operation mentions lies in the region -/
def Op.inside (R : OId → Prop) : Op → Prop
  | .addLibrary n l _ _ => R n ∧ R l
  | .removeLibrary n l => R n ∧ R l
  | .removeLibrariesFrom n ls => R n ∧ ∀ x ∈ ls, R x
  | .setLibraries n ls => R n ∧ ∀ x ∈ ls, R x
  | .addDefinition l d _ _ => R l ∧ R d
  | .removeDefinition l d => R l ∧ R d
  | .removeDefinitionsFrom l ds => R l ∧ ∀ x ∈ ds, R x
  | .setDefinitions l ds => R l ∧ ∀ x ∈ ds, R x
  | .addPort d p _ _ => R d ∧ R p
  | .removePort d p => R d ∧ R p
  | .removePortsFrom d ps => R d ∧ ∀ x ∈ ps, R x
  | .setPorts d ps => R d ∧ ∀ x ∈ ps, R x
  | .addCable d c _ _ => R d ∧ R c
  | .removeCable d c => R d ∧ R c
  | .removeCablesFrom d cs => R d ∧ ∀ x ∈ cs, R x
  | .setCables d cs => R d ∧ ∀ x ∈ cs, R x
  | .addChild d i _ _ => R d ∧ R i
  | .removeChild d i => R d ∧ R i
  | .removeChildrenFrom d is => R d ∧ ∀ x ∈ is, R x
  | .setChildren d is => R d ∧ ∀ x ∈ is, R x
  | .createChild d i ref _ => R d ∧ R i ∧ optIn R ref
  | .addPin p q _ => R p ∧ R q
  | .removePin p q => R p ∧ R q
  | .removePinsFrom p qs => R p ∧ ∀ x ∈ qs, R x
  | .setPins p qs => R p ∧ ∀ x ∈ qs, R x
  | .addWire c w _ => R c ∧ R w
  | .removeWire c w => R c ∧ R w
  | .removeWiresFrom c ws => R c ∧ ∀ x ∈ ws, R x
  | .setWires c ws => R c ∧ ∀ x ∈ ws, R x
  | .connectInner w q _ => R w ∧ R q
  | .connectOuter w i q _ => R w ∧ R i ∧ R q
  | .disconnect w r => R w ∧ r.inR R
  | .disconnectFrom w rs => R w ∧ ∀ r ∈ rs, r.inR R
  | .setWirePins w rs => R w ∧ ∀ r ∈ rs, r.inR R
  | .setRef i d => R i ∧ optIn R d
  | .setTop n i => R n ∧ optIn R i
  | .setTopDef n d t => R n ∧ R d ∧ R t

/-- the two heaps agree on everything outside the region -/
structure OutEq (a b : S) (R : OId → Prop) : Prop where
  f1 : ∀ x, ¬ R x → a.libs x = b.libs x ∧ a.libNl x = b.libNl x ∧ a.defs x = b.defs x ∧ a.defLib x = b.defLib x ∧
    a.ports x = b.ports x ∧ a.portDef x = b.portDef x ∧ a.cables x = b.cables x ∧ a.cableDef x = b.cableDef x ∧
    a.children x = b.children x ∧ a.instParent x = b.instParent x ∧ a.pins x = b.pins x ∧ a.pinPort x = b.pinPort x ∧
    a.wires x = b.wires x ∧ a.wireCable x = b.wireCable x ∧ a.wirePins x = b.wirePins x ∧ a.pinWire x = b.pinWire x ∧
    a.instRef x = b.instRef x ∧ a.instPins x = b.instPins x ∧ a.top x = b.top x
  f2 : ∀ i q, ¬ R i → ¬ R q → a.opWire i q = b.opWire i q
  f3 : ∀ d i, ¬ R d → ¬ R i → a.refs d i = b.refs d i

end Spydr.IR
