import Spydr.IR.Sep
namespace Spydr.IR

macro "sep_tac" : tactic => `(tactic| (constructor <;> grind [mem_insertAt, isReorder_iff, PinRef.inR, optIn, pinIn_some, pinIn_none, List.filter_eq_self]))

macro "sep_op" : tactic => `(tactic| (
  intro hb ho
  obtain ⟨b1,b2,b3,b4,b5,b6,b7,b8,b9,b10,b11,b12,b13,b14,b15,b16,b17,b18,b19,b20,b21,b22⟩ := hb
  simp only [Op.inside] at ho
  simp only [step]
  repeat' split
  all_goals first
    | exact ⟨⟨b1,b2,b3,b4,b5,b6,b7,b8,b9,b10,b11,b12,b13,b14,b15,b16,b17,b18,b19,b20,b21,b22⟩, ⟨fun _ _ => by simp, fun _ _ _ _ => rfl, fun _ _ _ _ => rfl⟩⟩
    | (refine ⟨?_, ?_⟩ <;> sep_tac)))

end Spydr.IR
