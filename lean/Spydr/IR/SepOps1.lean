import Spydr.IR.SepOps0
namespace Spydr.IR

set_option maxHeartbeats 1600000 in
theorem sep_addLibrary (s : S) (off n l pos veto) : Sep s off → (Op.addLibrary n l pos veto).above off →
    Sep (step s (.addLibrary n l pos veto)).1 off ∧ LowEq (step s (.addLibrary n l pos veto)).1 s off := by sep_op
set_option maxHeartbeats 1600000 in
theorem sep_removeDefinitionsFrom (s : S) (off l ds) : Sep s off → (Op.removeDefinitionsFrom l ds).above off →
    Sep (step s (.removeDefinitionsFrom l ds)).1 off ∧ LowEq (step s (.removeDefinitionsFrom l ds)).1 s off := by sep_op
set_option maxHeartbeats 1600000 in
theorem sep_addCable (s : S) (off d c pos veto) : Sep s off → (Op.addCable d c pos veto).above off →
    Sep (step s (.addCable d c pos veto)).1 off ∧ LowEq (step s (.addCable d c pos veto)).1 s off := by sep_op
set_option maxHeartbeats 1600000 in
theorem sep_removeChildrenFrom (s : S) (off d is) : Sep s off → (Op.removeChildrenFrom d is).above off →
    Sep (step s (.removeChildrenFrom d is)).1 off ∧ LowEq (step s (.removeChildrenFrom d is)).1 s off := by sep_op
set_option maxHeartbeats 1600000 in
theorem sep_addWire (s : S) (off c w pos) : Sep s off → (Op.addWire c w pos).above off →
    Sep (step s (.addWire c w pos)).1 off ∧ LowEq (step s (.addWire c w pos)).1 s off := by sep_op
set_option maxHeartbeats 1600000 in
theorem sep_disconnect (s : S) (off w r) : Sep s off → (Op.disconnect w r).above off →
    Sep (step s (.disconnect w r)).1 off ∧ LowEq (step s (.disconnect w r)).1 s off := by sep_op

end Spydr.IR
