import Spydr.IR.SepOps0
namespace Spydr.IR

set_option maxHeartbeats 1600000 in
theorem sep_addLibrary (s : S) (R : OId → Prop) (n l pos veto) : Sep s R → (Op.addLibrary n l pos veto).inside R →
    Sep (step s (.addLibrary n l pos veto)).1 R ∧ OutEq (step s (.addLibrary n l pos veto)).1 s R := by sep_op
set_option maxHeartbeats 1600000 in
theorem sep_removeDefinitionsFrom (s : S) (R : OId → Prop) (l ds) : Sep s R → (Op.removeDefinitionsFrom l ds).inside R →
    Sep (step s (.removeDefinitionsFrom l ds)).1 R ∧ OutEq (step s (.removeDefinitionsFrom l ds)).1 s R := by sep_op
set_option maxHeartbeats 1600000 in
theorem sep_addCable (s : S) (R : OId → Prop) (d c pos veto) : Sep s R → (Op.addCable d c pos veto).inside R →
    Sep (step s (.addCable d c pos veto)).1 R ∧ OutEq (step s (.addCable d c pos veto)).1 s R := by sep_op
set_option maxHeartbeats 1600000 in
theorem sep_removeChildrenFrom (s : S) (R : OId → Prop) (d is) : Sep s R → (Op.removeChildrenFrom d is).inside R →
    Sep (step s (.removeChildrenFrom d is)).1 R ∧ OutEq (step s (.removeChildrenFrom d is)).1 s R := by sep_op
set_option maxHeartbeats 1600000 in
theorem sep_addWire (s : S) (R : OId → Prop) (c w pos) : Sep s R → (Op.addWire c w pos).inside R →
    Sep (step s (.addWire c w pos)).1 R ∧ OutEq (step s (.addWire c w pos)).1 s R := by sep_op
set_option maxHeartbeats 1600000 in
theorem sep_disconnect (s : S) (R : OId → Prop) (w r) : Sep s R → (Op.disconnect w r).inside R →
    Sep (step s (.disconnect w r)).1 R ∧ OutEq (step s (.disconnect w r)).1 s R := by sep_op

end Spydr.IR
