import Spydr.IR.SepOps0
namespace Spydr.IR

theorem sep_removeLibrary (s : S) (off n l) : Sep s off → (Op.removeLibrary n l).above off →
    Sep (step s (.removeLibrary n l)).1 off ∧ LowEq (step s (.removeLibrary n l)).1 s off := by sep_op
theorem sep_setDefinitions (s : S) (off l ds) : Sep s off → (Op.setDefinitions l ds).above off →
    Sep (step s (.setDefinitions l ds)).1 off ∧ LowEq (step s (.setDefinitions l ds)).1 s off := by sep_op
theorem sep_removeCable (s : S) (off d c) : Sep s off → (Op.removeCable d c).above off →
    Sep (step s (.removeCable d c)).1 off ∧ LowEq (step s (.removeCable d c)).1 s off := by sep_op
theorem sep_setChildren (s : S) (off d is) : Sep s off → (Op.setChildren d is).above off →
    Sep (step s (.setChildren d is)).1 off ∧ LowEq (step s (.setChildren d is)).1 s off := by sep_op
theorem sep_removeWire (s : S) (off c w) : Sep s off → (Op.removeWire c w).above off →
    Sep (step s (.removeWire c w)).1 off ∧ LowEq (step s (.removeWire c w)).1 s off := by sep_op
theorem sep_disconnectFrom (s : S) (off w rs) : Sep s off → (Op.disconnectFrom w rs).above off →
    Sep (step s (.disconnectFrom w rs)).1 off ∧ LowEq (step s (.disconnectFrom w rs)).1 s off := by sep_op

end Spydr.IR
