import Spydr.IR.SepOps0
namespace Spydr.IR

theorem sep_removeLibrary (s : S) (R : OId → Prop) (n l) : Sep s R → (Op.removeLibrary n l).inside R →
    Sep (step s (.removeLibrary n l)).1 R ∧ OutEq (step s (.removeLibrary n l)).1 s R := by sep_op
theorem sep_setDefinitions (s : S) (R : OId → Prop) (l ds) : Sep s R → (Op.setDefinitions l ds).inside R →
    Sep (step s (.setDefinitions l ds)).1 R ∧ OutEq (step s (.setDefinitions l ds)).1 s R := by sep_op
theorem sep_removeCable (s : S) (R : OId → Prop) (d c) : Sep s R → (Op.removeCable d c).inside R →
    Sep (step s (.removeCable d c)).1 R ∧ OutEq (step s (.removeCable d c)).1 s R := by sep_op
theorem sep_setChildren (s : S) (R : OId → Prop) (d is) : Sep s R → (Op.setChildren d is).inside R →
    Sep (step s (.setChildren d is)).1 R ∧ OutEq (step s (.setChildren d is)).1 s R := by sep_op
theorem sep_removeWire (s : S) (R : OId → Prop) (c w) : Sep s R → (Op.removeWire c w).inside R →
    Sep (step s (.removeWire c w)).1 R ∧ OutEq (step s (.removeWire c w)).1 s R := by sep_op
theorem sep_disconnectFrom (s : S) (R : OId → Prop) (w rs) : Sep s R → (Op.disconnectFrom w rs).inside R →
    Sep (step s (.disconnectFrom w rs)).1 R ∧ OutEq (step s (.disconnectFrom w rs)).1 s R := by sep_op

end Spydr.IR
