import Spydr.IR.SepOps0
namespace Spydr.IR

set_option maxHeartbeats 1600000 in
theorem sep_removeLibrariesFrom (s : S) (off n ls) : Sep s off → (Op.removeLibrariesFrom n ls).above off →
    Sep (step s (.removeLibrariesFrom n ls)).1 off ∧ LowEq (step s (.removeLibrariesFrom n ls)).1 s off := by sep_op
set_option maxHeartbeats 1600000 in
theorem sep_addPort (s : S) (off d p pos veto) : Sep s off → (Op.addPort d p pos veto).above off →
    Sep (step s (.addPort d p pos veto)).1 off ∧ LowEq (step s (.addPort d p pos veto)).1 s off := by sep_op
set_option maxHeartbeats 1600000 in
theorem sep_removeCablesFrom (s : S) (off d cs) : Sep s off → (Op.removeCablesFrom d cs).above off →
    Sep (step s (.removeCablesFrom d cs)).1 off ∧ LowEq (step s (.removeCablesFrom d cs)).1 s off := by sep_op
set_option maxHeartbeats 1600000 in
theorem sep_addPin (s : S) (off p q pos) : Sep s off → (Op.addPin p q pos).above off →
    Sep (step s (.addPin p q pos)).1 off ∧ LowEq (step s (.addPin p q pos)).1 s off := by sep_op
set_option maxHeartbeats 1600000 in
theorem sep_removeWiresFrom (s : S) (off c ws) : Sep s off → (Op.removeWiresFrom c ws).above off →
    Sep (step s (.removeWiresFrom c ws)).1 off ∧ LowEq (step s (.removeWiresFrom c ws)).1 s off := by sep_op
set_option maxHeartbeats 1600000 in
theorem sep_setWirePins (s : S) (off w rs) : Sep s off → (Op.setWirePins w rs).above off →
    Sep (step s (.setWirePins w rs)).1 off ∧ LowEq (step s (.setWirePins w rs)).1 s off := by sep_op

end Spydr.IR
