import Spydr.IR.SepOps0
namespace Spydr.IR

set_option maxHeartbeats 1600000 in
theorem sep_removeLibrariesFrom (s : S) (R : OId → Prop) (n ls) : Sep s R → (Op.removeLibrariesFrom n ls).inside R →
    Sep (step s (.removeLibrariesFrom n ls)).1 R ∧ OutEq (step s (.removeLibrariesFrom n ls)).1 s R := by sep_op
set_option maxHeartbeats 1600000 in
theorem sep_addPort (s : S) (R : OId → Prop) (d p pos veto) : Sep s R → (Op.addPort d p pos veto).inside R →
    Sep (step s (.addPort d p pos veto)).1 R ∧ OutEq (step s (.addPort d p pos veto)).1 s R := by sep_op
set_option maxHeartbeats 1600000 in
theorem sep_removeCablesFrom (s : S) (R : OId → Prop) (d cs) : Sep s R → (Op.removeCablesFrom d cs).inside R →
    Sep (step s (.removeCablesFrom d cs)).1 R ∧ OutEq (step s (.removeCablesFrom d cs)).1 s R := by sep_op
set_option maxHeartbeats 1600000 in
theorem sep_addPin (s : S) (R : OId → Prop) (p q pos) : Sep s R → (Op.addPin p q pos).inside R →
    Sep (step s (.addPin p q pos)).1 R ∧ OutEq (step s (.addPin p q pos)).1 s R := by sep_op
set_option maxHeartbeats 1600000 in
theorem sep_removeWiresFrom (s : S) (R : OId → Prop) (c ws) : Sep s R → (Op.removeWiresFrom c ws).inside R →
    Sep (step s (.removeWiresFrom c ws)).1 R ∧ OutEq (step s (.removeWiresFrom c ws)).1 s R := by sep_op
set_option maxHeartbeats 1600000 in
theorem sep_setWirePins (s : S) (R : OId → Prop) (w rs) : Sep s R → (Op.setWirePins w rs).inside R →
    Sep (step s (.setWirePins w rs)).1 R ∧ OutEq (step s (.setWirePins w rs)).1 s R := by sep_op

end Spydr.IR
