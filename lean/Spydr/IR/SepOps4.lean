import Spydr.IR.SepOps0
namespace Spydr.IR

theorem sep_setLibraries (s : S) (R : OId → Prop) (n ls) : Sep s R → (Op.setLibraries n ls).inside R →
    Sep (step s (.setLibraries n ls)).1 R ∧ OutEq (step s (.setLibraries n ls)).1 s R := by sep_op
theorem sep_removePort (s : S) (R : OId → Prop) (d p) : Sep s R → (Op.removePort d p).inside R →
    Sep (step s (.removePort d p)).1 R ∧ OutEq (step s (.removePort d p)).1 s R := by sep_op
theorem sep_setCables (s : S) (R : OId → Prop) (d cs) : Sep s R → (Op.setCables d cs).inside R →
    Sep (step s (.setCables d cs)).1 R ∧ OutEq (step s (.setCables d cs)).1 s R := by sep_op
theorem sep_removePin (s : S) (R : OId → Prop) (p q) : Sep s R → (Op.removePin p q).inside R →
    Sep (step s (.removePin p q)).1 R ∧ OutEq (step s (.removePin p q)).1 s R := by sep_op
theorem sep_setWires (s : S) (R : OId → Prop) (c ws) : Sep s R → (Op.setWires c ws).inside R →
    Sep (step s (.setWires c ws)).1 R ∧ OutEq (step s (.setWires c ws)).1 s R := by sep_op
theorem sep_setTop (s : S) (R : OId → Prop) (n i) : Sep s R → (Op.setTop n i).inside R →
    Sep (step s (.setTop n i)).1 R ∧ OutEq (step s (.setTop n i)).1 s R := by sep_op

end Spydr.IR
