import Spydr.IR.SepOps0
namespace Spydr.IR

theorem sep_setLibraries (s : S) (off n ls) : Sep s off → (Op.setLibraries n ls).above off →
    Sep (step s (.setLibraries n ls)).1 off ∧ LowEq (step s (.setLibraries n ls)).1 s off := by sep_op
theorem sep_removePort (s : S) (off d p) : Sep s off → (Op.removePort d p).above off →
    Sep (step s (.removePort d p)).1 off ∧ LowEq (step s (.removePort d p)).1 s off := by sep_op
theorem sep_setCables (s : S) (off d cs) : Sep s off → (Op.setCables d cs).above off →
    Sep (step s (.setCables d cs)).1 off ∧ LowEq (step s (.setCables d cs)).1 s off := by sep_op
theorem sep_removePin (s : S) (off p q) : Sep s off → (Op.removePin p q).above off →
    Sep (step s (.removePin p q)).1 off ∧ LowEq (step s (.removePin p q)).1 s off := by sep_op
theorem sep_setWires (s : S) (off c ws) : Sep s off → (Op.setWires c ws).above off →
    Sep (step s (.setWires c ws)).1 off ∧ LowEq (step s (.setWires c ws)).1 s off := by sep_op
theorem sep_setTop (s : S) (off n i) : Sep s off → (Op.setTop n i).above off →
    Sep (step s (.setTop n i)).1 off ∧ LowEq (step s (.setTop n i)).1 s off := by sep_op

end Spydr.IR
