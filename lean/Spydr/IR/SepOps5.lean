import Spydr.IR.SepOps0
namespace Spydr.IR

theorem sep_addDefinition (s : S) (off l d pos veto) : Sep s off → (Op.addDefinition l d pos veto).above off →
    Sep (step s (.addDefinition l d pos veto)).1 off ∧ LowEq (step s (.addDefinition l d pos veto)).1 s off := by sep_op
theorem sep_removePortsFrom (s : S) (off d ps) : Sep s off → (Op.removePortsFrom d ps).above off →
    Sep (step s (.removePortsFrom d ps)).1 off ∧ LowEq (step s (.removePortsFrom d ps)).1 s off := by sep_op
theorem sep_addChild (s : S) (off d i pos veto) : Sep s off → (Op.addChild d i pos veto).above off →
    Sep (step s (.addChild d i pos veto)).1 off ∧ LowEq (step s (.addChild d i pos veto)).1 s off := by sep_op
theorem sep_removePinsFrom (s : S) (off p qs) : Sep s off → (Op.removePinsFrom p qs).above off →
    Sep (step s (.removePinsFrom p qs)).1 off ∧ LowEq (step s (.removePinsFrom p qs)).1 s off := by sep_op
theorem sep_connectInner (s : S) (off w q pos) : Sep s off → (Op.connectInner w q pos).above off →
    Sep (step s (.connectInner w q pos)).1 off ∧ LowEq (step s (.connectInner w q pos)).1 s off := by sep_op

end Spydr.IR
