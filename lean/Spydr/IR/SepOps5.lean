import Spydr.IR.SepOps0
namespace Spydr.IR

theorem sep_addDefinition (s : S) (R : OId → Prop) (l d pos veto) : Sep s R → (Op.addDefinition l d pos veto).inside R →
    Sep (step s (.addDefinition l d pos veto)).1 R ∧ OutEq (step s (.addDefinition l d pos veto)).1 s R := by sep_op
theorem sep_removePortsFrom (s : S) (R : OId → Prop) (d ps) : Sep s R → (Op.removePortsFrom d ps).inside R →
    Sep (step s (.removePortsFrom d ps)).1 R ∧ OutEq (step s (.removePortsFrom d ps)).1 s R := by sep_op
theorem sep_addChild (s : S) (R : OId → Prop) (d i pos veto) : Sep s R → (Op.addChild d i pos veto).inside R →
    Sep (step s (.addChild d i pos veto)).1 R ∧ OutEq (step s (.addChild d i pos veto)).1 s R := by sep_op
theorem sep_removePinsFrom (s : S) (R : OId → Prop) (p qs) : Sep s R → (Op.removePinsFrom p qs).inside R →
    Sep (step s (.removePinsFrom p qs)).1 R ∧ OutEq (step s (.removePinsFrom p qs)).1 s R := by sep_op
theorem sep_connectInner (s : S) (R : OId → Prop) (w q pos) : Sep s R → (Op.connectInner w q pos).inside R →
    Sep (step s (.connectInner w q pos)).1 R ∧ OutEq (step s (.connectInner w q pos)).1 s R := by sep_op

end Spydr.IR
