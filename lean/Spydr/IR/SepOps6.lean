import Spydr.IR.SepOps0
namespace Spydr.IR

theorem sep_removeDefinition (s : S) (R : OId → Prop) (l d) : Sep s R → (Op.removeDefinition l d).inside R →
    Sep (step s (.removeDefinition l d)).1 R ∧ OutEq (step s (.removeDefinition l d)).1 s R := by sep_op
theorem sep_setPorts (s : S) (R : OId → Prop) (d ps) : Sep s R → (Op.setPorts d ps).inside R →
    Sep (step s (.setPorts d ps)).1 R ∧ OutEq (step s (.setPorts d ps)).1 s R := by sep_op
theorem sep_removeChild (s : S) (R : OId → Prop) (d i) : Sep s R → (Op.removeChild d i).inside R →
    Sep (step s (.removeChild d i)).1 R ∧ OutEq (step s (.removeChild d i)).1 s R := by sep_op
theorem sep_setPins (s : S) (R : OId → Prop) (p qs) : Sep s R → (Op.setPins p qs).inside R →
    Sep (step s (.setPins p qs)).1 R ∧ OutEq (step s (.setPins p qs)).1 s R := by sep_op
theorem sep_connectOuter (s : S) (R : OId → Prop) (w i q pos) : Sep s R → (Op.connectOuter w i q pos).inside R →
    Sep (step s (.connectOuter w i q pos)).1 R ∧ OutEq (step s (.connectOuter w i q pos)).1 s R := by sep_op

end Spydr.IR
