import Spydr.IR.SepOps0
namespace Spydr.IR

theorem sep_removeDefinition (s : S) (off l d) : Sep s off → (Op.removeDefinition l d).above off →
    Sep (step s (.removeDefinition l d)).1 off ∧ LowEq (step s (.removeDefinition l d)).1 s off := by sep_op
theorem sep_setPorts (s : S) (off d ps) : Sep s off → (Op.setPorts d ps).above off →
    Sep (step s (.setPorts d ps)).1 off ∧ LowEq (step s (.setPorts d ps)).1 s off := by sep_op
theorem sep_removeChild (s : S) (off d i) : Sep s off → (Op.removeChild d i).above off →
    Sep (step s (.removeChild d i)).1 off ∧ LowEq (step s (.removeChild d i)).1 s off := by sep_op
theorem sep_setPins (s : S) (off p qs) : Sep s off → (Op.setPins p qs).above off →
    Sep (step s (.setPins p qs)).1 off ∧ LowEq (step s (.setPins p qs)).1 s off := by sep_op
theorem sep_connectOuter (s : S) (off w i q pos) : Sep s off → (Op.connectOuter w i q pos).above off →
    Sep (step s (.connectOuter w i q pos)).1 off ∧ LowEq (step s (.connectOuter w i q pos)).1 s off := by sep_op

end Spydr.IR
