import Spydr.IR.SepOps0
namespace Spydr.IR

theorem outEq_refl (s : S) (R : OId → Prop) : OutEq s s R :=
  ⟨fun _ _ => by simp, fun _ _ _ _ => rfl, fun _ _ _ _ => rfl⟩

theorem outEq_trans {a b c : S} {R : OId → Prop} (h1 : OutEq a b R) (h2 : OutEq b c R) : OutEq a c R := by
  obtain ⟨a1, a2, a3⟩ := h1
  obtain ⟨b1, b2, b3⟩ := h2
  refine ⟨fun x hx => ?_, fun i q hi hq => (a2 i q hi hq).trans (b2 i q hi hq), fun d i hd hi => (a3 d i hd hi).trans (b3 d i hd hi)⟩
  have p := a1 x hx
  have q := b1 x hx
  grind

theorem mem_flat_in (s : S) (R : OId → Prop) (d y : OId) (hs : Sep s R) (hd : R d) (h : y ∈ s.flat d) : R y := by
  simp only [S.flat, List.mem_flatMap] at h
  obtain ⟨p, hp, hq⟩ := h
  exact (hs.pins p y hq).1 ((hs.ports d p hp).1 hd)

theorem partner_in (s : S) (R : OId → Prop) (d d' q q' : OId) (hs : Sep s R) (hd : R d) (hd' : R d')
    (h : s.partner d d' q = some q') : R q ∧ R q' := by
  have := lookup_zip_mem _ _ q q' h
  exact ⟨mem_flat_in s R d q hs hd this.1, mem_flat_in s R d' q' hs hd' this.2⟩

theorem sep_firstRef (s : S) (R : OId → Prop) (i d' : OId) (hs : Sep s R) (hi : R i) (hd : R d') :
    Sep (s.firstRef i d') R ∧ OutEq (s.firstRef i d') s R := by
  have hf : ∀ y, y ∈ s.flat d' → R y := fun y hy => mem_flat_in s R d' y hs hd hy
  obtain ⟨b1,b2,b3,b4,b5,b6,b7,b8,b9,b10,b11,b12,b13,b14,b15,b16,b17,b18,b19,b20,b21,b22⟩ := hs
  simp only [S.firstRef]
  refine ⟨?_, ?_⟩ <;> constructor <;> grind

theorem sep_dropRef (s : S) (R : OId → Prop) (i : OId) (hs : Sep s R) (hi : R i) :
    Sep (s.dropRef i) R ∧ OutEq (s.dropRef i) s R := by
  obtain ⟨b1,b2,b3,b4,b5,b6,b7,b8,b9,b10,b11,b12,b13,b14,b15,b16,b17,b18,b19,b20,b21,b22⟩ := hs
  have hkeep : ∀ w, ¬ R w → (s.wirePins w).filter (fun r => !r.isOuterOf i) = s.wirePins w := by
    intro w hw
    rw [List.filter_eq_self]
    intro r hr
    cases r with
    | inner q => rfl
    | outer i' q =>
      simp only [PinRef.isOuterOf, Bool.not_eq_true', beq_eq_false_iff_ne, ne_eq]
      intro e; subst e
      exact hw ((b21 w i' q hr).1.2 hi)
  simp only [S.dropRef]
  refine ⟨?_, ?_⟩ <;> constructor <;> grind [PinRef.isOuterOf]

theorem sep_repoint (s : S) (R : OId → Prop) (i d d' : OId) (hs : Sep s R) (hi : R i) (hr : s.instRef i = some d) (hd' : R d') :
    Sep (s.repoint i d d') R ∧ OutEq (s.repoint i d d') s R := by
  have hd : R d := (hs.instRef i d hr).1 hi
  have hf : ∀ y, y ∈ s.flat d' → R y := fun y hy => mem_flat_in s R d' y hs hd' hy
  have hp := fun q q' => partner_in s R d d' q q' hs hd hd'
  have hp' := fun q q' => partner_in s R d' d q q' hs hd' hd
  obtain ⟨b1,b2,b3,b4,b5,b6,b7,b8,b9,b10,b11,b12,b13,b14,b15,b16,b17,b18,b19,b20,b21,b22⟩ := hs
  -- on outside wires the re-keying map changes nothing
  have hmap : ∀ w, ¬ R w → (s.wirePins w).map (fun r => match r with
        | .inner q => PinRef.inner q
        | .outer i' q => if i' = i then (match s.partner d d' q with
                                          | some q' => PinRef.outer i q'
                                          | none => PinRef.outer i' q) else PinRef.outer i' q) = s.wirePins w := by
    intro w hw
    conv => rhs; rw [← List.map_id (s.wirePins w)]
    apply List.map_congr_left
    intro r hr'
    cases r with
    | inner q => rfl
    | outer i' q =>
      have hne : i' ≠ i := by intro e; subst e; exact hw ((b21 w i' q hr').1.2 hi)
      simp [hne]
  simp only [S.repoint, S.repointWith]
  refine ⟨⟨b1,b2,b3,b4,b5,b6,b7,b8,?_,?_,b11,b12,b13,b14,b15,b16,b17,b18,?_,?_,?_,?_⟩, ⟨?_, ?_, ?_⟩⟩
  · intro i' q' w h
    by_cases e : i' = i
    · subst e
      simp only [if_true] at h
      cases hg : s.partner d' d q' with
      | none => simp [hg] at h
      | some q =>
        simp only [hg] at h
        have h9 := b9 i' q w h
        have hq' := (hp' q' q hg).1
        have hw : R w := h9.1.1 hi
        exact ⟨iff_of_true hi hw, iff_of_true hq' hw⟩
    · simp only [if_neg e] at h
      exact b9 i' q' w h
  · intro x y h
    by_cases e : x = i
    · subst e; simp at h; subst h
      exact iff_of_true hi hd'
    · simp only [if_neg e] at h; exact b10 x y h
  · intro x y h
    by_cases e : x = i
    · subst e; simp only [if_true] at h
      exact iff_of_true hi (hf y h)
    · simp only [if_neg e] at h; exact b19 x y h
  · intro w q h
    simp only [List.mem_map] at h
    obtain ⟨r, hr', he⟩ := h
    cases r with
    | inner q0 => simp at he; subst he; exact b20 w q0 hr'
    | outer i0 q0 =>
      simp only at he
      split at he
      · split at he <;> cases he
      · cases he
  · intro w i' q h
    simp only [List.mem_map] at h
    obtain ⟨r, hr', he⟩ := h
    cases r with
    | inner q0 => simp at he
    | outer i0 q0 =>
      have hb0 := b21 w i0 q0 hr'
      simp only at he
      split at he
      · rename_i e0
        split at he
        · rename_i q1 hq1
          simp only [PinRef.outer.injEq] at he
          obtain ⟨rfl, rfl⟩ := he
          have hw : R w := hb0.1.2 (e0 ▸ hi)
          exact ⟨iff_of_true hw hi, iff_of_true hw (hp q0 q1 hq1).2⟩
        · simp only [PinRef.outer.injEq] at he
          obtain ⟨rfl, rfl⟩ := he
          exact hb0
      · simp only [PinRef.outer.injEq] at he
        obtain ⟨rfl, rfl⟩ := he
        exact hb0
  · intro e i' h
    by_cases e1 : i' = i
    · subst e1; simp at h; subst h
      exact iff_of_true hd' hi
    · simp only [if_neg e1] at h; exact b22 e i' h
  · intro x hx
    have hxi : x ≠ i := fun e => hx (e ▸ hi)
    simp only [hxi, if_false, true_and, and_true]
    exact hmap x hx
  · intro i' q hi' hq
    have : i' ≠ i := fun e => hi' (e ▸ hi)
    simp [this]
  · intro e i' he hi'
    have : i' ≠ i := fun e1 => hi' (e1 ▸ hi)
    simp [this]

end Spydr.IR
