import Spydr.IR.SepOps0
namespace Spydr.IR

theorem lowEq_refl (s : S) (off : OId) : LowEq s s off :=
  ⟨fun _ _ => by simp, fun _ _ _ _ => rfl, fun _ _ _ _ => rfl⟩

theorem lowEq_trans {a b c : S} {off : OId} (h1 : LowEq a b off) (h2 : LowEq b c off) : LowEq a c off := by
  obtain ⟨a1, a2, a3⟩ := h1
  obtain ⟨b1, b2, b3⟩ := h2
  refine ⟨fun x hx => ?_, fun i q hi hq => (a2 i q hi hq).trans (b2 i q hi hq), fun d i hd hi => (a3 d i hd hi).trans (b3 d i hd hi)⟩
  have p := a1 x hx
  have q := b1 x hx
  grind

theorem mem_flat_high (s : S) (off d y : OId) (hs : Sep s off) (hd : off ≤ d) (h : y ∈ s.flat d) : off ≤ y := by
  simp only [S.flat, List.mem_flatMap] at h
  obtain ⟨p, hp, hq⟩ := h
  have h1 := hs.ports d p hp
  have h2 := hs.pins p y hq
  have hd' : ¬ d < off := Nat.not_lt.mpr hd
  have hp' : ¬ p < off := fun h => hd' (h1.2 h)
  exact Nat.not_lt.mp (fun h => hp' (h2.2 h))

theorem partner_high (s : S) (off d d' q q' : OId) (hs : Sep s off) (hd : off ≤ d) (hd' : off ≤ d')
    (h : s.partner d d' q = some q') : off ≤ q ∧ off ≤ q' := by
  have := lookup_zip_mem _ _ q q' h
  exact ⟨mem_flat_high s off d q hs hd this.1, mem_flat_high s off d' q' hs hd' this.2⟩

theorem sep_firstRef (s : S) (off i d' : OId) (hs : Sep s off) (hi : off ≤ i) (hd : off ≤ d') :
    Sep (s.firstRef i d') off ∧ LowEq (s.firstRef i d') s off := by
  have hf : ∀ y, y ∈ s.flat d' → off ≤ y := fun y hy => mem_flat_high s off d' y hs hd hy
  obtain ⟨b1,b2,b3,b4,b5,b6,b7,b8,b9,b10,b11,b12,b13,b14,b15,b16,b17,b18,b19,b20,b21,b22⟩ := hs
  simp only [S.firstRef]
  refine ⟨?_, ?_⟩ <;> constructor <;> grind

theorem sep_dropRef (s : S) (off i : OId) (hs : Sep s off) (hi : off ≤ i) :
    Sep (s.dropRef i) off ∧ LowEq (s.dropRef i) s off := by
  obtain ⟨b1,b2,b3,b4,b5,b6,b7,b8,b9,b10,b11,b12,b13,b14,b15,b16,b17,b18,b19,b20,b21,b22⟩ := hs
  have hkeep : ∀ w, w < off → (s.wirePins w).filter (fun r => !r.isOuterOf i) = s.wirePins w := by
    intro w hw
    rw [List.filter_eq_self]
    intro r hr
    cases r with
    | inner q => rfl
    | outer i' q =>
      simp only [PinRef.isOuterOf, Bool.not_eq_true', beq_eq_false_iff_ne, ne_eq]
      intro e; subst e
      have := (b21 w i' q hr).1.1 hw
      exact absurd this (Nat.not_lt.mpr hi)
  simp only [S.dropRef]
  refine ⟨?_, ?_⟩ <;> constructor <;> grind [PinRef.isOuterOf]

theorem sep_repoint (s : S) (off i d d' : OId) (hs : Sep s off) (hi : off ≤ i) (hr : s.instRef i = some d) (hd' : off ≤ d') :
    Sep (s.repoint i d d') off ∧ LowEq (s.repoint i d d') s off := by
  have hd : off ≤ d := by
    have := hs.instRef i d hr
    exact Nat.not_lt.mp (fun h => (Nat.not_lt.mpr hi) (this.2 h))
  have hf : ∀ y, y ∈ s.flat d' → off ≤ y := fun y hy => mem_flat_high s off d' y hs hd' hy
  have hp := fun q q' => partner_high s off d d' q q' hs hd hd'
  have hp' := fun q q' => partner_high s off d' d q q' hs hd' hd
  have nlt : ∀ {a : OId}, off ≤ a → ¬ a < off := fun h => Nat.not_lt.mpr h
  obtain ⟨b1,b2,b3,b4,b5,b6,b7,b8,b9,b10,b11,b12,b13,b14,b15,b16,b17,b18,b19,b20,b21,b22⟩ := hs
  -- on low wires the re-keying map changes nothing
  have hmap : ∀ w, w < off → (s.wirePins w).map (fun r => match r with
        | .inner q => PinRef.inner q
        | .outer i' q => if i' = i then (match s.partner d d' q with
                                          | some q' => PinRef.outer i q'
                                          | none => PinRef.outer i' q) else PinRef.outer i' q) = s.wirePins w := by
    intro w hw
    conv => rhs; rw [← List.map_id (s.wirePins w)]
    apply List.map_congr_left
    intro r hr'
    cases r with
    | inner q => rfl
    | outer i' q =>
      have := (b21 w i' q hr').1.1 hw
      have hne : i' ≠ i := by intro e; subst e; exact nlt hi this
      simp [hne]
  simp only [S.repoint, S.repointWith]
  refine ⟨⟨b1,b2,b3,b4,b5,b6,b7,b8,?_,?_,b11,b12,b13,b14,b15,b16,b17,b18,?_,?_,?_,?_⟩, ⟨?_, ?_, ?_⟩⟩
  · intro i' q' w h
    by_cases e : i' = i
    · subst e
      simp only [if_true] at h
      cases hg : s.partner d' d q' with
      | none => simp [hg] at h
      | some q =>
        simp only [hg] at h
        have h9 := b9 i' q w h
        have hq' := (hp' q' q hg).1
        have hw : ¬ w < off := fun hw => nlt hi (h9.1.2 hw)
        exact ⟨⟨fun a => absurd a (nlt hi), fun a => absurd a hw⟩, ⟨fun a => absurd a (nlt hq'), fun a => absurd a hw⟩⟩
    · simp only [if_neg e] at h
      exact b9 i' q' w h
  · intro x y h
    by_cases e : x = i
    · subst e; simp at h; subst h
      exact ⟨fun a => absurd a (nlt hi), fun a => absurd a (nlt hd')⟩
    · simp only [if_neg e] at h; exact b10 x y h
  · intro x y h
    by_cases e : x = i
    · subst e; simp only [if_true] at h
      exact ⟨fun a => absurd a (nlt hi), fun a => absurd a (nlt (hf y h))⟩
    · simp only [if_neg e] at h; exact b19 x y h
  · intro w q h
    simp only [List.mem_map] at h
    obtain ⟨r, hr', he⟩ := h
    cases r with
    | inner q0 => simp at he; subst he; exact b20 w q0 hr'
    | outer i0 q0 =>
      simp only at he
      split at he
      · split at he <;> cases he
      · cases he
  · intro w i' q h
    simp only [List.mem_map] at h
    obtain ⟨r, hr', he⟩ := h
    cases r with
    | inner q0 => simp at he
    | outer i0 q0 =>
      have hb0 := b21 w i0 q0 hr'
      simp only at he
      split at he
      · rename_i e0
        split at he
        · rename_i q1 hq1
          simp only [PinRef.outer.injEq] at he
          obtain ⟨rfl, rfl⟩ := he
          have hw : ¬ w < off := fun hw => nlt hi (e0 ▸ hb0.1.1 hw)
          exact ⟨⟨fun a => absurd a hw, fun a => absurd a (nlt hi)⟩, ⟨fun a => absurd a hw, fun a => absurd a (nlt (hp q0 q1 hq1).2)⟩⟩
        · simp only [PinRef.outer.injEq] at he
          obtain ⟨rfl, rfl⟩ := he
          exact hb0
      · simp only [PinRef.outer.injEq] at he
        obtain ⟨rfl, rfl⟩ := he
        exact hb0
  · intro e i' h
    by_cases e1 : i' = i
    · subst e1; simp at h; subst h
      exact ⟨fun a => absurd a (nlt hd'), fun a => absurd a (nlt hi)⟩
    · simp only [if_neg e1] at h; exact b22 e i' h
  · intro x hx
    have hxi : x ≠ i := fun e => nlt hi (e ▸ hx)
    simp only [hxi, if_false, true_and, and_true]
    exact hmap x hx
  · intro i' q hi' hq
    have : i' ≠ i := fun e => nlt hi (e ▸ hi')
    simp [this]
  · intro e i' he hi'
    have : i' ≠ i := fun e1 => nlt hi (e1 ▸ hi')
    simp [this]

end Spydr.IR
