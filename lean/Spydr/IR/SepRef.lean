import Spydr.IR.SepOps0
namespace Spydr.IR

theorem lowEq_refl (s : S) (off : OId) : LowEq s s off :=
  ⟨fun _ _ => by simp, fun _ _ _ _ => rfl, fun _ _ _ _ => rfl⟩

theorem lowEq_trans {a b c : S} {off : OId} (h1 : LowEq a b off) (h2 : LowEq b c off) : LowEq a c off := by
  obtain ⟨a1, a2, a3⟩ := h1
  obtain ⟨b1, b2, b3⟩ := h2
  refine ⟨fun x hx => ?_, fun i q hi hq => (a2 i q hi hq).trans (b2 i q hi hq), fun d i hd hi => (a3 d i hd hi).trans (b3 d i hd hi)⟩
  have p := a1 x hx
  have q := b1 x hx
  grind

theorem mem_flat_high (s : S) (off d y : OId) (hs : Sep s off) (hd : off ≤ d) (h : y ∈ s.flat d) : off ≤ y := by
  simp only [S.flat, List.mem_flatMap] at h
  obtain ⟨p, hp, hq⟩ := h
  have h1 := hs.ports d p hp
  have h2 := hs.pins p y hq
  omega

theorem partner_high (s : S) (off d d' q q' : OId) (hs : Sep s off) (hd : off ≤ d) (hd' : off ≤ d')
    (h : s.partner d d' q = some q') : off ≤ q ∧ off ≤ q' := by
  have := lookup_zip_mem _ _ q q' h
  exact ⟨mem_flat_high s off d q hs hd this.1, mem_flat_high s off d' q' hs hd' this.2⟩

theorem sep_firstRef (s : S) (off i d' : OId) (hs : Sep s off) (hi : off ≤ i) (hd : off ≤ d') :
    Sep (s.firstRef i d') off ∧ LowEq (s.firstRef i d') s off := by
  have hf : ∀ y, y ∈ s.flat d' → off ≤ y := fun y hy => mem_flat_high s off d' y hs hd hy
  obtain ⟨b1,b2,b3,b4,b5,b6,b7,b8,b9,b10,b11,b12,b13,b14,b15,b16,b17,b18,b19,b20,b21,b22⟩ := hs
  simp only [S.firstRef]
  refine ⟨?_, ?_⟩ <;> constructor <;> grind

theorem sep_dropRef (s : S) (off i : OId) (hs : Sep s off) (hi : off ≤ i) :
    Sep (s.dropRef i) off ∧ LowEq (s.dropRef i) s off := by
  obtain ⟨b1,b2,b3,b4,b5,b6,b7,b8,b9,b10,b11,b12,b13,b14,b15,b16,b17,b18,b19,b20,b21,b22⟩ := hs
  simp only [S.dropRef]
  refine ⟨?_, ?_⟩ <;> constructor <;> grind [List.filter_eq_self, PinRef.isOuterOf]

end Spydr.IR
