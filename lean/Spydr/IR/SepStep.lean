import Spydr.IR.SepOps1
import Spydr.IR.SepOps2
import Spydr.IR.SepOps3
import Spydr.IR.SepOps4
import Spydr.IR.SepOps5
import Spydr.IR.SepOps6
import Spydr.IR.SepRef
namespace Spydr.IR

theorem sep_setRef (s : S) (R : OId → Prop) (i d) : Sep s R → (Op.setRef i d).inside R →
    Sep (step s (.setRef i d)).1 R ∧ OutEq (step s (.setRef i d)).1 s R := by
  intro hs ho
  simp only [Op.inside] at ho
  simp only [step, S.setRefStep]
  cases d with
  | none => exact sep_dropRef s R i hs ho.1
  | some d' =>
    have hd : R d' := by simpa [optIn] using ho.2
    cases hr : s.instRef i with
    | none => exact sep_firstRef s R i d' hs ho.1 hd
    | some d0 =>
      simp only []
      split
      · exact ⟨hs, outEq_refl s R⟩
      · exact sep_repoint s R i d0 d' hs ho.1 hr hd

theorem sep_addChildTail (s1 s : S) (R : OId → Prop) (d i : OId) (h1 : Sep s1 R ∧ OutEq s1 s R) (hd : R d) (hi : R i) :
    Sep { s1 with children := fun d' => if d' = d then s1.children d' ++ [i] else s1.children d'
                  instParent := fun i' => if i' = i then some d else s1.instParent i' } R ∧
    OutEq { s1 with children := fun d' => if d' = d then s1.children d' ++ [i] else s1.children d'
                    instParent := fun i' => if i' = i then some d else s1.instParent i' } s R := by
  obtain ⟨⟨b1,b2,b3,b4,b5,b6,b7,b8,b9,b10,b11,b12,b13,b14,b15,b16,b17,b18,b19,b20,b21,b22⟩, ⟨l1, l2, l3⟩⟩ := h1
  refine ⟨?_, ?_⟩
  · refine ⟨b1,b2,b3,b4,?_,b6,b7,b8,b9,b10,b11,b12,b13,b14,b15,?_,b17,b18,b19,b20,b21,b22⟩
    · intro x y h
      by_cases e : x = i
      · subst e; simp at h; subst h
        exact iff_of_true hi hd
      · simp only [if_neg e] at h; exact b5 x y h
    · intro x y h
      by_cases e : x = d
      · subst e
        simp only [if_true, List.mem_append, List.mem_singleton] at h
        rcases h with h | h
        · exact b16 x y h
        · subst h
          exact iff_of_true hd hi
      · simp only [if_neg e] at h; exact b16 x y h
  · refine ⟨?_, l2, l3⟩
    intro x hx
    have := l1 x hx
    have hxd : x ≠ d := fun e => hx (e ▸ hd)
    have hxi : x ≠ i := fun e => hx (e ▸ hi)
    simp only [hxd, hxi, if_false]
    exact this

theorem sep_createChild (s : S) (R : OId → Prop) (d i ref veto) : Sep s R → (Op.createChild d i ref veto).inside R →
    Sep (step s (.createChild d i ref veto)).1 R ∧ OutEq (step s (.createChild d i ref veto)).1 s R := by
  intro hs ho
  simp only [Op.inside] at ho
  cases ref with
  | none =>
    simp only [step]
    split
    · exact ⟨hs, outEq_refl s R⟩
    · split
      · exact ⟨hs, outEq_refl s R⟩
      · exact sep_addChildTail s s R d i ⟨hs, outEq_refl s R⟩ ho.1 ho.2.1
  | some r =>
    simp only [step]
    split
    · exact ⟨hs, outEq_refl s R⟩
    · split
      · exact ⟨hs, outEq_refl s R⟩
      · exact sep_addChildTail (s.firstRef i r) s R d i
          (sep_firstRef s R i r hs ho.2.1 (by simpa [optIn] using ho.2.2)) ho.1 ho.2.1

theorem sep_setTopDef (s : S) (R : OId → Prop) (n d t) : Sep s R → (Op.setTopDef n d t).inside R →
    Sep (step s (.setTopDef n d t)).1 R ∧ OutEq (step s (.setTopDef n d t)).1 s R := by
  intro hs ho
  simp only [Op.inside] at ho
  simp only [step]
  split
  · exact ⟨hs, outEq_refl s R⟩
  · obtain ⟨⟨b1,b2,b3,b4,b5,b6,b7,b8,b9,b10,b11,b12,b13,b14,b15,b16,b17,b18,b19,b20,b21,b22⟩, ⟨l1, l2, l3⟩⟩ :=
      sep_firstRef s R t d hs ho.2.2 ho.2.1
    refine ⟨?_, ?_⟩
    · refine ⟨b1,b2,b3,b4,b5,b6,b7,b8,b9,b10,?_,b12,b13,b14,b15,b16,b17,b18,b19,b20,b21,b22⟩
      intro x y h
      by_cases e : x = n
      · subst e; simp at h; subst h
        exact iff_of_true ho.1 ho.2.2
      · simp only [if_neg e] at h; exact b11 x y h
    · refine ⟨?_, l2, l3⟩
      intro x hx
      have := l1 x hx
      have hxn : x ≠ n := fun e => hx (e ▸ ho.1)
      simp only [hxn, if_false]
      exact this

/-- a call confined to a region keeps the regions separated and leaves everything outside it alone -/
theorem step_sep (s : S) (R : OId → Prop) (op : Op) (hs : Sep s R) (ho : op.inside R) :
    Sep (step s op).1 R ∧ OutEq (step s op).1 s R := by
  cases op with
  | addLibrary n l pos veto => exact sep_addLibrary s R n l pos veto hs ho
  | removeLibrary n l => exact sep_removeLibrary s R n l hs ho
  | removeLibrariesFrom n ls => exact sep_removeLibrariesFrom s R n ls hs ho
  | setLibraries n ls => exact sep_setLibraries s R n ls hs ho
  | addDefinition l d pos veto => exact sep_addDefinition s R l d pos veto hs ho
  | removeDefinition l d => exact sep_removeDefinition s R l d hs ho
  | removeDefinitionsFrom l ds => exact sep_removeDefinitionsFrom s R l ds hs ho
  | setDefinitions l ds => exact sep_setDefinitions s R l ds hs ho
  | addPort d p pos veto => exact sep_addPort s R d p pos veto hs ho
  | removePort d p => exact sep_removePort s R d p hs ho
  | removePortsFrom d ps => exact sep_removePortsFrom s R d ps hs ho
  | setPorts d ps => exact sep_setPorts s R d ps hs ho
  | addCable d c pos veto => exact sep_addCable s R d c pos veto hs ho
  | removeCable d c => exact sep_removeCable s R d c hs ho
  | removeCablesFrom d cs => exact sep_removeCablesFrom s R d cs hs ho
  | setCables d cs => exact sep_setCables s R d cs hs ho
  | addChild d i pos veto => exact sep_addChild s R d i pos veto hs ho
  | removeChild d i => exact sep_removeChild s R d i hs ho
  | removeChildrenFrom d is => exact sep_removeChildrenFrom s R d is hs ho
  | setChildren d is => exact sep_setChildren s R d is hs ho
  | createChild d i ref veto => exact sep_createChild s R d i ref veto hs ho
  | addPin p q pos => exact sep_addPin s R p q pos hs ho
  | removePin p q => exact sep_removePin s R p q hs ho
  | removePinsFrom p qs => exact sep_removePinsFrom s R p qs hs ho
  | setPins p qs => exact sep_setPins s R p qs hs ho
  | addWire c w pos => exact sep_addWire s R c w pos hs ho
  | removeWire c w => exact sep_removeWire s R c w hs ho
  | removeWiresFrom c ws => exact sep_removeWiresFrom s R c ws hs ho
  | setWires c ws => exact sep_setWires s R c ws hs ho
  | connectInner w q pos => exact sep_connectInner s R w q pos hs ho
  | connectOuter w i q pos => exact sep_connectOuter s R w i q pos hs ho
  | disconnect w r => exact sep_disconnect s R w r hs ho
  | disconnectFrom w rs => exact sep_disconnectFrom s R w rs hs ho
  | setWirePins w rs => exact sep_setWirePins s R w rs hs ho
  | setRef i d => exact sep_setRef s R i d hs ho
  | setTop n i => exact sep_setTop s R n i hs ho
  | setTopDef n d t => exact sep_setTopDef s R n d t hs ho

/-- any history of calls confined to a region never shows outside it -/
theorem run_sep (R : OId → Prop) (ops : List Op) (s : S) (hs : Sep s R) (ho : ∀ op ∈ ops, op.inside R) :
    Sep (run s ops).1 R ∧ OutEq (run s ops).1 s R := by
  induction ops generalizing s with
  | nil => exact ⟨hs, outEq_refl s R⟩
  | cons op ops ih =>
    simp only [run]
    have h1 := step_sep s R op hs (ho op (by simp))
    have h2 := ih (step s op).1 h1.1 (fun o h => ho o (by simp [h]))
    exact ⟨h2.1, outEq_trans h2.2 h1.2⟩

end Spydr.IR
