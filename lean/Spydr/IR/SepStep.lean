import Spydr.IR.SepOps1
import Spydr.IR.SepOps2
import Spydr.IR.SepOps3
import Spydr.IR.SepOps4
import Spydr.IR.SepOps5
import Spydr.IR.SepOps6
import Spydr.IR.SepRef
namespace Spydr.IR

theorem sep_setRef (s : S) (off i d) : Sep s off → (Op.setRef i d).above off →
    Sep (step s (.setRef i d)).1 off ∧ LowEq (step s (.setRef i d)).1 s off := by
  intro hs ho
  simp only [Op.above] at ho
  simp only [step, S.setRefStep]
  cases d with
  | none => exact sep_dropRef s off i hs ho.1
  | some d' =>
    have hd : off ≤ d' := by simpa [optAbove] using ho.2
    cases hr : s.instRef i with
    | none => exact sep_firstRef s off i d' hs ho.1 hd
    | some d0 =>
      simp only []
      split
      · exact ⟨hs, lowEq_refl s off⟩
      · exact sep_repoint s off i d0 d' hs ho.1 hr hd

theorem sep_addChildTail (s1 s : S) (off d i : OId) (h1 : Sep s1 off ∧ LowEq s1 s off) (hd : off ≤ d) (hi : off ≤ i) :
    Sep { s1 with children := fun d' => if d' = d then s1.children d' ++ [i] else s1.children d'
                  instParent := fun i' => if i' = i then some d else s1.instParent i' } off ∧
    LowEq { s1 with children := fun d' => if d' = d then s1.children d' ++ [i] else s1.children d'
                    instParent := fun i' => if i' = i then some d else s1.instParent i' } s off := by
  obtain ⟨⟨b1,b2,b3,b4,b5,b6,b7,b8,b9,b10,b11,b12,b13,b14,b15,b16,b17,b18,b19,b20,b21,b22⟩, ⟨l1, l2, l3⟩⟩ := h1
  refine ⟨?_, ?_⟩
  · refine ⟨b1,b2,b3,b4,?_,b6,b7,b8,b9,b10,b11,b12,b13,b14,b15,?_,b17,b18,b19,b20,b21,b22⟩
    · intro x y h
      by_cases e : x = i
      · subst e; simp at h; subst h
        exact ⟨fun a => absurd a (Nat.not_lt.mpr hi), fun a => absurd a (Nat.not_lt.mpr hd)⟩
      · simp only [if_neg e] at h; exact b5 x y h
    · intro x y h
      by_cases e : x = d
      · subst e
        simp only [if_true, List.mem_append, List.mem_singleton] at h
        rcases h with h | h
        · exact b16 x y h
        · subst h
          exact ⟨fun a => absurd a (Nat.not_lt.mpr hd), fun a => absurd a (Nat.not_lt.mpr hi)⟩
      · simp only [if_neg e] at h; exact b16 x y h
  · refine ⟨?_, l2, l3⟩
    intro x hx
    have := l1 x hx
    have hxd : x ≠ d := fun e => (Nat.not_lt.mpr hd) (e ▸ hx)
    have hxi : x ≠ i := fun e => (Nat.not_lt.mpr hi) (e ▸ hx)
    simp only [hxd, hxi, if_false]
    exact this

theorem sep_createChild (s : S) (off d i ref veto) : Sep s off → (Op.createChild d i ref veto).above off →
    Sep (step s (.createChild d i ref veto)).1 off ∧ LowEq (step s (.createChild d i ref veto)).1 s off := by
  intro hs ho
  simp only [Op.above] at ho
  cases ref with
  | none =>
    simp only [step]
    split
    · exact ⟨hs, lowEq_refl s off⟩
    · split
      · exact ⟨hs, lowEq_refl s off⟩
      · exact sep_addChildTail s s off d i ⟨hs, lowEq_refl s off⟩ ho.1 ho.2.1
  | some r =>
    simp only [step]
    split
    · exact ⟨hs, lowEq_refl s off⟩
    · split
      · exact ⟨hs, lowEq_refl s off⟩
      · exact sep_addChildTail (s.firstRef i r) s off d i
          (sep_firstRef s off i r hs ho.2.1 (by simpa [optAbove] using ho.2.2)) ho.1 ho.2.1

theorem sep_setTopDef (s : S) (off n d t) : Sep s off → (Op.setTopDef n d t).above off →
    Sep (step s (.setTopDef n d t)).1 off ∧ LowEq (step s (.setTopDef n d t)).1 s off := by
  intro hs ho
  simp only [Op.above] at ho
  simp only [step]
  split
  · exact ⟨hs, lowEq_refl s off⟩
  · obtain ⟨⟨b1,b2,b3,b4,b5,b6,b7,b8,b9,b10,b11,b12,b13,b14,b15,b16,b17,b18,b19,b20,b21,b22⟩, ⟨l1, l2, l3⟩⟩ :=
      sep_firstRef s off t d hs ho.2.2 ho.2.1
    refine ⟨?_, ?_⟩
    · refine ⟨b1,b2,b3,b4,b5,b6,b7,b8,b9,b10,?_,b12,b13,b14,b15,b16,b17,b18,b19,b20,b21,b22⟩
      intro x y h
      by_cases e : x = n
      · subst e; simp at h; subst h
        exact ⟨fun a => absurd a (Nat.not_lt.mpr ho.1), fun a => absurd a (Nat.not_lt.mpr ho.2.2)⟩
      · simp only [if_neg e] at h; exact b11 x y h
    · refine ⟨?_, l2, l3⟩
      intro x hx
      have := l1 x hx
      have hxn : x ≠ n := fun e => (Nat.not_lt.mpr ho.1) (e ▸ hx)
      simp only [hxn, if_false]
      exact this

/-- a call confined to the high region keeps the regions separated and leaves the low region alone -/
theorem step_sep (s : S) (off : OId) (op : Op) (hs : Sep s off) (ho : op.above off) :
    Sep (step s op).1 off ∧ LowEq (step s op).1 s off := by
  cases op with
  | addLibrary n l pos veto => exact sep_addLibrary s off n l pos veto hs ho
  | removeLibrary n l => exact sep_removeLibrary s off n l hs ho
  | removeLibrariesFrom n ls => exact sep_removeLibrariesFrom s off n ls hs ho
  | setLibraries n ls => exact sep_setLibraries s off n ls hs ho
  | addDefinition l d pos veto => exact sep_addDefinition s off l d pos veto hs ho
  | removeDefinition l d => exact sep_removeDefinition s off l d hs ho
  | removeDefinitionsFrom l ds => exact sep_removeDefinitionsFrom s off l ds hs ho
  | setDefinitions l ds => exact sep_setDefinitions s off l ds hs ho
  | addPort d p pos veto => exact sep_addPort s off d p pos veto hs ho
  | removePort d p => exact sep_removePort s off d p hs ho
  | removePortsFrom d ps => exact sep_removePortsFrom s off d ps hs ho
  | setPorts d ps => exact sep_setPorts s off d ps hs ho
  | addCable d c pos veto => exact sep_addCable s off d c pos veto hs ho
  | removeCable d c => exact sep_removeCable s off d c hs ho
  | removeCablesFrom d cs => exact sep_removeCablesFrom s off d cs hs ho
  | setCables d cs => exact sep_setCables s off d cs hs ho
  | addChild d i pos veto => exact sep_addChild s off d i pos veto hs ho
  | removeChild d i => exact sep_removeChild s off d i hs ho
  | removeChildrenFrom d is => exact sep_removeChildrenFrom s off d is hs ho
  | setChildren d is => exact sep_setChildren s off d is hs ho
  | createChild d i ref veto => exact sep_createChild s off d i ref veto hs ho
  | addPin p q pos => exact sep_addPin s off p q pos hs ho
  | removePin p q => exact sep_removePin s off p q hs ho
  | removePinsFrom p qs => exact sep_removePinsFrom s off p qs hs ho
  | setPins p qs => exact sep_setPins s off p qs hs ho
  | addWire c w pos => exact sep_addWire s off c w pos hs ho
  | removeWire c w => exact sep_removeWire s off c w hs ho
  | removeWiresFrom c ws => exact sep_removeWiresFrom s off c ws hs ho
  | setWires c ws => exact sep_setWires s off c ws hs ho
  | connectInner w q pos => exact sep_connectInner s off w q pos hs ho
  | connectOuter w i q pos => exact sep_connectOuter s off w i q pos hs ho
  | disconnect w r => exact sep_disconnect s off w r hs ho
  | disconnectFrom w rs => exact sep_disconnectFrom s off w rs hs ho
  | setWirePins w rs => exact sep_setWirePins s off w rs hs ho
  | setRef i d => exact sep_setRef s off i d hs ho
  | setTop n i => exact sep_setTop s off n i hs ho
  | setTopDef n d t => exact sep_setTopDef s off n d t hs ho

/-- any history of calls confined to the high region never shows in the low region -/
theorem run_sep (off : OId) (ops : List Op) (s : S) (hs : Sep s off) (ho : ∀ op ∈ ops, op.above off) :
    Sep (run s ops).1 off ∧ LowEq (run s ops).1 s off := by
  induction ops generalizing s with
  | nil => exact ⟨hs, lowEq_refl s off⟩
  | cons op ops ih =>
    simp only [run]
    have h1 := step_sep s off op hs (ho op (by simp))
    have h2 := ih (step s op).1 h1.1 (fun o h => ho o (by simp [h]))
    exact ⟨h2.1, lowEq_trans h2.2 h1.2⟩

end Spydr.IR
