/-
  Specification predicates for C01 / C02 (written against the state only, not against `step`).
-/
import Spydr.IR.Model
namespace Spydr.IR

/-- The C01 + C02 invariant: containment both ways with no duplicates, the pin–wire relation both
    ways, reference sets, outer pins mirroring inner pins. -/
structure Inv (s : S) : Prop where
  -- C01: every container lists exactly the elements that name it as their parent, once each
  libs_iff   : ∀ n l, l ∈ s.libs n ↔ s.libNl l = some n
  libs_nd    : ∀ n, (s.libs n).Nodup
  defs_iff   : ∀ l d, d ∈ s.defs l ↔ s.defLib d = some l
  defs_nd    : ∀ l, (s.defs l).Nodup
  ports_iff  : ∀ d p, p ∈ s.ports d ↔ s.portDef p = some d
  ports_nd   : ∀ d, (s.ports d).Nodup
  cables_iff : ∀ d c, c ∈ s.cables d ↔ s.cableDef c = some d
  cables_nd  : ∀ d, (s.cables d).Nodup
  child_iff  : ∀ d i, i ∈ s.children d ↔ s.instParent i = some d
  child_nd   : ∀ d, (s.children d).Nodup
  pins_iff   : ∀ p q, q ∈ s.pins p ↔ s.pinPort q = some p
  pins_nd    : ∀ p, (s.pins p).Nodup
  wires_iff  : ∀ c w, w ∈ s.wires c ↔ s.wireCable w = some c
  wires_nd   : ∀ c, (s.wires c).Nodup
  -- C01: every pin reports exactly the one wire whose pin list contains it (once); a wire lists only
  -- pins that report it
  pw_iff     : ∀ q w, s.pinWire q = some w ↔ PinRef.inner q ∈ s.wirePins w
  ow_iff     : ∀ i q w, s.opWire i q = some w ↔ PinRef.outer i q ∈ s.wirePins w
  wp_nd      : ∀ w, (s.wirePins w).Nodup
  -- C02: reference sets
  refs_iff   : ∀ d i, s.refs d i = true ↔ s.instRef i = some d
  -- C02: exactly one outer pin per inner pin of the referenced definition
  mirror     : ∀ i d, s.instRef i = some d → ∀ q, q ∈ s.instPins i ↔ ∃ p, s.portDef p = some d ∧ s.pinPort q = some p
  mirror_nd  : ∀ i, (s.instPins i).Nodup
  noref      : ∀ i, s.instRef i = none → s.instPins i = []
  -- C02: an outer pin on a wire is one the instance still carries (dropped pins were taken off first)
  ow_owned   : ∀ i q w, s.opWire i q = some w → q ∈ s.instPins i

end Spydr.IR
