import Spydr.IR.Repoint
import Spydr.IR.StepInv2
import Spydr.IR.StepInv3
namespace Spydr.IR

theorem repoint_inv (s : S) (i d d' : OId) (h : Inv s) (hi : s.instRef i = some d)
    (hs : s.shape d = s.shape d') : Inv (s.repoint i d d') := by
  have hl := flat_length_of_shape s d d' hs
  have nd := flat_nodup s h d
  have nd' := flat_nodup s h d'
  have hmir : ∀ q, q ∈ s.instPins i ↔ q ∈ s.flat d := fun q => by
    rw [h.mirror i d hi q, mem_flat s h d q]
  apply repointWith_inv s i d d' _ _ _ h hi
  · intro q q'
    exact ⟨lookup_zip_symm _ _ nd nd' q q', lookup_zip_symm _ _ nd' nd q' q⟩
  · intro q hq
    exact lookup_zip_of_mem _ _ hl q ((hmir q).1 hq)
  · intro q'
    constructor
    · intro hq'
      obtain ⟨q, hq⟩ := lookup_zip_of_mem _ _ hl.symm q' hq'
      exact ⟨q, hq, (hmir q).2 (lookup_zip_mem _ _ q' q hq).2⟩
    · rintro ⟨q, hq, _⟩
      exact (lookup_zip_mem _ _ q' q hq).1
  · exact mem_flat s h d'
  · exact nd'

theorem setRef_inv (s : S) (i d) (h : Inv s) : Inv (step s (.setRef i d)).1 := by
  simp only [step, S.setRefStep]
  cases d with
  | none => exact dropRef_inv s i h
  | some d' =>
    cases hr : s.instRef i with
    | none => exact firstRef_inv s i d' h hr
    | some d0 =>
      simp only
      split
      · exact h
      · rename_i hs
        exact repoint_inv s i d0 d' h hr (by simpa using hs)

/-- **One step preserves the invariant**, for every operation and every argument (well-chosen or not),
    accepted or refused. -/
theorem step_inv (s : S) (op : Op) (h : Inv s) : Inv (step s op).1 := by
  cases op with
  | addLibrary n l pos veto => exact addLibrary_inv s n l pos veto h
  | removeLibrary n l => exact removeLibrary_inv s n l h
  | removeLibrariesFrom n ls => exact removeLibrariesFrom_inv s n ls h
  | setLibraries n ls => exact setLibraries_inv s n ls h
  | addDefinition l d pos veto => exact addDefinition_inv s l d pos veto h
  | removeDefinition l d => exact removeDefinition_inv s l d h
  | removeDefinitionsFrom l ds => exact removeDefinitionsFrom_inv s l ds h
  | setDefinitions l ds => exact setDefinitions_inv s l ds h
  | addPort d p pos veto => exact addPort_inv s d p pos veto h
  | removePort d p => exact removePort_inv s d p h
  | removePortsFrom d ps => exact removePortsFrom_inv s d ps h
  | setPorts d ps => exact setPorts_inv s d ps h
  | addCable d c pos veto => exact addCable_inv s d c pos veto h
  | removeCable d c => exact removeCable_inv s d c h
  | removeCablesFrom d cs => exact removeCablesFrom_inv s d cs h
  | setCables d cs => exact setCables_inv s d cs h
  | addChild d i pos veto => exact addChild_inv s d i pos veto h
  | removeChild d i => exact removeChild_inv s d i h
  | removeChildrenFrom d is => exact removeChildrenFrom_inv s d is h
  | setChildren d is => exact setChildren_inv s d is h
  | createChild d i ref veto => exact createChild_inv s d i ref veto h
  | addPin p q pos => exact addPin_inv s p q pos h
  | removePin p q => exact removePin_inv s p q h
  | removePinsFrom p qs => exact removePinsFrom_inv s p qs h
  | setPins p qs => exact setPins_inv s p qs h
  | addWire c w pos => exact addWire_inv s c w pos h
  | removeWire c w => exact removeWire_inv s c w h
  | removeWiresFrom c ws => exact removeWiresFrom_inv s c ws h
  | setWires c ws => exact setWires_inv s c ws h
  | connectInner w q pos => exact connectInner_inv s w q pos h
  | connectOuter w i q pos => exact connectOuter_inv s w i q pos h
  | disconnect w r => exact disconnect_inv s w r h
  | disconnectFrom w rs => exact disconnectFrom_inv s w rs h
  | setWirePins w rs => exact setWirePins_inv s w rs h
  | setRef i d => exact setRef_inv s i d h
  | setTop n i => exact setTop_inv s n i h
  | setTopDef n d t => exact setTopDef_inv s n d t h

theorem init_inv : Inv S.init := by
  constructor <;> simp [S.init]

end Spydr.IR
